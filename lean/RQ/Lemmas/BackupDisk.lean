import RQ.Lemmas.RefineBackup
import RQ.Lemmas.SaveFlush
import RQ.Lemmas.TightSave
import RQ.Props.C08
import RQ.Lemmas.DiskTree
/-!
# C08 on disk: what is below `.pc` after a push

`RQ/Props/C08.lean` says which `saveBackup` calls the driver makes and which state each call carries.  Here the
calls are followed to the file system:

* (1) `saveBackup_disk`: a successful `saveBackup` leaves at its own path exactly the state it was given (content,
  permission bits, 644 when the state has none) and changes no other file;  `saveBackups_disk`: after the whole list of
  calls a path holds the state of the last call that wrote to it.
* (2) `lastCall_split`, `PcKeysApart`, `saveBackups_lastCall`: when the backup paths of different (patch, file) slots
  are different, the path of a slot holds the state `lastCall` names.  Nothing has to be assumed about one path being a
  directory of another: `saveBackups` *fails* in that case (a regular file is in the way of `create_dir_all`, or a
  directory in the way of `remove_file`), so under `= .ok` plain inequality of the paths is enough.
* (3) `applyLoop_patchNames`: the patch name a `Status` records is the name of the series entry with its index, so
  two calls for the same patch index go below the same directory.
* (4) `applyPatches_backups_run`: a successful `applyPatches` with backups due has run `saveBackups` on exactly
  `backupCalls`.
* (5) `applyRange_canon`: in the abstract tree a file that does not exist has neither lines nor permissions.
* (6) the negative half: `saveAll`, `cleanAll`, `saveRejFiles` leave every path below `.pc` as it is (`OutOnly`) when
  the names in the cache and the reject names are outside `.pc`; `applyLoop_out` derives that from the patches
  (`NamesSat (¬ isPcKey)`, which `Compose.Clean` implies).
* (7) `pcKeysApart_of_distinct`: `PcKeysApart` holds when no two entries of the range name the same patch file.
* (8) `saveBackups_ok_no_prefix`: in a successful `saveBackups` no backup path is a directory of another.
-/
namespace RQ.BackupDisk
open RQ RQ.Push RQ.Abs RQ.Flush RQ.Parse RQ.Write

/-! ## (1) one backup call, then all of them -/

/-- a successful `saveBackup`: its path holds the state handed over, every other file is as before -/
theorem saveBackup_disk {w w' : World} {pn name : Bytes} {f : FileSt Bytes} {k : Key}
    (hk : pcKey pn name = some k) (h : saveBackup w pn name f = .ok w') :
    w'.faultAt = w.faultAt ∧ fileAt w'.fs k = some (bytesOf f.content, modeOf f.perms) ∧
    ∀ k', k' ≠ k → fileAt w'.fs k' = fileAt w.fs k' := by
  unfold saveBackup at h
  rw [hk] at h
  simp only at h
  split at h
  · rename_i w1 hop1
    obtain ⟨g1, g2⟩ := op_ok_run hop1
    have a1 : ∀ key, fileAt w1.fs key = fileAt w.fs key := fun key => createDirAll_fileAt g1 key
    have hcont : ∀ w2 : World, w2.faultAt = w.faultAt → fileAt w2.fs k = none →
        (∀ key, key ≠ k → fileAt w2.fs key = fileAt w.fs key) →
        (match w2.op (.createFile k) with
          | .ok w => writeNew w k f.perms (bytesOf f.content)
          | .notFound w | .failed w => .error (.err, w)) = .ok w' →
        w'.faultAt = w.faultAt ∧ fileAt w'.fs k = some (bytesOf f.content, modeOf f.perms) ∧
          ∀ k', k' ≠ k → fileAt w'.fs k' = fileAt w.fs k' := by
      intro w2 f2 n2 a2 h
      split at h
      · rename_i w3 hop3
        obtain ⟨c1, c2⟩ := op_ok_run hop3
        have c0 : fileAt w3.fs k = some ([], 0o644) := createFile_fileAt_new c1 n2
        obtain ⟨e1, e2, _⟩ := writeNew_fileAt h
        refine ⟨e1.trans (c2.trans f2), writeNew_fileAt_new h c0, fun key hk' => ?_⟩
        rw [e2 key hk', createFile_fileAt_ne c1 hk', a2 key hk']
      · cases h
      · cases h
    split at h
    · cases h
    · rename_i w2 hop2
      obtain ⟨b1, b2⟩ := op_ok_run hop2
      exact hcont w2 (b2.trans g2) (removeFile_fileAt_self b1)
        (fun key hk' => by rw [removeFile_fileAt_ne b1 hk', a1]) h
    · rename_i w2 hop2
      obtain ⟨b0, b1, b2⟩ := op_notFound_run hop2
      exact hcont w2 (b2.trans g2) (by rw [b1]; exact removeFile_notFound_fileAt b0)
        (fun key _ => by rw [b1, a1]) h
  · cases h
  · cases h

/-- `saveBackup` refuses a patch or file name without a safe path -/
theorem saveBackup_key {w w' : World} {pn name : Bytes} {f : FileSt Bytes}
    (h : saveBackup w pn name f = .ok w') : ∃ k, pcKey pn name = some k := by
  unfold saveBackup at h
  split at h
  · cases h
  · rename_i k hk; exact ⟨k, hk⟩

/-- the path a call writes to -/
def callKey (c : Call) : Option Key := pcKey c.2.1 c.2.2.1

theorem saveBackups_cons (w : World) (c : Call) (rest : List Call) :
    saveBackups w (c :: rest) =
      (match saveBackup w c.2.1 c.2.2.1 c.2.2.2 with
       | .error e => .error e
       | .ok w' => saveBackups w' rest) := by
  obtain ⟨i, pn, n, f⟩ := c
  rfl

theorem saveBackups_append (A : List Call) : ∀ (w w' : World) (B : List Call),
    saveBackups w (A ++ B) = .ok w' → ∃ w1, saveBackups w A = .ok w1 ∧ saveBackups w1 B = .ok w' := by
  induction A with
  | nil => intro w w' B h; exact ⟨w, rfl, h⟩
  | cons c A ih =>
    intro w w' B h
    rw [List.cons_append, saveBackups_cons] at h
    rw [saveBackups_cons]
    cases hs : saveBackup w c.2.1 c.2.2.1 c.2.2.2 with
    | error e => rw [hs] at h; cases h
    | ok w0 =>
      rw [hs] at h
      exact ih w0 w' B h

/-- all calls of a successful `saveBackups` have a path -/
theorem saveBackups_keys (calls : List Call) : ∀ (w w' : World), saveBackups w calls = .ok w' →
    ∀ c ∈ calls, (callKey c).isSome := by
  induction calls with
  | nil => intro _ _ _ c hc; cases hc
  | cons c0 rest ih =>
    intro w w' h c hc
    rw [saveBackups_cons] at h
    cases hs : saveBackup w c0.2.1 c0.2.2.1 c0.2.2.2 with
    | error e => rw [hs] at h; cases h
    | ok w0 =>
      rw [hs] at h
      rcases List.mem_cons.mp hc with rfl | hc
      · obtain ⟨k, hk⟩ := saveBackup_key hs
        unfold callKey
        rw [hk]; rfl
      · exact ih w0 w' h c hc

/-- frame: a path no call writes to keeps its file -/
theorem saveBackups_frame (calls : List Call) : ∀ (w w' : World), saveBackups w calls = .ok w' →
    ∀ key, (∀ c ∈ calls, callKey c ≠ some key) → fileAt w'.fs key = fileAt w.fs key := by
  induction calls with
  | nil =>
    intro w w' h key _
    cases h
    rfl
  | cons c0 rest ih =>
    intro w w' h key hne
    rw [saveBackups_cons] at h
    cases hs : saveBackup w c0.2.1 c0.2.2.1 c0.2.2.2 with
    | error e => rw [hs] at h; cases h
    | ok w0 =>
      rw [hs] at h
      obtain ⟨k0, hk0⟩ := saveBackup_key hs
      have hne0 : key ≠ k0 := by
        intro e
        subst e
        exact hne c0 (List.mem_cons_self ..) hk0
      rw [ih w0 w' h key (fun c hc => hne c (List.mem_cons_of_mem _ hc)),
        (saveBackup_disk hk0 hs).2.2 key hne0]

theorem saveBackups_faultAt (calls : List Call) : ∀ (w w' : World), saveBackups w calls = .ok w' →
    w'.faultAt = w.faultAt := by
  induction calls with
  | nil => intro w w' h; cases h; rfl
  | cons c0 rest ih =>
    intro w w' h
    rw [saveBackups_cons] at h
    cases hs : saveBackup w c0.2.1 c0.2.2.1 c0.2.2.2 with
    | error e => rw [hs] at h; cases h
    | ok w0 =>
      rw [hs] at h
      obtain ⟨k0, hk0⟩ := saveBackup_key hs
      exact (ih w0 w' h).trans (saveBackup_disk hk0 hs).1

/-- **(1)** after all calls, a path holds the state of the call after which no other call wrote to it -/
theorem saveBackups_disk {w w' : World} {pre post : List Call} {c : Call} {key : Key}
    (h : saveBackups w (pre ++ c :: post) = .ok w') (hk : callKey c = some key)
    (hpost : ∀ d ∈ post, callKey d ≠ some key) :
    fileAt w'.fs key = some (bytesOf c.2.2.2.content, modeOf c.2.2.2.perms) := by
  obtain ⟨w1, _, h2⟩ := saveBackups_append pre w w' (c :: post) h
  rw [saveBackups_cons] at h2
  cases hs : saveBackup w1 c.2.1 c.2.2.1 c.2.2.2 with
  | error e => rw [hs] at h2; cases h2
  | ok w2 =>
    rw [hs] at h2
    rw [saveBackups_frame post w2 w' h2 key hpost]
    exact (saveBackup_disk hk hs).2.1

/-! ## (2) `lastCall` and the slots -/

theorem lastCall_none_iff (j : Nat) (name : Bytes) (calls : List Call) :
    lastCall j name calls = none ↔ ∀ c ∈ calls, ¬ (c.1 = j ∧ components c.2.2.1 = components name) := by
  induction calls with
  | nil => exact ⟨fun _ c hc => (by cases hc), fun _ => rfl⟩
  | cons c rest ih =>
    obtain ⟨i, pn, n, f⟩ := c
    simp only [lastCall]
    constructor
    · intro h c hc
      cases h0 : lastCall j name rest with
      | some g => rw [h0] at h; cases h
      | none =>
        rw [h0] at h
        simp only at h
        rcases List.mem_cons.mp hc with rfl | hc
        · intro hh
          rw [if_pos hh] at h
          cases h
        · exact ih.mp h0 c hc
    · intro h
      rw [ih.mpr (fun c hc => h c (List.mem_cons_of_mem _ hc))]
      simp only
      rw [if_neg (h (i, pn, n, f) (List.mem_cons_self ..))]

/-- the call `lastCall` speaks of: in its slot, and no later call is -/
theorem lastCall_split {j : Nat} {name : Bytes} {f : FileSt Bytes} : ∀ {calls : List Call},
    lastCall j name calls = some f →
    ∃ pre pn n post, calls = pre ++ (j, pn, n, f) :: post ∧ components n = components name ∧
      lastCall j name post = none := by
  intro calls
  induction calls with
  | nil => intro h; cases h
  | cons c rest ih =>
    intro h
    obtain ⟨i, pn, n, g⟩ := c
    simp only [lastCall] at h
    cases h0 : lastCall j name rest with
    | some g' =>
      rw [h0] at h
      simp only [Option.some.injEq] at h
      subst h
      obtain ⟨pre, pn', n', post, e, hn, hp⟩ := ih h0
      exact ⟨(i, pn, n, g) :: pre, pn', n', post, by rw [e]; rfl, hn, hp⟩
    | none =>
      rw [h0] at h
      simp only at h
      split at h
      · rename_i hh
        cases h
        obtain ⟨rfl, hn⟩ := hh
        exact ⟨[], pn, n, rest, rfl, hn, h0⟩
      · cases h

/-- a slot that has a call has a last call -/
theorem lastCall_some_of_mem {j : Nat} {name pn n : Bytes} {g : FileSt Bytes} {calls : List Call}
    (h : (j, pn, n, g) ∈ calls) (hn : components n = components name) : ∃ f, lastCall j name calls = some f := by
  cases hl : lastCall j name calls with
  | some f => exact ⟨f, rfl⟩
  | none => exact absurd ⟨rfl, hn⟩ ((lastCall_none_iff j name calls).mp hl _ h)

/-- two calls are for the same backup file: same patch (by its index in the range) and same file (the way `Path`
compares names) -/
def SameSlot (a b : Call) : Prop := a.1 = b.1 ∧ components a.2.2.1 = components b.2.2.1

instance (a b : Call) : Decidable (SameSlot a b) := inferInstanceAs (Decidable (_ ∧ _))

/-- **the backup paths of different slots are different**: two calls that write to the same path are for the same
(patch, file).  (`pcKey p n = .pc ++ safeKey p ++ safeKey n` is a concatenation, and two series entries may have the
same name, so this can fail; see `RQ/Props/C08Disk.lean` for what happens then.) -/
def PcKeysApart (calls : List Call) : Prop :=
  ∀ a ∈ calls, ∀ b ∈ calls, (callKey a).isSome → callKey a = callKey b → SameSlot a b

instance (calls : List Call) : Decidable (PcKeysApart calls) :=
  inferInstanceAs (Decidable (∀ a ∈ calls, ∀ b ∈ calls, _))

/-- calls for the same patch index carry the same patch name -/
def PatchNamesAgree (calls : List Call) : Prop :=
  ∀ a ∈ calls, ∀ b ∈ calls, a.1 = b.1 → a.2.1 = b.2.1

theorem pcKey_congr {pn : Bytes} {n n' : Bytes} (h : components n' = components n) : pcKey pn n' = pcKey pn n := by
  unfold pcKey
  rw [safeKey_congr h]

/-- **(2)** the path of a slot holds the state of the last call for the slot -/
theorem saveBackups_lastCall {w w' : World} {calls : List Call} (h : saveBackups w calls = .ok w')
    (hnames : PatchNamesAgree calls) (hapart : PcKeysApart calls)
    {j : Nat} {patchName name : Bytes} {g f : FileSt Bytes} (hmem : (j, patchName, name, g) ∈ calls)
    (hlast : lastCall j name calls = some f) {key : Key} (hkey : pcKey patchName name = some key) :
    fileAt w'.fs key = some (bytesOf f.content, modeOf f.perms) := by
  obtain ⟨pre, pn, n, post, e, hn, hp⟩ := lastCall_split hlast
  have hcm : (j, pn, n, f) ∈ calls := by rw [e]; simp
  have hpn : pn = patchName := hnames _ hcm _ hmem rfl
  subst hpn
  have hck : callKey (j, pn, n, f) = some key := by
    unfold callKey
    simp only
    rw [pcKey_congr hn]; exact hkey
  rw [e] at h
  refine saveBackups_disk (c := (j, pn, n, f)) h hck ?_
  intro d hd hdk
  have hdm : d ∈ calls := by rw [e]; simp [hd]
  have hs := hapart _ hcm d hdm (by rw [hck]; rfl) (hck.trans hdk.symm)
  exact (lastCall_none_iff j name post).mp hp d hd ⟨hs.1.symm, hs.2.symm.trans hn⟩

/-! ## (3) what the application loop records: names in the cache, `Status`es of the applied stack, reject names -/

/-- every name that has a cache entry satisfies `Q` -/
def MemNames (Q : Bytes → Prop) (m : Mem) : Prop := ∀ e ∈ m, Q e.2.1

theorem memNames_nil (Q : Bytes → Prop) : MemNames Q [] := fun _ he => by cases he

/-- `Mem.put` keeps the names of the entries that are there and adds at most the name it is given -/
theorem MemNames.put {Q : Bytes → Prop} {m : Mem} {name : Bytes} {f : FileSt Bytes} (h : MemNames Q m)
    (hn : Q name ∨ m.any (fun e => e.1 == components name) = true) : MemNames Q (m.put name f) := by
  unfold Mem.put
  split
  · intro e he
    rw [List.mem_map] at he
    obtain ⟨e0, he0, rfl⟩ := he
    split
    · exact h e0 he0
    · exact h e0 he0
  · rename_i hany
    rcases hn with hn | hn
    · intro e he
      rw [List.mem_append] at he
      rcases he with he | he
      · exact h e he
      · simp only [List.mem_singleton] at he
        subst he
        exact hn
    · exact absurd hn hany

theorem MemNames.put_of_get {Q : Bytes → Prop} {m : Mem} {name : Bytes} {f g : FileSt Bytes} (h : MemNames Q m)
    (hg : m.get name = some g) : MemNames Q (m.put name f) :=
  h.put (.inr (Disk.any_of_get hg))

theorem getOrLoad_names {Q : Bytes → Prop} {fs : FS} {m m' : Mem} {name : Bytes} {f : FileSt Bytes}
    (h : MemNames Q m) (hn : Q name) (e : getOrLoad m fs name = .ok (m', f)) : MemNames Q m' := by
  unfold getOrLoad at e
  split at e
  · cases e
    exact h
  · split at e
    · cases e
    · split at e
      · cases e
        exact h.put (.inl hn)
      · cases e
        exact h.put (.inl hn)
      · cases e

/-- both names of the file patch satisfy `Q` -/
def FPNames (Q : Bytes → Prop) (fp : PFilePatch) : Prop := ∀ n, fp.old = some n ∨ fp.new = some n → Q n

/-- what a `Status` pushed by file patch `fp` of patch `entry` (number `index`) looks like -/
structure StatusOf (index : Nat) (entry : Series.Entry) (fp : PFilePatch) (s : Status) : Prop where
  index : s.index = index
  patchName : s.patchName = entry.name
  target : fp.old = some s.target ∨ fp.new = some s.target
  safe : namesSafe fp = true
  fp_eq : s.fp = fp

theorem applyCore_inv {Q : Bytes → Prop} {fs : FS} {st st' : St} {cfg : Cfg} {index : Nat} {entry : Series.Entry}
    {fp : PFilePatch} {b : Bool} (h : MemNames Q st.mem) (hfp : FPNames Q fp)
    (e : applyCore st fs cfg index entry fp = .ok (st', b)) :
    MemNames Q st'.mem ∧ ∀ s ∈ st'.applied, s ∈ st.applied ∨ StatusOf index entry fp s := by
  unfold applyCore at e
  split at e
  · cases e
  · rename_i hns
    have hns' : namesSafe fp = true := by simpa using hns
    split at e
    · cases e
    · rename_i target hch
      have htn := Disk.choose_mem hch
      have ht : Q target := hfp target htn
      split at e
      · cases e
      · rename_i mem file hload
        have hm := getOrLoad_names h ht hload
        simp only at e
        split at e
        · -- rename
          split at e
          · cases e
          · rename_i newName hnew
            have hnn : Q newName := hfp newName (.inr hnew)
            simp only [moveOut] at e
            have hm1 : MemNames Q (mem.put target { file with content := [], deleted := true, perms := none }) :=
              hm.put (.inl ht)
            split at e
            · cases e
            · rename_i mem2 newFile hload2
              have hm2 := getOrLoad_names hm1 hnn hload2
              split at e
              · split at e
                · cases e
                · split at e
                  · cases e
                    exact ⟨hm2.put (.inl ht), fun s hs => .inl hs⟩
                  · cases e
                    exact ⟨hm2.put (.inl ht), fun s hs => .inl hs⟩
              · split at e
                · cases e
                · cases e
                  refine ⟨hm2.put (.inl hnn), fun s hs => ?_⟩
                  rcases List.mem_cons.mp hs with rfl | hs
                  · exact .inr ⟨rfl, rfl, htn, hns', rfl⟩
                  · exact .inl hs
        · split at e
          · cases e
          · cases e
            refine ⟨hm.put (.inl ht), fun s hs => ?_⟩
            rcases List.mem_cons.mp hs with rfl | hs
            · exact .inr ⟨rfl, rfl, htn, hns', rfl⟩
            · exact .inl hs

theorem applyOne_inv {Q : Bytes → Prop} {fs : FS} {st st' : St} {cfg : Cfg} {index : Nat} {entry : Series.Entry}
    {fp : PFilePatch} {b : Bool} (h : MemNames Q st.mem) (hfp : FPNames Q fp)
    (e : applyOne st fs cfg index entry fp = .ok (st', b)) :
    MemNames Q st'.mem ∧ ∀ s ∈ st'.applied, s ∈ st.applied ∨ StatusOf index entry fp s := by
  obtain ⟨mem0, hp, hc⟩ := applyOne_ok_split e
  refine applyCore_inv (st := { st with mem := mem0 }) ?_ hfp hc
  rcases preLoad_ok hp with rfl | ⟨n, f, _, hnew, hl⟩
  · exact h
  · exact getOrLoad_names h (hfp n (.inr hnew)) hl

theorem applyFilePatches_inv {Q : Bytes → Prop} {fs : FS} {cfg : Cfg} {index : Nat} {entry : Series.Entry}
    (fps : List PFilePatch) : ∀ {st st' : St} {a b : Bool}, MemNames Q st.mem → (∀ fp ∈ fps, FPNames Q fp) →
    applyFilePatches st fs cfg index entry fps a = .ok (st', b) →
    MemNames Q st'.mem ∧ ∀ s ∈ st'.applied, s ∈ st.applied ∨ ∃ fp ∈ fps, StatusOf index entry fp s := by
  induction fps with
  | nil =>
    intro st st' a b h _ e
    unfold applyFilePatches at e
    cases e
    exact ⟨h, fun s hs => .inl hs⟩
  | cons fp fps ih =>
    intro st st' a b h hfps e
    unfold applyFilePatches at e
    split at e
    · cases e
    · rename_i st1 ok h1
      obtain ⟨m1, a1⟩ := applyOne_inv h (hfps fp (by simp)) h1
      obtain ⟨m2, a2⟩ := ih m1 (fun fp' hfp' => hfps fp' (by simp [hfp'])) e
      refine ⟨m2, fun s hs => ?_⟩
      rcases a2 s hs with hs1 | ⟨fp', hfp', hs'⟩
      · rcases a1 s hs1 with hs0 | hs0
        · exact .inl hs0
        · exact .inr ⟨fp, by simp, hs0⟩
      · exact .inr ⟨fp', by simp [hfp'], hs'⟩

theorem rollbackOne_names {Q : Bytes → Prop} {m m' : Mem} {s : Status} {f : FileSt Bytes} (h : MemNames Q m)
    (e : rollbackOne m s = .ok (m', f)) : MemNames Q m' := by
  unfold rollbackOne at e
  split at e
  · cases e
  · rename_i file hget
    split at e
    · cases e
    · rename_i file' hrb
      split at e
      · simp only [moveOut] at e
        have hm1 := h.put_of_get (name := s.final)
          (f := { content := [], existed := file'.existed, deleted := ‹Bool›, perms := ‹Option Nat› }) hget
        split at e
        · cases e
        · rename_i oldFile hget2
          split at e
          · cases e
          · cases e
            exact hm1.put_of_get hget2
      · cases e
        exact h.put_of_get hget

/-- the rollback of the failing patch: the stack shrinks, the names in the cache stay, the reject files are named
after targets of `Status`es that were on the stack -/
theorem rollbackAndRenderRej_inv {Q : Bytes → Prop} (fuel : Nat) : ∀ {st st' : St} {idx : Nat}
    {rejs rejs' : List (Bytes × Bytes)}, MemNames Q st.mem →
    rollbackAndRenderRej fuel st idx rejs = .ok (st', rejs') →
    MemNames Q st'.mem ∧ (∀ s ∈ st'.applied, s ∈ st.applied) ∧
      ∀ r ∈ rejs', r ∈ rejs ∨ ∃ s ∈ st.applied, r.1 = makeRejName s.target := by
  induction fuel with
  | zero =>
    intro st st' idx rejs rejs' h e
    unfold rollbackAndRenderRej at e
    cases e
    exact ⟨h, fun _ hs => hs, fun _ hr => .inl hr⟩
  | succ n ih =>
    intro st st' idx rejs rejs' h e
    unfold rollbackAndRenderRej at e
    split at e
    · cases e
      exact ⟨h, fun _ hs => hs, fun _ hr => .inl hr⟩
    · rename_i s rest happ
      split at e
      · cases e
      · split at e
        · cases e
          exact ⟨h, fun _ hs => hs, fun _ hr => .inl hr⟩
        · split at e
          · cases e
          · rename_i mem _ hrb
            have hm := rollbackOne_names h hrb
            simp only at e
            split at e
            · obtain ⟨i1, i2, i3⟩ := ih (st := { applied := rest, mem := mem }) hm e
              refine ⟨i1, fun s' hs' => by rw [happ]; exact List.mem_cons_of_mem _ (i2 s' hs'), fun r hr => ?_⟩
              rcases i3 r hr with hr1 | ⟨s', hs', hr'⟩
              · rcases List.mem_append.mp hr1 with hr0 | hr0
                · exact .inl hr0
                · simp only [List.mem_singleton] at hr0
                  subst hr0
                  exact .inr ⟨s, by rw [happ]; simp, rfl⟩
              · exact .inr ⟨s', by rw [happ]; exact List.mem_cons_of_mem _ hs', hr'⟩
            · obtain ⟨i1, i2, i3⟩ := ih (st := { applied := rest, mem := mem }) hm e
              refine ⟨i1, fun s' hs' => by rw [happ]; exact List.mem_cons_of_mem _ (i2 s' hs'), fun r hr => ?_⟩
              rcases i3 r hr with hr1 | ⟨s', hs', hr'⟩
              · exact .inl hr1
              · exact .inr ⟨s', by rw [happ]; exact List.mem_cons_of_mem _ hs', hr'⟩

/-- **(3)** the application loop: if the names of all file patches of the range satisfy `Q`, so do the names in the
cache; every `Status` on the stack was pushed by a file patch of the series entry with its index and carries that
entry's name; every reject file is named after the target of such a `Status` -/
theorem applyLoop_inv {Q : Bytes → Prop} {fs : FS} {cfg : Cfg} (R : Status → Prop) :
    ∀ (rest : List Series.Entry) {index : Nat} {st st' : St} {final : Nat} {rejs : List (Bytes × Bytes)},
    MemNames Q st.mem → (∀ s ∈ st.applied, R s) →
    (∀ e ∈ rest, ∀ patch, Agree.patchOf fs cfg e = some patch → ∀ fp ∈ patch.fps, FPNames Q fp) →
    (∀ i e, rest[i]? = some e → ∀ patch, Agree.patchOf fs cfg e = some patch → ∀ fp ∈ patch.fps,
      ∀ s, StatusOf (index + i) e fp s → R s) →
    applyLoop fs cfg rest index st = .ok (st', final, rejs) →
    MemNames Q st'.mem ∧ (∀ s ∈ st'.applied, R s) ∧ ∀ r ∈ rejs, ∃ s, R s ∧ r.1 = makeRejName s.target := by
  intro rest
  induction rest with
  | nil =>
    intro index st st' final rejs h ha _ _ e
    unfold applyLoop at e
    cases e
    exact ⟨h, ha, fun _ hr => by cases hr⟩
  | cons entry rest ih =>
    intro index st st' final rejs h ha hq hr e
    have hpo : ∀ {pk bytes mode patch}, patchKey cfg entry.name = some pk → fs.readFile pk = .ok (bytes, mode) →
        parsePatch bytes entry.strip false = .ok patch → Agree.patchOf fs cfg entry = some patch := by
      intro pk bytes mode patch h1 h2 h3
      unfold Agree.patchOf
      rw [h1]
      simp only
      rw [h2]
      simp only
      rw [h3]
    unfold applyLoop at e
    split at e
    · cases e
    · rename_i pk hpk
      split at e
      · cases e
      · rename_i bytes mode hrd
        split at e
        · cases e
        · rename_i patch hparse
          have hp := hpo hpk hrd hparse
          split at e
          · cases e
          · rename_i st1 anyFailed happ
            obtain ⟨hm, hs1⟩ := applyFilePatches_inv _ h (hq entry (by simp) patch hp) happ
            have ha1 : ∀ s ∈ st1.applied, R s := by
              intro s hs
              rcases hs1 s hs with hs0 | ⟨fp, hfp, hso⟩
              · exact ha s hs0
              · exact hr 0 entry rfl patch hp fp hfp s hso
            split at e
            · split at e
              · cases e
                exact ⟨hm, ha1, fun _ hr => by cases hr⟩
              · split at e
                · cases e
                · rename_i st2 rejs2 hrb
                  cases e
                  obtain ⟨j1, j2, j3⟩ := rollbackAndRenderRej_inv _ hm hrb
                  refine ⟨j1, fun s hs => ha1 s (j2 s hs), fun r hr' => ?_⟩
                  rcases j3 r hr' with h0 | ⟨s, hs, hrs⟩
                  · cases h0
                  · exact ⟨s, ha1 s hs, hrs⟩
            · refine ih hm ha1 (fun e' he' => hq e' (by simp [he'])) ?_ e
              intro i e' hi patch' hp' fp hfp s hso
              refine hr (i + 1) e' (by simpa using hi) patch' hp' fp hfp s ?_
              have : index + (i + 1) = index + 1 + i := by omega
              rw [this]; exact hso

/-- the patch name a `Status` records is the name of the series entry with its index -/
def AppliedFrom (range : List Series.Entry) (s : Status) : Prop :=
  ∃ e, range[s.index]? = some e ∧ s.patchName = e.name

theorem applyLoop_patchNames {fs : FS} {cfg : Cfg} {range : List Series.Entry} {st : St} {k : Nat}
    {rejs : List (Bytes × Bytes)} (h : applyLoop fs cfg range 0 {} = .ok (st, k, rejs)) :
    ∀ s ∈ st.applied, AppliedFrom range s := by
  refine (applyLoop_inv (Q := fun _ => True) (AppliedFrom range) range (memNames_nil _)
    (fun _ hs => by cases hs) (fun _ _ _ _ _ _ _ _ => trivial) ?_ h).2.1
  intro i e hi patch _ fp _ s hso
  obtain ⟨h1, h2, _, _, _⟩ := hso
  exact ⟨e, by rw [h1]; simpa using hi, h2⟩

/-- the calls of `backupCalls` carry index and patch name of a `Status` of the stack -/
theorem backupCalls_status : ∀ (applied : List Status) (mem : Mem) (downTo : Nat) (calls : List Call) (mem' : Mem),
    backupCalls mem applied downTo = .ok (calls, mem') →
    ∀ c ∈ calls, ∃ s ∈ applied, c.1 = s.index ∧ c.2.1 = s.patchName ∧
      (c.2.2.1 = s.target ∨ s.fp.new = some c.2.2.1) := by
  intro applied
  induction applied with
  | nil =>
    intro mem downTo calls mem' h c hc
    rw [backupCalls] at h
    cases h
    cases hc
  | cons s rest ih =>
    intro mem downTo calls mem' h c hc
    rw [backupCalls] at h
    split at h
    · cases h
      cases hc
    · split at h
      · cases h
      · rename_i mem1 file _
        simp only at h
        split at h
        · cases h
        · rename_i ex hex
          split at h
          · cases h
          · rename_i calls0 mem0 hrest
            cases h
            rw [List.cons_append, List.mem_cons, List.mem_append] at hc
            rcases hc with rfl | hc | hc
            · exact ⟨s, by simp, rfl, rfl, .inl rfl⟩
            · split at hex
              · split at hex
                · cases hex
                · rename_i newName hnew
                  split at hex
                  · cases hex
                  · cases hex
                    simp only [List.mem_singleton] at hc
                    subst hc
                    exact ⟨s, by simp, rfl, rfl, .inr hnew⟩
              · cases hex
                cases hc
            · obtain ⟨s', hs', h1, h2, h3⟩ := ih mem1 downTo _ _ hrest c hc
              exact ⟨s', by simp [hs'], h1, h2, h3⟩

/-- the calls made after the application loop: same patch index, same patch name -/
theorem backupCalls_patchNames {fs : FS} {cfg : Cfg} {range : List Series.Entry} {st : St} {k : Nat}
    {rejs : List (Bytes × Bytes)} (hl : applyLoop fs cfg range 0 {} = .ok (st, k, rejs))
    {downTo : Nat} {calls : List Call} {mem' : Mem} (hc : backupCalls st.mem st.applied downTo = .ok (calls, mem')) :
    PatchNamesAgree calls ∧ ∀ c ∈ calls, ∃ e, range[c.1]? = some e ∧ c.2.1 = e.name := by
  have hfrom : ∀ c ∈ calls, ∃ e, range[c.1]? = some e ∧ c.2.1 = e.name := by
    intro c hcm
    obtain ⟨s, hs, h1, h2, _⟩ := backupCalls_status _ _ _ _ _ hc c hcm
    obtain ⟨e, he1, he2⟩ := applyLoop_patchNames hl s hs
    exact ⟨e, by rw [h1]; exact he1, by rw [h2]; exact he2⟩
  refine ⟨?_, hfrom⟩
  intro a ha b hb hab
  obtain ⟨ea, ha1, ha2⟩ := hfrom a ha
  obtain ⟨eb, hb1, hb2⟩ := hfrom b hb
  rw [hab, hb1] at ha1
  cases ha1
  rw [ha2, hb2]

/-! ## (4) `applyPatches` when backups are due -/

/-- the start of the backup window (`--backup-count`), as `applyPatches` computes it -/
def backupDownTo (cfg : Cfg) (final : Nat) : Nat :=
  match cfg.backupCount with
  | none => 0
  | some n => if final > n then final - n else 0

/-- backups are due: `--backup always`, or `onfail` and the push stopped early -/
def BackupsDue (cfg : Cfg) (range : List Series.Entry) (final : Nat) : Prop :=
  cfg.backup = .always ∨ (cfg.backup = .onfail ∧ final ≠ range.length)

instance (cfg : Cfg) (range : List Series.Entry) (final : Nat) : Decidable (BackupsDue cfg range final) :=
  inferInstanceAs (Decidable (_ ∨ _))

/-- a successful real run with backups due: save, clean, reject files, then `saveBackups` on `backupCalls` -/
theorem applyPatches_backups_run (w w' : World) (cfg : Cfg) (range : List Series.Entry) (st : St) (k k' : Nat)
    (rejs : List (Bytes × Bytes)) (hl : applyLoop w.fs cfg range 0 {} = .ok (st, k, rejs))
    (hd : cfg.dryRun = false) (hdue : BackupsDue cfg range k) (h : applyPatches w cfg range = .ok (w', k')) :
    k' = k ∧ ∃ w1 dirs w2 w3 calls mem', saveAll w st.mem [] = .ok (w1, dirs) ∧ cleanAll w1 dirs = .ok w2 ∧
      saveRejFiles w2 rejs = .ok w3 ∧
      backupCalls st.mem st.applied (backupDownTo cfg k) = .ok (calls, mem') ∧ saveBackups w3 calls = .ok w' := by
  have hcond : (cfg.backup == .always || (cfg.backup == .onfail && k != range.length)) = true := by
    rcases hdue with hm | ⟨hm, hf⟩
    · rw [hm]; rfl
    · rw [hm]; simp [hf]
  obtain ⟨calls, mem', hc, _⟩ := C08_backups_total w.fs cfg range st k rejs hl hd (backupDownTo cfg k)
  unfold applyPatches at h
  rw [hl] at h
  simp only [hd, Bool.false_eq_true, if_false] at h
  split at h
  · cases h
  · rename_i w1 dirs hsave
    split at h
    · cases h
    · rename_i w2 hclean
      split at h
      · cases h
      · rename_i w3 hrej
        rw [if_pos hcond] at h
        have hcalls := C08_calls w3 st.mem st.applied (backupDownTo cfg k) calls mem' hc
        split at h
        · cases h
        · rename_i w4 m4 hbk
          cases h
          have hbk' : rollbackAndSaveBackups w3 st.mem st.applied (backupDownTo cfg k) = .ok (w', m4) := hbk
          rw [hcalls] at hbk'
          cases hsb : saveBackups w3 calls with
          | error e => rw [hsb] at hbk'; cases hbk'
          | ok w5 =>
            rw [hsb] at hbk'
            cases hbk'
            exact ⟨rfl, w1, dirs, w2, w3, calls, mem', hsave, hclean, hrej, hc, hsb⟩

/-! ## (5) in the abstract tree a file that does not exist has neither lines nor permissions -/

def TreeCanon (t : ATree) : Prop := ∀ e ∈ t, Agree.Canon e.2

theorem look_canon {t : ATree} {fs : FS} {name : Bytes} {a : AFile} (ht : TreeCanon t)
    (h : look t fs name = .ok a) : Agree.Canon a := by
  unfold look at h
  split at h
  · rename_i e he
    cases h
    exact ht e (List.mem_of_find?_eq_some he)
  · split at h
    · rename_i f hf
      cases h
      unfold Spec.loadTree at hf
      split at hf
      · cases hf
      · split at hf
        · cases hf; intro hd; cases hd
        · cases hf; intro _; exact ⟨rfl, rfl⟩
        · cases hf
    · cases h

theorem put_canon {t : ATree} {name : Bytes} {a : AFile} (ht : TreeCanon t) (ha : Agree.Canon a) :
    TreeCanon (put t name a) := by
  unfold put
  split
  · intro e he
    rw [List.mem_map] at he
    obtain ⟨e0, he0, rfl⟩ := he
    split
    · exact ha
    · exact ht e0 he0
  · intro e he
    rw [List.mem_append] at he
    rcases he with he | he
    · exact ht e he
    · simp only [List.mem_singleton] at he
      subst he
      exact ha

theorem applyFP_canon {t : ATree} {fs : FS} {cfg : Cfg} {entry : Series.Entry} {fp : PFilePatch} {r : FPOut}
    (ht : TreeCanon t) (h : applyFP t fs cfg entry fp = .ok r) : TreeCanon r.tree := by
  unfold applyFP at h
  split at h
  · cases h
  · split at h
    · cases h
    · rename_i target _
      split at h
      · cases h
      · rename_i file hlook
        have hfile := look_canon ht hlook
        simp only at h
        split at h
        · split at h
          · cases h
          · rename_i newName _
            have ht1 : TreeCanon (put t target { content := [], deleted := true, perms := none }) :=
              put_canon ht (fun _ => ⟨rfl, rfl⟩)
            split at h
            · cases h
            · split at h
              · cases h
                exact ht
              · split at h
                · cases h
                · rename_i f' rep happ
                  cases h
                  exact put_canon ht1
                    (Agree.canon_apply (a := { content := file.content, deleted := false, perms := file.perms })
                      (fun hd => by cases hd) happ)
        · split at h
          · cases h
          · rename_i f' rep happ
            cases h
            exact put_canon ht (Agree.canon_apply hfile happ)

theorem applyFPs_canon {fs : FS} {cfg : Cfg} {entry : Series.Entry} : ∀ (fps : List PFilePatch) {t t' : ATree}
    {ok ok' : Bool} {rejs rejs' : List (Bytes × Bytes)}, TreeCanon t →
    applyFPs fs cfg entry fps t ok rejs = .ok (t', ok', rejs') → TreeCanon t' := by
  intro fps
  induction fps with
  | nil =>
    intro t t' ok ok' rejs rejs' ht h
    unfold applyFPs at h
    cases h
    exact ht
  | cons fp fps ih =>
    intro t t' ok ok' rejs rejs' ht h
    unfold applyFPs at h
    split at h
    · cases h
    · rename_i r hr
      exact ih (applyFP_canon ht hr) h

theorem applyRange_canon {fs : FS} {cfg : Cfg} : ∀ (range : List Series.Entry) {k k' : Nat} {t t' : ATree}
    {rejs : List (Bytes × Bytes)}, TreeCanon t → applyRange fs cfg range k t = .ok (t', k', rejs) → TreeCanon t' := by
  intro range
  induction range with
  | nil =>
    intro k k' t t' rejs ht h
    unfold applyRange at h
    cases h
    exact ht
  | cons entry rest ih =>
    intro k k' t t' rejs ht h
    unfold applyRange at h
    split at h
    · cases h
    · split at h
      · cases h
      · split at h
        · cases h
        · split at h
          · cases h
          · rename_i t1 ok rejs1 hfps
            split at h
            · exact ih (applyFPs_canon _ ht hfps) h
            · cases h
              exact ht

/-- **(5)** -/
theorem applyRange_look_canon {fs : FS} {cfg : Cfg} {range : List Series.Entry} {k : Nat} {t : ATree}
    {rejs : List (Bytes × Bytes)} (h : applyRange fs cfg range 0 [] = .ok (t, k, rejs)) {name : Bytes} {a : AFile}
    (hl : look t fs name = .ok a) : a.deleted = true → a.content = [] ∧ a.perms = none :=
  look_canon (applyRange_canon range (fun _ he => by cases he) h) hl

/-! ## (6) the negative half: saving files, cleaning directories and writing reject files leave `.pc` alone -/

/-- nothing below `.pc` changes (nodes, not only files: directories and inode numbers too) -/
def OutOnly (a b : FS) : Prop := ∀ q, isPcKey q → b.lookup q = a.lookup q

theorem OutOnly.refl (a : FS) : OutOnly a a := fun _ _ => rfl

theorem OutOnly.trans {a b c : FS} (h1 : OutOnly a b) (h2 : OutOnly b c) : OutOnly a c :=
  fun q hq => (h2 q hq).trans (h1 q hq)

theorem not_pc_dropLast {k : Key} (h : ¬ isPcKey k) : ¬ isPcKey k.dropLast := by
  rw [List.dropLast_eq_take]; exact Compose.not_pc_take h _

/-- an operation on a path outside `.pc` changes nothing below `.pc` -/
theorem run_outOnly {fs fs' : FS} {o : Op} (h : Op.run fs o = .ok fs') (hk : ¬ isPcKey (opKey o)) :
    OutOnly fs fs' := by
  intro q hq
  have hne : ∀ k, ¬ isPcKey k → q ≠ k := fun k hk e => hk (e ▸ hq)
  cases o with
  | removeFile k => rw [FS.removeFile_ok h]; exact FS.lookup_erase_ne fs k q (hne k hk)
  | createDirAll d =>
    rcases (Tight.createDirAll_spec h).1 q with e | ⟨_, _, _, i, rfl⟩
    · exact e
    · exact absurd hq (Compose.not_pc_take hk i)
  | createFile k => exact Compose.createFile_lookup_ne h (hne k hk)
  | setMode k m => cases h; exact Compose.setMode_lookup_ne fs m (hne k hk)
  | write k b => cases h; exact Compose.appendBytes_lookup_ne fs b (hne k hk)
  | removeDir k => rw [FS.removeDir_ok h]; exact FS.lookup_erase_ne fs k q (hne k hk)
  | appendOpen k => exact Compose.appendFile_lookup_ne h (hne k hk)

theorem op_ok_outOnly {w w' : World} {o : Op} (e : w.op o = .ok w') (hk : ¬ isPcKey (opKey o)) :
    OutOnly w.fs w'.fs :=
  run_outOnly (op_ok_run e).1 hk

theorem op_notFound_outOnly {w w' : World} {o : Op} (e : w.op o = .notFound w') : OutOnly w.fs w'.fs := by
  rw [(op_notFound_run e).2.1]; exact OutOnly.refl _

theorem writeNew_outOnly {w w' : World} {k : Key} {perms : Option Nat} {content : Bytes} (hk : ¬ isPcKey k)
    (h : writeNew w k perms content = .ok w') : OutOnly w.fs w'.fs := by
  unfold writeNew at h
  cases perms with
  | none =>
    simp only at h
    split at h
    · rename_i w2 hop
      cases h
      exact op_ok_outOnly hop hk
    · cases h
    · cases h
  | some p =>
    simp only at h
    split at h
    · cases h
    · rename_i w1 heq
      split at heq
      · rename_i w1' hop1
        cases heq
        split at h
        · rename_i w2 hop
          cases h
          exact (op_ok_outOnly hop1 hk).trans (op_ok_outOnly hop hk)
        · cases h
        · cases h
      · cases heq
      · cases heq

/-- saving one cache entry whose path is outside `.pc`; the directory handed to the cleaning is outside too -/
theorem saveModifiedFile_outOnly {w w' : World} {name : Bytes} {f : FileSt Bytes} {k : Key} {d : Option Key}
    (hk : safeKey name = some k) (hout : ¬ isPcKey k) (h : saveModifiedFile w name f = .ok (w', d)) :
    OutOnly w.fs w'.fs ∧ ∀ d', d = some d' → ¬ isPcKey d' := by
  unfold saveModifiedFile at h
  rw [hk] at h
  simp only at h
  split at h
  · cases h
  · rename_i w1 heq
    have h1 : OutOnly w.fs w1.fs := by
      split at heq
      · split at heq
        · rename_i w0 hop
          cases heq
          exact op_ok_outOnly hop hout
        · rename_i w0 hop
          cases heq
          exact op_notFound_outOnly hop
        · cases heq
      · cases heq
        exact OutOnly.refl _
    split at h
    · cases h
      refine ⟨h1, fun d' hd' => ?_⟩
      split at hd'
      · cases hd'
        exact not_pc_dropLast hout
      · cases hd'
    · split at h
      · cases h
      · rename_i w2 heq2
        have h2 : OutOnly w1.fs w2.fs := by
          split at heq2
          · split at heq2
            · rename_i w0 hop
              cases heq2
              exact op_ok_outOnly hop (not_pc_dropLast hout)
            · cases heq2
            · cases heq2
          · cases heq2
            exact OutOnly.refl _
        split at h
        · rename_i w3 hop
          split at h
          · rename_i w4 hwn
            cases h
            exact ⟨((h1.trans h2).trans (op_ok_outOnly hop hout)).trans (writeNew_outOnly hout hwn),
              fun d' hd' => by cases hd'⟩
          · cases h
        · cases h
        · cases h

/-- every name in the cache has a path outside `.pc` -/
def MemOut (mem : Mem) : Prop := ∀ e ∈ mem, ∀ k, safeKey e.2.1 = some k → ¬ isPcKey k

theorem saveAll_outOnly (mem : Mem) : ∀ (w w' : World) (dirs0 dirs : List Key), MemOut mem →
    (∀ d ∈ dirs0, ¬ isPcKey d) → saveAll w mem dirs0 = .ok (w', dirs) →
    OutOnly w.fs w'.fs ∧ ∀ d ∈ dirs, ¬ isPcKey d := by
  induction mem with
  | nil =>
    intro w w' dirs0 dirs _ hd h
    unfold saveAll at h
    cases h
    exact ⟨OutOnly.refl _, hd⟩
  | cons x rest ih =>
    intro w w' dirs0 dirs hm hd h
    obtain ⟨cs, name, f⟩ := x
    unfold saveAll at h
    split at h
    · cases h
    · rename_i w1 d heq
      obtain ⟨k0, hk0⟩ := saveModifiedFile_safe heq
      obtain ⟨s1, s2⟩ := saveModifiedFile_outOnly hk0 (hm (cs, name, f) (List.mem_cons_self ..) k0 hk0) heq
      obtain ⟨r1, r2⟩ := ih w1 w' _ dirs (fun e he => hm e (List.mem_cons_of_mem _ he)) (by
        intro d' hd'
        split at hd'
        · rename_i k' 
          rcases List.mem_append.mp hd' with h0 | h0
          · exact hd d' h0
          · simp only [List.mem_singleton] at h0
            subst h0
            exact s2 _ rfl
        · exact hd d' hd') h
      exact ⟨s1.trans r1, r2⟩

/-- the climbing loop started at a directory outside `.pc` never enters `.pc` -/
theorem cleanUp_outOnly (fuel : Nat) : ∀ (w w' : World) (d : Key), ¬ isPcKey d → cleanUp w fuel d = .ok w' →
    OutOnly w.fs w'.fs := by
  induction fuel with
  | zero =>
    intro w w' d _ h
    unfold cleanUp at h
    cases h
    exact OutOnly.refl _
  | succ n ih =>
    intro w w' d hd h
    unfold cleanUp at h
    split at h
    · cases h; exact OutOnly.refl _
    · cases h
    · cases h; exact OutOnly.refl _
    · split at h
      · cases h
      · rename_i w1 hop
        have hstep := op_ok_outOnly hop hd
        split at h
        · cases h; exact hstep
        · exact hstep.trans (ih w1 w' _ (not_pc_dropLast hd) h)
      · rename_i w1 hop
        have hstep := op_notFound_outOnly hop
        split at h
        · cases h; exact hstep
        · exact hstep.trans (ih w1 w' _ (not_pc_dropLast hd) h)

theorem cleanAll_outOnly (ks : List Key) : ∀ (w w' : World), (∀ d ∈ ks, ¬ isPcKey d) → cleanAll w ks = .ok w' →
    OutOnly w.fs w'.fs := by
  induction ks with
  | nil =>
    intro w w' _ h
    unfold cleanAll at h
    cases h
    exact OutOnly.refl _
  | cons d ks ih =>
    intro w w' hd h
    unfold cleanAll at h
    split at h
    · cases h
    · rename_i w1 heq
      exact (cleanUp_outOnly _ w w1 d (hd d (List.mem_cons_self ..)) heq).trans
        (ih w1 w' (fun d' hd' => hd d' (List.mem_cons_of_mem _ hd')) h)

theorem saveRejFiles_outOnly (rejs : List (Bytes × Bytes)) : ∀ (w w' : World), Compose.RejsOut rejs →
    saveRejFiles w rejs = .ok w' → OutOnly w.fs w'.fs := by
  induction rejs with
  | nil =>
    intro w w' _ h
    unfold saveRejFiles at h
    cases h
    exact OutOnly.refl _
  | cons x rest ih =>
    intro w w' hr h
    obtain ⟨name, content⟩ := x
    rw [saveRejFiles_cons] at h
    split at h
    · cases h
    · rename_i k hk
      have hout : ¬ isPcKey k := hr (name, content) (List.mem_cons_self ..) k hk
      have hrest : Compose.RejsOut rest := fun r hm => hr r (List.mem_cons_of_mem _ hm)
      have hcont : ∀ w0 : World, OutOnly w.fs w0.fs →
          (match w0.op (.createFile k) with
            | .notFound w' => saveRejFiles w' rest
            | .failed w' => .error (.err, w')
            | .ok w' =>
              match w'.op (.write k content) with
              | .ok w'' => saveRejFiles w'' rest
              | .notFound w'' | .failed w'' => .error (.err, w'')) = .ok w' →
          OutOnly w.fs w'.fs := by
        intro w0 a0 h
        split at h
        · rename_i w1 hop
          exact (a0.trans (op_notFound_outOnly hop)).trans (ih w1 w' hrest h)
        · cases h
        · rename_i w1 hop
          split at h
          · rename_i w2 hop2
            exact ((a0.trans (op_ok_outOnly hop hout)).trans (op_ok_outOnly hop2 hout)).trans (ih w2 w' hrest h)
          · cases h
          · cases h
      split at h
      · -- bypassed (`ENOTDIR`): nothing is touched
        split at h
        · cases h
        · split at h
          · cases h
          · exact ih ((w.logged (.removeFile k)).logged (.createFile k)) w' hrest h
      split at h
      · cases h
      · rename_i w0 hop
        exact hcont w0 (op_ok_outOnly hop hout) h
      · rename_i w0 hop
        exact hcont w0 (op_notFound_outOnly hop) h

/-- **(6)** a successful real run that writes no backups leaves every path below `.pc` as it was, provided the names
in the cache and the names of the reject files are outside `.pc` -/
theorem applyPatches_no_backups_outOnly (w w' : World) (cfg : Cfg) (range : List Series.Entry) (st : St) (k k' : Nat)
    (rejs : List (Bytes × Bytes)) (hl : applyLoop w.fs cfg range 0 {} = .ok (st, k, rejs))
    (hd : cfg.dryRun = false) (hm : cfg.backup = .never ∨ (cfg.backup = .onfail ∧ k = range.length))
    (hmem : MemOut st.mem) (hrej : Compose.RejsOut rejs) (h : applyPatches w cfg range = .ok (w', k')) :
    OutOnly w.fs w'.fs := by
  rw [C08_modes w cfg range st k rejs hl hd hm] at h
  split at h
  · cases h
  · rename_i w1 dirs hsave
    split at h
    · cases h
    · rename_i w2 hclean
      split at h
      · cases h
      · rename_i w3 hrj
        cases h
        obtain ⟨s1, s2⟩ := saveAll_outOnly st.mem w w1 [] dirs hmem (fun _ hd' => by cases hd') hsave
        exact (s1.trans (cleanAll_outOnly dirs w1 w2 s2 hclean)).trans (saveRejFiles_outOnly rejs w2 w' hrej hrj)

/-- the hypotheses of (6) from the patches: no name in a patch of the range has a path below `.pc` -/
theorem applyLoop_out {fs : FS} {cfg : Cfg} {range : List Series.Entry} {st : St} {k : Nat}
    {rejs : List (Bytes × Bytes)}
    (hn : ∀ e ∈ range, ∀ patch, Agree.patchOf fs cfg e = some patch → ∀ fp ∈ patch.fps,
      Compose.NamesSat (fun k => ¬ isPcKey k) fp)
    (h : applyLoop fs cfg range 0 {} = .ok (st, k, rejs)) : MemOut st.mem ∧ Compose.RejsOut rejs := by
  obtain ⟨h1, _, h3⟩ := applyLoop_inv (Q := fun n => ∀ k, safeKey n = some k → ¬ isPcKey k)
    (fun s => ∃ k, safeKey s.target = some k ∧ ¬ isPcKey k) range (memNames_nil _)
    (fun _ hs => by cases hs) hn
    (fun i e hi patch hp fp hfp s hso => by
      obtain ⟨k0, hk0⟩ := Agree.safe_of_namesSafe hso.safe hso.target
      exact ⟨k0, hk0, hn e (List.mem_of_getElem? hi) patch hp fp hfp s.target hso.target k0 hk0⟩) h
  refine ⟨h1, ?_⟩
  intro r hr k' hk'
  obtain ⟨s, ⟨k0, hsk, hout⟩, hrs⟩ := h3 r hr
  rw [hrs] at hk'
  exact Compose.safeKey_rej_not_pc hsk hout hk'

/-! ## (7) when the backup paths are apart: no two patches of the range have the same path

`pcKey p n = .pc ++ safeKey p ++ safeKey n`, so `(p, n) = (a, b/c)` and `(a/b, c)` give the same path.  But both `a` and
`a/b` would have to be patch files the loop has read — regular files, one inside the other: impossible.  What remains
is two series entries with the *same* patch path (`p` listed twice, or `p` and `./p`). -/

/-- what is known of a `Status` after the application loop -/
def StatusFrom (fs : FS) (cfg : Cfg) (range : List Series.Entry) (s : Status) : Prop :=
  ∃ e patch, range[s.index]? = some e ∧ s.patchName = e.name ∧ Agree.patchOf fs cfg e = some patch ∧
    s.fp ∈ patch.fps ∧ (s.fp.old = some s.target ∨ s.fp.new = some s.target)

theorem applyLoop_statusFrom {fs : FS} {cfg : Cfg} {range : List Series.Entry} {st : St} {k : Nat}
    {rejs : List (Bytes × Bytes)} (h : applyLoop fs cfg range 0 {} = .ok (st, k, rejs)) :
    ∀ s ∈ st.applied, StatusFrom fs cfg range s := by
  refine (applyLoop_inv (Q := fun _ => True) (StatusFrom fs cfg range) range (memNames_nil _)
    (fun _ hs => by cases hs) (fun _ _ _ _ _ _ _ _ => trivial) ?_ h).2.1
  intro i e hi patch hp fp hfp s hso
  refine ⟨e, patch, by rw [hso.index]; simpa using hi, hso.patchName, hp, by rw [hso.fp_eq]; exact hfp, ?_⟩
  rw [hso.fp_eq]; exact hso.target

/-- what is known of a call: its patch is the series entry with its index, its file is named in that patch -/
def CallFrom (fs : FS) (cfg : Cfg) (range : List Series.Entry) (c : Call) : Prop :=
  ∃ e patch fp, range[c.1]? = some e ∧ c.2.1 = e.name ∧ Agree.patchOf fs cfg e = some patch ∧
    fp ∈ patch.fps ∧ (fp.old = some c.2.2.1 ∨ fp.new = some c.2.2.1)

theorem backupCalls_from {fs : FS} {cfg : Cfg} {range : List Series.Entry} {st : St} {k : Nat}
    {rejs : List (Bytes × Bytes)} (hl : applyLoop fs cfg range 0 {} = .ok (st, k, rejs))
    {downTo : Nat} {calls : List Call} {mem' : Mem} (hc : backupCalls st.mem st.applied downTo = .ok (calls, mem')) :
    ∀ c ∈ calls, CallFrom fs cfg range c := by
  intro c hcm
  obtain ⟨s, hs, h1, h2, h3⟩ := backupCalls_status _ _ _ _ _ hc c hcm
  obtain ⟨e, patch, he1, he2, hp, hfp, ht⟩ := applyLoop_statusFrom hl s hs
  refine ⟨e, patch, s.fp, by rw [h1]; exact he1, by rw [h2]; exact he2, hp, hfp, ?_⟩
  rcases h3 with h3 | h3
  · rw [h3]; exact ht
  · exact .inr h3

/-- a patch that has been parsed was read from a regular file at `patches/<name>` -/
theorem patchOf_read {fs : FS} {cfg : Cfg} {e : Series.Entry} {patch : Patch}
    (h : Agree.patchOf fs cfg e = some patch) :
    ∃ d p x, safeKey cfg.patchesDir = some d ∧ safeKey e.name = some p ∧ fs.readFile (d ++ p) = .ok x := by
  unfold Agree.patchOf at h
  split at h
  · cases h
  · rename_i pk hpk
    split at h
    · cases h
    · rename_i bytes mode hrd
      unfold patchKey at hpk
      split at hpk
      · rename_i d p hd hp
        cases hpk
        exact ⟨d, p, _, hd, hp, hrd⟩
      · cases hpk

theorem readFile_ok_spec {fs : FS} {k : Key} {x : Bytes × Nat} (h : fs.readFile k = .ok x) :
    fs.fileOnPath k = false ∧ Agree.IsFile (fs.lookup k) := by
  unfold FS.readFile at h
  split at h
  · cases h
  · rename_i hfp
    refine ⟨by simpa using hfp, ?_⟩
    split at h
    · rename_i hl
      rw [hl]; trivial
    · cases h
    · split at h <;> cases h

/-- two readable files below one directory: the path of one is not inside the other -/
theorem readFile_prefix_eq {fs : FS} {d pa pb : Key} {x y : Bytes × Nat} (ha : fs.readFile (d ++ pa) = .ok x)
    (hb : fs.readFile (d ++ pb) = .ok y) (hpre : pa <+: pb) (hne : pa ≠ []) : pa = pb := by
  obtain ⟨t, rfl⟩ := hpre
  cases t with
  | nil => simp
  | cons u t =>
    exfalso
    have hs : Agree.SPre (d ++ pa) (d ++ (pa ++ u :: t)) := by
      refine ⟨by simp, ?_⟩
      rw [← List.append_assoc]
      exact List.take_left
    have hnn : d ++ pa ≠ [] := by
      intro e
      exact hne (List.append_eq_nil_iff.mp e).2
    exact (Agree.fileOnPath_false_iff fs _).mp (readFile_ok_spec hb).1 _ hs hnn (readFile_ok_spec ha).2

/-- no entry of the range is called `.` -/
def PatchNamesProper (range : List Series.Entry) : Prop := ∀ e ∈ range, safeKey e.name ≠ some []

/-- no two entries of the range name the same patch file -/
def PatchPathsDistinct (range : List Series.Entry) : Prop := (range.map (fun e => safeKey e.name)).Nodup

instance (range : List Series.Entry) : Decidable (PatchPathsDistinct range) :=
  inferInstanceAs (Decidable (List.Nodup _))

instance (range : List Series.Entry) : Decidable (PatchNamesProper range) :=
  inferInstanceAs (Decidable (∀ e ∈ range, _))

theorem nodup_index {α : Type} {l : List α} (h : l.Nodup) {i j : Nat} {x : α} (hi : l[i]? = some x)
    (hj : l[j]? = some x) : i = j := by
  obtain ⟨hi', ei⟩ := List.getElem?_eq_some_iff.mp hi
  obtain ⟨hj', ej⟩ := List.getElem?_eq_some_iff.mp hj
  have hp := List.pairwise_iff_getElem.mp (List.nodup_iff_pairwise_ne.mp h)
  rcases Nat.lt_trichotomy i j with hlt | heq | hgt
  · exact absurd (ei.trans ej.symm) (hp i j hi' hj' hlt)
  · exact heq
  · exact absurd (ej.trans ei.symm) (hp j i hj' hi' hgt)


/-- **(7)** after the application loop the backup paths of different (patch, file) slots are different as soon as no
two entries of the range name the same patch file -/
theorem pcKeysApart_of_distinct {fs : FS} {cfg : Cfg} {range : List Series.Entry} {st : St} {k : Nat}
    {rejs : List (Bytes × Bytes)} (hl : applyLoop fs cfg range 0 {} = .ok (st, k, rejs))
    {downTo : Nat} {calls : List Call} {mem' : Mem} (hc : backupCalls st.mem st.applied downTo = .ok (calls, mem'))
    (hdist : PatchPathsDistinct range) (hprop : PatchNamesProper range) : PcKeysApart calls := by
  intro a ha b hb hsome heq
  obtain ⟨ea, patcha, fpa, ia, na, hpa, hfpa, hta⟩ := backupCalls_from hl hc a ha
  obtain ⟨eb, patchb, fpb, ib, nb, hpb, hfpb, htb⟩ := backupCalls_from hl hc b hb
  obtain ⟨d, pa, xa, hd, hka, hra⟩ := patchOf_read hpa
  obtain ⟨d', pb, xb, hd', hkb, hrb⟩ := patchOf_read hpb
  rw [hd] at hd'
  cases hd'
  -- the names of the two files have no `.` component
  obtain ⟨bytesa, hparsea⟩ := Agree.patchOf_parse hpa
  obtain ⟨bytesb, hparseb⟩ := Agree.patchOf_parse hpb
  have hca : Comp.cur ∉ components a.2.2.1 := Disk.parsePatch_noCur hparsea fpa hfpa _ hta
  have hcb : Comp.cur ∉ components b.2.2.1 := Disk.parsePatch_noCur hparseb fpb hfpb _ htb
  -- the two paths
  unfold callKey at hsome heq
  rw [na] at hsome heq
  rw [nb] at heq
  unfold pcKey at hsome heq
  rw [hka] at hsome heq
  rw [hkb] at heq
  cases hsa : safeKey a.2.2.1 with
  | none => rw [hsa] at hsome; cases hsome
  | some ka =>
    rw [hsa] at heq
    cases hsb : safeKey b.2.2.1 with
    | none => rw [hsb] at heq; cases heq
    | some kb =>
      rw [hsb] at heq
      simp only [Option.some.injEq, List.cons_append, List.nil_append, List.cons.injEq, true_and] at heq
      have hpne : ∀ e ∈ range, ∀ p, safeKey e.name = some p → p ≠ [] := by
        intro e he p hp e0
        exact hprop e he (by rw [hp, e0])
      have hpab : pa = pb := by
        rcases List.prefix_or_prefix_of_prefix (List.prefix_append pa ka)
          (heq ▸ List.prefix_append pb kb) with hpre | hpre
        · exact readFile_prefix_eq hra hrb hpre (hpne ea (List.mem_of_getElem? ia) pa hka)
        · exact (readFile_prefix_eq hrb hra hpre (hpne eb (List.mem_of_getElem? ib) pb hkb)).symm
      subst hpab
      have hij : a.1 = b.1 := by
        refine nodup_index hdist (x := some pa) ?_ ?_
        · rw [List.getElem?_map, ia]; simp [hka]
        · rw [List.getElem?_map, ib]; simp [hkb]
      have hk : ka = kb := List.append_cancel_left heq
      subst hk
      refine ⟨hij, ?_⟩
      rw [safeKey_components_of_no_cur hsa hca, safeKey_components_of_no_cur hsb hcb]

/-! ## (8) why nothing is assumed about one backup path being a directory of another: `saveBackups` fails then -/

theorem writeNew_lookup_ne {w w' : World} {k : Key} {perms : Option Nat} {content : Bytes}
    (h : writeNew w k perms content = .ok w') {q : Key} (hq : q ≠ k) : w'.fs.lookup q = w.fs.lookup q := by
  unfold writeNew at h
  cases perms with
  | none =>
    simp only at h
    split at h
    · rename_i w2 hop
      cases h
      rw [(op_write_ok hop).1]
      exact Compose.appendBytes_lookup_ne _ _ hq
    · cases h
    · cases h
  | some p =>
    simp only at h
    split at h
    · cases h
    · rename_i w1 heq
      split at heq
      · rename_i w1' hop1
        cases heq
        split at h
        · rename_i w2 hop
          cases h
          rw [(op_write_ok hop).1, Compose.appendBytes_lookup_ne _ _ hq, (op_setMode_ok hop1).1,
            Compose.setMode_lookup_ne _ _ hq]
        · cases h
        · cases h
      · cases heq
      · cases heq

/-- the steps of a successful `saveBackup` on the file system -/
theorem saveBackup_steps {w w' : World} {pn name : Bytes} {f : FileSt Bytes} {k : Key}
    (hk : pcKey pn name = some k) (h : saveBackup w pn name f = .ok w') :
    ∃ fs1 fs2 fs3, w.fs.createDirAll k.dropLast = .ok fs1 ∧
      (fs1.removeFile k = .ok fs2 ∨ (fs1.removeFile k = .error .notFound ∧ fs2 = fs1)) ∧
      fs2.createFile k = .ok fs3 ∧ ∀ q, q ≠ k → w'.fs.lookup q = fs3.lookup q := by
  unfold saveBackup at h
  rw [hk] at h
  simp only at h
  split at h
  · rename_i w1 hop1
    have g1 := (op_ok_run hop1).1
    have hcont : ∀ w2 : World,
        (match w2.op (.createFile k) with
          | .ok w => writeNew w k f.perms (bytesOf f.content)
          | .notFound w | .failed w => .error (.err, w)) = .ok w' →
        ∃ fs3, w2.fs.createFile k = .ok fs3 ∧ ∀ q, q ≠ k → w'.fs.lookup q = fs3.lookup q := by
      intro w2 h
      split at h
      · rename_i w3 hop3
        exact ⟨w3.fs, (op_ok_run hop3).1, fun q hq => writeNew_lookup_ne h hq⟩
      · cases h
      · cases h
    split at h
    · cases h
    · rename_i w2 hop2
      obtain ⟨fs3, c1, c2⟩ := hcont w2 h
      exact ⟨w1.fs, w2.fs, fs3, g1, .inl (op_ok_run hop2).1, c1, c2⟩
    · rename_i w2 hop2
      obtain ⟨b0, b1, _⟩ := op_notFound_run hop2
      obtain ⟨fs3, c1, c2⟩ := hcont w2 h
      exact ⟨w1.fs, w2.fs, fs3, g1, .inr ⟨b0, b1⟩, c1, c2⟩
  · cases h
  · cases h

theorem isFile_iff_fileAt {fs : FS} {q : Key} : Agree.IsFile (fs.lookup q) ↔ fileAt fs q ≠ none := by
  rw [Ne, fileAt_eq_none_iff]
  cases h : fs.lookup q with
  | none => simp [Agree.IsFile]
  | some n => cases n <;> simp [Agree.IsFile]

theorem spre_take_dropLast {q k : Key} (h : Agree.SPre q k) : q = k.dropLast.take q.length := by
  rw [List.dropLast_eq_take, List.take_take, Nat.min_eq_left (by have := h.1; omega)]
  exact h.2.symm

/-- what a successful `saveBackup` needs and what it leaves -/
theorem saveBackup_shape {w w' : World} {pn name : Bytes} {f : FileSt Bytes} {k : Key}
    (hk : pcKey pn name = some k) (h : saveBackup w pn name f = .ok w') :
    -- needs: no regular file on the way, no directory at the path
    (∀ q, Agree.SPre q k → q ≠ [] → ¬ Agree.IsFile (w.fs.lookup q)) ∧ w.fs.lookup k ≠ some .dir ∧
    -- leaves: a regular file at the path, directories on the way
    Agree.IsFile (w'.fs.lookup k) ∧ (∀ q, Agree.SPre q k → q ≠ [] → w'.fs.lookup q = some .dir) ∧
    -- keeps: regular files and directories elsewhere
    (∀ q, q ≠ k → Agree.IsFile (w.fs.lookup q) → Agree.IsFile (w'.fs.lookup q)) ∧
    (∀ q, q ≠ k → w.fs.lookup q = some .dir → w'.fs.lookup q = some .dir) := by
  obtain ⟨fs1, fs2, fs3, s1, s2, s3, s4⟩ := saveBackup_steps hk h
  obtain ⟨d1, d2⟩ := Tight.createDirAll_spec s1
  have hdisk := saveBackup_disk hk h
  -- lookups away from `k` after the directory step
  have hafter : ∀ q, q ≠ k → w'.fs.lookup q = fs1.lookup q := by
    intro q hq
    rw [s4 q hq, Compose.createFile_lookup_ne s3 hq]
    rcases s2 with s2 | ⟨_, rfl⟩
    · rw [FS.removeFile_ok s2]; exact FS.lookup_erase_ne fs1 k q hq
    · rfl
  have hdir1 : ∀ q, Agree.SPre q k → q ≠ [] → fs1.lookup q = some .dir := by
    intro q hs hq
    have e := spre_take_dropLast hs
    rw [e]
    exact d2 _ (by rw [← e]; exact hq)
  refine ⟨?_, ?_, ?_, ?_, ?_, ?_⟩
  · intro q hs hq hf
    have h1 := hdir1 q hs hq
    rcases d1 q with e | ⟨e, _⟩
    · rw [← e, h1] at hf; exact hf
    · rw [e] at hf; exact hf
  · intro hdk
    have h1 : fs1.lookup k = some .dir := by
      rcases d1 k with e | ⟨e, _⟩
      · rw [e]; exact hdk
      · rw [e] at hdk; cases hdk
    rcases s2 with s2 | ⟨s2, _⟩
    · obtain ⟨_, c, m, i, hl⟩ := Tight.removeFile_spec s2
      rw [h1] at hl; cases hl
    · have := FS.removeFile_notFound s2
      rw [h1] at this; cases this
  · rw [isFile_iff_fileAt, hdisk.2.1]; simp
  · intro q hs hq
    rw [hafter q (Agree.spre_ne hs)]
    exact hdir1 q hs hq
  · intro q hq hf
    rw [isFile_iff_fileAt] at hf ⊢
    rw [hdisk.2.2 q hq]; exact hf
  · intro q hq hdq
    rw [hafter q hq]
    rcases d1 q with e | ⟨e, _⟩
    · rw [e]; exact hdq
    · rw [e] at hdq; cases hdq

theorem callKey_ne_nil {c : Call} {k : Key} (h : callKey c = some k) : k ≠ [] := by
  unfold callKey pcKey at h
  split at h
  · cases h; simp
  · cases h

/-- a regular file stays in the way of every later call below it -/
theorem saveBackups_file_blocks (calls : List Call) : ∀ (w w' : World) (q : Key), saveBackups w calls = .ok w' →
    Agree.IsFile (w.fs.lookup q) → q ≠ [] → ∀ c ∈ calls, ∀ kc, callKey c = some kc → ¬ Agree.SPre q kc := by
  induction calls with
  | nil => intro _ _ _ _ _ _ c hc; cases hc
  | cons c0 rest ih =>
    intro w w' q h hf hq c hc kc hkc
    rw [saveBackups_cons] at h
    cases hs : saveBackup w c0.2.1 c0.2.2.1 c0.2.2.2 with
    | error e => rw [hs] at h; cases h
    | ok w0 =>
      rw [hs] at h
      obtain ⟨k0, hk0⟩ := saveBackup_key hs
      obtain ⟨n1, _, l1, _, p1, _⟩ := saveBackup_shape hk0 hs
      rcases List.mem_cons.mp hc with rfl | hc
      · have e : kc = k0 := by
          have : callKey c = some k0 := hk0
          rw [hkc] at this
          cases this; rfl
        subst e
        exact fun hsp => n1 q hsp hq hf
      · refine ih w0 w' q h ?_ hq c hc kc hkc
        by_cases e : q = k0
        · subst e; exact l1
        · exact p1 q e hf

/-- a directory stays in the way of every later call for its own path -/
theorem saveBackups_dir_blocks (calls : List Call) : ∀ (w w' : World) (q : Key), saveBackups w calls = .ok w' →
    w.fs.lookup q = some .dir → ∀ c ∈ calls, callKey c ≠ some q := by
  induction calls with
  | nil => intro _ _ _ _ _ c hc; cases hc
  | cons c0 rest ih =>
    intro w w' q h hdq c hc hkc
    rw [saveBackups_cons] at h
    cases hs : saveBackup w c0.2.1 c0.2.2.1 c0.2.2.2 with
    | error e => rw [hs] at h; cases h
    | ok w0 =>
      rw [hs] at h
      obtain ⟨k0, hk0⟩ := saveBackup_key hs
      obtain ⟨_, n2, _, _, _, p2⟩ := saveBackup_shape hk0 hs
      have hne : q ≠ k0 := by
        intro e; subst e; exact n2 hdq
      rcases List.mem_cons.mp hc with rfl | hc
      · have : callKey c = some k0 := hk0
        rw [hkc] at this
        cases this
        exact hne rfl
      · exact ih w0 w' q h (p2 q hne hdq) c hc hkc

/-- **(8)** in a successful `saveBackups` no backup path is a directory of another backup path -/
theorem saveBackups_ok_no_prefix (calls : List Call) : ∀ (w w' : World), saveBackups w calls = .ok w' →
    ∀ a ∈ calls, ∀ b ∈ calls, ∀ ka kb, callKey a = some ka → callKey b = some kb → ¬ Agree.SPre ka kb := by
  induction calls with
  | nil => intro _ _ _ a ha; cases ha
  | cons c0 rest ih =>
    intro w w' h a ha b hb ka kb hka hkb hsp
    rw [saveBackups_cons] at h
    cases hs : saveBackup w c0.2.1 c0.2.2.1 c0.2.2.2 with
    | error e => rw [hs] at h; cases h
    | ok w0 =>
      rw [hs] at h
      obtain ⟨k0, hk0⟩ := saveBackup_key hs
      have hk0' : callKey c0 = some k0 := hk0
      obtain ⟨_, _, l1, l2, _, _⟩ := saveBackup_shape hk0 hs
      rcases List.mem_cons.mp ha with ea | ha' <;> rcases List.mem_cons.mp hb with eb | hb'
      · subst ea; subst eb
        rw [hka] at hkb; cases hkb
        exact Agree.spre_irrefl _ hsp
      · subst ea
        rw [hka] at hk0'; cases hk0'
        exact saveBackups_file_blocks rest w0 w' ka h l1 (callKey_ne_nil hka) b hb' kb hkb hsp
      · subst eb
        rw [hkb] at hk0'; cases hk0'
        exact saveBackups_dir_blocks rest w0 w' ka h (l2 ka hsp (callKey_ne_nil hka)) a ha' hka
      · exact ih w0 w' h a ha' b hb' ka kb hka hkb hsp

#print axioms saveBackup_disk
#print axioms saveBackups_disk
#print axioms saveBackups_lastCall
#print axioms applyLoop_inv
#print axioms backupCalls_patchNames
#print axioms applyPatches_backups_run
#print axioms applyRange_look_canon
#print axioms applyPatches_no_backups_outOnly
#print axioms applyLoop_out
#print axioms pcKeysApart_of_distinct
#print axioms saveBackups_ok_no_prefix

end RQ.BackupDisk
