import RQ.Lemmas.InodesFS
import RQ.Lemmas.ApplySplit
/-! Helper lemmas for C15, part 2: `existed` of memory entries is truthful w.r.t. the initial file system. -/
namespace RQ
section
variable {α : Type} [DecidableEq α]

omit [DecidableEq α] in
theorem applyCreate_existed (h : Hunk α) (d : Dir) (F : Nat) (mode : Mode) (f : FileSt α) :
    (applyCreate h d F mode f).1.existed = f.existed := by
  unfold applyCreate
  split
  · rfl
  · split <;> rfl

theorem applyDelete_existed (fp : FilePatch α) (h : Hunk α) (d : Dir) (F : Nat) (mode : Mode) (f : FileSt α) :
    (applyDelete fp h d F mode f).1.existed = f.existed := by
  unfold applyDelete
  split
  · rfl
  · simp only
    split <;> split <;> rfl

theorem applyModify_existed {hs : List (Hunk α)} {d : Dir} {F : Nat} {mode : Mode} {f f' : FileSt α}
    {rep : Report} (h : applyModify hs d F mode f = some (f', rep)) : f'.existed = f.existed := by
  unfold applyModify at h
  simp only at h
  split at h
  · cases h
  · cases h; rfl

theorem applyKind_existed {fp : FilePatch α} {d : Dir} {F : Nat} {mode : Mode} {f f' : FileSt α}
    {rep : Report} (h : applyKind fp d F mode f = some (f', rep)) : f'.existed = f.existed := by
  unfold applyKind at h
  split at h
  · exact applyModify_existed h
  · injection h with h
    have := congrArg Prod.fst h
    simp only at this
    rw [← this]; exact applyCreate_existed ..
  · injection h with h
    have := congrArg Prod.fst h
    simp only at this
    rw [← this]; exact applyCreate_existed ..
  · injection h with h
    have := congrArg Prod.fst h
    simp only at this
    rw [← this]; exact applyDelete_existed ..
  · injection h with h
    have := congrArg Prod.fst h
    simp only at this
    rw [← this]; exact applyDelete_existed ..
  · cases h

theorem applyInternal_existed {fp : FilePatch α} {d : Dir} {F : Nat} {mode : Mode} {f f' : FileSt α}
    {rep : Report} (h : applyInternal fp d F mode f = some (f', rep)) : f'.existed = f.existed := by
  unfold applyInternal at h
  split at h
  · cases h
  · rename_i f1 rep1 hk
    have := applyKind_existed hk
    split at h
    · cases h; exact this
    · simp only at h
      split at h <;> (cases h; exact this)

theorem apply_existed {fp : FilePatch α} {d : Dir} {F : Nat} {f f' : FileSt α}
    {rep : Report} (h : fp.apply d F f = some (f', rep)) : f'.existed = f.existed :=
  applyInternal_existed h

theorem rollback_existed {fp : FilePatch α} {d : Dir} {r : Report} {f f' : FileSt α}
    (h : fp.rollback d r f = some f') : f'.existed = f.existed := by
  unfold FilePatch.rollback at h
  split at h
  · cases h
  · split at h
    · cases h
    · rename_i hk
      split at h
      · cases h
      · cases h; exact applyInternal_existed hk

end
end RQ

namespace RQ.Push
open RQ RQ.Parse RQ.Write

/-- `safeKey` as a function of the components -/
def keyOfComps (cs : List Comp) : Option Key :=
  if cs.all (fun c => match c with | .normal _ => true | .cur => true | _ => false) then
    some (cs.filterMap (fun c => match c with | .normal n => some n | _ => none))
  else none

theorem safeKey_comps {name : Bytes} {k : Key} (h : safeKey name = some k) :
    keyOfComps (components name) = some k := by
  unfold safeKey at h
  split at h
  · cases h
  · exact h

/-- an entry that claims the file did not exist: its path was free in the initial file system -/
def ExOK (fs0 : FS) (cs : List Comp) (ex : Bool) : Prop :=
  ex = false → ∀ k, keyOfComps cs = some k → fs0.lookup k = none

def MemOK (fs0 : FS) (m : Mem) : Prop :=
  ∀ e ∈ m, e.1 = components e.2.1 ∧ ExOK fs0 e.1 e.2.2.existed

theorem memOK_nil (fs0 : FS) : MemOK fs0 [] := by
  intro e he; cases he

theorem MemOK.get {fs0 : FS} {m : Mem} {name : Bytes} {f : FileSt Bytes} (h : MemOK fs0 m)
    (hg : m.get name = some f) : ExOK fs0 (components name) f.existed := by
  unfold Mem.get at hg
  cases hfind : m.find? (fun e => e.1 == components name) with
  | none => rw [hfind] at hg; cases hg
  | some e =>
    rw [hfind] at hg
    simp only [Option.map_some, Option.some.injEq] at hg
    have hmem := List.mem_of_find?_eq_some hfind
    have hp := List.find?_some hfind
    simp only [beq_iff_eq] at hp
    rw [← hp, ← hg]
    exact (h e hmem).2

theorem MemOK.put {fs0 : FS} {m : Mem} {name : Bytes} {f : FileSt Bytes} (h : MemOK fs0 m)
    (hf : ExOK fs0 (components name) f.existed) : MemOK fs0 (m.put name f) := by
  unfold Mem.put
  split
  · intro e he
    rw [List.mem_map] at he
    obtain ⟨e0, he0, rfl⟩ := he
    split
    · rename_i hk
      simp only [beq_iff_eq] at hk
      refine ⟨(h e0 he0).1, ?_⟩
      simp only
      rw [hk]; exact hf
    · exact h e0 he0
  · intro e he
    rw [List.mem_append] at he
    cases he with
    | inl he => exact h e he
    | inr he =>
      simp only [List.mem_singleton] at he
      subst he
      exact ⟨rfl, hf⟩

theorem exOK_true (fs0 : FS) (cs : List Comp) : ExOK fs0 cs true := by
  intro h; cases h

theorem getOrLoad_ok {fs0 : FS} {m m' : Mem} {name : Bytes} {f : FileSt Bytes} (h : MemOK fs0 m)
    (e : getOrLoad m fs0 name = .ok (m', f)) : MemOK fs0 m' ∧ ExOK fs0 (components name) f.existed := by
  unfold getOrLoad at e
  split at e
  · rename_i f0 hg
    cases e
    exact ⟨h, h.get hg⟩
  · split at e
    · cases e
    · rename_i k hk
      split at e
      · cases e
        exact ⟨h.put (exOK_true _ _), exOK_true _ _⟩
      · rename_i hr
        cases e
        have hex : ExOK fs0 (components name) nonExistent.existed := by
          intro _ k' hk'
          rw [safeKey_comps hk] at hk'
          cases hk'
          exact FS.readFile_notFound hr
        exact ⟨h.put hex, hex⟩
      · cases e

theorem moveIn_existed {self other r : FileSt Bytes} (h : moveIn self other = some r) :
    r.existed = self.existed := by
  unfold moveIn at h
  split at h
  · cases h
  · cases h; rfl

theorem applyCore_ok {fs0 : FS} {st st' : St} {cfg : Cfg} {index : Nat} {entry : Series.Entry}
    {fp : PFilePatch} {b : Bool} (h : MemOK fs0 st.mem)
    (e : applyCore st fs0 cfg index entry fp = .ok (st', b)) : MemOK fs0 st'.mem := by
  unfold applyCore at e
  split at e
  · cases e
  · split at e
    · cases e
    · rename_i target _
      split at e
      · cases e
      · rename_i mem file hload
        obtain ⟨hm, hx⟩ := getOrLoad_ok h hload
        simp only at e
        split at e
        · -- rename
          split at e
          · cases e
          · rename_i newName _
            simp only [moveOut] at e
            have hm1 : MemOK fs0 (mem.put target { file with content := [], deleted := true, perms := none }) :=
              hm.put hx
            split at e
            · cases e
            · rename_i mem2 newFile hload2
              obtain ⟨hm2, hx2⟩ := getOrLoad_ok hm1 hload2
              split at e
              · split at e
                · cases e
                · rename_i tf hget
                  have hxt := hm2.get hget
                  split at e
                  · rename_i tf' hin
                    cases e
                    refine hm2.put ?_
                    simp only [moveIn_existed hin]
                    exact hxt
                  · cases e
                    exact hm2.put hxt
              · rename_i moved hin
                split at e
                · cases e
                · rename_i f' rep happ
                  cases e
                  refine hm2.put ?_
                  rw [apply_existed happ, moveIn_existed hin]
                  exact hx2
        · split at e
          · cases e
          · rename_i f' rep happ
            cases e
            refine hm.put ?_
            rw [apply_existed happ]
            exact hx

theorem preLoad_memOK {fs0 : FS} {m mem0 : Mem} {fp : PFilePatch} (h : MemOK fs0 m)
    (e : preLoad m fs0 fp = .ok mem0) : MemOK fs0 mem0 := by
  rcases preLoad_ok e with rfl | ⟨n, f, _, _, hl⟩
  · exact h
  · exact (getOrLoad_ok h hl).1

theorem applyOne_ok {fs0 : FS} {st st' : St} {cfg : Cfg} {index : Nat} {entry : Series.Entry}
    {fp : PFilePatch} {b : Bool} (h : MemOK fs0 st.mem)
    (e : applyOne st fs0 cfg index entry fp = .ok (st', b)) : MemOK fs0 st'.mem := by
  obtain ⟨mem0, hp, hc⟩ := applyOne_ok_split e
  exact applyCore_ok (st := { st with mem := mem0 }) (preLoad_memOK h hp) hc

theorem applyFilePatches_ok {fs0 : FS} {cfg : Cfg} {index : Nat} {entry : Series.Entry}
    (fps : List PFilePatch) : ∀ {st st' : St} {a b : Bool}, MemOK fs0 st.mem →
    applyFilePatches st fs0 cfg index entry fps a = .ok (st', b) → MemOK fs0 st'.mem := by
  induction fps with
  | nil =>
    intro st st' a b h e
    unfold applyFilePatches at e
    cases e; exact h
  | cons fp fps ih =>
    intro st st' a b h e
    unfold applyFilePatches at e
    split at e
    · cases e
    · rename_i st1 ok h1
      exact ih (applyOne_ok h h1) e

theorem rollbackOne_ok {fs0 : FS} {m m' : Mem} {s : Status} {f : FileSt Bytes} (h : MemOK fs0 m)
    (e : rollbackOne m s = .ok (m', f)) : MemOK fs0 m' := by
  unfold rollbackOne at e
  split at e
  · cases e
  · rename_i file hget
    have hx := h.get hget
    split at e
    · cases e
    · rename_i file' hrb
      have hx' : ExOK fs0 (components s.final) file'.existed := by
        rw [rollback_existed hrb]; exact hx
      split at e
      · simp only [moveOut] at e
        have hm1 := h.put (name := s.final)
          (f := { content := [], existed := file'.existed, deleted := ‹Bool›, perms := ‹Option Nat› }) hx'
        split at e
        · cases e
        · rename_i oldFile hget2
          have hx2 := MemOK.get hm1 hget2
          split at e
          · cases e
          · rename_i restored hin
            cases e
            refine hm1.put ?_
            simp only [moveIn_existed hin]
            exact hx2
      · cases e
        exact h.put hx'

theorem rollbackAndRenderRej_ok {fs0 : FS} (fuel : Nat) : ∀ {st st' : St} {idx : Nat}
    {rejs rejs' : List (Bytes × Bytes)}, MemOK fs0 st.mem →
    rollbackAndRenderRej fuel st idx rejs = .ok (st', rejs') → MemOK fs0 st'.mem := by
  induction fuel with
  | zero =>
    intro st st' idx rejs rejs' h e
    unfold rollbackAndRenderRej at e
    cases e; exact h
  | succ n ih =>
    intro st st' idx rejs rejs' h e
    unfold rollbackAndRenderRej at e
    split at e
    · cases e; exact h
    · split at e
      · cases e
      · split at e
        · cases e; exact h
        · split at e
          · cases e
          · rename_i mem _ hrb
            have hm := rollbackOne_ok h hrb
            simp only at e
            split at e
            · exact ih (st := { applied := _, mem := mem }) hm e
            · exact ih (st := { applied := _, mem := mem }) hm e

theorem applyLoop_ok {fs0 : FS} {cfg : Cfg} (range : List Series.Entry) : ∀ {index : Nat} {st st' : St}
    {final : Nat} {rejs : List (Bytes × Bytes)}, MemOK fs0 st.mem →
    applyLoop fs0 cfg range index st = .ok (st', final, rejs) → MemOK fs0 st'.mem := by
  induction range with
  | nil =>
    intro index st st' final rejs h e
    unfold applyLoop at e
    cases e; exact h
  | cons entry rest ih =>
    intro index st st' final rejs h e
    unfold applyLoop at e
    split at e
    · cases e
    · split at e
      · cases e
      · split at e
        · cases e
        · split at e
          · cases e
          · rename_i st1 anyFailed happ
            have hm := applyFilePatches_ok _ h happ
            split at e
            · split at e
              · cases e; exact hm
              · split at e
                · cases e
                · rename_i st2 rejs2 hrb
                  cases e
                  exact rollbackAndRenderRej_ok _ hm hrb
            · exact ih hm e

end RQ.Push
