import RQ.Lemmas.RoundTrip
/-! C13: the written form of a parsed file patch restricted to a non-empty sub-list of its hunks (a reject
file) is read back as one file patch with the same header fields and those hunks. -/
namespace RQ.Write
open RQ RQ.Parse

theorem failedHunks_mem : ∀ (hs : List PHunk) (reps : List Rep) (h : PHunk), h ∈ failedHunks hs reps → h ∈ hs := by
  intro hs
  induction hs with
  | nil => intro reps h hm; simp [failedHunks] at hm
  | cons a hs ih =>
    intro reps h hm
    cases reps with
    | nil => simp [failedHunks] at hm
    | cons r rs =>
      cases r with
      | failed x =>
        simp only [failedHunks, List.mem_cons] at hm
        rcases hm with rfl | hm
        · simp
        · exact List.mem_cons_of_mem _ (ih rs h hm)
      | applied a1 a2 a3 a4 a5 =>
        simp only [failedHunks] at hm
        exact List.mem_cons_of_mem _ (ih rs h hm)
      | skipped =>
        simp only [failedHunks] at hm
        exact List.mem_cons_of_mem _ (ih rs h hm)

theorem failedHunks_ne : ∀ (hs : List PHunk) (reps : List Rep), reps.length = hs.length →
    reps.any Rep.isFailed = true → failedHunks hs reps ≠ [] := by
  intro hs
  induction hs with
  | nil =>
    intro reps hl ha
    cases reps with
    | nil => simp at ha
    | cons r rs => simp at hl
  | cons a hs ih =>
    intro reps hl ha
    cases reps with
    | nil => simp at hl
    | cons r rs =>
      cases r with
      | failed x => simp [failedHunks]
      | applied a1 a2 a3 a4 a5 =>
        simp only [failedHunks]
        exact ih rs (by simpa using hl) (by simpa [Rep.isFailed] using ha)
      | skipped =>
        simp only [failedHunks]
        exact ih rs (by simpa using hl) (by simpa [Rep.isFailed] using ha)

/-- a parsed file patch with its hunks replaced by some of them -/
theorem rej_roundtrip (f : PFilePatch) (ok : FPOK' f) (hn : nullNamed f = false) (hs : List PHunk)
    (hsub : ∀ h ∈ hs, h ∈ f.hunks) (hne : hs ≠ []) :
    ∃ p' f', parsePatch (writeFilePatch { f with hunks := hs }) 0 true = .ok p' ∧ p'.fps = [f'] ∧
      f'.old = f.old ∧ f'.new = f.new ∧ f'.rename = f.rename ∧
      f'.oldPerm = f.oldPerm ∧ f'.newPerm = f.newPerm ∧ f'.oldHash = f.oldHash ∧ f'.newHash = f.newHash ∧
      sameHunks hs f'.hunks := by
  generalize hg : ({ f with hunks := hs } : PFilePatch) = g
  have g_old : g.old = f.old := by rw [← hg]
  have g_new : g.new = f.new := by rw [← hg]
  have g_ren : g.rename = f.rename := by rw [← hg]
  have g_op : g.oldPerm = f.oldPerm := by rw [← hg]
  have g_np : g.newPerm = f.newPerm := by rw [← hg]
  have g_oh : g.oldHash = f.oldHash := by rw [← hg]
  have g_nh : g.newHash = f.newHash := by rw [← hg]
  have g_hs : g.hunks = hs := by rw [← hg]
  have okg : FPW g := by
    refine ⟨?_, ?_, ?_, ?_, ?_, ?_⟩
    · intro h hm; rw [g_hs] at hm; exact (ok.hunksOK h (hsub h hm)).1
    · rw [g_ren, g_old, g_new]; exact ok.renOK
    · rw [g_old, g_new]; exact ok.nameOK
    · rw [g_op]; exact ok.oldPerm
    · rw [g_np]; exact ok.newPerm
    · rw [g_oh, g_nh]; exact ok.hash
  have hng : nullNamed g = false := by
    simp only [nullNamed, g_old, g_new]; exact hn
  have hkg : noopHunkless g = false := by
    have : g.hunks.isEmpty = false := by
      rw [g_hs]; cases hs with
      | nil => exact absurd rfl hne
      | cons a b => rfl
    simp [noopHunkless, this]
  have hW : writeFilePatch g = writeFilePatch g ++ [] := by simp
  have hlen := writeFilePatch_length g []
  obtain ⟨fp', e1, q1, q2, q3, q4, q5, q6, q7, q8⟩ := filePatch_tail_core (writeFilePatch g ++ []).length g okg hng hkg [] (Or.inl rfl) false
    (.real (oName g)) (.real (nName g)) ((writeFilePatch g ++ []).length + 1) (by omega) false
    ((writeFilePatch g ++ []).length - (writeFilePatch g ++ []).length)
    (fun fp' => (stripFP 0 fp').old = f.old ∧ (stripFP 0 fp').new = f.new ∧ (stripFP 0 fp').rename = f.rename ∧
      (stripFP 0 fp').oldPerm = f.oldPerm ∧ (stripFP 0 fp').newPerm = f.newPerm ∧
      (stripFP 0 fp').oldHash = f.oldHash ∧ (stripFP 0 fp').newHash = f.newHash ∧ sameHunks hs (stripFP 0 fp').hunks)
    (by
      intro hs' sh _
      refine ⟨?_, ?_, g_ren, g_op, g_np, g_oh, g_nh, by rw [← g_hs]; exact sh⟩
      · simp only [stripFP, g_old]
        cases ho : f.old with
        | none => rfl
        | some n => simp [ok.oldFix n ho]
      · simp only [stripFP, g_new]
        cases ho : f.new with
        | none => rfl
        | some n => simp [ok.newFix n ho])
  refine ⟨{ header := [], fps := [stripFP 0 fp'] }, stripFP 0 fp', ?_, rfl, q1, q2, q3, q4, q5, q6, q7, q8⟩
  rw [hW]
  unfold parsePatch
  rw [patchLoop_succ]
  have hfirst : parseFilePatch (writeFilePatch g ++ []) true =
      .ok ([], (writeFilePatch g ++ []).length - (writeFilePatch g ++ []).length, fp') := by
    unfold parseFilePatch
    have e0 : (writeFilePatch g ++ []).length + 2 = ((writeFilePatch g ++ []).length + 1) + 1 := rfl
    rw [e0, fpl_gitDiff _ _ _ _ _ _ _ _ _ _ _ (lineCond_of_hdr _ _ (hdr_written g [])) (diffLine_written false g hng [])]
    simp only [Bool.false_eq_true, if_false]
    simp only [mk] at e1
    exact e1
  rw [hfirst]
  simp only [if_true]
  rw [patchLoop_succ, parseFilePatch_nil]
  simp

end RQ.Write
