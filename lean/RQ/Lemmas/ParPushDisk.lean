import RQ.Lemmas.ParPush
/-!
# The disk after a parallel push (C06, stage 3)

The save phase under any schedule is (up to inode numbers) the workers' `workerSave` one after another
(`cmd_schedule_independence`); each `workerSave` writes the worker's cache (`saveAll_flush_aux`) and
backups below `.pc`, and touches no other worker's keys (`cmd_fileAt_frame`); the main thread's cleaning
changes no file and the reject files only their own paths.  So after `parApplyPatches` the file under
every name (no `.` component, not a reject file, not below `.pc`) is the file the tree of
`Abs.applyRange` has under that name — the conclusion of `C05_tree_on_disk` for the sequential driver.
-/
namespace RQ.Par
open RQ RQ.Push RQ.Parse RQ.Abs RQ.Flush

/-! ## Generic: files under `FSEquiv`, frames of commands -/

theorem fileAt_of_FSEquiv {a b : FS} (h : ParSave.FSEquiv a b) (k : Key) : fileAt a k = fileAt b k := by
  have hk := h k
  unfold fileAt
  cases ha : a.lookup k with
  | none =>
    cases hb : b.lookup k with
    | none => rfl
    | some nb => rw [ha, hb] at hk; cases hk
  | some na =>
    cases hb : b.lookup k with
    | none => rw [ha, hb] at hk; cases hk
    | some nb =>
      rw [ha, hb] at hk
      simp only [Option.map_some, Option.some.injEq] at hk
      cases na <;> cases nb <;> simp only [ParSave.noIno, Node.file.injEq, reduceCtorEq] at hk ⊢
      · obtain ⟨h1, h2, _⟩ := hk
        rw [h1, h2]

theorem exec_fileAt_ne (fs : FS) (o : Op) {k' : Key} (hne : k' ≠ opKey o) :
    fileAt (ParSave.exec fs o).2 k' = fileAt fs k' := by
  unfold ParSave.exec
  cases h : Op.run fs o with
  | ok fs' => exact run_fileAt_ne h hne
  | error e => cases e <;> rfl

theorem opKey_of_fileKey {o : Op} {k : Key} (h : ParSave.fileKey o = some k) : opKey o = k := by
  cases o <;> simp only [ParSave.fileKey, Option.some.injEq, reduceCtorEq] at h <;> exact h

/-- a command whose operations have their footprint in `keys`, and which succeeds, changes no file at a
path outside `keys` -/
theorem cmd_fileAt_frame {α : Type} {c : Cmd α} {keys : List Key} (hc : c.Fp (OpIn keys)) :
    ∀ (fs : FS) (a : α), c.result fs = .ok a → ∀ k', k' ∉ keys → fileAt (c.finalFS fs) k' = fileAt fs k' := by
  induction hc with
  | ret a => intro fs _ _ k' _; rfl
  | fail e => intro fs _ _ k' _; rfl
  | op o k hP hbad _ ih =>
    intro fs a hr k' hk'
    simp only [Cmd.finalFS, Cmd.result] at hr ⊢
    rw [ih _ _ a hr k' hk']
    cases hok : ParSave.okStep (o, (ParSave.exec fs o).1) with
    | false =>
      obtain ⟨e, he⟩ := hbad _ hok
      rw [he] at hr
      cases hr
    | true =>
      rcases ParSave.op_kind hok with ⟨key, hkey⟩ | ⟨d, rfl⟩
      · apply exec_fileAt_ne
        rw [opKey_of_fileKey hkey]
        intro heq
        exact hk' (heq ▸ hP.1 key hkey)
      · unfold ParSave.exec
        cases h : Op.run fs (.createDirAll d) with
        | ok fs' => exact createDirAll_fileAt h k'
        | error e => cases e <;> rfl

/-! ## One worker's save -/

theorem flushView_of_entry {mem : Mem} {key : Key} (h : key ∈ memKeys mem) (a b : FS) :
    flushView mem a key = flushView mem b key := by
  unfold flushView entryFor
  cases hfind : mem.find? (fun e => safeKey e.2.1 == some key) with
  | some e => rfl
  | none =>
    obtain ⟨e, he, hk⟩ := mem_memKeys.mp h
    have := List.find?_eq_none.mp hfind e he
    simp [hk] at this

theorem flushView_not_mem {mem : Mem} {key : Key} (h : key ∉ memKeys mem) (fs : FS) :
    flushView mem fs key = fileAt fs key :=
  flushView_of_no_entry (fun e he hk => h (mem_memKeys.mpr ⟨e, he, hk⟩)) fs

theorem workerSave_fileAt {cfg : Cfg} {k N : Nat} {w w' : World} {mem : Mem} {applied : List Status}
    {dirs : List Key} (hf : w.faultAt = none) (hdry : cfg.dryRun = false) (hd : KeysDistinct mem)
    (hfree : ∀ e ∈ mem, e.2.2.existed = false → ∀ key, safeKey e.2.1 = some key → fileAt w.fs key = none)
    (h : workerSave cfg k N w mem applied = .ok (w', dirs)) :
    w'.faultAt = none ∧
    (∀ key, key ∉ workerKeys cfg k N mem applied → fileAt w'.fs key = fileAt w.fs key) ∧
    (∀ key, ¬ isPcKey key → fileAt w'.fs key = flushView mem w.fs key) := by
  have hframe : ∀ key, key ∉ workerKeys cfg k N mem applied → fileAt w'.fs key = fileAt w.fs key := by
    intro key hkey
    have h' := h
    rw [← interp_workerSaveC, interp_eq _ _ hf] at h'
    cases hr : (workerSaveC cfg k N mem applied).result w.fs with
    | error e => rw [hr] at h'; cases h'
    | ok a =>
      rw [hr] at h'
      simp only [Except.ok.injEq, Prod.mk.injEq] at h'
      obtain ⟨hw, _⟩ := h'
      rw [← hw]
      exact cmd_fileAt_frame (workerSaveC_fp cfg k N mem applied) w.fs a hr key hkey
  unfold workerSave at h
  simp only [hdry, Bool.false_eq_true, if_false] at h
  split at h
  · cases h
  · rename_i wa dirs' hsave
    obtain ⟨s1, s2⟩ := saveAll_flush_aux mem w wa [] dirs' hd hfree hsave
    split at h
    · split at h
      · cases h
      · rename_i wb memb hbk
        cases h
        obtain ⟨b1, b2⟩ := rollbackAndSaveBackups_fileAt _ _ _ _ _ _ hbk
        exact ⟨b1.trans (s1.trans hf), hframe, fun key hp => by rw [b2 key hp, s2 key]⟩
    · cases h
      exact ⟨s1.trans hf, hframe, fun key _ => s2 key⟩

/-! ## The workers one after another -/

theorem memKeys_sub_saveKeys {cfg : Cfg} {k N : Nat} {mems : Nat → Mem} {applieds : Nat → List Status}
    (hdry : cfg.dryRun = false) {i : Nat} {key : Key} (h : key ∈ memKeys (mems i)) :
    key ∈ saveKeys cfg k N mems applieds i := by
  unfold saveKeys workerKeys
  simp only [hdry, Bool.false_eq_true, if_false]
  exact List.mem_append_left _ h

theorem keys_apart {keys : Nat → List Key} {n i j : Nat} (hdisj : KeysDisjoint keys n) (hi : i < n) (hj : j < n)
    (hij : i ≠ j) {key : Key} (h1 : key ∈ keys i) : key ∉ keys j :=
  fun h2 => hdisj i hi j hj hij key h1 key h2 (List.prefix_refl key)

/-- after the first `m` workers have saved (one after another): the keys of no worker so far are untouched;
a key of a worker's cache holds what that cache says; every other non-`.pc` path is untouched -/
theorem seqSave_fileAt {cfg : Cfg} {k N n : Nat} {mems : Nat → Mem} {applieds : Nat → List Status} {fs0 : FS}
    (hdry : cfg.dryRun = false) (hdist : ∀ i, KeysDistinct (mems i)) (hok : ∀ i, MemOK fs0 (mems i))
    (hdisj : KeysDisjoint (saveKeys cfg k N mems applieds) n) :
    ∀ m, m ≤ n → ∀ wm, seqSave cfg k N mems applieds m ⟨fs0, [], none⟩ = .ok wm →
      wm.faultAt = none ∧
      (∀ key, (∀ j, j < m → key ∉ saveKeys cfg k N mems applieds j) → fileAt wm.fs key = fileAt fs0 key) ∧
      (∀ key, ¬ isPcKey key →
        (∀ j, j < m → key ∈ memKeys (mems j) → fileAt wm.fs key = flushView (mems j) fs0 key) ∧
        ((∀ j, j < m → key ∉ memKeys (mems j)) → fileAt wm.fs key = fileAt fs0 key)) := by
  intro m
  induction m with
  | zero =>
    intro _ wm h
    simp only [seqSave] at h
    cases h
    exact ⟨rfl, fun _ _ => rfl, fun _ _ => ⟨fun j hj => by omega, fun _ => rfl⟩⟩
  | succ m ih =>
    intro hm wm' h
    unfold seqSave at h
    split at h
    · cases h
    · rename_i wm hseq
      obtain ⟨i1, i2, i3⟩ := ih (by omega) wm hseq
      split at h
      · cases h
      · rename_i w' dirs hws
        cases h
        have hfree : ∀ e ∈ mems m, e.2.2.existed = false → ∀ key, safeKey e.2.1 = some key →
            fileAt wm.fs key = none := by
          intro e he hex key hkey
          have hmk : key ∈ memKeys (mems m) := mem_memKeys.mpr ⟨e, he, hkey⟩
          rw [i2 key (fun j hj => keys_apart hdisj (by omega) (by omega) (by omega)
            (memKeys_sub_saveKeys hdry hmk))]
          exact free_of_memOK (hok m) e he hex key hkey
        obtain ⟨f1, f2, f3⟩ := workerSave_fileAt i1 hdry (hdist m) hfree hws
        refine ⟨f1, ?_, ?_⟩
        · intro key hkey
          rw [f2 key (hkey m (Nat.lt_succ_self m))]
          exact i2 key (fun j hj => hkey j (by omega))
        · intro key hp
          refine ⟨fun j hj hmem => ?_, fun hnone => ?_⟩
          · rw [f3 key hp]
            by_cases hjm : j = m
            · subst hjm
              exact flushView_of_entry hmem _ _
            · have hnm : key ∉ memKeys (mems m) := fun hm' =>
                keys_apart hdisj (i := j) (j := m) (by omega) (by omega) hjm
                  (memKeys_sub_saveKeys hdry hmem) (memKeys_sub_saveKeys hdry hm')
              rw [flushView_not_mem hnm]
              exact (i3 key hp).1 j (by omega) hmem
          · rw [f3 key hp, flushView_not_mem (hnone m (Nat.lt_succ_self m))]
            exact (i3 key hp).2 (fun j hj => hnone j (by omega))

/-! ## The save phase under a schedule -/

/-- every complete schedule: the save phase succeeds, and its file system is that of the workers saving
one after another, up to inode numbers -/
theorem savePhase_ok (w : World) (cfg : Cfg) (k N threads : Nat) (mems : Nat → Mem) (applieds : Nat → List Status)
    (schedS : List Nat)
    (hsolo : ∀ i, i < threads → ∃ r, workerSave cfg k N ⟨w.fs, [], none⟩ (mems i) (applieds i) = .ok r)
    (hdisj : KeysDisjoint (saveKeys cfg k N mems applieds) threads)
    (res : WR (World × (Nat → List Key)))
    (hres : savePhase w cfg k N threads mems applieds schedS = some res) :
    ∃ w1 dirs wq, res = .ok (w1, dirs) ∧ w1.faultAt = w.faultAt ∧
      seqSave cfg k N mems applieds threads ⟨w.fs, [], none⟩ = .ok wq ∧ ParSave.FSEquiv w1.fs wq.fs := by
  have hok : ∀ i, i < threads → ∃ a, (saveCmds cfg k N mems applieds i).result w.fs = .ok a := by
    intro i hi
    obtain ⟨r, hr⟩ := hsolo i hi
    exact ⟨r.2, (workerSave_ok cfg k N hr).1⟩
  obtain ⟨_, h2⟩ := cmd_schedule_independence (saveCmds cfg k N mems applieds)
    (saveKeys cfg k N mems applieds) threads w.fs
    (fun i _ => workerSaveC_fp cfg k N (mems i) (applieds i)) hok hdisj schedS
  unfold savePhase at hres
  simp only at hres
  split at hres
  · rename_i hall
    have hdone : ParSave.Done (saveProgs cfg k N mems applieds threads)
        (ParSave.run (saveProgs cfg k N mems applieds threads) schedS (ParSave.init w.fs)) := by
      intro i
      rcases Nat.lt_or_ge i threads with hi | hi
      · rw [List.all_eq_true] at hall
        have := hall i (List.mem_range.mpr hi)
        exact Option.isNone_iff_eq_none.mp this
      · unfold saveProgs cmdProgs
        rw [if_neg (by omega)]
    obtain ⟨wq, e, heq, _, hhist⟩ := h2 hdone
    have hresults : ∀ i, i < threads → ∃ d, saveResult cfg k N (mems i) (applieds i)
        ((ParSave.run (saveProgs cfg k N mems applieds threads) schedS (ParSave.init w.fs)).hist i) = .ok d := by
      intro i hi
      obtain ⟨a, ha⟩ := hok i hi
      refine ⟨a, ?_⟩
      unfold saveResult
      have hh : (ParSave.run (saveProgs cfg k N mems applieds threads) schedS (ParSave.init w.fs)).hist i =
          ((workerSaveC cfg k N (mems i) (applieds i)).steps w.fs).map (·.2) := (hhist i hi).1
      have ha' : (workerSaveC cfg k N (mems i) (applieds i)).result w.fs = .ok a := ha
      rw [hh, Cmd.resultAt_steps, ha']
    have hff : firstFail threads (fun i => saveResult cfg k N (mems i) (applieds i)
        ((ParSave.run (saveProgs cfg k N mems applieds threads) schedS (ParSave.init w.fs)).hist i)) = none := by
      unfold firstFail
      rw [List.findSome?_eq_none_iff]
      intro i hi
      obtain ⟨d, hd⟩ := hresults i (List.mem_range.mp hi)
      simp only [hd]
    rw [hff] at hres
    simp only [Option.some.injEq] at hres
    subst hres
    exact ⟨_, _, wq, rfl, rfl, by rw [seqSave_eq]; exact e, heq⟩
  · cases hres

/-! ## The main thread's last steps -/

theorem cleanWorkers_fileAt (dirs : Nat → List Key) : ∀ (n : Nat) (w w' : World),
    cleanWorkers w dirs n = .ok w' → w'.faultAt = w.faultAt ∧ ∀ k, fileAt w'.fs k = fileAt w.fs k := by
  intro n
  induction n with
  | zero =>
    intro w w' h
    simp only [cleanWorkers] at h
    cases h
    exact ⟨rfl, fun _ => rfl⟩
  | succ n ih =>
    intro w w' h
    unfold cleanWorkers at h
    split at h
    · cases h
    · rename_i w1 h1
      obtain ⟨a1, a2⟩ := ih w w1 h1
      obtain ⟨b1, b2⟩ := cleanAll_fileAt' _ w1 w' h
      exact ⟨b1.trans a1, fun k => (b2 k).trans (a2 k)⟩

theorem rejWorkers_fileAt (rejs : Nat → List (Bytes × Bytes)) : ∀ (n : Nat) (w w' : World),
    rejWorkers w rejs n = .ok w' → w'.faultAt = w.faultAt ∧
      ∀ key, (∀ i, i < n → ¬ isRejKey (rejs i) key) → fileAt w'.fs key = fileAt w.fs key := by
  intro n
  induction n with
  | zero =>
    intro w w' h
    simp only [rejWorkers] at h
    cases h
    exact ⟨rfl, fun _ _ => rfl⟩
  | succ n ih =>
    intro w w' h
    unfold rejWorkers at h
    split at h
    · cases h
    · rename_i w1 h1
      obtain ⟨a1, a2⟩ := ih w w1 h1
      obtain ⟨b1, b2⟩ := saveRejFiles_fileAt _ w1 w' h
      refine ⟨b1.trans a1, fun key hkey => ?_⟩
      rw [b2 key (hkey n (Nat.lt_succ_self n))]
      exact a2 key (fun i hi => hkey i (by omega))

/-! ## Names and keys -/

section
variable {fs : FS} {cfg : Cfg} {patches : List (Series.Entry × List PFilePatch)} {threads : Nat}

theorem namesOf_unique (ht : 0 < threads) {i j : Nat} {c : List Comp} (hi : namesOf patches threads i c)
    (hj : namesOf patches threads j c) : i = j := by
  obtain ⟨q, hq, hw, hc⟩ := hi
  obtain ⟨q', hq', hw', hc'⟩ := hj
  apply Classical.byContradiction
  intro hne
  have hw_ne : workerOf (assignment threads (allEntries patches 0)) q ≠
      workerOf (assignment threads (allEntries patches 0)) q' := by
    rw [hw, hw']
    intro h
    injection h with h
    exact hne h
  exact workers_disjoint threads ht _ q q' hq hq' hw_ne c hc hc'

/-- a cache entry responsible for the path of `name` is keyed by the components of `name` -/
theorem key_owner {mem : Mem} {A : List Comp → Prop} (hg : Disk.MemGood mem) (hin : MemIn A mem) {name : Bytes}
    {key : Key} (hc : Comp.cur ∉ components name) (hk : safeKey name = some key) (hmem : key ∈ memKeys mem) :
    A (components name) := by
  obtain ⟨e, he, hke⟩ := mem_memKeys.mp hmem
  obtain ⟨e1, e2⟩ := hg.nocur e he
  rw [e1] at e2
  have : e.1 = components name := by
    rw [e1, safeKey_components_of_no_cur hke e2, safeKey_components_of_no_cur hk hc]
  rw [← this]
  exact hin e he

/-- a cache entry responsible for the path of `name` is found under `name` -/
theorem get_of_key {mem : Mem} (hg : Disk.MemGood mem) {name : Bytes} {key : Key}
    (hc : Comp.cur ∉ components name) (hk : safeKey name = some key) (hmem : key ∈ memKeys mem) :
    ∃ f, mem.get name = some f := by
  obtain ⟨e, he, hke⟩ := mem_memKeys.mp hmem
  obtain ⟨e1, e2⟩ := hg.nocur e he
  rw [e1] at e2
  have hcomp : e.1 = components name := by
    rw [e1, safeKey_components_of_no_cur hke e2, safeKey_components_of_no_cur hk hc]
  have hsome : (mem.find? (fun e => e.1 == components name)).isSome := by
    rw [List.find?_isSome]
    exact ⟨e, he, by simp [hcomp]⟩
  obtain ⟨x, hx⟩ := Option.isSome_iff_exists.mp hsome
  exact ⟨x.2.2, by unfold Mem.get; rw [hx]; rfl⟩

theorem absRun_frame : ∀ (L : List QEntry) (t t' : ATree) (outs : List Out),
    absRun fs cfg t L = .ok (t', outs) → ∀ n, (∀ q ∈ L, components n ∉ fpNames q.fp) →
    look t' fs n = look t fs n := by
  intro L
  induction L with
  | nil => intro t t' outs h n _; simp only [absRun] at h; cases h; rfl
  | cons q L ih =>
    intro t t' outs h n hn
    obtain ⟨r, outs0, hr, hL, _⟩ := absRun_cons_ok h
    rw [ih _ _ _ hL n (fun q' hq' => hn q' (List.mem_cons_of_mem _ hq'))]
    exact applyFP_frame t fs cfg q.entry q.fp r hr n (hn q (List.mem_cons_self ..))

theorem outRejs_mem_filter (p : Out → Bool) : ∀ (outs : List Out) (x : Bytes × Bytes),
    x ∈ outRejs (outs.filter p) → x ∈ outRejs outs := by
  intro outs
  induction outs with
  | nil => intro x h; exact h
  | cons o os ih =>
    intro x h
    simp only [List.filter_cons] at h
    split at h
    · simp only [outRejs, List.mem_append] at h ⊢
      rcases h with h | h
      · exact .inl (ih x h)
      · exact .inr h
    · simp only [outRejs, List.mem_append]
      exact .inl (ih x h)

/-- from "every cache key holds what its cache says, every other path is untouched" to "every name shows the
file of the specification's tree" -/
theorem disk_view (hP : Parsed patches) (ht : 0 < threads) {k : Nat} {t : ATree} {outsK : List Out} {pr : ParResult}
    (hc : Clean fs cfg patches k t outsK) (pm : ParMem fs cfg patches threads k t outsK pr)
    (hdry : cfg.dryRun = false) (W : FS)
    (hfile : ∀ key, ¬ isPcKey key →
      (∀ j, j < threads → key ∈ memKeys (pr.sts j).mem → fileAt W key = flushView (pr.sts j).mem fs key) ∧
      ((∀ j, j < threads → key ∉ memKeys (pr.sts j).mem) → fileAt W key = fileAt fs key))
    (name : Bytes) (key : Key) (a : AFile) (hcur : Comp.cur ∉ components name) (hk : safeKey name = some key)
    (hp : ¬ isPcKey key) (hl : look t fs name = .ok a) : fileAt W key = Disk.viewOf a := by
  have hother : ∀ i j, j < threads → namesOf patches threads i (components name) → j ≠ i →
      key ∉ memKeys (pr.sts j).mem := by
    intro i j _ hn hji hmem
    exact hji (namesOf_unique ht (key_owner (pm.good j) (pm.inNames j) hcur hk hmem) hn)
  by_cases hex : ∃ i, i < threads ∧ namesOf patches threads i (components name)
  · obtain ⟨i, hi, hn⟩ := hex
    have hli : look (ofMem (pr.sts i).mem) fs name = .ok a := by rw [pm.look hdry i name hn]; exact hl
    have hview := Disk.flushView_look hcur hk (pm.good i).nocur hli
    by_cases hmk : key ∈ memKeys (pr.sts i).mem
    · rw [(hfile key hp).1 i hi hmk]; exact hview
    · rw [(hfile key hp).2 (fun j hj => by
        by_cases hji : j = i
        · subst hji; exact hmk
        · exact hother i j hj hn hji), ← flushView_not_mem hmk]
      exact hview
  · have hnone : ∀ j, j < threads → key ∉ memKeys (pr.sts j).mem := by
      intro j hj hmem
      exact hex ⟨j, hj, key_owner (pm.good j) (pm.inNames j) hcur hk hmem⟩
    rw [(hfile key hp).2 hnone]
    obtain ⟨outs, hrun, _⟩ := hc.stop.pre
    have hfr : look t fs name = look [] fs name := by
      apply absRun_frame _ _ _ _ hrun
      intro q hq hmem
      have hqe := (mem_take_entries hq).1
      obtain ⟨i, hi, hw⟩ := owner_exists hP ht q hqe
      exact hex ⟨i, hi, q, hqe, hw, hmem⟩
    rw [hfr] at hl
    have := Disk.flushView_look (mem := []) hcur hk (fun _ he => by cases he) hl
    rw [← this]
    rfl

end

/-! ## Stage 3: the disk after `parApplyPatches` -/

/-- **Stage 3.**  A range that parses, at least one thread, no fault injection, a real run; the
specification stops at `k` with the tree `t`.  Assume (as in `C06_save_phase`) that each worker's save
succeeds alone from the initial file system and that the workers' keys are prefix-free.  Then for EVERY
pair of schedules under which the workers get done: the in-memory part and the save phase succeed, the
result is that of the main thread's last steps (cleaning directories, writing reject files) — and if those
succeed, the push reports `k` and the disk shows, under every name that is neither a reject file nor
below `.pc`, exactly the file the specification's tree has there: the conclusion of `C05_tree_on_disk`.
Paths in no worker's cache (no reject, not below `.pc`) are unchanged. -/
theorem parApply_disk (w : World) (cfg : Cfg) (range : List Series.Entry) (threads : Nat)
    (schedA schedS : List Nat) (ht : 0 < threads) (hf : w.faultAt = none) (hdry : cfg.dryRun = false)
    {patches : List (Series.Entry × List PFilePatch)} (hparse : parseRange w.fs cfg range = some patches)
    {t : ATree} {k : Nat} {rejs : List (Bytes × Bytes)}
    (hspec : applyRange w.fs cfg range 0 [] = .ok (t, k, rejs))
    (hsolo : ∀ pr, parMemory w.fs cfg patches threads schedA = some (.ok pr) → ∀ i, i < threads →
      ∃ r, workerSave cfg pr.final patches.length ⟨w.fs, [], none⟩ (pr.sts i).mem (pr.sts i).applied = .ok r)
    (hdisj : ∀ pr, parMemory w.fs cfg patches threads schedA = some (.ok pr) →
      KeysDisjoint (saveKeys cfg pr.final patches.length (fun i => (pr.sts i).mem) (fun i => (pr.sts i).applied)) threads)
    (res : WR (World × Nat)) (hres : parApplyPatches w cfg range threads schedA schedS = some res) :
    ∃ pr w1 dirs, parMemory w.fs cfg patches threads schedA = some (.ok pr) ∧ pr.final = k ∧
      savePhase w cfg k patches.length threads (fun i => (pr.sts i).mem) (fun i => (pr.sts i).applied) schedS
        = some (.ok (w1, dirs)) ∧
      res = mainFinish w1 dirs pr.rejs threads k ∧
      ∀ w' k', res = .ok (w', k') → k' = k ∧ w'.faultAt = none ∧
        (∀ name key a, Comp.cur ∉ components name → safeKey name = some key →
          ¬ isRejKey rejs key → ¬ isPcKey key → look t w.fs name = .ok a → fileAt w'.fs key = Disk.viewOf a) ∧
        (∀ key, (∀ i, i < threads → key ∉ memKeys (pr.sts i).mem) → ¬ isRejKey rejs key → ¬ isPcKey key →
          fileAt w'.fs key = fileAt w.fs key) ∧
        (∀ name key u, Comp.cur ∉ components name → safeKey name = some key →
          ¬ isRejKey rejs key → ¬ isPcKey key → look t w.fs name = .error u → fileAt w'.fs key = fileAt w.fs key) := by
  have hP : Parsed patches := parsed_of_parseRange hparse
  have hany : (allEntries patches 0).any (fun q => (distPair q.fp).isNone) = false := by
    rw [List.any_eq_false]
    intro q hq
    obtain ⟨_, hname⟩ := parsed_entry hP 0 q hq
    have hex : ∃ c, c ∈ fpNames q.fp := by
      rcases hname with h | h
      · obtain ⟨o, ho⟩ := Option.isSome_iff_exists.mp h
        exact ⟨_, mem_fpNames_old ho⟩
      · obtain ⟨n, hn⟩ := Option.isSome_iff_exists.mp h
        exact ⟨_, mem_fpNames_new hn⟩
    obtain ⟨c, hc⟩ := hex
    obtain ⟨p, hp, _⟩ := distPair_spec q.fp c hc
    simp [hp]
  unfold parApplyPatches at hres
  rw [if_neg (by omega)] at hres
  simp only [hparse, hany, Bool.false_eq_true, if_false] at hres
  cases hm : parMemory w.fs cfg patches threads schedA with
  | none => rw [hm] at hres; cases hres
  | some r =>
    obtain ⟨outsK, pr, hr, pm, hc, hrejs⟩ := parMemory_applyRange_ok hparse ht hspec schedA r hm
    subst hr
    rw [hm] at hres
    simp only [hdry, Bool.false_eq_true, if_false] at hres
    have hfinal := pm.final
    rw [hfinal] at hres
    have hsolo' := hsolo pr hm
    have hdisj' := hdisj pr hm
    rw [hfinal] at hsolo' hdisj'
    cases hsv : savePhase w cfg k patches.length threads (fun i => (pr.sts i).mem)
        (fun i => (pr.sts i).applied) schedS with
    | none => rw [hsv] at hres; cases hres
    | some sres =>
      obtain ⟨w1, dirs, wq, hsres, hf1, hseq, heq⟩ := savePhase_ok w cfg k patches.length threads _ _ schedS
        hsolo' hdisj' sres hsv
      subst hsres
      rw [hsv] at hres
      simp only [Option.some.injEq] at hres
      refine ⟨pr, w1, dirs, rfl, hfinal, hsv, hres.symm, ?_⟩
      intro w' k' hok
      rw [← hres] at hok
      unfold mainFinish at hok
      split at hok
      · cases hok
      · rename_i w2 hclean
        split at hok
        · cases hok
        · rename_i w3 hrej
          simp only [Except.ok.injEq, Prod.mk.injEq] at hok
          obtain ⟨hw3, hk'⟩ := hok
          subst hw3
          obtain ⟨c1, c2⟩ := cleanWorkers_fileAt dirs threads w1 w2 hclean
          obtain ⟨j1, j2⟩ := rejWorkers_fileAt pr.rejs threads w2 w3 hrej
          obtain ⟨q1, q2, q3⟩ := seqSave_fileAt (fs0 := w.fs) hdry
            (fun i => Disk.keysDistinct_of_good (pm.good i)) (fun i => pm.ok i) hdisj' threads (Nat.le_refl _) wq hseq
          -- reject keys
          have hrk : ∀ key, ¬ isRejKey rejs key → ∀ i, i < threads → ¬ isRejKey (pr.rejs i) key := by
            intro key hnr i hi ⟨x, hx, hxk⟩
            apply hnr
            refine ⟨x, ?_, hxk⟩
            rw [hrejs]
            simp only [hdry, Bool.false_eq_true, if_false]
            rw [pm.rejs hdry i hi] at hx
            exact outRejs_mem_filter _ _ _ hx
          have hW : ∀ key, ¬ isRejKey rejs key → fileAt w3.fs key = fileAt wq.fs key := by
            intro key hnr
            rw [j2 key (hrk key hnr), c2 key, fileAt_of_FSEquiv heq]
          refine ⟨hk'.symm, by rw [j1, c1, hf1, hf], ?_, ?_, ?_⟩
          · intro name key a hcur hkey hnr hnp hl
            rw [hW key hnr]
            exact disk_view hP ht hc pm hdry wq.fs (fun key hp => q3 key hp) name key a hcur hkey hnp hl
          · intro key hnone hnr hnp
            rw [hW key hnr]
            exact (q3 key hnp).2 hnone
          · intro name key u hcur hkey hnr hnp hl
            rw [hW key hnr]
            apply (q3 key hnp).2
            intro i hi hmem
            have hn := key_owner (pm.good i) (pm.inNames i) hcur hkey hmem
            have hli := pm.look hdry i name hn
            obtain ⟨f, hget⟩ := get_of_key (pm.good i) hcur hkey hmem
            rw [hl, look_ofMem, hget] at hli
            cases hli

/-- `parApplyPatches` for a range that parses: the in-memory part, then the rest -/
theorem parApplyPatches_eq (w : World) (cfg : Cfg) (range : List Series.Entry) (threads : Nat)
    (schedA schedS : List Nat) (ht : 0 < threads)
    {patches : List (Series.Entry × List PFilePatch)} (hparse : parseRange w.fs cfg range = some patches) :
    parApplyPatches w cfg range threads schedA schedS =
      match parMemory w.fs cfg patches threads schedA with
      | none => none
      | some (.error e) => some (.error (e, w))
      | some (.ok r) =>
        if cfg.dryRun then some (.ok (w, r.final))
        else
          match savePhase w cfg r.final patches.length threads (fun i => (r.sts i).mem)
              (fun i => (r.sts i).applied) schedS with
          | none => none
          | some (.error e) => some (.error e)
          | some (.ok (w1, dirs)) => some (mainFinish w1 dirs r.rejs threads r.final) := by
  have hP : Parsed patches := parsed_of_parseRange hparse
  have hany : (allEntries patches 0).any (fun q => (distPair q.fp).isNone) = false := by
    rw [List.any_eq_false]
    intro q hq
    obtain ⟨_, hname⟩ := parsed_entry hP 0 q hq
    have hex : ∃ c, c ∈ fpNames q.fp := by
      rcases hname with h | h
      · obtain ⟨o, ho⟩ := Option.isSome_iff_exists.mp h
        exact ⟨_, mem_fpNames_old ho⟩
      · obtain ⟨n, hn⟩ := Option.isSome_iff_exists.mp h
        exact ⟨_, mem_fpNames_new hn⟩
    obtain ⟨c, hc⟩ := hex
    obtain ⟨p, hp, _⟩ := distPair_spec q.fp c hc
    simp [hp]
  unfold parApplyPatches
  rw [if_neg (by omega)]
  simp only [hparse, hany, Bool.false_eq_true, if_false]
  cases parMemory w.fs cfg patches threads schedA with
  | none => rfl
  | some r =>
    cases r with
    | error e => rfl
    | ok r =>
      simp only
      cases cfg.dryRun with
      | true => rfl
      | false =>
        simp only [Bool.false_eq_true, if_false]
        cases savePhase w cfg r.final patches.length threads (fun i => (r.sts i).mem)
            (fun i => (r.sts i).applied) schedS with
        | none => rfl
        | some x =>
          cases x with
          | error e => rfl
          | ok y => rfl

/-- `C05_tree_on_disk` for the sequential driver, with the names the tree has no file for: their paths are
unchanged -/
theorem seq_disk (w w'' : World) (cfg : Cfg) (range : List Series.Entry) (k : Nat)
    (hf : w.faultAt = none) (hdry : cfg.dryRun = false) (h : applyPatches w cfg range = .ok (w'', k)) :
    ∃ t rejs, applyRange w.fs cfg range 0 [] = .ok (t, k, rejs) ∧
      ∀ name key, Comp.cur ∉ components name → safeKey name = some key →
        ¬ isRejKey rejs key → ¬ isPcKey key →
        fileAt w''.fs key = match look t w.fs name with
          | .ok a => Disk.viewOf a
          | .error _ => fileAt w.fs key := by
  cases hloop : applyLoop w.fs cfg range 0 {} with
  | error e =>
    unfold applyPatches at h
    rw [hloop] at h
    cases h
  | ok r =>
    obtain ⟨st, final, rejs⟩ := r
    have href := Disk.apply_refines w.fs cfg range
    rw [hloop] at href
    cases hspec : applyRange w.fs cfg range 0 [] with
    | error e => rw [hspec] at href; exact href.elim
    | ok r' =>
      obtain ⟨t, k', rejs'⟩ := r'
      rw [hspec] at href
      obtain ⟨hk, hrejs, hsame⟩ := href
      subst hk hrejs
      have hgood : Disk.MemGood st.mem := Disk.applyLoop_good range Disk.memGood_nil hloop
      obtain ⟨hkf, htree⟩ := applyPatches_tree w w'' cfg range st final k rejs hf hdry hloop
        (Disk.keysDistinct_of_good hgood) h
      subst hkf
      refine ⟨t, rejs, rfl, ?_⟩
      intro name key hc hkey hnr hnp
      rw [htree key hnr hnp]
      have hl := hsame hdry name
      cases hlk : look t w.fs name with
      | ok a =>
        rw [hlk] at hl
        exact Disk.flushView_look hc hkey hgood.nocur hl
      | error u =>
        rw [hlk] at hl
        simp only
        apply flushView_not_mem
        intro hmem
        obtain ⟨f, hget⟩ := get_of_key hgood hc hkey hmem
        rw [look_ofMem, hget] at hl
        cases hl

#print axioms RQ.Par.parApply_disk
#print axioms RQ.Par.seq_disk

end RQ.Par
