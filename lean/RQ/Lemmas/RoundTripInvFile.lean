import RQ.Lemmas.RoundTripInv
import RQ.Lemmas.RoundTripLoop
/-! C12: invariants of the file patches of an accepted patch. -/
namespace RQ.Write
open RQ RQ.Parse

def HashOK (a b : Option Bytes) : Prop :=
  (a = none ∧ b = none) ∨ ∃ x y, a = some x ∧ b = some y ∧ HexNE x ∧ HexNE y

structure MetaOK (m : Meta) : Prop where
  oldPerm : ∀ x, m.oldPerm = some x → x < 8 ^ 6
  newPerm : ∀ x, m.newPerm = some x → x < 8 ^ 6
  hash : HashOK m.oldHash m.newHash

/-- what the parser guarantees about a file patch (names aside) -/
structure FPOK (fp : PFilePatch) : Prop where
  kindOK : fp.kind = recognizeKind fp.hunks
  hunksOK : ∀ h ∈ fp.hunks, HunkOK h ∧ CtxZ h
  renOK : fp.rename = true → fp.old.isSome = true ∧ fp.new.isSome = true
  nameOK : fp.old.isSome = true ∨ fp.new.isSome = true
  oldPerm : ∀ x, fp.oldPerm = some x → x < 8 ^ 6
  newPerm : ∀ x, fp.newPerm = some x → x < 8 ^ 6
  hash : HashOK fp.oldHash fp.newHash

theorem MetaOK_init : MetaOK {} := ⟨by simp, by simp, Or.inl ⟨rfl, rfl⟩⟩

theorem MetaOK_names (o n : Filename) : MetaOK { old := some o, new := some n } :=
  ⟨by simp, by simp, Or.inl ⟨rfl, rfl⟩⟩

theorem buildFilePatch_ok (m : Meta) (hs : List PHunk) (fp : PFilePatch) (h : buildFilePatch m hs = some fp)
    (hm : MetaOK m) (hhs : ∀ h ∈ hs, HunkOK h ∧ CtxZ h) : FPOK fp := by
  unfold buildFilePatch at h
  simp only [] at h
  split at h
  · cases h
  · rename_i h1
    split at h
    · cases h
    · rename_i h2
      simp only [Option.some.injEq] at h
      subst h
      refine ⟨rfl, hhs, ?_, ?_, hm.oldPerm, hm.newPerm, hm.hash⟩
      · intro hr
        simp only [] at hr
        simp only [hr, Bool.true_and, Bool.or_eq_true, Bool.not_eq_true'] at h1
        simp only []
        constructor
        · cases hx : (realName m.old).isSome <;> simp [hx] at h1 ⊢
        · cases hx : (realName m.new).isSome <;> simp [hx] at h1 ⊢
      · simp only []
        cases hr : (m.renFrom && m.renTo)
        · simp only [hr, Bool.not_false, Bool.true_and, Bool.and_eq_true, Bool.not_eq_true'] at h2
          cases hx : (realName m.old).isSome
          · cases hy : (realName m.new).isSome
            · simp [hx, hy] at h2
            · right; rfl
          · left; rfl
        · simp only [hr, Bool.true_and, Bool.or_eq_true, Bool.not_eq_true'] at h1
          cases hx : (realName m.old).isSome
          · simp [hx] at h1
          · left; rfl

theorem passMeta_ok (m m' : Meta) (pl : PatchLine) (hm : MetaOK m) (hp : passMeta m pl = some m')
    (hg : ∀ gl, pl = .git gl → GitLineOK gl) : MetaOK m' := by
  cases pl with
  | garbage => simp [passMeta] at hp
  | endOfPatch => simp [passMeta] at hp
  | mline ml =>
    cases ml <;> simp [passMeta] at hp <;> subst hp <;> exact ⟨hm.oldPerm, hm.newPerm, hm.hash⟩
  | git gl =>
    have hg' := hg gl rfl
    cases gl <;> simp [passMeta] at hp <;> subst hp
    case index o n md => exact ⟨hm.oldPerm, hm.newPerm, Or.inr ⟨o, n, rfl, rfl, hg'.1, hg'.2⟩⟩
    case oldMode x => exact ⟨by intro y hy; simp at hy; subst hy; exact hg', hm.newPerm, hm.hash⟩
    case deletedFileMode x => exact ⟨by intro y hy; simp at hy; subst hy; exact hg', hm.newPerm, hm.hash⟩
    case newMode x => exact ⟨hm.oldPerm, by intro y hy; simp at hy; subst hy; exact hg', hm.hash⟩
    case newFileMode x => exact ⟨hm.oldPerm, by intro y hy; simp at hy; subst hy; exact hg', hm.hash⟩
    all_goals exact ⟨hm.oldPerm, hm.newPerm, hm.hash⟩

theorem parsePatchLine_gitOK (git : Bool) (inp inp' : Bytes) (pl : PatchLine)
    (hp : parsePatchLine git inp = .ok (inp', pl)) : ∀ gl, pl = .git gl → GitLineOK gl := by
  intro gl hgl
  subst hgl
  rcases parsePatchLine_inv git inp inp' _ hp with ⟨m, h, _⟩ | ⟨gl', h, _, _, h2⟩ | ⟨h, _⟩ | ⟨h, _⟩
  · cases h
  · cases h; exact parseGitMetadataLine_ok _ _ _ h2
  · cases h
  · cases h

theorem filePatchLoop_inv (total : Nat) : ∀ (f : Nat) (inp : Bytes) (wH : Bool) (hd : Nat) (git ext : Bool) (m : Meta)
    (rest : Bytes) (hlen : Nat) (fp : PFilePatch),
    filePatchLoop total f inp wH hd git ext m = .ok (rest, hlen, fp) → MetaOK m → FPOK fp := by
  intro f
  induction f with
  | zero => intro inp wH hd git ext m rest hlen fp h; simp [filePatchLoop] at h
  | succ f ih =>
    intro inp wH hd git ext m rest hlen fp h hm
    by_cases hc : lineCond m inp = true
    · cases hp : parsePatchLine git inp with
      | error e => rw [fpl_error _ _ _ _ _ _ _ _ _ hc hp] at h; cases h
      | ok v =>
        obtain ⟨inp', pl⟩ := v
        rcases patchLine_cases m pl with ⟨m', hpm⟩ | rfl | rfl | ⟨o, n, rfl⟩ | rfl
        · rw [fpl_pass _ _ _ _ _ _ _ _ _ _ _ hc hp hpm] at h
          exact ih _ _ _ _ _ _ _ _ _ h (passMeta_ok m m' pl hm hpm (parsePatchLine_gitOK _ _ _ _ hp))
        · rw [fpl_garbage _ _ _ _ _ _ _ _ _ hc hp] at h
          exact ih _ _ _ _ _ _ _ _ _ h hm
        · rw [fpl_end _ _ _ _ _ _ _ _ _ hc hp] at h
          split at h
          · split at h
            · rename_i fp' hb
              simp only [Except.ok.injEq, Prod.mk.injEq] at h
              obtain ⟨_, _, rfl⟩ := h
              exact buildFilePatch_ok m [] _ hb hm (by simp)
            · cases h
          · cases h
        · rw [fpl_gitDiff _ _ _ _ _ _ _ _ _ _ _ hc hp] at h
          split at h
          · rename_i fp' hb
            simp only [Except.ok.injEq, Prod.mk.injEq] at h
            obtain ⟨_, _, rfl⟩ := h
            split at hb
            · exact buildFilePatch_ok m [] _ hb hm (by simp)
            · cases hb
          · exact ih _ _ _ _ _ _ _ _ _ h (MetaOK_names o n)
        · rw [fpl_binary _ _ _ _ _ _ _ _ _ hc hp] at h; cases h
    · have hc' : lineCond m inp = false := by simpa using hc
      rw [fpl_hunks _ _ _ _ _ _ _ _ hc'] at h
      split at h
      · cases h
      · rename_i inp' hs hh
        split at h
        · cases h
        · rename_i fp' hb
          simp only [Except.ok.injEq, Prod.mk.injEq] at h
          obtain ⟨_, _, rfl⟩ := h
          exact buildFilePatch_ok m hs _ hb hm (hunksLoop_inv _ _ _ _ _ hh (by simp))

/-- the invariant after stripping: additionally names are fixed points of `stripPath 0` -/
structure FPOK' (fp : PFilePatch) : Prop extends FPOK fp where
  oldFix : ∀ n, fp.old = some n → stripPath 0 n = n
  newFix : ∀ n, fp.new = some n → stripPath 0 n = n

theorem stripFP_ok (strip : Nat) (fp : PFilePatch) (h : FPOK fp) : FPOK' (stripFP strip fp) := by
  refine ⟨⟨h.kindOK, h.hunksOK, ?_, ?_, h.oldPerm, h.newPerm, h.hash⟩, ?_, ?_⟩
  · intro hr
    have := h.renOK hr
    simpa [stripFP] using this
  · have := h.nameOK
    simpa [stripFP] using this
  · intro n hn
    simp only [stripFP, Option.map_eq_some_iff] at hn
    obtain ⟨a, _, rfl⟩ := hn
    exact stripPath_idem strip a
  · intro n hn
    simp only [stripFP, Option.map_eq_some_iff] at hn
    obtain ⟨a, _, rfl⟩ := hn
    exact stripPath_idem strip a

theorem patchLoop_inv (strip : Nat) : ∀ (f : Nat) (inp : Bytes) (wants : Bool) (header : Bytes) (acc : List PFilePatch)
    (p : Patch), patchLoop strip f inp wants header acc = .ok p → (∀ fp ∈ acc, FPOK' fp) → ∀ fp ∈ p.fps, FPOK' fp := by
  intro f
  induction f with
  | zero => intro inp wants header acc p h; simp [patchLoop] at h
  | succ f ih =>
    intro inp wants header acc p h hacc
    unfold patchLoop at h
    split at h
    · simp only [Except.ok.injEq] at h
      subst h; exact hacc
    · cases h
    · rename_i inp' hlen fp hp
      refine ih _ _ _ _ _ h ?_
      intro fp' hfp'
      simp at hfp'
      rcases hfp' with hfp' | rfl
      · exact hacc fp' hfp'
      · exact stripFP_ok strip fp (filePatchLoop_inv _ _ _ _ _ _ _ _ _ _ _ hp MetaOK_init)

theorem parsePatch_inv (bs : Bytes) (strip : Nat) (wh : Bool) (p : Patch) (h : parsePatch bs strip wh = .ok p) :
    ∀ fp ∈ p.fps, FPOK' fp :=
  patchLoop_inv strip _ _ _ _ _ _ h (by simp)

end RQ.Write
