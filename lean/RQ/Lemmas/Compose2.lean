import RQ.Lemmas.Compose
import RQ.Lemmas.ComposeRej
/-!
# Pushes compose (C09) — part 2: frame, split, and the main theorem on `specRun`

* `Touch T a b`: `b` differs from `a` only at paths in `T`, and by directories appearing / disappearing above paths
  in `T`.  `applyFPTree` / `applyPatchTree` / `applyRangeTree` are in `Touch T` for every `T` that contains the paths
  of the names in the patches.  Consequences: paths below `.pc` are not touched at all, and a readable file whose
  path has no prefix in `T` stays readable with the same content (patch files, `series`).
* `applyRangeTree_append`: a range `r₁ ++ r₂` is `r₁` and then, if all of it applied, `r₂`.
* `specRun`, `Clean`, and the main theorem `specRun_compose`.
-/
namespace RQ.Compose
open RQ RQ.Push RQ.Spec RQ.Flush RQ.Agree RQ.Parse RQ.Write

/-! ## frame -/

/-- `b` differs from `a` at most at paths in `T` and by directories appearing / disappearing at strict prefixes of
paths in `T` -/
def Touch (T : Key → Prop) (a b : FS) : Prop :=
  ∀ q, b.lookup q = a.lookup q ∨ T q ∨ ∃ t, T t ∧ SPre q t ∧ DirOrNone (a.lookup q) ∧ DirOrNone (b.lookup q)

theorem Touch.refl (T : Key → Prop) (a : FS) : Touch T a a := fun _ => .inl rfl

theorem Touch.trans {T : Key → Prop} {a b c : FS} (h1 : Touch T a b) (h2 : Touch T b c) : Touch T a c := by
  intro q
  rcases h1 q with e1 | t1 | ⟨t, ht, hs, d1, d1'⟩
  · rcases h2 q with e2 | t2 | ⟨t', ht', hs', d2, d2'⟩
    · exact .inl (e2.trans e1)
    · exact .inr (.inl t2)
    · exact .inr (.inr ⟨t', ht', hs', e1 ▸ d2, d2'⟩)
  · exact .inr (.inl t1)
  · rcases h2 q with e2 | t2 | ⟨t', ht', hs', d2, d2'⟩
    · exact .inr (.inr ⟨t, ht, hs, d1, e2 ▸ d1'⟩)
    · exact .inr (.inl t2)
    · exact .inr (.inr ⟨t, ht, hs, d1, d2'⟩)

theorem Touch.of_near {T : Key → Prop} {k : Key} {a b : FS} (h : Near k a b) (hk : T k) : Touch T a b := by
  intro q
  by_cases e : q = k
  · exact .inr (.inl (e ▸ hk))
  · rcases h q e with e1 | ⟨hs, d, d'⟩
    · exact .inl e1
    · exact .inr (.inr ⟨k, hk, hs, d, d'⟩)

/-- nothing below `.pc` changes if `T` has no path below `.pc` -/
theorem Touch.pc_same {T : Key → Prop} {a b : FS} (h : Touch T a b) (hT : ∀ t, T t → ¬ isPcKey t) {q : Key}
    (hq : isPcKey q) : b.lookup q = a.lookup q := by
  rcases h q with e | t | ⟨t, ht, hs, _, _⟩
  · exact e
  · exact absurd hq (hT q t)
  · exact absurd (pc_of_spre hq hs) (hT t ht)

theorem prefix_of_spre {q k : Key} (h : SPre q k) : q <+: k := by
  rw [spre_eq_take h]; exact List.take_prefix _ _

/-- a readable file none of whose path prefixes is in `T` stays as it is -/
theorem Touch.readFile_ok {T : Key → Prop} {a b : FS} (h : Touch T a b) {pk : Key} (hT : ∀ t, T t → ¬ t <+: pk)
    {x : Bytes × Nat} (hr : a.readFile pk = .ok x) : b.readFile pk = .ok x := by
  unfold FS.readFile at hr ⊢
  split at hr
  · cases hr
  · rename_i hfp
    have hfp' : a.fileOnPath pk = false := by simpa using hfp
    have hfpb : b.fileOnPath pk = false := by
      rw [← hfp']
      apply fileOnPath_congr
      intro q hs
      rcases h q with e | t | ⟨t, _, _, d, d'⟩
      · rw [e]
      · exact absurd (prefix_of_spre hs) (hT q t)
      · exact ⟨fun x => absurd x (not_isFile_of_dirOrNone d'), fun x => absurd x (not_isFile_of_dirOrNone d)⟩
    rw [hfpb]
    simp only [Bool.false_eq_true, if_false]
    split at hr
    · rename_i c m i hl
      rcases h pk with e | t | ⟨t, _, _, d, _⟩
      · rw [e, hl]; exact hr
      · exact absurd (List.prefix_refl pk) (hT pk t)
      · rw [hl] at d; rcases d with d | d <;> cases d
    · cases hr
    · split at hr <;> cases hr

/-! ### the primitives -/

theorem cdaStep_dirChange {k d : Key} {f f' : FS} {i : Nat} (hd : d.take i ≠ [] → SPre (d.take i) k)
    (h : cdaStep d (.ok f) i = .ok f') : DirChange k f f' := by
  unfold cdaStep at h
  simp only at h
  split at h
  · cases h; exact DirChange.refl k f
  · rename_i hne
    have hne' : d.take i ≠ [] := by simpa using hne
    split at h
    · cases h; exact DirChange.refl k f
    · cases h
    · rename_i hl
      cases h
      exact dirChange_set_dir (hd hne') hl

theorem cdaFold_dirChange {k d : Key} (hd : ∀ i, d.take i ≠ [] → SPre (d.take i) k) : ∀ (l : List Nat) (f f' : FS),
    l.foldl (cdaStep d) (.ok f) = .ok f' → DirChange k f f' := by
  intro l
  induction l with
  | nil => intro f f' h; cases h; exact DirChange.refl k f
  | cons i t ih =>
    intro f f' h
    rw [List.foldl_cons] at h
    cases hs : cdaStep d (.ok f) i with
    | error e =>
      rw [hs] at h
      have : ∀ (l : List Nat), l.foldl (cdaStep d) (.error e) = .error e := by
        intro l; induction l with
        | nil => rfl
        | cons j t ih2 => rw [List.foldl_cons]; exact ih2
      rw [this] at h; cases h
    | ok f1 =>
      rw [hs] at h
      exact (cdaStep_dirChange (hd i) hs).trans (ih f1 f' h)

/-- `mkdir -p` of the parent of `k` only adds directories at strict prefixes of `k` -/
theorem createDirAll_parent_dirChange {fs fs' : FS} {k : Key} (h : fs.createDirAll k.dropLast = .ok fs') :
    DirChange k fs fs' := by
  rw [createDirAll_eq] at h
  apply cdaFold_dirChange _ _ _ _ h
  intro i hne
  have hk : k ≠ [] := by
    intro e; subst e; simp at hne
  exact take_dropLast_spre hk i

theorem createFile_near {fs fs' : FS} {k : Key} (h : fs.createFile k = .ok fs') : Near k fs fs' := by
  unfold FS.createFile at h
  split at h
  · cases h
  · split at h
    · cases h
    · split at h
      · cases h
      · split at h
        · cases h
        · cases h; exact near_set fs k _
        · cases h; exact near_set fs k _

theorem storeRest_near {fs1 fs' : FS} {k : Key} {f : FileSt Bytes} {e : Bool} (h : storeRest fs1 k f e = .ok fs') :
    Near k fs1 fs' := by
  unfold storeRest at h
  split at h
  · cases h
    split
    · apply DirChange.near
      apply pruneUp_dirChange
      by_cases hk : k = []
      · left; rw [hk]; rfl
      · right; exact dropLast_spre hk
    · exact Near.refl k fs1
  · split at h
    · cases h
    · rename_i fs2 h2
      split at h
      · cases h
      · rename_i fs3 h3
        cases h
        refine (createDirAll_parent_dirChange h2).near.trans ((createFile_near h3).trans ?_)
        cases f.perms with
        | none => exact near_appendBytes fs3 k _
        | some p => exact (near_setMode fs3 k p).trans (near_appendBytes _ k _)

/-- whatever `storeTree` does, it does at the path of the name and at directories above it -/
theorem storeTree_near {fs fs' : FS} {name : Bytes} {f : FileSt Bytes} (h : storeTree fs name f = .ok fs') :
    ∃ k, safeKey name = some k ∧ Near k fs fs' := by
  rw [storeTree_eq] at h
  cases hk : safeKey name with
  | none => rw [hk] at h; cases h
  | some k =>
    rw [hk] at h
    simp only at h
    refine ⟨k, rfl, ?_⟩
    cases hs : (fs.lookup k).isSome with
    | true =>
      rw [hs] at h
      simp only [if_true] at h
      cases hr : fs.removeFile k with
      | error e => rw [hr] at h; cases h
      | ok fs1 =>
        rw [hr] at h
        simp only at h
        have := FS.removeFile_ok hr
        subst this
        exact (near_erase fs k).trans (storeRest_near h)
    | false =>
      rw [hs] at h
      simp only [Bool.false_eq_true, if_false] at h
      exact storeRest_near h

theorem storeTree_touch {T : Key → Prop} {fs fs' : FS} {name : Bytes} {f : FileSt Bytes}
    (hn : ∀ k, safeKey name = some k → T k) (h : storeTree fs name f = .ok fs') : Touch T fs fs' := by
  obtain ⟨k, hk, hnear⟩ := storeTree_near h
  exact Touch.of_near hnear (hn k hk)

theorem runPlan_touch {T : Key → Prop} {fs : FS} {pl : FPPlan} {r : FPResult}
    (hn : ∀ n ∈ planNames pl, ∀ k, safeKey n = some k → T k) (h : runPlan fs pl = .ok r) : Touch T fs r.fs := by
  cases pl with
  | refuse => cases h
  | keep => simp only [runPlan] at h; cases h; exact Touch.refl T fs
  | store target f ok rej touched =>
    simp only [runPlan] at h
    split at h
    · cases h
    · rename_i fs1 h1
      cases h
      exact storeTree_touch (hn target (by simp [planNames])) h1
  | move target f0 newName f ok rej touched =>
    simp only [runPlan] at h
    split at h
    · cases h
    · rename_i fs1 h1
      split at h
      · cases h
      · rename_i fs2 h2
        cases h
        exact (storeTree_touch (hn target (by simp [planNames])) h1).trans
          (storeTree_touch (hn newName (by simp [planNames])) h2)

theorem applyFPTree_touch {T : Key → Prop} {fs : FS} {cfg : Cfg} {entry : Series.Entry} {fp : PFilePatch}
    {r : FPResult} (hn : NamesSat T fp) (h : applyFPTree fs cfg entry fp = .ok r) : Touch T fs r.fs := by
  rw [applyFPTree_eq] at h
  exact runPlan_touch (fun n hm => hn n (planNames_sub hm)) h

theorem applyPatchTree_touch {T : Key → Prop} {cfg : Cfg} {entry : Series.Entry} : ∀ (fps : List PFilePatch),
    (∀ fp ∈ fps, NamesSat T fp) → ∀ (acc r : PatchResult), applyPatchTree cfg entry fps acc = .ok r →
    Touch T acc.fs r.fs := by
  intro fps
  induction fps with
  | nil => intro _ acc r h; unfold applyPatchTree at h; cases h; exact Touch.refl T _
  | cons fp fps ih =>
    intro hn acc r h
    unfold applyPatchTree at h
    split at h
    · cases h
    · rename_i r1 h1
      exact (applyFPTree_touch (hn fp (List.mem_cons_self ..)) h1).trans
        (ih (fun fp' hm => hn fp' (List.mem_cons_of_mem _ hm)) _ _ h)

theorem applyRangeTree_touch {T : Key → Prop} {cfg : Cfg} {orig : FS} : ∀ (range : List Series.Entry),
    (∀ e ∈ range, ∀ patch, patchOf orig cfg e = some patch → ∀ fp ∈ patch.fps, NamesSat T fp) →
    ∀ (p p' : Progress), applyRangeTree cfg orig range p = .ok p' → Touch T p.fs p'.fs := by
  intro range
  induction range with
  | nil => intro _ p p' h; unfold applyRangeTree at h; cases h; exact Touch.refl T _
  | cons entry rest ih =>
    intro hn p p' h
    rw [applyRangeTree_cons] at h
    split at h
    · cases h
    · rename_i patch hp
      split at h
      · cases h
      · rename_i r hr
        have h1 := applyPatchTree_touch patch.fps (hn entry (List.mem_cons_self ..) patch hp) _ _ hr
        split at h
        · exact h1.trans (ih (fun e hm => hn e (List.mem_cons_of_mem _ hm)) _ _ h)
        · cases h; exact Touch.refl T _

/-! ## (2) split -/

/-- **(2) split**: a range `r₁ ++ r₂` is `r₁` and then — if all of `r₁` applied — `r₂`, continuing from the progress
record (patch files are read from the same original tree in both halves) -/
theorem applyRangeTree_append (cfg : Cfg) (orig : FS) (r1 r2 : List Series.Entry) : ∀ (p : Progress),
    applyRangeTree cfg orig (r1 ++ r2) p =
      match applyRangeTree cfg orig r1 p with
      | .error e => .error e
      | .ok p1 => if p1.k = p.k + r1.length then applyRangeTree cfg orig r2 p1 else .ok p1 := by
  induction r1 with
  | nil => intro p; simp [applyRangeTree]
  | cons entry rest ih =>
    intro p
    rw [List.cons_append, applyRangeTree_cons, applyRangeTree_cons]
    cases patchOf orig cfg entry with
    | none => rfl
    | some patch =>
      simp only
      cases applyPatchTree cfg entry patch.fps { fs := p.fs, ok := true, rejs := [], touched := [] } with
      | error e => rfl
      | ok r =>
        simp only
        cases r.ok with
        | true =>
          simp only [if_true]
          rw [ih]
          have hl : p.k + (entry :: rest).length = p.k + 1 + rest.length := by simp only [List.length_cons]; omega
          rw [hl]
        | false =>
          simp only [Bool.false_eq_true, if_false]
          have hl : ¬ (p.k = p.k + (entry :: rest).length) := by simp only [List.length_cons]; omega
          simp only [hl, if_false]

/-- the number of applied patches stays within the range; if the whole range applied, no reject file was rendered -/
theorem applyRangeTree_k (cfg : Cfg) (orig : FS) : ∀ (range : List Series.Entry) (p p' : Progress),
    applyRangeTree cfg orig range p = .ok p' →
      p.k ≤ p'.k ∧ p'.k ≤ p.k + range.length ∧
      (p'.k = p.k + range.length → p'.rejs = p.rejs ∧ p'.failed = p.failed) := by
  intro range
  induction range with
  | nil =>
    intro p p' h
    unfold applyRangeTree at h
    cases h
    simp
  | cons entry rest ih =>
    intro p p' h
    rw [applyRangeTree_cons] at h
    split at h
    · cases h
    · split at h
      · cases h
      · split at h
        · obtain ⟨h1, h2, h3⟩ := ih _ _ h
          simp only [List.length_cons] at h1 h2 h3 ⊢
          refine ⟨by omega, by omega, fun hk => ?_⟩
          exact h3 (by omega)
        · cases h
          simp only [List.length_cons]
          refine ⟨Nat.le_refl _, by omega, fun hk => ?_⟩
          omega

/-! ## `specRun` -/

/-- the progress record a push starts with -/
def start (fs : FS) : Progress := { fs, k := 0, rejs := [], failed := false, backups := [] }

/-- what `pushSpec` does once `plan` has answered `.apply range` -/
def specRun (cfg : Cfg) (fs : FS) (range : List Series.Entry) : SpecOut :=
  match applyRangeTree cfg fs range (start fs) with
  | .error _ => { exit := 1, fs }
  | .ok p => finishSpec cfg fs range p

theorem pushSpec_eq_specRun {cfg : Cfg} {fs : FS} {range : List Series.Entry} (h : plan cfg fs = .apply range) :
    pushSpec cfg fs = specRun cfg fs range := by
  unfold pushSpec specRun start
  rw [h]
  rfl

/-- the push is refused while patches are applied (unsafe name, unreadable patch file, a directory in the way …):
exit status 1 and the tree is left as it was -/
def Refused (cfg : Cfg) (fs : FS) (range : List Series.Entry) : Prop :=
  applyRangeTree cfg fs range (start fs) = .error ()

/-- the part of `finishSpec` that works below `.pc`: backups and `.pc/applied-patches`, on the tree `fs1` that
already holds the reject files -/
def finishPc (cfg : Cfg) (range : List Series.Entry) (p : Progress) (fs1 : FS) : SpecOut :=
  let exit := if p.k == range.length then 0 else 1
  let doBackups := cfg.backup == .always || (cfg.backup == .onfail && p.k != range.length)
  let window := match cfg.backupCount with
    | none => p.backups
    | some n => p.backups.drop (p.k - n)
  match (if doBackups then putBackups fs1 window else .ok fs1) with
  | .error _ => { exit := 1, fs := fs1, ioError := true }
  | .ok fs2 =>
    match fs2.createDirAll pcDir with
    | .error _ => { exit := 1, fs := fs2, ioError := true }
    | .ok fs3 =>
      match fs3.appendFile appliedKey ((range.take p.k).map (fun e => e.name ++ [10])).flatten with
      | .error _ => { exit := 1, fs := fs3, ioError := true }
      | .ok fs4 => { exit, fs := fs4 }

theorem finishSpec_eq (cfg : Cfg) (fs : FS) (range : List Series.Entry) (p : Progress) (hdry : cfg.dryRun = false) :
    finishSpec cfg fs range p =
      match putRejects p.fs p.rejs.reverse with
      | .error _ => { exit := 1, fs := p.fs, ioError := true }
      | .ok fs1 => finishPc cfg range p fs1 := by
  unfold finishSpec finishPc
  simp only [hdry, Bool.false_eq_true, if_false]
  rfl

/-! ## the last phase: reject files are a congruence, the rest stays below `.pc` -/

theorem createFile_lookup_ne {fs fs' : FS} {k q : Key} (h : fs.createFile k = .ok fs') (hq : q ≠ k) :
    fs'.lookup q = fs.lookup q := by
  unfold FS.createFile at h
  split at h
  · cases h
  · split at h
    · cases h
    · split at h
      · cases h
      · split at h
        · cases h
        · cases h; exact FS.lookup_set_ne fs k q _ hq
        · cases h; exact FS.lookup_set_ne fs k q _ hq

theorem setMode_lookup_ne (fs : FS) {k q : Key} (m : Nat) (hq : q ≠ k) : (fs.setMode k m).lookup q = fs.lookup q := by
  unfold FS.setMode
  split
  · exact FS.lookup_set_ne fs k q _ hq
  · rfl

theorem appendBytes_lookup_ne (fs : FS) {k q : Key} (b : Bytes) (hq : q ≠ k) :
    (fs.appendBytes k b).lookup q = fs.lookup q := by
  unfold FS.appendBytes
  split
  · exact FS.lookup_set_ne fs k q _ hq
  · rfl

theorem appendFile_lookup_ne {fs fs' : FS} {k q : Key} {b : Bytes} (h : fs.appendFile k b = .ok fs') (hq : q ≠ k) :
    fs'.lookup q = fs.lookup q := by
  unfold FS.appendFile at h
  split at h
  · cases h
  · split at h
    · cases h
    · split at h
      · cases h
      · cases h; exact appendBytes_lookup_ne fs b hq
      · cases h; exact FS.lookup_set_ne fs k q _ hq

/-- `mkdir -p` of a directory whose non-empty prefixes are all below `.pc` changes nothing outside `.pc` -/
theorem createDirAll_pcOnly {fs fs' : FS} {d : Key} (hd : d = [] ∨ isPcKey d) (h : fs.createDirAll d = .ok fs') :
    PcOnly fs fs' := by
  intro q hq
  unfold FS.createDirAll at h
  obtain ⟨f, hf, hs⟩ := createDirAll_fold_lookup d q _ (fun i _ hne hpe => by
    apply hq
    rcases hd with hd | hd
    · rw [hd] at hne; simp at hne
    · unfold isPcKey at *
      rw [hpe, head?_take_of_ne_nil _ _ hne]; exact hd) _ _ h
  cases hf
  exact hs

theorem pc_dropLast {k : Key} (hk : isPcKey k) : k.dropLast = [] ∨ isPcKey k.dropLast := by
  by_cases hn : k.dropLast = []
  · exact .inl hn
  · right
    unfold isPcKey at *
    rw [head?_dropLast_of_ne_nil k hn]; exact hk

/-- `putFile` after the unlink -/
def putRest (fs0 : FS) (k : Key) (content : Bytes) (perms : Option Nat) : Except Unit FS :=
  match fs0.createDirAll k.dropLast with
  | .error _ => .error ()
  | .ok fs1 =>
    match fs1.createFile k with
    | .error _ => .error ()
    | .ok fs2 =>
      let fs3 := match perms with | some p => fs2.setMode k p | none => fs2
      .ok (fs3.appendBytes k content)

theorem putFile_eq (fs : FS) (k : Key) (content : Bytes) (perms : Option Nat) :
    putFile fs k content perms =
      putRest (match fs.removeFile k with | .ok x => x | .error _ => fs) k content perms := rfl

theorem putRest_pcOnly {fs0 fs' : FS} {k : Key} {content : Bytes} {perms : Option Nat} (hk : isPcKey k)
    (h : putRest fs0 k content perms = .ok fs') : PcOnly fs0 fs' := by
  intro q hq
  have hne : q ≠ k := fun e => hq (e ▸ hk)
  unfold putRest at h
  split at h
  · cases h
  · rename_i fs1 h1
    split at h
    · cases h
    · rename_i fs2 h2
      cases h
      rw [appendBytes_lookup_ne _ _ hne]
      have e2 := createFile_lookup_ne h2 hne
      have e1 := createDirAll_pcOnly (pc_dropLast hk) h1 q hq
      cases perms with
      | none => simp only; rw [e2, e1]
      | some m => simp only; rw [setMode_lookup_ne _ _ hne, e2, e1]

theorem putFile_pcOnly {fs fs' : FS} {k : Key} {content : Bytes} {perms : Option Nat} (hk : isPcKey k)
    (h : putFile fs k content perms = .ok fs') : PcOnly fs fs' := by
  rw [putFile_eq] at h
  refine PcOnly.trans ?_ (putRest_pcOnly hk h)
  intro q hq
  have hne : q ≠ k := fun e => hq (e ▸ hk)
  cases hr : fs.removeFile k with
  | error e => rfl
  | ok x =>
    simp only
    rw [FS.removeFile_ok hr]
    exact FS.lookup_erase_ne fs k q hne

theorem backupFold_pcOnly (patchName : Bytes) (files : List (Bytes × FileSt Bytes)) :
    ∀ (acc : Except Unit FS) (fs' : FS),
      files.foldl (fun (acc : Except Unit FS) (nf : Bytes × FileSt Bytes) =>
        match acc with
        | .error e => .error e
        | .ok f =>
          match pcKey patchName nf.1 with
          | none => .error ()
          | some k => putFile f k (bytesOf nf.2.content) nf.2.perms) acc = .ok fs' →
      ∃ f, acc = .ok f ∧ PcOnly f fs' := by
  induction files with
  | nil => intro acc fs' h; exact ⟨fs', h, PcOnly.refl _⟩
  | cons nf rest ih =>
    intro acc fs' h
    rw [List.foldl_cons] at h
    obtain ⟨f1, h1, hs1⟩ := ih _ _ h
    cases acc with
    | error e => simp at h1
    | ok f =>
      refine ⟨f, rfl, ?_⟩
      simp only at h1
      split at h1
      · cases h1
      · rename_i k hk
        exact (putFile_pcOnly (pcKey_isPcKey hk) h1).trans hs1

theorem putBackups_pcOnly (bs : List (Bytes × List (Bytes × FileSt Bytes))) : ∀ (fs fs' : FS),
    putBackups fs bs = .ok fs' → PcOnly fs fs' := by
  induction bs with
  | nil =>
    intro fs fs' h
    unfold putBackups at h
    cases h; exact PcOnly.refl _
  | cons b rest ih =>
    obtain ⟨patchName, files⟩ := b
    intro fs fs' h
    unfold putBackups at h
    simp only at h
    split at h
    · cases h
    · rename_i f1 h1
      obtain ⟨f, hf, hs⟩ := backupFold_pcOnly patchName files _ _ h1
      cases hf
      exact hs.trans (ih _ _ h)

/-- backups and `.pc/applied-patches` change nothing outside `.pc`, whatever happens -/
theorem finishPc_pcOnly (cfg : Cfg) (range : List Series.Entry) (p : Progress) (fs1 : FS) :
    PcOnly fs1 (finishPc cfg range p fs1).fs := by
  unfold finishPc
  simp only
  split
  · exact PcOnly.refl _
  · rename_i fs2 h2
    have e2 : PcOnly fs1 fs2 := by
      split at h2
      · exact putBackups_pcOnly _ _ _ h2
      · cases h2; exact PcOnly.refl _
    split
    · exact e2
    · rename_i fs3 h3
      have e3 : PcOnly fs2 fs3 := createDirAll_pcOnly (d := pcDir) (.inr (by unfold isPcKey pcDir; rfl)) h3
      split
      · exact e2.trans e3
      · rename_i fs4 h4
        refine (e2.trans e3).trans ?_
        intro q hq
        exact appendFile_lookup_ne h4 (fun e => hq (e ▸ isPcKey_appliedKey))

theorem putRest_congr {a0 b0 : FS} (h0 : OutsidePc a0 b0) {k : Key} (hk : ¬ isPcKey k) (content : Bytes)
    (perms : Option Nat) : ExRel OutsidePc (putRest a0 k content perms) (putRest b0 k content perms) := by
  unfold putRest
  have h1 := createDirAll_congr h0 (not_isPcKey_dropLast hk)
  cases ha : a0.createDirAll k.dropLast with
  | error e1 => rw [h1.err_left ha]; trivial
  | ok a2 =>
    obtain ⟨b2, hb, h2⟩ := h1.ok_left ha
    rw [hb]
    simp only
    have h3 := createFile_congr h2 hk
    cases ha3 : a2.createFile k with
    | error e1 => rw [h3.err_left ha3]; trivial
    | ok a3 =>
      obtain ⟨b3, hb3, h4⟩ := h3.ok_left ha3
      rw [hb3]
      simp only
      apply appendBytes_congr _ hk
      cases perms with
      | none => exact h4
      | some m => exact setMode_congr h4 hk m

theorem putFile_congr {a b : FS} (h : OutsidePc a b) {k : Key} (hk : ¬ isPcKey k) (content : Bytes)
    (perms : Option Nat) : ExRel OutsidePc (putFile a k content perms) (putFile b k content perms) := by
  rw [putFile_eq, putFile_eq]
  apply putRest_congr _ hk
  have hr := removeFile_congr h hk
  cases ha : a.removeFile k with
  | error e => rw [hr.err_left ha]; exact h
  | ok a' =>
    obtain ⟨b', hb, hab⟩ := hr.ok_left ha
    rw [hb]; exact hab

/-- the reject files all have paths outside `.pc` -/
def RejsOut (rejs : List (Bytes × Bytes)) : Prop := ∀ r ∈ rejs, ∀ k, safeKey r.1 = some k → ¬ isPcKey k

theorem putRejects_congr : ∀ (rejs : List (Bytes × Bytes)), RejsOut rejs → ∀ {a b : FS}, OutsidePc a b →
    ExRel OutsidePc (putRejects a rejs) (putRejects b rejs) := by
  intro rejs
  induction rejs with
  | nil => intro _ a b h; exact h
  | cons r rest ih =>
    obtain ⟨name, content⟩ := r
    intro hr a b h
    have hrest : RejsOut rest := fun r hm => hr r (List.mem_cons_of_mem _ hm)
    unfold putRejects
    cases hk : safeKey name with
    | none => trivial
    | some k =>
      have hk' : ¬ isPcKey k := hr (name, content) (List.mem_cons_self ..) k hk
      simp only
      rw [h.fileOnPath_eq hk', h.isDir_eq (not_isPcKey_dropLast hk')]
      split
      · exact ih hrest h
      · split
        · exact ih hrest h
        · have hp := putFile_congr h hk' content none
          cases ha : putFile a k content none with
          | error e => rw [hp.err_left ha]; trivial
          | ok a' =>
            obtain ⟨b', hb, hab⟩ := hp.ok_left ha
            rw [hb]
            exact ih hrest hab

/-! ## where reject files and backups can be -/

def planRej : FPPlan → Option (Bytes × Bytes)
  | .store _ _ _ rej _ => rej
  | .move _ _ _ _ _ rej _ => rej
  | _ => none

theorem runPlan_rej {fs : FS} {pl : FPPlan} {r : FPResult} (h : runPlan fs pl = .ok r) : r.rej = planRej pl := by
  cases pl with
  | refuse => cases h
  | keep => simp only [runPlan] at h; cases h; rfl
  | store target f ok rej touched =>
    simp only [runPlan] at h
    split at h
    · cases h
    · cases h; rfl
  | move target f0 newName f ok rej touched =>
    simp only [runPlan] at h
    split at h
    · cases h
    · split at h
      · cases h
      · cases h; rfl

theorem planRej_sub {fs : FS} {cfg : Cfg} {entry : Series.Entry} {fp : PFilePatch} {x : Bytes × Bytes}
    (h : planRej (fpPlan fs cfg entry fp) = some x) :
    ∃ n, (fp.old = some n ∨ fp.new = some n) ∧ x.1 = makeRejName n := by
  unfold fpPlan at h
  split at h
  · cases h
  · split at h
    · cases h
    · rename_i target hch
      have hmem := chooseTree_mem hch
      split at h
      · cases h
      · simp only at h
        split at h
        · split at h
          · cases h
          · rename_i newName hnew
            split at h
            · cases h
            · split at h
              · split at h
                · cases h
                · split at h
                  · cases h
                  · simp only [planRej, Option.some.injEq] at h
                    exact ⟨target, hmem, by rw [← h]⟩
              · split at h
                · cases h
                · split at h
                  · cases h
                  · split at h
                    · cases h
                    · simp only [planRej, Option.some.injEq] at h
                      exact ⟨target, hmem, by rw [← h]⟩
        · split at h
          · cases h
          · split at h
            · cases h
            · simp only [planRej, Option.some.injEq] at h
              exact ⟨target, hmem, by rw [← h]⟩

/-- the reject file of a file patch whose names are outside `.pc` is outside `.pc` (`safeKey_rej_not_pc`) -/
theorem applyFPTree_rejOut {fs : FS} {cfg : Cfg} {entry : Series.Entry} {fp : PFilePatch} {r : FPResult}
    (hn : NamesSat (fun k => ¬ isPcKey k) fp) (h : applyFPTree fs cfg entry fp = .ok r) :
    RejsOut (match r.rej with | some x => [x] | none => []) := by
  have hns : namesSafe fp = true := by
    cases hs : namesSafe fp with
    | true => rfl
    | false => rw [T_badNames hs] at h; cases h
  rw [applyFPTree_eq] at h
  have hr := runPlan_rej h
  intro x hx k hk
  cases hrej : r.rej with
  | none => rw [hrej] at hx; cases hx
  | some y =>
    rw [hrej] at hx
    simp only [List.mem_singleton] at hx
    subst hx
    rw [hrej] at hr
    obtain ⟨n, hmem, hname⟩ := planRej_sub hr.symm
    obtain ⟨kn, hkn⟩ := safe_of_namesSafe hns hmem
    rw [hname] at hk
    exact safeKey_rej_not_pc hkn (hn n hmem kn hkn) hk

theorem RejsOut.append {a b : List (Bytes × Bytes)} (ha : RejsOut a) (hb : RejsOut b) : RejsOut (a ++ b) := by
  intro r hr
  rcases List.mem_append.mp hr with h | h
  · exact ha r h
  · exact hb r h

theorem applyPatchTree_rejsOut {cfg : Cfg} {entry : Series.Entry} : ∀ (fps : List PFilePatch),
    (∀ fp ∈ fps, NamesSat (fun k => ¬ isPcKey k) fp) → ∀ (acc r : PatchResult), RejsOut acc.rejs → applyPatchTree cfg entry fps acc = .ok r →
    RejsOut r.rejs := by
  intro fps
  induction fps with
  | nil => intro _ acc r ha h; unfold applyPatchTree at h; cases h; exact ha
  | cons fp fps ih =>
    intro hn acc r ha h
    unfold applyPatchTree at h
    split at h
    · cases h
    · rename_i r1 h1
      refine ih (fun fp' hm => hn fp' (List.mem_cons_of_mem _ hm)) _ _ ?_ h
      exact ha.append (applyFPTree_rejOut (hn fp (List.mem_cons_self ..)) h1)

theorem applyRangeTree_rejsOut {cfg : Cfg} {orig : FS} : ∀ (range : List Series.Entry),
    (∀ e ∈ range, ∀ patch, patchOf orig cfg e = some patch → ∀ fp ∈ patch.fps, NamesSat (fun k => ¬ isPcKey k) fp) →
    ∀ (p p' : Progress), RejsOut p.rejs → applyRangeTree cfg orig range p = .ok p' → RejsOut p'.rejs := by
  intro range
  induction range with
  | nil => intro _ p p' hp h; unfold applyRangeTree at h; cases h; exact hp
  | cons entry rest ih =>
    intro hn p p' hp h
    rw [applyRangeTree_cons] at h
    split at h
    · cases h
    · rename_i patch hpatch
      split at h
      · cases h
      · rename_i r hr
        have h1 := applyPatchTree_rejsOut patch.fps (hn entry (List.mem_cons_self ..) patch hpatch) _ _
          (fun _ hm => by cases hm) hr
        split at h
        · exact ih (fun e hm => hn e (List.mem_cons_of_mem _ hm)) _ _ (by exact hp) h
        · cases h; exact h1

/-- backup records are made for patches of the range only -/
theorem applyRangeTree_backups {cfg : Cfg} {orig : FS} : ∀ (range : List Series.Entry) (p p' : Progress),
    applyRangeTree cfg orig range p = .ok p' →
    ∀ b ∈ p'.backups, b ∈ p.backups ∨ ∃ e ∈ range, b.1 = e.name := by
  intro range
  induction range with
  | nil => intro p p' h; unfold applyRangeTree at h; cases h; exact fun b hb => .inl hb
  | cons entry rest ih =>
    intro p p' h
    rw [applyRangeTree_cons] at h
    split at h
    · cases h
    · split at h
      · cases h
      · split at h
        · intro b hb
          rcases ih _ _ h b hb with h1 | ⟨e, he, h1⟩
          · simp only at h1
            rcases List.mem_append.mp h1 with h2 | h2
            · exact .inl h2
            · simp only [List.mem_singleton] at h2
              exact .inr ⟨entry, List.mem_cons_self .., by rw [h2]⟩
          · exact .inr ⟨e, List.mem_cons_of_mem _ he, h1⟩
        · cases h; exact fun b hb => .inl hb

/-! ## `.pc/applied-patches` -/

def appliedName : Bytes := [97, 112, 112, 108, 105, 101, 100, 45, 112, 97, 116, 99, 104, 101, 115]

theorem appliedKey_eq : appliedKey = [[46, 112, 99], appliedName] := rfl

/-- the patch is not called `.` and is not below a directory `applied-patches` (its backups go to `.pc/<name>/`) -/
def PatchNameOK (name : Bytes) : Prop := ∀ p, safeKey name = some p → p ≠ [] ∧ p.head? ≠ some appliedName

theorem pcKey_ne_applied {patchName name : Bytes} {k : Key} (hn : PatchNameOK patchName)
    (h : pcKey patchName name = some k) : k ≠ appliedKey := by
  unfold pcKey at h
  split at h
  · rename_i p n hp _
    cases h
    obtain ⟨h0, h1⟩ := hn p hp
    intro e
    rw [appliedKey_eq] at e
    cases p with
    | nil => exact h0 rfl
    | cons c cs =>
      simp only [List.cons_append, List.nil_append, List.cons.injEq] at e
      apply h1
      simp only [List.head?_cons]
      rw [e.2.1]
  · cases h

theorem backupFold_applied (patchName : Bytes) (hn : PatchNameOK patchName) (files : List (Bytes × FileSt Bytes)) :
    ∀ (acc : Except Unit FS) (fs' : FS),
      files.foldl (fun (acc : Except Unit FS) (nf : Bytes × FileSt Bytes) =>
        match acc with
        | .error e => .error e
        | .ok f =>
          match pcKey patchName nf.1 with
          | none => .error ()
          | some k => putFile f k (bytesOf nf.2.content) nf.2.perms) acc = .ok fs' →
      ∃ f, acc = .ok f ∧ fileAt fs' appliedKey = fileAt f appliedKey := by
  induction files with
  | nil => intro acc fs' h; exact ⟨fs', h, rfl⟩
  | cons nf rest ih =>
    intro acc fs' h
    rw [List.foldl_cons] at h
    obtain ⟨f1, h1, hs1⟩ := ih _ _ h
    cases acc with
    | error e => simp at h1
    | ok f =>
      refine ⟨f, rfl, ?_⟩
      simp only at h1
      split at h1
      · cases h1
      · rename_i k hk
        rw [hs1]
        exact putFile_fileAt h1 (fun e => pcKey_ne_applied hn hk e.symm)

theorem putBackups_applied (bs : List (Bytes × List (Bytes × FileSt Bytes))) : (∀ b ∈ bs, PatchNameOK b.1) →
    ∀ (fs fs' : FS), putBackups fs bs = .ok fs' → fileAt fs' appliedKey = fileAt fs appliedKey := by
  induction bs with
  | nil =>
    intro _ fs fs' h
    unfold putBackups at h
    cases h; rfl
  | cons b rest ih =>
    obtain ⟨patchName, files⟩ := b
    intro hn fs fs' h
    unfold putBackups at h
    simp only at h
    split at h
    · cases h
    · rename_i f1 h1
      obtain ⟨f, hf, hs⟩ := backupFold_applied patchName (hn (patchName, files) (List.mem_cons_self ..)) files _ _ h1
      cases hf
      rw [ih (fun b hb => hn b (List.mem_cons_of_mem _ hb)) _ _ h, hs]

/-- the bytes `.pc/applied-patches` gains -/
def namesBytes (l : List Series.Entry) : Bytes := (l.map (fun e => e.name ++ [10])).flatten

theorem namesBytes_append (a b : List Series.Entry) : namesBytes (a ++ b) = namesBytes a ++ namesBytes b := by
  simp [namesBytes]

/-- a file after `b` has been appended (created with mode 644 if it was not there) -/
def appendView (v : Option (Bytes × Nat)) (b : Bytes) : Option (Bytes × Nat) :=
  some (match v with | some (c, m) => (c ++ b, m) | none => (b, 0o644))

theorem appendView_appendView (v : Option (Bytes × Nat)) (b1 b2 : Bytes) :
    appendView (appendView v b1) b2 = appendView v (b1 ++ b2) := by
  cases v with
  | none => rfl
  | some x => obtain ⟨c, m⟩ := x; simp [appendView]

/-- if the phase below `.pc` goes through: the exit status says whether the whole range applied, and
`.pc/applied-patches` has gained exactly the names of the applied patches -/
theorem finishPc_ok {cfg : Cfg} {range : List Series.Entry} {p : Progress} {fs1 : FS}
    (hn : ∀ b ∈ p.backups, PatchNameOK b.1) (hio : (finishPc cfg range p fs1).ioError = false) :
    (finishPc cfg range p fs1).exit = (if p.k == range.length then 0 else 1) ∧
    fileAt (finishPc cfg range p fs1).fs appliedKey =
      appendView (fileAt fs1 appliedKey) (namesBytes (range.take p.k)) := by
  unfold finishPc at hio ⊢
  simp only at hio ⊢
  split
  · rename_i hx; rw [hx] at hio; cases hio
  · rename_i fs2 h2
    rw [h2] at hio
    simp only at hio
    have e2 : fileAt fs2 appliedKey = fileAt fs1 appliedKey := by
      split at h2
      · refine putBackups_applied _ ?_ _ _ h2
        intro b hb
        apply hn b
        split at hb
        · exact hb
        · exact List.mem_of_mem_drop hb
      · cases h2; rfl
    split
    · rename_i hy; rw [hy] at hio; cases hio
    · rename_i fs3 h3
      rw [h3] at hio
      simp only at hio
      have e3 := createDirAll_fileAt h3 appliedKey
      split
      · rename_i hz; rw [hz] at hio; cases hio
      · rename_i fs4 h4
        refine ⟨rfl, ?_⟩
        simp only
        rw [appendFile_fileAt_self h4, e3, e2]
        rfl

theorem finishPc_exit0 {cfg : Cfg} {range : List Series.Entry} {p : Progress} {fs1 : FS}
    (h : (finishPc cfg range p fs1).exit = 0) :
    (finishPc cfg range p fs1).ioError = false ∧ p.k = range.length := by
  unfold finishPc at h ⊢
  simp only at h ⊢
  split
  · rename_i hx; rw [hx] at h; cases h
  · rename_i fs2 h2
    rw [h2] at h
    simp only at h ⊢
    split
    · rename_i hy; rw [hy] at h; cases h
    · rename_i fs3 h3
      rw [h3] at h
      simp only at h ⊢
      split
      · rename_i hz; rw [hz] at h; cases h
      · rename_i fs4 h4
        rw [h4] at h
        simp only at h
        refine ⟨rfl, ?_⟩
        by_cases hk : p.k = range.length
        · exact hk
        · simp [hk] at h

end RQ.Compose
