import RQ.Lemmas.Refine
import RQ.Lemmas.SaveFlush
import RQ.Lemmas.PathAlias
import RQ.Props.C01
/-!
# C05 end to end: the tree on disk after a push is the abstract tree after the first `k` patches

Joins the two halves of C05:

* the application phase (`RQ/Lemmas/Refine.lean`, `applyLoop_sim`): the cache `st.mem` the sequential driver ends
  with stands for the same overlay tree as the patch-by-patch specification `Abs.applyRange`;
* the save phase (`RQ/Lemmas/SaveFlush.lean`, `applyPatches_tree`): the disk after `applyPatches` is
  `Flush.flushView st.mem w.fs` at every path that is neither a reject file nor below `.pc`.

The glue is about *names*: `Abs.look` finds a cache entry by the components of the name (`Path ==`), `flushView`
finds it by the disk path (`safeKey`).  The two agree because every name that reaches the cache went through
`FilePatch::strip`, which leaves no `.` component (`cur_not_mem_stripPath`), and a safe name without `.`
components is determined by its disk path (`safeKey_components_of_no_cur`).

(A) `parsePatch_stripped`, `parsePatch_noCur`;  invariant `MemNoCur`/`MemDistinct` through `applyLoop`
(B) `keysDistinct_of_good`
(C) `flushView_look`
(D) `C05_tree_on_disk'` (restated as `RQ.Abs.C05_tree_on_disk` in `RQ/Props/C05.lean`)
-/
namespace RQ.Disk
open RQ RQ.Parse RQ.Write RQ.Push

/-! ## (A) names that reach the cache are stripped names -/

/-- both names of the file patch are results of `stripPath strip` -/
def Stripped (strip : Nat) (fp : PFilePatch) : Prop :=
  ∀ n, fp.old = some n ∨ fp.new = some n → ∃ raw, n = stripPath strip raw

theorem stripFP_stripped (strip : Nat) (fp : PFilePatch) : Stripped strip (stripFP strip fp) := by
  intro n h
  unfold stripFP at h
  simp only [Option.map_eq_some_iff] at h
  rcases h with ⟨raw, _, rfl⟩ | ⟨raw, _, rfl⟩ <;> exact ⟨raw, rfl⟩

theorem patchLoop_stripped (strip : Nat) : ∀ (fuel : Nat) (inp : Bytes) (wants : Bool) (header : Bytes)
    (acc : List PFilePatch) (patch : Patch), (∀ fp ∈ acc, Stripped strip fp) →
    patchLoop strip fuel inp wants header acc = .ok patch → ∀ fp ∈ patch.fps, Stripped strip fp := by
  intro fuel
  induction fuel with
  | zero =>
    intro inp wants header acc patch _ h
    unfold patchLoop at h
    cases h
  | succ fuel ih =>
    intro inp wants header acc patch hacc h
    unfold patchLoop at h
    split at h
    · cases h
      exact hacc
    · cases h
    · refine ih _ _ _ _ patch ?_ h
      intro fp hfp
      rw [List.mem_append] at hfp
      rcases hfp with hfp | hfp
      · exact hacc fp hfp
      · simp only [List.mem_singleton] at hfp
        subst hfp
        exact stripFP_stripped strip _

/-- **(A)** every name of every file patch `parsePatch` returns is a stripped name -/
theorem parsePatch_stripped {bytes : Bytes} {strip : Nat} {wh : Bool} {patch : Patch}
    (h : parsePatch bytes strip wh = .ok patch) :
    ∀ fp ∈ patch.fps, ∀ n, fp.old = some n ∨ fp.new = some n → ∃ raw, n = stripPath strip raw :=
  patchLoop_stripped strip _ _ _ _ _ patch (fun _ hfp => by cases hfp) h

/-- neither name of the file patch has a `.` component -/
def FPNoCur (fp : PFilePatch) : Prop :=
  ∀ n, fp.old = some n ∨ fp.new = some n → Comp.cur ∉ components n

theorem parsePatch_noCur {bytes : Bytes} {strip : Nat} {wh : Bool} {patch : Patch}
    (h : parsePatch bytes strip wh = .ok patch) : ∀ fp ∈ patch.fps, FPNoCur fp := by
  intro fp hfp n hn
  obtain ⟨raw, rfl⟩ := parsePatch_stripped h fp hfp n hn
  exact cur_not_mem_stripPath strip raw

/-! ## the invariant of the cache -/

/-- every cache entry is keyed by the components of its name, and the name has no `.` component -/
def MemNoCur (m : Mem) : Prop := ∀ e ∈ m, e.1 = components e.2.1 ∧ Comp.cur ∉ e.1

/-- the component keys of the cache entries are pairwise different -/
def MemDistinct (m : Mem) : Prop := m.Pairwise (fun a b => a.1 ≠ b.1)

structure MemGood (m : Mem) : Prop where
  nocur : MemNoCur m
  distinct : MemDistinct m

theorem memGood_nil : MemGood [] := ⟨fun _ he => (by cases he), List.Pairwise.nil⟩

theorem MemNoCur.put {m : Mem} {name : Bytes} {f : FileSt Bytes} (h : MemNoCur m)
    (hn : Comp.cur ∉ components name ∨ m.any (fun e => e.1 == components name) = true) :
    MemNoCur (m.put name f) := by
  unfold Mem.put
  split
  · intro e he
    rw [List.mem_map] at he
    obtain ⟨e0, he0, rfl⟩ := he
    split
    · exact h e0 he0
    · exact h e0 he0
  · rename_i hany
    rcases hn with hn | hn
    · intro e he
      rw [List.mem_append] at he
      rcases he with he | he
      · exact h e he
      · simp only [List.mem_singleton] at he
        subst he
        exact ⟨rfl, hn⟩
    · exact absurd hn hany

/-- `Mem.put` never creates a second entry with the same key -/
theorem MemDistinct.put {m : Mem} (name : Bytes) (f : FileSt Bytes) (h : MemDistinct m) :
    MemDistinct (m.put name f) := by
  unfold Mem.put
  split
  · unfold MemDistinct
    refine List.Pairwise.map _ ?_ h
    intro a b hab
    have e1 : ∀ e : List Comp × Bytes × FileSt Bytes,
        (if (e.1 == components name) = true then (e.1, e.2.1, f) else e).1 = e.1 := by
      intro e; split <;> rfl
    rw [e1 a, e1 b]
    exact hab
  · rename_i hany
    unfold MemDistinct
    rw [List.pairwise_append]
    refine ⟨h, List.pairwise_singleton _ _, ?_⟩
    intro a ha b hb
    simp only [List.mem_singleton] at hb
    subst hb
    intro hab
    apply hany
    rw [List.any_eq_true]
    exact ⟨a, ha, by simp [hab]⟩

theorem any_of_get {m : Mem} {name : Bytes} {f : FileSt Bytes} (hg : m.get name = some f) :
    m.any (fun e => e.1 == components name) = true := by
  unfold Mem.get at hg
  cases hfind : m.find? (fun e => e.1 == components name) with
  | none => rw [hfind] at hg; cases hg
  | some e =>
    rw [List.any_eq_true]
    have hp := List.find?_some hfind
    exact ⟨e, List.mem_of_find?_eq_some hfind, hp⟩

theorem MemGood.put {m : Mem} {name : Bytes} {f : FileSt Bytes} (h : MemGood m)
    (hn : Comp.cur ∉ components name) : MemGood (m.put name f) :=
  ⟨h.nocur.put (.inl hn), h.distinct.put name f⟩

/-- overwriting an entry that is there needs no assumption about the name used to address it -/
theorem MemGood.put_of_get {m : Mem} {name : Bytes} {f g : FileSt Bytes} (h : MemGood m)
    (hg : m.get name = some g) : MemGood (m.put name f) :=
  ⟨h.nocur.put (.inr (any_of_get hg)), h.distinct.put name f⟩

theorem getOrLoad_good {fs : FS} {m m' : Mem} {name : Bytes} {f : FileSt Bytes} (h : MemGood m)
    (hn : Comp.cur ∉ components name) (e : getOrLoad m fs name = .ok (m', f)) : MemGood m' := by
  unfold getOrLoad at e
  split at e
  · cases e
    exact h
  · split at e
    · cases e
    · split at e
      · cases e
        exact h.put hn
      · cases e
        exact h.put hn
      · cases e

theorem choose_mem {m : Mem} {fs : FS} {old new : Option Bytes} {t : Bytes}
    (h : choose m fs old new = some t) : old = some t ∨ new = some t := by
  unfold choose at h
  split at h
  · exact .inl h
  · exact .inr h
  · (repeat' split at h) <;> first | exact .inl h | exact .inr h
  · cases h

theorem applyCore_good {fs : FS} {st st' : St} {cfg : Cfg} {index : Nat} {entry : Series.Entry}
    {fp : PFilePatch} {b : Bool} (h : MemGood st.mem) (hfp : FPNoCur fp)
    (e : applyCore st fs cfg index entry fp = .ok (st', b)) : MemGood st'.mem := by
  unfold applyCore at e
  split at e
  · cases e
  · split at e
    · cases e
    · rename_i target hch
      have ht : Comp.cur ∉ components target := hfp target (choose_mem hch)
      split at e
      · cases e
      · rename_i mem file hload
        have hm := getOrLoad_good h ht hload
        simp only at e
        split at e
        · -- rename
          split at e
          · cases e
          · rename_i newName hnew
            have hnn : Comp.cur ∉ components newName := hfp newName (.inr hnew)
            simp only [moveOut] at e
            have hm1 : MemGood (mem.put target { file with content := [], deleted := true, perms := none }) :=
              hm.put ht
            split at e
            · cases e
            · rename_i mem2 newFile hload2
              have hm2 := getOrLoad_good hm1 hnn hload2
              split at e
              · split at e
                · cases e
                · split at e
                  · cases e
                    exact hm2.put ht
                  · cases e
                    exact hm2.put ht
              · split at e
                · cases e
                · cases e
                  exact hm2.put hnn
        · split at e
          · cases e
          · cases e
            exact hm.put ht

theorem applyOne_good {fs : FS} {st st' : St} {cfg : Cfg} {index : Nat} {entry : Series.Entry}
    {fp : PFilePatch} {b : Bool} (h : MemGood st.mem) (hfp : FPNoCur fp)
    (e : applyOne st fs cfg index entry fp = .ok (st', b)) : MemGood st'.mem := by
  obtain ⟨mem0, hp, hc⟩ := applyOne_ok_split e
  refine applyCore_good (st := { st with mem := mem0 }) ?_ hfp hc
  rcases preLoad_ok hp with rfl | ⟨n, f, _, hnew, hl⟩
  · exact h
  · exact getOrLoad_good h (hfp n (.inr hnew)) hl

theorem applyFilePatches_good {fs : FS} {cfg : Cfg} {index : Nat} {entry : Series.Entry}
    (fps : List PFilePatch) : ∀ {st st' : St} {a b : Bool}, MemGood st.mem → (∀ fp ∈ fps, FPNoCur fp) →
    applyFilePatches st fs cfg index entry fps a = .ok (st', b) → MemGood st'.mem := by
  induction fps with
  | nil =>
    intro st st' a b h _ e
    unfold applyFilePatches at e
    cases e; exact h
  | cons fp fps ih =>
    intro st st' a b h hfps e
    unfold applyFilePatches at e
    split at e
    · cases e
    · rename_i st1 ok h1
      exact ih (applyOne_good h (hfps fp (by simp)) h1) (fun fp' hfp' => hfps fp' (by simp [hfp'])) e

/-- undoing a file patch only overwrites entries that are there -/
theorem rollbackOne_good {m m' : Mem} {s : Status} {f : FileSt Bytes} (h : MemGood m)
    (e : rollbackOne m s = .ok (m', f)) : MemGood m' := by
  unfold rollbackOne at e
  split at e
  · cases e
  · rename_i file hget
    split at e
    · cases e
    · rename_i file' hrb
      split at e
      · simp only [moveOut] at e
        have hm1 := h.put_of_get (name := s.final)
          (f := { content := [], existed := file'.existed, deleted := ‹Bool›, perms := ‹Option Nat› }) hget
        split at e
        · cases e
        · rename_i oldFile hget2
          split at e
          · cases e
          · cases e
            exact hm1.put_of_get hget2
      · cases e
        exact h.put_of_get hget

theorem rollbackAndRenderRej_good (fuel : Nat) : ∀ {st st' : St} {idx : Nat}
    {rejs rejs' : List (Bytes × Bytes)}, MemGood st.mem →
    rollbackAndRenderRej fuel st idx rejs = .ok (st', rejs') → MemGood st'.mem := by
  induction fuel with
  | zero =>
    intro st st' idx rejs rejs' h e
    unfold rollbackAndRenderRej at e
    cases e; exact h
  | succ n ih =>
    intro st st' idx rejs rejs' h e
    unfold rollbackAndRenderRej at e
    split at e
    · cases e; exact h
    · split at e
      · cases e
      · split at e
        · cases e; exact h
        · split at e
          · cases e
          · rename_i mem _ hrb
            have hm := rollbackOne_good h hrb
            simp only at e
            split at e
            · exact ih (st := { applied := _, mem := mem }) hm e
            · exact ih (st := { applied := _, mem := mem }) hm e

/-- **(A), invariant**: the cache of the application loop only ever holds stripped names, one entry per key -/
theorem applyLoop_good {fs : FS} {cfg : Cfg} (range : List Series.Entry) : ∀ {index : Nat} {st st' : St}
    {final : Nat} {rejs : List (Bytes × Bytes)}, MemGood st.mem →
    applyLoop fs cfg range index st = .ok (st', final, rejs) → MemGood st'.mem := by
  induction range with
  | nil =>
    intro index st st' final rejs h e
    unfold applyLoop at e
    cases e; exact h
  | cons entry rest ih =>
    intro index st st' final rejs h e
    unfold applyLoop at e
    split at e
    · cases e
    · split at e
      · cases e
      · split at e
        · cases e
        · rename_i patch hparse
          split at e
          · cases e
          · rename_i st1 anyFailed happ
            have hm := applyFilePatches_good _ h (parsePatch_noCur hparse) happ
            split at e
            · split at e
              · cases e; exact hm
              · split at e
                · cases e
                · rename_i st2 rejs2 hrb
                  cases e
                  exact rollbackAndRenderRej_good _ hm hrb
            · exact ih hm e

/-! ## (B) no two cache entries are responsible for the same path -/

/-- two entries of a good cache with the same disk path have the same key -/
theorem key_eq_of_safeKey_eq {m : Mem} (h : MemNoCur m) {a b : List Comp × Bytes × FileSt Bytes}
    (ha : a ∈ m) (hb : b ∈ m) {k : Key} (hka : safeKey a.2.1 = some k) (hkb : safeKey b.2.1 = some k) :
    a.1 = b.1 := by
  obtain ⟨a1, a2⟩ := h a ha
  obtain ⟨b1, b2⟩ := h b hb
  rw [a1] at a2
  rw [b1] at b2
  rw [a1, b1, safeKey_components_of_no_cur hka a2, safeKey_components_of_no_cur hkb b2]

/-- **(B)** -/
theorem keysDistinct_of_good {m : Mem} (h : MemGood m) : Flush.KeysDistinct m := by
  unfold Flush.KeysDistinct
  refine List.Pairwise.imp_of_mem ?_ h.distinct
  intro a b ha hb hab k hka hkb
  exact hab (key_eq_of_safeKey_eq h.nocur ha hb hka hkb)

/-! ## (C) the view through `look` is the view through `flushView` -/

/-- an abstract file as a user sees it on disk: nothing, or content and permission bits -/
def viewOf (a : Abs.AFile) : Option (Bytes × Nat) :=
  if a.deleted then none else some (bytesOf a.content, Flush.modeOf a.perms)

theorem find?_congr' {α : Type} {p q : α → Bool} : ∀ {l : List α}, (∀ x ∈ l, p x = q x) →
    l.find? p = l.find? q
  | [], _ => rfl
  | x :: l, h => by
    simp only [List.find?_cons, h x (by simp)]
    rw [find?_congr' (fun y hy => h y (by simp [hy]))]

/-- for a name without `.` components, "has the components of `name`" and "is responsible for the path of
`name`" select the same cache entries -/
theorem entryFor_eq_find {mem : Mem} {name : Bytes} {key : Key} (hm : MemNoCur mem)
    (hc : Comp.cur ∉ components name) (hk : safeKey name = some key) :
    Flush.entryFor mem key = mem.find? (fun e => e.1 == components name) := by
  unfold Flush.entryFor
  apply find?_congr'
  intro e he
  obtain ⟨e1, e2⟩ := hm e he
  rw [e1] at e2
  by_cases hcomp : e.1 = components name
  · have : safeKey e.2.1 = some key := by
      rw [← hk]
      exact Abs.safeKey_congr (e1.symm.trans hcomp)
    simp [hcomp, this]
  · have : safeKey e.2.1 ≠ some key := by
      intro hke
      apply hcomp
      rw [e1, safeKey_components_of_no_cur hke e2, safeKey_components_of_no_cur hk hc]
    have h1 : (e.1 == components name) = false := beq_eq_false_iff_ne.mpr hcomp
    have h2 : (safeKey e.2.1 == some key) = false := beq_eq_false_iff_ne.mpr this
    rw [h1, h2]

theorem readFile_ok_fileAt {fs : FS} {k : Key} {c : Bytes} {mode : Nat} (h : fs.readFile k = .ok (c, mode)) :
    Flush.fileAt fs k = some (c, mode % 4096) := by
  unfold FS.readFile at h
  unfold Flush.fileAt
  split at h
  · cases h
  · split at h
    · rename_i c0 m0 i0 hl
      cases h
      rw [hl]
      simp only [Option.some.injEq, Prod.mk.injEq, true_and]
      omega
    · cases h
    · split at h <;> cases h

theorem readFile_notFound_fileAt {fs : FS} {k : Key} (h : fs.readFile k = .error .notFound) :
    Flush.fileAt fs k = none := by
  unfold Flush.fileAt
  rw [FS.readFile_notFound h]

/-- **(C)** -/
theorem flushView_look {mem : Mem} {fs : FS} {name : Bytes} {key : Key} {a : Abs.AFile}
    (hc : Comp.cur ∉ components name) (hk : safeKey name = some key) (hm : MemNoCur mem)
    (hl : Abs.look (Abs.ofMem mem) fs name = .ok a) : Flush.flushView mem fs key = viewOf a := by
  rw [Abs.look_ofMem] at hl
  unfold Flush.flushView
  rw [entryFor_eq_find hm hc hk]
  unfold Mem.get at hl
  cases hfind : mem.find? (fun e => e.1 == components name) with
  | some e =>
    rw [hfind] at hl
    simp only [Option.map_some] at hl
    cases hl
    rfl
  | none =>
    rw [hfind] at hl
    simp only [Option.map_none] at hl
    unfold Spec.loadTree at hl
    rw [hk] at hl
    simp only at hl
    cases hr : fs.readFile key with
    | ok r =>
      obtain ⟨c, mode⟩ := r
      rw [hr] at hl
      cases hl
      rw [readFile_ok_fileAt hr]
      simp only [viewOf, Abs.absOf, Bool.false_eq_true, if_false, Flush.modeOf, C01_lines_roundtrip]
    | error er =>
      rw [hr] at hl
      cases er with
      | notFound =>
        cases hl
        rw [readFile_notFound_fileAt hr]
        rfl
      | other => cases hl

/-! ## (D) the main theorem -/

/-- the application-phase half (`Abs.C05_apply_refines`, restated here because `RQ/Props/C05.lean` imports
this file) -/
theorem apply_refines (fs : FS) (cfg : Cfg) (range : List Series.Entry) :
    match applyLoop fs cfg range 0 {}, Abs.applyRange fs cfg range 0 [] with
    | .ok (st, k, rejs), .ok (t, k', rejs') =>
        k = k' ∧ rejs = rejs' ∧ (cfg.dryRun = false → Abs.SameTree fs (Abs.ofMem st.mem) t)
    | .error e, .error e' => e = e'
    | _, _ => False :=
  Abs.applyLoop_sim fs cfg range 0 {} [] (Abs.SameTree.refl fs _) Abs.memDE_nil (fun s hs => by cases hs)

/-- **C05, end to end**: whenever the model of the sequential driver finishes without an I/O error, the file
found on disk under every (non-reject, non-`.pc`) name is exactly the file the abstract patch-by-patch
specification has under that name after the first `k` patches — `k` being the number `applyPatches` returns,
which `pushRange` records in `.pc/applied-patches`. -/
theorem C05_tree_on_disk' (w w' : World) (cfg : Cfg) (range : List Series.Entry) (k : Nat)
    (hf : w.faultAt = none) (hdry : cfg.dryRun = false)
    (h : applyPatches w cfg range = .ok (w', k)) :
    ∃ t rejs, Abs.applyRange w.fs cfg range 0 [] = .ok (t, k, rejs) ∧
      ∀ name key a, Comp.cur ∉ components name → safeKey name = some key →
        ¬ Flush.isRejKey rejs key → ¬ Flush.isPcKey key →
        Abs.look t w.fs name = .ok a → Flush.fileAt w'.fs key = viewOf a := by
  cases hloop : applyLoop w.fs cfg range 0 {} with
  | error e =>
    unfold applyPatches at h
    rw [hloop] at h
    cases h
  | ok r =>
    obtain ⟨st, final, rejs⟩ := r
    have href := apply_refines w.fs cfg range
    rw [hloop] at href
    cases hspec : Abs.applyRange w.fs cfg range 0 [] with
    | error e =>
      rw [hspec] at href
      exact href.elim
    | ok r' =>
      obtain ⟨t, k', rejs'⟩ := r'
      rw [hspec] at href
      obtain ⟨hk, hrejs, hsame⟩ := href
      subst hk hrejs
      have hgood : MemGood st.mem := applyLoop_good range memGood_nil hloop
      obtain ⟨hkf, htree⟩ := Flush.applyPatches_tree w w' cfg range st final k rejs hf hdry hloop
        (keysDistinct_of_good hgood) h
      subst hkf
      refine ⟨t, rejs, rfl, ?_⟩
      intro name key a hc hkey hnr hnp hlook
      rw [htree key hnr hnp]
      rw [← hsame hdry name] at hlook
      exact flushView_look hc hkey hgood.nocur hlook

end RQ.Disk

namespace RQ.Disk
open RQ RQ.Push

#print axioms parsePatch_stripped
#print axioms applyLoop_good
#print axioms keysDistinct_of_good
#print axioms flushView_look
#print axioms C05_tree_on_disk'

/-! ## Non-vacuity: a tiny concrete push

Working directory: a file `a` containing `x\n`, and `patches/p` = a one-hunk patch turning `x` into `y`.
`applyPatches` succeeds with `k = 1` (so the hypotheses of `C05_tree_on_disk'` are satisfiable), the abstract
specification has `a` = `y\n` after that patch, and the disk agrees — as the theorem says it must. -/
namespace Example

/-- `--- a\n+++ a\n@@ -1 +1 @@\n-x\n+y\n` -/
def patchBytes : Bytes :=
  [45, 45, 45, 32, 97, 10, 43, 43, 43, 32, 97, 10, 64, 64, 32, 45, 49, 32, 43, 49, 32, 64, 64, 10, 45, 120, 10, 43, 121, 10]

def fs0 : FS :=
  { nodes := [([[97]], .file [120, 10] 0o644 1), ([[112, 97, 116, 99, 104, 101, 115]], .dir),
      ([[112, 97, 116, 99, 104, 101, 115], [112]], .file patchBytes 0o644 2)], nextIno := 3 }
def w0 : World := { fs := fs0 }
def cfg0 : Cfg := {}
def range0 : List Series.Entry := [{ name := [112], strip := 0, reverse := false }]

theorem run0 : (match applyPatches w0 cfg0 range0 with
    | .ok (w', k) => k == 1 && Flush.fileAt w'.fs [[97]] == some ([121, 10], 0o644)
    | .error _ => false) = true := by decide

theorem spec0 : (match Abs.applyRange w0.fs cfg0 range0 0 [] with
    | .ok (t, k, rejs) => k == 1 && rejs == [] &&
        (match Abs.look t w0.fs [97] with | .ok a => viewOf a == some ([121, 10], 0o644) | .error _ => false)
    | .error _ => false) = true := by decide

/-- the hypotheses of `C05_tree_on_disk'` hold for this world, and its conclusion at the name `a` is the
non-trivial statement "the disk holds `y\n` with mode 644" -/
example : ∃ w' k, applyPatches w0 cfg0 range0 = .ok (w', k) ∧ w0.faultAt = none ∧ cfg0.dryRun = false ∧
    k = 1 ∧ Flush.fileAt w'.fs [[97]] = some ([121, 10], 0o644) ∧
    ∃ t rejs a, Abs.applyRange w0.fs cfg0 range0 0 [] = .ok (t, k, rejs) ∧
      Comp.cur ∉ components [97] ∧ safeKey [97] = some [[97]] ∧
      ¬ Flush.isRejKey rejs [[97]] ∧ ¬ Flush.isPcKey [[97]] ∧
      Abs.look t w0.fs [97] = .ok a ∧ Flush.fileAt w'.fs [[97]] = viewOf a := by
  have h := run0
  cases hr : applyPatches w0 cfg0 range0 with
  | error e => rw [hr] at h; cases h
  | ok r =>
    obtain ⟨w', k⟩ := r
    rw [hr] at h
    simp only [Bool.and_eq_true, beq_iff_eq] at h
    obtain ⟨hk, hfile⟩ := h
    subst hk
    refine ⟨w', 1, rfl, rfl, rfl, rfl, hfile, ?_⟩
    obtain ⟨t, rejs, hspec, hall⟩ := C05_tree_on_disk' w0 w' cfg0 range0 1 rfl rfl hr
    have hs := spec0
    rw [hspec] at hs
    simp only [Bool.and_eq_true, beq_iff_eq] at hs
    obtain ⟨⟨_, hrejs⟩, hlook⟩ := hs
    subst hrejs
    cases hl : Abs.look t w0.fs [97] with
    | error e => rw [hl] at hlook; cases hlook
    | ok a =>
      have hnr : ¬ Flush.isRejKey [] [[97]] := fun ⟨r, hr, _⟩ => by cases hr
      have hnp : ¬ Flush.isPcKey [[97]] := by unfold Flush.isPcKey; decide
      exact ⟨t, [], a, hspec, by decide, by decide, hnr, hnp, hl,
        hall [97] [[97]] a (by decide) (by decide) hnr hnp hl⟩

end Example

end RQ.Disk
