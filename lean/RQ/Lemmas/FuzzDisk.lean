import RQ.Props.C20
import RQ.Lemmas.Compose2
/-!
# Raising the fuzz limit (C20): the executable specification and the model of the driver

`RQ/Props/C20.lean` proves that a file patch all of whose hunks applied with the limit `F` gives the same file with
every `F' ≥ F` (`C20_file`).  Here that is lifted

* to the executable specification, function by function (`applyFPTree`, `applyPatchTree`, `applyRangeTree`): a step
  that succeeded returns the *identical* result record with the larger limit (reject files and backup pre-states
  included: they do not look at the hunk reports of a patch that applied);
* to the model of the sequential driver (`applyOne`, `applyFilePatches`, `applyLoop`, then the save phase): the two
  runs build the same cache `Mem`; the stacks of applied file patches differ only in the hunk reports, and only in a
  way `FilePatch.rollback` does not see (`RSim`), so even the backups taken by rolling back are the same.
-/
set_option linter.unusedSectionVars false
set_option linter.unusedVariables false
namespace RQ.Fuzz
open RQ RQ.Push RQ.Spec RQ.Parse RQ.Write RQ.Compose

/-! ## Part A: the executable specification -/

/-- one file patch on the tree itself: a successful step is unchanged by a larger fuzz limit -/
theorem applyFPTree_fuzz_mono (fs : FS) (cfg : Cfg) (F' : Nat) (hF : cfg.fuzz ≤ F') (entry : Series.Entry)
    (fp : PFilePatch) (r : FPResult) (h : applyFPTree fs cfg entry fp = .ok r) (hok : r.ok = true) :
    applyFPTree fs { cfg with fuzz := F' } entry fp = .ok r := by
  unfold applyFPTree at h ⊢
  split at h
  · cases h
  · rename_i hn
    rw [if_neg hn]
    split at h
    · cases h
    · rename_i target htg
      try simp only []
      split at h
      · cases h
      · rename_i file hload
        try simp only [] at h ⊢
        split at h
        · rename_i hren
          rw [if_pos hren]
          split at h
          · cases h
          · rename_i newName hnew
            split at h
            · cases h
            · rename_i newFile hload2
              try simp only [] at h ⊢
              split at h
              · rename_i hself
                rw [if_pos hself]
                split at h
                · cases h
                · rename_i f' rep happ
                  split at h
                  · cases h
                  · rename_i fs' hst
                    split at h
                    · rename_i hrok
                      obtain ⟨rep', happ', hok', _⟩ := C20_file fp _ cfg.fuzz F' _ f' rep hF happ hrok
                      simp only [happ', hst, hok', if_true]
                      exact h
                    · simp only [Except.ok.injEq] at h
                      subst h
                      cases hok
              · rename_i hself
                rw [if_neg hself]
                split at h
                · simp only [Except.ok.injEq] at h
                  subst h
                  cases hok
                · rename_i hcond
                  rw [if_neg hcond]
                  split at h
                  · cases h
                  · rename_i f' rep happ
                    split at h
                    · cases h
                    · rename_i fs1 hst1
                      split at h
                      · cases h
                      · rename_i fs2 hst2
                        split at h
                        · rename_i hrok
                          obtain ⟨rep', happ', hok', _⟩ := C20_file fp _ cfg.fuzz F' _ f' rep hF happ hrok
                          simp only [happ', hst2, hok', if_true]
                          exact h
                        · simp only [Except.ok.injEq] at h
                          subst h
                          cases hok
        · rename_i hren
          rw [if_neg hren]
          split at h
          · cases h
          · rename_i f' rep happ
            split at h
            · rename_i hrok
              obtain ⟨rep', happ', hok', _⟩ := C20_file fp _ cfg.fuzz F' _ f' rep hF happ hrok
              simp only [happ', hok', if_true]
              exact h
            · split at h
              · cases h
              · simp only [Except.ok.injEq] at h
                subst h
                cases hok

/-- the flag `ok` of `applyPatchTree` only ever goes from `true` to `false` -/
theorem applyPatchTree_ok_true (cfg : Cfg) (entry : Series.Entry) :
    ∀ (fps : List PFilePatch) (acc r : PatchResult), applyPatchTree cfg entry fps acc = .ok r → r.ok = true →
      acc.ok = true := by
  intro fps
  induction fps with
  | nil =>
    intro acc r h hok
    unfold applyPatchTree at h
    cases h
    exact hok
  | cons fp fps ih =>
    intro acc r h hok
    unfold applyPatchTree at h
    split at h
    · cases h
    · have := ih _ _ h hok
      simp only [Bool.and_eq_true] at this
      exact this.1

/-- all file patches of a patch: a patch that applied completely gives the identical result record -/
theorem applyPatchTree_fuzz_mono (cfg : Cfg) (F' : Nat) (hF : cfg.fuzz ≤ F') (entry : Series.Entry) :
    ∀ (fps : List PFilePatch) (acc r : PatchResult), applyPatchTree cfg entry fps acc = .ok r → r.ok = true →
      applyPatchTree { cfg with fuzz := F' } entry fps acc = .ok r := by
  intro fps
  induction fps with
  | nil =>
    intro acc r h _
    unfold applyPatchTree at h ⊢
    exact h
  | cons fp fps ih =>
    intro acc r h hok
    unfold applyPatchTree at h ⊢
    split at h
    · cases h
    · rename_i r1 hr1
      have hand := applyPatchTree_ok_true cfg entry _ _ _ h hok
      simp only [Bool.and_eq_true] at hand
      rw [applyFPTree_fuzz_mono acc.fs cfg F' hF entry fp r1 hr1 hand.2]
      exact ih _ _ h hok

theorem patchOf_fuzz (fs : FS) (cfg : Cfg) (F' : Nat) (entry : Series.Entry) :
    Agree.patchOf fs { cfg with fuzz := F' } entry = Agree.patchOf fs cfg entry := rfl

/-- the range: if all of it applied, the progress record is identical with a larger fuzz limit -/
theorem applyRangeTree_fuzz_mono (cfg : Cfg) (F' : Nat) (hF : cfg.fuzz ≤ F') (orig : FS) :
    ∀ (range : List Series.Entry) (p p' : Progress), applyRangeTree cfg orig range p = .ok p' →
      p'.k = p.k + range.length → applyRangeTree { cfg with fuzz := F' } orig range p = .ok p' := by
  intro range
  induction range with
  | nil =>
    intro p p' h _
    unfold applyRangeTree at h ⊢
    exact h
  | cons entry rest ih =>
    intro p p' h hk
    rw [Agree.applyRangeTree_cons] at h ⊢
    rw [patchOf_fuzz]
    split at h
    · cases h
    · rename_i patch hp
      split at h
      · cases h
      · rename_i r hr
        split at h
        · rename_i hrok
          rw [applyPatchTree_fuzz_mono cfg F' hF entry _ _ _ hr hrok]
          simp only [hrok, if_true]
          apply ih _ _ h
          simp only [List.length_cons] at hk ⊢
          omega
        · simp only [Except.ok.injEq] at h
          subst h
          simp only [List.length_cons] at hk
          omega

/-! ## Part B: the model of the sequential driver -/

/-- two reports of the same file patch that `FilePatch.rollback` cannot tell apart: everything agrees but the fuzz
recorded; for patches that create or delete a file the one hunk report may differ too, as long as it did not fail -/
structure RSim (k : Kind) (r r' : Report) : Prop where
  dir : r'.dir = r.dir
  perms : r'.prevPerms = r.prevPerms
  del : r'.prevDeleted = r.prevDeleted
  len : r'.reps.length = r.reps.length
  modify : k = .modify → r'.reps = r.reps
  pf : prevFailed (.rollback r') = prevFailed (.rollback r)

theorem RSim.refl (k : Kind) (r : Report) : RSim k r r := ⟨rfl, rfl, rfl, rfl, fun _ => rfl, rfl⟩

theorem applyKind_rollback_sim (fp : PFilePatch) (d : Dir) (r r' : Report) (f : FileSt Bytes)
    (hm : fp.kind = .modify → r'.reps = r.reps) (hpf : prevFailed (.rollback r') = prevFailed (.rollback r)) :
    applyKind fp d 0 (.rollback r') f = applyKind fp d 0 (.rollback r) f := by
  unfold applyKind
  cases hk : fp.kind with
  | modify => simp only [applyModify, hm hk]
  | create =>
    cases d <;> (split <;> first | rfl | simp only [applyCreate, applyDelete, hpf] | (rename_i heq; cases heq))
  | delete =>
    cases d <;> (split <;> first | rfl | simp only [applyCreate, applyDelete, hpf] | (rename_i heq; cases heq))

/-- rolling back does not see the difference -/
theorem rollback_sim (fp : PFilePatch) (r r' : Report) (h : RSim fp.kind r r') (f : FileSt Bytes) :
    fp.rollback r'.dir r' f = fp.rollback r.dir r f := by
  unfold FilePatch.rollback applyInternal
  rw [h.dir, h.len, applyKind_rollback_sim fp r.dir.opp r r' f h.modify h.pf]
  simp only [h.perms, h.del]

theorem prevFailed_of_ok (r : Report) (h : r.ok = true) : prevFailed (.rollback r) = false := by
  unfold prevFailed
  cases hr : r.reps with
  | nil => simp only [hr]
  | cons x xs =>
    simp only [Report.ok, Report.failed, hr, List.any_cons, Bool.not_eq_true', Bool.or_eq_false_iff] at h
    simp only [hr]
    exact h.1

theorem applyKind_shape (fp : PFilePatch) (d : Dir) (F : Nat) (f g : FileSt Bytes) (r : Report)
    (h : applyKind fp d F .normal f = some (g, r)) : r.dir = d ∧ (fp.kind ≠ .modify → r.reps.length = 1) := by
  unfold applyKind at h
  split at h
  · rename_i hk
    simp only [applyModify] at h
    split at h
    · cases h
    · simp only [Option.some.injEq, Prod.mk.injEq] at h
      obtain ⟨_, rfl⟩ := h
      exact ⟨rfl, fun hne => absurd hk hne⟩
  all_goals first
    | cases h
    | (simp only [applyCreate, applyDelete, prevFailed, Bool.false_eq_true, if_false, Option.some.injEq] at h
       refine ⟨?_, fun _ => ?_⟩ <;> (repeat' split at h) <;> (cases h; rfl))

/-- what `apply` records besides the hunk reports -/
theorem apply_shape (fp : PFilePatch) (d : Dir) (F : Nat) (f f' : FileSt Bytes) (rep : Report)
    (h : fp.apply d F f = some (f', rep)) :
    rep.dir = d ∧ rep.prevPerms = f.perms ∧ rep.prevDeleted = f.deleted ∧
      (fp.kind ≠ .modify → rep.reps.length = 1) := by
  unfold FilePatch.apply applyInternal at h
  cases hk : applyKind fp d F .normal f with
  | none => simp [hk] at h
  | some res =>
    obtain ⟨g, r⟩ := res
    obtain ⟨h1, h2⟩ := applyKind_shape fp d F f g r hk
    simp only [hk] at h
    split at h <;> simp only [Option.some.injEq, Prod.mk.injEq] at h <;> obtain ⟨_, rfl⟩ := h <;>
      exact ⟨h1, rfl, rfl, h2⟩

/-- **C20 (file patch), with the report**: the report obtained with the larger limit is one rolling back cannot tell
from the original one -/
theorem apply_fuzz_sim (fp : PFilePatch) (d : Dir) (F F' : Nat) (f f' : FileSt Bytes) (rep : Report) (hF : F ≤ F')
    (h : fp.apply d F f = some (f', rep)) (hok : rep.ok = true) :
    ∃ rep', fp.apply d F' f = some (f', rep') ∧ rep'.ok = true ∧ RSim fp.kind rep rep' := by
  obtain ⟨rep', h', hok', hm⟩ := C20_file fp d F F' f f' rep hF h hok
  obtain ⟨a1, a2, a3, a4⟩ := apply_shape fp d F f f' rep h
  obtain ⟨b1, b2, b3, b4⟩ := apply_shape fp d F' f f' rep' h'
  refine ⟨rep', h', hok', ⟨by rw [a1, b1], by rw [a2, b2], by rw [a3, b3], ?_, hm, ?_⟩⟩
  · by_cases hk : fp.kind = .modify
    · rw [hm hk]
    · rw [a4 hk, b4 hk]
  · rw [prevFailed_of_ok rep hok, prevFailed_of_ok rep' hok']

/-- two entries of the stack of applied file patches that differ in the report only, invisibly to `rollback` -/
structure SSim (s s' : Status) : Prop where
  index : s'.index = s.index
  fp : s'.fp = s.fp
  target : s'.target = s.target
  final : s'.final = s.final
  patchName : s'.patchName = s.patchName
  beforeRename : s'.beforeRename = s.beforeRename
  report : RSim s.fp.kind s.report s'.report

inductive ASim : List Status → List Status → Prop
  | nil : ASim [] []
  | cons {s s' : Status} {ss ss' : List Status} : SSim s s' → ASim ss ss' → ASim (s :: ss) (s' :: ss')

/-- the states of the two runs: the same cache, similar stacks -/
structure StSim (st st' : St) : Prop where
  mem : st'.mem = st.mem
  applied : ASim st.applied st'.applied

theorem StSim.init : StSim {} {} := ⟨rfl, .nil⟩

/-- `apply_one_file_patch`: a step that applied all its hunks does so with the larger limit, from a similar state to
a similar state -/
theorem applyOne_sim (fs : FS) (cfg : Cfg) (F' : Nat) (hF : cfg.fuzz ≤ F') (index : Nat) (entry : Series.Entry)
    (fp : PFilePatch) (st st' st1 : St) (hs : StSim st st')
    (h : applyOne st fs cfg index entry fp = .ok (st1, true)) :
    ∃ st1', applyOne st' fs { cfg with fuzz := F' } index entry fp = .ok (st1', true) ∧ StSim st1 st1' := by
  unfold applyOne at h ⊢
  rw [hs.mem]
  split at h
  · cases h
  · rename_i hn
    rw [if_neg hn]
    simp only [] at h ⊢
    split at h
    · cases h
    · rename_i mem0 hpre
      split at h
      · cases h
      · rename_i target htg
        split at h
        · cases h
        · rename_i mem file hload
          split at h
          · rename_i hren
            rw [if_pos hren]
            split at h
            · cases h
            · rename_i newName hnew
              split at h
              · cases h
              · rename_i mem2 newFile hload2
                split at h
                · -- refused: nothing applied, the flag is `false`
                  split at h
                  · cases h
                  · split at h <;> cases h
                · rename_i moved hmoved
                  split at h
                  · cases h
                  · rename_i f' rep happ
                    simp only [Except.ok.injEq, Prod.mk.injEq] at h
                    obtain ⟨rfl, hrok⟩ := h
                    obtain ⟨rep', happ', hok', hsim⟩ := apply_fuzz_sim fp _ cfg.fuzz F' _ f' rep hF happ hrok
                    simp only [happ', hok']
                    exact ⟨_, rfl, ⟨rfl, .cons ⟨rfl, rfl, rfl, rfl, rfl, rfl, hsim⟩ hs.applied⟩⟩
          · rename_i hren
            rw [if_neg hren]
            split at h
            · cases h
            · rename_i f' rep happ
              simp only [Except.ok.injEq, Prod.mk.injEq] at h
              obtain ⟨rfl, hrok⟩ := h
              obtain ⟨rep', happ', hok', hsim⟩ := apply_fuzz_sim fp _ cfg.fuzz F' _ f' rep hF happ hrok
              simp only [happ', hok']
              exact ⟨_, rfl, ⟨rfl, .cons ⟨rfl, rfl, rfl, rfl, rfl, rfl, hsim⟩ hs.applied⟩⟩

/-- the flag `anyFailed` of `applyFilePatches` only ever goes from `false` to `true` -/
theorem applyFilePatches_false (fs : FS) (cfg : Cfg) (index : Nat) (entry : Series.Entry) :
    ∀ (fps : List PFilePatch) (st st1 : St) (af : Bool),
      applyFilePatches st fs cfg index entry fps af = .ok (st1, false) → af = false := by
  intro fps
  induction fps with
  | nil =>
    intro st st1 af h
    simp only [applyFilePatches, Except.ok.injEq, Prod.mk.injEq] at h
    exact h.2
  | cons fp fps ih =>
    intro st st1 af h
    simp only [applyFilePatches] at h
    split at h
    · cases h
    · have := ih _ _ _ h
      simp only [Bool.or_eq_false_iff] at this
      exact this.1

theorem applyFilePatches_sim (fs : FS) (cfg : Cfg) (F' : Nat) (hF : cfg.fuzz ≤ F') (index : Nat)
    (entry : Series.Entry) : ∀ (fps : List PFilePatch) (st st' st1 : St), StSim st st' →
      applyFilePatches st fs cfg index entry fps false = .ok (st1, false) →
      ∃ st1', applyFilePatches st' fs { cfg with fuzz := F' } index entry fps false = .ok (st1', false) ∧
        StSim st1 st1' := by
  intro fps
  induction fps with
  | nil =>
    intro st st' st1 hs h
    simp only [applyFilePatches, Except.ok.injEq, Prod.mk.injEq] at h
    obtain ⟨rfl, _⟩ := h
    exact ⟨st', rfl, hs⟩
  | cons fp fps ih =>
    intro st st' st1 hs h
    simp only [applyFilePatches] at h ⊢
    split at h
    · cases h
    · rename_i st2 ok hone
      have haf := applyFilePatches_false fs cfg index entry _ _ _ _ h
      simp only [Bool.false_or, Bool.not_eq_false'] at haf
      subst haf
      obtain ⟨st2', hone', hs2⟩ := applyOne_sim fs cfg F' hF index entry fp st st' st2 hs hone
      rw [hone']
      exact ih _ _ _ hs2 h

/-- the loop of `apply_patches`: if the whole range applied, it does so with the larger limit, with the same cache -/
theorem applyLoop_sim (fs : FS) (cfg : Cfg) (F' : Nat) (hF : cfg.fuzz ≤ F') :
    ∀ (range : List Series.Entry) (index : Nat) (st st' st1 : St) (final : Nat) (rejs : List (Bytes × Bytes)),
      StSim st st' → applyLoop fs cfg range index st = .ok (st1, final, rejs) → final = index + range.length →
      ∃ st1', applyLoop fs { cfg with fuzz := F' } range index st' = .ok (st1', final, rejs) ∧ StSim st1 st1' := by
  intro range
  induction range with
  | nil =>
    intro index st st' st1 final rejs hs h _
    simp only [applyLoop, Except.ok.injEq, Prod.mk.injEq] at h ⊢
    obtain ⟨rfl, rfl, rfl⟩ := h
    exact ⟨st', ⟨rfl, rfl, rfl⟩, hs⟩
  | cons entry rest ih =>
    intro index st st' st1 final rejs hs h hfin
    unfold applyLoop at h ⊢
    have hpk : patchKey { cfg with fuzz := F' } entry.name = patchKey cfg entry.name := rfl
    rw [hpk]
    split at h
    · cases h
    · rename_i pk hk
      split at h
      · cases h
      · rename_i bytes m hr
        split at h
        · cases h
        · rename_i patch hp
          split at h
          · cases h
          · rename_i st2 af happ
            split at h
            · -- a patch failed: the loop ends with `final = index`
              exfalso
              simp only [List.length_cons] at hfin
              split at h
              · cases h; omega
              · split at h
                · cases h
                · cases h; omega
            · rename_i haf
              have haf' : af = false := by simpa using haf
              subst haf'
              obtain ⟨st2', happ', hs2⟩ := applyFilePatches_sim fs cfg F' hF index entry _ _ _ _ hs happ
              simp only [happ', Bool.false_eq_true, if_false]
              exact ih _ _ _ _ _ _ hs2 h (by simp only [List.length_cons] at hfin; omega)

theorem rollbackOne_sim (mem : Mem) (s s' : Status) (h : SSim s s') : rollbackOne mem s' = rollbackOne mem s := by
  unfold rollbackOne
  have hr := rollback_sim s.fp s.report s'.report h.report
  rw [h.final, h.fp, h.beforeRename, h.target]
  cases mem.get s.final with
  | none => rfl
  | some file => simp only [hr]

/-- the backups taken while rolling back are the same -/
theorem rollbackAndSaveBackups_sim {ss ss' : List Status} (h : ASim ss ss') :
    ∀ (w : World) (mem : Mem) (downTo : Nat),
      rollbackAndSaveBackups w mem ss' downTo = rollbackAndSaveBackups w mem ss downTo := by
  induction h with
  | nil => intro w mem downTo; rfl
  | cons hs _ ih =>
    intro w mem downTo
    unfold rollbackAndSaveBackups
    rw [hs.index, rollbackOne_sim mem _ _ hs, hs.patchName, hs.target, hs.fp]
    split
    · rfl
    · split
      · rfl
      · split
        · rfl
        · split
          · split
            · rfl
            · split
              · rfl
              · split
                · rfl
                · exact ih _ _ _
          · exact ih _ _ _

/-- a successful run of `applyPatches` returns the number the loop returned -/
theorem applyPatches_ok_loop (w w1 : World) (cfg : Cfg) (range : List Series.Entry) (k : Nat)
    (h : applyPatches w cfg range = .ok (w1, k)) :
    ∃ st rejs, applyLoop w.fs cfg range 0 {} = .ok (st, k, rejs) := by
  unfold applyPatches at h
  split at h
  · cases h
  · rename_i st final rejs hloop
    have : final = k := by
      split at h
      · cases h; rfl
      · split at h
        · cases h
        · split at h
          · cases h
          · split at h
            · cases h
            · split at h
              · rename_i w4 _ hb
                simp only [] at h
                generalize rollbackAndSaveBackups w4 st.mem st.applied _ = x at h
                cases x with
                | error e => cases h
                | ok r => cases h; rfl
              · cases h; rfl
    subst this
    exact ⟨st, rejs, hloop⟩

/-- **C20 for the model of the sequential driver.**  If `applyPatches` applied the whole range with the limit
`cfg.fuzz`, then with every larger limit it performs the very same file-system operations and ends in the very same
world (trace of operations included) — whatever the backup mode, dry run or not, fault injected or not. -/
theorem applyPatches_fuzz_mono (w w1 : World) (cfg : Cfg) (F' : Nat) (hF : cfg.fuzz ≤ F')
    (range : List Series.Entry) (h : applyPatches w cfg range = .ok (w1, range.length)) :
    applyPatches w { cfg with fuzz := F' } range = .ok (w1, range.length) := by
  obtain ⟨st, rejs, hloop⟩ := applyPatches_ok_loop w w1 cfg range _ h
  obtain ⟨st', hloop', hs⟩ := applyLoop_sim w.fs cfg F' hF range 0 {} {} st range.length rejs StSim.init hloop (by omega)
  unfold applyPatches at h ⊢
  rw [hloop] at h
  rw [hloop']
  simp only [hs.mem, rollbackAndSaveBackups_sim hs.applied] at h ⊢
  exact h

#print axioms applyRangeTree_fuzz_mono
#print axioms applyPatches_fuzz_mono

end RQ.Fuzz
