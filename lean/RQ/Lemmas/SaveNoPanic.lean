import RQ.Lemmas.ParFaultLemmas
import RQ.Lemmas.ParSucceeds
/-!
# The workers' save code has no panic leaf (the hypothesis `SaveNoPanic` of C18-parallel, derived)

`RQ/Props/C18Par.lean` proves "a fault that was executed gives the outcome `error`" under the hypothesis
`SaveNoPanic cfg fs range threads schedA`: for every result of `parMemory`, no worker's `workerSaveC` command
tree has a `fail .panic` leaf.  The panic leaves sit in `rollbackAndSaveBackupsC`: a `rollbackOne` that
returns an error, a rename without a new name, a rename whose new file is not in the cache.

Here the hypothesis is derived for every range that parses and at least one thread — for every
configuration (every `--backup` mode, renames included), every schedule of the apply phase:

* `rollbackAndSaveBackupsC_noPanic`: the command tree of `rollback_and_save_backup_files` has exactly the
  failing in-memory leaves of the list of calls `Abs.backupCalls`; if `backupCalls` returns `ok` the tree
  has no panic leaf (its other leaves are `fail .err` after a failed operation, or `ret`);
* the states the apply phase really produces: `ParSucceeds.worker_final` (from `Par.parMemory_clean` /
  `Par.worker_clean`): after `rollbackAhead` and `rollbackAndRenderRej` worker `i` holds the `Status`es of the
  patches before the one the push stops at, which form a `Chain` from the empty cache, and a cache that
  extends (`Ext`) the end of that chain; `ParSucceeds.chain_backupCalls_total` (the worker-level analogue of
  `C08_backups_total`): on such a state `backupCalls` never aborts;
* `saveNoPanic_of_parsed`: hence `SaveNoPanic`.  The side condition `allEntries … distPair` that
  `parApplyPatches` checks is not needed (parsed file patches always have a name: `C11_wf`).
* `saveNoPanic`: `SaveNoPanic` holds for every `cfg`, `fs`, `range`, `threads`, `schedA` (if the range does not
  parse, or there is no thread, there is nothing to show).
-/
namespace RQ.Push
open RQ RQ.Parse RQ.Write RQ.ParSave RQ.Abs

/-- `save_backup_file` has no panic leaf -/
theorem saveBackupC_noPanic (patchName name : Bytes) (f : FileSt Bytes) :
    (saveBackupC patchName name f).noPanic = true := by
  unfold saveBackupC
  cases pcKey patchName name with
  | none => rfl
  | some k =>
    simp only [Cmd.noPanic, writeNewC_noPanic, Bool.and_self]

/-- **the in-memory steps of `rollback_and_save_backup_files` are those of `Abs.backupCalls`**: where the
list of calls can be computed, the command tree has no panic leaf -/
theorem rollbackAndSaveBackupsC_noPanic (downTo : Nat) : ∀ (L : List Status) (mem : Mem)
    (calls : List (Nat × Bytes × Bytes × FileSt Bytes)) (mem' : Mem),
    backupCalls mem L downTo = .ok (calls, mem') →
    (rollbackAndSaveBackupsC mem L downTo).noPanic = true := by
  intro L
  induction L with
  | nil => intro mem calls mem' _; rfl
  | cons s rest ih =>
    intro mem calls mem' h
    unfold backupCalls at h
    unfold rollbackAndSaveBackupsC
    split
    · rfl
    · rename_i hlt
      rw [if_neg hlt] at h
      cases hr : rollbackOne mem s with
      | error e => rw [hr] at h; cases h
      | ok x =>
        obtain ⟨m1, file⟩ := x
        rw [hr] at h
        simp only at h ⊢
        refine Cmd.noPanic_bind (saveBackupC_noPanic _ _ _) (fun _ => ?_)
        cases hren : s.fp.rename with
        | false =>
          rw [hren] at h
          simp only [Bool.false_eq_true, if_false] at h ⊢
          cases hb : backupCalls m1 rest downTo with
          | error e => rw [hb] at h; cases h
          | ok y => exact ih m1 y.1 y.2 hb
        | true =>
          rw [hren] at h
          simp only [if_true] at h ⊢
          cases hnew : s.fp.new with
          | none => rw [hnew] at h; cases h
          | some newName =>
            rw [hnew] at h
            simp only at h ⊢
            cases hget : m1.get newName with
            | none => rw [hget] at h; cases h
            | some nf =>
              rw [hget] at h
              simp only at h ⊢
              refine Cmd.noPanic_bind (saveBackupC_noPanic _ _ _) (fun _ => ?_)
              cases hb : backupCalls m1 rest downTo with
              | error e => rw [hb] at h; cases h
              | ok y => exact ih m1 y.1 y.2 hb

/-- the worker's save code has no panic leaf when the list of backup calls of its state can be computed -/
theorem workerSaveC_noPanic_of_backupCalls (cfg : Cfg) (final rangeLen : Nat) (mem : Mem) (applied : List Status)
    (h : cfg.dryRun = false → ∃ calls mem', backupCalls mem applied (downTo cfg final) = .ok (calls, mem')) :
    (workerSaveC cfg final rangeLen mem applied).noPanic = true := by
  unfold workerSaveC
  cases hdry : cfg.dryRun with
  | true => rfl
  | false =>
    simp only [Bool.false_eq_true, if_false]
    obtain ⟨calls, mem', hb⟩ := h hdry
    refine Cmd.noPanic_bind (saveAllC_noPanic _ _) (fun dirs => ?_)
    split
    · exact Cmd.noPanic_bind (rollbackAndSaveBackupsC_noPanic _ _ _ _ _ hb) (fun _ => rfl)
    · rfl

end RQ.Push

namespace RQ.Par
open RQ RQ.Push RQ.Parse RQ.ParSave RQ.Abs

/-- **the list of backup calls of a worker's final state can always be computed** (the worker-level
`C08_backups_total`): whatever the schedule of the apply phase, in the state worker `i` hands to its save
code no in-memory rollback fails and the new file of every rename is in the cache -/
theorem worker_backupCalls_total {fs : FS} {cfg : Cfg} {range : List Series.Entry}
    {patches : List (Series.Entry × List PFilePatch)} {threads : Nat} {schedA : List Nat} (ht : 0 < threads)
    (hparse : parseRange fs cfg range = some patches) (hdry : cfg.dryRun = false) {r : ParResult}
    (hm : parMemory fs cfg patches threads schedA = some (.ok r)) (i : Nat) (hi : i < threads) (downTo : Nat) :
    ∃ calls mem', backupCalls (r.sts i).mem (r.sts i).applied downTo = .ok (calls, mem') := by
  cases hspec : applyRange fs cfg range 0 [] with
  | error x =>
    obtain ⟨x', hx'⟩ := parMemory_applyRange_err hparse ht hspec schedA _ hm
    cases hx'
  | ok y =>
    obtain ⟨t, k, rejs⟩ := y
    obtain ⟨outsK, pr, hpr, _, hc, _⟩ := parMemory_applyRange_ok hparse ht hspec schedA _ hm
    cases hpr
    obtain ⟨happ, hext, _, _, hchain⟩ :=
      ParSucceeds.worker_final (parsed_of_parseRange hparse) ht hc hdry hm i hi
    rw [happ]
    exact ParSucceeds.chain_backupCalls_total _ _ _ _ hchain hext

/-- **`SaveNoPanic`, derived**: for a range that parses and at least one thread, under every schedule of
the apply phase, no worker's save code has a panic leaf. -/
theorem saveNoPanic_of_parsed (cfg : Cfg) (fs : FS) (range : List Series.Entry) (threads : Nat)
    (schedA : List Nat) (ht : 0 < threads) {patches : List (Series.Entry × List PFilePatch)}
    (hparse : parseRange fs cfg range = some patches) : SaveNoPanic cfg fs range threads schedA := by
  intro patches' r hp hm i hi
  rw [hparse] at hp
  cases hp
  exact workerSaveC_noPanic_of_backupCalls _ _ _ _ _
    (fun hdry => worker_backupCalls_total ht hparse hdry hm i hi _)

/-- `SaveNoPanic` holds for every configuration, file system, range, thread count and schedule (without
threads there is no worker) -/
theorem saveNoPanic (cfg : Cfg) (fs : FS) (range : List Series.Entry) (threads : Nat) (schedA : List Nat) :
    SaveNoPanic cfg fs range threads schedA := by
  intro patches r hp hm i hi
  exact saveNoPanic_of_parsed cfg fs range threads schedA (by omega) hp patches r hp hm i hi

end RQ.Par

#print axioms RQ.Push.rollbackAndSaveBackupsC_noPanic
#print axioms RQ.Par.worker_backupCalls_total
#print axioms RQ.Par.saveNoPanic_of_parsed
#print axioms RQ.Par.saveNoPanic
