import RQ.Model.Path
import RQ.Lemmas.PathLemmas
/-! C12: a stripped name is a fixed point of `stripPath 0` (the written name is read back with strip 0).

Since `strip_path` also skips a leading `.` component (`skip_cur_dir`), `stripPath 0` is the identity only on
trimmed names that do not start with a `.` component; a stripped name never does. -/
namespace RQ
open RQ

def rtLastPiece (body : Bytes) : Bytes := (body.reverse.takeWhile (· ≠ SEP)).reverse

/-- `trimRight keep` has nothing to remove -/
def Trimmed (keep : Nat) (bs : Bytes) : Prop :=
  bs.length ≤ keep ∨ (compOfPiece (rtLastPiece (bs.drop keep))).isSome = true

theorem rtTrimRight_succ (keep f : Nat) (bs : Bytes) : trimRight keep (f+1) bs =
    if bs.length ≤ keep then bs
    else
      match compOfPiece (rtLastPiece (bs.drop keep)) with
      | some _ => bs
      | none => trimRight keep f (bs.take (bs.length - ((rtLastPiece (bs.drop keep)).length +
          (if (rtLastPiece (bs.drop keep)).length < (bs.drop keep).length then 1 else 0)))) := by
  rfl

theorem trimRight_of_Trimmed (keep f : Nat) (bs : Bytes) (h : Trimmed keep bs) : trimRight keep f bs = bs := by
  cases f with
  | zero => rfl
  | succ f =>
    rw [rtTrimRight_succ]
    rcases h with h | h
    · simp [h]
    · split
      · rfl
      · cases e : compOfPiece (rtLastPiece (List.drop keep bs)) with
        | none => rw [e] at h; cases h
        | some c => rfl

theorem length_takeWhile_le' (p : UInt8 → Bool) (l : Bytes) : (l.takeWhile p).length ≤ l.length := by
  induction l with
  | nil => simp
  | cons a l ih =>
    simp only [List.takeWhile_cons]
    split
    · simp; omega
    · simp

theorem rtLastPiece_length_le (body : Bytes) : (rtLastPiece body).length ≤ body.length := by
  unfold rtLastPiece
  rw [List.length_reverse]
  have := length_takeWhile_le' (fun x => decide (x ≠ SEP)) body.reverse
  simpa using this

theorem trimRight_spec (keep : Nat) : ∀ (f : Nat) (bs : Bytes), bs.length < f →
    Trimmed keep (trimRight keep f bs) ∧ ∃ m, min keep bs.length ≤ m ∧ trimRight keep f bs = bs.take m := by
  intro f
  induction f with
  | zero => intro bs h; omega
  | succ f ih =>
    intro bs hf
    rw [rtTrimRight_succ]
    by_cases hk : bs.length ≤ keep
    · simp only [hk, if_true]
      exact ⟨Or.inl hk, bs.length, by omega, by simp⟩
    · simp only [hk, if_false]
      cases e : compOfPiece (rtLastPiece (List.drop keep bs)) with
      | some c =>
        simp only []
        exact ⟨Or.inr (by rw [e]; rfl), bs.length, by omega, by simp⟩
      | none =>
        simp only []
        have hl := rtLastPiece_length_le (bs.drop keep)
        have hd : (bs.drop keep).length = bs.length - keep := by simp
        generalize hlp : rtLastPiece (List.drop keep bs) = lp at *
        -- the amount removed is between 1 and bs.length - keep
        have hamt : 1 ≤ lp.length + (if lp.length < (bs.drop keep).length then 1 else 0) ∧
            lp.length + (if lp.length < (bs.drop keep).length then 1 else 0) ≤ bs.length - keep := by
          split <;> omega
        generalize lp.length + (if lp.length < (bs.drop keep).length then 1 else 0) = amt at *
        have hlen : (bs.take (bs.length - amt)).length = bs.length - amt := by simp
        obtain ⟨h1, m, hm, h2⟩ := ih (bs.take (bs.length - amt)) (by omega)
        refine ⟨h1, min m (bs.length - amt), by omega, ?_⟩
        rw [h2, List.take_take]

theorem takeWhile_append_stop (p : UInt8 → Bool) (A B : Bytes) (s : UInt8) (hs : p s = false) :
    (A ++ s :: B).takeWhile p = A.takeWhile p := by
  induction A with
  | nil => simp [List.takeWhile, hs]
  | cons a A ih =>
    simp only [List.cons_append, List.takeWhile_cons]
    split
    · rw [ih]
    · rfl

theorem lastPiece_sep (l1 l2 : Bytes) : rtLastPiece (l1 ++ SEP :: l2) = rtLastPiece l2 := by
  unfold rtLastPiece
  have : (l1 ++ SEP :: l2).reverse = l2.reverse ++ SEP :: l1.reverse := by simp
  rw [this, takeWhile_append_stop _ _ _ _ (by simp)]

/-- the `keep` that `stripPath 0` computes (for a name without a leading `.` component) -/
def keepOf (x : Bytes) : Nat :=
  match x with
  | b :: _ => if b = SEP then 1 else if includeCurDir x then 1 else 0
  | [] => 0

/-- without a leading `.` component `stripPath 0` only trims on the right -/
theorem stripPath_zero_trim (raw : Bytes) (hc : includeCurDir raw = false) :
    stripPath 0 raw = trimRight (keepOf raw) (raw.length + 1) raw := by
  unfold stripPath dropComps keepOf
  simp only [hc, Bool.not_false, Bool.and_false, Bool.false_eq_true, if_false]
  cases raw <;> rfl

/-- a leading `.` component is skipped (`skip_cur_dir`), the iterator is then in the body state -/
theorem stripPath_zero_cur (raw : Bytes) (hc : includeCurDir raw = true) :
    stripPath 0 raw = trimRight 0 ((trimLeft (raw.tail.length + 1) raw.tail).length + 1)
      (trimLeft (raw.tail.length + 1) raw.tail) := by
  unfold stripPath dropComps
  simp only [hc, Bool.not_false, Bool.and_true, if_true]

theorem includeCurDir_cases (b : UInt8) (t : Bytes) (h : includeCurDir (b :: t) = true) :
    b = DOT ∧ (t = [] ∨ ∃ t', t = SEP :: t') := by
  cases t with
  | nil => simp [includeCurDir] at h; exact ⟨h, Or.inl rfl⟩
  | cons c t' => simp [includeCurDir] at h; exact ⟨h.1, Or.inr ⟨t', by rw [h.2]⟩⟩

theorem Trimmed_keepOf (x : Bytes) (h : Trimmed 0 x) : Trimmed (keepOf x) x := by
  cases x with
  | nil => exact h
  | cons b t =>
    unfold keepOf
    rcases h with h | h
    · simp at h
    · simp only [List.drop_zero] at h
      by_cases hb : b = SEP
      · simp only [hb, if_true]
        right
        subst hb
        have := lastPiece_sep [] t
        simp only [List.nil_append] at this
        rw [this] at h
        simpa using h
      · simp only [hb, if_false]
        by_cases hc : includeCurDir (b :: t) = true
        · simp only [hc, if_true]
          obtain ⟨hb', ht⟩ := includeCurDir_cases b t hc
          rcases ht with rfl | ⟨t', rfl⟩
          · left; simp
          · right
            have e1 := lastPiece_sep [b] t'
            have e2 := lastPiece_sep [] t'
            simp only [List.cons_append, List.nil_append] at e1 e2
            rw [e1] at h
            simp only [List.drop_one, List.tail_cons]
            rw [e2]; exact h
        · simp only [hc]
          right; simpa using h

theorem stripPath_fix_of_Trimmed (x : Bytes) (hc : includeCurDir x = false) (h : Trimmed 0 x) :
    stripPath 0 x = x := by
  rw [stripPath_zero_trim x hc]
  exact trimRight_of_Trimmed _ _ _ (Trimmed_keepOf x h)

/-- the result of `trimRight 0` on a name without leading `/` or `.` component is a fixed point -/
theorem stripPath_fix_trimRight0 (y : Bytes) (hy : Plain y) :
    stripPath 0 (trimRight 0 (y.length + 1) y) = trimRight 0 (y.length + 1) y := by
  have hp : Plain (trimRight 0 (y.length + 1) y) := TR_plain (trimRight0_spec _ y).2 hy
  exact stripPath_fix_of_Trimmed _ hp.2 (trimRight_spec 0 _ y (by omega)).1

/-- the two shapes of a stripped name: trimmed body, or `/` followed by a trimmed body -/
theorem stripPath_form (n : Nat) (raw : Bytes) :
    (∃ y, Plain y ∧ stripPath n raw = trimRight 0 (y.length + 1) y) ∨
    (∃ bs, n = 0 ∧ raw = SEP :: bs ∧ stripPath n raw = trimRight 1 (raw.length + 1) raw) := by
  cases n with
  | succ n =>
    left
    unfold stripPath dropComps
    cases raw with
    | nil => exact ⟨_, (trimLeft_spec _ _ (by omega)).2, rfl⟩
    | cons b rest =>
      simp only []
      split
      · exact ⟨_, (trimLeft_spec _ _ (by omega)).2, rfl⟩
      · split
        · exact ⟨_, (trimLeft_spec _ _ (by omega)).2, rfl⟩
        · exact ⟨_, (trimLeft_spec _ _ (by omega)).2, rfl⟩
  | zero =>
    cases hc : includeCurDir raw with
    | true => exact Or.inl ⟨_, (trimLeft_spec _ _ (by omega)).2, stripPath_zero_cur raw hc⟩
    | false =>
      rw [stripPath_zero_trim raw hc]
      cases raw with
      | nil => exact Or.inl ⟨[], by simp [Plain, includeCurDir], rfl⟩
      | cons b t =>
        by_cases hb : b = SEP
        · subst hb
          exact Or.inr ⟨t, rfl, rfl, by simp [keepOf]⟩
        · refine Or.inl ⟨b :: t, ⟨by simpa using hb, hc⟩, ?_⟩
          simp [keepOf, hb, hc]

theorem stripPath_idem (n : Nat) (raw : Bytes) : stripPath 0 (stripPath n raw) = stripPath n raw := by
  rcases stripPath_form n raw with ⟨y, hy, e⟩ | ⟨bs, _, rfl, e⟩
  · rw [e]; exact stripPath_fix_trimRight0 y hy
  · rw [e]
    obtain ⟨ht, _⟩ := trimRight_spec 1 ((SEP :: bs).length + 1) (SEP :: bs) (by omega)
    rw [trimRight1_cons] at ht ⊢
    rw [stripPath_zero_trim _ (includeCurDir_sep _)]
    have hk : keepOf (SEP :: trimRight 0 ((SEP :: bs).length + 1) bs) = 1 := by simp [keepOf]
    rw [hk]
    exact trimRight_of_Trimmed _ _ _ ht

end RQ
