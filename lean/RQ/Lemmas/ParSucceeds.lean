import RQ.Lemmas.ParRefine
import RQ.Lemmas.DriverSucceeds
/-!
# The parallel driver does not fail spuriously (lemmas for `RQ/Props/C06Complete.lean`)

`C06_par_refines_pushSpec` (`RQ/Props/C06Refine.lean`) compares the model of the parallel driver `Par.parApplyPatches`
with the executable specification under three hypotheses about the parallel run itself: `hsolo` (every worker's save
succeeds when it runs alone from the starting tree), `hdisj` (`KeysDisjoint`: the file keys of different workers are
prefix-free) and `hpar` (the run returned `.ok`).  This file discharges all three from the static hypotheses of
`C05_driver_succeeds` (`RQ/Props/C05Complete.lean`) and ONE more: `RejPrefixFree` (section 7) — no reject path
`<name>.rej` is a directory of another reject path.  That one was needed before the repair of the finding
`rej-dir-order`: the main thread writes the reject files worker by worker, not in series order, and `a.rej` written before
`a.rej/b.rej` made the latter fail with `ENOTDIR`.  `save_rej_files` now bypasses such a reject (`Push.World.opRej`; the
decided examples `Fixed.rejOrder`, `Fixed.rejOrder_converse` in `RQ/Props/C06Complete.lean` show the repaired behaviour);
the hypothesis is kept because the argument of section 5 (reordering the reject files) uses it.  `PatchPathsDistinct` is
NOT needed.

1. The parsed range against `patchOf` (`parseRange_patchOf`, `parseRange_take`, `parseRange_of_clean`).
2. A worker's cache through the apply phase and the rollbacks: `existed` is truthful (`MemLd`, `runW_ld`,
   `finishWorker_ld`); `worker_final`: what worker `i` hands to its save code — the `Status`es `stX` of the patches before
   the one the push stops at, a cache that extends the cache it had after them.
3. The `Status`es a worker pushes against the abstract run of ALL file patches (`worker_statuses`, `stX_statuses`): index
   and name of the patch, and the names (target; new name of a rename) are among those `BackupRefine.fpsNames` lists for
   that patch — the chosen target is a matter of the worker's own names only (`chooseA_local`).
4. **`hdisj`** (`keysDisjoint_static`): the paths of names of different workers are different (C07) and not inside one
   another (`PrefixFree`); backup paths lie below `.pc`, paths of names do not; backup paths `.pc/<patch>/<name>` of
   different workers: readable patch files are not inside one another, so the `<patch>` parts are equal and the `<name>`
   parts are names of different workers.
5. The reject files: writing a list of reject files succeeds in ANY order when each could be written first (`RejOK`) and
   no reject path is a strict prefix of another; the specification's success gives `RejOK` for each (`putRejects_rejOK`).
6. **`hsolo`** (`worker_solo`): `saveAll_succeeds` for the worker's cache (`MemLd`, `PrefixFree`); the worker's backups:
   the undo never aborts (`chain_backupCalls_total`), every call writes where the specification writes a backup too
   (`stX_statuses` against `BInv`), hence could be made first, and no path is a directory of another (`WChain.allOK`).
7. **`hpar`** (`par_succeeds_range`): apply phase (`parMemory_applyLoop_ok`), save phase (`savePhase_ok`), cleaning
   (`cleanWorkers_succeeds`: directories of the starting tree stay directories, `series` keeps the root non-empty), reject
   files (`rejWorkers_succeeds` on the disk that agrees outside `.pc` with the specification's tree).
-/
namespace RQ.ParSucceeds
open RQ RQ.Push RQ.Spec RQ.Flush RQ.Agree RQ.Compose RQ.Tight RQ.Parse RQ.Par RQ.Succeeds

/-! ## 1. The parsed range against `patchOf` -/

theorem patchOf_of_parts {fs : FS} {cfg : Cfg} {entry : Series.Entry} {pk : Key} {bytes : Bytes} {mode : Nat}
    {patch : Patch} (h1 : patchKey cfg entry.name = some pk) (h2 : fs.readFile pk = .ok (bytes, mode))
    (h3 : parsePatch bytes entry.strip false = .ok patch) : patchOf fs cfg entry = some patch := by
  unfold patchOf
  rw [h1]
  simp only
  rw [h2]
  simp only
  rw [h3]

theorem patchOf_parts {fs : FS} {cfg : Cfg} {entry : Series.Entry} {patch : Patch}
    (h : patchOf fs cfg entry = some patch) :
    ∃ pk bytes mode, patchKey cfg entry.name = some pk ∧ fs.readFile pk = .ok (bytes, mode) ∧
      parsePatch bytes entry.strip false = .ok patch := by
  unfold patchOf at h
  split at h
  · cases h
  · rename_i pk hpk
    split at h
    · cases h
    · rename_i bytes mode hrd
      split at h
      · cases h
      · rename_i p hp
        cases h
        exact ⟨pk, bytes, mode, hpk, hrd, hp⟩

/-- the parsed range, entry by entry: the series entries in order, each with the file patches of `patchOf` -/
theorem parseRange_patchOf {fs : FS} {cfg : Cfg} : ∀ (range : List Series.Entry)
    (patches : List (Series.Entry × List PFilePatch)), parseRange fs cfg range = some patches →
    patches.map (·.1) = range ∧ ∀ p ∈ patches, ∃ patch, patchOf fs cfg p.1 = some patch ∧ p.2 = patch.fps := by
  intro range
  induction range with
  | nil =>
    intro patches h
    simp only [parseRange] at h
    cases h
    exact ⟨rfl, fun _ hp => by cases hp⟩
  | cons entry rest ih =>
    intro patches h
    obtain ⟨pk, bytes, mode, patch, ps, hpk, hrd, hpp, hps, rfl⟩ := parseRange_cons h
    obtain ⟨i1, i2⟩ := ih ps hps
    refine ⟨by simp only [List.map_cons, i1], fun p hp => ?_⟩
    rcases List.mem_cons.mp hp with rfl | hp
    · exact ⟨patch, patchOf_of_parts hpk hrd hpp, rfl⟩
    · exact i2 p hp

theorem parseRange_take {fs : FS} {cfg : Cfg} : ∀ (range : List Series.Entry)
    (patches : List (Series.Entry × List PFilePatch)) (j : Nat), parseRange fs cfg range = some patches →
    parseRange fs cfg (range.take j) = some (patches.take j) := by
  intro range
  induction range with
  | nil =>
    intro patches j h
    simp only [parseRange] at h
    cases h
    simp [parseRange]
  | cons entry rest ih =>
    intro patches j h
    obtain ⟨pk, bytes, mode, patch, ps, hpk, hrd, hpp, hps, rfl⟩ := parseRange_cons h
    cases j with
    | zero => simp [parseRange]
    | succ j =>
      simp only [List.take_succ_cons, parseRange, hpk, hrd, hpp, ih ps j hps]

/-- a range whose patch files can all be read and parsed is parsed by the parallel driver -/
theorem parseRange_of_patchOf {fs : FS} {cfg : Cfg} : ∀ (range : List Series.Entry),
    (∀ e ∈ range, ∃ patch, patchOf fs cfg e = some patch) → ∃ patches, parseRange fs cfg range = some patches := by
  intro range
  induction range with
  | nil => intro _; exact ⟨[], rfl⟩
  | cons entry rest ih =>
    intro h
    obtain ⟨patch, hp⟩ := h entry (List.mem_cons_self ..)
    obtain ⟨pk, bytes, mode, h1, h2, h3⟩ := patchOf_parts hp
    obtain ⟨ps, hps⟩ := ih (fun e he => h e (List.mem_cons_of_mem _ he))
    exact ⟨(entry, patch.fps) :: ps, by simp only [parseRange, h1, h2, h3, hps]⟩

theorem parseRange_of_clean {fs : FS} {cfg : Cfg} {range : List Series.Entry} (h : Compose.Clean cfg fs range) :
    ∃ patches, parseRange fs cfg range = some patches :=
  parseRange_of_patchOf range (fun e he => by
    obtain ⟨patch, hp, _⟩ := (h e he).patch
    exact ⟨patch, hp⟩)

/-- every queue entry is a file patch of a patch file of the range -/
theorem entry_patchOf {fs : FS} {cfg : Cfg} {range : List Series.Entry}
    {patches : List (Series.Entry × List PFilePatch)} (hparse : parseRange fs cfg range = some patches)
    {k0 : Nat} {q : QEntry} (hq : q ∈ allEntries patches k0) :
    q.entry ∈ range ∧ ∃ patch, patchOf fs cfg q.entry = some patch ∧ q.fp ∈ patch.fps := by
  obtain ⟨p, hp, he, hfp⟩ := allEntries_mem patches k0 q hq
  obtain ⟨hmap, hall⟩ := parseRange_patchOf range patches hparse
  obtain ⟨patch, hpo, hfps⟩ := hall p hp
  refine ⟨?_, patch, by rw [he]; exact hpo, by rw [← hfps]; exact hfp⟩
  rw [he, ← hmap]
  exact List.mem_map_of_mem hp


/-! ## 2. A worker's cache: `existed` is truthful (`MemLd`), through the apply phase and the rollbacks -/

theorem apW_ld {fs : FS} {cfg : Cfg} {s : WSt} (q : QEntry) (h : MemLd fs s.st.mem) :
    MemLd fs (apW fs cfg s q).1.st.mem := by
  unfold apW
  cases s.err with
  | some p => exact h
  | none =>
    simp only
    cases ha : applyOne s.st fs cfg q.idx q.entry q.fp with
    | error e => exact h
    | ok y =>
      obtain ⟨st', b⟩ := y
      exact applyOne_ld h ha

theorem runW_ld {fs : FS} {cfg : Cfg} : ∀ (L : List QEntry) (s : WSt), MemLd fs s.st.mem →
    MemLd fs (runW fs cfg s L).st.mem := by
  intro L
  induction L with
  | nil => intro s h; exact h
  | cons q L ih =>
    intro s h
    rw [runW_cons]
    exact ih _ (apW_ld q h)

theorem rollbackAheadL_ld {fs : FS} (final : Nat) : ∀ (L : List Status) (mem : Mem) (st : St), MemLd fs mem →
    rollbackAheadL final L mem = .ok st → MemLd fs st.mem := by
  intro L
  induction L with
  | nil =>
    intro mem st h e
    simp only [rollbackAheadL] at e
    cases e
    exact h
  | cons s rest ih =>
    intro mem st h e
    unfold rollbackAheadL at e
    split at e
    · cases e
      exact h
    · split at e
      · cases e
      · rename_i mem' f hr
        exact ih mem' st (rollbackOne_ld h hr) e

theorem finishWorker_ld {fs : FS} {cfg : Cfg} {final : Nat} {ws : WSt} {st : St} {rejs : List (Bytes × Bytes)}
    (h : MemLd fs ws.st.mem) (e : finishWorker cfg final ws = .ok (st, rejs)) : MemLd fs st.mem := by
  unfold finishWorker at e
  split at e
  · cases e
  · rename_i st1 h1
    have hm : MemLd fs st1.mem := rollbackAheadL_ld final _ _ _ h h1
    split at e
    · cases e
      exact hm
    · exact rollbackAndRenderRej_ld _ hm e

/-- the in-memory part of the parallel push, taken apart -/
theorem parMemory_parts {fs : FS} {cfg : Cfg} {patches : List (Series.Entry × List PFilePatch)} {threads : Nat}
    {schedA : List Nat} {pr : ParResult} (hr : parMemory fs cfg patches threads schedA = some (.ok pr)) :
    ∃ a, applyPhase fs cfg patches threads schedA = some a ∧ pr.final = a.final ∧
      ∀ i, i < threads → ∃ st rejs, finishWorker cfg a.final (a.ws i) = .ok (st, rejs) ∧ pr.sts i = st ∧
        pr.rejs i = rejs := by
  unfold parMemory at hr
  cases ha : applyPhase fs cfg patches threads schedA with
  | none => rw [ha] at hr; cases hr
  | some a =>
    rw [ha] at hr
    simp only at hr
    cases hce : countingError threads a.final a.ws with
    | some e => rw [hce] at hr; cases hr
    | none =>
      rw [hce] at hr
      simp only at hr
      cases hff : firstFail threads (fun i => finishWorker cfg a.final (a.ws i)) with
      | some e => rw [hff] at hr; cases hr
      | none =>
        rw [hff] at hr
        simp only [Option.some.injEq, Except.ok.injEq] at hr
        subst hr
        refine ⟨a, rfl, rfl, fun i hi => ?_⟩
        unfold firstFail at hff
        rw [List.findSome?_eq_none_iff] at hff
        have := hff i (List.mem_range.mpr hi)
        simp only at this
        cases hf : finishWorker cfg a.final (a.ws i) with
        | error e => rw [hf] at this; cases this
        | ok r =>
          obtain ⟨st, rejs⟩ := r
          exact ⟨st, rejs, rfl, by simp only [hf], by simp only [hf]⟩


section Worker
open RQ.Abs
variable {fs : FS} {cfg : Cfg} {patches : List (Series.Entry × List PFilePatch)} {threads : Nat}

/-- the `Status`es worker `i` has pushed for the patches before `k`, and its cache then -/
def stX (fs : FS) (cfg : Cfg) (patches : List (Series.Entry × List PFilePatch)) (threads k i : Nat) : St :=
  (runW fs cfg { st := {} } (qX patches threads k i)).st

/-- `Par.worker_clean` with the part before `k` spelled out (`stX`) -/
theorem worker_clean' (hP : Parsed patches) (ht : 0 < threads) {k : Nat} {t : ATree} {outsK : List Out}
    (hc : Par.Clean fs cfg patches k t outsK) (schedA : List Nat) (a : ApplyOut)
    (ha : applyPhase fs cfg patches threads schedA = some a) (i : Nat) :
    ∃ (mY : Mem) (LY LZ : List Status),
      (a.ws i).st.applied = LZ ++ (LY ++ (stX fs cfg patches threads k i).applied) ∧
      (∀ x ∈ (stX fs cfg patches threads k i).applied, x.index < k) ∧
      (∀ x ∈ LY, x.index = k) ∧ (∀ x ∈ LZ, k < x.index) ∧
      Chain fs [] (stX fs cfg patches threads k i).applied (stX fs cfg patches threads k i).mem ∧
      Chain fs (stX fs cfg patches threads k i).mem LY mY ∧ Chain fs mY LZ (a.ws i).st.mem ∧
      MInv fs (namesOf patches threads i) (a.ws i).st.mem ∧ MemLd fs (a.ws i).st.mem := by
  obtain ⟨_, hW⟩ := applyPhase_final hP ht hc.stop schedA a ha
  obtain ⟨pos, hws, hcov⟩ := hW i
  have hld : MemLd fs (a.ws i).st.mem := by
    rw [hws]
    exact runW_ld _ _ (memLd_nil fs)
  obtain ⟨Gk, Gz, t', hsplit, hGk, hGz, hrunK⟩ := hc.run
  obtain ⟨e1, e2, uX, outsX, e3, e4, _, _, _, e8, e9⟩ := worker_prefix (fs := fs) (cfg := cfg) hP ht hc.stop i
  have hGkmem : ∀ q ∈ Gk, q ∈ allEntries patches 0 :=
    fun q hq => (mem_drop_entries (by rw [hsplit]; exact List.mem_append_left _ hq)).1
  obtain ⟨f1, f2, uY, _, _, _, _, LY, f7, f8, f9, f10⟩ :=
    worker_run (fs := fs) (cfg := cfg) hP ht i Gk t t' outsK _ uX hGkmem hrunK e1 e2 e3 e4
  have hR : qR patches threads k i = Gk.filter (owns patches threads i) ++ Gz.filter (owns patches threads i) := by
    unfold qR; rw [hsplit, List.filter_append]
  have hqueue : queuesOf patches threads i =
      (qX patches threads k i ++ Gk.filter (owns patches threads i)) ++ Gz.filter (owns patches threads i) := by
    rw [queue_split k i, hR, List.append_assoc]
  have hpos : (qX patches threads k i ++ Gk.filter (owns patches threads i)).length ≤ pos := by
    apply Classical.byContradiction
    intro hlt
    have hlt : pos < (qX patches threads k i ++ Gk.filter (owns patches threads i)).length := by omega
    have hget : (queuesOf patches threads i)[pos]? =
        some ((qX patches threads k i ++ Gk.filter (owns patches threads i))[pos]) := by
      rw [hqueue, List.getElem?_append_left hlt, List.getElem?_eq_getElem hlt]
    have hmem : (qX patches threads k i ++ Gk.filter (owns patches threads i))[pos] ∈
        qX patches threads k i ++ Gk.filter (owns patches threads i) := List.getElem_mem hlt
    have hle : ((qX patches threads k i ++ Gk.filter (owns patches threads i))[pos]).idx ≤ k := by
      rcases List.mem_append.mp hmem with h | h
      · exact Nat.le_of_lt (mem_take_entries (List.mem_filter.mp h).1).2
      · exact Nat.le_of_eq (hGk _ (List.mem_filter.mp h).1)
    have := hcov pos _ hget hle
    omega
  rw [hqueue, take_append_ge _ _ _ hpos, runW_append, runW_append] at hws
  have hZwf : ∀ q ∈ (Gz.filter (owns patches threads i)).take
      (pos - (qX patches threads k i ++ Gk.filter (owns patches threads i)).length),
      QWF q ∧ ∀ c ∈ Par.fpNames q.fp, namesOf patches threads i c := by
    intro q hq
    apply qR_wf (k := k) hP
    rw [hR]
    exact List.mem_append_right _ (List.mem_of_mem_take hq)
  obtain ⟨g1, LZ, g2, g3, g4⟩ := runW_chain (fs := fs) (cfg := cfg) _ _ f1 f2 hZwf
  have hZidx : ∀ q ∈ (Gz.filter (owns patches threads i)).take
      (pos - (qX patches threads k i ++ Gk.filter (owns patches threads i)).length), k < q.idx :=
    fun q hq => hGz q (List.mem_filter.mp (List.mem_of_mem_take hq)).1
  refine ⟨_, LY, LZ, ?_, e8, ?_, ?_, e9, f9, ?_, ?_, hld⟩
  · rw [hws, g2, f7]
    rfl
  · intro x hx
    obtain ⟨q, hq, e⟩ := f8 x hx
    rw [e]; exact hGk q hq
  · intro x hx
    obtain ⟨q, hq, e⟩ := g3 x hx
    rw [e]; exact hZidx q hq
  · rw [hws]; exact g4
  · rw [hws]; exact g1

/-- **what worker `i` hands to its save code** (a real run, the push stops at `k` without error): the `Status`es of
the patches before `k` it applied, a cache that extends the cache it had after them, `existed` truthful -/
theorem worker_final (hP : Parsed patches) (ht : 0 < threads) {k : Nat} {t : ATree} {outsK : List Out}
    (hc : Par.Clean fs cfg patches k t outsK) (hdry : cfg.dryRun = false) {schedA : List Nat} {pr : ParResult}
    (hr : parMemory fs cfg patches threads schedA = some (.ok pr)) (i : Nat) (hi : i < threads) :
    (pr.sts i).applied = (stX fs cfg patches threads k i).applied ∧
    Ext fs (stX fs cfg patches threads k i).mem (pr.sts i).mem ∧ MemLd fs (pr.sts i).mem ∧
    (∀ x ∈ (stX fs cfg patches threads k i).applied, x.index < k) ∧
    Chain fs [] (stX fs cfg patches threads k i).applied (stX fs cfg patches threads k i).mem := by
  obtain ⟨a, ha, _, hfin⟩ := parMemory_parts hr
  obtain ⟨st, rejs, hf, hst, _⟩ := hfin i hi
  obtain ⟨hfinal, _⟩ := applyPhase_final hP ht hc.stop schedA a ha
  obtain ⟨mY, LY, LZ, happ, hX, hY, hZ, cX, cY, cZ, hinv, hld⟩ := worker_clean' hP ht hc schedA a ha i
  rw [hfinal] at hf
  obtain ⟨st', rejs', hf', _, _, _, g4⟩ := finishWorker_ok (fs := fs) (cfg := cfg) k (a.ws i) _ mY _ LY LZ
    happ hX hY hZ cY cZ hinv.good hinv.ok hinv.inA
  rw [hf] at hf'
  cases hf'
  obtain ⟨h1, h2, _⟩ := g4 hdry
  rw [hst]
  exact ⟨h1, h2, finishWorker_ld hld hf, hX, cX⟩

end Worker

/-! ## 3. The `Status`es a worker pushes, against the abstract run of all file patches -/

section Statuses
open RQ.Abs
variable {fs : FS} {cfg : Cfg} {patches : List (Series.Entry × List PFilePatch)} {threads : Nat}

/-- the names the abstract run touches: patch index, patch name, file name -/
def absNames (fs : FS) (cfg : Cfg) : ATree → List QEntry → List (Nat × Bytes × Bytes)
  | _, [] => []
  | t, q :: L =>
    match applyFP t fs cfg q.entry q.fp with
    | .error _ => []
    | .ok r => (BackupRefine.fpNames t fs q.fp).map (fun n => (q.idx, q.entry.name, n)) ++ absNames fs cfg r.tree L

theorem absNames_cons_ok {t : ATree} {q : QEntry} {L : List QEntry} {r : FPOut}
    (h : applyFP t fs cfg q.entry q.fp = .ok r) :
    absNames fs cfg t (q :: L) =
      (BackupRefine.fpNames t fs q.fp).map (fun n => (q.idx, q.entry.name, n)) ++ absNames fs cfg r.tree L := by
  simp only [absNames, h]

/-- along an abstract run of all entries `G` in which every file patch applies cleanly, worker `i` pushes one
`Status` for each of its entries, with the target the abstract tree chooses -/
theorem worker_statuses (hP : Parsed patches) (ht : 0 < threads) (i : Nat) :
    ∀ (G : List QEntry) (t0 t1 : ATree) (outs : List Out) (s : WSt),
      (∀ q ∈ G, q ∈ allEntries patches 0) → absRun fs cfg t0 G = .ok (t1, outs) → (∀ o ∈ outs, o.ok = true) →
      s.err = none → MInv fs (namesOf patches threads i) s.st.mem →
      (∀ n, namesOf patches threads i (components n) → look (ofMem s.st.mem) fs n = look t0 fs n) →
      ∃ Ls, (runW fs cfg s (G.filter (owns patches threads i))).st.applied = Ls ++ s.st.applied ∧
        ∀ x ∈ Ls, (∃ q ∈ G, owns patches threads i q = true ∧ x.index = q.idx ∧ x.patchName = q.entry.name ∧
            x.fp = q.fp ∧ (q.fp.old = some x.target ∨ q.fp.new = some x.target)) ∧
          ∀ n ∈ BackupRefine.stNames x, (x.index, x.patchName, n) ∈ absNames fs cfg t0 G := by
  intro G
  induction G with
  | nil =>
    intro t0 t1 outs s _ _ _ _ _ _
    exact ⟨[], rfl, fun x hx => by cases hx⟩
  | cons q G ih =>
    intro t0 t1 outs s hG h hall herr hinv hag
    obtain ⟨r, outs0, hr, hL, rfl⟩ := absRun_cons_ok h
    have hrok : r.ok = true := hall ⟨q, r.ok, r.rej⟩ (List.mem_cons_self ..)
    have hall0 : ∀ o ∈ outs0, o.ok = true := fun o ho => hall o (List.mem_cons_of_mem _ ho)
    have hG' : ∀ q' ∈ G, q' ∈ allEntries patches 0 := fun q' hq' => hG q' (List.mem_cons_of_mem _ hq')
    have hqe := hG q (List.mem_cons_self ..)
    cases hp : owns patches threads i q with
    | true =>
      have hqA := owns_in hqe hp
      have hq := (parsed_entry hP 0 q hqe).1
      have hlocal : ∀ n, components n ∈ Par.fpNames q.fp → look (ofMem s.st.mem) fs n = look t0 fs n :=
        fun n hn => hag n (hqA _ hn)
      have hloc := applyFP_local (ofMem s.st.mem) t0 fs cfg q.entry q.fp hlocal
      rw [hr] at hloc
      cases hr' : applyFP (ofMem s.st.mem) fs cfg q.entry q.fp with
      | error x => rw [hr'] at hloc; exact hloc.elim
      | ok r' =>
        rw [hr'] at hloc
        simp only at hloc
        obtain ⟨hok, _, hlk⟩ := hloc
        cases ha : applyOne s.st fs cfg q.idx q.entry q.fp with
        | error e =>
          have := applyOne_err_sim (SameTree.refl fs _) hinv.de hq.rn ha
          rw [hr'] at this
          cases this
        | ok y =>
          obtain ⟨st', b⟩ := y
          obtain ⟨r'', hr'', hb, hs', hde', _⟩ := applyOne_ok_sim (SameTree.refl fs _) hinv.de hq.wflen ha
          rw [hr'] at hr''
          cases hr''
          have hbt : b = true := by rw [hb, hok, hrok]
          obtain ⟨s1, happ1, hidx1, hfp1, hpn1, hch1⟩ :=
            BackupRefine.applyOne_names (SameTree.refl fs _) hinv.de ha hbt
          have hch0 : chooseA t0 fs q.fp.old q.fp.new = some s1.target := by
            rw [← chooseA_local hlocal]; exact hch1
          have hap : (apW fs cfg s q).1 = ⟨st', none⟩ := by simp only [apW, herr, ha]
          have hinv' : MInv fs (namesOf patches threads i) st'.mem :=
            ⟨hde', Disk.applyOne_good hinv.good hq.nocur ha, applyOne_ok hinv.ok ha, applyOne_in hinv.inA hqA ha⟩
          have hag' : ∀ n, namesOf patches threads i (components n) → look (ofMem st'.mem) fs n = look r.tree fs n := by
            intro n hn
            rw [hs' n]
            by_cases hm : components n ∈ Par.fpNames q.fp
            · exact hlk n hm
            · rw [Par.applyFP_frame (ofMem s.st.mem) fs cfg q.entry q.fp r' hr' n hm,
                Par.applyFP_frame t0 fs cfg q.entry q.fp r hr n hm]
              exact hag n hn
          obtain ⟨Ls, hLs, hx⟩ := ih r.tree t1 outs0 ⟨st', none⟩ hG' hL hall0 rfl hinv' hag'
          refine ⟨Ls ++ [s1], ?_, ?_⟩
          · simp only [List.filter_cons, hp, if_true]
            rw [runW_cons, hap, hLs]
            show Ls ++ st'.applied = _
            rw [happ1]
            simp
          · intro x hx'
            rw [absNames_cons_ok hr]
            rcases List.mem_append.mp hx' with hx' | hx'
            · obtain ⟨⟨q', hq', e⟩, hn⟩ := hx x hx'
              exact ⟨⟨q', List.mem_cons_of_mem _ hq', e⟩, fun n hn' => List.mem_append_right _ (hn n hn')⟩
            · simp only [List.mem_singleton] at hx'
              subst hx'
              refine ⟨⟨q, List.mem_cons_self .., hp, hidx1, hpn1, hfp1, chooseA_is_name _ _ _ _ _ hch0⟩, ?_⟩
              intro n hn
              apply List.mem_append_left
              rw [BackupRefine.stNames_eq hfp1 hch0] at hn
              rw [hidx1, hpn1]
              exact List.mem_map_of_mem hn
    | false =>
      have hqA := owns_out ht hqe hp
      have hag' : ∀ n, namesOf patches threads i (components n) → look (ofMem s.st.mem) fs n = look r.tree fs n := by
        intro n hn
        rw [Par.applyFP_frame t0 fs cfg q.entry q.fp r hr n (fun hm => hqA _ hm hn)]
        exact hag n hn
      obtain ⟨Ls, hLs, hx⟩ := ih r.tree t1 outs0 s hG' hL hall0 herr hinv hag'
      refine ⟨Ls, ?_, ?_⟩
      · simp only [List.filter_cons, hp, Bool.false_eq_true, if_false]
        exact hLs
      · intro x hx'
        rw [absNames_cons_ok hr]
        obtain ⟨⟨q', hq', e⟩, hn⟩ := hx x hx'
        exact ⟨⟨q', List.mem_cons_of_mem _ hq', e⟩, fun n hn' => List.mem_append_right _ (hn n hn')⟩


theorem absNames_append_ok : ∀ (L1 L2 : List QEntry) (t0 t1 : ATree) (o1 : List Out),
    absRun fs cfg t0 L1 = .ok (t1, o1) →
    absNames fs cfg t0 (L1 ++ L2) = absNames fs cfg t0 L1 ++ absNames fs cfg t1 L2 := by
  intro L1
  induction L1 with
  | nil =>
    intro L2 t0 t1 o1 h
    simp only [absRun] at h
    cases h
    rfl
  | cons q L1 ih =>
    intro L2 t0 t1 o1 h
    obtain ⟨r, outs0, hr, hL, _⟩ := absRun_cons_ok h
    rw [List.cons_append, absNames_cons_ok hr, absNames_cons_ok hr, ih L2 r.tree t1 outs0 hL, List.append_assoc]

theorem absNames_mkEntries (j : Nat) (e : Series.Entry) : ∀ (fps : List PFilePatch) (t : ATree),
    absNames fs cfg t (mkEntries j e fps) =
      (BackupRefine.fpsNames fs cfg e fps t).map (fun n => (j, e.name, n)) := by
  intro fps
  induction fps with
  | nil => intro t; rfl
  | cons fp fps ih =>
    intro t
    simp only [mkEntries, List.map_cons, absNames, BackupRefine.fpsNames]
    cases applyFP t fs cfg e fp with
    | error x => rfl
    | ok r =>
      simp only [List.map_append]
      rw [← ih r.tree]
      rfl

theorem absRun_append_ok {L1 L2 : List QEntry} {t0 t2 : ATree} {outs : List Out}
    (h : absRun fs cfg t0 (L1 ++ L2) = .ok (t2, outs)) :
    ∃ t1 o1 o2, absRun fs cfg t0 L1 = .ok (t1, o1) ∧ absRun fs cfg t1 L2 = .ok (t2, o2) ∧ outs = o1 ++ o2 := by
  rw [absRun_append] at h
  cases h1 : absRun fs cfg t0 L1 with
  | error x => rw [h1] at h; cases h
  | ok r1 =>
    obtain ⟨t1, o1⟩ := r1
    rw [h1] at h
    simp only at h
    cases h2 : absRun fs cfg t1 L2 with
    | error x => rw [h2] at h; cases h
    | ok r2 =>
      obtain ⟨t2', o2⟩ := r2
      rw [h2] at h
      cases h
      exact ⟨t1, o1, o2, rfl, h2, rfl⟩

theorem absRun_append_of {L1 L2 : List QEntry} {t0 t1 t2 : ATree} {o1 o2 : List Out}
    (h1 : absRun fs cfg t0 L1 = .ok (t1, o1)) (h2 : absRun fs cfg t1 L2 = .ok (t2, o2)) :
    absRun fs cfg t0 (L1 ++ L2) = .ok (t2, o1 ++ o2) := by
  rw [absRun_append, h1]
  simp only [h2]

/-- a name the abstract run of the entries of `patches` touches belongs to the patch with its index, is recorded under
that patch's name, and is among the names `fpsNames` lists for that patch over the tree after the patches before it -/
theorem absNames_entries : ∀ (patches : List (Series.Entry × List PFilePatch)) (k0 : Nat) (t0 t1 : ATree)
    (outs : List Out), absRun fs cfg t0 (allEntries patches k0) = .ok (t1, outs) →
    ∀ j pn n, (j, pn, n) ∈ absNames fs cfg t0 (allEntries patches k0) →
    ∃ e fps tj oj, patches[j - k0]? = some (e, fps) ∧ k0 ≤ j ∧ pn = e.name ∧
      absRun fs cfg t0 (allEntries (patches.take (j - k0)) k0) = .ok (tj, oj) ∧ (∀ o ∈ oj, o ∈ outs) ∧
      n ∈ BackupRefine.fpsNames fs cfg e fps tj := by
  intro patches
  induction patches with
  | nil =>
    intro k0 t0 t1 outs _ j pn n hm
    simp [allEntries, absNames] at hm
  | cons p rest ih =>
    intro k0 t0 t1 outs h j pn n hm
    obtain ⟨e, fps⟩ := p
    rw [allEntries_cons] at h hm
    obtain ⟨t', o1, o2, h1, h2, houts⟩ := absRun_append_ok h
    rw [absNames_append_ok _ _ _ _ _ h1, List.mem_append] at hm
    rcases hm with hm | hm
    · rw [absNames_mkEntries, List.mem_map] at hm
      obtain ⟨n', hn', heq⟩ := hm
      simp only [Prod.mk.injEq] at heq
      obtain ⟨rfl, rfl, rfl⟩ := heq
      refine ⟨e, fps, t0, [], by simp, Nat.le_refl _, rfl, by simp [allEntries, absRun], (fun o ho => by cases ho), hn'⟩
    · obtain ⟨e', fps', tj, oj, g1, g2, g3, g4, g5, g6⟩ := ih (k0 + 1) t' t1 o2 h2 j pn n hm
      have hj : j - k0 = (j - (k0 + 1)) + 1 := by omega
      refine ⟨e', fps', tj, o1 ++ oj, by rw [hj, List.getElem?_cons_succ]; exact g1, by omega, g3, ?_, ?_, g6⟩
      · rw [hj, List.take_succ_cons, allEntries_cons]
        exact absRun_append_of h1 g4
      · intro o ho
        rw [houts]
        rcases List.mem_append.mp ho with ho | ho
        · exact List.mem_append_left _ ho
        · exact List.mem_append_right _ (g5 o ho)

/-- a run of the entries of `patches` in which every file patch applies cleanly: `absRange` applies all of them -/
theorem absRange_of_all_ok : ∀ (patches : List (Series.Entry × List PFilePatch)) (k0 : Nat) (t0 t1 : ATree)
    (outs : List Out), absRun fs cfg t0 (allEntries patches k0) = .ok (t1, outs) → (∀ o ∈ outs, o.ok = true) →
    absRange fs cfg patches k0 t0 = .ok (t1, k0 + patches.length, []) := by
  intro patches
  induction patches with
  | nil =>
    intro k0 t0 t1 outs h _
    simp only [allEntries, absRun] at h
    cases h
    rfl
  | cons p rest ih =>
    intro k0 t0 t1 outs h hall
    obtain ⟨e, fps⟩ := p
    rw [allEntries_cons] at h
    obtain ⟨t', o1, o2, h1, h2, houts⟩ := absRun_append_ok h
    have hF := applyFPs_absRun (fs := fs) (cfg := cfg) k0 e fps t0 true []
    rw [h1] at hF
    have hall1 : o1.all (·.ok) = true := by
      rw [List.all_eq_true]
      intro o ho
      exact hall o (by rw [houts]; exact List.mem_append_left _ ho)
    simp only [Bool.true_and, List.append_nil, hall1] at hF
    have := ih (k0 + 1) t' t1 o2 h2 (fun o ho => hall o (by rw [houts]; exact List.mem_append_right _ ho))
    simp only [absRange, hF, if_true, this, List.length_cons]
    have : k0 + 1 + rest.length = k0 + (rest.length + 1) := by omega
    rw [this]


/-- **the `Status`es worker `i` hands to its save code**: each was pushed by one of the worker's file patches, carries
the index and the name of its patch, and its names (target; new name of a rename) are among the names `fpsNames` lists
for that patch over the tree after the patches before it -/
theorem stX_statuses (hP : Parsed patches) (ht : 0 < threads) {k : Nat} {t : ATree}
    (hstop : Stop fs cfg patches k t) (i : Nat) : ∀ x ∈ (stX fs cfg patches threads k i).applied,
    (∃ q ∈ allEntries patches 0, owns patches threads i q = true ∧ x.index = q.idx ∧ x.patchName = q.entry.name ∧
      x.fp = q.fp ∧ (q.fp.old = some x.target ∨ q.fp.new = some x.target)) ∧
    ∀ n ∈ BackupRefine.stNames x, ∃ e fps tj, patches[x.index]? = some (e, fps) ∧ x.index < k ∧
      x.patchName = e.name ∧ absRange fs cfg (patches.take x.index) 0 [] = .ok (tj, x.index, []) ∧
      n ∈ BackupRefine.fpsNames fs cfg e fps tj := by
  obtain ⟨outs, hrun, hok⟩ := hstop.pre
  obtain ⟨Ls, hLs, hx⟩ := worker_statuses (fs := fs) (cfg := cfg) hP ht i (allEntries (patches.take k) 0) [] t outs
    { st := {} } (fun q hq => (mem_take_entries hq).1) hrun hok rfl (mInv_nil fs _) (fun _ _ => rfl)
  have happ : (stX fs cfg patches threads k i).applied = Ls := by
    unfold stX qX
    rw [hLs]
    simp
  intro x hxm
  rw [happ] at hxm
  obtain ⟨⟨q, hq, e1⟩, hn⟩ := hx x hxm
  refine ⟨⟨q, (mem_take_entries hq).1, e1⟩, fun n hnm => ?_⟩
  obtain ⟨e, fps, tj, oj, g1, _, g3, g4, g5, g6⟩ :=
    absNames_entries (fs := fs) (cfg := cfg) (patches.take k) 0 [] t outs hrun _ _ _ (hn n hnm)
  simp only [Nat.sub_zero] at g1 g4
  rw [List.getElem?_take] at g1
  have hlt : x.index < k := by
    apply Classical.byContradiction
    intro h
    rw [if_neg h] at g1
    cases g1
  rw [if_pos hlt] at g1
  have hlen : x.index < patches.length := (List.getElem?_eq_some_iff.mp g1).1
  have htt : (patches.take k).take x.index = patches.take x.index := by
    rw [List.take_take, Nat.min_eq_left (Nat.le_of_lt hlt)]
  rw [htt] at g4
  have hr := absRange_of_all_ok (fs := fs) (cfg := cfg) _ 0 [] tj oj g4 (fun o ho => hok o (g5 o ho))
  have hl : (patches.take x.index).length = x.index := by
    rw [List.length_take]; omega
  rw [hl, Nat.zero_add] at hr
  exact ⟨e, fps, tj, g1, hlt, g3, hr, g6⟩

end Statuses

/-! ## 4. The keys the workers touch in the save phase are prefix-free (`hdisj`) -/

section Keys
open RQ.Abs RQ.BackupDisk
variable {fs : FS} {cfg : Cfg} {range : List Series.Entry} {patches : List (Series.Entry × List PFilePatch)}
  {threads : Nat}

theorem mem_fpNames_inv {fp : PFilePatch} {c : List Comp} (h : c ∈ Par.fpNames fp) :
    ∃ n, (fp.old = some n ∨ fp.new = some n) ∧ c = components n := by
  unfold Par.fpNames at h
  rcases List.mem_append.mp h with h | h
  · cases ho : fp.old with
    | none => rw [ho] at h; cases h
    | some o =>
      rw [ho] at h
      simp only [List.mem_singleton] at h
      exact ⟨o, .inl rfl, h⟩
  · cases hn : fp.new with
    | none => rw [hn] at h; cases h
    | some n =>
      rw [hn] at h
      simp only [List.mem_singleton] at h
      exact ⟨n, .inr rfl, h⟩

/-- `n`, with path `key`, is a name of worker `i` that a patch of the range mentions -/
structure WName (fs : FS) (cfg : Cfg) (range : List Series.Entry) (patches : List (Series.Entry × List PFilePatch))
    (threads i : Nat) (n : Bytes) (key : Key) : Prop where
  hkey : safeKey n = some key
  nocur : Comp.cur ∉ components n
  mine : namesOf patches threads i (components n)
  inRange : key ∈ rangeKeys fs cfg range
  notOwn : ¬ Own cfg key

theorem wname_of_fp (hparse : parseRange fs cfg range = some patches) (hclean : Compose.Clean cfg fs range)
    {i : Nat} {q : QEntry} (hq : q ∈ allEntries patches 0) (hown : owns patches threads i q = true) {n : Bytes}
    (hn : q.fp.old = some n ∨ q.fp.new = some n) {key : Key} (hk : safeKey n = some key) :
    WName fs cfg range patches threads i n key := by
  have hP : Parsed patches := parsed_of_parseRange hparse
  obtain ⟨he, patch, hp, hfp⟩ := entry_patchOf hparse hq
  refine ⟨hk, (parsed_entry hP 0 q hq).1.nocur n hn, ?_, (namesIn_rangeKeys he hp hfp n hn).2 key hk,
    hclean.names _ he patch hp _ hfp n hn key hk⟩
  rcases hn with hn | hn
  · exact owns_in hq hown _ (mem_fpNames_old hn)
  · exact owns_in hq hown _ (mem_fpNames_new hn)

theorem wname_of_names (hparse : parseRange fs cfg range = some patches) (hclean : Compose.Clean cfg fs range)
    {i : Nat} {n : Bytes} {key : Key} (hk : safeKey n = some key) (hc : Comp.cur ∉ components n)
    (hm : namesOf patches threads i (components n)) : WName fs cfg range patches threads i n key := by
  obtain ⟨q, hq, hw, hcq⟩ := hm
  obtain ⟨n', hn', hcomp⟩ := mem_fpNames_inv hcq
  have hk' : safeKey n' = some key := by rw [← safeKey_congr hcomp]; exact hk
  have hown : owns patches threads i q = true := by simp [owns, hw]
  have h := wname_of_fp (threads := threads) hparse hclean hq hown hn' hk'
  exact ⟨hk, hc, ⟨q, hq, hw, hcq⟩, h.inRange, h.notOwn⟩

theorem wname_of_mem (hparse : parseRange fs cfg range = some patches) (hclean : Compose.Clean cfg fs range)
    {i : Nat} {m : Mem} (hg : Disk.MemGood m) (hin : MemIn (namesOf patches threads i) m)
    {e : List Comp × Bytes × FileSt Bytes} (he : e ∈ m) {key : Key} (hk : safeKey e.2.1 = some key) :
    WName fs cfg range patches threads i e.2.1 key := by
  obtain ⟨e1, e2⟩ := hg.nocur e he
  exact wname_of_names hparse hclean hk (e1 ▸ e2) (e1 ▸ hin e he)

theorem spre_of_prefix_ne {k k' : Key} (h : k <+: k') (hne : k ≠ k') : SPre k k' := by
  obtain ⟨t, rfl⟩ := h
  cases t with
  | nil => simp at hne
  | cons a t => exact ⟨by simp, List.take_left⟩

/-- names of different workers: neither path is the other or below it -/
theorem wname_apart (ht : 0 < threads) (hpf : PrefixFree fs cfg range) {i j : Nat} (hij : i ≠ j) {n n' : Bytes}
    {key key' : Key} (h1 : WName fs cfg range patches threads i n key)
    (h2 : WName fs cfg range patches threads j n' key') : ¬ key <+: key' := by
  intro hpre
  by_cases heq : key = key'
  · subst heq
    have hc : components n = components n' := by
      rw [safeKey_components_of_no_cur h1.hkey h1.nocur, safeKey_components_of_no_cur h2.hkey h2.nocur]
    exact hij (namesOf_unique ht h1.mine (hc ▸ h2.mine))
  · exact hpf key h1.inRange key' h2.inRange (spre_of_prefix_ne hpre heq)

/-- `bk` is the path `.pc/<patch>/<name>` of a backup file for a name of worker `i` -/
def IsBKey (fs : FS) (cfg : Cfg) (range : List Series.Entry) (patches : List (Series.Entry × List PFilePatch))
    (threads i : Nat) (bk : Key) : Prop :=
  ∃ e pa n ka, e ∈ range ∧ (∃ patch, patchOf fs cfg e = some patch) ∧ safeKey e.name = some pa ∧
    WName fs cfg range patches threads i n ka ∧ bk = [[46, 112, 99]] ++ pa ++ ka

theorem mem_backupKeys' {ss : List Status} {downTo : Nat} {k : Key} (h : k ∈ backupKeys ss downTo) :
    ∃ s ∈ ss, downTo ≤ s.index ∧ ∃ name ∈ BackupRefine.stNames s, pcKey s.patchName name = some k := by
  induction ss with
  | nil => cases h
  | cons s rest ih =>
    unfold backupKeys at h
    split at h
    · cases h
    · rename_i hlt
      rcases List.mem_append.mp h with h | h
      · rcases List.mem_append.mp h with h | h
        · exact ⟨s, List.mem_cons_self .., by omega, s.target, by simp [BackupRefine.stNames], Option.mem_toList.mp h⟩
        · split at h
          · rename_i hren
            cases hn : s.fp.new with
            | none => rw [hn] at h; cases h
            | some n =>
              rw [hn] at h
              exact ⟨s, List.mem_cons_self .., by omega, n, by simp [BackupRefine.stNames, hren, hn],
                Option.mem_toList.mp h⟩
          · cases h
      · obtain ⟨s', hs', r⟩ := ih h
        exact ⟨s', List.mem_cons_of_mem _ hs', r⟩

theorem isBKey_of_status (hparse : parseRange fs cfg range = some patches) (hclean : Compose.Clean cfg fs range)
    {i : Nat} {x : Status}
    (hx : ∃ q ∈ allEntries patches 0, owns patches threads i q = true ∧ x.index = q.idx ∧
      x.patchName = q.entry.name ∧ x.fp = q.fp ∧ (q.fp.old = some x.target ∨ q.fp.new = some x.target))
    {n : Bytes} (hn : n ∈ BackupRefine.stNames x) {bk : Key} (hk : pcKey x.patchName n = some bk) :
    IsBKey fs cfg range patches threads i bk := by
  obtain ⟨q, hq, hown, _, hpn, hfp, htgt⟩ := hx
  have hname : q.fp.old = some n ∨ q.fp.new = some n := by
    unfold BackupRefine.stNames at hn
    rcases List.mem_cons.mp hn with rfl | hn
    · exact htgt
    · split at hn
      · rw [hfp] at hn
        exact .inr (Option.mem_toList.mp hn)
      · cases hn
  obtain ⟨he, patch, hp, _⟩ := entry_patchOf hparse hq
  unfold pcKey at hk
  split at hk
  · rename_i pa ka hpa hka
    cases hk
    exact ⟨q.entry, pa, n, ka, he, ⟨patch, hp⟩, by rw [← hpn]; exact hpa,
      wname_of_fp hparse hclean hq hown hname hka, rfl⟩
  · cases hk

theorem isBKey_head {i : Nat} {bk : Key} (h : IsBKey fs cfg range patches threads i bk) : isPcKey bk := by
  obtain ⟨e, pa, n, ka, _, _, _, _, rfl⟩ := h
  rfl

/-- backup paths of different workers: neither is the other or below it -/
theorem bkey_apart (ht : 0 < threads) (hclean : Compose.Clean cfg fs range) (hpf : PrefixFree fs cfg range)
    {i j : Nat} (hij : i ≠ j) {bk bk' : Key} (h1 : IsBKey fs cfg range patches threads i bk)
    (h2 : IsBKey fs cfg range patches threads j bk') : ¬ bk <+: bk' := by
  obtain ⟨ea, pa, na, ka, hea, ⟨patcha, hpa⟩, hka, wa, rfl⟩ := h1
  obtain ⟨eb, pb, nb, kb, heb, ⟨patchb, hpb⟩, hkb, wb, rfl⟩ := h2
  intro hpre
  rw [List.append_assoc, List.append_assoc, List.prefix_append_right_inj] at hpre
  obtain ⟨d, pa', xa, hd, hka', hra⟩ := patchOf_read hpa
  obtain ⟨d', pb', xb, hd', hkb', hrb⟩ := patchOf_read hpb
  rw [hd] at hd'
  cases hd'
  rw [hka] at hka'
  cases hka'
  rw [hkb] at hkb'
  cases hkb'
  have hpab : pa = pb := by
    rcases List.prefix_or_prefix_of_prefix ((List.prefix_append pa ka).trans hpre) (List.prefix_append pb kb) with
      h | h
    · exact readFile_prefix_eq hra hrb h ((hclean ea hea).nameOK pa hka).1
    · exact (readFile_prefix_eq hrb hra h ((hclean eb heb).nameOK pb hkb).1).symm
  subst hpab
  rw [List.prefix_append_right_inj] at hpre
  exact wname_apart ht hpf hij wa wb hpre

theorem wname_bkey_apart {i j : Nat} {n : Bytes} {key bk : Key} (h1 : WName fs cfg range patches threads i n key)
    (h2 : IsBKey fs cfg range patches threads j bk) : ¬ key <+: bk ∧ ¬ bk <+: key := by
  have hne := key_ne_nil h1.nocur h1.hkey
  have hnpc : ¬ isPcKey key := not_pc_of_not_own h1.notOwn
  have hb := isBKey_head h2
  unfold isPcKey at hnpc hb
  constructor
  · rintro ⟨t, rfl⟩
    cases key with
    | nil => exact hne rfl
    | cons a r => exact hnpc (by simpa using hb)
  · rintro ⟨t, rfl⟩
    cases bk with
    | nil => simp at hb
    | cons a r => exact hnpc (by simpa using hb)


/-- every key a worker may touch in the save phase is the path of one of its names, or a backup path for one -/
theorem saveKeys_kind (hparse : parseRange fs cfg range = some patches) (hclean : Compose.Clean cfg fs range)
    (ht : 0 < threads) (hdry : cfg.dryRun = false) {k : Nat} {t : ATree} {outsK : List Out}
    (hc : Par.Clean fs cfg patches k t outsK) {schedA : List Nat} {pr : ParResult}
    (hr : parMemory fs cfg patches threads schedA = some (.ok pr))
    (pm : ParMem fs cfg patches threads k t outsK pr) (final N : Nat) {i : Nat} (hi : i < threads) {key : Key}
    (hk : key ∈ saveKeys cfg final N (fun i => (pr.sts i).mem) (fun i => (pr.sts i).applied) i) :
    (∃ n, WName fs cfg range patches threads i n key) ∨ IsBKey fs cfg range patches threads i key := by
  have hP : Parsed patches := parsed_of_parseRange hparse
  unfold saveKeys workerKeys at hk
  simp only [hdry, Bool.false_eq_true, if_false] at hk
  rcases List.mem_append.mp hk with hk | hk
  · obtain ⟨e, he, hke⟩ := mem_memKeys.mp hk
    exact .inl ⟨e.2.1, wname_of_mem hparse hclean (pm.good i) (pm.inNames i) he hke⟩
  · split at hk
    · obtain ⟨s, hs, _, n, hn, hpk⟩ := mem_backupKeys' hk
      obtain ⟨happ, _⟩ := worker_final hP ht hc hdry hr i hi
      rw [happ] at hs
      exact .inr (isBKey_of_status hparse hclean (stX_statuses hP ht hc.stop i s hs).1 hn hpk)
    · cases hk

/-- **`hdisj`**: the keys of different workers are prefix-free — the paths of names of different workers are different
(C07) and not inside one another (`PrefixFree`); backup paths lie below `.pc`, the paths of names do not; backup paths
`.pc/<patch>/<name>` of different workers differ in `<name>` once the patches are the same, and different readable patch
files are not inside one another -/
theorem keysDisjoint_static (hparse : parseRange fs cfg range = some patches) (hclean : Compose.Clean cfg fs range)
    (hpf : PrefixFree fs cfg range) (ht : 0 < threads) (hdry : cfg.dryRun = false) {k : Nat} {t : ATree}
    {outsK : List Out} (hc : Par.Clean fs cfg patches k t outsK) {schedA : List Nat} {pr : ParResult}
    (hr : parMemory fs cfg patches threads schedA = some (.ok pr))
    (pm : ParMem fs cfg patches threads k t outsK pr) (final N : Nat) :
    KeysDisjoint (saveKeys cfg final N (fun i => (pr.sts i).mem) (fun i => (pr.sts i).applied)) threads := by
  intro i hi j hj hij key hk key' hk'
  rcases saveKeys_kind hparse hclean ht hdry hc hr pm final N hi hk with ⟨n, h1⟩ | h1 <;>
    rcases saveKeys_kind hparse hclean ht hdry hc hr pm final N hj hk' with ⟨n', h2⟩ | h2
  · exact wname_apart ht hpf hij h1 h2
  · exact (wname_bkey_apart h1 h2).1
  · exact (wname_bkey_apart h2 h1).2
  · exact bkey_apart ht hclean hpf hij h1 h2

end Keys

/-! ## 5. The reject files: success does not depend on the order, when no reject path is a directory of another -/

section Rejects
open RQ.Write
open RQ.Refine2 (putPlain)
open RQ.BackupDisk (isFile_iff_fileAt)
open RQ.ParRefine (op_dir saveRejFiles_tinv putFile_step)


/-- a reject file can be written at `k` (or is skipped because its directory does not exist, or bypassed because
something on the way to it is a regular file: `ENOTDIR`) -/
structure RejOK (fs : FS) (k : Key) : Prop where
  ne : k ≠ []
  notDir : fs.fileOnPath k = false → fs.isDir k.dropLast = true → fs.lookup k ≠ some .dir

-- R4: `RejOK` only looks outside `.pc`
theorem RejOK.outside {a b : FS} {k : Key} (h : OutsidePc a b) (hk : ¬ isPcKey k) (ha : RejOK a k) : RejOK b k := by
  refine ⟨ha.ne, ?_⟩
  intro hp hd hl
  rw [← h.fileOnPath_eq hk] at hp
  rw [← h.isDir_eq (not_isPcKey_dropLast hk)] at hd
  exact ha.notDir hp hd (op_dir h.symm hk hl)

/-! ### one reject file, seen from the other reject paths -/

theorem lookup_dir_iff_isDir {fs : FS} {k : Key} (hk : k ≠ []) : fs.lookup k = some .dir ↔ fs.isDir k = true := by
  unfold FS.isDir
  have hkb : (k == []) = false := by simpa using hk
  rw [hkb]
  simp

/-- what writing one reject file at `k` does to the tree: no directory appears or disappears, `k` holds a regular file
afterwards, every other path holds the regular file it held (or none) -/
structure FStep (a b : FS) (k : Key) : Prop where
  dir : ∀ p, b.isDir p = a.isDir p
  other : ∀ q, q ≠ k → fileAt b q = fileAt a q
  self : fileAt b k ≠ none

/-- forward: a reject path `k'` stays writable, unless the written path is a strict prefix of it -/
theorem RejOK.fwd {a b : FS} {k k' : Key} (h : FStep a b k) (hs : ¬ SPre k k') (ha : RejOK a k') : RejOK b k' := by
  refine ⟨ha.ne, ?_⟩
  intro hp hd hl
  have hpa : a.fileOnPath k' = false := by
    rw [fileOnPath_false_iff] at hp ⊢
    intro q hq hq0 hf
    have hqk : q ≠ k := fun e => hs (e ▸ hq)
    have h1 := isFile_iff_fileAt.mp hf
    rw [← h.other q hqk] at h1
    exact hp q hq hq0 (isFile_iff_fileAt.mpr h1)
  rw [h.dir] at hd
  have h2 := (lookup_dir_iff_isDir ha.ne).mp hl
  rw [h.dir] at h2
  exact ha.notDir hpa hd ((lookup_dir_iff_isDir ha.ne).mpr h2)

/-- backward: a reject path that is writable afterwards was writable before.  If the written path `k` is on the way to
`k'`: `k` was no directory, so — on a tree whose nodes have directories as parents — the directory of `k'` did not
exist -/
theorem RejOK.bwd {a b : FS} {k k' : Key} (h : FStep a b k) (hwf : WFo a) (hpc : ¬ isPcKey k') (hk0 : k ≠ [])
    (hnd : a.lookup k ≠ some .dir) (hb : RejOK b k') : RejOK a k' := by
  refine ⟨hb.ne, ?_⟩
  intro hp hd hl
  by_cases hs : SPre k k'
  · have hkl : 0 < k.length := List.length_pos_iff.mpr hk0
    have hdl : k'.dropLast ≠ [] := by
      intro e
      have := congrArg List.length e
      rw [List.length_dropLast] at this
      simp only [List.length_nil] at this
      have := hs.1
      omega
    have hdir : a.lookup k'.dropLast = some .dir := (lookup_dir_iff_isDir hdl).mpr hd
    rcases spre_dropLast_or_eq hs with e | hs'
    · rw [← e] at hdir; exact hnd hdir
    · have := hwf k'.dropLast (not_isPcKey_dropLast hpc) _ hdir k.length hkl hs'.1
      rw [hs'.2] at this
      exact hnd this
  · have hpb : b.fileOnPath k' = false := by
      rw [fileOnPath_false_iff] at hp ⊢
      intro q hq hq0 hf
      have hqk : q ≠ k := fun e => hs (e ▸ hq)
      have h1 := isFile_iff_fileAt.mp hf
      rw [h.other q hqk] at h1
      exact hp q hq hq0 (isFile_iff_fileAt.mpr h1)
    rw [← h.dir] at hd
    have h2 := (lookup_dir_iff_isDir hb.ne).mp hl
    rw [← h.dir] at h2
    exact hb.notDir hpb hd ((lookup_dir_iff_isDir hb.ne).mpr h2)

/-- the driver's unlink–create–write is such a step -/
theorem putPlain_fstep {a b' : FS} {k : Key} {c : Bytes} (hp : putPlain a k c = .ok b') : FStep a b' k := by
  unfold putPlain at hp
  cases hc : (unlinked a k).createFile k with
  | error e => rw [hc] at hp; cases hp
  | ok b2 =>
    rw [hc] at hp
    simp only [Except.ok.injEq] at hp
    subst hp
    have hud : ∀ p, (unlinked a k).isDir p = a.isDir p := by
      intro p
      unfold unlinked
      cases har : a.removeFile k with
      | error e => rfl
      | ok a0 => exact removeFile_isDir har p
    obtain ⟨hne, _⟩ := unlink_cases a k
    obtain ⟨_, _, _, m, i, hl, _⟩ := createFile_spec hc
    refine ⟨fun p => by rw [appendBytes_isDir, createFile_isDir hc, hud], fun q hq => ?_, ?_⟩
    · rw [appendBytes_fileAt_ne _ _ _ _ hq, createFile_fileAt_ne hc hq, fileAt_congr (hne q hq)]
    · rw [appendBytes_fileAt_self, fileAt_of_lookup_file hl]
      simp

/-- a writable reject path whose directory exists: the unlink does not fail and create/write succeed -/
theorem putPlain_of_rejOK {a : FS} {k : Key} (c : Bytes) (hok : RejOK a k) (hfp0 : a.fileOnPath k = false)
    (hd : a.isDir k.dropLast = true) :
    a.removeFile k ≠ .error .other ∧ ∃ b', putPlain a k c = .ok b' := by
  have hnd := hok.notDir hfp0 hd
  constructor
  · rcases removeFile_cases hok.ne hfp0 hnd with ⟨h, _⟩ | ⟨h, _⟩ <;> rw [h] <;> intro e <;> cases e
  · obtain ⟨hne, hself⟩ := unlink_cases a k
    have hun : (unlinked a k).lookup k = none := by
      rcases hself with ⟨e, _⟩ | ⟨_, hbad⟩
      · exact e
      · rcases hbad with hb | hb
        · rw [hfp0] at hb; cases hb
        · exact absurd hb hnd
    have hfp : (unlinked a k).fileOnPath k = false := by
      have := fileOnPath_congr (a := a) (b := unlinked a k) (k := k) (fun q hs => by rw [hne q (spre_ne hs)])
      rw [this]; exact hfp0
    have hdir : (unlinked a k).isDir k.dropLast = true := by
      have hdk : k.dropLast ≠ k := spre_ne (dropLast_spre hok.ne)
      unfold FS.isDir at hd ⊢
      rw [hne _ hdk]; exact hd
    unfold putPlain
    rw [createFile_new hok.ne hfp hdir hun]
    exact ⟨_, rfl⟩

/-- one round of the driver's loop -/
theorem rej_one {w : World} {S : List Key} {name content : Bytes} {rest : List (Bytes × Bytes)} {k : Key}
    (hf : w.faultAt = none) (hi : TInv w.fs S) (hk : safeKey name = some k) (hpc : ¬ isPcKey k)
    (hok : RejOK w.fs k) :
    ∃ w1, saveRejFiles w ((name, content) :: rest) = saveRejFiles w1 rest ∧ w1.faultAt = none ∧ TInv w1.fs S ∧
      ∀ k', RejOK w.fs k' → ¬ SPre k k' → RejOK w1.fs k' := by
  cases hfp : w.fs.fileOnPath k with
  | true =>
    obtain ⟨w1, e1, f1, hfs⟩ := rej_blocked (content := content) (rest := rest) hf hk hfp
    exact ⟨w1, e1, f1, by rw [hfs]; exact hi, fun k' h _ => by rw [hfs]; exact h⟩
  | false =>
  cases hd : w.fs.isDir k.dropLast with
  | false =>
    obtain ⟨w1, e1, f1, hfs⟩ := rej_skip (content := content) (rest := rest) hf hk hpc hi.wf hfp hd
    exact ⟨w1, e1, f1, by rw [hfs]; exact hi, fun k' h _ => by rw [hfs]; exact h⟩
  | true =>
    obtain ⟨hrm, b', hpl⟩ := putPlain_of_rejOK content hok hfp hd
    obtain ⟨w0, e0, _, hfs0⟩ := rej_write (rest := []) hf hk hfp hrm hpl
    have ht : TInv b' S := by
      rw [← hfs0]
      refine saveRejFiles_tinv [(name, content)] w w0 S hi ?_
      rw [e0]; unfold saveRejFiles; rfl
    obtain ⟨w1, e1, f1, hfs⟩ := rej_write (rest := rest) hf hk hfp hrm hpl
    have hstep := putPlain_fstep hpl
    exact ⟨w1, e1, f1, by rw [hfs]; exact ht, fun k' h hs => by rw [hfs]; exact RejOK.fwd hstep hs h⟩

-- R1: the specification wrote all its reject files: each of them could have been written FIRST
theorem putRejects_rejOK : ∀ (rejs : List (Bytes × Bytes)), RejsOut rejs → ∀ (a a' : FS) (S : List Key),
    TInv a S → putRejects a rejs = .ok a' → ∀ r ∈ rejs, ∃ k, safeKey r.1 = some k ∧ RejOK a k := by
  intro rejs
  induction rejs with
  | nil => intro _ a a' S _ _ r hr; cases hr
  | cons r0 rest ih =>
    obtain ⟨name, content⟩ := r0
    intro hr a a' S hi h r hm
    have hrest : RejsOut rest := fun r hm => hr r (List.mem_cons_of_mem _ hm)
    unfold putRejects at h
    cases hk : safeKey name with
    | none => rw [hk] at h; cases h
    | some k =>
      rw [hk] at h
      simp only at h
      have hk' : ¬ isPcKey k := hr (name, content) (List.mem_cons_self ..) k hk
      split at h
      · -- something on the way to `k` is a regular file: the reject is bypassed on both sides
        rename_i hfp
        rcases List.mem_cons.mp hm with e | hm'
        · subst e
          refine ⟨k, hk, ?_, fun hp => ?_⟩
          · intro e; subst e; simp [FS.fileOnPath] at hfp
          · rw [hp] at hfp; cases hfp
        · exact ih hrest a a' S hi h r hm'
      · rename_i hfp
        have hfp' : a.fileOnPath k = false := by simpa using hfp
        cases hd : a.isDir k.dropLast with
        | false =>
          rw [hd] at h
          simp only [Bool.not_false, if_true] at h
          rcases List.mem_cons.mp hm with e | hm'
          · subst e
            refine ⟨k, hk, ?_, fun _ hd' => ?_⟩
            · intro e; subst e; simp [FS.isDir] at hd
            · rw [hd] at hd'; cases hd'
          · exact ih hrest a a' S hi h r hm'
        | true =>
          rw [hd] at h
          simp only [Bool.not_true, Bool.false_eq_true, if_false] at h
          split at h
          · cases h
          · rename_i a1 ha1
            rcases List.mem_cons.mp hm with e | hm'
            · subst e
              have ho := okw_of_putFile ha1
              exact ⟨k, hk, ho.ne, fun _ _ => ho.notDir⟩
            · obtain ⟨s1, s2, s3, s4⟩ := putFile_step hi hk' hd hfp' ha1
              obtain ⟨k2, hk2, hok⟩ := ih hrest a1 a' S s1 h r hm'
              have ho := okw_of_putFile ha1
              exact ⟨k2, hk2, RejOK.bwd ⟨s2, s4, by rw [s3]; simp⟩ hi.wf
                (hr r (List.mem_cons_of_mem _ hm') k2 hk2) ho.ne ho.notDir hok⟩

-- R2: the driver's loop over one list
theorem saveRejFiles_succeeds' : ∀ (rejs : List (Bytes × Bytes)) (w : World) (S : List Key),
    w.faultAt = none → TInv w.fs S → RejsOut rejs →
    (∀ r ∈ rejs, ∃ k, safeKey r.1 = some k ∧ RejOK w.fs k) →
    (∀ r ∈ rejs, ∀ r' ∈ rejs, ∀ k k', safeKey r.1 = some k → safeKey r'.1 = some k' → ¬ SPre k k') →
    ∃ w', saveRejFiles w rejs = .ok w' ∧ w'.faultAt = none ∧ TInv w'.fs S ∧
      ∀ k', RejOK w.fs k' → (∀ r ∈ rejs, ∀ k, safeKey r.1 = some k → ¬ SPre k k') → RejOK w'.fs k' := by
  intro rejs
  induction rejs with
  | nil =>
    intro w S hf hi _ _ _
    exact ⟨w, by unfold saveRejFiles; rfl, hf, hi, fun k' h _ => h⟩
  | cons r0 rest ih =>
    obtain ⟨name, content⟩ := r0
    intro w S hf hi hr hall hpair
    have hrest : RejsOut rest := fun r hm => hr r (List.mem_cons_of_mem _ hm)
    have hm0 : (name, content) ∈ (name, content) :: rest := List.mem_cons_self ..
    obtain ⟨k, hk, hok⟩ := hall (name, content) hm0
    have hk : safeKey name = some k := hk
    have hpc : ¬ isPcKey k := hr (name, content) hm0 k hk
    obtain ⟨w1, e1, f1, t1, p1⟩ := rej_one (content := content) (rest := rest) hf hi hk hpc hok
    obtain ⟨w', e2, f2, t2, p2⟩ := ih w1 S f1 t1 hrest
      (fun r hm => by
        obtain ⟨k2, hk2, hok2⟩ := hall r (List.mem_cons_of_mem _ hm)
        exact ⟨k2, hk2, p1 k2 hok2 (hpair (name, content) hm0 r (List.mem_cons_of_mem _ hm) k k2 hk hk2)⟩)
      (fun r hm r' hm' => hpair r (List.mem_cons_of_mem _ hm) r' (List.mem_cons_of_mem _ hm'))
    refine ⟨w', by rw [e1]; exact e2, f2, t2, fun k' hok' hns => ?_⟩
    exact p2 k' (p1 k' hok' (hns (name, content) hm0 k hk)) (fun r hm => hns r (List.mem_cons_of_mem _ hm))

/-- R3 with the clause "a reject path stays writable" carried along -/
theorem rejWorkers_succeeds_aux (rejs : Nat → List (Bytes × Bytes)) : ∀ (n : Nat) (w : World) (S : List Key),
    w.faultAt = none → TInv w.fs S → (∀ i, i < n → RejsOut (rejs i)) →
    (∀ i, i < n → ∀ r ∈ rejs i, ∃ k, safeKey r.1 = some k ∧ RejOK w.fs k) →
    (∀ i, i < n → ∀ j, j < n → ∀ r ∈ rejs i, ∀ r' ∈ rejs j, ∀ k k',
      safeKey r.1 = some k → safeKey r'.1 = some k' → ¬ SPre k k') →
    ∃ w', rejWorkers w rejs n = .ok w' ∧ w'.faultAt = none ∧ TInv w'.fs S ∧
      ∀ k', RejOK w.fs k' → (∀ i, i < n → ∀ r ∈ rejs i, ∀ k, safeKey r.1 = some k → ¬ SPre k k') →
        RejOK w'.fs k' := by
  intro n
  induction n with
  | zero =>
    intro w S hf hi _ _ _
    exact ⟨w, rfl, hf, hi, fun k' h _ => h⟩
  | succ n ih =>
    intro w S hf hi hout hall hpair
    have hn : n < n + 1 := Nat.lt_succ_self n
    obtain ⟨w1, e1, f1, t1, p1⟩ := ih w S hf hi (fun i h => hout i (Nat.lt_succ_of_lt h))
      (fun i h => hall i (Nat.lt_succ_of_lt h))
      (fun i h j h' => hpair i (Nat.lt_succ_of_lt h) j (Nat.lt_succ_of_lt h'))
    obtain ⟨w', e2, f2, t2, p2⟩ := saveRejFiles_succeeds' (rejs n) w1 S f1 t1 (hout n hn)
      (fun r hm => by
        obtain ⟨k, hk, hok⟩ := hall n hn r hm
        exact ⟨k, hk, p1 k hok (fun i h r' hm' k0 hk0 => hpair i (Nat.lt_succ_of_lt h) n hn r' hm' r hm k0 k hk0 hk)⟩)
      (hpair n hn n hn)
    have e : rejWorkers w rejs (n + 1) = saveRejFiles w1 (rejs n) := by
      rw [rejWorkers, e1]
    refine ⟨w', by rw [e]; exact e2, f2, t2, fun k' hok' hns => ?_⟩
    exact p2 k' (p1 k' hok' (fun i h => hns i (Nat.lt_succ_of_lt h))) (hns n hn)

-- R3: the main thread's loop over the workers' lists
theorem rejWorkers_succeeds (rejs : Nat → List (Bytes × Bytes)) : ∀ (n : Nat) (w : World) (S : List Key),
    w.faultAt = none → TInv w.fs S → (∀ i, i < n → RejsOut (rejs i)) →
    (∀ i, i < n → ∀ r ∈ rejs i, ∃ k, safeKey r.1 = some k ∧ RejOK w.fs k) →
    (∀ i, i < n → ∀ j, j < n → ∀ r ∈ rejs i, ∀ r' ∈ rejs j, ∀ k k',
      safeKey r.1 = some k → safeKey r'.1 = some k' → ¬ SPre k k') →
    ∃ w', rejWorkers w rejs n = .ok w' ∧ w'.faultAt = none ∧ TInv w'.fs S := by
  intro n w S hf hi hout hall hpair
  obtain ⟨w', e, f, t, _⟩ := rejWorkers_succeeds_aux rejs n w S hf hi hout hall hpair
  exact ⟨w', e, f, t⟩

end Rejects

/-! ## 6. Each worker's save succeeds alone from the starting tree (`hsolo`) -/

section Solo
open RQ.Abs RQ.BackupDisk RQ.BackupRefine
open RQ.ParSave (noIno noIno_cases)
variable {cfg : Cfg} {range : List Series.Entry} {patches : List (Series.Entry × List PFilePatch)} {threads : Nat}

theorem parseRange_getElem {fs : FS} (hparse : parseRange fs cfg range = some patches) {j : Nat}
    {e : Series.Entry} {fps : List PFilePatch} (h : patches[j]? = some (e, fps)) :
    range[j]? = some e ∧ ∃ patch, patchOf fs cfg e = some patch ∧ fps = patch.fps := by
  obtain ⟨hmap, hall⟩ := parseRange_patchOf range patches hparse
  obtain ⟨patch, hp, hfps⟩ := hall _ (List.mem_of_getElem? h)
  refine ⟨?_, patch, hp, hfps⟩
  rw [← hmap, List.getElem?_map, h]
  rfl

/-- the undo for the backups never aborts on a list of `Status`es that can be undone -/
theorem chain_backupCalls_total {fs : FS} {downTo : Nat} : ∀ (L : List Status) (m0 m M : Mem),
    Chain fs m0 L m → Ext fs m M → ∃ calls mem', backupCalls M L downTo = .ok (calls, mem') := by
  intro L
  induction L with
  | nil =>
    intro m0 m M _ _
    exact ⟨[], M, by rw [backupCalls]⟩
  | cons s L0 ih =>
    intro m0 m M hc hM
    obtain ⟨m1, hc0, hstep⟩ := hc
    by_cases hlt : s.index < downTo
    · exact ⟨[], M, by rw [backupCalls, if_pos hlt]⟩
    · obtain ⟨M1, x, y, he1, _, _, _, hbc⟩ := backupCalls_cons (downTo := downTo) L0 hstep hM (by omega)
      obtain ⟨c, mm, hrest⟩ := ih m0 m1 M1 hc0 he1
      exact ⟨callsOf s x y ++ c, mm, by rw [hbc, hrest]⟩

/-- the cache worker `i` saves is written out when the worker runs alone from the starting tree; nothing below `.pc`
is touched -/
theorem worker_saveAll_succeeds (w : World) (hT : Tight w.fs) (hclean : Compose.Clean cfg w.fs range)
    (hpf : PrefixFree w.fs cfg range) (hparse : parseRange w.fs cfg range = some patches)
    {i : Nat} {m : Mem} (hg : Disk.MemGood m) (hin : MemIn (namesOf patches threads i) m) (hld : MemLd w.fs m) :
    ∃ w1 dirs, saveAll ⟨w.fs, [], none⟩ m [] = .ok (w1, dirs) ∧ w1.faultAt = none ∧ OutOnly w.fs w1.fs := by
  have hW : ∀ e ∈ m, ∀ k, safeKey e.2.1 = some k → WName w.fs cfg range patches threads i e.2.1 k :=
    fun e he k hk => wname_of_mem hparse hclean hg hin he hk
  have hout : MemOut m := fun e he k hk => not_pc_of_not_own (hW e he k hk).notOwn
  have hready : MemReady w.fs m := by
    intro e he
    obtain ⟨h1, h2⟩ := hld e he
    rw [h1] at h2
    obtain ⟨k, hk, hr, _⟩ := ready_of_ld hT h2 (hout e he)
    exact ⟨k, hk, hr⟩
  have hapart : MemApart m := by
    refine List.Pairwise.imp_of_mem ?_ (Disk.keysDistinct_of_good hg)
    intro a b ha hb hab k k' hk hk'
    have m1 := (hW a ha k hk).inRange
    have m2 := (hW b hb k' hk').inRange
    exact ⟨fun e => hab k hk (e ▸ hk'), hpf k m1 k' m2, hpf k' m2 k m1⟩
  obtain ⟨w1, dirs, e1, f1, _, _, _⟩ := saveAll_succeeds m ⟨w.fs, [], none⟩ [] rfl hapart hready
  exact ⟨w1, dirs, e1, f1, (saveAll_outOnly m _ w1 [] dirs hout (fun _ hd => by cases hd) e1).1⟩


/-- **the backups of worker `i`**, when they are due: the undo never aborts; every call writes where the specification
writes a backup file too (`stX_statuses`: the names of the worker's `Status`es are names the abstract run of their
patch chooses), so it could be made first and no path is a directory of another (`WChain.allOK`); below `.pc` the
worker sees the starting tree -/
theorem worker_backups_succeed (w : World) (hdry : cfg.dryRun = false) (hpf : PrefixFree w.fs cfg range)
    (hterm : ∀ t' ∈ reached w.fs cfg range [], TreeTerminated t')
    (hparse : parseRange w.fs cfg range = some patches) (ht : 0 < threads)
    {st : St} {final : Nat} {rejs : List (Bytes × Bytes)} {w1s : World} {dirs : List Key} {w2s w3s : World}
    {p : Progress} {fs1 : FS} (S : Stages cfg w range st final rejs w1s dirs w2s w3s p fs1)
    {t : ATree} {outsK : List Out} (hc : Par.Clean w.fs cfg patches final t outsK) {schedA : List Nat}
    {pr : ParResult} (hr : parMemory w.fs cfg patches threads schedA = some (.ok pr)) {i : Nat} (hi : i < threads)
    (hdue : dueB cfg range final = true) (w1 : World) (hf1 : w1.faultAt = none) (hpc1 : OutOnly w.fs w1.fs) :
    ∃ w2 mem', rollbackAndSaveBackups w1 (pr.sts i).mem (pr.sts i).applied (backupDownTo cfg final) = .ok (w2, mem') ∧
      w2.faultAt = none := by
  have hP : Parsed patches := parsed_of_parseRange hparse
  obtain ⟨happ, hext, _, _, cX⟩ := worker_final hP ht hc hdry hr i hi
  rw [happ]
  obtain ⟨calls, mem', hcalls⟩ := chain_backupCalls_total (downTo := backupDownTo cfg final) _ _ _ _ cX hext
  -- the specification's backup phase
  have hbB : (cfg.backup == .always || (cfg.backup == .onfail && p.k != range.length)) = true := by
    rw [dueB_spec S.k_eq]; exact hdue
  obtain ⟨fs2, fs3, fs4, h2, _, _, _⟩ := finishPc_backups hbB S.io1
  rw [S.k_eq] at h2
  obtain ⟨hchain, hkeys⟩ := putBackups_chain _ _ _ h2
  obtain ⟨hall, hnopre⟩ := hchain.allOK
  have hnames : ∀ entry ∈ range, ∀ patch, patchOf w.fs cfg entry = some patch → ∀ fp ∈ patch.fps,
      NamesIn (rangeKeys w.fs cfg range) fp := fun entry he patch hp fp hfp => namesIn_rangeKeys he hp hfp
  have hB : BInv w.fs cfg range p.k p.backups :=
    applyRangeTree_binv hdry hpf range hnames (fun t' ht' => lookNormal_of_terminated (hterm t' ht')) S.spec
  rw [S.k_eq] at hB
  -- every call writes where the specification writes
  have hcall : ∀ c ∈ calls, ∃ wr ∈ writesS (p.backups.drop (backupDownTo cfg final)), callKey c = some wr.1 := by
    intro c hcm
    obtain ⟨s, hs, hwin, h1, h2', h3⟩ := backupCalls_sound _ _ _ _ _ hcalls c hcm
    obtain ⟨_, hnm⟩ := stX_statuses hP ht hc.stop i s hs
    obtain ⟨e, fps, tj, hget, hlt, hpn, hrange, hmem⟩ := hnm c.2.2.1 h3
    obtain ⟨hre, patch, hpo, hfps⟩ := parseRange_getElem hparse hget
    obtain ⟨e', patch', t', rr', touched, he', hp', ht', hbk, htok⟩ := hB.2 s.index hlt
    rw [hre] at he'
    cases he'
    rw [hpo] at hp'
    cases hp'
    have har : applyRange w.fs cfg (range.take s.index) 0 [] = .ok (tj, s.index, []) := by
      rw [applyRange_eq_absRange _ _ (parseRange_take range patches s.index hparse)]
      exact hrange
    rw [har] at ht'
    cases ht'
    obtain ⟨x, hxm, hcomp⟩ := htok.complete c.2.2.1 (by rw [← hfps]; exact hmem)
    have hmemb : (e.name, touched) ∈ p.backups.drop (backupDownTo cfg final) := getElem?_mem_drop hwin hbk
    have hsome := hkeys _ hmemb x hxm
    simp only at hsome
    obtain ⟨q, hq⟩ := Option.isSome_iff_exists.mp hsome
    refine ⟨(q, bytesOf x.2.content, modeOf x.2.perms), ?_, ?_⟩
    · unfold writesS
      rw [List.mem_flatMap]
      refine ⟨(e.name, touched), hmemb, ?_⟩
      rw [List.mem_filterMap]
      refine ⟨x, hxm, ?_⟩
      unfold fileWr
      simp only
      rw [hq]
      rfl
    · rw [callKey_eq, h2', hpn, ← pcKey_congr hcomp, hq]
  have hpc : ∀ q, isPcKey q → (fs1.lookup q).map noIno = (w1.fs.lookup q).map noIno := by
    intro q hq
    rw [S.pcS q hq, hpc1 q hq]
  have hok : ∀ c ∈ calls, ∃ k, callKey c = some k ∧ OKW w1.fs k := by
    intro c hcm
    obtain ⟨wr, hwr, hk⟩ := hcall c hcm
    exact ⟨wr.1, hk, (hall wr hwr).congr_pc (pcKey_isPcKey (by rw [← callKey_eq]; exact hk)) hpc⟩
  have hnp : ∀ c ∈ calls, ∀ c' ∈ calls, ∀ k k', callKey c = some k → callKey c' = some k' → ¬ SPre k k' := by
    intro c hcm c' hcm' k k' hk hk'
    obtain ⟨wr, hwr, e⟩ := hcall c hcm
    obtain ⟨wr', hwr', e'⟩ := hcall c' hcm'
    rw [hk] at e
    rw [hk'] at e'
    cases e
    cases e'
    exact hnopre wr hwr wr' hwr'
  obtain ⟨w4, e4, f4, _⟩ := saveBackups_succeeds calls w1 hf1 hok hnp
  exact ⟨w4, mem', by rw [C08_calls w1 _ _ _ calls mem' hcalls, e4], f4⟩

/-- **`hsolo`**: the save code of worker `i` (its cache, then its backups when due) succeeds alone from the starting
tree -/
theorem worker_solo (w : World) (hdry : cfg.dryRun = false) (hT : Tight w.fs)
    (hclean : Compose.Clean cfg w.fs range) (hpf : PrefixFree w.fs cfg range)
    (hterm : ∀ t' ∈ reached w.fs cfg range [], TreeTerminated t')
    (hparse : parseRange w.fs cfg range = some patches) (ht : 0 < threads)
    {st : St} {final : Nat} {rejs : List (Bytes × Bytes)} {w1s : World} {dirs : List Key} {w2s w3s : World}
    {p : Progress} {fs1 : FS} (S : Stages cfg w range st final rejs w1s dirs w2s w3s p fs1)
    {t : ATree} {outsK : List Out} (hc : Par.Clean w.fs cfg patches final t outsK) {schedA : List Nat}
    {pr : ParResult} (hr : parMemory w.fs cfg patches threads schedA = some (.ok pr))
    (pm : ParMem w.fs cfg patches threads final t outsK pr) {i : Nat} (hi : i < threads) :
    ∃ r, workerSave cfg final patches.length ⟨w.fs, [], none⟩ (pr.sts i).mem (pr.sts i).applied = .ok r := by
  have hP : Parsed patches := parsed_of_parseRange hparse
  obtain ⟨_, _, hld, _, _⟩ := worker_final hP ht hc hdry hr i hi
  obtain ⟨w1, dirs1, e1, f1, o1⟩ :=
    worker_saveAll_succeeds (threads := threads) w hT hclean hpf hparse (pm.good i) (pm.inNames i) hld
  unfold workerSave
  simp only [hdry, Bool.false_eq_true, if_false]
  rw [e1]
  simp only
  have hlen : patches.length = range.length := parseRange_length range patches hparse
  cases hdue : dueB cfg range final with
  | false =>
    have : wantBackups cfg final patches.length = false := by rw [hlen]; exact hdue
    rw [this]
    exact ⟨_, rfl⟩
  | true =>
    have : wantBackups cfg final patches.length = true := by rw [hlen]; exact hdue
    rw [this]
    obtain ⟨w2, mem', e2, _⟩ := worker_backups_succeed w hdry hpf hterm hparse ht S hc hr hi hdue w1 f1 o1
    have e2' : rollbackAndSaveBackups w1 (pr.sts i).mem (pr.sts i).applied (downTo cfg final) = .ok (w2, mem') := e2
    simp only [if_true, e2']
    exact ⟨_, rfl⟩

end Solo

/-! ## 7. The main thread's last steps: cleaning, reject files -/

section Main
open RQ.Abs RQ.BackupDisk RQ.ParRefine
open RQ.ParSave (FSEquiv)
variable {cfg : Cfg} {range : List Series.Entry} {patches : List (Series.Entry × List PFilePatch)} {threads : Nat}

theorem mem_delDirs {d : Key} : ∀ {mem : Mem}, d ∈ delDirs mem →
    ∃ e ∈ mem, ∃ k, safeKey e.2.1 = some k ∧ e.2.2.existed = true ∧ d = k.dropLast := by
  intro mem
  induction mem with
  | nil => intro h; cases h
  | cons x rest ih =>
    intro h
    obtain ⟨c, name, f⟩ := x
    unfold delDirs at h
    rcases List.mem_append.mp h with h | h
    · cases hk : safeKey name with
      | none => rw [hk] at h; cases h
      | some k =>
        rw [hk] at h
        simp only at h
        split at h
        · rename_i hde
          simp only [List.mem_singleton] at h
          simp only [Bool.and_eq_true] at hde
          exact ⟨(c, name, f), List.mem_cons_self .., k, hk, hde.2, h⟩
        · cases h
    · obtain ⟨e, he, r⟩ := ih h
      exact ⟨e, List.mem_cons_of_mem _ he, r⟩

/-- the main thread's cleaning loop does not fail when no directory to clean has a regular file on its way up -/
theorem cleanWorkers_succeeds (dirs : Nat → List Key) : ∀ (n : Nat) (w : World), w.faultAt = none →
    (∀ i, i < n → ∀ d ∈ dirs i, NoFileUpTo w.fs d) → RootFile w.fs →
    ∃ w', cleanWorkers w dirs n = .ok w' ∧ w'.faultAt = none := by
  intro n
  induction n with
  | zero => intro w hf _ _; exact ⟨w, rfl, hf⟩
  | succ n ih =>
    intro w hf hd hroot
    obtain ⟨w1, e1, f1⟩ := ih w hf (fun i hi => hd i (by omega)) hroot
    obtain ⟨_, c1⟩ := cleanWorkers_fileAt dirs n w w1 e1
    obtain ⟨w', e2, f2⟩ := cleanAll_succeeds (dirs n) w1 f1
      (fun d hdm => (hd n (Nat.lt_succ_self n) d hdm).congr c1) (hroot.congr c1)
    refine ⟨w', ?_, f2⟩
    unfold cleanWorkers
    rw [e1]
    exact e2


/-- the paths of all reject files the patches of the range can give rise to: `<name>.rej` for every name they mention -/
def rejKeys (fs : FS) (cfg : Cfg) (range : List Series.Entry) : List Key :=
  range.flatMap (fun entry =>
    match patchOf fs cfg entry with
    | none => []
    | some patch => patch.fps.flatMap (fun fp =>
        (fp.old.toList ++ fp.new.toList).filterMap (fun n => safeKey (makeRejName n))))

/-- **no reject path is a directory of another reject path** (decidable: a finite check over the patch files).  Needed
for the parallel driver only: the main thread writes the reject files worker by worker, the sequential driver and the
specification in series order; a reject file `a.rej` written BEFORE `a.rej/b.rej` makes the latter fail (a regular file
on the way), written AFTER it (the directory `a.rej` not existing, `a.rej/b.rej` is skipped) it does not. -/
def RejPrefixFree (fs : FS) (cfg : Cfg) (range : List Series.Entry) : Prop :=
  ∀ k ∈ rejKeys fs cfg range, ∀ k' ∈ rejKeys fs cfg range, ¬ SPre k k'

instance (fs : FS) (cfg : Cfg) (range : List Series.Entry) : Decidable (RejPrefixFree fs cfg range) := by
  unfold RejPrefixFree; infer_instance

theorem mem_rejKeys {fs : FS} {e : Series.Entry} {patch : Patch} {fp : PFilePatch} {n : Bytes} {k : Key}
    (he : e ∈ range) (hp : patchOf fs cfg e = some patch) (hfp : fp ∈ patch.fps)
    (hn : fp.old = some n ∨ fp.new = some n) (hk : safeKey (makeRejName n) = some k) : k ∈ rejKeys fs cfg range := by
  unfold rejKeys
  rw [List.mem_flatMap]
  refine ⟨e, he, ?_⟩
  rw [hp]
  simp only
  rw [List.mem_flatMap]
  refine ⟨fp, hfp, ?_⟩
  rw [List.mem_filterMap]
  refine ⟨n, ?_, hk⟩
  rcases hn with hn | hn
  · rw [hn]; simp
  · rw [hn]; simp

/-- **the parallel driver does not fail spuriously (range level)** -/
theorem par_succeeds_range (cfg : Cfg) (w : World) (range : List Series.Entry) (threads : Nat)
    (schedA schedS : List Nat) (hf : w.faultAt = none) (hdry : cfg.dryRun = false) (hT : Tight w.fs)
    (hclean : Compose.Clean cfg w.fs range) (hpf : PrefixFree w.fs cfg range)
    (hterm : ∀ t' ∈ reached w.fs cfg range [], TreeTerminated t')
    (hser : ∃ x, w.fs.readFile seriesKey = .ok x) (hnr : ¬ Refused cfg w.fs range)
    (hio : (specRun cfg w.fs range).ioError = false) (hrpf : RejPrefixFree w.fs cfg range) (ht : 0 < threads)
    {patches : List (Series.Entry × List PFilePatch)} (hparse : parseRange w.fs cfg range = some patches)
    {res : WR (World × Nat)} (hres : parApplyPatches w cfg range threads schedA schedS = some res) :
    ∃ wPar kPar, res = .ok (wPar, kPar) := by
  obtain ⟨st, final, rejs, w1s, dirs_s, w2s, w3s, p, fs1, S⟩ :=
    reach_rejects cfg w range hf hdry hT hclean hpf hterm hser hnr hio
  have hP : Parsed patches := parsed_of_parseRange hparse
  have heq := parApplyPatches_eq w cfg range threads schedA schedS ht hparse
  rw [hres] at heq
  cases hm : parMemory w.fs cfg patches threads schedA with
  | none => rw [hm] at heq; cases heq
  | some r =>
    obtain ⟨t, outsK, pr, hr, hspec, pm, hc, hrejs⟩ := parMemory_applyLoop_ok hparse ht S.loop schedA r hm
    subst hr
    rw [hm] at heq
    simp only [hdry, Bool.false_eq_true, if_false] at heq
    have hfinal := pm.final
    rw [hfinal] at heq
    have hrejs' : rejs = outRejs outsK := by rw [hrejs]; simp [hdry]
    have hsolo' : ∀ i, i < threads → ∃ r, workerSave cfg final patches.length ⟨w.fs, [], none⟩ (pr.sts i).mem
        (pr.sts i).applied = .ok r :=
      fun i hi => worker_solo w hdry hT hclean hpf hterm hparse ht S hc hm pm hi
    have hdisj' := keysDisjoint_static hparse hclean hpf ht hdry hc hm pm final patches.length
    cases hsv : savePhase w cfg final patches.length threads (fun i => (pr.sts i).mem)
        (fun i => (pr.sts i).applied) schedS with
    | none => rw [hsv] at heq; cases heq
    | some sres =>
      obtain ⟨w1, dirs, wq, hsres, hf1, hseq, hequiv⟩ := savePhase_ok w cfg final patches.length threads _ _ schedS
        hsolo' hdisj' sres hsv
      subst hsres
      rw [hsv] at heq
      simp only [Option.some.injEq] at heq
      -- the disk after the save phase
      have hwq : TInv wq.fs (allDirs (fun i => (pr.sts i).mem) threads) :=
        seqSave_tinv hdry threads ⟨w.fs, [], none⟩ wq (tinv_of_tight hT) hseq
      have hw1 : TInv w1.fs (allDirs (fun i => (pr.sts i).mem) threads) :=
        tinv_of_outsidePc (outsidePc_of_equiv hequiv).symm hwq
      have hdirs_i : ∀ i, i < threads → dirs i = delDirs (pr.sts i).mem := by
        intro i hi
        obtain ⟨r, hr⟩ := hsolo' i hi
        rw [savePhase_dirs w cfg final patches.length threads _ _ schedS hsolo' hdisj' w1 dirs hsv i hi r hr]
        obtain ⟨wr, dr⟩ := r
        exact (workerSave_tinv (w := ⟨w.fs, [], none⟩) hdry (tinv_of_tight hT) hr).1
      have hdirs : (List.range threads).flatMap dirs = allDirs (fun i => (pr.sts i).mem) threads := by
        unfold allDirs
        apply flatMap_congr_mem
        intro i hi
        exact hdirs_i i (List.mem_range.mp hi)
      obtain ⟨_, _, q3⟩ := seqSave_fileAt (fs0 := w.fs) hdry
        (fun i => Disk.keysDistinct_of_good (pm.good i)) (fun i => pm.ok i) hdisj' threads (Nat.le_refl _) wq hseq
      have hW1 : ∀ key, fileAt w1.fs key = fileAt wq.fs key := fun key => fileAt_of_FSEquiv hequiv key
      have hWN : ∀ i e, e ∈ (pr.sts i).mem → ∀ k, safeKey e.2.1 = some k →
          WName w.fs cfg range patches threads i e.2.1 k :=
        fun i e he k hk => wname_of_mem hparse hclean (pm.good i) (pm.inNames i) he hk
      -- cleaning
      have hnofile : ∀ i, i < threads → ∀ d ∈ dirs i, NoFileUpTo w1.fs d := by
        intro i hi d hd
        rw [hdirs_i i hi] at hd
        obtain ⟨e, he, k, hk, hex, rfl⟩ := mem_delDirs hd
        have hwn := hWN i e he k hk
        have hnpc : ¬ isPcKey k := not_pc_of_not_own hwn.notOwn
        obtain ⟨_, _, hld, _, _⟩ := worker_final hP ht hc hdry hm i hi
        obtain ⟨h1, h2⟩ := hld e he
        rw [h1] at h2
        obtain ⟨k', hk', _, hfile⟩ := ready_of_ld hT h2 (fun k'' hk'' => by rw [hk] at hk''; cases hk''; exact hnpc)
        rw [hk] at hk'
        cases hk'
        obtain ⟨c, m, ino, hl⟩ := isFile_iff.mp (hfile hex)
        intro idx h0 hle
        rw [take_dropLast_le hle]
        rw [List.length_dropLast] at hle
        have hpdir : w.fs.lookup (k.take idx) = some .dir := hT.wf k hnpc _ hl idx h0 (by omega)
        have hnm : ∀ j, j < threads → k.take idx ∉ memKeys (pr.sts j).mem := by
          intro j _ hmem
          obtain ⟨e', he', hke'⟩ := mem_memKeys.mp hmem
          exact hpf _ (hWN j e' he' _ hke').inRange k hwn.inRange (spre_take (by omega))
        rw [hW1, (q3 _ (not_pc_take hnpc idx)).2 hnm]
        exact fileAt_of_lookup_dir hpdir
      have hroot : RootFile w1.fs := by
        obtain ⟨x, hx⟩ := hser
        obtain ⟨_, hfile⟩ := readFile_ok_spec hx
        refine ⟨seriesKey, rfl, ?_⟩
        have hnm : ∀ j, j < threads → seriesKey ∉ memKeys (pr.sts j).mem := by
          intro j _ hmem
          obtain ⟨e', he', hke'⟩ := mem_memKeys.mp hmem
          exact (hWN j e' he' _ hke').notOwn (.inr (.inr (.inl rfl)))
        rw [hW1, (q3 seriesKey (by unfold isPcKey; decide)).2 hnm]
        exact isFile_iff_fileAt.mp hfile
      obtain ⟨w2, hcl, f2⟩ := cleanWorkers_succeeds dirs threads w1 (hf1.trans hf) hnofile hroot
      -- the disk after cleaning, against the specification's tree
      have hw2 : TInv w2.fs [] :=
        cleanWorkers_tinv dirs threads w1 w2 [] (by rw [List.append_nil, hdirs]; exact hw1) hcl
      have tw2 : Tight w2.fs := tight_of_tinv hw2
      obtain ⟨_, c2⟩ := cleanWorkers_fileAt dirs threads w1 w2 hcl
      have hfile : ∀ key, ¬ isPcKey key →
          (∀ j, j < threads → key ∈ memKeys (pr.sts j).mem → fileAt w2.fs key = flushView (pr.sts j).mem w.fs key) ∧
          ((∀ j, j < threads → key ∉ memKeys (pr.sts j).mem) → fileAt w2.fs key = fileAt w.fs key) := by
        intro key hp
        refine ⟨fun j hj hmem => ?_, fun hnone => ?_⟩
        · rw [c2 key, hW1 key]; exact (q3 key hp).1 j hj hmem
        · rw [c2 key, hW1 key]; exact (q3 key hp).2 hnone
      have hgood : Disk.MemGood st.mem := Disk.applyLoop_good range Disk.memGood_nil S.loop
      have href := Disk.apply_refines w.fs cfg range
      rw [S.loop, hspec] at href
      obtain ⟨_, _, hsame⟩ := href
      obtain ⟨p', hp', _, _, hfileS⟩ :=
        spec_fileAt_eq_flushView w.fs cfg range st final rejs hdry hpf hterm hT.wf S.loop
      rw [S.spec] at hp'
      cases hp'
      have htp : Tight p.fs := applyRangeTree_tight range hclean.namesOut (start w.fs) p hT S.spec
      have hA : ∀ key, ¬ isPcKey key → fileAt p.fs key = fileAt w2.fs key := by
        intro key hp'
        rw [← hfileS key hp']
        exact (cache_views_agree hP ht hc pm hdry hgood (hsame hdry) w2.fs hfile key hp').symm
      have hO2 : OutsidePc p.fs w2.fs := outsidePc_of_fileAt htp tw2 hA
      -- the reject files
      have hrr : p.rejs.reverse = rejs := by rw [S.rejs_eq, List.reverse_reverse]
      have hr1 := S.specRej
      rw [hrr] at hr1
      have hrejOut : RejsOut rejs := (applyLoop_out hclean.namesOut S.loop).2
      have hrok := putRejects_rejOK rejs hrejOut p.fs fs1 [] (tinv_of_tight htp) hr1
      have hsub : ∀ i, i < threads → ∀ r ∈ pr.rejs i, r ∈ rejs := by
        intro i hi r hr
        rw [pm.rejs hdry i hi] at hr
        rw [hrejs']
        exact outRejs_mem_filter _ _ _ hr
      have hrk : ∀ r ∈ rejs, ∀ k, safeKey r.1 = some k → k ∈ rejKeys w.fs cfg range := by
        intro r hr k hk
        rw [hrejs'] at hr
        obtain ⟨o, ho, hor⟩ := mem_outRejs hr
        obtain ⟨Gk, Gz, t', hsplit, _, _, hrun⟩ := hc.run
        have hq := absRun_outs_q _ _ _ _ hrun
        have hoq : o.q ∈ allEntries patches 0 := by
          apply (mem_drop_entries (k := final) _).1
          rw [hsplit]
          apply List.mem_append_left
          rw [← hq]
          exact List.mem_map_of_mem ho
        obtain ⟨n, hn, hxn⟩ := absRun_outs_rej _ _ _ _ hrun o ho r hor
        obtain ⟨he, patch, hpo, hfp⟩ := entry_patchOf hparse hoq
        exact mem_rejKeys he hpo hfp hn (by rw [← hxn]; exact hk)
      obtain ⟨w3, hrw, _, _⟩ := rejWorkers_succeeds pr.rejs threads w2 [] f2 (tinv_of_tight tw2)
        (fun i hi r hr => hrejOut r (hsub i hi r hr))
        (fun i hi r hr => by
          obtain ⟨k, hk, hok⟩ := hrok r (hsub i hi r hr)
          exact ⟨k, hk, hok.outside hO2 (hrejOut r (hsub i hi r hr) k hk)⟩)
        (fun i hi j hj r hr r' hr' k k' hk hk' =>
          hrpf k (hrk r (hsub i hi r hr) k hk) k' (hrk r' (hsub j hj r' hr') k' hk'))
      refine ⟨w3, final, ?_⟩
      rw [heq]
      unfold mainFinish
      rw [hcl]
      simp only
      rw [hrw]


/-- **`hdisj` of `C06_save_phase` / `C06_par_refines_pushSpec`, discharged**: whatever the apply-phase schedule -/
theorem hdisj_static (cfg : Cfg) (w : World) (range : List Series.Entry) (threads : Nat) (schedA : List Nat)
    (hdry : cfg.dryRun = false) (hclean : Compose.Clean cfg w.fs range) (hpf : PrefixFree w.fs cfg range)
    (ht : 0 < threads) {patches : List (Series.Entry × List PFilePatch)}
    (hparse : parseRange w.fs cfg range = some patches) :
    ∀ pr, parMemory w.fs cfg patches threads schedA = some (.ok pr) →
      KeysDisjoint (saveKeys cfg pr.final patches.length (fun i => (pr.sts i).mem) (fun i => (pr.sts i).applied))
        threads := by
  intro pr hm
  cases hloop : applyLoop w.fs cfg range 0 {} with
  | error e =>
    obtain ⟨x, hx⟩ := parMemory_applyLoop_err hparse ht hloop schedA _ hm
    cases hx
  | ok y =>
    obtain ⟨st, final, rejs⟩ := y
    obtain ⟨t, outsK, pr', hr, _, pm, hc, _⟩ := parMemory_applyLoop_ok hparse ht hloop schedA _ hm
    cases hr
    exact keysDisjoint_static hparse hclean hpf ht hdry hc hm pm pr.final patches.length

/-- **`hsolo` of `C06_save_phase` / `C06_par_refines_pushSpec`, discharged**: whatever the apply-phase schedule -/
theorem hsolo_static (cfg : Cfg) (w : World) (range : List Series.Entry) (threads : Nat) (schedA : List Nat)
    (hf : w.faultAt = none) (hdry : cfg.dryRun = false) (hT : Tight w.fs)
    (hclean : Compose.Clean cfg w.fs range) (hpf : PrefixFree w.fs cfg range)
    (hterm : ∀ t' ∈ reached w.fs cfg range [], TreeTerminated t')
    (hser : ∃ x, w.fs.readFile seriesKey = .ok x) (hnr : ¬ Refused cfg w.fs range)
    (hio : (specRun cfg w.fs range).ioError = false) (ht : 0 < threads)
    {patches : List (Series.Entry × List PFilePatch)} (hparse : parseRange w.fs cfg range = some patches) :
    ∀ pr, parMemory w.fs cfg patches threads schedA = some (.ok pr) → ∀ i, i < threads →
      ∃ r, workerSave cfg pr.final patches.length ⟨w.fs, [], none⟩ (pr.sts i).mem (pr.sts i).applied = .ok r := by
  intro pr hm i hi
  obtain ⟨st, final, rejs, w1s, dirs_s, w2s, w3s, p, fs1, S⟩ :=
    reach_rejects cfg w range hf hdry hT hclean hpf hterm hser hnr hio
  obtain ⟨t, outsK, pr', hr, _, pm, hc, _⟩ := parMemory_applyLoop_ok hparse ht S.loop schedA _ hm
  cases hr
  rw [pm.final]
  exact worker_solo w hdry hT hclean hpf hterm hparse ht S hc hm pm hi

end Main

end RQ.ParSucceeds


#print axioms RQ.ParSucceeds.worker_final
#print axioms RQ.ParSucceeds.stX_statuses
#print axioms RQ.ParSucceeds.keysDisjoint_static
#print axioms RQ.ParSucceeds.rejWorkers_succeeds
#print axioms RQ.ParSucceeds.worker_solo
#print axioms RQ.ParSucceeds.par_succeeds_range
#print axioms RQ.ParSucceeds.hdisj_static
#print axioms RQ.ParSucceeds.hsolo_static
