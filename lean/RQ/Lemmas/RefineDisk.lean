import RQ.Lemmas.Bridge
import RQ.Lemmas.TightSave
import RQ.Lemmas.TightSpec
import RQ.Lemmas.BackupDisk
import RQ.Lemmas.ComposeFail
/-!
# The whole command on the file system: the driver model refines the executable specification

`Push.push cfg w` (plan, `applyPatches` = application loop + `saveAll` + `cleanAll` + `saveRejFiles` + backups, then
`saveApplied`) against `Spec.pushSpec cfg w.fs` (plan, `applyRangeTree`, then `finishSpec` = `putRejects` + `putBackups`
+ `.pc/applied-patches`).  The two sides are lined up stage by stage:

| driver model                          | specification                         | relation                                  |
|---------------------------------------|---------------------------------------|-------------------------------------------|
| loop + `saveAll` + `cleanAll` → `w2`  | `applyRangeTree` → `p`                | `OutsidePc p.fs w2.fs` (`saved_outsidePc`) |
| `saveRejFiles w2 rejs` → `w3`         | `putRejects p.fs p.rejs.reverse` → `fs1` | `OutsidePc fs1 w3.fs` (`rejects_sim`)   |
| backups, `saveApplied` → `w5`         | `putBackups`, `.pc/applied-patches`   | both `PcOnly`                             |

* Stage 1 is `Tight.fileAt_disk_eq_spec` generalised from "the whole range applied" to any number `k ≤ |range|` of
  applied patches (the proof never needed more: `range_sim` and the invariants `Inv`, `Keep` are about any run), stated
  for the world after `cleanAll` — before any reject file is written — so it holds at *every* path outside `.pc`; with
  tightness of both trees (`saveAll_cleanAll_tight`, `applyRangeTree_tight`) agreement on regular files is agreement
  on nodes.
* Stage 2 is a direct simulation: both sides go through the *same list* of reject files in the *same order*
  (`p.rejs = rejs.reverse`, and the specification writes `p.rejs.reverse`), per file: unlink, create, write.  The only
  differences — the driver unlinks before it knows whether the directory exists, the specification runs a
  `createDirAll` of a directory it has just seen — vanish on trees whose nodes have directories as parents (`WFo`, part of
  the invariant `TInv` that is carried along).  No hypothesis about duplicate reject paths or about reject paths being
  apart from the names of the range is needed: whatever is at a reject path is replaced on both sides alike.
* `.pc/applied-patches`: the driver's save phase, reject files and backups leave it alone (`OutOnly`,
  `backups_applied`), `saveApplied` appends the names (`saveApplied_spec`); the specification's side is `run_applied`.
* When no backups are due both sides leave everything else below `.pc` as it was, so the whole trees agree up to inode
  numbers (`pushRange_refines_specRun_whole`, via `AppliedPhase`).
-/
namespace RQ.Refine2
open RQ RQ.Push RQ.Spec RQ.Flush RQ.Agree RQ.Compose RQ.Tight RQ.Parse RQ.Write
open RQ.ParSave (noIno noIno_cases)

/-! ## Stage 1: after `saveAll` + `cleanAll` the disk is the specification's tree `p.fs` outside `.pc` -/

/-- `Tight.fileAt_disk_eq_spec` for any number of applied patches, at the world the save phase leaves (before reject
files and backups): the same regular file, or none, at EVERY path outside `.pc` -/
theorem saved_fileAt_eq_spec (w w1 w2 : World) (cfg : Cfg) (range : List Series.Entry) (st : St) (final : Nat)
    (rejs : List (Bytes × Bytes)) (dirs : List Key) (hdry : cfg.dryRun = false)
    (hpf : PrefixFree w.fs cfg range) (hterm : ∀ t' ∈ reached w.fs cfg range [], TreeTerminated t')
    (hwf : WFo w.fs) (hloop : applyLoop w.fs cfg range 0 {} = .ok (st, final, rejs))
    (hsave : saveAll w st.mem [] = .ok (w1, dirs)) (hclean : cleanAll w1 dirs = .ok w2) :
    ∃ p, applyRangeTree cfg w.fs range (start w.fs) = .ok p ∧ p.k = final ∧ p.rejs = rejs.reverse ∧
      ∀ k, ¬ isPcKey k → fileAt w2.fs k = fileAt p.fs k := by
  have href := Disk.apply_refines w.fs cfg range
  rw [hloop] at href
  cases hspec : Abs.applyRange w.fs cfg range 0 [] with
  | error e =>
    rw [hspec] at href
    exact href.elim
  | ok r' =>
    obtain ⟨t, k', rejs'⟩ := r'
    rw [hspec] at href
    obtain ⟨hk', hrejs, hsame⟩ := href
    subst hk' hrejs
    have hgood : Disk.MemGood st.mem := Disk.applyLoop_good range Disk.memGood_nil hloop
    have hm : MemOK w.fs st.mem := applyLoop_ok range (memOK_nil _) hloop
    have hflush : ∀ k, fileAt w2.fs k = flushView st.mem w.fs k := by
      intro k
      rw [cleanAll_fileAt w1 w2 dirs hclean k]
      exact (saveAll_flush_aux st.mem w w1 [] dirs (Disk.keysDistinct_of_good hgood) (free_of_memOK hm) hsave).2 k
    have hnames : ∀ entry ∈ range, ∀ patch, patchOf w.fs cfg entry = some patch → ∀ fp ∈ patch.fps,
        NamesIn (rangeKeys w.fs cfg range) fp := fun entry he patch hp fp hfp => namesIn_rangeKeys he hp hfp
    have hsim := range_sim (ks := rangeKeys w.fs cfg range) (fs0 := w.fs) hdry hpf range 0 [] (start w.fs) hnames
      (inv_init _ w.fs) rfl rfl rfl (fun t' ht' => lookNormal_of_terminated (hterm t' ht'))
    rw [hspec] at hsim
    obtain ⟨p, hp, hpk, hprej, _, hinv⟩ := hsim
    refine ⟨p, hp, hpk, hprej, ?_⟩
    have hkeep : Keep (rangeKeys w.fs cfg range) w.fs p.fs :=
      keep_applyRange hpf range (fun e he patch hpt fp hfp n hn k' hk' => (hnames e he patch hpt fp hfp n hn).2 k' hk')
        (start w.fs) p (keep_init hwf) hp
    intro k hk
    rw [hflush k]
    by_cases hname : ∃ n a, Comp.cur ∉ components n ∧ safeKey n = some k ∧ Abs.look t w.fs n = .ok a
    · obtain ⟨n, a, hc, hkn, hl⟩ := hname
      rw [hinv.fileAt_eq hc hkn hl]
      exact Disk.flushView_look hc hkn hgood.nocur (by rw [hsame hdry n]; exact hl)
    · have hnone : ∀ e ∈ st.mem, safeKey e.2.1 ≠ some k := by
        intro e he hke
        apply hname
        obtain ⟨e1, e2⟩ := hgood.nocur e he
        have hc : Comp.cur ∉ components e.2.1 := e1 ▸ e2
        obtain ⟨a, ha⟩ := look_of_entry w.fs he e1
        exact ⟨e.2.1, a, hc, hke, by rw [← hsame hdry]; exact ha⟩
      rw [flushView_of_no_entry hnone]
      by_cases hm : k ∈ rangeKeys w.fs cfg range
      · obtain ⟨n, hc, hkn⟩ := mem_rangeKeys hm
        cases hl : Abs.look t w.fs n with
        | ok a => exact absurd ⟨n, a, hc, hkn, hl⟩ hname
        | error u =>
          rcases loadTree_err_cases hkn (look_err hl) with hfp | hd | h0
          · rw [fileAt_of_lookup_none (hwf.lookup_none hk hfp)]
            exact (fileAt_eq_none_iff.mpr (dirOrNone_of_not_isFile (hkeep.blocked k hm hk hfp))).symm
          · rw [fileAt_of_lookup_dir hd,
              fileAt_of_lookup_dir (hinv.dirs0 k hd (fun k' hk' => hpf k hm k' hk'))]
          · exact absurd h0 (key_ne_nil hc hkn)
      · by_cases hfile : IsFile (p.fs.lookup k) ∨ IsFile (w.fs.lookup k)
        · exact (fileAt_congr (hinv.files k hm hfile)).symm
        · have h1 : ¬ IsFile (p.fs.lookup k) := fun x => hfile (.inl x)
          have h2 : ¬ IsFile (w.fs.lookup k) := fun x => hfile (.inr x)
          rw [fileAt_eq_none_iff.mpr (dirOrNone_of_not_isFile h1),
            fileAt_eq_none_iff.mpr (dirOrNone_of_not_isFile h2)]


/-- … hence, from a tight tree, the same *nodes* outside `.pc` (directories included), and the disk is tight -/
theorem saved_outsidePc (w w1 w2 : World) (cfg : Cfg) (range : List Series.Entry) (st : St) (final : Nat)
    (rejs : List (Bytes × Bytes)) (dirs : List Key) (hdry : cfg.dryRun = false) (hclean : Clean cfg w.fs range)
    (hpf : PrefixFree w.fs cfg range) (hterm : ∀ t' ∈ reached w.fs cfg range [], TreeTerminated t')
    (hT : Tight w.fs) (hloop : applyLoop w.fs cfg range 0 {} = .ok (st, final, rejs))
    (hsave : saveAll w st.mem [] = .ok (w1, dirs)) (hcl : cleanAll w1 dirs = .ok w2) :
    ∃ p, applyRangeTree cfg w.fs range (start w.fs) = .ok p ∧ p.k = final ∧ p.rejs = rejs.reverse ∧
      OutsidePc p.fs w2.fs ∧ Tight w2.fs ∧ Tight p.fs := by
  obtain ⟨p, hp, hpk, hprej, hfile⟩ :=
    saved_fileAt_eq_spec w w1 w2 cfg range st final rejs dirs hdry hpf hterm hT.wf hloop hsave hcl
  have ht2 : Tight w2.fs := saveAll_cleanAll_tight hT hsave hcl
  have htp : Tight p.fs := applyRangeTree_tight range hclean.namesOut (start w.fs) p hT hp
  exact ⟨p, hp, hpk, hprej, outsidePc_of_fileAt htp ht2 (fun k hk => (hfile k hk).symm), ht2, htp⟩

/-! ## Stage 2: the reject files -/

/-- what `saveRejFiles` does for one file once the directory is known to exist: unlink, create, write -/
def putPlain (fs : FS) (k : Key) (content : Bytes) : Except Unit FS :=
  match (unlinked fs k).createFile k with
  | .error _ => .error ()
  | .ok fs2 => .ok (fs2.appendBytes k content)

/-- outside `.pc` of a tree whose nodes have directories as parents: the directory of a node exists -/
theorem isDir_parent_of_node {fs : FS} (hwf : WFo fs) {k : Key} (hk : ¬ isPcKey k) {n : Node}
    (hl : fs.lookup k = some n) : fs.isDir k.dropLast = true := by
  unfold FS.isDir
  by_cases h1 : k.dropLast = []
  · simp [h1]
  · have hlen : 0 < k.dropLast.length := List.length_pos_iff.mpr h1
    rw [List.length_dropLast] at hlen
    have := hwf k hk n hl (k.length - 1) hlen (by omega)
    rw [← List.dropLast_eq_take] at this
    simp [this]

/-- on a tree whose nodes have directories as parents: where the directory of `k` exists, nothing on the way to `k`
is a regular file -/
theorem fileOnPath_of_isDir {fs : FS} (hwf : WFo fs) {k : Key} (hk : ¬ isPcKey k)
    (hd : fs.isDir k.dropLast = true) : fs.fileOnPath k = false := by
  rw [fileOnPath_false_iff]
  intro q hs hq hf
  have hdl : k.dropLast ≠ [] := by
    intro e
    have h1 := hs.1
    have := congrArg List.length e
    rw [List.length_dropLast] at this
    simp only [List.length_nil] at this
    have : q.length = 0 := by omega
    exact hq (List.length_eq_zero_iff.mp this)
  have hdir : fs.lookup k.dropLast = some .dir := by
    unfold FS.isDir at hd
    simpa [hdl] using hd
  rcases spre_dropLast_or_eq hs with e | hs'
  · rw [e, hdir] at hf; exact hf
  · have hq0 : 0 < q.length := Nat.pos_of_ne_zero (fun e => hq (List.length_eq_zero_iff.mp e))
    have := hwf k.dropLast (not_isPcKey_dropLast hk) _ hdir q.length hq0 hs'.1
    rw [hs'.2, ] at this
    rw [this] at hf; exact hf

/-- one round of the loop of `saveRejFiles`, on a tree whose nodes have directories as parents: if the directory of
the reject file does not exist nothing changes (the unlink finds nothing: a file there would have its directory),
otherwise the tree is `putPlain` -/
theorem saveRejFiles_step {w w' : World} {name content : Bytes} {rest : List (Bytes × Bytes)} {k : Key}
    (hk : safeKey name = some k) (hpc : ¬ isPcKey k) (hwf : WFo w.fs)
    (h : saveRejFiles w ((name, content) :: rest) = .ok w') :
    ∃ w1, saveRejFiles w1 rest = .ok w' ∧
      ((w.fs.isDir k.dropLast = false ∧ w1.fs = w.fs) ∨
       (w.fs.isDir k.dropLast = true ∧ putPlain w.fs k content = .ok w1.fs)) := by
  rw [saveRejFiles_cons] at h
  rw [hk] at h
  simp only at h
  split at h
  · -- something on the way to `k` is a regular file: the reject is bypassed, and the directory does not exist
    rename_i hfp
    split at h
    · cases h
    · split at h
      · cases h
      · refine ⟨_, h, .inl ⟨?_, rfl⟩⟩
        cases hd : w.fs.isDir k.dropLast with
        | false => rfl
        | true => rw [fileOnPath_of_isDir hwf hpc hd] at hfp; cases hfp
  have hcont : ∀ w0 : World, w0.fs = unlinked w.fs k → (w0.fs = w.fs ∨ w.fs.isDir k.dropLast = true) →
      (∀ q, w0.fs.isDir q = w.fs.isDir q) →
      (match w0.op (.createFile k) with
        | .notFound w' => saveRejFiles w' rest
        | .failed w' => .error (.err, w')
        | .ok w' =>
          match w'.op (.write k content) with
          | .ok w'' => saveRejFiles w'' rest
          | .notFound w'' | .failed w'' => .error (.err, w'')) = .ok w' →
      ∃ w1, saveRejFiles w1 rest = .ok w' ∧
        ((w.fs.isDir k.dropLast = false ∧ w1.fs = w.fs) ∨
         (w.fs.isDir k.dropLast = true ∧ putPlain w.fs k content = .ok w1.fs)) := by
    intro w0 hu hcase hdirs h
    split at h
    · rename_i w1 hop
      obtain ⟨g0, g1, _⟩ := op_notFound_run hop
      have hnd : w.fs.isDir k.dropLast = false := by
        rw [← hdirs]; exact createFile_notFound_isDir g0
      refine ⟨w1, h, .inl ⟨hnd, ?_⟩⟩
      rcases hcase with e | e
      · rw [g1, e]
      · rw [hnd] at e; cases e
    · cases h
    · rename_i w1 hop
      obtain ⟨g1, _⟩ := op_ok_run hop
      have hd : w.fs.isDir k.dropLast = true := by
        rw [← hdirs]; exact createFile_ok_isDir g1
      split at h
      · rename_i w2 hop2
        obtain ⟨e1, _⟩ := op_write_ok hop2
        refine ⟨w2, h, .inr ⟨hd, ?_⟩⟩
        unfold putPlain
        rw [← hu]
        have g1' : w0.fs.createFile k = .ok w1.fs := g1
        rw [g1', e1]
      · cases h
      · cases h
  split at h
  · cases h
  · rename_i w0 hop
    obtain ⟨g1, _⟩ := op_ok_run hop
    have g1' : w.fs.removeFile k = .ok w0.fs := g1
    obtain ⟨_, c, m, i, hl⟩ := removeFile_spec g1'
    refine hcont w0 (by unfold unlinked; rw [g1']) (.inr (isDir_parent_of_node hwf hpc hl))
      (fun q => removeFile_isDir g1' q) h
  · rename_i w0 hop
    obtain ⟨g0, g1, _⟩ := op_notFound_run hop
    have g0' : w.fs.removeFile k = .error .notFound := g0
    refine hcont w0 (by unfold unlinked; rw [g0', g1]) (.inl g1) (fun q => by rw [g1]) h

/-- the specification's `putFile` of a reject file against the driver's unlink–create–write, on related trees, when
the directory exists: related trees again (the specification's `createDirAll` has nothing to do), and the invariant
of the driver's tree is kept -/
theorem putFile_putPlain {a a' b b' : FS} {k : Key} {c : Bytes} {S : List Key} (hab : OutsidePc a b)
    (hk : ¬ isPcKey k) (hi : TInv b S) (hd : b.isDir k.dropLast = true)
    (ha : putFile a k c none = .ok a') (hb : putPlain b k c = .ok b') : OutsidePc a' b' ∧ TInv b' S := by
  have hu : OutsidePc (unlinked a k) (unlinked b k) ∧ TInv (unlinked b k) (k.dropLast :: S) ∧
      (unlinked b k).isDir k.dropLast = true := by
    unfold unlinked
    have hr := removeFile_congr hab hk
    cases har : a.removeFile k with
    | error e =>
      rw [hr.err_left har]
      exact ⟨hab, hi.cons _, hd⟩
    | ok a0 =>
      obtain ⟨b0, hb0, h0⟩ := hr.ok_left har
      rw [hb0]
      exact ⟨h0, tinv_removeFile hi hb0, by rw [removeFile_isDir hb0]; exact hd⟩
  rw [putFile_eq'] at ha
  unfold putPlain at hb
  generalize unlinked a k = a0 at ha hu
  generalize unlinked b k = b0 at hb hu
  obtain ⟨h0, hi0, hd0⟩ := hu
  have hdp : ¬ isPcKey k.dropLast := not_isPcKey_dropLast hk
  have hnoop : b0.createDirAll k.dropLast = .ok b0 := by
    apply createDirAll_noop
    intro i hne
    unfold FS.isDir at hd0
    have hdl : k.dropLast ≠ [] := by
      intro e; rw [e] at hne; simp at hne
    have hdir : b0.lookup k.dropLast = some .dir := by simpa [hdl] using hd0
    by_cases hi' : i < k.dropLast.length
    · have h0i : 0 < i := by
        apply Nat.pos_of_ne_zero
        intro e; rw [e] at hne; simp at hne
      exact hi0.wf k.dropLast hdp _ hdir i h0i hi'
    · rw [List.take_of_length_le (by omega)]; exact hdir
  unfold putRest at ha
  have hc := createDirAll_congr h0 hdp
  cases ha1 : a0.createDirAll k.dropLast with
  | error e => rw [ha1] at ha; cases ha
  | ok a1 =>
    obtain ⟨b1, hb1, h1⟩ := hc.ok_left ha1
    rw [hnoop] at hb1
    cases hb1
    rw [ha1] at ha
    simp only at ha
    have hcf := createFile_congr h1 hk
    cases ha2 : a1.createFile k with
    | error e => rw [ha2] at ha; cases ha
    | ok a2 =>
      obtain ⟨b2, hb2, h2⟩ := hcf.ok_left ha2
      rw [ha2] at ha
      rw [hb2] at hb
      simp only at ha hb
      cases ha
      cases hb
      exact ⟨appendBytes_congr h2 hk c, tinv_appendBytes (tinv_createFile hi0 hb2) _ _⟩

/-- **the reject files**: the specification's `putRejects` and the driver's `saveRejFiles` go through the same list
in the same order; from trees that agree outside `.pc` they arrive at trees that agree outside `.pc`, and the
driver's tree keeps its invariant.  Nothing is assumed about the reject paths except that they are outside `.pc`:
duplicates, reject paths that are paths of tracked files — both sides replace what is there. -/
theorem rejects_sim : ∀ (rejs : List (Bytes × Bytes)), RejsOut rejs → ∀ (a a' : FS) (w w' : World) (S : List Key),
    OutsidePc a w.fs → TInv w.fs S → putRejects a rejs = .ok a' → saveRejFiles w rejs = .ok w' →
    OutsidePc a' w'.fs ∧ TInv w'.fs S := by
  intro rejs
  induction rejs with
  | nil =>
    intro _ a a' w w' S hab hi hp hs
    unfold putRejects at hp
    unfold saveRejFiles at hs
    cases hp
    cases hs
    exact ⟨hab, hi⟩
  | cons r rest ih =>
    obtain ⟨name, content⟩ := r
    intro hr a a' w w' S hab hi hp hs
    have hrest : RejsOut rest := fun r hm => hr r (List.mem_cons_of_mem _ hm)
    unfold putRejects at hp
    cases hk : safeKey name with
    | none => rw [hk] at hp; cases hp
    | some k =>
      rw [hk] at hp
      simp only at hp
      have hk' : ¬ isPcKey k := hr (name, content) (List.mem_cons_self ..) k hk
      obtain ⟨w1, hs1, hcase⟩ := saveRejFiles_step hk hk' hi.wf hs
      have hd : a.isDir k.dropLast = w.fs.isDir k.dropLast := hab.isDir_eq (not_isPcKey_dropLast hk')
      split at hp
      · rename_i hfp
        rcases hcase with ⟨hnd, hfs⟩ | ⟨hdir, hpl⟩
        · exact ih hrest a a' w1 w' S (by rw [hfs]; exact hab) (by rw [hfs]; exact hi) hp hs1
        · rw [hab.fileOnPath_eq hk', fileOnPath_of_isDir hi.wf hk' hdir] at hfp
          cases hfp
      · rcases hcase with ⟨hnd, hfs⟩ | ⟨hdir, hpl⟩
        · rw [hd, hnd] at hp
          simp only [Bool.not_false, if_true] at hp
          exact ih hrest a a' w1 w' S (by rw [hfs]; exact hab) (by rw [hfs]; exact hi) hp hs1
        · rw [hd, hdir] at hp
          simp only [Bool.not_true, Bool.false_eq_true, if_false] at hp
          split at hp
          · cases hp
          · rename_i a1 ha1
            obtain ⟨h1, h2⟩ := putFile_putPlain hab hk' hi hdir ha1 hpl
            exact ih hrest a1 a' w1 w' S h1 h2 hp hs1

/-! ## Stage 3: below `.pc` -/

/-- `save_applied_patches`: nothing changes outside `.pc`, and `.pc/applied-patches` gains the names -/
theorem saveApplied_spec {w w' : World} {names : List Bytes} (h : saveApplied w names = .ok w') :
    PcOnly w.fs w'.fs ∧
    fileAt w'.fs appliedKey = appendView (fileAt w.fs appliedKey) (names.map (· ++ [10])).flatten := by
  unfold saveApplied at h
  split at h
  · rename_i w1 hop1
    have g1 : w.fs.createDirAll pcDir = .ok w1.fs := (op_ok_run hop1).1
    have p1 : PcOnly w.fs w1.fs := createDirAll_pcOnly (d := pcDir) (.inr (by unfold isPcKey pcDir; rfl)) g1
    have f1 : fileAt w1.fs appliedKey = fileAt w.fs appliedKey := createDirAll_fileAt g1 appliedKey
    split at h
    · rename_i w2 hop2
      have g2 : w1.fs.appendFile appliedKey [] = .ok w2.fs := (op_ok_run hop2).1
      have p2 : PcOnly w1.fs w2.fs := fun q hq => appendFile_lookup_ne g2 (fun e => hq (e ▸ isPcKey_appliedKey))
      have f2 := appendFile_fileAt_self g2
      split at h
      · rename_i hemp
        cases h
        have : names = [] := by simpa using hemp
        subst this
        refine ⟨p1.trans p2, ?_⟩
        rw [f2, f1]
        rfl
      · split at h
        · rename_i w3 hop3
          cases h
          obtain ⟨e3, _⟩ := op_write_ok hop3
          refine ⟨(p1.trans p2).trans (fun q hq => ?_), ?_⟩
          · rw [e3]
            exact appendBytes_lookup_ne _ _ (fun e => hq (e ▸ isPcKey_appliedKey))
          · rw [e3, appendBytes_fileAt_self, f2, f1]
            cases fileAt w.fs appliedKey with
            | none => simp [appendView]
            | some x => obtain ⟨c, m⟩ := x; simp [appendView]
        · cases h
        · cases h
    · cases h
    · cases h
  · cases h
  · cases h

theorem saveBackup_applied {w w' : World} {pn name : Bytes} {f : FileSt Bytes} (hn : PatchNameOK pn)
    (h : saveBackup w pn name f = .ok w') : fileAt w'.fs appliedKey = fileAt w.fs appliedKey := by
  obtain ⟨k, hk⟩ := BackupDisk.saveBackup_key h
  exact (BackupDisk.saveBackup_disk hk h).2.2 appliedKey (fun e => pcKey_ne_applied hn hk e.symm)

/-- the driver's backups leave `.pc/applied-patches` alone (no patch is called `.` or lives in a directory
`applied-patches`) -/
theorem backups_applied (ss : List Status) : (∀ s ∈ ss, PatchNameOK s.patchName) →
    ∀ (w w' : World) (mem mem' : Mem) (downTo : Nat),
    rollbackAndSaveBackups w mem ss downTo = .ok (w', mem') →
    fileAt w'.fs appliedKey = fileAt w.fs appliedKey := by
  induction ss with
  | nil =>
    intro _ w w' mem mem' d h
    unfold rollbackAndSaveBackups at h
    cases h
    rfl
  | cons s rest ih =>
    intro hn w w' mem mem' d h
    have hn0 := hn s (List.mem_cons_self ..)
    have hnr : ∀ s' ∈ rest, PatchNameOK s'.patchName := fun s' hs' => hn s' (List.mem_cons_of_mem _ hs')
    unfold rollbackAndSaveBackups at h
    split at h
    · cases h
      rfl
    · split at h
      · cases h
      · rename_i mem1 file _
        split at h
        · cases h
        · rename_i w1 heq
          have b := saveBackup_applied hn0 heq
          split at h
          · split at h
            · cases h
            · rename_i newName _
              split at h
              · cases h
              · rename_i nf _
                split at h
                · cases h
                · rename_i w2 heq2
                  rw [ih hnr w2 w' _ mem' d h, saveBackup_applied hn0 heq2, b]
          · rw [ih hnr w1 w' _ mem' d h, b]

/-- the stages of a successful real run of `applyPatches` -/
theorem applyPatches_stages (w w' : World) (cfg : Cfg) (range : List Series.Entry) (st : St) (final k : Nat)
    (rejs : List (Bytes × Bytes)) (hdry : cfg.dryRun = false)
    (hloop : applyLoop w.fs cfg range 0 {} = .ok (st, final, rejs))
    (h : applyPatches w cfg range = .ok (w', k)) :
    k = final ∧ ∃ w1 dirs w2 w3, saveAll w st.mem [] = .ok (w1, dirs) ∧ cleanAll w1 dirs = .ok w2 ∧
      saveRejFiles w2 rejs = .ok w3 ∧
      (w' = w3 ∨ ∃ downTo mem', rollbackAndSaveBackups w3 st.mem st.applied downTo = .ok (w', mem')) := by
  unfold applyPatches at h
  rw [hloop] at h
  simp only [hdry, Bool.false_eq_true, if_false] at h
  split at h
  · cases h
  · rename_i w1 dirs hsave
    split at h
    · cases h
    · rename_i w2 hclean
      split at h
      · cases h
      · rename_i w3 hrej
        split at h
        · split at h
          · cases h
          · rename_i w4 mem4 hbk
            cases h
            exact ⟨rfl, w1, dirs, w2, w3, hsave, hclean, hrej, .inr ⟨_, mem4, hbk⟩⟩
        · have e : w3 = w' ∧ final = k := by cases h; exact ⟨rfl, rfl⟩
          exact ⟨e.2.symm, w1, dirs, w2, w3, hsave, hclean, hrej, .inl e.1.symm⟩

/-- a push whose outcome is "all applied" or "not all applied" ran `applyPatches` and `saveApplied` to the end -/
theorem pushRange_ok {cfg : Cfg} {w : World} {range : List Series.Entry} (hdry : cfg.dryRun = false)
    (hrun : (pushRange cfg w range).1 = .allApplied ∨ (pushRange cfg w range).1 = .notAll) :
    ∃ w4 final w5, applyPatches w cfg range = .ok (w4, final) ∧
      saveApplied w4 ((range.take final).map (·.name)) = .ok w5 ∧
      pushRange cfg w range = (if final == range.length then .allApplied else .notAll, w5) := by
  unfold pushRange at hrun ⊢
  cases ha : applyPatches w cfg range with
  | error e =>
    obtain ⟨f, w'⟩ := e
    rw [ha] at hrun
    cases f <;> simp at hrun
  | ok r =>
    obtain ⟨w4, final⟩ := r
    rw [ha] at hrun
    simp only [hdry, Bool.false_eq_true, if_false] at hrun ⊢
    cases hs : saveApplied w4 ((range.take final).map (·.name)) with
    | error e =>
      rw [hs] at hrun
      simp at hrun
    | ok w5 => exact ⟨w4, final, w5, rfl, hs, rfl⟩

/-! ## Stage 4: the whole command, once `plan` has chosen the range -/

/-- **the driver model refines the specification (range level)** -/
theorem pushRange_refines_specRun (cfg : Cfg) (w : World) (range : List Series.Entry)
    (hdry : cfg.dryRun = false) (hT : Tight w.fs) (hclean : Clean cfg w.fs range)
    (hpf : PrefixFree w.fs cfg range) (hterm : ∀ t' ∈ reached w.fs cfg range [], TreeTerminated t')
    (hrun : (pushRange cfg w range).1 = .allApplied ∨ (pushRange cfg w range).1 = .notAll)
    (hio : (specRun cfg w.fs range).ioError = false) :
    (pushRange cfg w range).1.exit = (specRun cfg w.fs range).exit ∧
    OutsidePc (specRun cfg w.fs range).fs (pushRange cfg w range).2.fs ∧
    fileAt (pushRange cfg w range).2.fs appliedKey = fileAt (specRun cfg w.fs range).fs appliedKey := by
  obtain ⟨w4, final, w5, happly, hsa, hpr⟩ := pushRange_ok hdry hrun
  rw [hpr]
  cases hloop : applyLoop w.fs cfg range 0 {} with
  | error e =>
    unfold applyPatches at happly
    rw [hloop] at happly
    cases happly
  | ok r =>
    obtain ⟨st, final', rejs⟩ := r
    obtain ⟨hfin, w1, dirs, w2, w3, hsave, hcl, hrej, hbk⟩ :=
      applyPatches_stages w w4 cfg range st final' final rejs hdry hloop happly
    subst hfin
    obtain ⟨p, hp, hpk, hprej, h12, ht2, _⟩ :=
      saved_outsidePc w w1 w2 cfg range st final rejs dirs hdry hclean hpf hterm hT hloop hsave hcl
    obtain ⟨hmemOut, hrejOut⟩ := BackupDisk.applyLoop_out hclean.namesOut hloop
    -- the specification's last phase
    obtain ⟨fs1, hr1, _, _, hpc⟩ := failed_push_setup hdry hp hio
    have hrr : p.rejs.reverse = rejs := by rw [hprej, List.reverse_reverse]
    rw [hrr] at hr1
    obtain ⟨h13, _⟩ := rejects_sim rejs hrejOut p.fs fs1 w2 w3 [] h12 (tinv_of_tight ht2) hr1 hrej
    obtain ⟨hexit, happl⟩ := run_applied hdry hclean hp hio
    -- the driver's last phase
    have h34 : PcOnly w3.fs w4.fs ∧ fileAt w4.fs appliedKey = fileAt w3.fs appliedKey := by
      rcases hbk with e | ⟨downTo, mem', hb⟩
      · rw [e]; exact ⟨PcOnly.refl _, rfl⟩
      · refine ⟨rollbackAndSaveBackups_pcOnly _ _ _ _ _ _ hb, backups_applied _ ?_ _ _ _ _ _ hb⟩
        intro s hs
        obtain ⟨e, he, hname⟩ := BackupDisk.applyLoop_patchNames hloop s hs
        rw [hname]
        exact (hclean e (List.mem_of_getElem? he)).nameOK
    obtain ⟨h45, ha5⟩ := saveApplied_spec hsa
    have h03 : fileAt w3.fs appliedKey = fileAt w.fs appliedKey := by
      obtain ⟨s1, s2⟩ := BackupDisk.saveAll_outOnly st.mem w w1 [] dirs hmemOut (fun _ hd' => by cases hd') hsave
      have := (s1.trans (BackupDisk.cleanAll_outOnly dirs w1 w2 s2 hcl)).trans
        (BackupDisk.saveRejFiles_outOnly rejs w2 w3 hrejOut hrej)
      exact fileAt_congr (this appliedKey isPcKey_appliedKey)
    refine ⟨?_, ?_, ?_⟩
    · rw [hexit, hpk]
      show (if (final == range.length) = true then Outcome.allApplied else Outcome.notAll).exit = _
      cases (final == range.length) <;> rfl
    · exact hpc.outside.symm.trans (h13.trans (h34.1.trans h45).outside)
    · show fileAt w5.fs appliedKey = _
      rw [ha5, h34.2, h03, happl, hpk]
      congr 1
      unfold namesBytes
      rw [List.map_map]
      rfl

/-! ## Stage 5 (partial): when no backups are due, the WHOLE tree agrees — `.pc` included

With `--backup never`, or `--backup onfail` (the default) when the whole range applied, neither side writes a backup;
below `.pc` both leave everything as it was, make sure `.pc` is a directory, and append the names to
`.pc/applied-patches`. -/

theorem cda_pc {fs f1 : FS} (h : fs.createDirAll pcDir = .ok f1) :
    f1.lookup pcDir = some .dir ∧ ∀ q, q ≠ pcDir → f1.lookup q = fs.lookup q := by
  obtain ⟨h1, h2⟩ := createDirAll_spec h
  refine ⟨h2 1 (by decide), fun q hq => ?_⟩
  rcases h1 q with e | ⟨_, _, hq0, i, rfl⟩
  · exact e
  · exfalso
    cases i with
    | zero => exact hq0 rfl
    | succ n => exact hq (by simp [pcDir])

/-- the node `appendFile` leaves at its path, inode number erased -/
def appended (x : Option Node) (b : Bytes) : Node :=
  match x with
  | some (.file c m _) => .file (c ++ b) m 0
  | _ => .file b 0o644 0

theorem appendFile_node {fs fs' : FS} {k : Key} {b : Bytes} (h : fs.appendFile k b = .ok fs') :
    (∀ q, q ≠ k → fs'.lookup q = fs.lookup q) ∧ (fs'.lookup k).map noIno = some (appended (fs.lookup k) b) := by
  refine ⟨fun q hq => appendFile_lookup_ne h hq, ?_⟩
  unfold FS.appendFile at h
  split at h
  · cases h
  · split at h
    · cases h
    · split at h
      · cases h
      · rename_i c m i hl
        cases h
        rw [lookup_appendBytes_file hl, hl]
        rfl
      · rename_i hl
        cases h
        have : ({ (fs.set k (.file b 0o644 fs.nextIno)) with nextIno := fs.nextIno + 1 } : FS).lookup k =
            some (.file b 0o644 fs.nextIno) := FS.lookup_set_self fs k _
        rw [this, hl]
        rfl

theorem appendBytes_node {fs : FS} {k : Key} {c : Bytes} {m : Nat} (b : Bytes)
    (h : (fs.lookup k).map noIno = some (.file c m 0)) :
    ((fs.appendBytes k b).lookup k).map noIno = some (.file (c ++ b) m 0) := by
  cases hl : fs.lookup k with
  | none => rw [hl] at h; cases h
  | some n =>
    cases n with
    | dir => rw [hl] at h; cases h
    | file c' m' i =>
      rw [hl] at h
      simp only [Option.map_some, noIno, Option.some.injEq, Node.file.injEq, and_true] at h
      obtain ⟨rfl, rfl⟩ := h
      rw [lookup_appendBytes_file hl]
      rfl

/-- `.pc` and `.pc/applied-patches` after `mkdir -p .pc` and appending `b`: what every path holds -/
structure AppliedPhase (fs fs' : FS) (b : Bytes) : Prop where
  pc : fs'.lookup pcDir = some .dir
  applied : (fs'.lookup appliedKey).map noIno = some (appended (fs.lookup appliedKey) b)
  rest : ∀ q, q ≠ pcDir → q ≠ appliedKey → fs'.lookup q = fs.lookup q

theorem pcDir_ne_applied : appliedKey ≠ pcDir := by decide

theorem appliedPhase_spec {fs f1 f2 : FS} {b : Bytes} (h1 : fs.createDirAll pcDir = .ok f1)
    (h2 : f1.appendFile appliedKey b = .ok f2) : AppliedPhase fs f2 b := by
  obtain ⟨c1, c2⟩ := cda_pc h1
  obtain ⟨a1, a2⟩ := appendFile_node h2
  refine ⟨?_, ?_, fun q hq1 hq2 => ?_⟩
  · rw [a1 pcDir (fun e => pcDir_ne_applied e.symm)]; exact c1
  · rw [a2, c2 appliedKey pcDir_ne_applied]
  · rw [a1 q hq2, c2 q hq1]

theorem appliedPhase_driver {w w' : World} {names : List Bytes} (h : saveApplied w names = .ok w') :
    AppliedPhase w.fs w'.fs (names.map (· ++ [10])).flatten := by
  unfold saveApplied at h
  split at h
  · rename_i w1 hop1
    have g1 : w.fs.createDirAll pcDir = .ok w1.fs := (op_ok_run hop1).1
    split at h
    · rename_i w2 hop2
      have g2 : w1.fs.appendFile appliedKey [] = .ok w2.fs := (op_ok_run hop2).1
      have ph := appliedPhase_spec g1 g2
      split at h
      · rename_i hemp
        cases h
        have : names = [] := by simpa using hemp
        subst this
        exact ph
      · split at h
        · rename_i w3 hop3
          cases h
          obtain ⟨e3, _⟩ := op_write_ok hop3
          rw [e3]
          refine ⟨?_, ?_, fun q hq1 hq2 => ?_⟩
          · rw [appendBytes_lookup_ne _ _ (fun e => pcDir_ne_applied e.symm)]; exact ph.pc
          · have := ph.applied
            generalize hb : (names.map (· ++ [10])).flatten = b
            cases hx : w.fs.lookup appliedKey with
            | none =>
              rw [hx] at this
              have h' := appendBytes_node b (c := []) (m := 0o644) this
              rw [h']; rfl
            | some n =>
              cases n with
              | dir =>
                rw [hx] at this
                have h' := appendBytes_node b (c := []) (m := 0o644) this
                rw [h']; rfl
              | file c m i =>
                rw [hx] at this
                have h' := appendBytes_node b (c := c ++ []) (m := m) this
                rw [h']
                simp [appended]
          · rw [appendBytes_lookup_ne _ _ hq2]; exact ph.rest q hq1 hq2
        · cases h
        · cases h
    · cases h
    · cases h
  · cases h
  · cases h

/-- the part of `finishSpec` below `.pc` when no backups are due -/
theorem finishPc_noBackups {cfg : Cfg} {range : List Series.Entry} {p : Progress} {fs1 : FS}
    (hnb : (cfg.backup == .always || (cfg.backup == .onfail && p.k != range.length)) = false)
    (hio : (finishPc cfg range p fs1).ioError = false) :
    ∃ fs3 fs4, fs1.createDirAll pcDir = .ok fs3 ∧ fs3.appendFile appliedKey (namesBytes (range.take p.k)) = .ok fs4 ∧
      (finishPc cfg range p fs1).fs = fs4 := by
  unfold finishPc at hio ⊢
  simp only [hnb, Bool.false_eq_true, if_false] at hio ⊢
  cases h3 : fs1.createDirAll pcDir with
  | error e => rw [h3] at hio; cases hio
  | ok fs3 =>
    rw [h3] at hio
    simp only at hio ⊢
    cases h4 : fs3.appendFile appliedKey ((range.take p.k).map (fun e => e.name ++ [10])).flatten with
    | error e => rw [h4] at hio; cases hio
    | ok fs4 => exact ⟨fs3, fs4, rfl, h4, rfl⟩

/-- two trees that held the same nodes below `.pc` hold the same nodes (up to inode numbers) after the phase -/
theorem appliedPhase_agree {x a a' b b' : FS} {bytes : Bytes} (ha : ∀ q, isPcKey q → a.lookup q = x.lookup q)
    (hb : ∀ q, isPcKey q → b.lookup q = x.lookup q) (pa : AppliedPhase a a' bytes) (pb : AppliedPhase b b' bytes)
    {q : Key} (hq : isPcKey q) : (a'.lookup q).map noIno = (b'.lookup q).map noIno := by
  by_cases h1 : q = pcDir
  · rw [h1, pa.pc, pb.pc]
  · by_cases h2 : q = appliedKey
    · rw [h2, pa.applied, pb.applied, ha _ isPcKey_appliedKey, hb _ isPcKey_appliedKey]
    · rw [pa.rest q h1 h2, pb.rest q h1 h2, ha q hq, hb q hq]

/-- **the whole tree, when no backups are due** (range level): the same node at EVERY path, `.pc` included, up to
inode numbers -/
theorem pushRange_refines_specRun_whole (cfg : Cfg) (w : World) (range : List Series.Entry)
    (hdry : cfg.dryRun = false) (hT : Tight w.fs) (hclean : Clean cfg w.fs range)
    (hpf : PrefixFree w.fs cfg range) (hterm : ∀ t' ∈ reached w.fs cfg range [], TreeTerminated t')
    (hrun : (pushRange cfg w range).1 = .allApplied ∨ (pushRange cfg w range).1 = .notAll)
    (hnb : cfg.backup = .never ∨ (cfg.backup = .onfail ∧ (pushRange cfg w range).1 = .allApplied))
    (hio : (specRun cfg w.fs range).ioError = false) :
    ParSave.FSEquiv (specRun cfg w.fs range).fs (pushRange cfg w range).2.fs := by
  intro q
  by_cases hq : isPcKey q
  · obtain ⟨w4, final, w5, happly, hsa, hpr⟩ := pushRange_ok hdry hrun
    rw [hpr] at hnb ⊢
    cases hloop : applyLoop w.fs cfg range 0 {} with
    | error e =>
      unfold applyPatches at happly
      rw [hloop] at happly
      cases happly
    | ok r =>
      obtain ⟨st, final', rejs⟩ := r
      obtain ⟨hfin, w1, dirs, w2, w3, hsave, hcl, hrej, _⟩ :=
        applyPatches_stages w w4 cfg range st final' final rejs hdry hloop happly
      subst hfin
      obtain ⟨p, hp, hpk, hprej, _⟩ :=
        saved_outsidePc w w1 w2 cfg range st final rejs dirs hdry hclean hpf hterm hT hloop hsave hcl
      have hm : cfg.backup = .never ∨ (cfg.backup = .onfail ∧ final = range.length) := by
        rcases hnb with h | ⟨h1, h2⟩
        · exact .inl h
        · refine .inr ⟨h1, ?_⟩
          by_cases hf : final = range.length
          · exact hf
          · simp [hf] at h2
      obtain ⟨hmemOut, hrejOut'⟩ := BackupDisk.applyLoop_out hclean.namesOut hloop
      have hd4 : ∀ q, isPcKey q → w4.fs.lookup q = w.fs.lookup q :=
        BackupDisk.applyPatches_no_backups_outOnly w w4 cfg range st final final rejs hloop hdry hm hmemOut hrejOut'
          happly
      obtain ⟨fs1, hr1, ho, hio1, _⟩ := failed_push_setup hdry hp hio
      have hnbB : (cfg.backup == .always || (cfg.backup == .onfail && p.k != range.length)) = false := by
        rw [hpk]
        rcases hm with h | ⟨h1, h2⟩
        · rw [h]; rfl
        · rw [h1, h2]; simp
      obtain ⟨fs3, fs4, h3, h4, hfs⟩ := finishPc_noBackups hnbB hio1
      rw [ho, hfs]
      have hrejOut : RejsOut p.rejs := clean_rejsOut hclean (fun _ hm => by cases hm) hp
      have hs1 : ∀ q, isPcKey q → fs1.lookup q = w.fs.lookup q := by
        intro q hq
        have t1 := (clean_touch hclean hp).pc_same (fun _ => not_pc_of_not_own) hq
        have t2 := (putRejects_touchT (fun k => ¬ isPcKey k) _
          (fun r hr k hk => hrejOut.reverse r hr k hk) _ _ hr1).pc_same (fun _ h => h) hq
        rw [t2, t1]
        rfl
      have hbytes : (((range.take final).map (·.name)).map (· ++ [10])).flatten = namesBytes (range.take p.k) := by
        unfold namesBytes
        rw [List.map_map, hpk]
        rfl
      have pd := appliedPhase_driver hsa
      rw [hbytes] at pd
      exact appliedPhase_agree hs1 hd4 (appliedPhase_spec h3 h4) pd hq
  · exact (pushRange_refines_specRun cfg w range hdry hT hclean hpf hterm hrun hio).2.1 q hq

end RQ.Refine2

#print axioms RQ.Refine2.saved_fileAt_eq_spec
#print axioms RQ.Refine2.saved_outsidePc
#print axioms RQ.Refine2.rejects_sim
#print axioms RQ.Refine2.saveApplied_spec
#print axioms RQ.Refine2.backups_applied
#print axioms RQ.Refine2.pushRange_refines_specRun
#print axioms RQ.Refine2.pushRange_refines_specRun_whole
