import RQ.Spec.Push
import RQ.Lemmas.SaveFlush
/-!
# `storeTree` on the level of single paths

What `Spec.storeTree` (unlink, `mkdir -p`, create, chmod, write — or unlink and prune the directories that
became empty) does to the `lookup` of every path: the path `k` of the name gets the new file (or nothing), every
other path keeps what it had, except that *strict prefixes* of `k` may change between "nothing" and "directory".
`storeTree_fileAt` is the same statement projected to regular files (`Flush.fileAt`).

This is the file-system half of `RQ/Lemmas/SpecAgree.lean`.
-/
namespace RQ.Agree
open RQ RQ.Push RQ.Spec RQ.Flush

/-- `q` is a strict prefix of `k` -/
def SPre (q k : Key) : Prop := q.length < k.length ∧ k.take q.length = q

instance (q k : Key) : Decidable (SPre q k) := inferInstanceAs (Decidable (_ ∧ _))

theorem spre_take {k : Key} {i : Nat} (h : i < k.length) : SPre (k.take i) k := by
  refine ⟨by simp; omega, ?_⟩
  rw [List.length_take, Nat.min_eq_left (Nat.le_of_lt h)]

theorem spre_eq_take {q k : Key} (h : SPre q k) : q = k.take q.length := h.2.symm

theorem spre_irrefl (k : Key) : ¬ SPre k k := fun h => Nat.lt_irrefl _ h.1

theorem spre_ne {q k : Key} (h : SPre q k) : q ≠ k := fun e => spre_irrefl k (e ▸ h)

theorem spre_trans {a b c : Key} (h1 : SPre a b) (h2 : SPre b c) : SPre a c := by
  refine ⟨Nat.lt_trans h1.1 h2.1, ?_⟩
  have hb := h2.2
  have ha := h1.2
  rw [← hb] at ha
  rw [List.take_take, Nat.min_eq_left (Nat.le_of_lt h1.1)] at ha
  exact ha

theorem spre_dropLast {q k : Key} (h : SPre q k) (hq : q ≠ []) : SPre q.dropLast k := by
  have hl : q.length ≠ 0 := fun e => hq (List.length_eq_zero_iff.mp e)
  have h2 := h.2
  refine ⟨by rw [List.length_dropLast]; have := h.1; omega, ?_⟩
  rw [List.length_dropLast, List.dropLast_eq_take]
  have : q.take (q.length - 1) = (k.take q.length).take (q.length - 1) := by rw [h2]
  rw [this, List.take_take, Nat.min_eq_left (by omega)]

theorem dropLast_spre {k : Key} (hk : k ≠ []) : SPre k.dropLast k := by
  have hl : k.length ≠ 0 := fun e => hk (List.length_eq_zero_iff.mp e)
  refine ⟨by simp; omega, ?_⟩
  rw [List.length_dropLast, List.dropLast_eq_take]

theorem nil_spre {k : Key} (hk : k ≠ []) : SPre [] k := by
  have hl : k.length ≠ 0 := fun e => hk (List.length_eq_zero_iff.mp e)
  exact ⟨by simp; omega, by simp⟩

/-- the prefixes of `k.dropLast` are strict prefixes of `k` -/
theorem take_dropLast_spre {k : Key} (hk : k ≠ []) (i : Nat) : SPre (k.dropLast.take i) k := by
  have hl : k.length ≠ 0 := fun e => hk (List.length_eq_zero_iff.mp e)
  rw [List.dropLast_eq_take, List.take_take]
  exact spre_take (by omega)

def IsFile : Option Node → Prop
  | some (.file ..) => True
  | _ => False

def DirOrNone (x : Option Node) : Prop := x = none ∨ x = some .dir

theorem not_isFile_of_dirOrNone {x : Option Node} (h : DirOrNone x) : ¬ IsFile x := by
  rcases h with rfl | rfl <;> exact fun h => h

theorem dirOrNone_of_not_isFile {x : Option Node} (h : ¬ IsFile x) : DirOrNone x := by
  cases x with
  | none => exact .inl rfl
  | some n =>
    cases n with
    | dir => exact .inr rfl
    | file c m i => exact absurd trivial h

/-- `fs'` differs from `fs` at most by directories appearing / disappearing at strict prefixes of `k` -/
def DirChange (k : Key) (fs fs' : FS) : Prop :=
  ∀ q, fs'.lookup q = fs.lookup q ∨ (SPre q k ∧ DirOrNone (fs.lookup q) ∧ DirOrNone (fs'.lookup q))

/-- the same, and whatever at `k` itself -/
def Near (k : Key) (fs fs' : FS) : Prop :=
  ∀ q, q ≠ k → fs'.lookup q = fs.lookup q ∨ (SPre q k ∧ DirOrNone (fs.lookup q) ∧ DirOrNone (fs'.lookup q))

theorem DirChange.refl (k : Key) (fs : FS) : DirChange k fs fs := fun _ => .inl rfl

theorem DirChange.trans {k : Key} {a b c : FS} (h1 : DirChange k a b) (h2 : DirChange k b c) :
    DirChange k a c := by
  intro q
  rcases h1 q with e1 | ⟨s1, d1, d1'⟩ <;> rcases h2 q with e2 | ⟨s2, d2, d2'⟩
  · exact .inl (e2.trans e1)
  · exact .inr ⟨s2, e1 ▸ d2, d2'⟩
  · exact .inr ⟨s1, d1, e2 ▸ d1'⟩
  · exact .inr ⟨s1, d1, d2'⟩

theorem DirChange.self {k : Key} {a b : FS} (h : DirChange k a b) : b.lookup k = a.lookup k := by
  rcases h k with e | ⟨s, _, _⟩
  · exact e
  · exact absurd s (spre_irrefl k)

theorem DirChange.near {k : Key} {a b : FS} (h : DirChange k a b) : Near k a b := fun q _ => h q

theorem Near.refl (k : Key) (fs : FS) : Near k fs fs := fun _ _ => .inl rfl

theorem Near.trans {k : Key} {a b c : FS} (h1 : Near k a b) (h2 : Near k b c) : Near k a c := by
  intro q hq
  rcases h1 q hq with e1 | ⟨s1, d1, d1'⟩ <;> rcases h2 q hq with e2 | ⟨s2, d2, d2'⟩
  · exact .inl (e2.trans e1)
  · exact .inr ⟨s2, e1 ▸ d2, d2'⟩
  · exact .inr ⟨s1, d1, e2 ▸ d1'⟩
  · exact .inr ⟨s1, d1, d2'⟩

/-- away from `k` and its strict prefixes nothing changes -/
theorem Near.frame {k : Key} {a b : FS} (h : Near k a b) {q : Key} (hq : q ≠ k) (hs : ¬ SPre q k) :
    b.lookup q = a.lookup q := by
  rcases h q hq with e | ⟨s, _, _⟩
  · exact e
  · exact absurd s hs

/-- regular files other than `k` are untouched -/
theorem Near.isFile_eq {k : Key} {a b : FS} (h : Near k a b) {q : Key} (hq : q ≠ k) :
    (IsFile (b.lookup q) ∨ IsFile (a.lookup q)) → b.lookup q = a.lookup q := by
  intro hf
  rcases h q hq with e | ⟨_, d, d'⟩
  · exact e
  · rcases hf with hf | hf
    · exact absurd hf (not_isFile_of_dirOrNone d')
    · exact absurd hf (not_isFile_of_dirOrNone d)

theorem Near.fileAt_eq {k : Key} {a b : FS} (h : Near k a b) {q : Key} (hq : q ≠ k) :
    fileAt b q = fileAt a q := by
  rcases h q hq with e | ⟨_, d, d'⟩
  · exact fileAt_congr e
  · have h1 : fileAt a q = none := fileAt_eq_none_iff.mpr d
    have h2 : fileAt b q = none := fileAt_eq_none_iff.mpr d'
    rw [h1, h2]

/-! ### primitive steps -/

theorem near_erase (fs : FS) (k : Key) : Near k fs (fs.erase k) :=
  fun q hq => .inl (FS.lookup_erase_ne fs k q hq)

theorem near_set (fs : FS) (k : Key) (n : Node) : Near k fs (fs.set k n) :=
  fun q hq => .inl (FS.lookup_set_ne fs k q n hq)

theorem dirChange_erase_dir {fs : FS} {k q : Key} (hs : SPre q k) (hd : fs.lookup q = some .dir) :
    DirChange k fs (fs.erase q) := by
  intro q'
  by_cases e : q' = q
  · subst e
    exact .inr ⟨hs, .inr hd, .inl (FS.lookup_erase_self fs q')⟩
  · exact .inl (FS.lookup_erase_ne fs q q' e)

theorem dirChange_set_dir {fs : FS} {k q : Key} (hs : SPre q k) (hd : fs.lookup q = none) :
    DirChange k fs (fs.set q .dir) := by
  intro q'
  by_cases e : q' = q
  · subst e
    exact .inr ⟨hs, .inl hd, .inr (FS.lookup_set_self fs q' _)⟩
  · exact .inl (FS.lookup_set_ne fs q q' _ e)

/-! ### `fileOnPath` -/

theorem fileOnPath_false_iff (fs : FS) (k : Key) :
    fs.fileOnPath k = false ↔ ∀ q, SPre q k → q ≠ [] → ¬ IsFile (fs.lookup q) := by
  unfold FS.fileOnPath
  rw [List.any_eq_false]
  constructor
  · intro h q hs hq hf
    have hi := h q.length (List.mem_range.mpr hs.1)
    rw [hs.2] at hi
    apply hi
    cases hl : fs.lookup q with
    | none => rw [hl] at hf; exact hf.elim
    | some n =>
      cases n with
      | dir => rw [hl] at hf; exact hf.elim
      | file c m i =>
        simp only [decide_eq_true_eq]
        exact Nat.pos_of_ne_zero (fun e => hq (List.length_eq_zero_iff.mp e))
  · intro h i hi
    rw [List.mem_range] at hi
    have hs := spre_take hi
    intro hm
    split at hm
    · rename_i c m ino hl
      simp only [decide_eq_true_eq] at hm
      refine h (k.take i) hs ?_ (by rw [hl]; trivial)
      intro e
      have := congrArg List.length e
      rw [List.length_take] at this
      simp only [List.length_nil] at this
      omega
    · cases hm

/-- `fileOnPath` only looks at which strict prefixes are regular files -/
theorem fileOnPath_congr {a b : FS} {k : Key}
    (h : ∀ q, SPre q k → (IsFile (b.lookup q) ↔ IsFile (a.lookup q))) : b.fileOnPath k = a.fileOnPath k := by
  cases ha : a.fileOnPath k with
  | false =>
    rw [fileOnPath_false_iff] at ha ⊢
    intro q hs hq hf
    exact ha q hs hq ((h q hs).mp hf)
  | true =>
    cases hb : b.fileOnPath k with
    | true => rfl
    | false =>
      rw [fileOnPath_false_iff] at hb
      have : a.fileOnPath k = false := by
        rw [fileOnPath_false_iff]
        intro q hs hq hf
        exact hb q hs hq ((h q hs).mpr hf)
      rw [this] at ha; cases ha

theorem Near.isFile_iff {k : Key} {a b : FS} (h : Near k a b) {q : Key} (hq : q ≠ k) :
    IsFile (b.lookup q) ↔ IsFile (a.lookup q) := by
  rcases h q hq with e | ⟨_, d, d'⟩
  · rw [e]
  · exact ⟨fun x => absurd x (not_isFile_of_dirOrNone d'), fun x => absurd x (not_isFile_of_dirOrNone d)⟩

/-- a change near `k` does not change `fileOnPath` of `k`, nor of any path `k` is not a strict prefix of -/
theorem Near.fileOnPath_eq {k : Key} {a b : FS} (h : Near k a b) {k' : Key} (hk : ¬ SPre k k') :
    b.fileOnPath k' = a.fileOnPath k' := by
  apply fileOnPath_congr
  intro q hs
  exact h.isFile_iff (fun e => hk (e ▸ hs))

/-! ### `createDirAll` -/

/-- the step function of `createDirAll` -/
def cdaStep (d : Key) (acc : Except IOErr FS) (i : Nat) : Except IOErr FS :=
  match acc with
  | .error e => .error e
  | .ok f =>
    let p := d.take i
    if p == [] then .ok f
    else match f.lookup p with
      | some .dir => .ok f
      | some (.file ..) => .error .other
      | none => .ok (f.set p .dir)

theorem createDirAll_eq (fs : FS) (d : Key) :
    fs.createDirAll d = (List.range (d.length + 1)).foldl (cdaStep d) (.ok fs) := rfl

/-- one step, when no regular file sits on a strict prefix of `k` -/
theorem cdaStep_ok {k d : Key} (hd : ∀ i, SPre (d.take i) k) (f : FS) (i : Nat)
    (hf : ∀ q, SPre q k → q ≠ [] → ¬ IsFile (f.lookup q)) :
    ∃ f', cdaStep d (.ok f) i = .ok f' ∧ DirChange k f f' ∧ (d.take i = [] ∨ f'.lookup (d.take i) = some .dir) := by
  unfold cdaStep
  simp only
  by_cases hp : d.take i = []
  · refine ⟨f, ?_, DirChange.refl k f, .inl hp⟩
    simp [hp]
  · have hpb : (d.take i == []) = false := by simpa using hp
    simp only [hpb, Bool.false_eq_true, if_false]
    cases hl : f.lookup (d.take i) with
    | none =>
      exact ⟨_, rfl, dirChange_set_dir (hd i) hl, .inr (FS.lookup_set_self f _ _)⟩
    | some n =>
      cases n with
      | dir => exact ⟨f, rfl, DirChange.refl k f, .inr hl⟩
      | file c m ino => exact absurd (by rw [hl]; trivial) (hf _ (hd i) hp)

theorem dirChange_noFile {k : Key} {a b : FS} (h : DirChange k a b)
    (hf : ∀ q, SPre q k → q ≠ [] → ¬ IsFile (a.lookup q)) :
    ∀ q, SPre q k → q ≠ [] → ¬ IsFile (b.lookup q) := by
  intro q hs hq
  rcases h q with e | ⟨_, _, d'⟩
  · rw [e]; exact hf q hs hq
  · exact not_isFile_of_dirOrNone d'

theorem cda_fold_ok {k d : Key} (hd : ∀ i, SPre (d.take i) k) : ∀ (l : List Nat) (f : FS),
    (∀ q, SPre q k → q ≠ [] → ¬ IsFile (f.lookup q)) →
    ∃ f', l.foldl (cdaStep d) (.ok f) = .ok f' ∧ DirChange k f f' := by
  intro l
  induction l with
  | nil => intro f _; exact ⟨f, rfl, DirChange.refl k f⟩
  | cons i t ih =>
    intro f hf
    obtain ⟨f1, h1, c1, _⟩ := cdaStep_ok hd f i hf
    obtain ⟨f2, h2, c2⟩ := ih f1 (dirChange_noFile c1 hf)
    refine ⟨f2, ?_, c1.trans c2⟩
    rw [List.foldl_cons, h1, h2]

/-- `mkdir -p` of the parent of `k` succeeds when no regular file is on the way, only adds directories at strict
prefixes of `k`, and afterwards the parent is a directory -/
theorem createDirAll_parent {fs : FS} {k : Key} (hk : k ≠ [])
    (hf : ∀ q, SPre q k → q ≠ [] → ¬ IsFile (fs.lookup q)) :
    ∃ fs', fs.createDirAll k.dropLast = .ok fs' ∧ DirChange k fs fs' ∧ fs'.isDir k.dropLast = true := by
  have hd := take_dropLast_spre hk
  rw [createDirAll_eq, List.range_succ, List.foldl_append]
  obtain ⟨f1, h1, c1⟩ := cda_fold_ok hd (List.range k.dropLast.length) fs hf
  obtain ⟨f2, h2, c2, hlast⟩ := cdaStep_ok hd f1 k.dropLast.length (dirChange_noFile c1 hf)
  refine ⟨f2, ?_, c1.trans c2, ?_⟩
  · rw [h1, List.foldl_cons, List.foldl_nil, h2]
  · rw [List.take_length] at hlast
    unfold FS.isDir
    rcases hlast with e | e
    · simp [e]
    · simp [e]

/-! ### `pruneUp` -/

theorem pruneUp_dirChange {k : Key} : ∀ (fuel : Nat) (fs : FS) (q : Key), (q = [] ∨ SPre q k) →
    DirChange k fs (pruneUp fs fuel q) := by
  intro fuel
  induction fuel with
  | zero => intro fs q _; exact DirChange.refl k fs
  | succ n ih =>
    intro fs q hq
    unfold pruneUp
    split
    · exact DirChange.refl k fs
    · rename_i hne
      have hqne : q ≠ [] := by simpa using hne
      have hs : SPre q k := by
        rcases hq with e | e
        · exact absurd e hqne
        · exact e
      split
      · split
        · rename_i fs' hrm
          have e := FS.removeDir_ok hrm
          subst e
          exact (dirChange_erase_dir hs (removeDir_lookup hrm)).trans
            (ih _ _ (.inr (spre_dropLast hs hqne)))
        · exact DirChange.refl k fs
      · exact DirChange.refl k fs

/-! ### `createFile` on a free path -/

theorem createFile_new {fs : FS} {k : Key} (hk : k ≠ []) (hfp : fs.fileOnPath k = false)
    (hdir : fs.isDir k.dropLast = true) (hl : fs.lookup k = none) :
    fs.createFile k = .ok { (fs.set k (.file [] 0o644 fs.nextIno)) with nextIno := fs.nextIno + 1 } := by
  unfold FS.createFile
  have hkb : (k == []) = false := by simpa using hk
  simp [hkb, hfp, hdir, hl]

/-! ### `storeTree` -/

/-- what is at `k` after `f` has been stored there -/
def Stored (fs : FS) (k : Key) (f : FileSt Bytes) : Prop :=
  if f.deleted then fs.lookup k = none
  else ∃ i, fs.lookup k = some (.file (bytesOf f.content) (modeOf f.perms) i)

theorem lookup_setMode_file {fs : FS} {k : Key} {c : Bytes} {m i : Nat} (h : fs.lookup k = some (.file c m i))
    (p : Nat) : (fs.setMode k p).lookup k = some (.file c (p % 4096) i) := by
  unfold FS.setMode
  rw [h]
  exact FS.lookup_set_self fs k _

theorem near_setMode (fs : FS) (k : Key) (p : Nat) : Near k fs (fs.setMode k p) := by
  unfold FS.setMode
  split
  · exact near_set fs k _
  · exact Near.refl k fs

theorem lookup_appendBytes_file {fs : FS} {k : Key} {c : Bytes} {m i : Nat} (h : fs.lookup k = some (.file c m i))
    (b : Bytes) : (fs.appendBytes k b).lookup k = some (.file (c ++ b) m i) := by
  unfold FS.appendBytes
  rw [h]
  exact FS.lookup_set_self fs k _

theorem near_appendBytes (fs : FS) (k : Key) (b : Bytes) : Near k fs (fs.appendBytes k b) := by
  unfold FS.appendBytes
  split
  · exact near_set fs k _
  · exact Near.refl k fs

/-- `storeTree` after the unlink -/
def storeRest (fs1 : FS) (k : Key) (f : FileSt Bytes) (existed : Bool) : Except Unit FS :=
  if f.deleted then .ok (if existed then pruneUp fs1 (k.length + 1) k.dropLast else fs1)
  else
    match fs1.createDirAll k.dropLast with
    | .error _ => .error ()
    | .ok fs2 =>
      match fs2.createFile k with
      | .error _ => .error ()
      | .ok fs3 =>
        let fs4 := match f.perms with | some p => fs3.setMode k p | none => fs3
        .ok (fs4.appendBytes k (bytesOf f.content))

theorem storeRest_spec {fs1 : FS} {k : Key} (f : FileSt Bytes) (existed : Bool) (hk0 : k ≠ [])
    (hnf1 : ∀ q, SPre q k → q ≠ [] → ¬ IsFile (fs1.lookup q)) (hl1 : fs1.lookup k = none) :
    ∃ fs', storeRest fs1 k f existed = .ok fs' ∧ Stored fs' k f ∧ Near k fs1 fs' := by
  unfold storeRest
  cases hdel : f.deleted with
  | true =>
    simp only [if_true]
    have hp : DirChange k fs1 (pruneUp fs1 (k.length + 1) k.dropLast) :=
      pruneUp_dirChange _ _ _ (.inr (dropLast_spre hk0))
    refine ⟨_, rfl, ?_, ?_⟩
    · unfold Stored
      simp only [hdel, if_true]
      split
      · rw [hp.self, hl1]
      · exact hl1
    · split
      · exact hp.near
      · exact Near.refl k fs1
  | false =>
    simp only [Bool.false_eq_true, if_false]
    obtain ⟨fs2, e2, c2, hdir2⟩ := createDirAll_parent hk0 hnf1
    rw [e2]
    simp only
    have hl2 : fs2.lookup k = none := by rw [c2.self, hl1]
    have hfp2 : fs2.fileOnPath k = false := by
      rw [fileOnPath_false_iff]
      exact dirChange_noFile c2 hnf1
    rw [createFile_new hk0 hfp2 hdir2 hl2]
    simp only
    have hl3 : ({ (fs2.set k (.file [] 0o644 fs2.nextIno)) with nextIno := fs2.nextIno + 1 } : FS).lookup k
        = some (.file [] 0o644 fs2.nextIno) := FS.lookup_set_self fs2 k _
    have n3 : Near k fs2 ({ (fs2.set k (.file [] 0o644 fs2.nextIno)) with nextIno := fs2.nextIno + 1 } : FS) :=
      near_set fs2 k _
    generalize ({ (fs2.set k (.file [] 0o644 fs2.nextIno)) with nextIno := fs2.nextIno + 1 } : FS) = fs3 at hl3 n3
    cases hperm : f.perms with
    | none =>
      simp only
      refine ⟨_, rfl, ?_, c2.near.trans (n3.trans (near_appendBytes fs3 k _))⟩
      unfold Stored
      simp only [hdel, Bool.false_eq_true, if_false, hperm, modeOf]
      refine ⟨fs2.nextIno, ?_⟩
      rw [lookup_appendBytes_file hl3]
      simp
    | some p =>
      simp only
      refine ⟨_, rfl, ?_, c2.near.trans (n3.trans ((near_setMode fs3 k p).trans (near_appendBytes _ k _)))⟩
      unfold Stored
      simp only [hdel, Bool.false_eq_true, if_false, hperm, modeOf]
      refine ⟨fs2.nextIno, ?_⟩
      rw [lookup_appendBytes_file (lookup_setMode_file hl3 p)]
      simp

/-- **`storeTree`, path by path.**  If the name's path `k` is not the working directory, no regular file sits on a
strict prefix of it and it is not a directory, then `storeTree` succeeds; afterwards `k` holds exactly the stored
file (content, permission bits `modeOf perms`) or nothing, and every other path has what it had — up to
directories created / pruned at strict prefixes of `k`. -/
theorem storeTree_spec {fs : FS} {name : Bytes} {k : Key} (f : FileSt Bytes) (hk : safeKey name = some k)
    (hk0 : k ≠ []) (hfp : fs.fileOnPath k = false) (hnd : fs.lookup k ≠ some .dir) :
    ∃ fs', storeTree fs name f = .ok fs' ∧ Stored fs' k f ∧ Near k fs fs' := by
  have hnf := (fileOnPath_false_iff fs k).mp hfp
  cases hl : fs.lookup k with
  | none =>
    have e : storeTree fs name f = storeRest fs k f false := by
      unfold storeTree storeRest
      simp [hk, hl]
      rfl
    rw [e]
    exact storeRest_spec f false hk0 hnf hl
  | some n =>
    cases n with
    | dir => exact absurd hl hnd
    | file c m i =>
      have e : storeTree fs name f = storeRest (fs.erase k) k f true := by
        unfold storeTree storeRest
        simp [hk, hl, FS.removeFile, hfp]
        rfl
      rw [e]
      have n1 := near_erase fs k
      have hnf1 : ∀ q, SPre q k → q ≠ [] → ¬ IsFile ((fs.erase k).lookup q) := by
        intro q hs hq
        rw [n1.isFile_iff (spre_ne hs)]
        exact hnf q hs hq
      obtain ⟨fs', e', hst, hn⟩ := storeRest_spec f true hk0 hnf1 (FS.lookup_erase_self fs k)
      exact ⟨fs', e', hst, n1.trans hn⟩

/-- **`storeTree` on the level of regular files** (`Flush.fileAt`): the stored file at its own path, every other
path unchanged -/
theorem storeTree_fileAt {fs : FS} {name : Bytes} {k : Key} (f : FileSt Bytes) (hk : safeKey name = some k)
    (hk0 : k ≠ []) (hfp : fs.fileOnPath k = false) (hnd : fs.lookup k ≠ some .dir) :
    ∃ fs', storeTree fs name f = .ok fs' ∧
      fileAt fs' k = (if f.deleted then none else some (bytesOf f.content, modeOf f.perms)) ∧
      ∀ q, q ≠ k → fileAt fs' q = fileAt fs q := by
  obtain ⟨fs', e, hst, hn⟩ := storeTree_spec f hk hk0 hfp hnd
  refine ⟨fs', e, ?_, fun q hq => hn.fileAt_eq hq⟩
  unfold Stored at hst
  split at hst
  · rename_i hd
    simp only [hd, if_true]
    exact fileAt_of_lookup_none hst
  · rename_i hd
    have hd' : f.deleted = false := by simpa using hd
    simp only [hd', Bool.false_eq_true, if_false]
    obtain ⟨i, hi⟩ := hst
    rw [fileAt_of_lookup_file hi]
    have : modeOf f.perms % 4096 = modeOf f.perms := by
      unfold modeOf
      split <;> omega
    rw [this]

end RQ.Agree
