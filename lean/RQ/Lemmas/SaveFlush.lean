import RQ.Spec.Flush
import RQ.Lemmas.Inodes
/-!
# The save phase writes out exactly the cache

`saveAll` (+ `cleanAll`) of `RQ/Model/Push.lean` leave on disk, file by file, what `Flush.flushView` says.
Everything is stated through `fileAt` (content and permission bits of the regular file at a path;
directories and inode numbers projected away).

Structure: (1) frame lemmas for `fileAt` under each operation of the abstract file system, (1b) the same for
`World.op`, (2) `saveModifiedFile_fileAt`, (3) `saveAll_flush`, (4) `cleanUp_fileAt`/`cleanAll_fileAt`,
(5) `applyPatches_tree`, and a non-vacuity example.
-/
namespace RQ.Flush
open RQ RQ.Push

/-! ## (1) `fileAt` under the operations of the abstract file system -/

theorem fileAt_of_lookup_none {fs : FS} {k : Key} (h : fs.lookup k = none) : fileAt fs k = none := by
  unfold fileAt; rw [h]

theorem fileAt_of_lookup_dir {fs : FS} {k : Key} (h : fs.lookup k = some .dir) : fileAt fs k = none := by
  unfold fileAt; rw [h]

theorem fileAt_of_lookup_file {fs : FS} {k : Key} {c : Bytes} {m i : Nat}
    (h : fs.lookup k = some (.file c m i)) : fileAt fs k = some (c, m % 4096) := by
  unfold fileAt; rw [h]

/-- `fileAt fs k = none` means: nothing there, or a directory -/
theorem fileAt_eq_none_iff {fs : FS} {k : Key} :
    fileAt fs k = none ↔ fs.lookup k = none ∨ fs.lookup k = some .dir := by
  unfold fileAt
  cases h : fs.lookup k with
  | none => simp
  | some n => cases n <;> simp

theorem fileAt_congr {a b : FS} {k : Key} (h : a.lookup k = b.lookup k) : fileAt a k = fileAt b k := by
  unfold fileAt; rw [h]

theorem lookup_withIno (fs : FS) (n : Nat) (k : Key) : ({ fs with nextIno := n } : FS).lookup k = fs.lookup k := rfl

theorem fileAt_withIno (fs : FS) (n : Nat) (k : Key) : fileAt ({ fs with nextIno := n } : FS) k = fileAt fs k := rfl

theorem fileAt_set_file (fs : FS) (k : Key) (c : Bytes) (m i : Nat) :
    fileAt (fs.set k (.file c m i)) k = some (c, m % 4096) :=
  fileAt_of_lookup_file (FS.lookup_set_self fs k _)

theorem fileAt_set_dir (fs : FS) (k : Key) : fileAt (fs.set k .dir) k = none :=
  fileAt_of_lookup_dir (FS.lookup_set_self fs k _)

theorem fileAt_set_ne (fs : FS) (k k' : Key) (n : Node) (hne : k' ≠ k) :
    fileAt (fs.set k n) k' = fileAt fs k' :=
  fileAt_congr (FS.lookup_set_ne fs k k' n hne)

theorem fileAt_erase_self (fs : FS) (k : Key) : fileAt (fs.erase k) k = none :=
  fileAt_of_lookup_none (FS.lookup_erase_self fs k)

theorem fileAt_erase_ne (fs : FS) (k k' : Key) (hne : k' ≠ k) : fileAt (fs.erase k) k' = fileAt fs k' :=
  fileAt_congr (FS.lookup_erase_ne fs k k' hne)

/-- putting a directory node where no regular file is changes no file -/
theorem fileAt_set_dir_all (fs : FS) (p : Key) (h : fileAt fs p = none) (k : Key) :
    fileAt (fs.set p .dir) k = fileAt fs k := by
  by_cases hk : k = p
  · subst hk; rw [fileAt_set_dir, h]
  · exact fileAt_set_ne fs p k _ hk

/-- erasing a node that is not a regular file changes no file -/
theorem fileAt_erase_all (fs : FS) (p : Key) (h : fileAt fs p = none) (k : Key) :
    fileAt (fs.erase p) k = fileAt fs k := by
  by_cases hk : k = p
  · subst hk; rw [fileAt_erase_self, h]
  · exact fileAt_erase_ne fs p k hk

/-! ### removeFile -/

theorem removeFile_fileAt_self {fs fs' : FS} {k : Key} (h : fs.removeFile k = .ok fs') :
    fileAt fs' k = none := by
  rw [FS.removeFile_ok h]; exact fileAt_erase_self fs k

theorem removeFile_fileAt_ne {fs fs' : FS} {k k' : Key} (h : fs.removeFile k = .ok fs') (hne : k' ≠ k) :
    fileAt fs' k' = fileAt fs k' := by
  rw [FS.removeFile_ok h]; exact fileAt_erase_ne fs k k' hne

theorem removeFile_lookup_self {fs fs' : FS} {k : Key} (h : fs.removeFile k = .ok fs') :
    fs'.lookup k = none := by
  rw [FS.removeFile_ok h]; exact FS.lookup_erase_self fs k

/-- `removeFile` answering `NotFound`: there was nothing at the path -/
theorem removeFile_notFound_fileAt {fs : FS} {k : Key} (h : fs.removeFile k = .error .notFound) :
    fileAt fs k = none :=
  fileAt_of_lookup_none (FS.removeFile_notFound h)

/-! ### createDirAll -/

theorem createDirAll_fold_fileAt (k : Key) (l : List Nat) :
    ∀ (acc : Except IOErr FS) (fs' : FS),
      l.foldl (fun acc i =>
        match acc with
        | .error e => .error e
        | .ok f =>
          let p := k.take i
          if p == [] then .ok f
          else match f.lookup p with
            | some .dir => .ok f
            | some (.file ..) => .error .other
            | none => .ok (f.set p .dir)) acc = .ok fs' →
      ∃ fs, acc = .ok fs ∧ ∀ k', fileAt fs' k' = fileAt fs k' := by
  induction l with
  | nil =>
    intro acc fs' h
    exact ⟨fs', h, fun _ => rfl⟩
  | cons i t ih =>
    intro acc fs' h
    rw [List.foldl_cons] at h
    obtain ⟨f1, h1, hs1⟩ := ih _ _ h
    cases acc with
    | error e => simp at h1
    | ok f =>
      refine ⟨f, rfl, ?_⟩
      simp only at h1
      split at h1
      · cases h1; exact hs1
      · split at h1
        · cases h1; exact hs1
        · cases h1
        · rename_i hl
          cases h1
          intro k'
          rw [hs1 k', fileAt_set_dir_all f _ (fileAt_of_lookup_none hl)]

/-- a successful `createDirAll` changes no file, at any path -/
theorem createDirAll_fileAt {fs fs' : FS} {k : Key} (h : fs.createDirAll k = .ok fs') (k' : Key) :
    fileAt fs' k' = fileAt fs k' := by
  unfold FS.createDirAll at h
  obtain ⟨f, hf, hs⟩ := createDirAll_fold_fileAt k _ _ _ h
  cases hf
  exact hs k'

/-! ### removeDir -/

theorem removeDir_lookup {fs fs' : FS} {k : Key} (h : fs.removeDir k = .ok fs') :
    fs.lookup k = some .dir := by
  unfold FS.removeDir at h
  split at h
  · cases h
  · split at h
    · assumption
    · cases h
    · cases h

/-- a successful `removeDir` changes no file, at any path -/
theorem removeDir_fileAt {fs fs' : FS} {k : Key} (h : fs.removeDir k = .ok fs') (k' : Key) :
    fileAt fs' k' = fileAt fs k' := by
  rw [FS.removeDir_ok h]
  exact fileAt_erase_all fs k (fileAt_of_lookup_dir (removeDir_lookup h)) k'

/-! ### createFile -/

theorem createFile_fileAt_ne {fs fs' : FS} {k k' : Key} (h : fs.createFile k = .ok fs') (hne : k' ≠ k) :
    fileAt fs' k' = fileAt fs k' := by
  unfold FS.createFile at h
  split at h
  · cases h
  · split at h
    · cases h
    · split at h
      · cases h
      · split at h
        · cases h
        · cases h; exact fileAt_set_ne fs k k' _ hne
        · cases h; exact fileAt_set_ne fs k k' _ hne

/-- `createFile` at its own path: an empty file, with the old permission bits if there was a file, else 644 -/
theorem createFile_fileAt_self {fs fs' : FS} {k : Key} (h : fs.createFile k = .ok fs') :
    fileAt fs' k = some ([], match fileAt fs k with | some (_, m) => m | none => 0o644) := by
  unfold FS.createFile at h
  split at h
  · cases h
  · split at h
    · cases h
    · split at h
      · cases h
      · split at h
        · cases h
        · rename_i hl
          cases h
          rw [fileAt_set_file, fileAt_of_lookup_file hl]
        · rename_i hl
          cases h
          rw [fileAt_withIno, fileAt_set_file, fileAt_of_lookup_none hl]

/-- `createFile` cannot succeed on a directory -/
theorem createFile_not_dir {fs fs' : FS} {k : Key} (h : fs.createFile k = .ok fs') :
    fs.lookup k ≠ some .dir := by
  intro hl
  unfold FS.createFile at h
  split at h
  · cases h
  · split at h
    · cases h
    · split at h
      · cases h
      · rw [hl] at h; cases h

/-- `createFile` where no regular file is: a new empty file with mode 644 -/
theorem createFile_fileAt_new {fs fs' : FS} {k : Key} (h : fs.createFile k = .ok fs')
    (hn : fileAt fs k = none) : fileAt fs' k = some ([], 0o644) := by
  rw [createFile_fileAt_self h, hn]

/-! ### setMode -/

theorem setMode_fileAt_ne (fs : FS) (k k' : Key) (mode : Nat) (hne : k' ≠ k) :
    fileAt (fs.setMode k mode) k' = fileAt fs k' := by
  unfold FS.setMode
  split
  · exact fileAt_set_ne fs k k' _ hne
  · rfl

theorem setMode_fileAt_self (fs : FS) (k : Key) (mode : Nat) :
    fileAt (fs.setMode k mode) k = (fileAt fs k).map (fun p => (p.1, mode % 4096)) := by
  unfold FS.setMode
  split
  · rename_i hl
    rw [fileAt_set_file, fileAt_of_lookup_file hl]
    simp
  · rename_i hl
    cases h : fs.lookup k with
    | none => rw [fileAt_of_lookup_none h]; rfl
    | some n =>
      cases n with
      | dir => rw [fileAt_of_lookup_dir h]; rfl
      | file c m i => exact absurd h (hl c m i)

/-! ### appendBytes -/

theorem appendBytes_fileAt_ne (fs : FS) (k k' : Key) (b : Bytes) (hne : k' ≠ k) :
    fileAt (fs.appendBytes k b) k' = fileAt fs k' := by
  unfold FS.appendBytes
  split
  · exact fileAt_set_ne fs k k' _ hne
  · rfl

theorem appendBytes_fileAt_self (fs : FS) (k : Key) (b : Bytes) :
    fileAt (fs.appendBytes k b) k = (fileAt fs k).map (fun p => (p.1 ++ b, p.2)) := by
  unfold FS.appendBytes
  split
  · rename_i hl
    rw [fileAt_set_file, fileAt_of_lookup_file hl]
    simp
  · rename_i hl
    cases h : fs.lookup k with
    | none => rw [fileAt_of_lookup_none h]; rfl
    | some n =>
      cases n with
      | dir => rw [fileAt_of_lookup_dir h]; rfl
      | file c m i => exact absurd h (hl c m i)

/-! ### appendFile -/

theorem appendFile_fileAt_ne {fs fs' : FS} {k k' : Key} {b : Bytes} (h : fs.appendFile k b = .ok fs')
    (hne : k' ≠ k) : fileAt fs' k' = fileAt fs k' := by
  unfold FS.appendFile at h
  split at h
  · cases h
  · split at h
    · cases h
    · split at h
      · cases h
      · cases h; exact appendBytes_fileAt_ne fs k k' b hne
      · cases h; exact fileAt_set_ne fs k k' _ hne

/-- `appendFile` at its own path: the bytes are appended to the file, or make a new file with mode 644 -/
theorem appendFile_fileAt_self {fs fs' : FS} {k : Key} {b : Bytes} (h : fs.appendFile k b = .ok fs') :
    fileAt fs' k = some (match fileAt fs k with | some (c, m) => (c ++ b, m) | none => (b, 0o644)) := by
  unfold FS.appendFile at h
  split at h
  · cases h
  · split at h
    · cases h
    · split at h
      · cases h
      · rename_i hl
        cases h
        rw [appendBytes_fileAt_self, fileAt_of_lookup_file hl]
        rfl
      · rename_i hl
        cases h
        rw [fileAt_withIno, fileAt_set_file, fileAt_of_lookup_none hl]

/-! ## (1b) `World.op`: an operation that does not fail did what the file system says, faults or not -/

theorem op_ok_run {w w' : World} {o : Op} (e : w.op o = .ok w') :
    Op.run w.fs o = .ok w'.fs ∧ w'.faultAt = w.faultAt := by
  unfold World.op at e
  simp only at e
  split at e
  · cases e
  · cases o <;> simp only [Op.run] <;> split at e <;> first
      | (cases e; exact ⟨by assumption, rfl⟩)
      | cases e

theorem op_notFound_run {w w' : World} {o : Op} (e : w.op o = .notFound w') :
    Op.run w.fs o = .error .notFound ∧ w'.fs = w.fs ∧ w'.faultAt = w.faultAt := by
  unfold World.op at e
  simp only at e
  split at e
  · cases e
  · cases o <;> simp only [Op.run] <;> split at e <;> first
      | (cases e; exact ⟨by assumption, rfl, rfl⟩)
      | cases e

/-- the path an operation works on -/
def opKey : Op → Key
  | .removeFile k | .createDirAll k | .createFile k | .setMode k _ | .write k _ | .removeDir k | .appendOpen k => k

/-- frame: an operation changes no file at another path -/
theorem run_fileAt_ne {fs fs' : FS} {o : Op} (h : Op.run fs o = .ok fs') {k' : Key} (hne : k' ≠ opKey o) :
    fileAt fs' k' = fileAt fs k' := by
  cases o with
  | removeFile k => exact removeFile_fileAt_ne h hne
  | createDirAll k => exact createDirAll_fileAt h k'
  | createFile k => exact createFile_fileAt_ne h hne
  | setMode k m => cases h; exact setMode_fileAt_ne fs k k' m hne
  | write k b => cases h; exact appendBytes_fileAt_ne fs k k' b hne
  | removeDir k => exact removeDir_fileAt h k'
  | appendOpen k => exact appendFile_fileAt_ne h hne

theorem op_ok_fileAt_ne {w w' : World} {o : Op} (e : w.op o = .ok w') {k' : Key} (hne : k' ≠ opKey o) :
    fileAt w'.fs k' = fileAt w.fs k' :=
  run_fileAt_ne (op_ok_run e).1 hne

/-- the state after one operation that was allowed to answer `ok` or `NotFound` -/
theorem op_notFound_fileAt {w w' : World} {o : Op} (e : w.op o = .notFound w') (k' : Key) :
    fileAt w'.fs k' = fileAt w.fs k' := by
  rw [(op_notFound_run e).2.1]

theorem op_write_ok {w w' : World} {k : Key} {b : Bytes} (e : w.op (.write k b) = .ok w') :
    w'.fs = w.fs.appendBytes k b ∧ w'.faultAt = w.faultAt := by
  obtain ⟨h1, h2⟩ := op_ok_run e
  injection h1 with h1
  exact ⟨h1.symm, h2⟩

theorem op_setMode_ok {w w' : World} {k : Key} {m : Nat} (e : w.op (.setMode k m) = .ok w') :
    w'.fs = w.fs.setMode k m ∧ w'.faultAt = w.faultAt := by
  obtain ⟨h1, h2⟩ := op_ok_run e
  injection h1 with h1
  exact ⟨h1.symm, h2⟩

/-! ## (2) saving one cache entry -/

/-- `writeNew` on a file: the permission bits are set (if any are given), the content is appended -/
theorem writeNew_fileAt {w w' : World} {k : Key} {perms : Option Nat} {content : Bytes}
    (h : writeNew w k perms content = .ok w') :
    w'.faultAt = w.faultAt ∧ (∀ k', k' ≠ k → fileAt w'.fs k' = fileAt w.fs k') ∧
    fileAt w'.fs k = (fileAt w.fs k).map
      (fun p => (p.1 ++ content, match perms with | some m => m % 4096 | none => p.2)) := by
  unfold writeNew at h
  cases perms with
  | none =>
    simp only at h
    split at h
    · rename_i w2 hop
      cases h
      obtain ⟨h1, h2⟩ := op_write_ok hop
      refine ⟨h2, fun k' hne => ?_, ?_⟩
      · rw [h1]; exact appendBytes_fileAt_ne _ _ _ _ hne
      · rw [h1, appendBytes_fileAt_self]
    · cases h
    · cases h
  | some p =>
    simp only at h
    split at h
    · cases h
    · rename_i w1 heq
      split at heq
      · rename_i w1' hop1
        cases heq
        obtain ⟨g1, g2⟩ := op_setMode_ok hop1
        split at h
        · rename_i w2 hop
          cases h
          obtain ⟨h1, h2⟩ := op_write_ok hop
          refine ⟨h2.trans g2, fun k' hne => ?_, ?_⟩
          · rw [h1, g1, appendBytes_fileAt_ne _ _ _ _ hne, setMode_fileAt_ne _ _ _ _ hne]
          · rw [h1, appendBytes_fileAt_self, g1, setMode_fileAt_self]
            cases fileAt w.fs k <;> rfl
        · cases h
        · cases h
      · cases heq
      · cases heq

/-- what the freshly created (empty, mode 644) file looks like after `writeNew` -/
theorem writeNew_fileAt_new {w w' : World} {k : Key} {perms : Option Nat} {content : Bytes}
    (h : writeNew w k perms content = .ok w') (h0 : fileAt w.fs k = some ([], 0o644)) :
    fileAt w'.fs k = some (content, modeOf perms) := by
  rw [(writeNew_fileAt h).2.2, h0]
  cases perms <;> simp [modeOf]

/-- Saving one entry.  The hypothesis on an entry that claims the file did not exist is the weak one that
survives the saving of other entries: there is no regular file at its path (a directory may have appeared
meanwhile — then `createFile` fails, so under `.ok` there was none). -/
theorem saveModifiedFile_fileAt' {w w' : World} {name : Bytes} {f : FileSt Bytes} {k : Key} {d : Option Key}
    (hk : safeKey name = some k) (hex : f.existed = false → fileAt w.fs k = none)
    (h : saveModifiedFile w name f = .ok (w', d)) :
    w'.faultAt = w.faultAt ∧
    fileAt w'.fs k = (if f.deleted then none else some (bytesOf f.content, modeOf f.perms)) ∧
    ∀ k', k' ≠ k → fileAt w'.fs k' = fileAt w.fs k' := by
  unfold saveModifiedFile at h
  rw [hk] at h
  simp only at h
  split at h
  · cases h
  · rename_i w1 heq
    -- after the optional unlink: no regular file at `k`
    have h1 : w1.faultAt = w.faultAt ∧ fileAt w1.fs k = none ∧
        ∀ k', k' ≠ k → fileAt w1.fs k' = fileAt w.fs k' := by
      split at heq
      · split at heq
        · rename_i w0 hop
          cases heq
          obtain ⟨g1, g2⟩ := op_ok_run hop
          exact ⟨g2, removeFile_fileAt_self g1, fun k' hne => removeFile_fileAt_ne g1 hne⟩
        · rename_i w0 hop
          cases heq
          obtain ⟨g1, g2, g3⟩ := op_notFound_run hop
          rw [g2]
          exact ⟨g3, removeFile_notFound_fileAt g1, fun _ _ => rfl⟩
        · cases heq
      · rename_i hne
        cases heq
        exact ⟨rfl, hex (by simpa using hne), fun _ _ => rfl⟩
    obtain ⟨a1, a2, a3⟩ := h1
    split at h
    · rename_i hdel
      cases h
      rw [if_pos hdel]
      exact ⟨a1, a2, a3⟩
    · rename_i hdel
      rw [if_neg hdel]
      split at h
      · cases h
      · rename_i w2 heq2
        have h2 : w2.faultAt = w1.faultAt ∧ ∀ k', fileAt w2.fs k' = fileAt w1.fs k' := by
          split at heq2
          · split at heq2
            · rename_i w0 hop
              cases heq2
              obtain ⟨g1, g2⟩ := op_ok_run hop
              exact ⟨g2, fun k' => createDirAll_fileAt g1 k'⟩
            · cases heq2
            · cases heq2
          · cases heq2
            exact ⟨rfl, fun _ => rfl⟩
        obtain ⟨b1, b2⟩ := h2
        split at h
        · rename_i w3 hop
          obtain ⟨g1, g2⟩ := op_ok_run hop
          have c0 : fileAt w3.fs k = some ([], 0o644) :=
            createFile_fileAt_new g1 (by rw [b2, a2])
          split at h
          · rename_i w4 hwn
            cases h
            obtain ⟨e1, e2, _⟩ := writeNew_fileAt hwn
            refine ⟨by rw [e1, g2, b1, a1], writeNew_fileAt_new hwn c0, fun k' hne => ?_⟩
            rw [e2 k' hne, createFile_fileAt_ne g1 hne, b2, a3 k' hne]
          · cases h
        · cases h
        · cases h

/-- (2) in the form asked for: no fault pending, and a path claimed free is free -/
theorem saveModifiedFile_fileAt {w w' : World} {name : Bytes} {f : FileSt Bytes} {k : Key} {d : Option Key}
    (hf : w.faultAt = none) (hk : safeKey name = some k) (hex : f.existed = false → w.fs.lookup k = none)
    (h : saveModifiedFile w name f = .ok (w', d)) :
    w'.faultAt = none ∧
    fileAt w'.fs k = (if f.deleted then none else some (bytesOf f.content, modeOf f.perms)) ∧
    ∀ k', k' ≠ k → fileAt w'.fs k' = fileAt w.fs k' := by
  obtain ⟨h1, h2, h3⟩ := saveModifiedFile_fileAt' hk (fun he => fileAt_of_lookup_none (hex he)) h
  exact ⟨h1.trans hf, h2, h3⟩

/-- `saveModifiedFile` refuses an unsafe name -/
theorem saveModifiedFile_safe {w w' : World} {name : Bytes} {f : FileSt Bytes} {d : Option Key}
    (h : saveModifiedFile w name f = .ok (w', d)) : ∃ k, safeKey name = some k := by
  unfold saveModifiedFile at h
  split at h
  · cases h
  · rename_i k hk; exact ⟨k, hk⟩

/-! ## (3) saving the whole cache -/

theorem flushView_nil (fs : FS) (k : Key) : flushView [] fs k = fileAt fs k := rfl

theorem flushView_cons_self {cs : List Comp} {name : Bytes} {f : FileSt Bytes} {rest : Mem} {k : Key}
    (hk : safeKey name = some k) (fs : FS) :
    flushView ((cs, name, f) :: rest) fs k =
      (if f.deleted then none else some (bytesOf f.content, modeOf f.perms)) := by
  unfold flushView entryFor
  rw [List.find?_cons]
  simp [hk]

theorem flushView_cons_ne {cs : List Comp} {name : Bytes} {f : FileSt Bytes} {rest : Mem} {k : Key}
    (hk : safeKey name ≠ some k) (fs : FS) :
    flushView ((cs, name, f) :: rest) fs k = flushView rest fs k := by
  unfold flushView entryFor
  rw [List.find?_cons]
  have : (safeKey name == some k) = false := by simpa using hk
  simp only [this]

theorem flushView_of_no_entry {mem : Mem} {k : Key} (h : ∀ e ∈ mem, safeKey e.2.1 ≠ some k) (fs : FS) :
    flushView mem fs k = fileAt fs k := by
  unfold flushView entryFor
  have : mem.find? (fun e => safeKey e.2.1 == some k) = none := by
    rw [List.find?_eq_none]
    intro e he
    simpa using h e he
  rw [this]

/-- the view only depends on the files of the underlying file system -/
theorem flushView_congr (mem : Mem) {a b : FS} {k : Key} (h : fileAt a k = fileAt b k) :
    flushView mem a k = flushView mem b k := by
  unfold flushView
  split
  · rfl
  · exact h

/-- the induction behind `saveAll_flush`: what must hold of the remaining entries is that an entry claiming
its file did not exist has no regular file at its path -/
theorem saveAll_flush_aux (mem : Mem) : ∀ (w w' : World) (dirs0 dirs : List Key),
    KeysDistinct mem →
    (∀ e ∈ mem, e.2.2.existed = false → ∀ k, safeKey e.2.1 = some k → fileAt w.fs k = none) →
    saveAll w mem dirs0 = .ok (w', dirs) →
    w'.faultAt = w.faultAt ∧ ∀ k, fileAt w'.fs k = flushView mem w.fs k := by
  induction mem with
  | nil =>
    intro w w' dirs0 dirs _ _ h
    unfold saveAll at h
    cases h
    exact ⟨rfl, fun k => (flushView_nil _ k).symm⟩
  | cons x rest ih =>
    intro w w' dirs0 dirs hd hfree h
    obtain ⟨cs, name, f⟩ := x
    unfold saveAll at h
    split at h
    · cases h
    · rename_i w1 d heq
      obtain ⟨k0, hk0⟩ := saveModifiedFile_safe heq
      unfold KeysDistinct at hd
      rw [List.pairwise_cons] at hd
      obtain ⟨hd1, hd2⟩ := hd
      obtain ⟨s1, s2, s3⟩ := saveModifiedFile_fileAt' hk0
        (fun he => hfree (cs, name, f) (List.mem_cons_self ..) he k0 hk0) heq
      have hfree' : ∀ e ∈ rest, e.2.2.existed = false → ∀ k, safeKey e.2.1 = some k →
          fileAt w1.fs k = none := by
        intro e he hex k hk
        have hne : k ≠ k0 := by
          intro hkk
          subst hkk
          exact hd1 e he k hk0 hk
        rw [s3 k hne]
        exact hfree e (List.mem_cons_of_mem _ he) hex k hk
      obtain ⟨r1, r2⟩ := ih w1 w' _ dirs hd2 hfree' h
      refine ⟨r1.trans s1, fun k => ?_⟩
      rw [r2 k]
      by_cases hkk : k = k0
      · subst hkk
        rw [flushView_cons_self hk0, flushView_of_no_entry (fun e he => hd1 e he k hk0), s2]
      · have hne : safeKey name ≠ some k := by
          rw [hk0]; intro h'; injection h' with h'; exact hkk h'.symm
        rw [flushView_cons_ne hne]
        exact flushView_congr rest (s3 k hkk)

/-- `MemOK` gives the hypothesis of the induction -/
theorem free_of_memOK {fs : FS} {mem : Mem} (hok : MemOK fs mem) :
    ∀ e ∈ mem, e.2.2.existed = false → ∀ k, safeKey e.2.1 = some k → fileAt fs k = none := by
  intro e he hex k hk
  obtain ⟨h1, h2⟩ := hok e he
  have := h2 hex k
  rw [h1] at this
  exact fileAt_of_lookup_none (this (safeKey_comps hk))

/-- (3) MAIN THEOREM: a successful `saveAll` leaves at every path exactly what `flushView` prescribes.
(The hypothesis "every name in the cache is safe" is not needed: `saveAll` fails otherwise.) -/
theorem saveAll_flush (w w' : World) (mem : Mem) (dirs0 dirs : List Key)
    (hf : w.faultAt = none) (hok : MemOK w.fs mem) (hd : KeysDistinct mem)
    (h : saveAll w mem dirs0 = .ok (w', dirs)) :
    w'.faultAt = none ∧ ∀ k, fileAt w'.fs k = flushView mem w.fs k := by
  obtain ⟨h1, h2⟩ := saveAll_flush_aux mem w w' dirs0 dirs hd (free_of_memOK hok) h
  exact ⟨h1.trans hf, h2⟩

/-- a successful `saveAll` implies that every name in the cache is safe -/
theorem saveAll_safe (mem : Mem) : ∀ (w w' : World) (dirs0 dirs : List Key),
    saveAll w mem dirs0 = .ok (w', dirs) → ∀ e ∈ mem, (safeKey e.2.1).isSome := by
  induction mem with
  | nil => intro _ _ _ _ _ e he; cases he
  | cons x rest ih =>
    intro w w' dirs0 dirs h e he
    obtain ⟨cs, name, f⟩ := x
    unfold saveAll at h
    split at h
    · cases h
    · rename_i w1 d heq
      cases he with
      | head =>
        obtain ⟨k0, hk0⟩ := saveModifiedFile_safe heq
        simp [hk0]
      | tail _ he => exact ih w1 w' _ dirs h e he

/-! ## (4) cleaning empty directories changes no file (with or without a pending fault) -/

theorem cleanUp_fileAt (fuel : Nat) : ∀ (w w' : World) (d : Key), cleanUp w fuel d = .ok w' →
    w'.faultAt = w.faultAt ∧ ∀ k, fileAt w'.fs k = fileAt w.fs k := by
  induction fuel with
  | zero =>
    intro w w' d h
    unfold cleanUp at h
    cases h
    exact ⟨rfl, fun _ => rfl⟩
  | succ n ih =>
    intro w w' d h
    unfold cleanUp at h
    split at h
    · cases h; exact ⟨rfl, fun _ => rfl⟩
    · cases h
    · cases h; exact ⟨rfl, fun _ => rfl⟩
    · split at h
      · cases h
      · rename_i w1 hop
        obtain ⟨g1, g2⟩ := op_ok_run hop
        have hstep : ∀ k, fileAt w1.fs k = fileAt w.fs k := fun k => removeDir_fileAt g1 k
        split at h
        · cases h; exact ⟨g2, hstep⟩
        · obtain ⟨r1, r2⟩ := ih w1 w' _ h
          exact ⟨r1.trans g2, fun k => (r2 k).trans (hstep k)⟩
      · rename_i w1 hop
        obtain ⟨_, g1, g2⟩ := op_notFound_run hop
        have hstep : ∀ k, fileAt w1.fs k = fileAt w.fs k := fun k => by rw [g1]
        split at h
        · cases h; exact ⟨g2, hstep⟩
        · obtain ⟨r1, r2⟩ := ih w1 w' _ h
          exact ⟨r1.trans g2, fun k => (r2 k).trans (hstep k)⟩

theorem cleanAll_fileAt' (ks : List Key) : ∀ (w w' : World), cleanAll w ks = .ok w' →
    w'.faultAt = w.faultAt ∧ ∀ k, fileAt w'.fs k = fileAt w.fs k := by
  induction ks with
  | nil =>
    intro w w' h
    unfold cleanAll at h
    cases h
    exact ⟨rfl, fun _ => rfl⟩
  | cons d ks ih =>
    intro w w' h
    unfold cleanAll at h
    split at h
    · cases h
    · rename_i w1 heq
      obtain ⟨c1, c2⟩ := cleanUp_fileAt _ w w1 d heq
      obtain ⟨r1, r2⟩ := ih w1 w' h
      exact ⟨r1.trans c1, fun k => (r2 k).trans (c2 k)⟩

/-- (4) -/
theorem cleanAll_fileAt (w w' : World) (ks : List Key) (h : cleanAll w ks = .ok w') :
    ∀ k, fileAt w'.fs k = fileAt w.fs k :=
  (cleanAll_fileAt' ks w w' h).2

/-! ## (5) the whole of `applyPatches` -/

/-- the path of one of the reject files that `saveRejFiles` writes -/
def isRejKey (rejs : List (Bytes × Bytes)) (key : Key) : Prop :=
  ∃ r ∈ rejs, safeKey r.1 = some key

/-- a path below `.pc` (where `saveBackup` writes: every key `pcKey` produces is one) -/
def isPcKey (key : Key) : Prop := key.head? = some [46, 112, 99]

theorem pcKey_isPcKey {patchName name : Bytes} {k : Key} (h : pcKey patchName name = some k) : isPcKey k := by
  unfold pcKey at h
  split at h
  · cases h; rfl
  · cases h

theorem saveRejFiles_fileAt (rejs : List (Bytes × Bytes)) : ∀ (w w' : World), saveRejFiles w rejs = .ok w' →
    w'.faultAt = w.faultAt ∧ ∀ key, ¬ isRejKey rejs key → fileAt w'.fs key = fileAt w.fs key := by
  induction rejs with
  | nil =>
    intro w w' h
    unfold saveRejFiles at h
    cases h
    exact ⟨rfl, fun _ _ => rfl⟩
  | cons x rest ih =>
    intro w w' h
    obtain ⟨name, content⟩ := x
    rw [saveRejFiles_cons] at h
    split at h
    · cases h
    · rename_i k hk
      have hne : ∀ key, ¬ isRejKey ((name, content) :: rest) key → key ≠ k := by
        intro key hn hkk
        subst hkk
        exact hn ⟨(name, content), List.mem_cons_self .., hk⟩
      have hrest : ∀ key, ¬ isRejKey ((name, content) :: rest) key → ¬ isRejKey rest key := by
        intro key hn ⟨r, hr, hrk⟩
        exact hn ⟨r, List.mem_cons_of_mem _ hr, hrk⟩
      -- what follows the unlink, from a world `w0` that agrees with `w` off `k`
      have hcont : ∀ w0 : World, w0.faultAt = w.faultAt →
          (∀ key, key ≠ k → fileAt w0.fs key = fileAt w.fs key) →
          (match w0.op (.createFile k) with
            | .notFound w' => saveRejFiles w' rest
            | .failed w' => .error (.err, w')
            | .ok w' =>
              match w'.op (.write k content) with
              | .ok w'' => saveRejFiles w'' rest
              | .notFound w'' | .failed w'' => .error (.err, w'')) = .ok w' →
          w'.faultAt = w.faultAt ∧
            ∀ key, ¬ isRejKey ((name, content) :: rest) key → fileAt w'.fs key = fileAt w.fs key := by
        intro w0 f0 a0 h
        split at h
        · rename_i w1 hop
          obtain ⟨_, g1, g2⟩ := op_notFound_run hop
          obtain ⟨r1, r2⟩ := ih w1 w' h
          refine ⟨r1.trans (g2.trans f0), fun key hn => ?_⟩
          rw [r2 key (hrest key hn), g1, a0 key (hne key hn)]
        · cases h
        · rename_i w1 hop
          obtain ⟨g1, g2⟩ := op_ok_run hop
          split at h
          · rename_i w2 hop2
            obtain ⟨e1, e2⟩ := op_write_ok hop2
            obtain ⟨r1, r2⟩ := ih w2 w' h
            refine ⟨r1.trans (e2.trans (g2.trans f0)), fun key hn => ?_⟩
            have hk' := hne key hn
            rw [r2 key (hrest key hn), e1, appendBytes_fileAt_ne _ _ _ _ hk',
              createFile_fileAt_ne g1 hk', a0 key hk']
          · cases h
          · cases h
      split at h
      · -- the path leads through a regular file: nothing is touched
        split at h
        · cases h
        · split at h
          · cases h
          · obtain ⟨r1, r2⟩ := ih _ w' h
            exact ⟨r1, fun key hn => r2 key (hrest key hn)⟩
      split at h
      · cases h
      · rename_i w0 hop
        obtain ⟨g1, g2⟩ := op_ok_run hop
        exact hcont w0 g2 (fun key hk' => removeFile_fileAt_ne g1 hk') h
      · rename_i w0 hop
        obtain ⟨_, g1, g2⟩ := op_notFound_run hop
        exact hcont w0 g2 (fun key _ => by rw [g1]) h

theorem saveBackup_fileAt {w w' : World} {patchName name : Bytes} {f : FileSt Bytes}
    (h : saveBackup w patchName name f = .ok w') :
    w'.faultAt = w.faultAt ∧ ∀ key, ¬ isPcKey key → fileAt w'.fs key = fileAt w.fs key := by
  unfold saveBackup at h
  split at h
  · cases h
  · rename_i k hk
    have hne : ∀ key, ¬ isPcKey key → key ≠ k := by
      intro key hn hkk
      subst hkk
      exact hn (pcKey_isPcKey hk)
    split at h
    · rename_i w1 hop1
      obtain ⟨g1, g2⟩ := op_ok_run hop1
      have a1 : ∀ key, fileAt w1.fs key = fileAt w.fs key := fun key => createDirAll_fileAt g1 key
      have hcont : ∀ w2 : World, w2.faultAt = w.faultAt →
          (∀ key, key ≠ k → fileAt w2.fs key = fileAt w.fs key) →
          (match w2.op (.createFile k) with
            | .ok w => writeNew w k f.perms (bytesOf f.content)
            | .notFound w | .failed w => .error (.err, w)) = .ok w' →
          w'.faultAt = w.faultAt ∧ ∀ key, ¬ isPcKey key → fileAt w'.fs key = fileAt w.fs key := by
        intro w2 f2 a2 h
        split at h
        · rename_i w3 hop3
          obtain ⟨c1, c2⟩ := op_ok_run hop3
          obtain ⟨e1, e2, _⟩ := writeNew_fileAt h
          refine ⟨e1.trans (c2.trans f2), fun key hn => ?_⟩
          have hk' := hne key hn
          rw [e2 key hk', createFile_fileAt_ne c1 hk', a2 key hk']
        · cases h
        · cases h
      split at h
      · cases h
      · rename_i w2 hop2
        obtain ⟨b1, b2⟩ := op_ok_run hop2
        exact hcont w2 (b2.trans g2) (fun key hk' => by rw [removeFile_fileAt_ne b1 hk', a1]) h
      · rename_i w2 hop2
        obtain ⟨_, b1, b2⟩ := op_notFound_run hop2
        exact hcont w2 (b2.trans g2) (fun key _ => by rw [b1, a1]) h
    · cases h
    · cases h

theorem rollbackAndSaveBackups_fileAt (ss : List Status) : ∀ (w w' : World) (mem mem' : Mem) (downTo : Nat),
    rollbackAndSaveBackups w mem ss downTo = .ok (w', mem') →
    w'.faultAt = w.faultAt ∧ ∀ key, ¬ isPcKey key → fileAt w'.fs key = fileAt w.fs key := by
  induction ss with
  | nil =>
    intro w w' mem mem' d h
    unfold rollbackAndSaveBackups at h
    cases h
    exact ⟨rfl, fun _ _ => rfl⟩
  | cons s rest ih =>
    intro w w' mem mem' d h
    unfold rollbackAndSaveBackups at h
    split at h
    · cases h
      exact ⟨rfl, fun _ _ => rfl⟩
    · split at h
      · cases h
      · rename_i mem1 file _
        split at h
        · cases h
        · rename_i w1 heq
          obtain ⟨b1, b2⟩ := saveBackup_fileAt heq
          split at h
          · split at h
            · cases h
            · rename_i newName _
              split at h
              · cases h
              · rename_i nf _
                split at h
                · cases h
                · rename_i w2 heq2
                  obtain ⟨c1, c2⟩ := saveBackup_fileAt heq2
                  obtain ⟨r1, r2⟩ := ih w2 w' _ mem' d h
                  exact ⟨r1.trans (c1.trans b1), fun key hn => by rw [r2 key hn, c2 key hn, b2 key hn]⟩
          · obtain ⟨r1, r2⟩ := ih w1 w' _ mem' d h
            exact ⟨r1.trans b1, fun key hn => by rw [r2 key hn, b2 key hn]⟩

/-- (5), with the fault state: a real (non-dry) run of `applyPatches` that succeeds leaves at every path
that is neither one of the reject files written nor below `.pc` exactly the flushed cache -/
theorem applyPatches_tree' (w w' : World) (cfg : Cfg) (range : List Series.Entry) (st : St) (final k : Nat)
    (rejs : List (Bytes × Bytes))
    (hf : w.faultAt = none) (hdry : cfg.dryRun = false)
    (hloop : applyLoop w.fs cfg range 0 {} = .ok (st, final, rejs)) (hd : KeysDistinct st.mem)
    (h : applyPatches w cfg range = .ok (w', k)) :
    k = final ∧ w'.faultAt = none ∧
    ∀ key, ¬ isRejKey rejs key → ¬ isPcKey key → fileAt w'.fs key = flushView st.mem w.fs key := by
  have hm : MemOK w.fs st.mem := applyLoop_ok range (memOK_nil _) hloop
  unfold applyPatches at h
  rw [hloop] at h
  simp only [hdry, Bool.false_eq_true, if_false] at h
  split at h
  · cases h
  · rename_i w1 dirs hsave
    obtain ⟨s1, s2⟩ := saveAll_flush w w1 st.mem [] dirs hf hm hd hsave
    split at h
    · cases h
    · rename_i w2 hclean
      obtain ⟨c1, c2⟩ := cleanAll_fileAt' dirs w1 w2 hclean
      split at h
      · cases h
      · rename_i w3 hrej
        obtain ⟨j1, j2⟩ := saveRejFiles_fileAt rejs w2 w3 hrej
        have f3 : w3.faultAt = none := j1.trans (c1.trans s1)
        have a3 : ∀ key, ¬ isRejKey rejs key → fileAt w3.fs key = flushView st.mem w.fs key := by
          intro key hn
          rw [j2 key hn, c2 key, s2 key]
        split at h
        · split at h
          · cases h
          · rename_i w4 mem4 hbk
            cases h
            obtain ⟨b1, b2⟩ := rollbackAndSaveBackups_fileAt _ _ _ _ _ _ hbk
            exact ⟨rfl, b1.trans f3, fun key hn hp => by rw [b2 key hp, a3 key hn]⟩
        · cases h
          exact ⟨rfl, f3, fun key hn _ => a3 key hn⟩

/-- (5) COROLLARY -/
theorem applyPatches_tree (w w' : World) (cfg : Cfg) (range : List Series.Entry) (st : St) (final k : Nat)
    (rejs : List (Bytes × Bytes))
    (hf : w.faultAt = none) (hdry : cfg.dryRun = false)
    (hloop : applyLoop w.fs cfg range 0 {} = .ok (st, final, rejs)) (hd : KeysDistinct st.mem)
    (h : applyPatches w cfg range = .ok (w', k)) :
    k = final ∧
    ∀ key, ¬ isRejKey rejs key → ¬ isPcKey key → fileAt w'.fs key = flushView st.mem w.fs key := by
  obtain ⟨h1, _, h3⟩ := applyPatches_tree' w w' cfg range st final k rejs hf hdry hloop hd h
  exact ⟨h1, h3⟩

/-! ## Non-vacuity: a concrete cache (an existing file `a` modified, a new file `d/c` in a new directory, an
existing file `b` deleted) for which `saveAll` succeeds and all hypotheses of `saveAll_flush` hold -/
namespace Example

def fs0 : FS := { nodes := [([[97]], .file [120, 10] 0o644 1), ([[98]], .file [121, 10] 0o600 2)], nextIno := 3 }
def w0 : World := { fs := fs0 }
def mem0 : Mem :=
  [ (components [97], [97], { content := [[122, 10]], existed := true, deleted := false, perms := some 0o100755 }),
    (components [100, 47, 99], [100, 47, 99],
      { content := [[113, 10], [114]], existed := false, deleted := false, perms := none }),
    (components [98], [98], { content := [], existed := true, deleted := true, perms := none }) ]

theorem k1 : safeKey [97] = some [[97]] := by decide
theorem k2 : safeKey [100, 47, 99] = some [[100], [99]] := by decide
theorem k3 : safeKey [98] = some [[98]] := by decide

theorem memOK0 : MemOK w0.fs mem0 := by
  intro e he
  simp only [mem0, List.mem_cons, List.not_mem_nil, or_false] at he
  rcases he with rfl | rfl | rfl
  · exact ⟨rfl, fun hex => absurd hex (by decide)⟩
  · refine ⟨rfl, fun _ k hk => ?_⟩
    have : keyOfComps (components [100, 47, 99]) = some [[100], [99]] := by decide
    rw [this] at hk
    cases hk
    decide
  · exact ⟨rfl, fun hex => absurd hex (by decide)⟩

theorem distinct0 : KeysDistinct mem0 := by
  unfold KeysDistinct mem0
  simp only [List.pairwise_cons, List.mem_cons, List.not_mem_nil, or_false, forall_eq_or_imp, forall_eq,
    List.Pairwise.nil, and_true, k1, k2, k3]
  refine ⟨⟨?_, ?_⟩, ?_, fun _ hf => hf.elim⟩ <;> intro k h1 h2 <;> exact absurd (h1.trans h2.symm) (by decide)

example : ∃ w' dirs, saveAll w0 mem0 [] = .ok (w', dirs) ∧
    w0.faultAt = none ∧ MemOK w0.fs mem0 ∧ KeysDistinct mem0 ∧ (∀ e ∈ mem0, (safeKey e.2.1).isSome) ∧
    fileAt w'.fs [[97]] = some ([122, 10], 0o755) ∧
    fileAt w'.fs [[100], [99]] = some ([113, 10, 114], 0o644) ∧
    fileAt w'.fs [[98]] = none ∧
    ∀ k, fileAt w'.fs k = flushView mem0 w0.fs k := by
  refine ⟨_, _, rfl, rfl, memOK0, distinct0, by decide, by decide, by decide, by decide, ?_⟩
  exact (saveAll_flush w0 _ mem0 [] _ rfl memOK0 distinct0 rfl).2

end Example

end RQ.Flush
