import RQ.Lemmas.Compose4
/-!
# Pushes compose (C09) — part 5: exit status when no backups are written

When a push writes no backups (`--backup never`, or the default `onfail` and every patch applies), the only output
failures possible below `.pc` are: `.pc` is a regular file, or `.pc/applied-patches` is a directory (`PcBad`).  The
first push having gone through, neither is the case — before it or after it.  Hence the two pushes succeed exactly when
the single push succeeds, and with `--backup never` exit status and output failures agree in all cases.
-/
namespace RQ.Compose
open RQ RQ.Push RQ.Spec RQ.Flush RQ.Agree RQ.Parse RQ.Write RQ.Series

/-- `.pc` is a regular file, or `.pc/applied-patches` is a directory -/
def PcBad (fs : FS) : Prop := IsFile (fs.lookup pcDir) ∨ fs.lookup appliedKey = some .dir

theorem createDirAll_pcDir_eq (fs : FS) :
    fs.createDirAll pcDir = match fs.lookup pcDir with
      | some .dir => .ok fs
      | some (.file ..) => .error .other
      | none => .ok (fs.set pcDir .dir) := by
  rw [createDirAll_eq]
  have : List.range (pcDir.length + 1) = [0, 1] := by decide
  rw [this]
  simp only [List.foldl_cons, List.foldl_nil]
  have h0 : cdaStep pcDir (.ok fs) 0 = .ok fs := by
    unfold cdaStep; simp
  rw [h0]
  unfold cdaStep
  have h1 : pcDir.take 1 = pcDir := rfl
  simp only [h1]
  have h2 : (pcDir == []) = false := by decide
  simp only [h2, Bool.false_eq_true, if_false]
  cases fs.lookup pcDir with
  | none => rfl
  | some n => cases n <;> rfl

theorem spre_appliedKey {q : Key} (hs : SPre q appliedKey) (hq : q ≠ []) : q = pcDir := by
  obtain ⟨hl, ht⟩ := hs
  have hlen : q.length = 1 := by
    have h2 : appliedKey.length = 2 := rfl
    have : q.length ≠ 0 := fun e => hq (List.length_eq_zero_iff.mp e)
    omega
  rw [hlen] at ht
  rw [← ht]; rfl

theorem appendFile_applied_ok {fs : FS} (b : Bytes) (hd : fs.lookup pcDir = some .dir)
    (ha : fs.lookup appliedKey ≠ some .dir) : ∃ fs', fs.appendFile appliedKey b = .ok fs' := by
  have hfp : fs.fileOnPath appliedKey = false := by
    rw [fileOnPath_false_iff]
    intro q hs hq hf
    rw [spre_appliedKey hs hq, hd] at hf
    exact hf
  have hdir : fs.isDir appliedKey.dropLast = true := by
    have : appliedKey.dropLast = pcDir := rfl
    rw [this]; unfold FS.isDir; rw [hd]; rfl
  unfold FS.appendFile
  rw [hfp, hdir]
  simp only [Bool.false_eq_true, if_false, Bool.not_true]
  cases hl : fs.lookup appliedKey with
  | none => exact ⟨_, rfl⟩
  | some n =>
    cases n with
    | dir => exact absurd hl ha
    | file c m i => exact ⟨_, rfl⟩

theorem appendFile_applied_err {fs : FS} (b : Bytes) (ha : fs.lookup appliedKey = some .dir) :
    ∃ e, fs.appendFile appliedKey b = .error e := by
  unfold FS.appendFile
  split
  · exact ⟨_, rfl⟩
  · split
    · exact ⟨_, rfl⟩
    · rw [ha]; exact ⟨_, rfl⟩

/-- no backups are written in this run -/
def NoBackups (cfg : Cfg) (range : List Entry) (p : Progress) : Prop :=
  (cfg.backup == .always || (cfg.backup == .onfail && p.k != range.length)) = false

/-- without backups, the phase below `.pc` fails exactly when `.pc` is a file or `.pc/applied-patches` a directory -/
theorem finishPc_noBackups {cfg : Cfg} {range : List Entry} {p : Progress} {fs1 : FS} (hnb : NoBackups cfg range p) :
    ((finishPc cfg range p fs1).ioError = false ↔ ¬ PcBad fs1) := by
  unfold NoBackups at hnb
  unfold finishPc PcBad
  simp only [hnb, Bool.false_eq_true, if_false]
  rw [createDirAll_pcDir_eq]
  cases hl : fs1.lookup pcDir with
  | none =>
    simp only
    have hd : (fs1.set pcDir .dir).lookup pcDir = some .dir := FS.lookup_set_self fs1 pcDir _
    have ha : (fs1.set pcDir .dir).lookup appliedKey = fs1.lookup appliedKey :=
      FS.lookup_set_ne fs1 pcDir appliedKey _ (by decide)
    by_cases hdir : fs1.lookup appliedKey = some .dir
    · obtain ⟨e, he⟩ := appendFile_applied_err (fs := fs1.set pcDir .dir)
        (((range.take p.k).map (fun e => e.name ++ [10])).flatten) (ha.trans hdir)
      rw [he]
      simp [hdir]
    · obtain ⟨fs', he⟩ := appendFile_applied_ok (fs := fs1.set pcDir .dir)
        (((range.take p.k).map (fun e => e.name ++ [10])).flatten) hd (by rw [ha]; exact hdir)
      rw [he]
      simp [hdir, IsFile]
  | some n =>
    cases n with
    | file c m i => simp [IsFile]
    | dir =>
      simp only
      by_cases hdir : fs1.lookup appliedKey = some .dir
      · obtain ⟨e, he⟩ := appendFile_applied_err (fs := fs1)
          (((range.take p.k).map (fun e => e.name ++ [10])).flatten) hdir
        rw [he]
        simp [hdir]
      · obtain ⟨fs', he⟩ := appendFile_applied_ok (fs := fs1)
          (((range.take p.k).map (fun e => e.name ++ [10])).flatten) hl hdir
        rw [he]
        simp [hdir, IsFile]

theorem PcBad_congr {a b : FS} (h : ∀ q, isPcKey q → b.lookup q = a.lookup q) : PcBad b ↔ PcBad a := by
  unfold PcBad
  rw [h pcDir (by unfold isPcKey pcDir; rfl), h appliedKey isPcKey_appliedKey]

/-- a push that went through leaves `.pc` a directory and `.pc/applied-patches` a file -/
theorem finishPc_ok_notBad {cfg : Cfg} {range : List Entry} {p : Progress} {fs1 : FS}
    (hio : (finishPc cfg range p fs1).ioError = false) : ¬ PcBad (finishPc cfg range p fs1).fs := by
  obtain ⟨c, m, mode, hc1, _⟩ := finishPc_readApplied hio
  unfold finishPc at hio hc1 ⊢
  simp only at hio hc1 ⊢
  split
  · rename_i hx; rw [hx] at hio; cases hio
  · rename_i fs2 h2
    rw [h2] at hio hc1
    simp only at hio hc1
    split
    · rename_i hy; rw [hy] at hio; cases hio
    · rename_i fs3 h3
      rw [h3] at hio hc1
      simp only at hio hc1
      split
      · rename_i hz; rw [hz] at hio; cases hio
      · rename_i fs4 h4
        rw [h4] at hc1
        simp only at hc1
        have hd3 : fs3.lookup pcDir = some .dir := by
          rw [createDirAll_pcDir_eq] at h3
          cases hl : fs2.lookup pcDir with
          | none => rw [hl] at h3; cases h3; exact FS.lookup_set_self fs2 pcDir _
          | some n =>
            rw [hl] at h3
            cases n with
            | dir => cases h3; exact hl
            | file c m i => cases h3
        have hd4 : fs4.lookup pcDir = some .dir := by
          rw [appendFile_lookup_ne h4 (by decide)]; exact hd3
        rintro (hb | hb)
        · rw [hd4] at hb; exact hb
        · rw [fileAt_of_lookup_dir hb] at hc1; cases hc1

/-! ### reject files leave `.pc` alone -/

theorem putRest_near {fs0 fs' : FS} {k : Key} {content : Bytes} {perms : Option Nat}
    (h : putRest fs0 k content perms = .ok fs') : Near k fs0 fs' := by
  unfold putRest at h
  split at h
  · cases h
  · rename_i fs1 h1
    split at h
    · cases h
    · rename_i fs2 h2
      cases h
      refine (createDirAll_parent_dirChange h1).near.trans ((createFile_near h2).trans ?_)
      cases perms with
      | none => exact near_appendBytes fs2 k _
      | some m => exact (near_setMode fs2 k m).trans (near_appendBytes _ k _)

theorem putFile_near {fs fs' : FS} {k : Key} {content : Bytes} {perms : Option Nat}
    (h : putFile fs k content perms = .ok fs') : Near k fs fs' := by
  rw [putFile_eq] at h
  have h0 : Near k fs (match fs.removeFile k with | .ok x => x | .error _ => fs) := by
    cases hr : fs.removeFile k with
    | error e => exact Near.refl k fs
    | ok x => simp only; rw [FS.removeFile_ok hr]; exact near_erase fs k
  exact h0.trans (putRest_near h)

theorem putRejects_touch : ∀ (rejs : List (Bytes × Bytes)), RejsOut rejs → ∀ (fs fs' : FS),
    putRejects fs rejs = .ok fs' → Touch (fun k => ¬ isPcKey k) fs fs' := by
  intro rejs
  induction rejs with
  | nil => intro _ fs fs' h; unfold putRejects at h; cases h; exact Touch.refl _ _
  | cons r rest ih =>
    obtain ⟨name, content⟩ := r
    intro hr fs fs' h
    have hrest : RejsOut rest := fun r hm => hr r (List.mem_cons_of_mem _ hm)
    unfold putRejects at h
    split at h
    · cases h
    · rename_i k hk
      have hk' : ¬ isPcKey k := hr (name, content) (List.mem_cons_self ..) k hk
      split at h
      · exact ih hrest _ _ h
      · split at h
        · exact ih hrest _ _ h
        · split at h
          · cases h
          · rename_i f1 h1
            exact (Touch.of_near (putFile_near h1) hk').trans (ih hrest _ _ h)

theorem finishPc_io_exit (cfg : Cfg) (range : List Entry) (p : Progress) (fs1 : FS)
    (h : (finishPc cfg range p fs1).ioError = true) : (finishPc cfg range p fs1).exit = 1 := by
  unfold finishPc at h ⊢
  simp only at h ⊢
  split
  · rfl
  · rename_i fs2 h2
    rw [h2] at h
    simp only at h ⊢
    split
    · rfl
    · rename_i fs3 h3
      rw [h3] at h
      simp only at h ⊢
      split
      · rfl
      · rename_i fs4 h4
        rw [h4] at h
        cases h

theorem finishSpec_io_exit (cfg : Cfg) (fs : FS) (range : List Entry) (p : Progress)
    (h : (finishSpec cfg fs range p).ioError = true) : (finishSpec cfg fs range p).exit = 1 := by
  cases hd : cfg.dryRun with
  | true =>
    unfold finishSpec at h
    simp only [hd, if_true] at h
    cases h
  | false =>
    rw [finishSpec_eq _ _ _ _ hd] at h ⊢
    cases hr : putRejects p.fs p.rejs.reverse with
    | error e => rfl
    | ok fs1 =>
      rw [hr] at h
      exact finishPc_io_exit cfg range p fs1 h

theorem specRun_io_exit (cfg : Cfg) (fs : FS) (range : List Entry) (h : (specRun cfg fs range).ioError = true) :
    (specRun cfg fs range).exit = 1 := by
  unfold specRun at h ⊢
  split
  · rfl
  · rename_i p hp
    rw [hp] at h
    exact finishSpec_io_exit cfg fs range p h

/-- without backups, and with `.pc` in order, a run has an output failure exactly when a reject file cannot be
written -/
theorem run_io_noBackups {cfg : Cfg} {fs : FS} {range : List Entry} {p : Progress} (hdry : cfg.dryRun = false)
    (hclean : Clean cfg fs range) (hp : applyRangeTree cfg fs range (start fs) = .ok p)
    (hnb : NoBackups cfg range p) (hgood : ¬ PcBad fs) :
    (specRun cfg fs range).ioError = false ↔ ∃ fs1, putRejects p.fs p.rejs.reverse = .ok fs1 := by
  have hT := clean_touch hclean hp
  have hrej : RejsOut p.rejs := clean_rejsOut hclean (fun _ hm => by cases hm) hp
  have hgood1 : ¬ PcBad p.fs := by
    rw [PcBad_congr (fun q hq => hT.pc_same (fun _ => not_pc_of_not_own) hq)]
    exact hgood
  unfold specRun
  rw [hp]
  simp only
  rw [finishSpec_eq _ _ _ _ hdry]
  cases hr : putRejects p.fs p.rejs.reverse with
  | error e => simp
  | ok fs1 =>
    simp only
    rw [finishPc_noBackups hnb]
    have hT2 := putRejects_touch _ hrej.reverse _ _ hr
    rw [PcBad_congr (fun q hq => hT2.pc_same (fun _ h => h) hq)]
    simp [hgood1]

/-! ### the two ways of pushing, side by side -/

/-- the pieces `specRun_compose` is made of -/
theorem compose_setup (cfg : Cfg) (hdry : cfg.dryRun = false) (fs : FS) (r1 r2 : List Entry)
    (hclean : Clean cfg fs (r1 ++ r2)) (h1 : (specRun cfg fs r1).exit = 0) (hnr : ¬ Refused cfg fs (r1 ++ r2)) :
    ∃ p1 pA pB, applyRangeTree cfg fs r1 (start fs) = .ok p1 ∧ p1.k = r1.length ∧
      specRun cfg fs r1 = finishPc cfg r1 p1 p1.fs ∧ (finishPc cfg r1 p1 p1.fs).ioError = false ∧
      applyRangeTree cfg fs (r1 ++ r2) (start fs) = .ok pA ∧
      applyRangeTree cfg (specRun cfg fs r1).fs r2 (start (specRun cfg fs r1).fs) = .ok pB ∧
      ProgRel r1.length p1.backups pA pB ∧ Clean cfg (specRun cfg fs r1).fs r2 := by
  obtain ⟨p1, hp1, hk1, hrej1, hfail1, ho1, hio1⟩ := specRun_exit0 hdry h1
  have hpc1 : PcOnly p1.fs (specRun cfg fs r1).fs := by rw [ho1]; exact finishPc_pcOnly cfg r1 p1 p1.fs
  have hT1 : Touch (fun k => ¬ Own cfg k) fs p1.fs := clean_touch hclean.left hp1
  have hio1' : (finishPc cfg r1 p1 p1.fs).ioError = false := by rw [← ho1]; exact hio1
  refine ⟨p1, ?_⟩
  generalize (specRun cfg fs r1).fs = fs' at hpc1 ⊢
  have hpatch : ∀ e ∈ r1 ++ r2, patchOf fs' cfg e = patchOf fs cfg e := by
    intro e he
    obtain ⟨patch, hp, _⟩ := (hclean e he).patch
    rw [hp]
    exact patchOf_pcOnly hpc1 (hclean e he).keyOut (patchOf_touch hT1 hp)
  have hclean2 : Clean cfg fs' r2 := hclean.right.transfer (fun e he => hpatch e (List.mem_append_right _ he))
  have hsplit : applyRangeTree cfg fs (r1 ++ r2) (start fs) = applyRangeTree cfg fs r2 p1 := by
    rw [applyRangeTree_append, hp1]
    simp [hk1, start]
  have hcong := applyRangeTree_congr cfg fs fs' r1.length p1.backups r2
    (fun e he => (hpatch e (List.mem_append_right _ he)).symm) hclean.right.namesOut p1 (start fs')
    ⟨hpc1.outside, by simp [start, hk1], hrej1, hfail1, by simp [start]⟩
  unfold Refused at hnr
  cases hA : applyRangeTree cfg fs r2 p1 with
  | error e => exact absurd (by rw [hsplit, hA]) hnr
  | ok pA =>
    obtain ⟨pB, hB, hrel⟩ := hcong.ok_left hA
    exact ⟨pA, pB, hp1, hk1, ho1, hio1', by rw [hsplit, hA], hB, hrel, hclean2⟩

/-- **exit status without backups.**  In the situation of `specRun_compose` (first push exit 0, nothing refused):
if none of the three pushes writes backups — `backup = never`, or `backup = onfail` and one of the two ways applies
all patches — then the second push and the single push have the same exit status and the same output-failure flag. -/
theorem specRun_compose_exit (cfg : Cfg) (hdry : cfg.dryRun = false) (fs : FS) (r1 r2 : List Entry)
    (hclean : Clean cfg fs (r1 ++ r2)) (h1 : (specRun cfg fs r1).exit = 0) (hnr : ¬ Refused cfg fs (r1 ++ r2))
    (hnb : cfg.backup = .never ∨ (cfg.backup = .onfail ∧
      ((specRun cfg (specRun cfg fs r1).fs r2).exit = 0 ∨ (specRun cfg fs (r1 ++ r2)).exit = 0))) :
    (specRun cfg (specRun cfg fs r1).fs r2).ioError = (specRun cfg fs (r1 ++ r2)).ioError ∧
    (specRun cfg (specRun cfg fs r1).fs r2).exit = (specRun cfg fs (r1 ++ r2)).exit := by
  obtain ⟨p1, pA, pB, hp1, hk1, ho1, hio1, hA, hB, ⟨hfs, hk, hrejs, hfailed, hbk⟩, hclean2⟩ :=
    compose_setup cfg hdry fs r1 r2 hclean h1 hnr
  have hkA : pA.k = pB.k + r1.length := hk
  -- no backups anywhere
  have hnb1 : NoBackups cfg r1 p1 := by
    unfold NoBackups
    rcases hnb with h | ⟨h, _⟩ <;> simp [h, hk1]
  have hall : cfg.backup = .onfail → pB.k = r2.length := by
    intro hon
    rcases hnb with h | ⟨_, h | h⟩
    · rw [h] at hon; cases hon
    · obtain ⟨p, hp, hkp, _⟩ := specRun_exit0 hdry h
      rw [hB] at hp; cases hp; exact hkp
    · obtain ⟨p, hp, hkp, _⟩ := specRun_exit0 hdry h
      rw [hA] at hp; cases hp
      simp only [List.length_append] at hkp
      omega
  have hnbB : NoBackups cfg r2 pB := by
    unfold NoBackups
    cases hb : cfg.backup with
    | never => rfl
    | always => rcases hnb with h | ⟨h, _⟩ <;> rw [hb] at h <;> cases h
    | onfail => simp [hall hb]
  have hnbA : NoBackups cfg (r1 ++ r2) pA := by
    unfold NoBackups
    cases hb : cfg.backup with
    | never => rfl
    | always => rcases hnb with h | ⟨h, _⟩ <;> rw [hb] at h <;> cases h
    | onfail => simp [hkA, hall hb, Nat.add_comm]
  -- `.pc` is in order before and after the first push
  have hT1 : Touch (fun k => ¬ Own cfg k) fs p1.fs := clean_touch hclean.left hp1
  have hgood1 : ¬ PcBad p1.fs := (finishPc_noBackups hnb1).mp hio1
  have hgood0 : ¬ PcBad fs := by
    rw [← PcBad_congr (fun q hq => hT1.pc_same (fun _ => not_pc_of_not_own) hq)]
    exact hgood1
  have hgood' : ¬ PcBad (specRun cfg fs r1).fs := by rw [ho1]; exact finishPc_ok_notBad hio1
  have hioA := run_io_noBackups hdry hclean hA hnbA hgood0
  have hioB := run_io_noBackups hdry hclean2 hB hnbB hgood'
  -- the reject files go through together
  have hrejA : RejsOut pA.rejs := clean_rejsOut hclean (p := start fs) (fun _ hm => by cases hm) hA
  have hrc := putRejects_congr pA.rejs.reverse hrejA.reverse hfs
  rw [hrejs] at hrc hioA
  have hio : (specRun cfg (specRun cfg fs r1).fs r2).ioError = (specRun cfg fs (r1 ++ r2)).ioError := by
    cases hx : putRejects pA.fs pB.rejs.reverse with
    | error e =>
      have hy := hrc.err_left hx
      have ha : (specRun cfg fs (r1 ++ r2)).ioError = true := by
        cases h : (specRun cfg fs (r1 ++ r2)).ioError with
        | true => rfl
        | false => obtain ⟨f, hf⟩ := hioA.mp h; rw [hx] at hf; cases hf
      have hb : (specRun cfg (specRun cfg fs r1).fs r2).ioError = true := by
        cases h : (specRun cfg (specRun cfg fs r1).fs r2).ioError with
        | true => rfl
        | false => obtain ⟨f, hf⟩ := hioB.mp h; rw [hy] at hf; cases hf
      rw [ha, hb]
    | ok fa =>
      obtain ⟨fb, hy, _⟩ := hrc.ok_left hx
      rw [hioA.mpr ⟨fa, hx⟩, hioB.mpr ⟨fb, hy⟩]
  refine ⟨hio, ?_⟩
  cases hb : (specRun cfg (specRun cfg fs r1).fs r2).ioError with
  | true =>
    rw [specRun_io_exit _ _ _ hb, specRun_io_exit _ _ _ (hio ▸ hb)]
  | false =>
    exact ((specRun_compose cfg hdry fs r1 r2 hclean h1).2 hnr).2 hb (hio ▸ hb) |>.1

end RQ.Compose
