import RQ.Lemmas.TightFS
import RQ.Lemmas.Compose3
/-!
# The driver keeps the tree tight (S3 of the bridge)

`applyPatches_tight`: after a run of the sequential driver model that applied its whole range, the disk is tight if
the starting tree was.

The save phase is `saveAll` (the cache entries in arbitrary order) followed by `cleanAll dirs`.  Intermediate trees are
not `Full`; the invariant is `TInv fs dirs` of `RQ/Lemmas/TightFS.lean`: tight, except that the directories collected
in `dirs` so far may be empty.  It is *local*: every single `saveModifiedFile` re-establishes it (`saveModifiedFile_tinv`),
whatever the other cache entries are, so nothing has to be known about the cache (no `KeysDistinct`, no `MemOK`, no
hypothesis on the names).  `cleanUp d` consumes the head of the list (`cleanUp_tinv`): the only directory that can
become empty by removing `d` is its parent, which is where the loop goes next.  After `cleanAll` the list is empty:
`TInv fs [] ↔ Tight fs`.

The reject files are not written when the whole range applied (`applyLoop_final`), and the backups change nothing
outside `.pc` (`rollbackAndSaveBackups_pcOnly`, exact agreement of `lookup`).
-/
namespace RQ.Tight
open RQ RQ.Push RQ.Spec RQ.Flush RQ.Agree RQ.Compose RQ.Parse RQ.Write

/-! ## single operations of the world -/

theorem op_notFound_fs {w w' : World} {o : Op} (e : w.op o = .notFound w') : w'.fs = w.fs :=
  (op_notFound_run e).2.1

theorem writeNew_tinv {w w' : World} {k : Key} {perms : Option Nat} {content : Bytes} {S : List Key}
    (hi : TInv w.fs S) (h : writeNew w k perms content = .ok w') : TInv w'.fs S := by
  unfold writeNew at h
  cases perms with
  | none =>
    simp only at h
    split at h
    · rename_i w2 hop
      cases h
      rw [(op_write_ok hop).1]
      exact tinv_appendBytes hi _ _
    · cases h
    · cases h
  | some p =>
    simp only at h
    split at h
    · cases h
    · rename_i w1 heq
      split at heq
      · rename_i w1' hop1
        cases heq
        split at h
        · rename_i w2 hop
          cases h
          rw [(op_write_ok hop).1, (op_setMode_ok hop1).1]
          exact tinv_appendBytes (tinv_setMode hi _ _) _ _
        · cases h
        · cases h
      · cases heq
      · cases heq

/-- the unlink at the start of `saveModifiedFile` (answering `ok` or `NotFound`) -/
theorem unlink_tinv {w w1 : World} {k : Key} {S : List Key} (hi : TInv w.fs S)
    (h : (match w.op (.removeFile k) with
      | .ok w => .ok w
      | .notFound w => .ok w
      | .failed w => .error (.err, w) : WR World) = .ok w1) : TInv w1.fs (k.dropLast :: S) := by
  split at h
  · rename_i w2 hop
    cases h
    exact tinv_removeFile hi (op_ok_run hop).1
  · rename_i w2 hop
    cases h
    rw [op_notFound_fs hop]
    exact hi.cons _
  · cases h

/-- create + write, when the parent directory may be on the list of possibly empty directories -/
theorem createWrite_tinv {w w' : World} {k : Key} {perms : Option Nat} {content : Bytes} {S : List Key}
    {x : Option Key} (hi : TInv w.fs (k.dropLast :: S))
    (h : (match w.op (.createFile k) with
      | .ok w =>
        match writeNew w k perms content with
        | .ok w => .ok (w, none)
        | .error e => .error e
      | .notFound w | .failed w => .error (.err, w) : WR (World × Option Key)) = .ok (w', x)) :
    TInv w'.fs S ∧ x = none := by
  split at h
  · rename_i w1 hop
    split at h
    · rename_i w2 hw
      cases h
      exact ⟨writeNew_tinv (tinv_createFile hi (op_ok_run hop).1) hw, rfl⟩
    · cases h
  · cases h
  · cases h

/-! ## `saveModifiedFile`, `saveAll` -/

theorem saveModifiedFile_tinv {w w' : World} {name : Bytes} {f : FileSt Bytes} {d : Option Key} {S : List Key}
    (hi : TInv w.fs S) (h : saveModifiedFile w name f = .ok (w', d)) :
    TInv w'.fs (match d with | some k => S ++ [k] | none => S) := by
  unfold saveModifiedFile at h
  split at h
  · cases h
  · rename_i k hk
    cases hex : f.existed with
    | true =>
      simp only [hex, if_true, Bool.not_true, Bool.false_eq_true, if_false] at h
      split at h
      · cases h
      · rename_i w1 heq
        have h1 := unlink_tinv hi heq
        cases hdel : f.deleted with
        | true =>
          simp only [hdel, if_true] at h
          cases h
          exact h1.mono (fun e he => by
            rcases List.mem_cons.mp he with rfl | he
            · exact List.mem_append_right _ (List.mem_singleton_self _)
            · exact List.mem_append_left _ he)
        | false =>
          simp only [hdel, Bool.false_eq_true, if_false] at h
          obtain ⟨h2, rfl⟩ := createWrite_tinv h1 h
          exact h2
    | false =>
      simp only [hex, Bool.false_eq_true, if_false, Bool.not_false, if_true] at h
      cases hdel : f.deleted with
      | true =>
        simp only [hdel, if_true] at h
        cases h
        exact hi
      | false =>
        simp only [hdel, Bool.false_eq_true, if_false] at h
        split at h
        · cases h
        · rename_i w2 heq
          have h2 : TInv w2.fs (k.dropLast :: S) := by
            split at heq
            · rename_i w3 hop
              cases heq
              exact tinv_createDirAll hi (op_ok_run hop).1
            · cases heq
            · cases heq
          obtain ⟨h3, rfl⟩ := createWrite_tinv h2 h
          exact h3

theorem saveAll_tinv : ∀ (mem : Mem) (w w' : World) (dirs dirs' : List Key), TInv w.fs dirs →
    saveAll w mem dirs = .ok (w', dirs') → TInv w'.fs dirs' := by
  intro mem
  induction mem with
  | nil =>
    intro w w' dirs dirs' hi h
    unfold saveAll at h
    cases h
    exact hi
  | cons x rest ih =>
    intro w w' dirs dirs' hi h
    obtain ⟨c, name, f⟩ := x
    unfold saveAll at h
    split at h
    · cases h
    · rename_i w1 d heq
      have h1 := saveModifiedFile_tinv hi heq
      cases d with
      | none => exact ih _ _ _ _ h1 h
      | some k => exact ih _ _ _ _ h1 h

/-! ## `cleanUp`, `cleanAll` -/

theorem not_emptyDir_nil (fs : FS) : ¬ EmptyDir fs [] := fun h => h.1 rfl

/-- `cleanUp d` consumes the head of the list of possibly empty directories -/
theorem cleanUp_tinv : ∀ (fuel : Nat) (w w' : World) (d : Key) (S : List Key), TInv w.fs (d :: S) →
    d.length < fuel → cleanUp w fuel d = .ok w' → TInv w'.fs S := by
  intro fuel
  induction fuel with
  | zero => intro w w' d S _ hf _; exact absurd hf (Nat.not_lt_zero _)
  | succ n ih =>
    intro w w' d S hi hf h
    -- the continuation after the `removeDir`
    have hcont : ∀ w1 : World, TInv w1.fs (d.dropLast :: S) →
        (if d.isEmpty then .ok w1 else cleanUp w1 n d.dropLast) = .ok w' → TInv w'.fs S := by
      intro w1 h1 h
      by_cases hd : d = []
      · subst hd
        simp only [List.isEmpty_nil, if_true] at h
        cases h
        exact h1.drop (not_emptyDir_nil _)
      · have : d.isEmpty = false := by simpa using hd
        simp only [this, Bool.false_eq_true, if_false] at h
        refine ih w1 w' d.dropLast S h1 ?_ h
        have := length_pos_of_ne_nil hd
        rw [List.length_dropLast]; omega
    unfold cleanUp at h
    split at h
    · rename_i he
      cases h
      exact hi.drop (fun hE => by
        have := dirEmpty_notFound he
        rw [hE.2.2.1] at this; cases this)
    · cases h
    · rename_i he
      cases h
      exact hi.drop (fun hE => by
        obtain ⟨q, hs, hq⟩ := dirEmpty_false he
        rw [hE.2.2.2 q hs] at hq; cases hq)
    · split at h
      · cases h
      · rename_i w1 hop
        exact hcont w1 (tinv_removeDir hi (op_ok_run hop).1) h
      · rename_i w1 hop
        have hnf := removeDir_notFound (op_notFound_run hop).1
        refine hcont w1 ?_ h
        rw [op_notFound_fs hop]
        exact (hi.drop (fun hE => by rw [hE.2.2.1] at hnf; cases hnf)).cons _

theorem cleanAll_tinv : ∀ (dirs : List Key) (w w' : World), TInv w.fs dirs → cleanAll w dirs = .ok w' →
    TInv w'.fs [] := by
  intro dirs
  induction dirs with
  | nil =>
    intro w w' hi h
    unfold cleanAll at h
    cases h
    exact hi
  | cons d ds ih =>
    intro w w' hi h
    unfold cleanAll at h
    split at h
    · cases h
    · rename_i w1 heq
      exact ih w1 w' (cleanUp_tinv _ w w1 d ds hi (Nat.lt_succ_self _) heq) h

/-- **the save phase keeps the tree tight**, whatever the cache holds -/
theorem saveAll_cleanAll_tight {w w1 w2 : World} {mem : Mem} {dirs : List Key} (ht : Tight w.fs)
    (hs : saveAll w mem [] = .ok (w1, dirs)) (hc : cleanAll w1 dirs = .ok w2) : Tight w2.fs :=
  tight_of_tinv (cleanAll_tinv dirs w1 w2 (saveAll_tinv mem w w1 [] dirs (tinv_of_tight ht) hs) hc)

/-! ## the backups change nothing outside `.pc` (exact agreement of `lookup`) -/

theorem writeNew_pcOnly {w w' : World} {k : Key} {perms : Option Nat} {content : Bytes} (hk : isPcKey k)
    (h : writeNew w k perms content = .ok w') : PcOnly w.fs w'.fs := by
  unfold writeNew at h
  cases perms with
  | none =>
    simp only at h
    split at h
    · rename_i w2 hop
      cases h
      rw [(op_write_ok hop).1]
      exact pcOnly_appendBytes _ hk _
    · cases h
    · cases h
  | some p =>
    simp only at h
    split at h
    · cases h
    · rename_i w1 heq
      split at heq
      · rename_i w1' hop1
        cases heq
        split at h
        · rename_i w2 hop
          cases h
          rw [(op_write_ok hop).1, (op_setMode_ok hop1).1]
          exact (pcOnly_setMode _ hk _).trans (pcOnly_appendBytes _ hk _)
        · cases h
        · cases h
      · cases heq
      · cases heq

theorem saveBackup_pcOnly {w w' : World} {patchName name : Bytes} {f : FileSt Bytes}
    (h : saveBackup w patchName name f = .ok w') : PcOnly w.fs w'.fs := by
  unfold saveBackup at h
  split at h
  · cases h
  · rename_i k hk
    have hpk := pcKey_isPcKey hk
    split at h
    · rename_i w1 hop1
      have a1 : PcOnly w.fs w1.fs := pcOnly_createDirAll_dropLast hpk (op_ok_run hop1).1
      have hcont : ∀ w2 : World, PcOnly w.fs w2.fs →
          (match w2.op (.createFile k) with
            | .ok w => writeNew w k f.perms (bytesOf f.content)
            | .notFound w | .failed w => .error (.err, w)) = .ok w' → PcOnly w.fs w'.fs := by
        intro w2 a2 h
        split at h
        · rename_i w3 hop3
          exact (a2.trans (pcOnly_createFile hpk (op_ok_run hop3).1)).trans (writeNew_pcOnly hpk h)
        · cases h
        · cases h
      split at h
      · cases h
      · rename_i w2 hop2
        exact hcont w2 (a1.trans (pcOnly_removeFile hpk (op_ok_run hop2).1)) h
      · rename_i w2 hop2
        exact hcont w2 (by rw [op_notFound_fs hop2]; exact a1) h
    · cases h
    · cases h

theorem rollbackAndSaveBackups_pcOnly (ss : List Status) : ∀ (w w' : World) (mem mem' : Mem) (downTo : Nat),
    rollbackAndSaveBackups w mem ss downTo = .ok (w', mem') → PcOnly w.fs w'.fs := by
  induction ss with
  | nil =>
    intro w w' mem mem' d h
    unfold rollbackAndSaveBackups at h
    cases h
    exact PcOnly.refl _
  | cons s rest ih =>
    intro w w' mem mem' d h
    unfold rollbackAndSaveBackups at h
    split at h
    · cases h
      exact PcOnly.refl _
    · split at h
      · cases h
      · rename_i mem1 file _
        split at h
        · cases h
        · rename_i w1 heq
          have b := saveBackup_pcOnly heq
          split at h
          · split at h
            · cases h
            · rename_i newName _
              split at h
              · cases h
              · rename_i nf _
                split at h
                · cases h
                · rename_i w2 heq2
                  exact (b.trans (saveBackup_pcOnly heq2)).trans (ih w2 w' _ mem' d h)
          · exact b.trans (ih w1 w' _ mem' d h)

/-! ## no reject files when the whole range applied -/

theorem applyLoop_final (fs : FS) (cfg : Cfg) : ∀ (range : List Series.Entry) (index : Nat) (st st' : St) (final : Nat)
    (rejs : List (Bytes × Bytes)), applyLoop fs cfg range index st = .ok (st', final, rejs) →
    (final = index + range.length ∧ rejs = []) ∨ final < index + range.length := by
  intro range
  induction range with
  | nil =>
    intro index st st' final rejs h
    unfold applyLoop at h
    cases h
    exact .inl ⟨rfl, rfl⟩
  | cons entry rest ih =>
    intro index st st' final rejs h
    unfold applyLoop at h
    split at h
    · cases h
    · split at h
      · cases h
      · split at h
        · cases h
        · split at h
          · cases h
          · split at h
            · split at h
              · cases h
                exact .inr (by simp only [List.length_cons]; omega)
              · split at h
                · cases h
                · cases h
                  exact .inr (by simp only [List.length_cons]; omega)
            · rcases ih _ _ _ _ _ h with ⟨h1, h2⟩ | h1
              · exact .inl ⟨by simp only [List.length_cons]; omega, h2⟩
              · exact .inr (by simp only [List.length_cons]; omega)

theorem applyLoop_all_no_rejs {fs : FS} {cfg : Cfg} {range : List Series.Entry} {st : St} {rejs : List (Bytes × Bytes)}
    (h : applyLoop fs cfg range 0 {} = .ok (st, range.length, rejs)) : rejs = [] := by
  rcases applyLoop_final fs cfg range 0 {} st range.length rejs h with ⟨_, h2⟩ | h1
  · exact h2
  · omega

/-! ## the whole of `applyPatches` -/

/-- **(S3)** a (non-dry) run of the sequential driver that applied its whole range leaves a tight tree if it started
from one.  Nothing else is needed: no fault-freedom (a failing operation makes the run fail), no hypothesis on the
names in the patches. -/
theorem applyPatches_tight' (w w1 : World) (cfg : Cfg) (range : List Series.Entry)
    (hdry : cfg.dryRun = false) (ht : Tight w.fs) (h : applyPatches w cfg range = .ok (w1, range.length)) :
    Tight w1.fs := by
  unfold applyPatches at h
  split at h
  · cases h
  · rename_i st final rejs hloop
    simp only [hdry, Bool.false_eq_true, if_false] at h
    split at h
    · cases h
    · rename_i w2 dirs hsave
      split at h
      · cases h
      · rename_i w3 hclean
        have t3 : Tight w3.fs := saveAll_cleanAll_tight ht hsave hclean
        split at h
        · cases h
        · rename_i w4 hrej
          -- which branch we are in tells `final = range.length` only at the end: get it from either result
          have key : final = range.length → Tight w4.fs := by
            intro hfin
            subst hfin
            have := applyLoop_all_no_rejs hloop
            subst this
            unfold saveRejFiles at hrej
            cases hrej
            exact t3
          split at h
          · split at h
            · cases h
            · rename_i w5 mem5 hbk
              cases h
              exact tight_of_pcOnly (rollbackAndSaveBackups_pcOnly _ _ _ _ _ _ hbk) (key rfl)
          · cases h
            exact key rfl

/-- (S3) in the form asked for; `hf` and `hclean` are not used -/
theorem applyPatches_tight (w w1 : World) (cfg : Cfg) (range : List Series.Entry)
    (_hf : w.faultAt = none) (hdry : cfg.dryRun = false) (_hclean : Compose.Clean cfg w.fs range)
    (ht : Tight w.fs) (h : applyPatches w cfg range = .ok (w1, range.length)) : Tight w1.fs :=
  applyPatches_tight' w w1 cfg range hdry ht h

end RQ.Tight

#print axioms RQ.Tight.saveAll_tinv
#print axioms RQ.Tight.cleanAll_tinv
#print axioms RQ.Tight.saveAll_cleanAll_tight
#print axioms RQ.Tight.rollbackAndSaveBackups_pcOnly
#print axioms RQ.Tight.applyLoop_all_no_rejs
#print axioms RQ.Tight.applyPatches_tight'
#print axioms RQ.Tight.applyPatches_tight
