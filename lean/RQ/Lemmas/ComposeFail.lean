import RQ.Lemmas.Compose5
/-!
# C09, last sentence: a push after a failed push stops at the same patch with the same result

A push that stops at patch number `k` leaves: the first `k` patches applied, the reject files of the failing patch,
backups, and `.pc/applied-patches` with `k` more names.  The next push starts with the failing patch, on a tree that
differs from the one the patch failed on (outside `.pc`) *only by the reject files*.

* Part A — `Sim R a b`: the trees `a` and `b` hold the same node (inode numbers ignored) at every path outside `.pc`
  that is not at or below a path in `R`; at paths strictly above a path of `R` they may also differ by a directory
  being there or not.  (The second clause is needed even if the reject files create no directory: a patch that
  deletes `d/f` prunes `d` in the tree without `d/g.rej` and keeps it in the tree with `d/g.rej`.)  Every primitive
  `applyFPTree` uses is a congruence for `Sim R` when the path it works on is `Free R`: neither at, below nor above a
  path of `R` (`applyPatchTree_sim`).
* Part B — the reject files: writing them relates the trees by `Sim` (`putRejects_touchT`, `Touch.sim`); writing the same reject
  files again over the tree that already has them changes nothing up to inode numbers (`putRejects_again`), provided
  writing them creates no directory (`DirsOK`: the tree is well-formed at the reject files — in the model a directory
  can exist without its parent).
* Part C — the range: where a failing range stops (`applyRangeTree_stop`), the main lemma `failed_push_repeats`, its
  hypothesis in decidable form (`FailApart`), and: a reject file is never called `series` (`not_rejKey_series`).
* Part D — the goal level: what `plan` reads and chooses after the failed push (`after_failed_push`,
  `plan_after_failed`, `planOf_after_failed`, `planOf_after_failed_any`, `planOf_count_after`), and
  `plan_nothingToDo_iff`.
-/
namespace RQ.Compose
open RQ RQ.Push RQ.Spec RQ.Flush RQ.Agree RQ.Parse RQ.Write RQ.Series
open RQ.ParSave (noIno noIno_cases)

/-! ## Part A: agreement away from a set of paths -/

theorem spre_of_prefix {q t : Key} (h : q <+: t) (hne : q ≠ t) : SPre q t := by
  obtain ⟨s, rfl⟩ := h
  have hs : s ≠ [] := by
    intro e; subst e; simp at hne
  have hl : 0 < s.length := List.length_pos_iff.mpr hs
  refine ⟨by simp only [List.length_append]; omega, by simp⟩

/-- `q` is not at or below a path of `R` -/
def NotBelow (R : Key → Prop) (q : Key) : Prop := ∀ t, R t → ¬ t <+: q

/-- `k` is neither at, below nor above a path of `R` -/
def Free (R : Key → Prop) (k : Key) : Prop := ∀ t, R t → ¬ t <+: k ∧ ¬ k <+: t

/-- `q` is strictly above a path of `R` -/
def AboveR (R : Key → Prop) (q : Key) : Prop := ∃ t, R t ∧ SPre q t

section paths
variable {R : Key → Prop} {k q : Key}

theorem Free.notBelow (h : Free R k) : NotBelow R k := fun t ht => (h t ht).1

theorem Free.notAbove (h : Free R k) : ¬ AboveR R k := fun ⟨t, ht, hs⟩ => (h t ht).2 (prefix_of_spre hs)

theorem free_of (h1 : NotBelow R k) (h2 : ¬ AboveR R k) : Free R k := by
  intro t ht
  refine ⟨h1 t ht, fun hp => ?_⟩
  by_cases e : k = t
  · subst e; exact h1 k ht (List.prefix_refl _)
  · exact h2 ⟨t, ht, spre_of_prefix hp e⟩

theorem NotBelow.of_prefix (h : NotBelow R k) (hq : q <+: k) : NotBelow R q :=
  fun t ht hp => h t ht (hp.trans hq)

theorem NotBelow.take (h : NotBelow R k) (i : Nat) : NotBelow R (k.take i) := h.of_prefix (List.take_prefix _ _)

theorem NotBelow.dropLast (h : NotBelow R k) : NotBelow R k.dropLast := by
  rw [List.dropLast_eq_take]; exact h.take _

theorem AboveR.of_spre (h : AboveR R k) (hq : SPre q k) : AboveR R q := by
  obtain ⟨t, ht, hs⟩ := h
  exact ⟨t, ht, spre_trans hq hs⟩

end paths

/-- the two nodes at `q` are the same up to the inode number, or `q` is strictly above a path of `R` and each of
them is a directory or nothing -/
def SimAt (R : Key → Prop) (x y : Option Node) (q : Key) : Prop :=
  x.map noIno = y.map noIno ∨ (AboveR R q ∧ DirOrNone x ∧ DirOrNone y)

/-- same tree outside `.pc` and away from `R` (see the header) -/
def Sim (R : Key → Prop) (a b : FS) : Prop :=
  ∀ q, ¬ isPcKey q → NotBelow R q → SimAt R (a.lookup q) (b.lookup q) q

theorem dirOrNone_noIno {x y : Option Node} (h : x.map noIno = y.map noIno) (d : DirOrNone x) : DirOrNone y := by
  rcases noIno_cases h with ⟨_, e2⟩ | ⟨_, e2⟩ | ⟨c, m, i, i', e1, _⟩
  · exact .inl e2
  · exact .inr e2
  · rw [e1] at d; rcases d with d | d <;> cases d

theorem simAt_isFile {R : Key → Prop} {x y : Option Node} {q : Key} (h : SimAt R x y q) : IsFile x ↔ IsFile y := by
  rcases h with e | ⟨_, dx, dy⟩
  · rcases noIno_cases e with ⟨e1, e2⟩ | ⟨e1, e2⟩ | ⟨c, m, i, i', e1, e2⟩ <;> rw [e1, e2] <;> exact Iff.rfl
  · exact ⟨fun h => absurd h (not_isFile_of_dirOrNone dx), fun h => absurd h (not_isFile_of_dirOrNone dy)⟩

theorem OutsidePc.sim {a b : FS} (h : OutsidePc a b) (R : Key → Prop) : Sim R a b := fun q hq _ => .inl (h q hq)

section sim
variable {R : Key → Prop} {a b : FS} (h : Sim R a b)
include h

theorem Sim.at {k : Key} (hk : ¬ isPcKey k) (hf : Free R k) : (a.lookup k).map noIno = (b.lookup k).map noIno := by
  rcases h k hk hf.notBelow with e | ⟨ha, _, _⟩
  · exact e
  · exact absurd ha hf.notAbove

theorem Sim.isFile_iff {q : Key} (hq : ¬ isPcKey q) (hn : NotBelow R q) : IsFile (a.lookup q) ↔ IsFile (b.lookup q) :=
  simAt_isFile (h q hq hn)

theorem Sim.fileOnPath_eq {k : Key} (hk : ¬ isPcKey k) (hn : NotBelow R k) : a.fileOnPath k = b.fileOnPath k :=
  fileOnPath_congr (fun _ hs => h.isFile_iff (not_pc_of_spre hk hs) (hn.of_prefix (prefix_of_spre hs)))

theorem Sim.isSome_eq {k : Key} (hk : ¬ isPcKey k) (hf : Free R k) : (a.lookup k).isSome = (b.lookup k).isSome := by
  rcases noIno_cases (h.at hk hf) with ⟨e1, e2⟩ | ⟨e1, e2⟩ | ⟨c, m, i, i', e1, e2⟩ <;> rw [e1, e2] <;> rfl

theorem Sim.isDir_eq {k : Key} (hk : ¬ isPcKey k) (hf : Free R k) : a.isDir k = b.isDir k := by
  unfold FS.isDir
  rcases noIno_cases (h.at hk hf) with ⟨e1, e2⟩ | ⟨e1, e2⟩ | ⟨c, m, i, i', e1, e2⟩ <;> rw [e1, e2] <;> rfl

theorem Sim.exists_eq {k : Key} (hk : ¬ isPcKey k) (hf : Free R k) : a.exists_ k = b.exists_ k := by
  unfold FS.exists_
  rw [h.fileOnPath_eq hk hf.notBelow, h.isSome_eq hk hf]

theorem Sim.readFile_eq {k : Key} (hk : ¬ isPcKey k) (hf : Free R k) : a.readFile k = b.readFile k := by
  unfold FS.readFile
  rw [h.fileOnPath_eq hk hf.notBelow]
  rcases noIno_cases (h.at hk hf) with ⟨e1, e2⟩ | ⟨e1, e2⟩ | ⟨c, m, i, i', e1, e2⟩ <;> rw [e1, e2]

/-- a change at one path on both sides -/
theorem Sim.update {a' b' : FS} (k : Key) (ha : ∀ q, q ≠ k → a'.lookup q = a.lookup q)
    (hb : ∀ q, q ≠ k → b'.lookup q = b.lookup q)
    (hk : ¬ isPcKey k → NotBelow R k → SimAt R (a'.lookup k) (b'.lookup k) k) : Sim R a' b' := by
  intro q hq hn
  by_cases e : q = k
  · subst e; exact hk hq hn
  · rw [ha q e, hb q e]; exact h q hq hn

theorem Sim.set (k : Key) {n n' : Node} (hn : noIno n = noIno n') : Sim R (a.set k n) (b.set k n') :=
  h.update k (fun q e => FS.lookup_set_ne a k q n e) (fun q e => FS.lookup_set_ne b k q n' e)
    (fun _ _ => .inl (by rw [FS.lookup_set_self, FS.lookup_set_self]; simp [hn]))

theorem Sim.erase (k : Key) : Sim R (a.erase k) (b.erase k) :=
  h.update k (fun q e => FS.lookup_erase_ne a k q e) (fun q e => FS.lookup_erase_ne b k q e)
    (fun _ _ => .inl (by rw [FS.lookup_erase_self, FS.lookup_erase_self]))

theorem Sim.withIno (n m : Nat) : Sim R { a with nextIno := n } { b with nextIno := m } := fun q hq hn => h q hq hn

/-- directories appearing / disappearing above one path of `R`, on either side -/
theorem Sim.dirChange {t : Key} (ht : R t) {a' b' : FS} (ha : DirChange t a a') (hb : DirChange t b b') :
    Sim R a' b' := by
  intro q hq hn
  have hab := h q hq hn
  have dOf : ∀ {x y : Option Node}, SimAt R x y q → DirOrNone x → DirOrNone y := by
    intro x y s d
    rcases s with e | ⟨_, _, dy⟩
    · exact dirOrNone_noIno e d
    · exact dy
  have dOf' : ∀ {x y : Option Node}, SimAt R x y q → DirOrNone y → DirOrNone x := by
    intro x y s d
    rcases s with e | ⟨_, dx, _⟩
    · exact dirOrNone_noIno e.symm d
    · exact dx
  rcases ha q with e1 | ⟨s1, d1, d1'⟩ <;> rcases hb q with e2 | ⟨s2, d2, d2'⟩
  · rw [e1, e2]; exact hab
  · exact .inr ⟨⟨t, ht, s2⟩, by rw [e1]; exact dOf' hab d2, d2'⟩
  · exact .inr ⟨⟨t, ht, s1⟩, d1', by rw [e2]; exact dOf hab d1⟩
  · exact .inr ⟨⟨t, ht, s1⟩, d1', d2'⟩

end sim

/-! ### the primitives -/

section prims
variable {R : Key → Prop} {a b : FS}

theorem removeFile_sim (h : Sim R a b) {k : Key} (hk : ¬ isPcKey k) (hf : Free R k) :
    ExRel (Sim R) (a.removeFile k) (b.removeFile k) := by
  unfold FS.removeFile
  rw [h.fileOnPath_eq hk hf.notBelow]
  split
  · rfl
  · rcases noIno_cases (h.at hk hf) with ⟨e1, e2⟩ | ⟨e1, e2⟩ | ⟨c, m, i, i', e1, e2⟩ <;> rw [e1, e2] <;> simp only
    · split <;> rfl
    · rfl
    · exact h.erase k

theorem cdaStep_sim (h : Sim R a b) {d : Key} (hd : ¬ isPcKey d) (hn : NotBelow R d) (i : Nat) :
    ExRel (Sim R) (cdaStep d (.ok a) i) (cdaStep d (.ok b) i) := by
  unfold cdaStep
  simp only
  split
  · exact h
  · rcases h (d.take i) (not_pc_take hd i) (hn.take i) with e | ⟨_, da, db⟩
    · rcases noIno_cases e with ⟨e1, e2⟩ | ⟨e1, e2⟩ | ⟨c, m, j, j', e1, e2⟩ <;> rw [e1, e2] <;> simp only
      · exact h.set _ rfl
      · exact h
      · rfl
    · rcases da with e1 | e1 <;> rcases db with e2 | e2 <;> rw [e1, e2] <;> simp only
      · exact h.set _ rfl
      · exact h.update (d.take i) (fun q e => FS.lookup_set_ne a _ q _ e) (fun _ _ => rfl)
          (fun _ _ => .inl (by rw [FS.lookup_set_self, e2]))
      · exact h.update (d.take i) (fun _ _ => rfl) (fun q e => FS.lookup_set_ne b _ q _ e)
          (fun _ _ => .inl (by rw [FS.lookup_set_self, e1]))
      · exact h

theorem cdaFold_sim {d : Key} (hd : ¬ isPcKey d) (hn : NotBelow R d) : ∀ (l : List Nat) (x y : Except IOErr FS),
    ExRel (Sim R) x y → ExRel (Sim R) (l.foldl (cdaStep d) x) (l.foldl (cdaStep d) y) := by
  intro l
  induction l with
  | nil => intro x y h; exact h
  | cons i t ih =>
    intro x y h
    rw [List.foldl_cons, List.foldl_cons]
    apply ih
    cases x with
    | error e =>
      cases y with
      | error e' => exact h
      | ok b => exact h.elim
    | ok a =>
      cases y with
      | error e' => exact h.elim
      | ok b => exact cdaStep_sim h hd hn i

theorem createDirAll_sim (h : Sim R a b) {d : Key} (hd : ¬ isPcKey d) (hn : NotBelow R d) :
    ExRel (Sim R) (a.createDirAll d) (b.createDirAll d) := by
  rw [createDirAll_eq, createDirAll_eq]
  exact cdaFold_sim hd hn _ _ _ h

theorem cdaFold_error (d : Key) (e : IOErr) : ∀ (l : List Nat), l.foldl (cdaStep d) (.error e) = .error e := by
  intro l
  induction l with
  | nil => rfl
  | cons j t ih => rw [List.foldl_cons]; exact ih

/-- after a successful `mkdir -p d`, `d` is a directory -/
theorem createDirAll_ok_isDir {fs fs' : FS} {d : Key} (h : fs.createDirAll d = .ok fs') : fs'.isDir d = true := by
  rw [createDirAll_eq, List.range_succ, List.foldl_append, List.foldl_cons, List.foldl_nil] at h
  cases hx : (List.range d.length).foldl (cdaStep d) (.ok fs) with
  | error e => rw [hx] at h; cases h
  | ok f1 =>
    rw [hx] at h
    unfold cdaStep at h
    simp only [List.take_length] at h
    unfold FS.isDir
    split at h
    · rename_i hd
      rw [hd]; rfl
    · split at h
      · rename_i hl
        cases h; rw [hl]; simp
      · cases h
      · cases h; rw [FS.lookup_set_self]; simp

theorem createFile_sim (h : Sim R a b) {k : Key} (hk : ¬ isPcKey k) (hf : Free R k)
    (hda : a.isDir k.dropLast = true) (hdb : b.isDir k.dropLast = true) :
    ExRel (Sim R) (a.createFile k) (b.createFile k) := by
  unfold FS.createFile
  split
  · rfl
  · rw [h.fileOnPath_eq hk hf.notBelow]
    split
    · rfl
    · rw [hda, hdb]
      simp only [Bool.not_true, Bool.false_eq_true, if_false]
      rcases noIno_cases (h.at hk hf) with ⟨e1, e2⟩ | ⟨e1, e2⟩ | ⟨c, m, i, i', e1, e2⟩ <;> rw [e1, e2] <;> simp only
      · exact Sim.withIno (a := a.set k (.file [] 0o644 a.nextIno)) (b := b.set k (.file [] 0o644 b.nextIno))
          (h.set k rfl) _ _
      · rfl
      · exact h.set k rfl

theorem setMode_sim (h : Sim R a b) {k : Key} (hk : ¬ isPcKey k) (hf : Free R k) (p : Nat) :
    Sim R (a.setMode k p) (b.setMode k p) := by
  unfold FS.setMode
  rcases noIno_cases (h.at hk hf) with ⟨e1, e2⟩ | ⟨e1, e2⟩ | ⟨c, m, i, i', e1, e2⟩ <;> rw [e1, e2] <;> simp only
  · exact h
  · exact h
  · exact h.set k rfl

theorem appendBytes_sim (h : Sim R a b) {k : Key} (hk : ¬ isPcKey k) (hf : Free R k) (x : Bytes) :
    Sim R (a.appendBytes k x) (b.appendBytes k x) := by
  unfold FS.appendBytes
  rcases noIno_cases (h.at hk hf) with ⟨e1, e2⟩ | ⟨e1, e2⟩ | ⟨c, m, i, i', e1, e2⟩ <;> rw [e1, e2] <;> simp only
  · exact h
  · exact h
  · exact h.set k rfl

/-! ### directories -/

theorem hasChild_sim (h : Sim R a b) {k : Key} (hk0 : k ≠ []) (hk : ¬ isPcKey k) (hf : Free R k) :
    a.nodes.any (fun p => p.1.length == k.length + 1 && p.1.take k.length == k) =
      b.nodes.any (fun p => p.1.length == k.length + 1 && p.1.take k.length == k) := by
  have key : ∀ q : Key, q.length = k.length + 1 → q.take k.length = k →
      (a.lookup q).isSome = (b.lookup q).isSome := by
    intro q h1 h2
    have hkq : k <+: q := by rw [← h2]; exact List.take_prefix _ _
    have hne : k ≠ q := fun e => by rw [e] at h1; omega
    have hs : SPre k q := spre_of_prefix hkq hne
    have hnb : NotBelow R q := by
      intro t ht hp
      by_cases hl : t.length ≤ k.length
      · exact hf.notBelow t ht (List.prefix_of_prefix_length_le hp hkq hl)
      · have hle := hp.length_le
        have : t = q := hp.eq_of_length (by omega)
        subst this
        exact hf.notAbove ⟨t, ht, hs⟩
    rcases h q (not_pc_of_take hk0 hk h2) hnb with e | ⟨hab, _, _⟩
    · rcases noIno_cases e with ⟨e1, e2⟩ | ⟨e1, e2⟩ | ⟨c, m, i, i', e1, e2⟩ <;> rw [e1, e2] <;> rfl
    · exact absurd (hab.of_spre hs) hf.notAbove
  rw [Bool.eq_iff_iff, hasChild_iff, hasChild_iff]
  constructor
  · rintro ⟨q, h1, h2, h3⟩
    exact ⟨q, h1, h2, by rw [← key q h1 h2]; exact h3⟩
  · rintro ⟨q, h1, h2, h3⟩
    exact ⟨q, h1, h2, by rw [key q h1 h2]; exact h3⟩

theorem dirEmpty_sim (h : Sim R a b) {k : Key} (hk0 : k ≠ []) (hk : ¬ isPcKey k) (hf : Free R k) :
    a.dirEmpty k = b.dirEmpty k := by
  unfold FS.dirEmpty
  rw [h.fileOnPath_eq hk hf.notBelow, h.isDir_eq hk hf, hasChild_sim h hk0 hk hf]
  split
  · rfl
  · split
    · rcases noIno_cases (h.at hk hf) with ⟨e1, e2⟩ | ⟨e1, e2⟩ | ⟨c, m, i, i', e1, e2⟩ <;> rw [e1, e2]
    · rfl

theorem removeDir_sim (h : Sim R a b) {k : Key} (hk : ¬ isPcKey k) (hf : Free R k) :
    ExRel (Sim R) (a.removeDir k) (b.removeDir k) := by
  unfold FS.removeDir
  split
  · rfl
  · rename_i hk0
    have hk0' : k ≠ [] := by simpa using hk0
    rw [hasChild_sim h hk0' hk hf]
    rcases noIno_cases (h.at hk hf) with ⟨e1, e2⟩ | ⟨e1, e2⟩ | ⟨c, m, i, i', e1, e2⟩ <;> rw [e1, e2] <;> simp only
    · rfl
    · split
      · rfl
      · exact h.erase k
    · rfl

theorem pruneUp_sim : ∀ (fuel : Nat) {a b : FS}, Sim R a b → ∀ {k : Key}, ¬ isPcKey k → NotBelow R k →
    Sim R (pruneUp a fuel k) (pruneUp b fuel k) := by
  intro fuel
  induction fuel with
  | zero => intro a b h k _ _; exact h
  | succ n ih =>
    intro a b h k hk hnb
    by_cases hab : AboveR R k
    · obtain ⟨t, ht, hs⟩ := hab
      exact h.dirChange ht (pruneUp_dirChange (n + 1) a k (.inr hs)) (pruneUp_dirChange (n + 1) b k (.inr hs))
    · have hf : Free R k := free_of hnb hab
      unfold pruneUp
      split
      · exact h
      · rename_i hk0
        have hk0' : k ≠ [] := by simpa using hk0
        rw [dirEmpty_sim h hk0' hk hf]
        split
        · have hr := removeDir_sim h hk hf
          cases ha : a.removeDir k with
          | error e => rw [hr.err_left ha]; exact h
          | ok a' =>
            obtain ⟨b', hb, hab'⟩ := hr.ok_left ha
            rw [hb]
            exact ih hab' (not_isPcKey_dropLast hk) hnb.dropLast
        · exact h

/-! ### `loadTree`, `chooseTree`, `storeTree` -/

/-- the path of a name is outside `.pc` and free of `R` -/
def FreeKey (R : Key → Prop) (k : Key) : Prop := ¬ isPcKey k ∧ Free R k

theorem loadTree_sim (h : Sim R a b) {name : Bytes} (hn : ∀ k, safeKey name = some k → FreeKey R k) :
    loadTree a name = loadTree b name := by
  unfold loadTree
  cases hk : safeKey name with
  | none => rfl
  | some k => simp only; rw [h.readFile_eq (hn k hk).1 (hn k hk).2]

theorem chooseTree_sim (h : Sim R a b) {old new : Option Bytes}
    (hn : ∀ o, old = some o → ∀ k, safeKey o = some k → FreeKey R k) :
    chooseTree a old new = chooseTree b old new := by
  unfold chooseTree
  cases old with
  | none => cases new <;> rfl
  | some o =>
    cases new with
    | none => rfl
    | some n =>
      simp only
      cases hk : safeKey o with
      | none => rfl
      | some k => simp only [h.exists_eq (hn o rfl k hk).1 (hn o rfl k hk).2]

theorem storeRest_sim (h : Sim R a b) {k : Key} (hk : ¬ isPcKey k) (hf : Free R k) (f : FileSt Bytes) (e : Bool) :
    ExRel (Sim R) (storeRest a k f e) (storeRest b k f e) := by
  unfold storeRest
  split
  · split
    · exact pruneUp_sim _ h (not_isPcKey_dropLast hk) hf.notBelow.dropLast
    · exact h
  · have h1 := createDirAll_sim h (not_isPcKey_dropLast hk) hf.notBelow.dropLast
    cases ha : a.createDirAll k.dropLast with
    | error e1 => rw [h1.err_left ha]; trivial
    | ok a2 =>
      obtain ⟨b2, hb, h2⟩ := h1.ok_left ha
      rw [hb]
      simp only
      have h3 := createFile_sim h2 hk hf (createDirAll_ok_isDir ha) (createDirAll_ok_isDir hb)
      cases ha3 : a2.createFile k with
      | error e1 => rw [h3.err_left ha3]; trivial
      | ok a3 =>
        obtain ⟨b3, hb3, h4⟩ := h3.ok_left ha3
        rw [hb3]
        simp only
        apply appendBytes_sim _ hk hf
        cases f.perms with
        | none => exact h4
        | some p => exact setMode_sim h4 hk hf p

theorem storeTree_sim (h : Sim R a b) {name : Bytes} (hn : ∀ k, safeKey name = some k → FreeKey R k)
    (f : FileSt Bytes) : ExRel (Sim R) (storeTree a name f) (storeTree b name f) := by
  rw [storeTree_eq, storeTree_eq]
  cases hk : safeKey name with
  | none => trivial
  | some k =>
    obtain ⟨hk', hf⟩ := hn k hk
    simp only
    rw [h.isSome_eq hk' hf]
    cases hs : (b.lookup k).isSome with
    | true =>
      simp only [if_true]
      have h1 := removeFile_sim h hk' hf
      cases ha : a.removeFile k with
      | error e1 => rw [h1.err_left ha]; trivial
      | ok a1 =>
        obtain ⟨b1, hb, h2⟩ := h1.ok_left ha
        rw [hb]
        exact storeRest_sim h2 hk' hf f _
    | false =>
      simp only [Bool.false_eq_true, if_false]
      exact storeRest_sim h hk' hf f _

end prims

/-! ### one file patch, one patch -/

theorem fpPlan_sim {R : Key → Prop} {a b : FS} (h : Sim R a b) {fp : PFilePatch} (hn : NamesSat (FreeKey R) fp)
    (cfg : Cfg) (entry : Series.Entry) : fpPlan a cfg entry fp = fpPlan b cfg entry fp := by
  unfold fpPlan
  rw [chooseTree_sim h (fun o ho => hn o (.inl ho))]
  split
  · rfl
  · split
    · rfl
    · rename_i target hch
      have hmem := chooseTree_mem hch
      rw [loadTree_sim h (hn target hmem)]
      cases hnew : fp.new with
      | none => rfl
      | some newName =>
        simp only
        rw [loadTree_sim h (hn newName (.inr hnew))]

/-- results of a file patch on two trees that agree away from `R` -/
def FPSim (R : Key → Prop) (r r' : FPResult) : Prop :=
  Sim R r.fs r'.fs ∧ r.ok = r'.ok ∧ r.rej = r'.rej ∧ r.touched = r'.touched

theorem runPlan_sim {R : Key → Prop} {a b : FS} (h : Sim R a b) (pl : FPPlan)
    (hn : ∀ n ∈ planNames pl, ∀ k, safeKey n = some k → FreeKey R k) :
    ExRel (FPSim R) (runPlan a pl) (runPlan b pl) := by
  cases pl with
  | refuse => trivial
  | keep => exact ⟨h, rfl, rfl, rfl⟩
  | store target f ok rej touched =>
    simp only [runPlan]
    have h1 := storeTree_sim h (hn target (by simp [planNames])) f
    cases ha : storeTree a target f with
    | error e => rw [h1.err_left ha]; trivial
    | ok a1 =>
      obtain ⟨b1, hb, h2⟩ := h1.ok_left ha
      rw [hb]
      exact ⟨h2, rfl, rfl, rfl⟩
  | move target f0 newName f ok rej touched =>
    simp only [runPlan]
    have h1 := storeTree_sim h (hn target (by simp [planNames])) f0
    cases ha : storeTree a target f0 with
    | error e => rw [h1.err_left ha]; trivial
    | ok a1 =>
      obtain ⟨b1, hb, h2⟩ := h1.ok_left ha
      rw [hb]
      simp only
      have h3 := storeTree_sim h2 (hn newName (by simp [planNames])) f
      cases ha2 : storeTree a1 newName f with
      | error e => rw [h3.err_left ha2]; trivial
      | ok a2 =>
        obtain ⟨b2, hb2, h4⟩ := h3.ok_left ha2
        rw [hb2]
        exact ⟨h4, rfl, rfl, rfl⟩

/-- **one file patch is a congruence** for "same tree away from `R`" when its names are free of `R` -/
theorem applyFPTree_sim {R : Key → Prop} {a b : FS} (h : Sim R a b) {fp : PFilePatch} (hn : NamesSat (FreeKey R) fp)
    (cfg : Cfg) (entry : Series.Entry) :
    ExRel (FPSim R) (applyFPTree a cfg entry fp) (applyFPTree b cfg entry fp) := by
  rw [applyFPTree_eq, applyFPTree_eq, ← fpPlan_sim h hn]
  exact runPlan_sim h _ (fun n hmem => hn n (planNames_sub hmem))

def PatchSim (R : Key → Prop) (r r' : PatchResult) : Prop :=
  Sim R r.fs r'.fs ∧ r.ok = r'.ok ∧ r.rejs = r'.rejs ∧ r.touched = r'.touched

theorem applyPatchTree_sim {R : Key → Prop} (cfg : Cfg) (entry : Series.Entry) : ∀ (fps : List PFilePatch),
    (∀ fp ∈ fps, NamesSat (FreeKey R) fp) → ∀ (acc acc' : PatchResult), PatchSim R acc acc' →
    ExRel (PatchSim R) (applyPatchTree cfg entry fps acc) (applyPatchTree cfg entry fps acc') := by
  intro fps
  induction fps with
  | nil => intro _ acc acc' h; exact h
  | cons fp fps ih =>
    intro hn acc acc' h
    obtain ⟨h1, h2, h3, h4⟩ := h
    unfold applyPatchTree
    have hc := applyFPTree_sim h1 (hn fp (List.mem_cons_self ..)) cfg entry
    cases ha : applyFPTree acc.fs cfg entry fp with
    | error e => rw [hc.err_left ha]; trivial
    | ok r =>
      obtain ⟨r', hb, hr1, hr2, hr3, hr4⟩ := hc.ok_left ha
      rw [hb]
      simp only
      apply ih (fun fp' hm => hn fp' (List.mem_cons_of_mem _ hm))
      exact ⟨hr1, by rw [h2, hr2], by rw [h3, hr3], by rw [h4, hr4]⟩

/-! ## Part B: the reject files -/

theorem Touch.sim {R : Key → Prop} {a b : FS} (h : Touch R a b) : Sim R a b := by
  intro q _ hn
  rcases h q with e | hr | ⟨t, ht, hs, da, db⟩
  · exact .inl (by rw [e])
  · exact absurd (List.prefix_refl q) (hn q hr)
  · exact .inr ⟨⟨t, ht, hs⟩, da, db⟩

theorem Sim.pcOnly_right {R : Key → Prop} {a b c : FS} (h : Sim R a b) (hpc : PcOnly b c) : Sim R a c := by
  intro q hq hn
  rw [hpc q hq]; exact h q hq hn

/-- the reject files change the tree at their own paths (and by directories above them) only -/
theorem putRejects_touchT (T : Key → Prop) : ∀ (rejs : List (Bytes × Bytes)),
    (∀ r ∈ rejs, ∀ k, safeKey r.1 = some k → T k) → ∀ (fs fs' : FS), putRejects fs rejs = .ok fs' → Touch T fs fs' := by
  intro rejs
  induction rejs with
  | nil => intro _ fs fs' h; unfold putRejects at h; cases h; exact Touch.refl _ _
  | cons r rest ih =>
    obtain ⟨name, content⟩ := r
    intro hr fs fs' h
    have hrest : ∀ r ∈ rest, ∀ k, safeKey r.1 = some k → T k := fun r hm => hr r (List.mem_cons_of_mem _ hm)
    unfold putRejects at h
    split at h
    · cases h
    · rename_i k hk
      have hk' : T k := hr (name, content) (List.mem_cons_self ..) k hk
      split at h
      · exact ih hrest _ _ h
      · split at h
        · exact ih hrest _ _ h
        · split at h
          · cases h
          · rename_i f1 h1
            exact (Touch.of_near (putFile_near h1) hk').trans (ih hrest _ _ h)

/-! ### writing the same reject files again -/

/-- the same directories -/
def SameDirs (a b : FS) : Prop := ∀ q, a.lookup q = some .dir ↔ b.lookup q = some .dir

theorem SameDirs.isDir_eq {a b : FS} (h : SameDirs a b) (d : Key) : a.isDir d = b.isDir d := by
  unfold FS.isDir
  by_cases hd : d = []
  · simp [hd]
  · have hd' : (d == []) = false := by simpa using hd
    rw [hd', Bool.false_or, Bool.false_or, Bool.eq_iff_iff]
    simp only [beq_iff_eq]
    exact h d

/-- writing the reject files creates no directory: where the directory of a reject file exists, so do all
directories above it.  (Holds in every well-formed tree; in the model a directory can exist without its parent.) -/
def DirsOK (fs : FS) (rejs : List (Bytes × Bytes)) : Prop :=
  ∀ r ∈ rejs, ∀ k, safeKey r.1 = some k → fs.isDir k.dropLast = true →
    ∀ i, k.dropLast.take i ≠ [] → fs.lookup (k.dropLast.take i) = some .dir

theorem DirsOK.transfer {a b : FS} {rejs : List (Bytes × Bytes)} (h : DirsOK a rejs) (hs : SameDirs b a) :
    DirsOK b rejs := by
  intro r hr k hk hd i hi
  rw [hs.isDir_eq] at hd
  exact (hs _).mpr (h r hr k hk hd i hi)

theorem createDirAll_noop {fs : FS} {d : Key} (hd : ∀ i, d.take i ≠ [] → fs.lookup (d.take i) = some .dir) :
    fs.createDirAll d = .ok fs := by
  rw [createDirAll_eq]
  generalize List.range (d.length + 1) = l
  induction l with
  | nil => rfl
  | cons i t ih =>
    rw [List.foldl_cons]
    have : cdaStep d (.ok fs) i = .ok fs := by
      unfold cdaStep
      simp only
      split
      · rfl
      · rename_i hne
        rw [hd i (by simpa using hne)]
    rw [this]; exact ih

/-- the tree after the unlink `putFile` starts with -/
def unlinked (fs : FS) (k : Key) : FS :=
  match fs.removeFile k with
  | .ok x => x
  | .error _ => fs

theorem putFile_eq' (fs : FS) (k : Key) (content : Bytes) (perms : Option Nat) :
    putFile fs k content perms = putRest (unlinked fs k) k content perms := rfl

/-- after the unlink, either nothing is at `k`, or nothing was done and `k` cannot be created -/
theorem unlink_cases (fs : FS) (k : Key) :
    (∀ q, q ≠ k → (unlinked fs k).lookup q = fs.lookup q) ∧
    (((unlinked fs k).lookup k = none ∧ fs.lookup k ≠ some .dir) ∨
      (unlinked fs k = fs ∧ (fs.fileOnPath k = true ∨ fs.lookup k = some .dir))) := by
  unfold unlinked
  cases hr : fs.removeFile k with
  | ok x =>
    simp only
    have := FS.removeFile_ok hr
    subst this
    refine ⟨fun q hq => FS.lookup_erase_ne fs k q hq, .inl ⟨FS.lookup_erase_self fs k, ?_⟩⟩
    intro hd
    unfold FS.removeFile at hr
    rw [hd] at hr
    split at hr <;> cases hr
  | error e =>
    simp only
    refine ⟨fun _ _ => trivial, ?_⟩
    unfold FS.removeFile at hr
    split at hr
    · rename_i hfp
      exact .inr ⟨trivial, .inl hfp⟩
    · split at hr
      · cases hr
      · rename_i hl
        exact .inr ⟨trivial, .inr hl⟩
      · rename_i hl
        exact .inl ⟨hl, by rw [hl]; simp⟩

theorem createFile_blocked {fs : FS} {k : Key} (h : fs.fileOnPath k = true ∨ fs.lookup k = some .dir) (fs2 : FS) :
    fs.createFile k ≠ .ok fs2 := by
  intro hc
  unfold FS.createFile at hc
  split at hc
  · cases hc
  · split at hc
    · cases hc
    · rename_i hfp
      split at hc
      · cases hc
      · rcases h with h | h
        · exact absurd h hfp
        · rw [h] at hc; cases hc

/-- one reject file, when its directories are all there: a fresh file with mode 644 at `k`, nothing else changes -/
theorem putFile_spec {fs fs' : FS} {k : Key} {c : Bytes}
    (hd : ∀ i, k.dropLast.take i ≠ [] → fs.lookup (k.dropLast.take i) = some .dir)
    (h : putFile fs k c none = .ok fs') :
    (∃ ino, fs'.lookup k = some (.file c 0o644 ino)) ∧ (∀ q, q ≠ k → fs'.lookup q = fs.lookup q) ∧
      fs.lookup k ≠ some .dir := by
  rw [putFile_eq'] at h
  obtain ⟨hframe, hcases⟩ := unlink_cases fs k
  generalize unlinked fs k = fs0 at h hframe hcases
  have hd0 : ∀ i, k.dropLast.take i ≠ [] → fs0.lookup (k.dropLast.take i) = some .dir := by
    intro i hi
    rw [hframe _ ?_]
    · exact hd i hi
    · intro e
      have hl := congrArg List.length e
      rw [List.length_take, List.length_dropLast] at hl
      have : k ≠ [] := by
        intro e'; rw [e'] at hi; simp at hi
      have := List.length_pos_iff.mpr this
      omega
  unfold putRest at h
  rw [createDirAll_noop hd0] at h
  simp only at h
  cases hc : fs0.createFile k with
  | error e => rw [hc] at h; cases h
  | ok fs2 =>
    rw [hc] at h
    simp only at h
    rcases hcases with ⟨hnone, hnd⟩ | ⟨e0, hb⟩
    · unfold FS.createFile at hc
      split at hc
      · cases hc
      · split at hc
        · cases hc
        · split at hc
          · cases hc
          · rw [hnone] at hc
            simp only at hc
            cases hc
            cases h
            have hl : ({ (fs0.set k (.file [] 0o644 fs0.nextIno)) with nextIno := fs0.nextIno + 1 } : FS).lookup k =
                some (.file [] 0o644 fs0.nextIno) := FS.lookup_set_self fs0 k _
            refine ⟨⟨fs0.nextIno, ?_⟩, ?_, hnd⟩
            · have := lookup_appendBytes_file hl c
              rw [this]; simp
            · intro q hq
              rw [appendBytes_lookup_ne _ _ hq]
              have : ({ (fs0.set k (.file [] 0o644 fs0.nextIno)) with nextIno := fs0.nextIno + 1 } : FS).lookup q =
                  fs0.lookup q := FS.lookup_set_ne fs0 k q _ hq
              rw [this, hframe q hq]
    · rw [e0] at hc
      exact absurd hc (createFile_blocked hb fs2)

/-- what is at `q` once the reject files `rejs` have been written over `cur` (inode numbers erased): the last of them
that has the path `q` and whose directory exists -/
def rejLook (isd : Key → Bool) (q : Key) : List (Bytes × Bytes) → Option Node → Option Node
  | [], cur => cur
  | r :: rest, cur =>
    rejLook isd q rest (if safeKey r.1 = some q ∧ isd q.dropLast = true then some (.file r.2 0o644 0) else cur)

theorem rejLook_cases (isd : Key → Bool) (q : Key) : ∀ (rejs : List (Bytes × Bytes)),
    (∀ cur, rejLook isd q rejs cur = cur) ∨ (∃ n, ∀ cur, rejLook isd q rejs cur = n) := by
  intro rejs
  induction rejs with
  | nil => exact .inl (fun _ => rfl)
  | cons r rest ih =>
    rcases ih with h | ⟨n, h⟩
    · by_cases hc : safeKey r.1 = some q ∧ isd q.dropLast = true
      · exact .inr ⟨some (.file r.2 0o644 0), fun cur => by rw [rejLook, if_pos hc, h]⟩
      · exact .inl (fun cur => by rw [rejLook, if_neg hc, h])
    · exact .inr ⟨n, fun cur => by rw [rejLook, h]⟩

/-- where all directories down to the directory of `k` are there, no regular file is on the way to `k` -/
theorem fileOnPath_of_dirs {fs : FS} {k : Key}
    (hd : ∀ i, k.dropLast.take i ≠ [] → fs.lookup (k.dropLast.take i) = some .dir) : fs.fileOnPath k = false := by
  rw [fileOnPath_false_iff]
  intro q hs hq hf
  have h1 := hs.1
  have e : k.dropLast.take q.length = q := by
    rw [List.dropLast_eq_take, List.take_take, Nat.min_eq_left (by omega)]
    exact hs.2
  have := hd q.length (by rw [e]; exact hq)
  rw [e] at this
  rw [this] at hf
  exact hf

theorem putRejects_lookup (isd : Key → Bool) : ∀ (rejs : List (Bytes × Bytes)) (fs fs' : FS),
    (∀ d, fs.isDir d = isd d) → DirsOK fs rejs → putRejects fs rejs = .ok fs' →
    (∀ q, (fs'.lookup q).map noIno = rejLook isd q rejs ((fs.lookup q).map noIno)) ∧ SameDirs fs' fs := by
  intro rejs
  induction rejs with
  | nil =>
    intro fs fs' _ _ h
    unfold putRejects at h
    cases h
    exact ⟨fun _ => rfl, fun _ => Iff.rfl⟩
  | cons r rest ih =>
    obtain ⟨name, content⟩ := r
    intro fs fs' hisd hok h
    have hrest : DirsOK fs rest := fun r hm => hok r (List.mem_cons_of_mem _ hm)
    unfold putRejects at h
    split at h
    · cases h
    · rename_i k hk
      -- the reject is skipped: its directory does not exist
      have hskip : fs.isDir k.dropLast = false → putRejects fs rest = .ok fs' →
          (∀ q, (fs'.lookup q).map noIno = rejLook isd q ((name, content) :: rest) ((fs.lookup q).map noIno)) ∧
            SameDirs fs' fs := by
        intro hnd h
        obtain ⟨h1, h2⟩ := ih fs fs' hisd hrest h
        refine ⟨fun q => ?_, h2⟩
        rw [h1 q, rejLook]
        have hc : ¬ (safeKey (name, content).1 = some q ∧ isd q.dropLast = true) := by
          rintro ⟨e1, e2⟩
          rw [hk] at e1
          cases e1
          rw [← hisd] at e2
          rw [e2] at hnd
          cases hnd
        rw [if_neg hc]
      split at h
      · -- something on the way to `k` is a regular file: then the directory of `k` does not exist (`DirsOK`)
        rename_i hfp
        refine hskip ?_ h
        cases hd : fs.isDir k.dropLast with
        | false => rfl
        | true =>
          rw [fileOnPath_of_dirs (hok (name, content) (List.mem_cons_self ..) k hk hd)] at hfp
          cases hfp
      · split at h
        · rename_i hnd
          exact hskip (by simpa using hnd) h
        · rename_i hnd
          have hdir : fs.isDir k.dropLast = true := by simpa using hnd
          split at h
          · cases h
          · rename_i f1 hf1
            obtain ⟨⟨ino, hself⟩, hframe, hnodir⟩ :=
              putFile_spec (hok (name, content) (List.mem_cons_self ..) k hk hdir) hf1
            have hsd : SameDirs f1 fs := by
              intro q
              by_cases e : q = k
              · subst e
                rw [hself]
                constructor
                · intro hx; cases hx
                · intro hx; exact absurd hx hnodir
              · rw [hframe q e]
            obtain ⟨h1, h2⟩ := ih f1 fs' (fun d => by rw [hsd.isDir_eq, hisd]) (hrest.transfer hsd) h
            refine ⟨fun q => ?_, fun q => (h2 q).trans (hsd q)⟩
            rw [h1 q, rejLook]
            congr 1
            by_cases e : q = k
            · subst e
              rw [if_pos ⟨hk, by rw [← hisd]; exact hdir⟩, hself]
              rfl
            · rw [if_neg (fun hc => e (by rw [hk] at hc; exact (Option.some.inj hc.1).symm)), hframe q e]

/-- **the same reject files written again** over the tree that already has them: nothing changes (up to inode
numbers) -/
theorem putRejects_again {rejs : List (Bytes × Bytes)} {a fs1 fs2 : FS} (hok : DirsOK a rejs)
    (h1 : putRejects a rejs = .ok fs1) (h2 : putRejects fs1 rejs = .ok fs2) :
    ∀ q, (fs2.lookup q).map noIno = (fs1.lookup q).map noIno := by
  obtain ⟨e1, s1⟩ := putRejects_lookup a.isDir rejs a fs1 (fun _ => rfl) hok h1
  obtain ⟨e2, _⟩ := putRejects_lookup a.isDir rejs fs1 fs2 (fun d => s1.isDir_eq d) (hok.transfer s1) h2
  intro q
  rw [e2 q, e1 q]
  rcases rejLook_cases a.isDir q rejs with h | ⟨n, h⟩
  · rw [h, h]
  · rw [h, h]

/-! ## Part C: the range -/

/-- where a range that does not apply completely stops: at the patch number `p.k`, which fails on the tree `p.fs` -/
theorem applyRangeTree_stop (cfg : Cfg) (orig : FS) : ∀ (range : List Entry) (p0 p : Progress),
    applyRangeTree cfg orig range p0 = .ok p → p.k < p0.k + range.length →
    ∃ e rest patch res, range.drop (p.k - p0.k) = e :: rest ∧ patchOf orig cfg e = some patch ∧
      applyPatchTree cfg e patch.fps { fs := p.fs, ok := true, rejs := [], touched := [] } = .ok res ∧
      res.ok = false ∧ p.rejs = res.rejs ∧ p.failed = true := by
  intro range
  induction range with
  | nil =>
    intro p0 p h hk
    unfold applyRangeTree at h
    cases h
    simp at hk
  | cons entry rest ih =>
    intro p0 p h hk
    rw [applyRangeTree_cons] at h
    split at h
    · cases h
    · rename_i patch hpatch
      split at h
      · cases h
      · rename_i r hr
        split at h
        · rename_i hok
          obtain ⟨hle, _, _⟩ := applyRangeTree_k cfg orig rest _ _ h
          simp only at hle
          simp only [List.length_cons] at hk
          obtain ⟨e, rest', patch', res, h1, h2, h3, h4, h5, h6⟩ := ih _ p h (by simp only; omega)
          simp only at h1
          refine ⟨e, rest', patch', res, ?_, h2, h3, h4, h5, h6⟩
          have : p.k - p0.k = (p.k - (p0.k + 1)) + 1 := by omega
          rw [this, List.drop_succ_cons]; exact h1
        · rename_i hok
          cases h
          refine ⟨entry, rest, patch, r, by simp, hpatch, hr, by simpa using hok, rfl, rfl⟩

/-- the reject files of the failing patch are apart from what the patch reads: for the patch `e` the push stopped at
(progress record `p`),

* `patchFile`: no reject file is written at or above the patch file of `e`;
* `names`: no name in the patch has the path of a reject file, or a path below or above one (the reject file `f.rej`
  of a series that also patches `f.rej`; `d.rej/x` next to the reject file `d.rej`);
* `dirs`: writing the reject files creates no directory (`DirsOK`). -/
structure RejsApart (cfg : Cfg) (fs : FS) (e : Entry) (p : Progress) : Prop where
  patchFile : ∀ pk, patchKey cfg e.name = some pk → ∀ t, isRejKey p.rejs t → ¬ t <+: pk
  names : ∀ patch, patchOf fs cfg e = some patch → ∀ fp ∈ patch.fps, NamesSat (Free (isRejKey p.rejs)) fp
  dirs : DirsOK p.fs p.rejs

theorem isRejKey_reverse {rejs : List (Bytes × Bytes)} {k : Key} : isRejKey rejs.reverse k ↔ isRejKey rejs k := by
  unfold isRejKey
  constructor
  · rintro ⟨r, hr, e⟩; exact ⟨r, List.mem_reverse.mp hr, e⟩
  · rintro ⟨r, hr, e⟩; exact ⟨r, List.mem_reverse.mpr hr, e⟩

theorem DirsOK.reverse {fs : FS} {rejs : List (Bytes × Bytes)} (h : DirsOK fs rejs) : DirsOK fs rejs.reverse :=
  fun r hr => h r (List.mem_reverse.mp hr)

/-- the pieces of a failed push -/
theorem failed_push_setup {cfg : Cfg} (hdry : cfg.dryRun = false) {fs : FS} {r : List Entry} {p : Progress}
    (hp : applyRangeTree cfg fs r (start fs) = .ok p) (hio : (specRun cfg fs r).ioError = false) :
    ∃ fs1, putRejects p.fs p.rejs.reverse = .ok fs1 ∧ specRun cfg fs r = finishPc cfg r p fs1 ∧
      (finishPc cfg r p fs1).ioError = false ∧ PcOnly fs1 (specRun cfg fs r).fs := by
  have ho : specRun cfg fs r = finishSpec cfg fs r p := by unfold specRun; rw [hp]
  rw [finishSpec_eq _ _ _ _ hdry] at ho
  cases hr : putRejects p.fs p.rejs.reverse with
  | error e =>
    rw [hr] at ho
    rw [ho] at hio
    cases hio
  | ok fs1 =>
    rw [hr] at ho
    simp only at ho
    refine ⟨fs1, rfl, ho, by rw [← ho]; exact hio, ?_⟩
    rw [ho]
    exact finishPc_pcOnly cfg r p fs1

/-- **a push after a failed push stops at the same patch with the same result** (range level) -/
theorem failed_push_repeats {cfg : Cfg} (hdry : cfg.dryRun = false) {fs : FS} {r : List Entry} {p : Progress}
    (hclean : Clean cfg fs r) (hp : applyRangeTree cfg fs r (start fs) = .ok p) (hk : p.k < r.length)
    (hio : (specRun cfg fs r).ioError = false)
    (hapart : ∀ e rest, r.drop p.k = e :: rest → RejsApart cfg fs e p) :
    (∃ p2, applyRangeTree cfg (specRun cfg fs r).fs (r.drop p.k) (start (specRun cfg fs r).fs) = .ok p2 ∧
      p2.k = 0 ∧ p2.failed = true ∧ p2.rejs = p.rejs) ∧
    (specRun cfg fs r).exit = 1 ∧
    (specRun cfg (specRun cfg fs r).fs (r.drop p.k)).exit = 1 ∧
    OutsidePc (specRun cfg (specRun cfg fs r).fs (r.drop p.k)).fs (specRun cfg fs r).fs ∧
    ((specRun cfg (specRun cfg fs r).fs (r.drop p.k)).ioError = false →
      fileAt (specRun cfg (specRun cfg fs r).fs (r.drop p.k)).fs appliedKey =
        fileAt (specRun cfg fs r).fs appliedKey) := by
  obtain ⟨e, rest, patch, res, hdrop, hpatch, hres, hokf, hrejs, hfailed⟩ :=
    applyRangeTree_stop cfg fs r (start fs) p hp (by simpa [start] using hk)
  have hdrop' : r.drop p.k = e :: rest := by simpa [start] using hdrop
  have he : e ∈ r := List.mem_of_mem_drop (by rw [hdrop']; exact List.mem_cons_self ..)
  obtain ⟨hpf, hnames, hdirs⟩ := hapart e rest hdrop'
  have hT := clean_touch hclean hp
  have hrejOut : RejsOut p.rejs := clean_rejsOut hclean (fun _ hm => by cases hm) hp
  obtain ⟨hexit1, happlied1⟩ := run_applied hdry hclean hp hio
  obtain ⟨fs1, hr1, ho, hio1, hpc⟩ := failed_push_setup hdry hp hio
  obtain ⟨c0, m0, mode0, hc1, _⟩ := finishPc_readApplied hio1
  rw [← ho] at hc1
  generalize (specRun cfg fs r).fs = ofs at hpc hc1 hexit1 ⊢
  -- the tree the second push starts from: the tree the patch failed on, plus the reject files
  have hTouch : Touch (isRejKey p.rejs) p.fs fs1 :=
    putRejects_touchT _ _ (fun r hr k hk => ⟨r, List.mem_reverse.mp hr, hk⟩) _ _ hr1
  have hsim : Sim (isRejKey p.rejs) p.fs ofs := hTouch.sim.pcOnly_right hpc
  -- the patch file is still there
  have hpatchO : patchOf ofs cfg e = some patch := by
    apply patchOf_pcOnly hpc (hclean e he).keyOut
    refine patchOf_of_readFile (fun pk hk x hr => hTouch.readFile_ok (fun t ht => hpf pk hk t ht) hr)
      (patchOf_touch hT hpatch)
  -- the patch fails again, with the same reject files
  have hfree : ∀ fp ∈ patch.fps, NamesSat (FreeKey (isRejKey p.rejs)) fp := by
    intro fp hfp n hn k hk
    exact ⟨hclean.namesOut e he patch hpatch fp hfp n hn k hk, hnames patch hpatch fp hfp n hn k hk⟩
  have hc := applyPatchTree_sim (R := isRejKey p.rejs) cfg e patch.fps hfree
    { fs := p.fs, ok := true, rejs := [], touched := [] } { fs := ofs, ok := true, rejs := [], touched := [] }
    ⟨hsim, rfl, rfl, rfl⟩
  obtain ⟨res', hres', _, hok', hrejs', _⟩ := hc.ok_left hres
  have hrun : applyRangeTree cfg ofs (e :: rest) (start ofs) =
      .ok { fs := ofs, k := 0, rejs := p.rejs, failed := true, backups := [] } := by
    rw [applyRangeTree_cons, hpatchO]
    simp only
    have : (start ofs).fs = ofs := rfl
    rw [this, hres']
    simp only
    rw [← hok', hokf, hrejs, hrejs']
    simp [start]
  have hq : ∃ p2 : Progress, p2.fs = ofs ∧ p2.k = 0 ∧ p2.rejs = p.rejs ∧ p2.failed = true ∧ p2.backups = [] ∧
      applyRangeTree cfg ofs (e :: rest) (start ofs) = .ok p2 :=
    ⟨{ fs := ofs, k := 0, rejs := p.rejs, failed := true, backups := [] }, rfl, rfl, rfl, rfl, rfl, hrun⟩
  obtain ⟨p2, hfs2, hk2, hrejs2, hfailed2, hbk2, hrun2⟩ := hq
  rw [hdrop']
  refine ⟨⟨p2, hrun2, hk2, hfailed2, hrejs2⟩, ?_, ?_⟩
  · rw [hexit1]
    have : (p.k == r.length) = false := by simpa using Nat.ne_of_lt hk
    simp [this]
  -- the last phase of the second push
  have ho2 : specRun cfg ofs (e :: rest) = finishSpec cfg ofs (e :: rest) p2 := by
    unfold specRun; rw [hrun2]
  rw [ho2, finishSpec_eq _ _ _ _ hdry, hfs2, hrejs2]
  cases hr2 : putRejects ofs p.rejs.reverse with
  | error x => exact ⟨rfl, OutsidePc.refl _, fun h => by cases h⟩
  | ok fs1' =>
    simp only
    have hbk : ∀ b ∈ p2.backups, PatchNameOK b.1 := by rw [hbk2]; exact fun _ hm => by cases hm
    have hpc2 := finishPc_pcOnly cfg (e :: rest) p2 fs1'
    -- the reject files written again
    have hcong := putRejects_congr p.rejs.reverse hrejOut.reverse hpc.outside.symm
    obtain ⟨fs1'', hr1'', hout⟩ := hcong.ok_left hr2
    have hagain : OutsidePc fs1'' fs1 := fun k _ => putRejects_again hdirs.reverse hr1 hr1'' k
    have hO : OutsidePc fs1' ofs := hout.trans (hagain.trans hpc.outside)
    refine ⟨?_, hpc2.outside.symm.trans hO, ?_⟩
    · cases hio2 : (finishPc cfg (e :: rest) p2 fs1').ioError with
      | true => exact finishPc_io_exit _ _ _ _ hio2
      | false =>
        rw [(finishPc_ok hbk hio2).1, hk2]
        simp
    · intro hio2
      rw [(finishPc_ok hbk hio2).2]
      have hnr : ¬ isRejKey p.rejs.reverse appliedKey :=
        fun ⟨r, hm, hk⟩ => hrejOut.reverse r hm _ hk isPcKey_appliedKey
      rw [putRejects_fileAt _ _ _ hr2 _ hnr, hc1, hk2]
      simp [appendView, namesBytes]

/-! ### the hypothesis `RejsApart` in decidable form -/

/-- `Q` holds for the value, if the computation returned one -/
def exAll {ε α : Type} (x : Except ε α) (Q : α → Prop) : Prop :=
  match x with
  | .ok a => Q a
  | .error _ => True

instance {ε α : Type} (x : Except ε α) (Q : α → Prop) [∀ a, Decidable (Q a)] : Decidable (exAll x Q) :=
  match x with
  | .ok a => inferInstanceAs (Decidable (Q a))
  | .error _ => isTrue trivial

/-- `k` is neither at, below nor above the path of one of the reject files -/
def FreeD (rejs : List (Bytes × Bytes)) (k : Key) : Prop :=
  ∀ rj ∈ rejs, optAll (safeKey rj.1) (fun t => ¬ t <+: k ∧ ¬ k <+: t)

instance (rejs : List (Bytes × Bytes)) (k : Key) : Decidable (FreeD rejs k) :=
  inferInstanceAs (Decidable (∀ rj ∈ rejs, optAll (safeKey rj.1) (fun t => ¬ t <+: k ∧ ¬ k <+: t)))

theorem free_iff (rejs : List (Bytes × Bytes)) (k : Key) : Free (isRejKey rejs) k ↔ FreeD rejs k := by
  unfold Free FreeD isRejKey
  simp only [optAll_iff]
  constructor
  · intro h rj hrj t ht
    exact h t ⟨rj, hrj, ht⟩
  · rintro h t ⟨rj, hrj, ht⟩
    exact h rj hrj t ht

def RejsApartD (cfg : Cfg) (fs : FS) (e : Entry) (p : Progress) : Prop :=
  optAll (patchKey cfg e.name) (fun pk => ∀ rj ∈ p.rejs, optAll (safeKey rj.1) (fun t => ¬ t <+: pk)) ∧
  optAll (patchOf fs cfg e) (fun patch => ∀ fp ∈ patch.fps, NamesSatD (FreeD p.rejs) fp) ∧
  ∀ rj ∈ p.rejs, optAll (safeKey rj.1) (fun k => p.fs.isDir k.dropLast = true →
    ∀ i ∈ List.range k.length, k.dropLast.take i ≠ [] → p.fs.lookup (k.dropLast.take i) = some .dir)

instance (cfg : Cfg) (fs : FS) (e : Entry) (p : Progress) : Decidable (RejsApartD cfg fs e p) :=
  inferInstanceAs (Decidable (_ ∧ _ ∧ _))

theorem rejsApart_of_D {cfg : Cfg} {fs : FS} {e : Entry} {p : Progress} (h : RejsApartD cfg fs e p) :
    RejsApart cfg fs e p := by
  obtain ⟨h1, h2, h3⟩ := h
  rw [optAll_iff] at h1 h2
  refine ⟨?_, ?_, ?_⟩
  · rintro pk hpk t ⟨rj, hrj, ht⟩
    exact (optAll_iff _ _).mp (h1 pk hpk rj hrj) t ht
  · intro patch hpatch fp hfp
    have := (namesSat_iff _ fp).mpr (h2 patch hpatch fp hfp)
    exact this.mono (fun k hk => (free_iff _ k).mpr hk)
  · intro rj hrj k hk hd i hi
    have := (optAll_iff _ _).mp (h3 rj hrj) k hk hd
    by_cases hik : i < k.length
    · exact this i (List.mem_range.mpr hik) hi
    · have hk0 : k ≠ [] := by
        intro e0; rw [e0] at hi; simp at hi
      have hpos := List.length_pos_iff.mpr hk0
      have e1 : k.dropLast.take i = k.dropLast.take (k.length - 1) := by
        rw [List.take_of_length_le (by rw [List.length_dropLast]; omega),
          List.take_of_length_le (by rw [List.length_dropLast]; omega)]
      rw [e1] at hi ⊢
      exact this (k.length - 1) (List.mem_range.mpr (by omega)) hi

/-- **the hypothesis of `C09_failed_push_repeats`, decidable**: if the push of `r` from `fs` stops at a patch, the
reject files of that patch are apart from what the patch reads (`RejsApart`) -/
def FailApart (cfg : Cfg) (fs : FS) (r : List Entry) : Prop :=
  exAll (applyRangeTree cfg fs r (start fs)) (fun p => optAll (r.drop p.k).head? (fun e => RejsApartD cfg fs e p))

instance (cfg : Cfg) (fs : FS) (r : List Entry) : Decidable (FailApart cfg fs r) :=
  inferInstanceAs (Decidable (exAll _ _))

theorem FailApart.apart {cfg : Cfg} {fs : FS} {r : List Entry} (h : FailApart cfg fs r) {p : Progress}
    (hp : applyRangeTree cfg fs r (start fs) = .ok p) :
    ∀ e rest, r.drop p.k = e :: rest → RejsApart cfg fs e p := by
  intro e rest hd
  unfold FailApart at h
  rw [hp] at h
  simp only [exAll, hd, List.head?_cons, optAll] at h
  exact rejsApart_of_D h

/-! ### a reject file is never called `series` -/

/-- the last component of the path of `x ++ ".rej"` ends with `.rej` -/
theorem FM_rej_last : ∀ (n : Nat) (x : Bytes), x.length < n →
    ∃ init q, (FM (x ++ rejS)).filterMap nm = init ++ [q ++ rejS] := by
  intro n
  induction n with
  | zero => intro x h; omega
  | succ n ih =>
    intro x hx
    have hn := takePiece_noSep x
    rcases takePiece_spec x with ⟨_, h2⟩ | ⟨_, h2, _⟩
    · have hx0 : x ≠ [] := by
        intro e; rw [e] at h2; simp at h2
      have hlt := takePiece_rest_lt x hx0
      generalize (takePiece x).1 = p at h2 hn
      generalize (takePiece x).2.1 = rest at h2 hlt
      subst h2
      rw [List.append_assoc, List.cons_append, FM_append_sep, List.filterMap_append]
      obtain ⟨init, q, hq⟩ := ih rest (by omega)
      rw [hq]
      exact ⟨(FM p).filterMap nm ++ init, q, by rw [List.append_assoc]⟩
    · rw [← h2] at hn
      have hn' : SEP ∉ x ++ rejS := by
        intro hm
        rcases List.mem_append.mp hm with h | h
        · exact hn h
        · exact sep_not_mem_rejS h
      rw [FM_noSep _ hn', compOfPiece_rej]
      exact ⟨[], x, rfl⟩

theorem safeKey_rej_last {n : Bytes} {k : Key} (h : safeKey (makeRejName n) = some k) :
    ∃ init q, k = init ++ [q ++ rejS] := by
  obtain ⟨_, hk⟩ := safeKey_eq_filterMap h
  rw [makeRejName_eq] at hk h
  cases n with
  | nil =>
    have : safeKey ([] ++ rejS) = some [[46, 114, 101, 106]] := by decide
    rw [this] at h
    cases h
    exact ⟨[], [], rfl⟩
  | cons b bs =>
    have hb : b ≠ SEP := by
      intro e
      subst e
      rw [List.cons_append, safeKey_unsafe _ (.inr (.inl (by rw [components_sep]; simp)))] at h
      cases h
    rw [List.cons_append] at hk
    cases hi : includeCurDir (b :: (bs ++ rejS)) with
    | true =>
      rw [components_cur _ _ hi] at hk
      obtain ⟨init, q, hq⟩ := FM_rej_last (bs.length + 1) bs (Nat.lt_succ_self _)
      refine ⟨init, q, ?_⟩
      rw [hk, ← hq]
      rfl
    | false =>
      have hp : Plain (b :: (bs ++ rejS)) := ⟨by simpa using hb, hi⟩
      rw [components_plain _ hp] at hk
      obtain ⟨init, q, hq⟩ := FM_rej_last ((b :: bs).length + 1) (b :: bs) (Nat.lt_succ_self _)
      exact ⟨init, q, by rw [hk, ← hq]; rfl⟩

theorem rejKey_ne_series {n : Bytes} {k : Key} (h : safeKey (makeRejName n) = some k) : k ≠ seriesKey := by
  obtain ⟨init, q, rfl⟩ := safeKey_rej_last h
  intro e
  have h1 := congrArg List.reverse e
  simp only [List.reverse_append, List.reverse_cons, List.reverse_nil, List.nil_append, seriesKey,
    List.singleton_append, List.cons.injEq] at h1
  have h2 := congrArg List.reverse h1.1
  simp [rejS] at h2

/-- every reject file is called `<name>.rej` -/
def RejNamed (rejs : List (Bytes × Bytes)) : Prop := ∀ r ∈ rejs, ∃ n, r.1 = makeRejName n

theorem applyFPTree_rejNamed {fs : FS} {cfg : Cfg} {entry : Entry} {fp : PFilePatch} {r : FPResult}
    (h : applyFPTree fs cfg entry fp = .ok r) : RejNamed (match r.rej with | some x => [x] | none => []) := by
  rw [applyFPTree_eq] at h
  have hr := runPlan_rej h
  intro x hx
  cases hrej : r.rej with
  | none => rw [hrej] at hx; cases hx
  | some y =>
    rw [hrej] at hx
    simp only [List.mem_singleton] at hx
    subst hx
    rw [hrej] at hr
    obtain ⟨n, _, hname⟩ := planRej_sub hr.symm
    exact ⟨n, hname⟩

theorem applyPatchTree_rejNamed {cfg : Cfg} {entry : Entry} : ∀ (fps : List PFilePatch) (acc r : PatchResult),
    RejNamed acc.rejs → applyPatchTree cfg entry fps acc = .ok r → RejNamed r.rejs := by
  intro fps
  induction fps with
  | nil => intro acc r ha h; unfold applyPatchTree at h; cases h; exact ha
  | cons fp fps ih =>
    intro acc r ha h
    unfold applyPatchTree at h
    split at h
    · cases h
    · rename_i r1 h1
      refine ih _ _ ?_ h
      intro x hx
      rcases List.mem_append.mp hx with hx | hx
      · exact ha x hx
      · exact applyFPTree_rejNamed h1 x hx

theorem applyRangeTree_rejNamed {cfg : Cfg} {orig : FS} : ∀ (range : List Entry) (p p' : Progress),
    RejNamed p.rejs → applyRangeTree cfg orig range p = .ok p' → RejNamed p'.rejs := by
  intro range
  induction range with
  | nil => intro p p' hp h; unfold applyRangeTree at h; cases h; exact hp
  | cons entry rest ih =>
    intro p p' hp h
    rw [applyRangeTree_cons] at h
    split at h
    · cases h
    · split at h
      · cases h
      · rename_i r hr
        split at h
        · exact ih _ _ (by exact hp) h
        · cases h
          exact applyPatchTree_rejNamed _ _ _ (fun _ hm => by cases hm) hr

/-- no reject file of a push is written over the `series` file -/
theorem not_rejKey_series {cfg : Cfg} {fs : FS} {r : List Entry} {p : Progress}
    (hp : applyRangeTree cfg fs r (start fs) = .ok p) : ¬ isRejKey p.rejs seriesKey := by
  rintro ⟨rj, hrj, hk⟩
  obtain ⟨n, hn⟩ := applyRangeTree_rejNamed r (start fs) p (fun _ hm => by cases hm) hp rj hrj
  rw [hn] at hk
  exact rejKey_ne_series hk rfl

/-! ## Part D: the goal level -/

/-- the single-component path `[x]` has no strict prefix that could be a file -/
theorem fileOnPath_single (fs : FS) (x : Bytes) : fs.fileOnPath [x] = false := by
  rw [fileOnPath_false_iff]
  intro q hs hq
  have : q.length < 1 := hs.1
  exact absurd (List.length_eq_zero_iff.mp (by omega)) hq

theorem readFile_single_of_fileAt {a b : FS} {x : Bytes} (h : fileAt a [x] = fileAt b [x]) {y : Bytes × Nat}
    (hr : a.readFile [x] = .ok y) : b.readFile [x] = .ok y := by
  unfold FS.readFile at hr ⊢
  rw [fileOnPath_single] at hr ⊢
  simp only [Bool.false_eq_true, if_false] at hr ⊢
  unfold fileAt at h
  split at hr
  · rename_i c m i hl
    rw [hl] at h
    simp only at h
    cases hr
    cases hb : b.lookup [x] with
    | none => rw [hb] at h; cases h
    | some n =>
      cases n with
      | dir => rw [hb] at h; cases h
      | file c' m' i' =>
        rw [hb] at h
        simp only [Option.some.injEq, Prod.mk.injEq] at h
        simp only
        rw [← h.1, ← h.2]
  · cases hr
  · split at hr <;> cases hr

/-- **after a push that recorded the first `p.k` patches of `r`** (whether or not it applied all of them), `plan`
sees the same series, and those `p.k` names appended to the applied patches (generalises `after_push`) -/
theorem after_failed_push {cfg : Cfg} {fs : FS} {r : List Entry} {p : Progress} (hdry : cfg.dryRun = false)
    (hclean : Clean cfg fs r) (hplain : ∀ e ∈ r, PlainName e.name) (happ : AppliedOK fs)
    (hp : applyRangeTree cfg fs r (start fs) = .ok p) (hio : (specRun cfg fs r).ioError = false) :
    (∀ x, fs.readFile seriesKey = .ok x → (specRun cfg fs r).fs.readFile seriesKey = .ok x) ∧
    appliedOf (specRun cfg fs r).fs = appliedOf fs ++ (r.take p.k).map plainEntry := by
  have hser := not_rejKey_series hp
  have hT := clean_touch hclean hp
  have happ1 := (run_applied hdry hclean hp hio).2
  obtain ⟨fs1, hr1, ho, hio1, hpc⟩ := failed_push_setup hdry hp hio
  obtain ⟨c, m, mode, hc1, hc2⟩ := finishPc_readApplied hio1
  rw [← ho] at hc1 hc2
  generalize (specRun cfg fs r).fs = ofs at hpc hc1 hc2 happ1 ⊢
  constructor
  · intro x hr
    have h1 := hT.readFile_ok (fun _ ht => not_own_prefix_series ht) hr
    have h2 : fs1.readFile seriesKey = .ok x := by
      have hf : fileAt p.fs seriesKey = fileAt fs1 seriesKey :=
        (putRejects_fileAt _ _ _ hr1 _ (fun hk => hser (isRejKey_reverse.mp hk))).symm
      exact readFile_single_of_fileAt (x := [115, 101, 114, 105, 101, 115]) hf h1
    rw [← hpc.outside.readFile_eq (by unfold isPcKey seriesKey; decide)]
    exact h2
  · rw [happ1] at hc1
    have hcont : appliedOf ofs = (match readApplied c with | .ok a => a | .error _ => []) := by
      unfold appliedOf; rw [hc2]; rfl
    rw [hcont]
    have hnames := readApplied_namesBytes (r.take p.k) (fun e he => hplain e (List.mem_of_mem_take he))
    rcases happ with hnone | ⟨abytes, mode0, a, hr0, hs0, ht0⟩
    · have herr : ∃ e, fs.readFile appliedKey = .error e := by
        unfold FS.readFile
        rw [hnone]
        split
        · exact ⟨_, rfl⟩
        · simp only
          split <;> exact ⟨_, rfl⟩
      have h0 : appliedOf fs = [] := by
        obtain ⟨e, he⟩ := herr
        unfold appliedOf
        rw [he]
      rw [h0, fileAt_of_lookup_none hnone] at *
      simp only [appendView, Option.some.injEq, Prod.mk.injEq] at hc1
      rw [← hc1.1, hnames]
      rfl
    · have h0 : appliedOf fs = a := by
        unfold appliedOf; rw [hr0]; simp only; rw [hs0]
      rw [h0, Disk.readFile_ok_fileAt hr0] at *
      simp only [appendView, Option.some.injEq, Prod.mk.injEq] at hc1
      rw [← hc1.1, readApplied_append ht0 hs0 hnames]

/-- how `planOf` resolves the goal: the index behind the last patch to apply -/
def lastOf (goal : Goal) (series : List Entry) (first : Nat) : Option Nat :=
  match goal with
  | .all => some series.length
  | .count n => some (min (first + n) series.length)
  | .upTo name =>
    match series.findIdx? (fun e => components e.name == components name) with
    | some i => if i < first then none else some (i + 1)
    | none => none

theorem planOf_eq (goal : Goal) (series applied : List Entry) :
    planOf goal series applied =
      if namesMismatch series applied then .refuse
      else if applied.length > series.length then .refuse
      else match lastOf goal series applied.length with
        | none => .refuse
        | some last =>
          if applied.length == series.length then .nothingToDo
          else .apply ((series.drop applied.length).take (last - applied.length)) := rfl

/-- what an answer `.apply r` of `planOf` says, with the index -/
theorem planOf_apply_last {goal : Goal} {series applied r : List Entry} (h : planOf goal series applied = .apply r) :
    namesMismatch series applied = false ∧ applied.length < series.length ∧
      ∃ last, lastOf goal series applied.length = some last ∧
        r = (series.drop applied.length).take (last - applied.length) := by
  rw [planOf_eq] at h
  split at h
  · cases h
  · rename_i hnm
    split at h
    · cases h
    · rename_i hlen
      split at h
      · cases h
      · rename_i last hlast
        split at h
        · cases h
        · rename_i hne
          cases h
          have hne' : applied.length ≠ series.length := by simpa using hne
          exact ⟨by simpa using hnm, by omega, last, hlast, rfl⟩

theorem lastOf_le {goal : Goal} {series : List Entry} {first last : Nat} (h : lastOf goal series first = some last) :
    last ≤ series.length := by
  unfold lastOf at h
  split at h
  · cases h; exact Nat.le_refl _
  · cases h; exact Nat.min_le_right _ _
  · split at h
    · rename_i i hi
      split at h
      · cases h
      · cases h
        obtain ⟨hlt, _⟩ := List.findIdx?_eq_some_iff_getElem.mp hi
        omega
    · cases h

/-- the goals "all" and "up to `name`" do not depend on how many patches are applied already -/
theorem lastOf_later {goal : Goal} (hg : goal = .all ∨ ∃ name, goal = .upTo name) {series : List Entry}
    {first first' last : Nat} (h : lastOf goal series first = some last) (h2 : first' < last) :
    lastOf goal series first' = some last := by
  rcases hg with rfl | ⟨name, rfl⟩
  · exact h
  · unfold lastOf at h ⊢
    simp only at h ⊢
    split at h
    · rename_i i hi
      split at h
      · cases h
      · cases h
        rw [if_neg (by omega)]
    · cases h

/-- with the first `k` patches of `r` recorded, the applied patches are still a prefix of the series -/
theorem planOf_recorded_take {g1 : Goal} {series a0 r1 : List Entry} (h1 : planOf g1 series a0 = .apply r1) (k : Nat) :
    namesMismatch series (a0 ++ (r1.take k).map plainEntry) = false := by
  obtain ⟨hnm, hle, _, m1, hr1⟩ := planOf_apply h1
  rw [namesMismatch_append _ _ _ hle, hnm, hr1, List.take_take, namesMismatch_self]; rfl

theorem drop_of_take_drop (series : List Entry) (f n k : Nat) :
    ((series.drop f).take n).drop k = (series.drop (f + k)).take (n - k) := by
  rw [List.drop_take, List.drop_drop]

/-- **`planOf` after a failed push, same goal** ("all" or "up to `name`"): the rest of the range -/
theorem planOf_after_failed {g : Goal} (hg : g = .all ∨ ∃ name, g = .upTo name) {series a0 r : List Entry} {k : Nat}
    (h1 : planOf g series a0 = .apply r) (hk : k < r.length) :
    planOf g series (a0 ++ (r.take k).map plainEntry) = .apply (r.drop k) := by
  have hnm' := planOf_recorded_take h1 k
  obtain ⟨_, hlt, last, hlast, hr⟩ := planOf_apply_last h1
  have hll := lastOf_le hlast
  have hrl : r.length = last - a0.length := by
    rw [hr, List.length_take, List.length_drop]; omega
  have hlen : (a0 ++ (r.take k).map plainEntry).length = a0.length + k := by
    simp only [List.length_append, List.length_map, List.length_take]; omega
  rw [planOf_eq, hnm', hlen, lastOf_later hg hlast (by omega)]
  simp only [Bool.false_eq_true, if_false]
  rw [if_neg (by omega)]
  have hne : (a0.length + k == series.length) = false := by
    simp only [beq_eq_false_iff_ne, ne_eq]; omega
  simp only [hne, Bool.false_eq_true, if_false]
  congr 1
  rw [hr, drop_of_take_drop]
  congr 1
  omega

/-- **`planOf` after a failed push, any goal**: whatever range is chosen starts right behind the recorded patches,
like the rest of the first range — so, unless it is empty, with the patch that failed -/
theorem planOf_after_failed_any {g g2 : Goal} {series a0 r r2 : List Entry} {k : Nat}
    (h1 : planOf g series a0 = .apply r) (hk : k < r.length)
    (h2 : planOf g2 series (a0 ++ (r.take k).map plainEntry) = .apply r2) :
    (∃ m, r2 = (series.drop (a0.length + k)).take m) ∧
      r.drop k = (series.drop (a0.length + k)).take (r.length - k) ∧
      (r2 ≠ [] → ∃ e rest rest2, r.drop k = e :: rest ∧ r2 = e :: rest2) := by
  obtain ⟨_, hlt, last, hlast, hr⟩ := planOf_apply_last h1
  have hll := lastOf_le hlast
  have hrl : r.length = last - a0.length := by
    rw [hr, List.length_take, List.length_drop]; omega
  have hlen : (a0 ++ (r.take k).map plainEntry).length = a0.length + k := by
    simp only [List.length_append, List.length_map, List.length_take]; omega
  obtain ⟨_, _, _, m2, hr2⟩ := planOf_apply h2
  rw [hlen] at hr2
  have hrd : r.drop k = (series.drop (a0.length + k)).take (r.length - k) := by
    rw [hrl]
    conv => lhs; rw [hr]
    rw [drop_of_take_drop]
  refine ⟨⟨m2, hr2⟩, hrd, ?_⟩
  intro hne
  rw [hrd, hr2] at *
  cases hs : series.drop (a0.length + k) with
  | nil => rw [hs] at hne; simp at hne
  | cons e tail =>
    rw [hs] at hne
    have hm2 : m2 ≠ 0 := by
      intro e0; rw [e0] at hne; simp at hne
    obtain ⟨m2', rfl⟩ := Nat.exists_eq_succ_of_ne_zero hm2
    obtain ⟨n', hn'⟩ := Nat.exists_eq_succ_of_ne_zero (show r.length - k ≠ 0 by omega)
    rw [hn']
    exact ⟨e, tail.take n', tail.take m2', rfl, rfl⟩

/-- the goal "`n` more patches" after a failed push: the `n` patches behind the recorded ones -/
theorem planOf_count_after {series a' : List Entry} (n : Nat) (hnm : namesMismatch series a' = false)
    (hlt : a'.length < series.length) :
    planOf (.count n) series a' = .apply ((series.drop a'.length).take n) := by
  rw [planOf_eq, hnm]
  simp only [Bool.false_eq_true, if_false, lastOf]
  rw [if_neg (by omega)]
  have hne : (a'.length == series.length) = false := by
    simp only [beq_eq_false_iff_ne, ne_eq]; omega
  simp only [hne, Bool.false_eq_true, if_false]
  congr 1
  rw [List.take_eq_take_iff, List.length_drop]
  omega

/-- **the second `plan` in terms of the first tree**: same series, the first `p.k` names of `r` appended to the
applied patches (generalises `plan_after` to a push that stopped early) -/
theorem plan_after_failed {cfg : Cfg} {fs : FS} {r : List Entry} {p : Progress} (hdry : cfg.dryRun = false)
    (hclean : Clean cfg fs r) (happ : AppliedOK fs) (hp1 : plan cfg fs = .apply r)
    (hp : applyRangeTree cfg fs r (start fs) = .ok p) (hio : (specRun cfg fs r).ioError = false) :
    ∃ series, planOf cfg.goal series (appliedOf fs) = .apply r ∧
      ∀ cfg2 : Cfg, plan cfg2 (specRun cfg fs r).fs =
        planOf cfg2.goal series (appliedOf fs ++ (r.take p.k).map plainEntry) := by
  obtain ⟨hsf, happl⟩ := after_failed_push hdry hclean (plan_range_plain hp1) happ hp hio
  rw [plan_eq] at hp1
  cases hr : fs.readFile seriesKey with
  | error e => rw [hr] at hp1; cases hp1
  | ok x =>
    obtain ⟨sbytes, smode⟩ := x
    rw [hr] at hp1
    simp only at hp1
    cases hs : readSeries sbytes with
    | error e => rw [hs] at hp1; cases hp1
    | ok series =>
      rw [hs] at hp1
      simp only at hp1
      refine ⟨series, hp1, fun cfg2 => ?_⟩
      rw [plan_eq, hsf _ hr]
      simp only
      rw [hs]
      simp only
      rw [happl]

/-- if the first patch of a range fails, it fails when pushed alone -/
theorem head_fails_single {cfg : Cfg} {fs : FS} {e : Entry} {rest : List Entry} {p2 : Progress}
    (h : applyRangeTree cfg fs (e :: rest) (start fs) = .ok p2) (hk : p2.k = 0) :
    ∀ p1, applyRangeTree cfg fs [e] (start fs) = .ok p1 → p1.k ≠ [e].length := by
  intro p1 hp1 hk1
  have happ := applyRangeTree_append cfg fs [e] rest (start fs)
  rw [hp1] at happ
  simp only [List.singleton_append] at happ
  rw [h] at happ
  have hs : (start fs).k = 0 := rfl
  rw [hs, if_pos (by simpa using hk1)] at happ
  obtain ⟨hle, _, _⟩ := applyRangeTree_k cfg fs rest p1 p2 happ.symm
  simp only [List.length_cons, List.length_nil] at hk1
  omega

/-- a range whose first patch fails is pushed like any other range that starts with that patch -/
theorem specRun_same_head {cfg : Cfg} {fs : FS} {e : Entry} {rest : List Entry} {p2 : Progress}
    (h : applyRangeTree cfg fs (e :: rest) (start fs) = .ok p2) (hk : p2.k = 0) (rest2 : List Entry) :
    specRun cfg fs (e :: rest2) = specRun cfg fs (e :: rest) := by
  have hs := head_fails_single h hk
  have e1 := specRun_append_of_not_all cfg fs [e] rest hs
  have e2 := specRun_append_of_not_all cfg fs [e] rest2 hs
  simp only [List.singleton_append] at e1 e2
  rw [e1, e2]

/-- what `plan` says when there is nothing to do: `.pc/applied-patches` lists the whole series (as many names, none
of them different), and the goal is not "up to `name`" (that name is applied already: refused) -/
theorem plan_nothingToDo_iff (cfg : Cfg) (fs : FS) :
    plan cfg fs = .nothingToDo ↔
      ∃ sbytes mode series, fs.readFile seriesKey = .ok (sbytes, mode) ∧ readSeries sbytes = .ok series ∧
        namesMismatch series (appliedOf fs) = false ∧ (appliedOf fs).length = series.length ∧
        ∀ name, cfg.goal ≠ .upTo name := by
  rw [plan_eq]
  constructor
  · intro h
    cases hr : fs.readFile seriesKey with
    | error e => rw [hr] at h; cases h
    | ok x =>
      obtain ⟨sbytes, smode⟩ := x
      rw [hr] at h
      simp only at h
      cases hs : readSeries sbytes with
      | error e => rw [hs] at h; cases h
      | ok series =>
        rw [hs] at h
        simp only at h
        refine ⟨sbytes, smode, series, rfl, hs, ?_⟩
        rw [planOf_eq] at h
        split at h
        · cases h
        · rename_i hnm
          split at h
          · cases h
          · split at h
            · cases h
            · rename_i last hlast
              split at h
              · rename_i heq
                have heq' : (appliedOf fs).length = series.length := by simpa using heq
                refine ⟨by simpa using hnm, heq', ?_⟩
                intro name hg
                rw [hg] at hlast
                unfold lastOf at hlast
                simp only at hlast
                split at hlast
                · rename_i i hi
                  obtain ⟨hlt, _⟩ := List.findIdx?_eq_some_iff_getElem.mp hi
                  rw [if_pos (by omega)] at hlast
                  cases hlast
                · cases hlast
              · cases h
  · rintro ⟨sbytes, smode, series, hr, hs, hnm, hlen, hg⟩
    rw [hr]
    simp only
    rw [hs]
    simp only
    rw [planOf_eq, hnm, hlen]
    simp only [Bool.false_eq_true, if_false, Nat.lt_irrefl, gt_iff_lt, beq_self_eq_true, if_true]
    cases hgoal : cfg.goal with
    | all => rfl
    | count n => rfl
    | upTo name => exact absurd hgoal (hg name)

end RQ.Compose
