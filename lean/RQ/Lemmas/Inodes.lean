import RQ.Model.Push
/-! Helper lemmas for C15: file-system operations and inode freshness. -/
namespace RQ.Push
open RQ

end RQ.Push
