import RQ.Lemmas.InodesMem
/-! Helper lemmas for C15: file-system operations and inode freshness. -/
namespace RQ.Push
open RQ RQ.Parse RQ.Write

/-- the world invariant: no fault injection, old inodes intact -/
def WInv (fs0 : FS) (w : World) : Prop := w.faultAt = none ∧ FS.Inv fs0 w.fs

abbrev WFresh (fs0 : FS) (w : World) (k : Key) : Prop := FS.Fresh fs0.nextIno w.fs k

/-- the file-system effect of an operation -/
def Op.run (fs : FS) : Op → Except IOErr FS
  | .removeFile k => fs.removeFile k
  | .createDirAll k => fs.createDirAll k
  | .createFile k => fs.createFile k
  | .setMode k m => .ok (fs.setMode k m)
  | .write k b => .ok (fs.appendBytes k b)
  | .removeDir k => fs.removeDir k
  | .appendOpen k => fs.appendFile k []

theorem op_eq (w : World) (o : Op) (hf : w.faultAt = none) :
    w.op o = match Op.run w.fs o with
      | .ok fs => .ok { w with trace := w.trace ++ [o], fs := fs }
      | .error .notFound => .notFound { w with trace := w.trace ++ [o] }
      | .error .other => .failed { w with trace := w.trace ++ [o] } := by
  unfold World.op
  have : (w.faultAt == some w.trace.length) = false := by rw [hf]; rfl
  simp only [this]
  cases o <;> rfl

theorem op_ok {w w' : World} {o : Op} (hf : w.faultAt = none) (e : w.op o = .ok w') :
    Op.run w.fs o = .ok w'.fs ∧ w'.faultAt = none := by
  rw [op_eq w o hf] at e
  split at e
  · cases e; exact ⟨by assumption, hf⟩
  · cases e
  · cases e

theorem op_notFound {w w' : World} {o : Op} (hf : w.faultAt = none) (e : w.op o = .notFound w') :
    Op.run w.fs o = .error .notFound ∧ w'.fs = w.fs ∧ w'.faultAt = none := by
  rw [op_eq w o hf] at e
  split at e
  · cases e
  · cases e; exact ⟨by assumption, rfl, hf⟩
  · cases e

theorem op_failed {w w' : World} {o : Op} (hf : w.faultAt = none) (e : w.op o = .failed w') :
    w'.fs = w.fs ∧ w'.faultAt = none := by
  rw [op_eq w o hf] at e
  split at e
  · cases e
  · cases e
  · cases e; exact ⟨rfl, hf⟩

variable {fs0 : FS} {w w' : World}

theorem inv_failed {o : Op} (h : WInv fs0 w) (e : w.op o = .failed w') : WInv fs0 w' := by
  obtain ⟨h1, h2⟩ := op_failed h.1 e
  exact ⟨h2, h1 ▸ h.2⟩

theorem inv_notFound {o : Op} (h : WInv fs0 w) (e : w.op o = .notFound w') : WInv fs0 w' := by
  obtain ⟨_, h1, h2⟩ := op_notFound h.1 e
  exact ⟨h2, h1 ▸ h.2⟩

theorem fresh_notFound {o : Op} {k : Key} (h : WInv fs0 w) (hfr : WFresh fs0 w k)
    (e : w.op o = .notFound w') : WFresh fs0 w' k := by
  obtain ⟨_, h1, _⟩ := op_notFound h.1 e
  unfold WFresh; rw [h1]; exact hfr

theorem removeFile_ok {k : Key} (h : WInv fs0 w) (e : w.op (.removeFile k) = .ok w') :
    WInv fs0 w' ∧ WFresh fs0 w' k := by
  obtain ⟨h1, h2⟩ := op_ok h.1 e
  have := FS.removeFile_ok h1
  unfold WFresh
  rw [this]
  exact ⟨⟨h2, this ▸ h.2.sub (FS.sub_erase _ _)⟩, FS.fresh_of_none (FS.lookup_erase_self _ _)⟩

theorem removeFile_notFound {k : Key} (h : WInv fs0 w) (e : w.op (.removeFile k) = .notFound w') :
    WInv fs0 w' ∧ WFresh fs0 w' k := by
  obtain ⟨h1, h2, h3⟩ := op_notFound h.1 e
  refine ⟨⟨h3, h2 ▸ h.2⟩, ?_⟩
  unfold WFresh; rw [h2]
  exact FS.fresh_of_none (FS.removeFile_notFound h1)

theorem createDirAll_ok {d : Key} (h : WInv fs0 w) (e : w.op (.createDirAll d) = .ok w') :
    WInv fs0 w' ∧ ∀ k, WFresh fs0 w k → WFresh fs0 w' k := by
  obtain ⟨h1, h2⟩ := op_ok h.1 e
  have hs := FS.createDirAll_ok h1
  exact ⟨⟨h2, h.2.sub hs⟩, fun k hk => hk.sub hs⟩

theorem removeDir_ok {d : Key} (h : WInv fs0 w) (e : w.op (.removeDir d) = .ok w') : WInv fs0 w' := by
  obtain ⟨h1, h2⟩ := op_ok h.1 e
  have := FS.removeDir_ok h1
  exact ⟨h2, this ▸ h.2.sub (FS.sub_erase _ _)⟩

theorem createFile_ok {k : Key} (h : WInv fs0 w) (hfr : WFresh fs0 w k)
    (e : w.op (.createFile k) = .ok w') : WInv fs0 w' ∧ WFresh fs0 w' k := by
  obtain ⟨h1, h2⟩ := op_ok h.1 e
  obtain ⟨h3, h4⟩ := FS.createFile_ok h.2 hfr h1
  exact ⟨⟨h2, h3⟩, h4⟩

theorem setMode_ok {k : Key} {m : Nat} (h : WInv fs0 w) (hfr : WFresh fs0 w k)
    (e : w.op (.setMode k m) = .ok w') : WInv fs0 w' ∧ WFresh fs0 w' k := by
  obtain ⟨h1, h2⟩ := op_ok h.1 e
  injection h1 with h1
  obtain ⟨h3, h4⟩ := FS.setMode_ok m h.2 hfr
  unfold WFresh WInv
  rw [← h1]
  exact ⟨⟨h2, h3⟩, h4⟩

theorem write_ok {k : Key} {b : Bytes} (h : WInv fs0 w) (hfr : WFresh fs0 w k)
    (e : w.op (.write k b) = .ok w') : WInv fs0 w' ∧ WFresh fs0 w' k := by
  obtain ⟨h1, h2⟩ := op_ok h.1 e
  injection h1 with h1
  obtain ⟨h3, h4⟩ := FS.appendBytes_ok b h.2 hfr
  unfold WFresh WInv
  rw [← h1]
  exact ⟨⟨h2, h3⟩, h4⟩

theorem appendOpen_ok {k : Key} (h : WInv fs0 w) (hfr : WFresh fs0 w k)
    (e : w.op (.appendOpen k) = .ok w') : WInv fs0 w' ∧ WFresh fs0 w' k := by
  obtain ⟨h1, h2⟩ := op_ok h.1 e
  obtain ⟨h3, h4⟩ := FS.appendFile_ok h.2 hfr h1
  exact ⟨⟨h2, h3⟩, h4⟩

/-- the world carried by a result — on success or at the point of failure — satisfies the invariant -/
def WRInv {α : Type} (fs0 : FS) (P : α → World) : WR α → Prop
  | .ok a => WInv fs0 (P a)
  | .error p => WInv fs0 p.2

theorem writeNew_inv {k : Key} (perms : Option Nat) (content : Bytes) (h : WInv fs0 w)
    (hfr : WFresh fs0 w k) : WRInv fs0 id (writeNew w k perms content) := by
  generalize hr : writeNew w k perms content = r
  unfold writeNew at hr
  have hwrite : ∀ {w : World} {r : WR World}, WInv fs0 w → WFresh fs0 w k →
      (match w.op (Op.write k content) with
        | OpRes.ok w => Except.ok w
        | OpRes.notFound w => Except.error (Fail.err, w)
        | OpRes.failed w => Except.error (Fail.err, w)) = r → WRInv fs0 id r := by
    intro w r h hfr hr
    split at hr
    · rename_i hop; subst hr; exact (write_ok h hfr hop).1
    · rename_i hop; subst hr; exact inv_notFound h hop
    · rename_i hop; subst hr; exact inv_failed h hop
  cases perms with
  | none =>
    simp only at hr
    exact hwrite h hfr hr
  | some p =>
    simp only at hr
    split at hr
    · rename_i heq
      subst hr
      split at heq
      · cases heq
      · rename_i hop; cases heq; exact inv_notFound h hop
      · rename_i hop; cases heq; exact inv_failed h hop
    · rename_i heq
      split at heq
      · rename_i hop
        cases heq
        obtain ⟨h1, h2⟩ := setMode_ok h hfr hop
        exact hwrite h1 h2 hr
      · cases heq
      · cases heq

theorem saveRejFiles_inv (rejs : List (Bytes × Bytes)) :
    ∀ {w : World}, WInv fs0 w → WRInv fs0 id (saveRejFiles w rejs) := by
  induction rejs with
  | nil => intro w h; unfold saveRejFiles; exact h
  | cons x rest ih =>
    intro w h
    obtain ⟨name, content⟩ := x
    generalize hr : saveRejFiles w ((name, content) :: rest) = r
    rw [saveRejFiles_cons] at hr
    split at hr
    · subst hr; exact h
    · rename_i k _
      split at hr
      · -- bypassed: the file system is untouched
        have hl : ∀ (w : World) (o : Op), WInv fs0 w → WInv fs0 (w.logged o) := fun _ _ h => h
        split at hr
        · subst hr; exact hl _ _ h
        · split at hr
          · subst hr; exact hl _ _ (hl _ _ h)
          · subst hr; exact ih (hl _ _ (hl _ _ h))
      split at hr
      · rename_i hop; subst hr; exact inv_failed h hop
      all_goals
        rename_i w0 hop
        have hh : WInv fs0 w0 ∧ WFresh fs0 w0 k := by
          first | exact removeFile_ok h hop | exact removeFile_notFound h hop
        obtain ⟨h1, h2⟩ := hh
        split at hr
        · rename_i hop2; subst hr; exact ih (inv_notFound h1 hop2)
        · rename_i hop2; subst hr; exact inv_failed h1 hop2
        · rename_i w2 hop2
          obtain ⟨h3, h4⟩ := createFile_ok h1 h2 hop2
          split at hr
          · rename_i hop3; subst hr; exact ih (write_ok h3 h4 hop3).1
          · rename_i hop3; subst hr; exact inv_notFound h3 hop3
          · rename_i hop3; subst hr; exact inv_failed h3 hop3

theorem saveModifiedFile_inv {name : Bytes} {f : FileSt Bytes} (h : WInv fs0 w)
    (hex : f.existed = false → ∀ k, safeKey name = some k → fs0.lookup k = none) :
    WRInv fs0 (·.1) (saveModifiedFile w name f) := by
  generalize hr : saveModifiedFile w name f = r
  unfold saveModifiedFile at hr
  split at hr
  · subst hr; exact h
  · rename_i k hk
    simp only at hr
    split at hr
    · rename_i e heq
      subst hr
      split at heq
      · split at heq
        · cases heq
        · cases heq
        · rename_i hop; cases heq; exact inv_failed h hop
      · cases heq
    · rename_i w1 heq
      have hh : WInv fs0 w1 ∧ WFresh fs0 w1 k := by
        split at heq
        · split at heq
          · rename_i hop; cases heq; exact removeFile_ok h hop
          · rename_i hop; cases heq; exact removeFile_notFound h hop
          · cases heq
        · rename_i hne
          cases heq
          exact ⟨h, FS.fresh_of_init_none h.2 (hex (by simpa using hne) k hk)⟩
      obtain ⟨h1, h2⟩ := hh
      split at hr
      · subst hr; exact h1
      · split at hr
        · rename_i e heq2
          subst hr
          split at heq2
          · split at heq2
            · cases heq2
            · rename_i hop; cases heq2; exact inv_notFound h1 hop
            · rename_i hop; cases heq2; exact inv_failed h1 hop
          · cases heq2
        · rename_i w2 heq2
          have hh2 : WInv fs0 w2 ∧ WFresh fs0 w2 k := by
            split at heq2
            · split at heq2
              · rename_i hop
                cases heq2
                obtain ⟨h3, h4⟩ := createDirAll_ok h1 hop
                exact ⟨h3, h4 k h2⟩
              · cases heq2
              · cases heq2
            · cases heq2; exact ⟨h1, h2⟩
          obtain ⟨h3, h4⟩ := hh2
          split at hr
          · rename_i w3 hop
            obtain ⟨h5, h6⟩ := createFile_ok h3 h4 hop
            have hwn := writeNew_inv f.perms (bytesOf f.content) h5 h6
            split at hr
            · rename_i heq3; rw [heq3] at hwn; subst hr; exact hwn
            · rename_i heq3; rw [heq3] at hwn; subst hr; exact hwn
          · rename_i hop; subst hr; exact inv_notFound h3 hop
          · rename_i hop; subst hr; exact inv_failed h3 hop

theorem saveAll_inv (mem : Mem) : ∀ {w : World} {dirs : List Key}, WInv fs0 w → MemOK fs0 mem →
    WRInv fs0 (·.1) (saveAll w mem dirs) := by
  induction mem with
  | nil => intro w dirs h _; unfold saveAll; exact h
  | cons x rest ih =>
    intro w dirs h hm
    obtain ⟨cs, name, f⟩ := x
    generalize hr : saveAll w ((cs, name, f) :: rest) dirs = r
    unfold saveAll at hr
    have hx := hm (cs, name, f) (List.mem_cons_self ..)
    have hrest : MemOK fs0 rest := fun e he => hm e (List.mem_cons_of_mem _ he)
    have hs := saveModifiedFile_inv (name := name) (f := f) h (by
      intro hf k hk
      have h1 : cs = components name := hx.1
      have := hx.2 hf k
      simp only at this
      rw [h1] at this
      exact this (safeKey_comps hk))
    split at hr
    · rename_i heq; rw [heq] at hs; subst hr; exact hs
    · rename_i heq; rw [heq] at hs; subst hr; exact ih hs hrest

theorem cleanUp_inv (fuel : Nat) : ∀ {w : World} {k : Key}, WInv fs0 w → WRInv fs0 id (cleanUp w fuel k) := by
  induction fuel with
  | zero => intro w k h; unfold cleanUp; exact h
  | succ n ih =>
    intro w k h
    generalize hr : cleanUp w (n + 1) k = r
    unfold cleanUp at hr
    split at hr
    · subst hr; exact h
    · subst hr; exact h
    · subst hr; exact h
    · split at hr
      · rename_i hop; subst hr; exact inv_failed h hop
      all_goals
        rename_i w1 hop
        have h1 : WInv fs0 w1 := by
          first | exact removeDir_ok h hop | exact inv_notFound h hop
        split at hr
        · subst hr; exact h1
        · subst hr; exact ih h1

theorem cleanAll_inv (ks : List Key) : ∀ {w : World}, WInv fs0 w → WRInv fs0 id (cleanAll w ks) := by
  induction ks with
  | nil => intro w h; unfold cleanAll; exact h
  | cons k ks ih =>
    intro w h
    generalize hr : cleanAll w (k :: ks) = r
    unfold cleanAll at hr
    have hc := cleanUp_inv (k.length + 1) (k := k) h
    split at hr
    · rename_i heq; rw [heq] at hc; subst hr; exact hc
    · rename_i heq; rw [heq] at hc; subst hr; exact ih hc

theorem saveBackup_inv {patchName name : Bytes} {f : FileSt Bytes} (h : WInv fs0 w) :
    WRInv fs0 id (saveBackup w patchName name f) := by
  generalize hr : saveBackup w patchName name f = r
  unfold saveBackup at hr
  split at hr
  · subst hr; exact h
  · rename_i k _
    split at hr
    · rename_i w1 hop
      have h1 := (createDirAll_ok h hop).1
      split at hr
      · rename_i hop2; subst hr; exact inv_failed h1 hop2
      all_goals
        rename_i w2 hop2
        have hh : WInv fs0 w2 ∧ WFresh fs0 w2 k := by
          first | exact removeFile_ok h1 hop2 | exact removeFile_notFound h1 hop2
        obtain ⟨h2, h3⟩ := hh
        split at hr
        · rename_i w3 hop3
          obtain ⟨h4, h5⟩ := createFile_ok h2 h3 hop3
          subst hr
          exact writeNew_inv _ _ h4 h5
        · rename_i hop3; subst hr; exact inv_notFound h2 hop3
        · rename_i hop3; subst hr; exact inv_failed h2 hop3
    · rename_i hop; subst hr; exact inv_notFound h hop
    · rename_i hop; subst hr; exact inv_failed h hop

theorem rollbackAndSaveBackups_inv (ss : List Status) : ∀ {w : World} {mem : Mem} {downTo : Nat},
    WInv fs0 w → WRInv fs0 (·.1) (rollbackAndSaveBackups w mem ss downTo) := by
  induction ss with
  | nil => intro w mem d h; unfold rollbackAndSaveBackups; exact h
  | cons s rest ih =>
    intro w mem d h
    generalize hr : rollbackAndSaveBackups w mem (s :: rest) d = r
    unfold rollbackAndSaveBackups at hr
    split at hr
    · subst hr; exact h
    · split at hr
      · subst hr; exact h
      · rename_i mem1 file _
        have hb := saveBackup_inv (patchName := s.patchName) (name := s.target) (f := file) h
        split at hr
        · rename_i heq; rw [heq] at hb; subst hr; exact hb
        · rename_i w1 heq
          rw [heq] at hb
          have h1 : WInv fs0 w1 := hb
          split at hr
          · split at hr
            · subst hr; exact h1
            · rename_i newName _
              split at hr
              · subst hr; exact h1
              · rename_i nf _
                have hb2 := saveBackup_inv (patchName := s.patchName) (name := newName) (f := nf) h1
                split at hr
                · rename_i heq2; rw [heq2] at hb2; subst hr; exact hb2
                · rename_i heq2; rw [heq2] at hb2; subst hr; exact ih hb2
          · subst hr; exact ih h1

theorem rollbackAndSaveBackups_inv' {ss : List Status} {mem : Mem} {downTo : Nat}
    {r : WR (World × Mem)} (h : WInv fs0 w) (e : rollbackAndSaveBackups w mem ss downTo = r) :
    WRInv fs0 (·.1) r := e ▸ rollbackAndSaveBackups_inv ss h

theorem applyPatches_inv {cfg : Cfg} {range : List Series.Entry} (h : WInv w.fs w) :
    WRInv w.fs (·.1) (applyPatches w cfg range) := by
  generalize hr : applyPatches w cfg range = r
  unfold applyPatches at hr
  split at hr
  · subst hr; exact h
  · rename_i st final rejs hloop
    have hm : MemOK w.fs st.mem := applyLoop_ok range (memOK_nil _) hloop
    split at hr
    · subst hr; exact h
    · have hs := saveAll_inv st.mem (dirs := []) h hm
      split at hr
      · rename_i heq; rw [heq] at hs; subst hr; exact hs
      · rename_i w1 dirs heq
        rw [heq] at hs
        have hc := cleanAll_inv dirs (w := w1) hs
        split at hr
        · rename_i heq2; rw [heq2] at hc; subst hr; exact hc
        · rename_i w2 heq2
          rw [heq2] at hc
          have hj := saveRejFiles_inv rejs (w := w2) hc
          split at hr
          · rename_i heq3; rw [heq3] at hj; subst hr; exact hj
          · rename_i w3 heq3
            rw [heq3] at hj
            have h3 : WInv w.fs w3 := hj
            split at hr
            · simp only at hr
              split at hr
              · rename_i heq4
                have hb := rollbackAndSaveBackups_inv' h3 heq4
                subst hr; exact hb
              · rename_i heq4
                have hb := rollbackAndSaveBackups_inv' h3 heq4
                subst hr; exact hb
            · subst hr; exact h3

theorem saveApplied_inv {names : List Bytes} (h : WInv fs0 w) : WRInv fs0 id (saveApplied w names) := by
  generalize hr : saveApplied w names = r
  unfold saveApplied at hr
  split at hr
  · rename_i w1 hop
    have h1 := (createDirAll_ok h hop).1
    split at hr
    · rename_i w2 hop2
      obtain ⟨h2, h3⟩ := appendOpen_ok h1 (.inl rfl) hop2
      split at hr
      · subst hr; exact h2
      · split at hr
        · rename_i hop3; subst hr; exact (write_ok h2 h3 hop3).1
        · rename_i hop3; subst hr; exact inv_notFound h2 hop3
        · rename_i hop3; subst hr; exact inv_failed h2 hop3
    · rename_i hop2; subst hr; exact inv_notFound h1 hop2
    · rename_i hop2; subst hr; exact inv_failed h1 hop2
  · rename_i hop; subst hr; exact inv_notFound h hop
  · rename_i hop; subst hr; exact inv_failed h hop

theorem pushRange_inv {cfg : Cfg} {range : List Series.Entry} (h : WInv w.fs w) :
    WInv w.fs (pushRange cfg w range).2 := by
  generalize hr : pushRange cfg w range = r
  unfold pushRange at hr
  have ha := applyPatches_inv (cfg := cfg) (range := range) h
  split at hr
  · rename_i heq; rw [heq] at ha; subst hr; exact ha
  · rename_i heq; rw [heq] at ha; subst hr; exact ha
  · rename_i w1 final heq
    rw [heq] at ha
    have h1 : WInv w.fs w1 := ha
    split at hr
    · subst hr; exact h1
    · have hs := saveApplied_inv (names := (range.take final).map (·.name)) h1
      split at hr
      · rename_i heq2; rw [heq2] at hs; subst hr; exact hs
      · rename_i heq2; rw [heq2] at hs; subst hr; exact hs

theorem push_inv {cfg : Cfg} (h : WInv w.fs w) : WInv w.fs (push cfg w).2 := by
  unfold push
  split
  · exact h
  · exact h
  · exact pushRange_inv h

end RQ.Push
