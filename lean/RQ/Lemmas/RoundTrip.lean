import RQ.Lemmas.RoundTripFix
import RQ.Lemmas.RoundTripPatch
/-!
# Helper lemmas for C12: the parser inverts the writer

Layers (one file each, `RQ/Lemmas/RoundTrip*.lean`):
* `Fix`      – the writer only depends on what `SamePatch` compares (`writePatch_same`)
* `Num`      – decimal / octal numbers (`parseNumber_natDec`, `parseMode_oct6`)
* `Line`     – `parseHunkLine (writeLine t c ++ rest)`
* `Hunk`     – `findClosestMatch`, `writeBody` vs `hunkLoop`, hunk header, `parseHunk_writeHunk`, `hunksLoop_written`
* `Name`     – `parseFilename (writeName n ++ rest)`
* `Path`     – `stripPath 0 (stripPath n raw) = stripPath n raw`
* `Dispatch` – `parseMetadataLine` / `parseGitMetadataLine` / `parsePatchLine` as prefix tables
* `Loop`     – one iteration of `filePatchLoop` per kind of line
* `Inv`, `InvFile` – invariants of an accepted patch (`parsePatch_inv`)
* `Local`    – the line parsers only look at the first line (`parsePatchLine_local`)
* `File`     – a written file-patch header is read back (`filePatch_tail`)
* `Patch`    – header replay (`header_run`), sequence of file patches, `roundtrip`
-/
