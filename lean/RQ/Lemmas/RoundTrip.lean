import RQ.Lemmas.RoundTripFix
import RQ.Lemmas.RoundTripNum
import RQ.Lemmas.RoundTripLine
import RQ.Lemmas.RoundTripHunk
import RQ.Lemmas.RoundTripName
import RQ.Lemmas.RoundTripPath
/-! Helper lemmas for C12: the parser inverts the writer (numbers, names, lines, hunks, headers). -/
namespace RQ.Write
open RQ RQ.Parse

end RQ.Write
