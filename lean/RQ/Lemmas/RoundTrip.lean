import RQ.Spec.Write
/-! Helper lemmas for C12: the parser inverts the writer (numbers, names, lines, hunks, headers). -/
namespace RQ.Write
open RQ RQ.Parse

end RQ.Write
