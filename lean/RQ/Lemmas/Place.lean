import RQ.Lemmas.Phase1
/-! Helper lemmas for C02: the interleaved scan visits candidates in increasing `key` order. -/
set_option linter.unusedSectionVars false
set_option linter.unusedVariables false
namespace RQ
variable {α : Type} [DecidableEq α]

/-! ## `key` -/

theorem key_le_iff' (t x y : Int) :
    key t x ≤ key t y ↔ (x - t).natAbs < (y - t).natAbs ∨ ((x - t).natAbs = (y - t).natAbs ∧ (x = y ∨ t < x)) := by
  unfold key
  split <;> split <;> omega

theorem key_inj {t x y : Int} (h : key t x = key t y) : x = y := by
  unfold key at h
  split at h <;> split at h <;> omega

theorem key_nonneg (t x : Int) : 0 ≤ key t x := by
  unfold key; split <;> omega

theorem key_self (t : Int) : key t t = 0 := by
  unfold key; split <;> omega

/-! ## `argminKey` -/

theorem argminKey_none {t : Int} {l : List Int} : argminKey t l = none ↔ l = [] := by
  cases l with
  | nil => simp [argminKey]
  | cons x xs =>
    simp only [argminKey]
    split
    · simp
    · split <;> simp

theorem argminKey_spec {t : Int} : ∀ {l : List Int} {m : Int}, argminKey t l = some m →
    m ∈ l ∧ ∀ y ∈ l, key t m ≤ key t y := by
  intro l
  induction l with
  | nil => intro m h; simp [argminKey] at h
  | cons x xs ih =>
    intro m h
    simp only [argminKey] at h
    split at h
    · rename_i hn
      rw [argminKey_none] at hn
      subst hn
      cases h
      simp
    · rename_i y hy
      obtain ⟨hy1, hy2⟩ := ih hy
      split at h
      · rename_i hle
        cases h
        refine ⟨by simp, ?_⟩
        intro z hz
        rcases List.mem_cons.mp hz with rfl | hz
        · exact Int.le_refl _
        · exact Int.le_trans hle (hy2 z hz)
      · rename_i hle
        cases h
        refine ⟨by simp [hy1], ?_⟩
        intro z hz
        rcases List.mem_cons.mp hz with rfl | hz
        · omega
        · exact hy2 z hz

/-- the least-key element is unique, so any least-key member is what `argminKey` returns -/
theorem argminKey_unique {t : Int} {l : List Int} {x : Int} (hx : x ∈ l)
    (hmin : ∀ y ∈ l, key t x ≤ key t y) : argminKey t l = some x := by
  cases h : argminKey t l with
  | none => rw [argminKey_none] at h; subst h; simp at hx
  | some m =>
    obtain ⟨h1, h2⟩ := argminKey_spec h
    have := h2 x hx
    have := hmin m h1
    rw [key_inj (t := t) (x := m) (y := x) (by omega)]

theorem mem_allPositions {len : Nat} {p : Int} : p ∈ allPositions len ↔ 0 ≤ p ∧ p ≤ len := by
  simp only [allPositions, List.mem_map, List.mem_range]
  constructor
  · rintro ⟨i, hi, rfl⟩; omega
  · intro ⟨h1, h2⟩; exact ⟨p.toNat, by omega, by omega⟩

theorem matchesAt_mem_allPositions {needle hay : List α} {p : Int} (h : matchesAt needle hay p = true) :
    p ∈ allPositions hay.length := by
  have := matchesAt_true h
  rw [mem_allPositions]; omega

/-- the list `specPlace` minimises over -/
theorem mem_specList {v : View α} {content : List α} {p : Int} :
    p ∈ (allPositions content.length).filter
        (fun p => matchesAt v.rem content p && admissible v content.length p) ↔
    matchesAt v.rem content p = true ∧ admissible v content.length p = true := by
  rw [List.mem_filter, Bool.and_eq_true]
  constructor
  · intro h; exact h.2
  · intro h; exact ⟨matchesAt_mem_allPositions h.1, h⟩

theorem specPlace_some' {v : View α} {content : List α} {lo t : Int} (h : specPlace v content lo = some t) :
    matchesAt v.rem content t = true ∧ admissible v content.length t = true ∧
    ∀ p, matchesAt v.rem content p = true → admissible v content.length p = true →
      key (firstGuess v content.length lo) t ≤ key (firstGuess v content.length lo) p := by
  unfold specPlace at h
  obtain ⟨h1, h2⟩ := argminKey_spec h
  rw [mem_specList] at h1
  refine ⟨h1.1, h1.2, ?_⟩
  intro p hp1 hp2
  exact h2 p (mem_specList.mpr ⟨hp1, hp2⟩)

theorem specPlace_none' {v : View α} {content : List α} {lo : Int} (h : specPlace v content lo = none) :
    ∀ p, matchesAt v.rem content p = true → admissible v content.length p = false := by
  unfold specPlace at h
  rw [argminKey_none] at h
  intro p hp
  cases ha : admissible v content.length p with
  | false => rfl
  | true =>
    have : p ∈ (allPositions content.length).filter
        (fun p => matchesAt v.rem content p && admissible v content.length p) := mem_specList.mpr ⟨hp, ha⟩
    rw [h] at this
    simp at this

/-- characterisation used to identify `specPlace` with the search -/
theorem specPlace_eq_some {v : View α} {content : List α} {lo t : Int}
    (h1 : matchesAt v.rem content t = true) (h2 : admissible v content.length t = true)
    (h3 : ∀ p, matchesAt v.rem content p = true → admissible v content.length p = true →
      key (firstGuess v content.length lo) t ≤ key (firstGuess v content.length lo) p) :
    specPlace v content lo = some t := by
  unfold specPlace
  apply argminKey_unique (mem_specList.mpr ⟨h1, h2⟩)
  intro y hy
  rw [mem_specList] at hy
  exact h3 y hy.1 hy.2

theorem specPlace_eq_none {v : View α} {content : List α} {lo : Int}
    (h : ∀ p, matchesAt v.rem content p = true → admissible v content.length p = false) :
    specPlace v content lo = none := by
  unfold specPlace
  rw [argminKey_none, List.filter_eq_nil_iff]
  intro p _
  cases hm : matchesAt v.rem content p with
  | false => simp
  | true => simp [h p hm]

/-! ## the interleaved scan -/

theorem mem_up {a : Int} {n : Nat} {x : Int} : x ∈ up a n ↔ a ≤ x ∧ x < a + n := by
  induction n generalizing a with
  | zero => simp [up]
  | succ n ih => simp [up, ih]; omega

theorem mem_down {a : Int} {n : Nat} {x : Int} : x ∈ down a n ↔ a - n < x ∧ x ≤ a := by
  induction n generalizing a with
  | zero => simp [down]
  | succ n ih => simp [down, ih]; omega

/-- `find?` on a list whose keys are strictly increasing returns the minimal-key satisfying element -/
theorem find_min_of_pairwise {l : List Int} {k : Int → Int} {p : Int → Bool}
    (hs : l.Pairwise (fun a b => k a < k b)) {x : Int} (hx : l.find? p = some x) :
    ∀ y ∈ l, p y = true → k x ≤ k y := by
  induction l with
  | nil => simp at hx
  | cons a l ih =>
    rw [List.pairwise_cons] at hs
    intro y hy hp
    by_cases hpa : p a = true
    · simp [List.find?, hpa] at hx
      subst hx
      rcases List.mem_cons.mp hy with rfl | hy
      · exact Int.le_refl _
      · exact Int.le_of_lt (hs.1 y hy)
    · have hpa' : p a = false := by simpa using hpa
      simp [List.find?, hpa'] at hx
      rcases List.mem_cons.mp hy with rfl | hy
      · simp [hp] at hpa
      · exact ih hs.2 hx y hy hp

theorem mem_interleave {β : Type} {x : β} : ∀ {xs ys : List β}, x ∈ interleave xs ys ↔ x ∈ xs ∨ x ∈ ys := by
  intro xs
  induction xs with
  | nil => intro ys; simp [interleave]
  | cons a xs ih =>
    intro ys
    cases ys with
    | nil => simp [interleave]
    | cons b ys =>
      simp only [interleave, List.mem_cons, ih]
      grind

theorem interleave_sorted {β : Type} (k : β → Int) :
    ∀ (xs ys : List β) (a : Int),
    (∀ i (h : i < xs.length), k xs[i] = a + 2 * i) →
    (∀ j (h : j < ys.length), k ys[j] = a + 2 * j + 1) →
    (interleave xs ys).Pairwise (fun p q => k p < k q) := by
  intro xs
  induction xs with
  | nil =>
    intro ys a _ hy
    simp only [interleave]
    rw [List.pairwise_iff_getElem]
    intro i j hi hj hij
    rw [hy i hi, hy j hj]; omega
  | cons x xs ih =>
    intro ys a hx hy
    cases ys with
    | nil =>
      simp only [interleave]
      rw [List.pairwise_iff_getElem]
      intro i j hi hj hij
      rw [hx i hi, hx j hj]; omega
    | cons y ys =>
      have hx0 := hx 0 (by simp)
      have hy0 := hy 0 (by simp)
      simp only [List.getElem_cons_zero] at hx0 hy0
      have hxs : ∀ i (h : i < xs.length), k xs[i] = (a + 2) + 2 * i := by
        intro i hi
        have := hx (i+1) (by simp; omega)
        simp only [List.getElem_cons_succ] at this
        rw [this]; omega
      have hys : ∀ j (h : j < ys.length), k ys[j] = (a + 2) + 2 * j + 1 := by
        intro j hj
        have := hy (j+1) (by simp; omega)
        simp only [List.getElem_cons_succ] at this
        rw [this]; omega
      have hrest : ∀ z ∈ interleave xs ys, a + 2 ≤ k z := by
        intro z hz
        rcases mem_interleave.mp hz with hz | hz
        · obtain ⟨i, hi, rfl⟩ := List.getElem_of_mem hz
          rw [hxs i hi]; omega
        · obtain ⟨j, hj, rfl⟩ := List.getElem_of_mem hz
          rw [hys j hj]; omega
      simp only [interleave, List.pairwise_cons, List.mem_cons]
      refine ⟨?_, ?_, ih ys (a + 2) hxs hys⟩
      · intro z hz
        rcases hz with rfl | hz
        · omega
        · have := hrest z hz; omega
      · intro z hz
        have := hrest z hz; omega

theorem up_getElem (a : Int) : ∀ (n i : Nat) (h : i < (up a n).length), (up a n)[i] = a + i := by
  intro n
  induction n generalizing a with
  | zero => intro i h; simp [up] at h
  | succ n ih =>
    intro i h
    cases i with
    | zero => simp [up]
    | succ i => simp [up]; rw [ih]; omega

theorem down_getElem (a : Int) : ∀ (n i : Nat) (h : i < (down a n).length), (down a n)[i] = a - i := by
  intro n
  induction n generalizing a with
  | zero => intro i h; simp [down] at h
  | succ n ih =>
    intro i h
    cases i with
    | zero => simp [down]
    | succ i => simp [down]; rw [ih]; omega

theorem interleave_nil_right {β : Type} (xs : List β) : interleave xs [] = xs := by
  cases xs <;> simp [interleave]

theorem cands_sorted (t : Int) (len n : Nat) :
    (cands t len n).Pairwise (fun a b => key t a < key t b) := by
  unfold cands
  simp only
  by_cases ht : -1 ≤ t
  · have m1 : max (t + 1) 0 = t + 1 := by omega
    have m2 : max t (-1) = t := by omega
    rw [m1, m2]
    by_cases hc : t - 1 ≤ (len : Int) - n
    · have e1 : min (t - 1) ((len : Int) - n) = t - 1 := by omega
      have e2 : min t ((len : Int) - n + 1) = t := by omega
      rw [e1, e2]
      apply interleave_sorted (key t) _ _ 1
      · intro i h; rw [up_getElem]; unfold key; split <;> omega
      · intro j h; rw [down_getElem]; unfold key; split <;> omega
    · have e0 : ((len : Int) - n - t).toNat = 0 := by omega
      have e1 : min (t - 1) ((len : Int) - n) = (len : Int) - n := by omega
      rw [e0, e1]
      simp only [up, interleave]
      rw [List.pairwise_iff_getElem]
      intro i j hi hj hij
      rw [down_getElem, down_getElem]
      unfold key
      split <;> split <;> omega
  · -- the first guess is before the start of the file: only the (clamped) forward range is left
    have m1 : max (t + 1) 0 = 0 := by omega
    have m2 : max t (-1) = -1 := by omega
    have e0 : (min t ((len : Int) - n + 1)).toNat = 0 := by omega
    rw [m1, m2, e0]
    simp only [down, interleave_nil_right]
    rw [List.pairwise_iff_getElem]
    intro i j hi hj hij
    rw [up_getElem, up_getElem]
    unfold key
    split <;> split <;> omega

theorem length_interleave {β : Type} : ∀ (xs ys : List β), (interleave xs ys).length = xs.length + ys.length := by
  intro xs
  induction xs with
  | nil => intro ys; simp [interleave]
  | cons a xs ih =>
    intro ys
    cases ys with
    | nil => simp [interleave]
    | cons b ys => simp [interleave, ih ys]; omega

theorem length_up (a : Int) (n : Nat) : (up a n).length = n := by
  induction n generalizing a with
  | zero => simp [up]
  | succ n ih => simp [up, ih]

theorem length_down (a : Int) (n : Nat) : (down a n).length = n := by
  induction n generalizing a with
  | zero => simp [down]
  | succ n ih => simp [down, ih]

/-- the offset search tries at most one position per line of the file (plus one), whatever line number
the patch states and whatever offset the previous hunk had -/
theorem cands_length_le (t : Int) (len n : Nat) : (cands t len n).length ≤ len + 1 := by
  unfold cands
  simp only [length_interleave, length_up, length_down]
  omega

/-- every position other than `t` where a needle of length `n` fits is a candidate -/
theorem mem_cands {t p : Int} {len n : Nat} (h0 : 0 ≤ p) (h1 : n + p.toNat ≤ len) (hne : p ≠ t) :
    p ∈ cands t len n := by
  unfold cands
  simp only
  rw [mem_interleave, mem_up, mem_down]
  omega

/-! ## `findPlace = specPlace` -/

theorem admissible_firstGuess (v : View α) (len : Nat) (lo : Int) :
    admissible v len (firstGuess v len lo) = true := by
  unfold admissible firstGuess
  cases v.position <;> simp

theorem admissible_anchored {v : View α} {len : Nat} {lo p : Int} (hpos : v.position ≠ .middle)
    (h : admissible v len p = true) : p = firstGuess v len lo := by
  unfold admissible at h
  unfold firstGuess
  cases hp : v.position with
  | middle => exact absurd hp hpos
  | start => simpa [hp] using h
  | end_ => simpa [hp] using h

theorem findPlace_eq_specPlace (v : View α) (content : List α) (lo : Int) :
    findPlace v content lo = specPlace v content lo := by
  unfold findPlace
  simp only
  split
  · rename_i hm
    symm
    apply specPlace_eq_some hm (admissible_firstGuess v _ lo)
    intro p _ _
    rw [key_self]; exact key_nonneg _ _
  · rename_i hm
    split
    · rename_i hpos
      symm
      apply specPlace_eq_none
      intro p hp
      cases ha : admissible v content.length p with
      | false => rfl
      | true =>
        have := admissible_anchored (lo := lo) hpos ha
        subst this
        exact absurd hp hm
    · rename_i hpos
      have hmid : v.position = .middle := by simpa using hpos
      have hadm : ∀ p, admissible v content.length p = true := by
        intro p; unfold admissible; rw [hmid]
      cases hf : (cands (firstGuess v content.length lo) content.length v.rem.length).find?
          (matchesAt v.rem content) with
      | none =>
        symm
        apply specPlace_eq_none
        intro p hp
        exfalso
        have hp' := matchesAt_true hp
        rw [List.find?_eq_none] at hf
        have hne : p ≠ firstGuess v content.length lo := by
          intro e; subst e; exact hm hp
        exact hf p (mem_cands hp'.1 hp'.2.1 hne) hp
      | some x =>
        symm
        have hxm : matchesAt v.rem content x = true := List.find?_some hf
        apply specPlace_eq_some hxm (hadm x)
        intro p hp _
        have hp' := matchesAt_true hp
        have hne : p ≠ firstGuess v content.length lo := by
          intro e; subst e; exact hm hp
        exact find_min_of_pairwise (cands_sorted _ _ _) hf p (mem_cands hp'.1 hp'.2.1 hne) hp

/-! ## fuzz monotonicity -/

theorem matchesAt_iff {needle hay : List α} {p : Int} :
    matchesAt needle hay p = true ↔
      0 ≤ p ∧ needle.length + p.toNat ≤ hay.length ∧ needle <+: hay.drop p.toNat := by
  unfold matchesAt
  split
  · simp; omega
  · split
    · simp; omega
    · rw [List.prefix_iff_eq_take]
      simp only [decide_eq_true_eq]
      constructor
      · intro h; exact ⟨by omega, by omega, h.symm⟩
      · intro h; exact h.2.2.symm

theorem prefix_drop {l₁ l₂ : List α} (h : l₁ <+: l₂) (n : Nat) : l₁.drop n <+: l₂.drop n := by
  obtain ⟨t, rfl⟩ := h
  rw [List.drop_append]
  exact List.prefix_append _ _

theorem trim_prefix (l : List α) {pf sf pf' sf' : Nat} (h1 : pf ≤ pf') (h2 : sf ≤ sf') :
    trim l pf' sf' <+: (trim l pf sf).drop (pf' - pf) := by
  unfold trim
  rw [List.drop_drop]
  have e : pf + (pf' - pf) = pf' := by omega
  rw [e]
  apply prefix_drop
  exact List.take_prefix_take_left (by omega)

theorem matchesAt_trim_mono {l hay : List α} {pf sf pf' sf' : Nat} {p : Int}
    (h1 : pf ≤ pf') (h2 : sf ≤ sf') (h3 : pf' + sf ≤ l.length)
    (hm : matchesAt (trim l pf sf) hay p = true) :
    matchesAt (trim l pf' sf') hay (p + ((pf' - pf : Nat) : Int)) = true := by
  rw [matchesAt_iff] at hm ⊢
  obtain ⟨h0, hlen, hpre⟩ := hm
  rw [trim_length] at hlen
  have e : (p + ((pf' - pf : Nat) : Int)).toNat = p.toNat + (pf' - pf) := by omega
  refine ⟨by omega, ?_, ?_⟩
  · rw [trim_length, e]; omega
  · rw [e, ← List.drop_drop]
    exact (trim_prefix l h1 h2).trans (prefix_drop hpre _)

theorem admissible_iff {v : View α} {len : Nat} {p : Int} :
    admissible v len p = true ↔
      (v.pre < v.suf ∧ v.addLine = 0 ∧ p = v.remLine) ∨
      (¬ (v.pre < v.suf ∧ v.addLine = 0) ∧ v.pre > v.suf ∧ p = (len : Int) - v.rem.length) ∨
      (¬ (v.pre < v.suf ∧ v.addLine = 0) ∧ ¬ v.pre > v.suf) := by
  unfold admissible View.position
  split
  · rename_i hpos
    split at hpos
    · simp_all
    · split at hpos <;> simp at hpos
  · rename_i hpos
    split at hpos
    · simp at hpos
    · split at hpos
      · simp_all
      · simp at hpos
  · rename_i hpos
    split at hpos
    · simp at hpos
    · split at hpos
      · simp at hpos
      · simp_all

/-- the old side of the hunk in direction `d` -/
def Hunk.side (h : Hunk α) (d : Dir) : List α := match d with | .fwd => h.rem | .rev => h.add

theorem view_rem (h : Hunk α) (d : Dir) (f : Nat) :
    (view h d f).rem = trim (h.side d) (h.preFuzz f) (h.sufFuzz f) := by cases d <;> rfl
theorem view_pre (h : Hunk α) (d : Dir) (f : Nat) : (view h d f).pre = h.pre - h.preFuzz f := by
  cases d <;> rfl
theorem view_suf (h : Hunk α) (d : Dir) (f : Nat) : (view h d f).suf = h.suf - h.sufFuzz f := by
  cases d <;> rfl
theorem view_remLine (h : Hunk α) (d : Dir) (f : Nat) : (view h d f).remLine = (view h d 0).remLine := by
  cases d <;> rfl
theorem view_addLine (h : Hunk α) (d : Dir) (f : Nat) : (view h d f).addLine = (view h d 0).addLine := by
  cases d <;> rfl
theorem side_length {h : Hunk α} (hw : h.WFlen) (d : Dir) : h.pre + h.suf ≤ (h.side d).length := by
  cases d
  · exact hw.1
  · exact hw.2

theorem adm_arith (pre suf r L len : Nat) (t rl al : Int) (hL : pre + suf ≤ L)
    (ha : (pre - (pre - r) < suf - (suf - r) ∧ al = 0 ∧ t = rl) ∨
      (¬ (pre - (pre - r) < suf - (suf - r) ∧ al = 0) ∧ pre - (pre - r) > suf - (suf - r) ∧
        t = (len : Int) - ((L - (suf - r) - (pre - r) : Nat) : Int)) ∨
      (¬ (pre - (pre - r) < suf - (suf - r) ∧ al = 0) ∧ ¬ pre - (pre - r) > suf - (suf - r))) :
    (pre - (pre - (r-1)) < suf - (suf - (r-1)) ∧ al = 0 ∧ t + ((pre - (r-1) - (pre - r) : Nat) : Int) = rl) ∨
      (¬ (pre - (pre - (r-1)) < suf - (suf - (r-1)) ∧ al = 0) ∧ pre - (pre - (r-1)) > suf - (suf - (r-1)) ∧
        t + ((pre - (r-1) - (pre - r) : Nat) : Int) = (len : Int) - ((L - (suf - (r-1)) - (pre - (r-1)) : Nat) : Int)) ∨
      (¬ (pre - (pre - (r-1)) < suf - (suf - (r-1)) ∧ al = 0) ∧ ¬ pre - (pre - (r-1)) > suf - (suf - (r-1))) := by
  rcases Nat.eq_zero_or_pos r with h0 | h0
  · subst h0; simp at ha ⊢
  · rcases Nat.lt_or_ge pre r with h1 | h1 <;> rcases Nat.lt_or_ge suf r with h2 | h2
    · have e1 : pre - r = 0 := by omega
      have e2 : suf - r = 0 := by omega
      have e3 : pre - (r-1) = 0 := by omega
      have e4 : suf - (r-1) = 0 := by omega
      simp only [e1, e2, e3, e4] at ha ⊢
      omega
    · have e1 : pre - r = 0 := by omega
      have e3 : pre - (r-1) = 0 := by omega
      simp only [e1, e3] at ha ⊢
      omega
    · have e2 : suf - r = 0 := by omega
      have e4 : suf - (r-1) = 0 := by omega
      simp only [e2, e4] at ha ⊢
      omega
    · omega

theorem specPlace_mono (h : Hunk α) (d : Dir) (content : List α) (lo : Int) (f : Nat) (hw : h.WFlen)
    (hs : (specPlace (view h d f) content lo).isSome) :
    (specPlace (view h d (f+1)) content lo).isSome := by
  cases hs1 : specPlace (view h d f) content lo with
  | none => simp [hs1] at hs
  | some t =>
    obtain ⟨hm, ha, _⟩ := specPlace_some' hs1
    cases hs2 : specPlace (view h d (f+1)) content lo with
    | some _ => rfl
    | none =>
      exfalso
      have hnone := specPlace_none' hs2 (t + ((h.preFuzz (f+1) - h.preFuzz f : Nat) : Int))
      have hS := side_length hw d
      have hpf : h.preFuzz f ≤ h.preFuzz (f+1) := by unfold Hunk.preFuzz; omega
      have hsf : h.sufFuzz f ≤ h.sufFuzz (f+1) := by unfold Hunk.sufFuzz; omega
      have hpf' := preFuzz_le h (f+1)
      have hsf' := sufFuzz_le h f
      rw [view_rem] at hm
      have hm' := matchesAt_trim_mono hpf hsf (by omega) hm
      rw [← view_rem] at hm'
      have hna := hnone hm'
      have hya : admissible (view h d (f+1)) content.length
          (t + ((h.preFuzz (f+1) - h.preFuzz f : Nat) : Int)) = true := by
        rw [admissible_iff] at ha ⊢
        simp only [view_pre, view_suf, view_rem, trim_length, view_remLine h d (f+1), view_addLine h d (f+1),
          view_remLine h d f, view_addLine h d f] at ha ⊢
        unfold Hunk.preFuzz Hunk.sufFuzz at ha ⊢
        have er : max h.pre h.suf - (f + 1) = (max h.pre h.suf - f) - 1 := by omega
        rw [er]
        exact adm_arith _ _ _ _ _ _ _ _ hS ha
      rw [hya] at hna
      simp at hna

theorem specPlace_mono_le (h : Hunk α) (d : Dir) (content : List α) (lo : Int) (hw : h.WFlen) (f : Nat)
    (hs : (specPlace (view h d f) content lo).isSome) :
    ∀ g, f ≤ g → (specPlace (view h d g) content lo).isSome := by
  intro g hg
  induction g with
  | zero => have : f = 0 := by omega
            subst this; exact hs
  | succ g ih =>
    by_cases e : f = g + 1
    · subst e; exact hs
    · exact specPlace_mono h d content lo g hw (ih (by omega))

/-! ## the fuzz loop -/

theorem specPlace_none_of_long {v : View α} {content : List α} (lo : Int)
    (h : v.rem.length > content.length) : specPlace v content lo = none := by
  apply specPlace_eq_none
  intro p hp
  have := matchesAt_true hp
  omega

/-- `try_apply_hunk` on an existing file, in terms of the brute-force placement -/
theorem tryApply_eq (v : View α) (content : List α) (lo lf : Int) :
    tryApply v content false lo lf =
      match specPlace v content lo with
      | none => .failed .noMatch
      | some t =>
        if t + v.pre ≤ lf then .failed .misordered
        else .applied t t (t - v.remLine) ((v.add.length : Int) - v.rem.length) v.fuzz := by
  unfold tryApply
  simp only [Bool.false_eq_true, if_false]
  split
  · rename_i hlen
    rw [specPlace_none_of_long lo hlen]
  · rw [findPlace_eq_specPlace]
    cases specPlace v content lo <;> rfl

theorem tryApply_deleted (v : View α) (content : List α) (lo lf : Int) :
    tryApply v content true lo lf = .failed .noFile := by
  simp [tryApply]

theorem acceptAt_eq (h : Hunk α) (d : Dir) (content : List α) (lo lf : Int) (f : Nat) :
    acceptAt h d content lo lf f = (tryApply (view h d f) content false lo lf).isApplied := by
  unfold acceptAt
  rw [tryApply_eq]
  cases specPlace (view h d f) content lo with
  | none => rfl
  | some t =>
    simp only
    split <;> simp_all [Rep.isApplied]

theorem levelLoop_none_last {h : Hunk α} {d : Dir} {content : List α} {deleted : Bool} {lo lf : Int} :
    ∀ {k f : Nat} {last r : Rep},
    levelLoop h d content deleted lo lf (k+1) f last = (r, none) →
    r = tryApply (view h d (f + k)) content deleted lo lf := by
  intro k
  induction k with
  | zero =>
    intro f last r hh
    simp only [levelLoop] at hh
    split at hh
    · simp at hh
    · simp only [Prod.mk.injEq, and_true] at hh
      exact hh.symm
  | succ k ih =>
    intro f last r hh
    rw [levelLoop] at hh
    split at hh
    · simp at hh
    · have := ih hh
      rw [this]
      congr 2
      omega

theorem hunkOK_levelLoop (h : Hunk α) (d : Dir) (F : Nat) (content : List α) (deleted : Bool)
    (lo lf : Int) (hw : h.WFlen) :
    hunkOK h d F content deleted lo lf
      (levelLoop h d content deleted lo lf (min F h.maxFuzz + 1) 0 .skipped).1 = true := by
  cases hres : levelLoop h d content deleted lo lf (min F h.maxFuzz + 1) 0 .skipped with
  | mk r o =>
  cases o with
  | some p =>
    obtain ⟨lo', lf'⟩ := p
    obtain ⟨line, rb, off, diff, fz, rfl, _, hfz, htry, _, _, hprev⟩ := levelLoop_some hres
    obtain ⟨hdel, hfp, hfr, _, hoff, hdiff, _⟩ := tryApply_applied htry
    subst hdel
    rw [findPlace_eq_specPlace] at hfp
    simp only [hunkOK, Bool.and_eq_true, Bool.not_eq_true', decide_eq_true_eq, beq_iff_eq,
      List.all_eq_true, List.mem_range, decide_eq_false_iff_not, Bool.not_false]
    refine ⟨⟨⟨⟨⟨⟨?_, ?_⟩, hfp⟩, hfr⟩, hoff⟩, hdiff⟩, ?_⟩
    · trivial
    · omega
    · intro g hg
      rw [acceptAt_eq]
      exact hprev g (by omega) hg
  | none =>
    have hlast := levelLoop_none_last hres
    obtain ⟨_, hall⟩ := levelLoop_none hres rfl
    simp only [Nat.zero_add] at hlast
    subst hlast
    cases deleted with
    | true => rw [tryApply_deleted]; rfl
    | false =>
      simp only
      have hL := hall (min F h.maxFuzz) (by omega) (by omega)
      rw [tryApply_eq] at hL ⊢
      cases hsp : specPlace (view h d (min F h.maxFuzz)) content lo with
      | none =>
        simp only [hunkOK, Bool.and_eq_true, beq_iff_eq,
          List.all_eq_true, List.mem_range, Bool.not_false, true_and]
        intro g hg
        cases hg2 : specPlace (view h d g) content lo with
        | none => rfl
        | some t =>
          have := specPlace_mono_le h d content lo hw g (by simp [hg2]) (min F h.maxFuzz) (by omega)
          simp [hsp] at this
      | some t =>
        rw [hsp] at hL
        simp only at hL ⊢
        split
        · simp only [hunkOK, Bool.and_eq_true, Bool.not_eq_true',
            List.all_eq_true, List.mem_range, Bool.not_false, true_and]
          refine ⟨?_, by simp [hsp]⟩
          intro g hg
          rw [acceptAt_eq]
          exact hall g (by omega) (by omega)
        · rename_i hn
          simp [hn, Rep.isApplied] at hL

/-! ## all hunks of a file patch -/

theorem hunkOK_applied_rb (h : Hunk α) (d : Dir) (F : Nat) (content : List α) (deleted : Bool)
    (lo lf line rb rb' off diff : Int) (fz : Nat) :
    hunkOK h d F content deleted lo lf (.applied line rb off diff fz) =
      hunkOK h d F content deleted lo lf (.applied line rb' off diff fz) := rfl

theorem reportsOK_setRb (d : Dir) (F : Nat) (content : List α) (deleted : Bool) :
    ∀ (hs : List (Hunk α)) (reps : List Rep) (mo lo lf : Int),
      reportsOK d F content deleted hs (setRb reps mo) lo lf = reportsOK d F content deleted hs reps lo lf := by
  intro hs
  induction hs with
  | nil =>
    intro reps mo lo lf
    cases reps with
    | nil => rfl
    | cons r rs => cases r <;> simp [setRb, reportsOK]
  | cons h hs ih =>
    intro reps mo lo lf
    cases reps with
    | nil => rfl
    | cons r rs =>
      cases r with
      | applied line rb off diff fz =>
        simp only [setRb, reportsOK, ih]
        rw [hunkOK_applied_rb]
      | failed r => simp only [setRb, reportsOK, ih]
      | skipped => simp only [setRb, reportsOK, ih]

theorem reportsOK_phase1 (d : Dir) (F : Nat) (content : List α) (deleted : Bool) :
    ∀ (hs : List (Hunk α)) (lo lf : Int), (∀ h ∈ hs, h.WFlen) →
      reportsOK d F content deleted hs (phase1 d F content deleted hs lo lf) lo lf = true := by
  intro hs
  induction hs with
  | nil => intro _ _ _; rfl
  | cons h hs ih =>
    intro lo lf hw
    have hok := hunkOK_levelLoop h d F content deleted lo lf (hw h (by simp))
    have ih' := fun lo lf => ih lo lf (fun x hx => hw x (by simp [hx]))
    simp only [phase1]
    split
    · rename_i r lo' lf' heq
      rw [heq] at hok
      obtain ⟨line, rb, off, diff, fz, rfl, _, _, _, rfl, rfl, _⟩ := levelLoop_some heq
      simp only [reportsOK, Bool.and_eq_true]
      exact ⟨hok, ih' _ _⟩
    · rename_i r heq
      rw [heq] at hok
      have hna := (levelLoop_none heq rfl).1
      cases r with
      | applied => simp [Rep.isApplied] at hna
      | failed _ => simp only [reportsOK, Bool.and_eq_true]; exact ⟨hok, ih' _ _⟩
      | skipped => simp only [reportsOK, Bool.and_eq_true]; exact ⟨hok, ih' _ _⟩

theorem reportsOK_applyModify (hs : List (Hunk α)) (d : Dir) (F : Nat) (f f' : FileSt α) (rep : Report)
    (hw : ∀ h ∈ hs, h.WFlen) (h : applyModify hs d F .normal f = some (f', rep)) :
    reportsOK d F f.content f.deleted hs rep.reps 0 (-1) = true := by
  unfold applyModify at h
  simp only at h
  have hfit := phase1_fits d F f.content f.deleted hs 0 (-1) hw
  have hord := phase1_ordered d F f.content f.deleted hs 0 (-1) 0 hw (by omega) (by omega)
  have h2 := phase2_eq d hs (phase1 d F f.content f.deleted hs 0 (-1)) [] f.content 0 0 hfit
    (by simpa using hord) (by simp)
  simp only [List.nil_append] at h2
  rw [h2] at h
  simp only [Option.some.injEq, Prod.mk.injEq] at h
  obtain ⟨_, rfl⟩ := h
  simp only
  rw [reportsOK_setRb]
  exact reportsOK_phase1 d F f.content f.deleted hs 0 (-1) hw

theorem view_rem_zero (h : Hunk α) (d : Dir) :
    (view h d 0).rem = (match d with | .fwd => h.rem | .rev => h.add) := by
  have e1 : h.preFuzz 0 = 0 := by unfold Hunk.preFuzz; omega
  have e2 : h.sufFuzz 0 = 0 := by unfold Hunk.sufFuzz; omega
  cases d <;> simp [view, e1, e2, trim]

end RQ
