import RQ.Lemmas.Tight
import RQ.Props.C05
import RQ.Props.C09
/-!
# The bridge: the disk the driver model leaves = the specification's tree, at EVERY path outside `.pc`

`Abs.C05_disk_is_oracle` compares the disk after `applyPatches` with the oracle's tree at the paths of *readable names*.
Here the comparison is extended to every path outside `.pc` (`fileAt_disk_eq_spec`, step S4 of the bridge plan):

* a path that is the path of a readable name (a cache entry of the driver, or a name a patch mentions that
  `Abs.look` can read): both sides hold the file of the abstract overlay (`Disk.flushView_look`, `Inv.fileAt_eq`);
* a path no patch mentions: both sides keep the regular file of the starting tree (`flushView_of_no_entry`,
  `Inv.files`);
* a path a patch mentions but that cannot be read in the starting tree (it is a directory there, or lies below a
  regular file): the driver never gets a cache entry for it, and the specification never creates a regular file there:
  a directory that no name lies below stays (`Inv.dirs0`), and below a regular file of the starting tree nothing is
  ever created — that is the new invariant `Keep` (carried through `applyRangeTree` without the simulation: a
  `storeTree` that leaves a regular file at `k` had `fileOnPath k = false` before, `storeTree_isFile_path`).

`WFo` of the *starting* tree is used exactly once: a path below a regular file holds nothing at the start.

Then `bridge_of_tight` (the hypothesis `hbridge` of `Compose.C09_disk_composes_of_bridge`) from S1/S2/S3 taken as
hypotheses, and `disk_composes_of_tight`: two consecutive runs of the driver model against one run of the
specification.
-/
namespace RQ.Tight
open RQ RQ.Push RQ.Spec RQ.Flush RQ.Agree RQ.Compose RQ.Parse RQ.Write
open RQ.Disk (viewOf)

/-! ## a regular file is only ever created where no regular file is on the way -/

theorem createFile_ok_path {fs fs' : FS} {k : Key} (h : fs.createFile k = .ok fs') : fs.fileOnPath k = false := by
  unfold FS.createFile at h
  split at h
  · cases h
  · split at h
    · cases h
    · rename_i hfp
      simpa using hfp

theorem removeFile_ok_path {fs fs' : FS} {k : Key} (h : fs.removeFile k = .ok fs') : fs.fileOnPath k = false := by
  unfold FS.removeFile at h
  split at h
  · cases h
  · rename_i hfp
    simpa using hfp

/-- if `storeTree` leaves a regular file at the path of the name, no regular file was on the way to it before -/
theorem storeTree_isFile_path {fs fs' : FS} {name : Bytes} {f : FileSt Bytes} {k : Key}
    (hk : safeKey name = some k) (h : storeTree fs name f = .ok fs') (hf : IsFile (fs'.lookup k)) :
    fs.fileOnPath k = false := by
  rw [storeTree_eq, hk] at h
  simp only at h
  cases hs : (fs.lookup k).isSome with
  | true =>
    rw [hs] at h
    simp only [if_true] at h
    cases hr : fs.removeFile k with
    | error e => rw [hr] at h; cases h
    | ok fs1 => exact removeFile_ok_path hr
  | false =>
    rw [hs] at h
    simp only [Bool.false_eq_true, if_false] at h
    unfold storeRest at h
    split at h
    · cases h
      simp only [Bool.false_eq_true, if_false] at hf
      have hl : fs.lookup k = none := by simpa using hs
      rw [hl] at hf
      exact hf.elim
    · split at h
      · cases h
      · rename_i fs2 h2
        split at h
        · cases h
        · rename_i fs3 h3
          rw [← (createDirAll_parent_dirChange h2).near.fileOnPath_eq (spre_irrefl k)]
          exact createFile_ok_path h3

/-! ## `Keep`: regular files away from the names stay; below a regular file of the starting tree nothing appears -/

/-- `fs` (a tree the specification goes through) against the starting tree `fs0`, `ks` the paths of the names:
paths outside `ks` are regular files in `fs` exactly when they were in `fs0`, and a path in `ks` that lies below a
regular file of `fs0` holds no regular file -/
structure Keep (ks : List Key) (fs0 fs : FS) : Prop where
  out : ∀ r, r ∉ ks → (IsFile (fs.lookup r) ↔ IsFile (fs0.lookup r))
  blocked : ∀ q, q ∈ ks → ¬ isPcKey q → fs0.fileOnPath q = true → ¬ IsFile (fs.lookup q)

section keep
variable {ks : List Key} {fs0 : FS}

theorem Keep.fileOnPath_eq {fs : FS} (h : Keep ks fs0 fs) (hpf : PF ks) {k : Key} (hk : k ∈ ks) :
    fs.fileOnPath k = fs0.fileOnPath k :=
  fileOnPath_congr (fun q hs => h.out q (fun hq => hpf q hq k hk hs))

theorem keep_store (hpf : PF ks) {fs fs' : FS} {name : Bytes} {f : FileSt Bytes} (h : Keep ks fs0 fs)
    (hn : ∀ k, safeKey name = some k → k ∈ ks) (hst : storeTree fs name f = .ok fs') : Keep ks fs0 fs' := by
  obtain ⟨k, hk, hnear⟩ := storeTree_near hst
  have hm := hn k hk
  constructor
  · intro r hr
    have hne : r ≠ k := fun e => hr (e ▸ hm)
    rw [hnear.isFile_iff hne]
    exact h.out r hr
  · intro q hq hpc hfp hfile
    by_cases e : q = k
    · subst e
      have h1 := storeTree_isFile_path hk hst hfile
      rw [h.fileOnPath_eq hpf hq, hfp] at h1
      cases h1
    · rw [hnear.isFile_iff e] at hfile
      exact h.blocked q hq hpc hfp hfile

theorem keep_runPlan (hpf : PF ks) {fs : FS} {pl : FPPlan} {r : FPResult} (h : Keep ks fs0 fs)
    (hn : ∀ n ∈ planNames pl, ∀ k, safeKey n = some k → k ∈ ks) (hr : runPlan fs pl = .ok r) :
    Keep ks fs0 r.fs := by
  cases pl with
  | refuse => cases hr
  | keep => simp only [runPlan] at hr; cases hr; exact h
  | store target f ok rej touched =>
    simp only [runPlan] at hr
    split at hr
    · cases hr
    · rename_i fs1 h1
      cases hr
      exact keep_store hpf h (hn target (by simp [planNames])) h1
  | move target f0 newName f ok rej touched =>
    simp only [runPlan] at hr
    split at hr
    · cases hr
    · rename_i fs1 h1
      split at hr
      · cases hr
      · rename_i fs2 h2
        cases hr
        exact keep_store hpf (keep_store hpf h (hn target (by simp [planNames])) h1)
          (hn newName (by simp [planNames])) h2

theorem keep_applyFP (hpf : PF ks) {fs : FS} {cfg : Cfg} {entry : Series.Entry} {fp : PFilePatch} {r : FPResult}
    (h : Keep ks fs0 fs) (hn : NamesSat (fun k => k ∈ ks) fp) (hr : applyFPTree fs cfg entry fp = .ok r) :
    Keep ks fs0 r.fs := by
  rw [applyFPTree_eq] at hr
  exact keep_runPlan hpf h (fun n hm => hn n (planNames_sub hm)) hr

theorem keep_applyPatch (hpf : PF ks) {cfg : Cfg} {entry : Series.Entry} : ∀ (fps : List PFilePatch),
    (∀ fp ∈ fps, NamesSat (fun k => k ∈ ks) fp) → ∀ (acc r : PatchResult), Keep ks fs0 acc.fs →
    applyPatchTree cfg entry fps acc = .ok r → Keep ks fs0 r.fs := by
  intro fps
  induction fps with
  | nil => intro _ acc r h hr; unfold applyPatchTree at hr; cases hr; exact h
  | cons fp fps ih =>
    intro hn acc r h hr
    unfold applyPatchTree at hr
    split at hr
    · cases hr
    · rename_i r1 h1
      exact ih (fun fp' hm => hn fp' (List.mem_cons_of_mem _ hm)) _ _
        (keep_applyFP hpf h (hn fp (List.mem_cons_self ..)) h1) hr

theorem keep_applyRange (hpf : PF ks) {cfg : Cfg} {orig : FS} : ∀ (range : List Series.Entry),
    (∀ e ∈ range, ∀ patch, patchOf orig cfg e = some patch → ∀ fp ∈ patch.fps, NamesSat (fun k => k ∈ ks) fp) →
    ∀ (p p' : Progress), Keep ks fs0 p.fs → applyRangeTree cfg orig range p = .ok p' → Keep ks fs0 p'.fs := by
  intro range
  induction range with
  | nil => intro _ p p' h hr; unfold applyRangeTree at hr; cases hr; exact h
  | cons entry rest ih =>
    intro hn p p' h hr
    rw [applyRangeTree_cons] at hr
    split at hr
    · cases hr
    · rename_i patch hp
      split at hr
      · cases hr
      · rename_i r hr1
        have h1 := keep_applyPatch hpf patch.fps (hn entry (List.mem_cons_self ..) patch hp) _ _ h hr1
        split at hr
        · exact ih (fun e hm => hn e (List.mem_cons_of_mem _ hm)) _ _ h1 hr
        · cases hr; exact h

end keep

/-! ## small facts -/

/-- outside `.pc` of a tree whose nodes have directories as parents: a path below a regular file holds nothing -/
theorem WFo.lookup_none {fs : FS} (h : WFo fs) {k : Key} (hk : ¬ isPcKey k) (hfp : fs.fileOnPath k = true) :
    fs.lookup k = none := by
  cases hl : fs.lookup k with
  | none => rfl
  | some n =>
    exfalso
    have hfalse : fs.fileOnPath k = false := by
      rw [fileOnPath_false_iff]
      intro q hs hq hf
      have hpos : 0 < q.length := Nat.pos_of_ne_zero (fun e => hq (List.length_eq_zero_iff.mp e))
      have hd := h k hk n hl q.length hpos hs.1
      rw [hs.2] at hd
      rw [hd] at hf
      exact hf
    rw [hfalse] at hfp
    cases hfp

theorem keep_init {ks : List Key} {fs : FS} (h : WFo fs) : Keep ks fs fs where
  out := fun _ _ => Iff.rfl
  blocked := fun q _ hpc hfp hf => by
    rw [h.lookup_none hpc hfp] at hf
    exact hf

/-- a path in `rangeKeys` is the path of a stripped name -/
theorem mem_rangeKeys {fs : FS} {cfg : Cfg} {range : List Series.Entry} {k : Key}
    (h : k ∈ rangeKeys fs cfg range) : ∃ n, Comp.cur ∉ components n ∧ safeKey n = some k := by
  unfold rangeKeys at h
  rw [List.mem_flatMap] at h
  obtain ⟨entry, _, h⟩ := h
  cases hp : patchOf fs cfg entry with
  | none => rw [hp] at h; simp at h
  | some patch =>
    rw [hp] at h
    simp only at h
    rw [List.mem_flatMap] at h
    obtain ⟨fp, hfp, h⟩ := h
    rw [List.mem_filterMap] at h
    obtain ⟨n, hn, hk⟩ := h
    obtain ⟨bytes, hparse⟩ := patchOf_parse hp
    refine ⟨n, Disk.parsePatch_noCur hparse fp hfp n ?_, hk⟩
    rw [List.mem_append] at hn
    rcases hn with hn | hn
    · left; simpa using hn
    · right; simpa using hn

/-- a name that has a cache entry is readable in the overlay of the cache -/
theorem look_of_entry {mem : Mem} (fs : FS) {e : List Comp × Bytes × FileSt Bytes} (he : e ∈ mem)
    (h1 : e.1 = components e.2.1) : ∃ a, Abs.look (Abs.ofMem mem) fs e.2.1 = .ok a := by
  rw [Abs.look_ofMem]
  unfold Mem.get
  cases hfind : mem.find? (fun e' => e'.1 == components e.2.1) with
  | none =>
    rw [List.find?_eq_none] at hfind
    exact absurd (by simp [h1]) (hfind e he)
  | some e' => exact ⟨_, rfl⟩

/-- why a name cannot be read: a regular file on the way, a directory at the path, or the working directory -/
theorem loadTree_err_cases {fs : FS} {name : Bytes} {k : Key} {u : Unit} (hk : safeKey name = some k)
    (h : loadTree fs name = .error u) : fs.fileOnPath k = true ∨ fs.lookup k = some .dir ∨ k = [] := by
  unfold loadTree at h
  rw [hk] at h
  simp only at h
  cases hr : fs.readFile k with
  | ok x => rw [hr] at h; cases h
  | error e =>
    cases e with
    | notFound => rw [hr] at h; cases h
    | other =>
      unfold FS.readFile at hr
      split at hr
      · rename_i hfp; exact .inl hfp
      · split at hr
        · cases hr
        · rename_i hl; exact .inr (.inl hl)
        · split at hr
          · rename_i h0; exact .inr (.inr (by simpa using h0))
          · cases hr

/-! ## S4: the regular files agree at every path outside `.pc` -/

/-- **S4.**  Under the hypotheses of `Abs.C05_disk_is_oracle` with the whole range applied, and a starting tree whose
nodes outside `.pc` have directories as parents (`WFo`): the disk the driver model leaves and the tree of the
specification hold the same regular file (content, permission bits) or no regular file at EVERY path outside `.pc`.
(`Compose.Clean` is not needed for this step.) -/
theorem fileAt_disk_eq_spec (w w1 : World) (cfg : Cfg) (r1 : List Series.Entry)
    (hf : w.faultAt = none) (hdry : cfg.dryRun = false)
    (hpf : PrefixFree w.fs cfg r1) (hterm : ∀ t' ∈ reached w.fs cfg r1 [], TreeTerminated t')
    (hwf : WFo w.fs) (h : applyPatches w cfg r1 = .ok (w1, r1.length)) :
    ∀ k, ¬ isPcKey k → fileAt w1.fs k = fileAt (specRun cfg w.fs r1).fs k := by
  intro k hk
  cases hloop : applyLoop w.fs cfg r1 0 {} with
  | error e =>
    unfold applyPatches at h
    rw [hloop] at h
    cases h
  | ok r =>
    obtain ⟨st, final, rejs⟩ := r
    have href := Disk.apply_refines w.fs cfg r1
    rw [hloop] at href
    cases hspec : Abs.applyRange w.fs cfg r1 0 [] with
    | error e =>
      rw [hspec] at href
      exact href.elim
    | ok r' =>
      obtain ⟨t, k', rejs'⟩ := r'
      rw [hspec] at href
      obtain ⟨hk', hrejs, hsame⟩ := href
      subst hk' hrejs
      have hgood : Disk.MemGood st.mem := Disk.applyLoop_good r1 Disk.memGood_nil hloop
      obtain ⟨hkf, htree⟩ := applyPatches_tree w w1 cfg r1 st final r1.length rejs hf hdry hloop
        (Disk.keysDistinct_of_good hgood) h
      subst hkf
      -- the specification's run, with the representation invariant
      have hnames : ∀ entry ∈ r1, ∀ patch, patchOf w.fs cfg entry = some patch → ∀ fp ∈ patch.fps,
          NamesIn (rangeKeys w.fs cfg r1) fp := fun entry he patch hp fp hfp => namesIn_rangeKeys he hp hfp
      have hsim := range_sim (ks := rangeKeys w.fs cfg r1) (fs0 := w.fs) hdry hpf r1 0 [] (start w.fs) hnames
        (inv_init _ w.fs) rfl rfl rfl (fun t' ht' => lookNormal_of_terminated (hterm t' ht'))
      rw [hspec] at hsim
      obtain ⟨p, hp, hpk, hprej, _, hinv⟩ := hsim
      have hrej0 : rejs = [] := by
        obtain ⟨_, _, h3⟩ := applyRangeTree_k cfg w.fs r1 _ _ hp
        have h4 := (h3 (by rw [hpk]; simp [start])).1
        rw [hprej] at h4
        simpa [start] using h4
      subst hrej0
      have hkeep : Keep (rangeKeys w.fs cfg r1) w.fs p.fs :=
        keep_applyRange hpf r1 (fun e he patch hpt fp hfp n hn k' hk' => (hnames e he patch hpt fp hfp n hn).2 k' hk')
          (start w.fs) p (keep_init hwf) hp
      have hpc : PcOnly p.fs (specRun cfg w.fs r1).fs := by
        have h5 := run_outside hdry hp
        rw [hprej] at h5
        simpa [afterRejects, putRejects] using h5
      rw [fileAt_congr (hpc k hk)]
      have hnr : ¬ isRejKey [] k := fun ⟨r, hr, _⟩ => by cases hr
      rw [htree k hnr hk]
      by_cases hname : ∃ n a, Comp.cur ∉ components n ∧ safeKey n = some k ∧ Abs.look t w.fs n = .ok a
      · -- the path of a readable name: both sides hold the file of the overlay
        obtain ⟨n, a, hc, hkn, hl⟩ := hname
        rw [hinv.fileAt_eq hc hkn hl]
        exact Disk.flushView_look hc hkn hgood.nocur (by rw [hsame hdry n]; exact hl)
      · -- no readable name: no cache entry, the driver leaves the path alone
        have hnone : ∀ e ∈ st.mem, safeKey e.2.1 ≠ some k := by
          intro e he hke
          apply hname
          obtain ⟨e1, e2⟩ := hgood.nocur e he
          have hc : Comp.cur ∉ components e.2.1 := e1 ▸ e2
          obtain ⟨a, ha⟩ := look_of_entry w.fs he e1
          exact ⟨e.2.1, a, hc, hke, by rw [← hsame hdry]; exact ha⟩
        rw [flushView_of_no_entry hnone]
        by_cases hm : k ∈ rangeKeys w.fs cfg r1
        · obtain ⟨n, hc, hkn⟩ := mem_rangeKeys hm
          cases hl : Abs.look t w.fs n with
          | ok a => exact absurd ⟨n, a, hc, hkn, hl⟩ hname
          | error u =>
            rcases loadTree_err_cases hkn (look_err hl) with hfp | hd | h0
            · rw [fileAt_of_lookup_none (hwf.lookup_none hk hfp)]
              exact (fileAt_eq_none_iff.mpr (dirOrNone_of_not_isFile (hkeep.blocked k hm hk hfp))).symm
            · rw [fileAt_of_lookup_dir hd,
                fileAt_of_lookup_dir (hinv.dirs0 k hd (fun k' hk' => hpf k hm k' hk'))]
            · exact absurd h0 (key_ne_nil hc hkn)
        · by_cases hfile : IsFile (p.fs.lookup k) ∨ IsFile (w.fs.lookup k)
          · exact (fileAt_congr (hinv.files k hm hfile)).symm
          · have h1 : ¬ IsFile (p.fs.lookup k) := fun x => hfile (.inl x)
            have h2 : ¬ IsFile (w.fs.lookup k) := fun x => hfile (.inr x)
            rw [fileAt_eq_none_iff.mpr (dirOrNone_of_not_isFile h1),
              fileAt_eq_none_iff.mpr (dirOrNone_of_not_isFile h2)]

/-! ## Step 2: the bridge, given S1, S2, S3 -/

/-- **the bridge** (the hypothesis `hbridge` of `Compose.C09_disk_composes_of_bridge`), from S4 above and — as
hypotheses for now — (S1) `hS1`: on tight trees agreement on regular files is agreement on nodes, (S2) `hT2`: the
specification's tree is tight, (S3) `hT1`: the disk the driver model leaves is tight -/
theorem bridge_of_tight (w w1 : World) (cfg : Cfg) (r1 : List Series.Entry)
    (hf : w.faultAt = none) (hdry : cfg.dryRun = false)
    (hpf : PrefixFree w.fs cfg r1) (hterm : ∀ t' ∈ reached w.fs cfg r1 [], TreeTerminated t')
    (hT0 : Tight w.fs) (h : applyPatches w cfg r1 = .ok (w1, r1.length))
    (hT1 : Tight w1.fs) (hT2 : Tight (specRun cfg w.fs r1).fs)
    (hS1 : ∀ a b, Tight a → Tight b → (∀ k, ¬ isPcKey k → fileAt a k = fileAt b k) → OutsidePc a b) :
    OutsidePc (specRun cfg w.fs r1).fs w1.fs :=
  hS1 _ _ hT2 hT1 (fun k hk => (fileAt_disk_eq_spec w w1 cfg r1 hf hdry hpf hterm hT0.wf h k hk).symm)

/-! ## Step 3: two consecutive runs of the driver model against one run of the specification -/

/-- a run of `applyPatches` that succeeds was not hit by a fault -/
theorem applyPatches_faultAt (w w' : World) (cfg : Cfg) (range : List Series.Entry) (k : Nat)
    (hf : w.faultAt = none) (hdry : cfg.dryRun = false) (h : applyPatches w cfg range = .ok (w', k)) :
    w'.faultAt = none := by
  cases hloop : applyLoop w.fs cfg range 0 {} with
  | error e =>
    unfold applyPatches at h
    rw [hloop] at h
    cases h
  | ok r =>
    obtain ⟨st, final, rejs⟩ := r
    have hgood : Disk.MemGood st.mem := Disk.applyLoop_good range Disk.memGood_nil hloop
    exact (applyPatches_tree' w w' cfg range st final k rejs hf hdry hloop (Disk.keysDistinct_of_good hgood) h).2.1

/-- **C09 on disk, given S1–S3.**  The hypotheses of `Compose.C09_disk_composes_of_bridge`, with `w1` now produced by
a first run of the driver model that applied all of `r₁` from a tight tree, and the bridge hypothesis replaced by the
`Tight` hypotheses (`hT1`, `hT2`: to be discharged by the preservation theorems S3, S2; `hS1`: S1).  The hypothesis
`h1` (the specification's first push exits with 0) stays: `applyPatches` does not write `.pc/applied-patches`, so its
success says nothing about that last step of the specification — see `specRun_exit0_of_run` for the case without
backups. -/
theorem disk_composes_of_tight (cfg : Cfg) (hdry : cfg.dryRun = false) (fs : FS) (r1 r2 : List Series.Entry)
    (hclean : Clean cfg fs (r1 ++ r2)) (h1 : (specRun cfg fs r1).exit = 0) (hnr : ¬ Refused cfg fs (r1 ++ r2))
    (w w1 w2 : World) (k2 : Nat) (hw : w.fs = fs) (hf : w.faultAt = none)
    (hpf1 : PrefixFree w.fs cfg r1) (hterm1 : ∀ t' ∈ reached w.fs cfg r1 [], TreeTerminated t')
    (hrun1 : applyPatches w cfg r1 = .ok (w1, r1.length))
    (hT0 : Tight w.fs) (hT1 : Tight w1.fs) (hT2 : Tight (specRun cfg w.fs r1).fs)
    (hS1 : ∀ a b, Tight a → Tight b → (∀ k, ¬ isPcKey k → fileAt a k = fileAt b k) → OutsidePc a b)
    (hpf : PrefixFree w1.fs cfg r2) (hterm : ∀ t' ∈ reached w1.fs cfg r2 [], TreeTerminated t')
    (h2 : applyPatches w1 cfg r2 = .ok (w2, k2)) :
    ∃ t rejs pA, Abs.applyRange w1.fs cfg r2 0 [] = .ok (t, k2, rejs) ∧
      Spec.applyRangeTree cfg fs (r1 ++ r2) (start fs) = .ok pA ∧ pA.k = k2 + r1.length ∧ pA.rejs = rejs.reverse ∧
      ∀ name key a, Comp.cur ∉ components name → safeKey name = some key → ¬ isRejKey rejs key → ¬ isPcKey key →
        Abs.look t w1.fs name = .ok a → fileAt w2.fs key = fileAt (specRun cfg fs (r1 ++ r2)).fs key := by
  subst hw
  exact C09_disk_composes_of_bridge cfg hdry w.fs r1 r2 hclean h1 hnr w1 w2 k2
    (applyPatches_faultAt w w1 cfg r1 r1.length hf hdry hrun1)
    (bridge_of_tight w w1 cfg r1 hf hdry hpf1 hterm1 hT0 hrun1 hT1 hT2 hS1) hpf hterm h2

/-! ## the hypothesis `h1`, when no backups are written -/

/-- if the first push writes no backups (`backup ≠ always`; everything applied) and `.pc` is in order at the start
(`.pc` is not a regular file, `.pc/applied-patches` not a directory), the specification's first push exits with 0
whenever the driver model's run applied the whole range -/
theorem specRun_exit0_of_run (w w1 : World) (cfg : Cfg) (r1 : List Series.Entry)
    (hf : w.faultAt = none) (hdry : cfg.dryRun = false)
    (hpf : PrefixFree w.fs cfg r1) (hterm : ∀ t' ∈ reached w.fs cfg r1 [], TreeTerminated t')
    (hclean : Clean cfg w.fs r1) (hb : cfg.backup ≠ .always) (hpc : ¬ PcBad w.fs)
    (h : applyPatches w cfg r1 = .ok (w1, r1.length)) : (specRun cfg w.fs r1).exit = 0 := by
  obtain ⟨p, t, rejs, _, hp, hpk, _, _, _⟩ := Abs.C05_disk_is_oracle w w1 cfg r1 r1.length hf hdry hpf hterm h
  have hp' : applyRangeTree cfg w.fs r1 (start w.fs) = .ok p := hp
  have hnb : NoBackups cfg r1 p := by
    unfold NoBackups
    rw [hpk]
    cases hbk : cfg.backup with
    | always => exact absurd hbk hb
    | onfail => simp
    | never => simp
  have hrej0 : p.rejs = [] := by
    obtain ⟨_, _, h3⟩ := applyRangeTree_k cfg w.fs r1 _ _ hp'
    exact (h3 (by rw [hpk]; simp [start])).1
  have hio : (specRun cfg w.fs r1).ioError = false := by
    rw [run_io_noBackups hdry hclean hp' hnb hpc, hrej0]
    exact ⟨p.fs, by simp [putRejects]⟩
  rw [(run_applied hdry hclean hp' hio).1, hpk]
  simp

#print axioms storeTree_isFile_path
#print axioms keep_applyRange
#print axioms fileAt_disk_eq_spec
#print axioms bridge_of_tight
#print axioms disk_composes_of_tight
#print axioms specRun_exit0_of_run

end RQ.Tight
