import RQ.Lemmas.Compose2
/-!
# Pushes compose (C09) — part 3: `Clean` and the main theorem on `specRun`

`Clean cfg fs range`: every patch file of the range can be read and parsed, it does not live below `.pc`, no name in
any of the patches has a path that belongs to quilt itself (`Own`: below `.pc`, the working directory itself, the
`series` file, the patches directory or anything inside or above it), the reject file of such a name is not below
`.pc` either, and no patch is called `.` or lives in a directory `applied-patches` (its backups go to
`.pc/<patch>/…`, which must not collide with `.pc/applied-patches`).

`specRun_compose`: pushing `r₁` (all of it applies) and then `r₂` from the resulting tree = pushing `r₁ ++ r₂`.
-/
namespace RQ.Compose
open RQ RQ.Push RQ.Spec RQ.Flush RQ.Agree RQ.Parse RQ.Write

/-- `Q` holds for the value, if there is one -/
def optAll {α : Type} (o : Option α) (Q : α → Prop) : Prop :=
  match o with
  | some x => Q x
  | none => True

/-- there is a value and `Q` holds for it -/
def optAny {α : Type} (o : Option α) (Q : α → Prop) : Prop :=
  match o with
  | some x => Q x
  | none => False

instance {α : Type} (o : Option α) (Q : α → Prop) [∀ x, Decidable (Q x)] : Decidable (optAll o Q) :=
  match o with
  | some x => inferInstanceAs (Decidable (Q x))
  | none => isTrue trivial

instance {α : Type} (o : Option α) (Q : α → Prop) [∀ x, Decidable (Q x)] : Decidable (optAny o Q) :=
  match o with
  | some x => inferInstanceAs (Decidable (Q x))
  | none => isFalse id

theorem optAll_iff {α : Type} (o : Option α) (Q : α → Prop) : optAll o Q ↔ ∀ x, o = some x → Q x := by
  cases o with
  | none => exact ⟨fun _ _ h => (nomatch h), fun _ => trivial⟩
  | some y => exact ⟨fun h x e => by cases e; exact h, fun h => h y rfl⟩

theorem optAny_iff {α : Type} (o : Option α) (Q : α → Prop) : optAny o Q ↔ ∃ x, o = some x ∧ Q x := by
  cases o with
  | none => exact ⟨fun h => h.elim, fun ⟨_, h, _⟩ => (nomatch h)⟩
  | some y => exact ⟨fun h => ⟨y, rfl, h⟩, fun ⟨x, e, h⟩ => by cases e; exact h⟩

instance (k : Key) : Decidable (isPcKey k) := inferInstanceAs (Decidable (k.head? = some [46, 112, 99]))

/-- the paths that belong to quilt itself: below `.pc`, the working directory, the series file, and everything
inside or above the patches directory -/
def Own (cfg : Cfg) (k : Key) : Prop :=
  isPcKey k ∨ k = [] ∨ k = seriesKey ∨ optAny (safeKey cfg.patchesDir) (fun d => d <+: k ∨ k <+: d)

structure CleanEntry (cfg : Cfg) (fs : FS) (e : Series.Entry) : Prop where
  /-- the patch file is not below `.pc` -/
  keyOut : ∀ pk, patchKey cfg e.name = some pk → ¬ isPcKey pk
  nameOK : PatchNameOK e.name
  /-- the patch file can be read and parsed, and the files it names are not quilt's own -/
  patch : ∃ patch, patchOf fs cfg e = some patch ∧ ∀ fp ∈ patch.fps, NamesSat (fun k => ¬ Own cfg k) fp

/-- quilt's own files are not patched by the series (and the patch files of the range are readable) -/
def Clean (cfg : Cfg) (fs : FS) (range : List Series.Entry) : Prop := ∀ e ∈ range, CleanEntry cfg fs e

theorem Clean.left {cfg : Cfg} {fs : FS} {r1 r2 : List Series.Entry} (h : Clean cfg fs (r1 ++ r2)) : Clean cfg fs r1 :=
  fun e he => h e (List.mem_append_left _ he)

theorem Clean.right {cfg : Cfg} {fs : FS} {r1 r2 : List Series.Entry} (h : Clean cfg fs (r1 ++ r2)) :
    Clean cfg fs r2 :=
  fun e he => h e (List.mem_append_right _ he)

theorem Clean.names {cfg : Cfg} {fs : FS} {range : List Series.Entry} (h : Clean cfg fs range) :
    ∀ e ∈ range, ∀ patch, patchOf fs cfg e = some patch → ∀ fp ∈ patch.fps, NamesSat (fun k => ¬ Own cfg k) fp := by
  intro e he patch hp fp hfp
  obtain ⟨patch', hp', hn⟩ := (h e he).patch
  rw [hp] at hp'
  cases hp'
  exact hn fp hfp

theorem not_pc_of_not_own {cfg : Cfg} {k : Key} (h : ¬ Own cfg k) : ¬ isPcKey k := fun hk => h (.inl hk)

theorem NamesSat.mono {P Q : Key → Prop} {fp : PFilePatch} (h : NamesSat P fp) (hpq : ∀ k, P k → Q k) :
    NamesSat Q fp := fun n hn k hk => hpq k (h n hn k hk)

theorem Clean.namesOut {cfg : Cfg} {fs : FS} {range : List Series.Entry} (h : Clean cfg fs range) :
    ∀ e ∈ range, ∀ patch, patchOf fs cfg e = some patch → ∀ fp ∈ patch.fps, NamesSat (fun k => ¬ isPcKey k) fp :=
  fun e he patch hp fp hfp => (h.names e he patch hp fp hfp).mono (fun _ => not_pc_of_not_own)

theorem Clean.transfer {cfg : Cfg} {fs fs' : FS} {range : List Series.Entry} (h : Clean cfg fs range)
    (hp : ∀ e ∈ range, patchOf fs' cfg e = patchOf fs cfg e) : Clean cfg fs' range := by
  intro e he
  obtain ⟨h1, h2, h3⟩ := h e he
  exact ⟨h1, h2, by rw [hp e he]; exact h3⟩

/-! ### `Clean` is decidable -/

instance (cfg : Cfg) (k : Key) : Decidable (Own cfg k) :=
  inferInstanceAs (Decidable (isPcKey k ∨ k = [] ∨ k = seriesKey ∨ optAny (safeKey cfg.patchesDir) _))

def NamesSatD (P : Key → Prop) (fp : PFilePatch) : Prop :=
  optAll fp.old (fun n => optAll (safeKey n) P) ∧ optAll fp.new (fun n => optAll (safeKey n) P)

theorem namesSat_iff (P : Key → Prop) (fp : PFilePatch) : NamesSat P fp ↔ NamesSatD P fp := by
  unfold NamesSat NamesSatD
  simp only [optAll_iff]
  constructor
  · intro h
    exact ⟨fun n hn k hk => h n (.inl hn) k hk, fun n hn k hk => h n (.inr hn) k hk⟩
  · rintro ⟨h1, h2⟩ n (hn | hn) k hk
    · exact h1 n hn k hk
    · exact h2 n hn k hk

def CleanEntryD (cfg : Cfg) (fs : FS) (e : Series.Entry) : Prop :=
  optAll (patchKey cfg e.name) (fun pk => ¬ isPcKey pk) ∧
  optAll (safeKey e.name) (fun p => p ≠ [] ∧ p.head? ≠ some appliedName) ∧
  optAny (patchOf fs cfg e) (fun patch => ∀ fp ∈ patch.fps, NamesSatD (fun k => ¬ Own cfg k) fp)

instance (P : Key → Prop) [DecidablePred P] (fp : PFilePatch) : Decidable (NamesSatD P fp) :=
  inferInstanceAs (Decidable (_ ∧ _))

instance (cfg : Cfg) (fs : FS) (e : Series.Entry) : Decidable (CleanEntryD cfg fs e) :=
  inferInstanceAs (Decidable (_ ∧ _ ∧ _))

theorem cleanEntry_iff (cfg : Cfg) (fs : FS) (e : Series.Entry) : CleanEntry cfg fs e ↔ CleanEntryD cfg fs e := by
  unfold CleanEntryD
  rw [optAll_iff, optAll_iff, optAny_iff]
  constructor
  · rintro ⟨h1, h2, patch, hp, h3⟩
    exact ⟨h1, h2, patch, hp, fun fp hfp => (namesSat_iff _ fp).mp (h3 fp hfp)⟩
  · rintro ⟨h1, h2, patch, hp, h3⟩
    exact ⟨h1, h2, patch, hp, fun fp hfp => (namesSat_iff _ fp).mpr (h3 fp hfp)⟩

instance (cfg : Cfg) (fs : FS) (range : List Series.Entry) : Decidable (Clean cfg fs range) :=
  decidable_of_iff (∀ e ∈ range, CleanEntryD cfg fs e)
    ⟨fun h e he => (cleanEntry_iff cfg fs e).mpr (h e he), fun h e he => (cleanEntry_iff cfg fs e).mp (h e he)⟩

/-! ### patch files stay what they are -/

theorem patchOf_of_readFile {a b : FS} {cfg : Cfg} {e : Series.Entry}
    (h : ∀ pk, patchKey cfg e.name = some pk → ∀ x, a.readFile pk = .ok x → b.readFile pk = .ok x)
    {patch : Patch} (hp : patchOf a cfg e = some patch) : patchOf b cfg e = some patch := by
  unfold patchOf at hp ⊢
  cases hk : patchKey cfg e.name with
  | none => rw [hk] at hp; cases hp
  | some pk =>
    rw [hk] at hp
    simp only at hp ⊢
    cases hr : a.readFile pk with
    | error x => rw [hr] at hp; cases hp
    | ok x =>
      rw [hr] at hp
      rw [h pk hk x hr]
      exact hp

theorem own_of_prefix_patchKey {cfg : Cfg} {name : Bytes} {pk t : Key} (hk : patchKey cfg name = some pk)
    (ht : t <+: pk) : Own cfg t := by
  unfold patchKey at hk
  split at hk
  · rename_i d n hd _
    cases hk
    right; right; right
    rw [optAny_iff]
    refine ⟨d, hd, ?_⟩
    have hdp : d <+: d ++ n := List.prefix_append d n
    by_cases hl : t.length ≤ d.length
    · exact .inr (List.prefix_of_prefix_length_le ht hdp hl)
    · exact .inl (List.prefix_of_prefix_length_le hdp ht (by omega))
  · cases hk

/-- applying patches whose names are not quilt's own leaves the patch files as they are -/
theorem patchOf_touch {a b : FS} {cfg : Cfg} {e : Series.Entry} (h : Touch (fun k => ¬ Own cfg k) a b)
    {patch : Patch} (hp : patchOf a cfg e = some patch) : patchOf b cfg e = some patch :=
  patchOf_of_readFile (fun _ hk _ hr => h.readFile_ok (fun _ ht hpre => ht (own_of_prefix_patchKey hk hpre)) hr) hp

theorem patchOf_pcOnly {a b : FS} {cfg : Cfg} {e : Series.Entry} (h : PcOnly a b)
    (hout : ∀ pk, patchKey cfg e.name = some pk → ¬ isPcKey pk)
    {patch : Patch} (hp : patchOf a cfg e = some patch) : patchOf b cfg e = some patch :=
  patchOf_of_readFile (fun pk hk x hr => by rw [← h.outside.readFile_eq (hout pk hk)]; exact hr) hp

/-! ### one run -/

theorem clean_touch {cfg : Cfg} {fs : FS} {range : List Series.Entry} (h : Clean cfg fs range) {p p' : Progress}
    (hp : applyRangeTree cfg fs range p = .ok p') : Touch (fun k => ¬ Own cfg k) p.fs p'.fs :=
  applyRangeTree_touch range h.names p p' hp

theorem clean_rejsOut {cfg : Cfg} {fs : FS} {range : List Series.Entry} (h : Clean cfg fs range) {p p' : Progress}
    (hr : RejsOut p.rejs) (hp : applyRangeTree cfg fs range p = .ok p') : RejsOut p'.rejs :=
  applyRangeTree_rejsOut range h.namesOut p p' hr hp

theorem clean_backups {cfg : Cfg} {fs : FS} {range : List Series.Entry} (h : Clean cfg fs range) {p p' : Progress}
    (hb : ∀ b ∈ p.backups, PatchNameOK b.1) (hp : applyRangeTree cfg fs range p = .ok p') :
    ∀ b ∈ p'.backups, PatchNameOK b.1 := by
  intro b hbm
  rcases applyRangeTree_backups range p p' hp b hbm with h1 | ⟨e, he, h1⟩
  · exact hb b h1
  · rw [h1]; exact (h e he).nameOK

/-- the tree once the reject files have been written (or could not be written) -/
def afterRejects (fs : FS) (rejs : List (Bytes × Bytes)) : FS :=
  match putRejects fs rejs with
  | .ok fs1 => fs1
  | .error _ => fs

theorem afterRejects_congr {rejs : List (Bytes × Bytes)} (hr : RejsOut rejs) {a b : FS} (h : OutsidePc a b) :
    OutsidePc (afterRejects a rejs) (afterRejects b rejs) := by
  unfold afterRejects
  have hc := putRejects_congr rejs hr h
  cases ha : putRejects a rejs with
  | error e => rw [hc.err_left ha]; exact h
  | ok a' =>
    obtain ⟨b', hb, hab⟩ := hc.ok_left ha
    rw [hb]; exact hab

theorem RejsOut.reverse {rejs : List (Bytes × Bytes)} (h : RejsOut rejs) : RejsOut rejs.reverse :=
  fun r hr => h r (List.mem_reverse.mp hr)

/-- after the reject files, a run changes nothing outside `.pc` -/
theorem run_outside {cfg : Cfg} {fs : FS} {range : List Series.Entry} {p : Progress} (hdry : cfg.dryRun = false)
    (hp : applyRangeTree cfg fs range (start fs) = .ok p) :
    PcOnly (afterRejects p.fs p.rejs.reverse) (specRun cfg fs range).fs := by
  unfold specRun afterRejects
  rw [hp]
  simp only
  rw [finishSpec_eq _ _ _ _ hdry]
  cases putRejects p.fs p.rejs.reverse with
  | error e => exact PcOnly.refl _
  | ok fs1 => exact finishPc_pcOnly cfg range p fs1

/-- a run that ends without an output failure: the exit status says whether the whole range applied, and
`.pc/applied-patches` has gained exactly the names of the applied patches -/
theorem run_applied {cfg : Cfg} {fs : FS} {range : List Series.Entry} {p : Progress} (hdry : cfg.dryRun = false)
    (hclean : Clean cfg fs range) (hp : applyRangeTree cfg fs range (start fs) = .ok p)
    (hio : (specRun cfg fs range).ioError = false) :
    (specRun cfg fs range).exit = (if p.k == range.length then 0 else 1) ∧
    fileAt (specRun cfg fs range).fs appliedKey =
      appendView (fileAt fs appliedKey) (namesBytes (range.take p.k)) := by
  have hT := clean_touch hclean hp
  have hrej : RejsOut p.rejs := clean_rejsOut hclean (fun _ hm => by cases hm) hp
  have hbk := clean_backups hclean (p := start fs) (fun _ hm => by cases hm) hp
  have e0 : fileAt p.fs appliedKey = fileAt fs appliedKey :=
    fileAt_congr (hT.pc_same (fun _ => not_pc_of_not_own) isPcKey_appliedKey)
  unfold specRun at hio ⊢
  rw [hp] at hio ⊢
  simp only at hio ⊢
  rw [finishSpec_eq _ _ _ _ hdry] at hio ⊢
  cases hr : putRejects p.fs p.rejs.reverse with
  | error e => rw [hr] at hio; cases hio
  | ok fs1 =>
    rw [hr] at hio
    simp only at hio ⊢
    obtain ⟨h1, h2⟩ := finishPc_ok hbk hio
    refine ⟨h1, ?_⟩
    rw [h2, ← e0]
    congr 1
    apply putRejects_fileAt _ _ _ hr
    rintro ⟨r, hm, hk⟩
    exact hrej.reverse r hm _ hk isPcKey_appliedKey

/-- a run with exit status 0: the whole range applied, there was no output failure, no reject file -/
theorem specRun_exit0 {cfg : Cfg} {fs : FS} {range : List Series.Entry} (hdry : cfg.dryRun = false)
    (h : (specRun cfg fs range).exit = 0) :
    ∃ p, applyRangeTree cfg fs range (start fs) = .ok p ∧ p.k = range.length ∧ p.rejs = [] ∧ p.failed = false ∧
      specRun cfg fs range = finishPc cfg range p p.fs ∧ (specRun cfg fs range).ioError = false := by
  unfold specRun at h ⊢
  cases hp : applyRangeTree cfg fs range (start fs) with
  | error e => rw [hp] at h; cases h
  | ok p =>
    rw [hp] at h
    simp only at h ⊢
    rw [finishSpec_eq _ _ _ _ hdry] at h ⊢
    cases hr : putRejects p.fs p.rejs.reverse with
    | error e => rw [hr] at h; cases h
    | ok fs1 =>
      rw [hr] at h
      simp only at h ⊢
      obtain ⟨hio, hk⟩ := finishPc_exit0 h
      obtain ⟨_, _, h3⟩ := applyRangeTree_k cfg fs range _ _ hp
      obtain ⟨hrej, hfail⟩ := h3 (by simp [start, hk])
      have hrej' : p.rejs = [] := hrej
      rw [hrej'] at hr
      unfold putRejects at hr
      cases hr
      exact ⟨p, rfl, hk, hrej', hfail, rfl, hio⟩

/-! ## the main theorem -/

/-- **(3) pushes compose.**  Real run (`dryRun = false`), quilt's own files not patched by the series (`Clean`).  Push
`r₁`: exit status 0, i.e. all of it applied (and there was no output failure).  Then pushing `r₂` from the resulting
tree and pushing `r₁ ++ r₂` from the original tree

* are refused or not together (a refused push leaves its tree alone — the single push then has *nothing* applied while
  the first of the two pushes stays applied: composition can only be claimed for pushes that are not refused);
* if not refused, leave trees that agree at every path outside `.pc` — regular files (content, permission bits:
  tracked files and reject files alike) and directories;
* and, unless one of them ran into an output failure (a backup or `.pc/applied-patches` could not be written), have
  the same exit status and the same `.pc/applied-patches`. -/
theorem specRun_compose (cfg : Cfg) (hdry : cfg.dryRun = false) (fs : FS) (r1 r2 : List Series.Entry)
    (hclean : Clean cfg fs (r1 ++ r2)) (h1 : (specRun cfg fs r1).exit = 0) :
    (Refused cfg (specRun cfg fs r1).fs r2 ↔ Refused cfg fs (r1 ++ r2)) ∧
    (¬ Refused cfg fs (r1 ++ r2) →
      OutsidePc (specRun cfg (specRun cfg fs r1).fs r2).fs (specRun cfg fs (r1 ++ r2)).fs ∧
      ((specRun cfg (specRun cfg fs r1).fs r2).ioError = false → (specRun cfg fs (r1 ++ r2)).ioError = false →
        (specRun cfg (specRun cfg fs r1).fs r2).exit = (specRun cfg fs (r1 ++ r2)).exit ∧
        fileAt (specRun cfg (specRun cfg fs r1).fs r2).fs appliedKey =
          fileAt (specRun cfg fs (r1 ++ r2)).fs appliedKey)) := by
  obtain ⟨p1, hp1, hk1, hrej1, hfail1, ho1, hio1⟩ := specRun_exit0 hdry h1
  -- the tree after the first push
  have hpc1 : PcOnly p1.fs (specRun cfg fs r1).fs := by rw [ho1]; exact finishPc_pcOnly cfg r1 p1 p1.fs
  have hT1 : Touch (fun k => ¬ Own cfg k) fs p1.fs := clean_touch hclean.left hp1
  have happ1 := run_applied hdry hclean.left hp1 hio1
  generalize (specRun cfg fs r1).fs = fs' at hpc1 happ1 ⊢
  -- the patch files are still there
  have hpatch : ∀ e ∈ r1 ++ r2, patchOf fs' cfg e = patchOf fs cfg e := by
    intro e he
    obtain ⟨patch, hp, _⟩ := (hclean e he).patch
    rw [hp]
    exact patchOf_pcOnly hpc1 (hclean e he).keyOut (patchOf_touch hT1 hp)
  have hclean2 : Clean cfg fs' r2 := hclean.right.transfer (fun e he => hpatch e (List.mem_append_right _ he))
  -- split the single push
  have hsplit : applyRangeTree cfg fs (r1 ++ r2) (start fs) = applyRangeTree cfg fs r2 p1 := by
    rw [applyRangeTree_append, hp1]
    simp [hk1, start]
  -- congruence for the second half
  have hcong := applyRangeTree_congr cfg fs fs' r1.length p1.backups r2
    (fun e he => (hpatch e (List.mem_append_right _ he)).symm) hclean.right.namesOut p1 (start fs')
    ⟨hpc1.outside, by simp [start, hk1], hrej1, hfail1, by simp [start]⟩
  refine ⟨?_, ?_⟩
  · unfold Refused
    rw [hsplit]
    cases hA : applyRangeTree cfg fs r2 p1 with
    | error e => simp [hcong.err_left hA]
    | ok pA =>
      obtain ⟨pB, hB, _⟩ := hcong.ok_left hA
      simp [hB]
  · intro hnr
    unfold Refused at hnr
    cases hA : applyRangeTree cfg fs r2 p1 with
    | error e => exact absurd (by rw [hsplit, hA]) hnr
    | ok pA =>
      obtain ⟨pB, hB, hfs, hk, hrejs, hfailed, hbk⟩ := hcong.ok_left hA
      have hAll : applyRangeTree cfg fs (r1 ++ r2) (start fs) = .ok pA := by rw [hsplit, hA]
      have hrejA : RejsOut pA.rejs := clean_rejsOut hclean (p := start fs) (fun _ hm => by cases hm) hAll
      have hoA := run_outside hdry hAll
      have hoB := run_outside hdry hB
      have hmid : OutsidePc (afterRejects pA.fs pA.rejs.reverse) (afterRejects pB.fs pB.rejs.reverse) := by
        rw [← hrejs]
        exact afterRejects_congr hrejA.reverse hfs
      refine ⟨hoB.outside.symm.trans (hmid.symm.trans hoA.outside), ?_⟩
      intro hioB hioA
      obtain ⟨eA1, eA2⟩ := run_applied hdry hclean hAll hioA
      obtain ⟨eB1, eB2⟩ := run_applied hdry hclean2 hB hioB
      have hkA : pA.k = pB.k + r1.length := by simpa [start] using hk
      constructor
      · rw [eA1, eB1, hkA]
        simp only [List.length_append, beq_iff_eq]
        by_cases hx : pB.k = r2.length
        · simp [hx, Nat.add_comm]
        · have : ¬ (pB.k + r1.length = r1.length + r2.length) := by omega
          simp [hx, this]
      · rw [eA2, eB2, happ1.2, appendView_appendView, ← namesBytes_append, hk1, List.take_length, hkA,
          Nat.add_comm pB.k, List.take_length_add_append]

/-- **the oracle is a congruence for "same tree outside `.pc`"**: two trees that agree outside `.pc` (inode numbers
ignored) and have the same patch files are refused together, and otherwise end up agreeing outside `.pc`.  (This is
where a statement "the driver's disk agrees with the oracle's tree outside `.pc`, directories included" would plug in
to carry `specRun_compose` to two consecutive runs of the driver model.) -/
theorem specRun_congr (cfg : Cfg) (hdry : cfg.dryRun = false) {a b : FS} (range : List Series.Entry)
    (hab : OutsidePc a b) (hpf : ∀ e ∈ range, patchOf b cfg e = patchOf a cfg e) (hclean : Clean cfg a range) :
    (Refused cfg a range ↔ Refused cfg b range) ∧
    (¬ Refused cfg a range → OutsidePc (specRun cfg a range).fs (specRun cfg b range).fs) := by
  have hcong := applyRangeTree_congr cfg a b 0 [] range (fun e he => (hpf e he).symm) hclean.namesOut
    (start a) (start b) ⟨hab, rfl, rfl, rfl, rfl⟩
  refine ⟨?_, ?_⟩
  · unfold Refused
    cases hA : applyRangeTree cfg a range (start a) with
    | error e => simp [hcong.err_left hA]
    | ok pA =>
      obtain ⟨pB, hB, _⟩ := hcong.ok_left hA
      simp [hB]
  · intro hnr
    unfold Refused at hnr
    cases hA : applyRangeTree cfg a range (start a) with
    | error e => exact absurd hA hnr
    | ok pA =>
      obtain ⟨pB, hB, hfs, hk, hrejs, hfailed, hbk⟩ := hcong.ok_left hA
      have hrejA : RejsOut pA.rejs := clean_rejsOut hclean (p := start a) (fun _ hm => by cases hm) hA
      have hoA := run_outside hdry hA
      have hoB := run_outside hdry hB
      have hmid : OutsidePc (afterRejects pA.fs pA.rejs.reverse) (afterRejects pB.fs pB.rejs.reverse) := by
        rw [← hrejs]
        exact afterRejects_congr hrejA.reverse hfs
      exact hoA.outside.symm.trans (hmid.trans hoB.outside)

/-! ## a failing first push ends the push where it is -/

/-- if not all of `r₁` applies, pushing `r₁ ++ r₂` is pushing `r₁` (same tree, same reject files, same backups, same
`.pc/applied-patches`, exit status 1) — for every configuration, dry runs included -/
theorem specRun_append_of_not_all (cfg : Cfg) (fs : FS) (r1 r2 : List Series.Entry)
    (h : ∀ p, applyRangeTree cfg fs r1 (start fs) = .ok p → p.k ≠ r1.length) :
    specRun cfg fs (r1 ++ r2) = specRun cfg fs r1 := by
  unfold specRun
  rw [applyRangeTree_append]
  cases hp : applyRangeTree cfg fs r1 (start fs) with
  | error e => rfl
  | ok p1 =>
    have hne := h p1 hp
    obtain ⟨_, hle, _⟩ := applyRangeTree_k cfg fs r1 _ _ hp
    have hk0 : (start fs).k = 0 := rfl
    rw [hk0] at hle ⊢
    simp only [Nat.zero_add] at hle ⊢
    rw [if_neg hne]
    have e1 : (p1.k == (r1 ++ r2).length) = false := by
      simp only [List.length_append, beq_eq_false_iff_ne, ne_eq]; omega
    have e2 : (p1.k == r1.length) = false := by simpa using hne
    have e3 : (r1 ++ r2).take p1.k = r1.take p1.k := List.take_append_of_le_length hle
    unfold finishSpec
    simp only [e1, e2, e3, bne]

end RQ.Compose
