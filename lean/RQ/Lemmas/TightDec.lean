import RQ.Lemmas.Tight
import RQ.Spec.Tight
/-!
# `tightB` decides `Tight`

`Tight.tightB` (`RQ/Spec/Tight.lean`) runs finitely many checks over `fs.nodes`; here: it answers `true` exactly for
the tight trees (`tightB_sound`, `tightB_complete`, `tightB_iff`), hence `Tight fs` is decidable.
-/
namespace RQ.Tight
open RQ RQ.Push RQ.Spec RQ.Flush RQ.Agree RQ.Compose

theorem pcB_iff (k : Key) : pcB k = true ↔ isPcKey k := by
  unfold pcB isPcKey
  exact beq_iff_eq

theorem isFileB_iff (x : Option Node) : isFileB x = true ↔ IsFile x := by
  unfold isFileB IsFile
  split <;> simp

theorem spreB_iff (d k : Key) : spreB d k = true ↔ SPre d k := by
  unfold spreB SPre
  simp only [Bool.and_eq_true, decide_eq_true_eq, beq_iff_eq]

/-- what `lookup` answers is the second component of a node whose key is the one looked up -/
theorem lookup_mem {fs : FS} {k : Key} {n : Node} (h : fs.lookup k = some n) : (k, n) ∈ fs.nodes := by
  unfold FS.lookup at h
  rw [Option.map_eq_some_iff] at h
  obtain ⟨p, hp, rfl⟩ := h
  have hk : p.1 = k := by simpa using List.find?_some hp
  have hm := List.mem_of_find?_eq_some hp
  rw [← hk]
  exact hm

/-- a key of a node looks up to something -/
theorem lookup_isSome_of_mem {fs : FS} {p : Key × Node} (h : p ∈ fs.nodes) : ∃ n, fs.lookup p.1 = some n := by
  unfold FS.lookup
  cases hf : fs.nodes.find? (fun q => q.1 == p.1) with
  | some q => exact ⟨q.2, rfl⟩
  | none =>
    rw [List.find?_eq_none] at hf
    exact absurd (hf p h) (by simp)

theorem parentsB_iff (fs : FS) (k : Key) :
    parentsB fs k = true ↔ ∀ i, 0 < i → i < k.length → fs.lookup (k.take i) = some .dir := by
  unfold parentsB
  rw [List.all_eq_true]
  constructor
  · intro h i h0 hi
    have := h i (List.mem_range.mpr hi)
    simp only [Bool.or_eq_true, beq_iff_eq] at this
    rcases this with h | h
    · omega
    · exact h
  · intro h i hi
    rw [List.mem_range] at hi
    simp only [Bool.or_eq_true, beq_iff_eq]
    rcases Nat.eq_zero_or_pos i with h0 | h0
    · exact .inl h0
    · exact .inr (h i h0 hi)

/-- the check of one node that `tightB` runs, for a key that `lookup` sees -/
theorem nodeB_of_lookup {fs : FS} (h : tightB fs = true) {k : Key} {n : Node} (hk : ¬ isPcKey k)
    (hl : fs.lookup k = some n) : nodeB fs k = true := by
  unfold tightB at h
  rw [Bool.and_eq_true, List.all_eq_true] at h
  have := h.2 (k, n) (lookup_mem hl)
  rw [Bool.or_eq_true] at this
  rcases this with hp | hn
  · exact absurd ((pcB_iff k).mp hp) hk
  · exact hn

theorem tightB_sound {fs : FS} (h : tightB fs = true) : Tight fs := by
  refine ⟨?_, ?_, ?_, ?_⟩
  · intro k hk n hl
    have hn := nodeB_of_lookup h hk hl
    unfold nodeB at hn
    rw [Bool.and_eq_true] at hn
    exact (parentsB_iff fs k).mp hn.1
  · intro d hd hk hl
    have hn := nodeB_of_lookup h hk hl
    unfold nodeB at hn
    rw [Bool.and_eq_true, hl] at hn
    have h2 := hn.2
    simp only [Bool.or_eq_true, beq_iff_eq] at h2
    rcases h2 with h2 | h2
    · exact absurd h2 hd
    · rw [List.any_eq_true] at h2
      obtain ⟨q, _, hq⟩ := h2
      rw [Bool.and_eq_true] at hq
      exact ⟨q.1, (spreB_iff d q.1).mp hq.1, (isFileB_iff _).mp hq.2⟩
  · intro k hk c m i hl
    have hn := nodeB_of_lookup h hk hl
    unfold nodeB at hn
    rw [Bool.and_eq_true, hl] at hn
    simpa using hn.2
  · unfold tightB at h
    rw [Bool.and_eq_true] at h
    simpa using h.1

theorem tightB_complete {fs : FS} (h : Tight fs) : tightB fs = true := by
  unfold tightB
  rw [Bool.and_eq_true, List.all_eq_true]
  refine ⟨by simp [h.root], ?_⟩
  intro p hp
  rw [Bool.or_eq_true]
  by_cases hk : isPcKey p.1
  · exact .inl ((pcB_iff p.1).mpr hk)
  · refine .inr ?_
    obtain ⟨n, hl⟩ := lookup_isSome_of_mem hp
    unfold nodeB
    rw [Bool.and_eq_true]
    refine ⟨(parentsB_iff fs p.1).mpr (h.wf p.1 hk n hl), ?_⟩
    rw [hl]
    cases n with
    | file c m i => simpa using h.modes p.1 hk c m i hl
    | dir =>
      simp only [Bool.or_eq_true, beq_iff_eq]
      by_cases hd : p.1 = []
      · exact .inl hd
      · refine .inr ?_
        obtain ⟨k, hs, hf⟩ := h.full p.1 hd hk hl
        rw [List.any_eq_true]
        cases hlk : fs.lookup k with
        | none => rw [hlk] at hf; exact hf.elim
        | some nk =>
          refine ⟨(k, nk), lookup_mem hlk, ?_⟩
          rw [Bool.and_eq_true]
          exact ⟨(spreB_iff p.1 k).mpr hs, (isFileB_iff _).mpr hf⟩

theorem tightB_iff (fs : FS) : tightB fs = true ↔ Tight fs := ⟨tightB_sound, tightB_complete⟩

instance (fs : FS) : Decidable (Tight fs) := decidable_of_iff _ (tightB_iff fs)

#print axioms tightB_sound
#print axioms tightB_complete

end RQ.Tight
