import RQ.Model.FS
/-!
# Helper lemmas about the path model: components, stripping, safe keys

`pieces` splits a byte string at every `/`; `FM bs` (the `compOfPiece`-images of the pieces) is the fuel-free
body component list: `bodyComps fuel bs = FM bs` for enough fuel.  `eatComp`/`dropBody` drop components of
`FM`, `trimLeft` and `trimRight 0` preserve `FM`; `Plain y` says `components y = FM y`.
`dropCur` is the effect of `skip_cur_dir` on the component list.
Main results: `components_stripPath`, `cur_not_mem_stripPath`.
-/
namespace RQ

/-! ### takePiece -/
@[simp] theorem takePiece_nil : takePiece [] = ([], [], false) := rfl
@[simp] theorem takePiece_sep (bs : Bytes) : takePiece (SEP :: bs) = ([], bs, true) := by
  simp [takePiece]
theorem takePiece_cons_ne (b : UInt8) (bs : Bytes) (hb : b ≠ SEP) :
    takePiece (b :: bs) = (b :: (takePiece bs).1, (takePiece bs).2.1, (takePiece bs).2.2) := by
  simp [takePiece, hb]

theorem takePiece_noSep : ∀ bs : Bytes, SEP ∉ (takePiece bs).1
  | [] => by simp
  | b :: bs => by
    have ih := takePiece_noSep bs
    by_cases hb : b = SEP
    · subst hb; simp
    · rw [takePiece_cons_ne b bs hb]; simp [ih, Ne.symm hb]

theorem takePiece_rest_length : ∀ bs : Bytes, (takePiece bs).2.1.length ≤ bs.length - 1
  | [] => by simp
  | b :: bs => by
    have ih := takePiece_rest_length bs
    by_cases hb : b = SEP
    · subst hb; simp
    · rw [takePiece_cons_ne b bs hb]; simp; omega

theorem takePiece_rest_lt (bs : Bytes) (h : bs ≠ []) : (takePiece bs).2.1.length < bs.length := by
  have := takePiece_rest_length bs
  have : 0 < bs.length := List.length_pos_iff.mpr h
  omega

/-- reconstruct the input from `takePiece` -/
theorem takePiece_spec : ∀ bs : Bytes,
    ((takePiece bs).2.2 = true ∧ bs = (takePiece bs).1 ++ SEP :: (takePiece bs).2.1) ∨
    ((takePiece bs).2.2 = false ∧ bs = (takePiece bs).1 ∧ (takePiece bs).2.1 = [])
  | [] => by simp
  | b :: bs => by
    have ih := takePiece_spec bs
    by_cases hb : b = SEP
    · subst hb; simp
    · rw [takePiece_cons_ne b bs hb]
      rcases ih with ⟨h1, h2⟩ | ⟨h1, h2, h3⟩
      · left; refine ⟨h1, ?_⟩; simp only [List.cons_append]; rw [← h2]
      · right; refine ⟨h1, ?_, h3⟩; simp only; rw [← h2]

/-! ### compOfPiece -/
theorem compOfPiece_normal {p q : Bytes} (h : compOfPiece p = some (.normal q)) :
    q = p ∧ p ≠ [] ∧ p ≠ [46] ∧ p ≠ [46, 46] := by
  unfold compOfPiece at h
  split at h
  · simp at h
  · split at h
    · simp at h
    · split at h
      · simp at h
      · simp at h; simp_all [DOT]

theorem compOfPiece_ne_root (p : Bytes) : compOfPiece p ≠ some .root := by
  unfold compOfPiece; repeat' split
  all_goals simp
theorem compOfPiece_ne_cur (p : Bytes) : compOfPiece p ≠ some .cur := by
  unfold compOfPiece; repeat' split
  all_goals simp

theorem compOfPiece_none {p : Bytes} (h : compOfPiece p = none) : p = [] ∨ p = [DOT] := by
  unfold compOfPiece at h
  repeat' split at h
  all_goals simp_all

@[simp] theorem compOfPiece_nil : compOfPiece [] = none := by simp [compOfPiece]
@[simp] theorem compOfPiece_dot : compOfPiece [DOT] = none := by simp [compOfPiece]

/-! ### pieces -/
def pieces : Bytes → List Bytes
  | [] => [[]]
  | b :: bs =>
    if b = SEP then [] :: pieces bs
    else match pieces bs with
      | p :: ps => (b :: p) :: ps
      | [] => [[b]]

theorem pieces_ne_nil : ∀ bs : Bytes, pieces bs ≠ []
  | [] => by simp [pieces]
  | b :: bs => by
    have := pieces_ne_nil bs
    unfold pieces; split
    · simp
    · split <;> simp

theorem pieces_append_sep : ∀ xs ys : Bytes, pieces (xs ++ SEP :: ys) = pieces xs ++ pieces ys
  | [], ys => by simp [pieces]
  | b :: xs, ys => by
    have ih := pieces_append_sep xs ys
    have hne := pieces_ne_nil xs
    by_cases hb : b = SEP
    · simp [pieces, hb, ih]
    · simp only [List.cons_append, pieces, hb, if_false, ih]
      cases hp : pieces xs with
      | nil => exact absurd hp hne
      | cons p ps => simp

theorem pieces_noSep : ∀ p : Bytes, SEP ∉ p → pieces p = [p]
  | [], _ => by simp [pieces]
  | b :: bs, h => by
    have hb : b ≠ SEP := fun e => h (by simp [e])
    have ih := pieces_noSep bs (fun e => h (by simp [e]))
    simp [pieces, hb, ih]

/-- the component list of a body, fuel-free -/
def FM (bs : Bytes) : List Comp := (pieces bs).filterMap compOfPiece

@[simp] theorem FM_nil : FM [] = [] := by simp [FM, pieces]

theorem FM_append_sep (xs ys : Bytes) : FM (xs ++ SEP :: ys) = FM xs ++ FM ys := by
  simp [FM, pieces_append_sep]

theorem FM_noSep (p : Bytes) (h : SEP ∉ p) : FM p = (compOfPiece p).toList := by
  simp only [FM, pieces_noSep p h]
  cases hc : compOfPiece p <;> simp [List.filterMap, hc]

@[simp] theorem FM_sep (bs : Bytes) : FM (SEP :: bs) = FM bs := by
  have := FM_append_sep [] bs
  simpa using this

theorem FM_take (bs : Bytes) : FM bs = (compOfPiece (takePiece bs).1).toList ++ FM (takePiece bs).2.1 := by
  have hn := takePiece_noSep bs
  rcases takePiece_spec bs with ⟨_, h2⟩ | ⟨_, h2, h3⟩
  · conv => lhs; rw [h2]
    rw [FM_append_sep, FM_noSep _ hn]
  · conv => lhs; rw [h2]
    rw [h3, FM_noSep _ hn]; simp

theorem bodyComps_eq_FM : ∀ (fuel : Nat) (bs : Bytes), bs.length < fuel → bodyComps fuel bs = FM bs
  | 0, _, h => by omega
  | fuel+1, bs, h => by
    unfold bodyComps
    by_cases hbs : bs = []
    · simp [hbs]
    · simp only [hbs, if_false]
      have hlt := takePiece_rest_lt bs hbs
      have ih := bodyComps_eq_FM fuel (takePiece bs).2.1 (by omega)
      rw [FM_take bs]
      cases hc : compOfPiece (takePiece bs).1 <;> simp [ih]


/-! ### eatComp / dropBody -/
theorem FM_eatComp : ∀ (f : Nat) (x : Bytes), x.length < f → FM (eatComp f x) = (FM x).drop 1
  | 0, _, h => by omega
  | f+1, x, h => by
    unfold eatComp
    by_cases hx : x = []
    · simp [hx]
    · simp only [hx, if_false]
      have hlt := takePiece_rest_lt x hx
      have ih := FM_eatComp f (takePiece x).2.1 (by omega)
      rw [FM_take x]
      cases hc : compOfPiece (takePiece x).1 <;> simp [ih]

theorem FM_dropBody : ∀ (n : Nat) (x : Bytes), FM (dropBody n x) = (FM x).drop n
  | 0, x => by simp [dropBody]
  | n+1, x => by
    unfold dropBody
    by_cases hx : x = []
    · simp [hx]
    · simp only [hx, if_false]
      rw [FM_dropBody n, FM_eatComp _ _ (by omega), List.drop_drop]
      congr 1; omega

/-! ### Plain: names whose components are just the body components -/
def Plain (y : Bytes) : Prop := y.head? ≠ some SEP ∧ includeCurDir y = false

theorem components_plain (y : Bytes) (h : Plain y) : components y = FM y := by
  cases y with
  | nil => simp [components]
  | cons b bs =>
    obtain ⟨h1, h2⟩ := h
    have hb : b ≠ SEP := by simpa using h1
    simp only [components, hb, if_false, h2]
    exact bodyComps_eq_FM _ _ (by simp)

theorem components_sep (bs : Bytes) : components (SEP :: bs) = .root :: FM bs := by
  simp [components, bodyComps_eq_FM]

theorem components_cur (b : UInt8) (bs : Bytes) (h : includeCurDir (b :: bs) = true) :
    components (b :: bs) = .cur :: FM bs := by
  have hb : b ≠ SEP := by
    intro e; subst e
    cases bs <;> simp [includeCurDir, SEP, DOT] at h
  simp [components, hb, h, bodyComps_eq_FM]

theorem plain_of_piece (y : Bytes) (c : Comp) (h : compOfPiece (takePiece y).1 = some c) : Plain y := by
  cases y with
  | nil => simp [Plain, includeCurDir]
  | cons b bs =>
    by_cases hb : b = SEP
    · subst hb; simp at h
    · refine ⟨by simpa using hb, ?_⟩
      cases hi : includeCurDir (b :: bs) with
      | false => rfl
      | true =>
        exfalso
        cases bs with
        | nil =>
          simp [includeCurDir] at hi; subst hi
          simp [takePiece_cons_ne _ _ hb] at h
        | cons c cs =>
          simp [includeCurDir] at hi
          obtain ⟨h1, h2⟩ := hi; subst h1; subst h2
          simp [takePiece_cons_ne _ _ hb] at h

/-! ### trimLeft -/
theorem trimLeft_spec : ∀ (f : Nat) (x : Bytes), x.length < f →
    FM (trimLeft f x) = FM x ∧ Plain (trimLeft f x)
  | 0, _, h => by omega
  | f+1, x, h => by
    unfold trimLeft
    by_cases hx : x = []
    · simp [hx, Plain, includeCurDir]
    · simp only [hx, if_false]
      have hlt := takePiece_rest_lt x hx
      have ih := trimLeft_spec f (takePiece x).2.1 (by omega)
      cases hc : compOfPiece (takePiece x).1 with
      | some c => exact ⟨rfl, plain_of_piece x c hc⟩
      | none =>
        simp only []
        refine ⟨?_, ih.2⟩
        rw [ih.1, FM_take x, hc]; simp


def lastPiece (body : Bytes) : Bytes := (body.reverse.takeWhile (· ≠ SEP)).reverse

theorem trimRight_succ (k fuel : Nat) (bs : Bytes) :
    trimRight k (fuel+1) bs =
      if bs.length ≤ k then bs else
      match compOfPiece (lastPiece (bs.drop k)) with
      | some _ => bs
      | none => trimRight k fuel (bs.take (bs.length - ((lastPiece (bs.drop k)).length +
          (if (lastPiece (bs.drop k)).length < (bs.drop k).length then 1 else 0)))) := rfl

theorem dropWhile_head_false {α : Type} {p : α → Bool} : ∀ {l : List α} {d : α} {ds : List α},
    l.dropWhile p = d :: ds → p d = false
  | [], _, _, h => by simp at h
  | a :: l, d, ds, h => by
    rw [List.dropWhile_cons] at h
    split at h
    · exact dropWhile_head_false h
    · simp at h; obtain ⟨h1, _⟩ := h; subst h1; simp_all

theorem lastPiece_spec (body : Bytes) :
    SEP ∉ lastPiece body ∧
    (lastPiece body = body ∨ ∃ pre, body = pre ++ SEP :: lastPiece body) := by
  constructor
  · unfold lastPiece
    intro h
    have h' := List.mem_reverse.mp h
    have hall := List.all_takeWhile (p := (· ≠ SEP)) (l := body.reverse)
    rw [List.all_eq_true] at hall
    have := hall _ h'
    simp at this
  · have h := List.takeWhile_append_dropWhile (p := (· ≠ SEP)) (l := body.reverse)
    have hb : body = (body.reverse.dropWhile (· ≠ SEP)).reverse ++ lastPiece body := by
      unfold lastPiece
      rw [← List.reverse_append, h, List.reverse_reverse]
    cases hd : body.reverse.dropWhile (· ≠ SEP) with
    | nil => left; rw [hd] at hb; simpa using hb.symm
    | cons d ds =>
      right
      have := dropWhile_head_false hd
      simp at this
      subst this
      refine ⟨ds.reverse, ?_⟩
      rw [hd] at hb
      simpa using hb


theorem lastPiece_length_le (body : Bytes) : (lastPiece body).length ≤ body.length := by
  rcases (lastPiece_spec body).2 with h | ⟨pre, h⟩
  · rw [h]; exact Nat.le_refl _
  · have := congrArg List.length h
    simp at this; omega

@[simp] theorem trimRight_nil (k fuel : Nat) : trimRight k fuel [] = [] := by
  cases fuel <;> simp [trimRight]

/-- how the result of `trimRight 0` relates to its input -/
def TR (t bs : Bytes) : Prop :=
  t = bs ∨ (∃ ys, bs = t ++ SEP :: ys) ∨ (t = [] ∧ includeCurDir bs = true)

theorem trimRight0_spec : ∀ (fuel : Nat) (bs : Bytes),
    FM (trimRight 0 fuel bs) = FM bs ∧ TR (trimRight 0 fuel bs) bs
  | 0, bs => by simp [trimRight, TR]
  | fuel+1, bs => by
    rw [trimRight_succ]
    by_cases hbs : bs = []
    · subst hbs; simp [TR]
    · have hlen : ¬ bs.length ≤ 0 := by
        have : 0 < bs.length := List.length_pos_iff.mpr hbs
        omega
      simp only [hlen, if_false, List.drop_zero]
      cases hc : compOfPiece (lastPiece bs) with
      | some c => simp [TR]
      | none =>
        simp only []
        obtain ⟨hns, hsp⟩ := lastPiece_spec bs
        rcases hsp with h | ⟨pre, h⟩
        · -- no separator: everything goes
          rw [h]; rw [h] at hc hns
          simp only [Nat.lt_irrefl, if_false, Nat.add_zero, Nat.sub_self, List.take_zero, trimRight_nil]
          refine ⟨by rw [FM_noSep bs hns, hc]; simp, ?_⟩
          rcases compOfPiece_none hc with h0 | h0
          · exact absurd h0 hbs
          · subst h0; right; right; simp [includeCurDir]
        · have hl : (lastPiece bs).length < bs.length := by
            have := congrArg List.length h
            simp at this; omega
          have htake : bs.take (bs.length - ((lastPiece bs).length + 1)) = pre := by
            have hlen2 := congrArg List.length h
            simp at hlen2
            have : bs.length - ((lastPiece bs).length + 1) = pre.length := by omega
            rw [this]
            conv => lhs; rw [h]
            simp
          simp only [hl, if_true, htake]
          obtain ⟨ih1, ih2⟩ := trimRight0_spec fuel pre
          have hfm : FM bs = FM pre := by
            conv => lhs; rw [h]
            rw [FM_append_sep, FM_noSep _ hns, hc]; simp
          refine ⟨by rw [ih1, hfm], ?_⟩
          rcases ih2 with e | ⟨ys, e⟩ | ⟨e1, e2⟩
          · right; left; exact ⟨lastPiece bs, by rw [e]; exact h⟩
          · right; left; refine ⟨ys ++ SEP :: lastPiece bs, ?_⟩
            conv => lhs; rw [h, e]
            simp
          · right; right; refine ⟨e1, ?_⟩
            rw [h]
            cases pre with
            | nil => simp [includeCurDir] at e2
            | cons a as =>
              cases as with
              | nil => simp [includeCurDir] at e2 ⊢; exact e2
              | cons a' as' => simpa [includeCurDir] using e2

theorem trimRight1_cons : ∀ (fuel : Nat) (b : UInt8) (bs : Bytes),
    trimRight 1 fuel (b :: bs) = b :: trimRight 0 fuel bs
  | 0, b, bs => by simp [trimRight]
  | fuel+1, b, bs => by
    rw [trimRight_succ, trimRight_succ]
    by_cases hbs : bs = []
    · subst hbs; simp
    · have hpos : 0 < bs.length := List.length_pos_iff.mpr hbs
      have h1 : ¬ (b :: bs).length ≤ 1 := by simp; omega
      have h0 : ¬ bs.length ≤ 0 := by omega
      simp only [h1, h0, if_false, List.drop_zero, List.drop_succ_cons]
      cases hc : compOfPiece (lastPiece bs) with
      | some c => rfl
      | none =>
        simp only []
        have hle := lastPiece_length_le bs
        rw [← trimRight1_cons fuel]
        congr 1
        have : (b :: bs).length - ((lastPiece bs).length + if (lastPiece bs).length < bs.length then 1 else 0)
            = (bs.length - ((lastPiece bs).length + if (lastPiece bs).length < bs.length then 1 else 0)) + 1 := by
          simp only [List.length_cons]; split <;> omega
        rw [this, List.take_succ_cons]

theorem TR_plain {t y : Bytes} (h : TR t y) (hy : Plain y) : Plain t := by
  rcases h with e | ⟨ys, e⟩ | ⟨e, _⟩
  · rw [e]; exact hy
  · subst e
    obtain ⟨h1, h2⟩ := hy
    cases t with
    | nil => simp [Plain, includeCurDir]
    | cons a as =>
      refine ⟨by simpa using h1, ?_⟩
      cases as with
      | nil => simpa [includeCurDir] using h2
      | cons a' as' => simpa [includeCurDir] using h2
  · subst e; simp [Plain, includeCurDir]


theorem components_body (n f2 : Nat) (x : Bytes) :
    components (trimRight 0 f2 (trimLeft ((dropBody n x).length + 1) (dropBody n x))) = (FM x).drop n := by
  obtain ⟨hy1, hy2⟩ := trimLeft_spec ((dropBody n x).length + 1) (dropBody n x) (by omega)
  obtain ⟨ht1, ht2⟩ := trimRight0_spec f2 (trimLeft ((dropBody n x).length + 1) (dropBody n x))
  rw [components_plain _ (TR_plain ht2 hy2), ht1, hy1, FM_dropBody]

/-! ### `skip_cur_dir`: a leading `.` component is dropped -/
/-- drop a leading `.` component (`skip_cur_dir`) -/
def dropCur : List Comp → List Comp
  | .cur :: cs => cs
  | cs => cs

@[simp] theorem dropCur_nil : dropCur [] = [] := rfl
@[simp] theorem dropCur_cur (cs : List Comp) : dropCur (.cur :: cs) = cs := rfl
theorem dropCur_cons_ne (c : Comp) (cs : List Comp) (h : c ≠ .cur) : dropCur (c :: cs) = c :: cs := by
  cases c <;> first | rfl | exact absurd rfl h

theorem dropCur_of_not_mem {l : List Comp} (h : Comp.cur ∉ l) : dropCur l = l := by
  cases l with
  | nil => rfl
  | cons c cs => exact dropCur_cons_ne c cs (fun e => h (by simp [e]))

/-- if `.` can only be the first element, it is gone after `dropCur` -/
theorem cur_not_mem_dropCur {l : List Comp} (h : Comp.cur ∉ l.tail) : Comp.cur ∉ dropCur l := by
  cases l with
  | nil => simp
  | cons c cs =>
    by_cases hc : c = .cur
    · subst hc; simpa using h
    · rw [dropCur_cons_ne c cs hc]
      simp only [List.tail_cons] at h
      simp [h, Ne.symm hc]

theorem cur_not_mem_FM (bs : Bytes) : Comp.cur ∉ FM bs := by
  unfold FM
  intro h
  rw [List.mem_filterMap] at h
  obtain ⟨p, _, hc⟩ := h
  exact compOfPiece_ne_cur p hc

theorem includeCurDir_sep (bs : Bytes) : includeCurDir (SEP :: bs) = false := by
  cases bs <;> simp [includeCurDir, SEP, DOT]

/-- the three shapes of a component list -/
theorem components_cases (raw : Bytes) :
    (∃ bs, components raw = .root :: FM bs) ∨ (∃ bs, components raw = .cur :: FM bs) ∨
    (∃ bs, components raw = FM bs) := by
  cases raw with
  | nil => exact Or.inr (Or.inr ⟨[], by simp [components]⟩)
  | cons b bs =>
    by_cases hb : b = SEP
    · subst hb; exact Or.inl ⟨bs, components_sep bs⟩
    · cases hi : includeCurDir (b :: bs) with
      | true => exact Or.inr (Or.inl ⟨bs, components_cur b bs hi⟩)
      | false => exact Or.inr (Or.inr ⟨b :: bs, components_plain _ ⟨by simpa using hb, hi⟩⟩)

/-- `.` can only be the first component -/
theorem cur_not_mem_tail (raw : Bytes) : Comp.cur ∉ (components raw).tail := by
  rcases components_cases raw with ⟨bs, e⟩ | ⟨bs, e⟩ | ⟨bs, e⟩
  · rw [e]; exact cur_not_mem_FM bs
  · rw [e]; exact cur_not_mem_FM bs
  · rw [e]; exact fun h => cur_not_mem_FM bs (List.mem_of_mem_tail h)

theorem cur_not_mem_drop_succ (n : Nat) (raw : Bytes) : Comp.cur ∉ (components raw).drop (n+1) := by
  intro h
  rw [← List.drop_tail] at h
  exact cur_not_mem_tail raw (List.mem_of_mem_drop h)

theorem stripPath_zero (raw : Bytes) : components (stripPath 0 raw) = dropCur (components raw) := by
  cases raw with
  | nil => simp [stripPath, dropComps, includeCurDir, components]
  | cons b bs =>
    by_cases hb : b = SEP
    · subst hb
      simp only [stripPath, dropComps, includeCurDir_sep, Bool.not_false, Bool.and_false,
        Bool.false_eq_true, if_false, if_true]
      rw [trimRight1_cons, components_sep, components_sep, (trimRight0_spec _ bs).1]
      rfl
    · cases hi : includeCurDir (b :: bs) with
      | true =>
        simp only [stripPath, dropComps, hi, Bool.not_false, Bool.and_true, if_true, List.tail_cons]
        have h := components_body 0 ((trimLeft (bs.length + 1) bs).length + 1) bs
        simp only [dropBody] at h
        rw [components_cur b bs hi, dropCur_cur]
        simpa using h
      | false =>
        simp only [stripPath, dropComps, hb, hi, Bool.not_false, Bool.and_false, Bool.false_eq_true, if_false]
        have hp : Plain (b :: bs) := ⟨by simpa using hb, hi⟩
        obtain ⟨h1, h2⟩ := trimRight0_spec ((b :: bs).length + 1) (b :: bs)
        rw [components_plain _ (TR_plain h2 hp), h1, components_plain _ hp,
          dropCur_of_not_mem (cur_not_mem_FM _)]

/-- stripping removes exactly `n` leading components, and a leading `.` that is left -/
theorem components_stripPath (n : Nat) (raw : Bytes) :
    components (stripPath n raw) = dropCur ((components raw).drop n) := by
  cases n with
  | zero => simpa using stripPath_zero raw
  | succ n =>
    rw [dropCur_of_not_mem (cur_not_mem_drop_succ n raw)]
    cases raw with
    | nil => simp [stripPath, dropComps, trimLeft, components]
    | cons b bs =>
      by_cases hb : b = SEP
      · subst hb
        simp only [stripPath, dropComps, if_true, Bool.not_true, Bool.false_and, Bool.false_eq_true, if_false]
        rw [components_body, components_sep]; simp
      · cases hi : includeCurDir (b :: bs) with
        | true =>
          simp only [stripPath, dropComps, hb, hi, if_true, if_false, Bool.not_true, Bool.false_and,
            Bool.false_eq_true]
          rw [components_body, components_cur b bs hi]; simp
        | false =>
          simp only [stripPath, dropComps, hb, hi, if_true, if_false, Bool.false_eq_true, Bool.not_true,
            Bool.false_and]
          have hp : Plain (b :: bs) := ⟨by simpa using hb, hi⟩
          rw [components_body, components_plain _ hp]

/-- after stripping, no `.` component is left: `./x` and `x` are the same name -/
theorem cur_not_mem_stripPath (n : Nat) (raw : Bytes) : Comp.cur ∉ components (stripPath n raw) := by
  rw [components_stripPath]
  apply cur_not_mem_dropCur
  intro h
  rw [List.tail_drop] at h
  exact cur_not_mem_drop_succ n raw h


/-! ### names of normal components -/
theorem pieces_noSep_mem : ∀ (bs : Bytes) (p : Bytes), p ∈ pieces bs → SEP ∉ p
  | [], p, h => by simp [pieces] at h; subst h; simp
  | b :: bs, p, h => by
    have ih := pieces_noSep_mem bs
    unfold pieces at h
    split at h
    · simp at h
      rcases h with h | h
      · subst h; simp
      · exact ih p h
    · rename_i hb
      split at h
      · rename_i q qs hq
        simp at h
        rcases h with h | h
        · subst h
          have := ih q (by simp [hq])
          simp [this, Ne.symm hb]
        · exact ih p (by simp [hq, h])
      · simp at h; subst h; simp [Ne.symm hb]

theorem FM_normal {bs q : Bytes} (h : Comp.normal q ∈ FM bs) :
    q ≠ [] ∧ q ≠ [46] ∧ q ≠ [46, 46] ∧ (47 : UInt8) ∉ q := by
  unfold FM at h
  rw [List.mem_filterMap] at h
  obtain ⟨p, hp, hc⟩ := h
  obtain ⟨e, h1, h2, h3⟩ := compOfPiece_normal hc
  subst e
  exact ⟨h1, h2, h3, pieces_noSep_mem bs q hp⟩

theorem components_normal {raw q : Bytes} (h : Comp.normal q ∈ components raw) :
    q ≠ [] ∧ q ≠ [46] ∧ q ≠ [46, 46] ∧ (47 : UInt8) ∉ q := by
  cases raw with
  | nil => simp [components] at h
  | cons b bs =>
    by_cases hb : b = SEP
    · subst hb; rw [components_sep] at h; simp at h; exact FM_normal h
    · cases hi : includeCurDir (b :: bs) with
      | true => rw [components_cur b bs hi] at h; simp at h; exact FM_normal h
      | false =>
        rw [components_plain _ ⟨by simpa using hb, hi⟩] at h; exact FM_normal h

theorem safeKey_mem {name : Bytes} {k : Key} (h : safeKey name = some k) {c : Bytes} (hc : c ∈ k) :
    Comp.normal c ∈ components name := by
  unfold safeKey at h
  split at h
  · simp at h
  · simp only [] at h
    split at h
    · simp at h; subst h
      rw [List.mem_filterMap] at hc
      obtain ⟨a, ha, hac⟩ := hc
      cases a <;> simp at hac
      subst hac; exact ha
    · simp at h

theorem safeKey_unsafe (name : Bytes)
    (h : name = [] ∨ Comp.root ∈ components name ∨ Comp.parent ∈ components name) : safeKey name = none := by
  unfold safeKey
  rcases h with h | h | h
  · subst h; simp
  · split
    · rfl
    · simp only []
      split
      · rename_i hall
        rw [List.all_eq_true] at hall
        have := hall _ h
        simp at this
      · rfl
  · split
    · rfl
    · simp only []
      split
      · rename_i hall
        rw [List.all_eq_true] at hall
        have := hall _ h
        simp at this
      · rfl

end RQ
