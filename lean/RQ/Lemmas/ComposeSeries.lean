import RQ.Model.Series
/-!
# The series format: names survive being written to `.pc/applied-patches` and read back

`PlainName n`: `n` is non-empty, has no Unicode `White_Space` character (`WsFree`: `wsLen` is 0 at every byte
offset) and is valid UTF-8 — exactly the condition under which
`readApplied (n ++ "\n") = [⟨n, default strip, forward⟩]` (`plainName_iff`).  A leading `#` is allowed: since the
repair of `hash-named-patch`, `.pc/applied-patches` is read without the comment rule.  Every name `readSeries` (or
`readApplied`) returns is plain (`readSeries_names_plain`): it is a white-space-delimited token of a valid UTF-8 line,
and cutting valid UTF-8 in front of a byte that is not a continuation byte — every white-space character starts with
one (`wsLen_lead`) — and behind a complete character (`wsLen_valid`) leaves valid UTF-8 (`validUtf8_prefixC`,
`validUtf8_append`).

On valid UTF-8, "`wsLen` is 0 at every byte offset" is "no white-space character": the byte patterns of `wsLen` start
with an ASCII byte or a lead byte, so they can match only where a character starts, and there they match exactly the
white-space characters.
-/
namespace RQ.Series
open RQ

/-! ## UTF-8 validity, ASCII bytes and lead bytes -/

theorem validUtf8_cons (b : UInt8) (rest : Bytes) : validUtf8 (b :: rest) =
    (if b < 0x80 then validUtf8 rest
    else if (b ≥ 0xC2 && b ≤ 0xDF) = true then
      match rest with
      | c :: r => c ≥ 0x80 && c ≤ 0xBF && validUtf8 r
      | _ => false
    else if (b ≥ 0xE0 && b ≤ 0xEF) = true then
      match rest with
      | c :: d :: r =>
        c ≥ (if b == 0xE0 then 0xA0 else 0x80 : UInt8) && c ≤ (if b == 0xED then 0x9F else 0xBF : UInt8) &&
          d ≥ 0x80 && d ≤ 0xBF && validUtf8 r
      | _ => false
    else if (b ≥ 0xF0 && b ≤ 0xF4) = true then
      match rest with
      | c :: d :: e :: r =>
        c ≥ (if b == 0xF0 then 0x90 else 0x80 : UInt8) && c ≤ (if b == 0xF4 then 0x8F else 0xBF : UInt8) &&
          d ≥ 0x80 && d ≤ 0xBF && e ≥ 0x80 && e ≤ 0xBF && validUtf8 r
      | _ => false
    else false) := by
  conv => lhs; unfold validUtf8
  rfl

theorem validUtf8_nil : validUtf8 [] = true := by unfold validUtf8; rfl

theorem validUtf8_append (y : Bytes) : ∀ a : Bytes, validUtf8 a = true → validUtf8 (a ++ y) = validUtf8 y := by
  intro a
  induction a using validUtf8.induct with
  | case1 => intro _; rfl
  | case2 b rest hb ih =>
    intro h
    rw [validUtf8_cons, if_pos hb] at h
    rw [List.cons_append, validUtf8_cons, if_pos hb]
    exact ih h
  | case3 b hb h2 c r ih =>
    intro h
    rw [validUtf8_cons, if_neg hb, if_pos h2] at h
    simp only [Bool.and_eq_true] at h
    rw [List.cons_append, List.cons_append, validUtf8_cons, if_neg hb, if_pos h2]
    simp only [h.1.1, h.1.2, Bool.true_and]
    exact ih h.2
  | case4 b rest hb h2 hne =>
    intro h
    rw [validUtf8_cons, if_neg hb, if_pos h2] at h
    cases rest with
    | nil => simp at h
    | cons c r => exact (hne c r rfl).elim
  | case5 b hb h2 h3 c d r ih =>
    intro h
    rw [validUtf8_cons, if_neg hb, if_neg h2, if_pos h3] at h
    simp only [Bool.and_eq_true] at h
    rw [List.cons_append, List.cons_append, List.cons_append, validUtf8_cons, if_neg hb, if_neg h2, if_pos h3]
    simp only [h.1.1.1.1, h.1.1.1.2, h.1.1.2, h.1.2, Bool.true_and]
    exact ih h.2
  | case6 b rest hb h2 h3 hne =>
    intro h
    rw [validUtf8_cons, if_neg hb, if_neg h2, if_pos h3] at h
    match rest, hne with
    | [], _ => simp at h
    | [_], _ => simp at h
    | c :: d :: r, hne => exact (hne c d r rfl).elim
  | case7 b hb h2 h3 h4 c d e r ih =>
    intro h
    rw [validUtf8_cons, if_neg hb, if_neg h2, if_neg h3, if_pos h4] at h
    simp only [Bool.and_eq_true] at h
    rw [List.cons_append, List.cons_append, List.cons_append, List.cons_append, validUtf8_cons, if_neg hb, if_neg h2,
      if_neg h3, if_pos h4]
    obtain ⟨⟨⟨⟨⟨⟨h1, h2'⟩, h3'⟩, h4'⟩, h5'⟩, h6'⟩, h7'⟩ := h
    simp only [h1, h2', h3', h4', h5', h6', Bool.true_and]
    exact ih h7'
  | case8 b rest hb h2 h3 h4 hne =>
    intro h
    rw [validUtf8_cons, if_neg hb, if_neg h2, if_neg h3, if_pos h4] at h
    match rest, hne with
    | [], _ => simp at h
    | [_], _ => simp at h
    | [_, _], _ => simp at h
    | c :: d :: e :: r, hne => exact (hne c d e r rfl).elim
  | case9 b rest hb h2 h3 h4 =>
    intro h
    rw [validUtf8_cons, if_neg hb, if_neg h2, if_neg h3, if_neg h4] at h
    cases h

/-- a continuation byte (80..BF) -/
def isCont (w : UInt8) : Bool := w ≥ 0x80 && w ≤ 0xBF

theorem notCont_absurd {w lo hi : UInt8} (hw : isCont w = false) (hlo : 128 ≤ lo) (hhi : hi ≤ 191)
    (h1 : w ≥ lo) (h2 : w ≤ hi) : False := by
  unfold isCont at hw
  simp only [Bool.and_eq_false_iff, decide_eq_false_iff_not] at hw
  have a := UInt8.le_iff_toNat_le.mp hlo
  have b := UInt8.le_iff_toNat_le.mp hhi
  have c := UInt8.le_iff_toNat_le.mp h1
  have d := UInt8.le_iff_toNat_le.mp h2
  rw [ge_iff_le, UInt8.le_iff_toNat_le, UInt8.le_iff_toNat_le] at hw
  simp at a b hw
  omega

theorem isCont_ascii {b : UInt8} (h : b < 128) : isCont b = false := by
  unfold isCont
  rw [UInt8.lt_iff_toNat_lt] at h
  simp only [Bool.and_eq_false_iff, decide_eq_false_iff_not, ge_iff_le, UInt8.le_iff_toNat_le]
  simp at h ⊢
  omega

theorem cont_false {w lo : UInt8} (hw : w < 128) (hlo : 128 ≤ lo) : decide (w ≥ lo) = false := by
  rw [decide_eq_false_iff_not]
  intro h
  rw [UInt8.lt_iff_toNat_lt] at hw
  rw [UInt8.le_iff_toNat_le] at hlo
  have h' : lo.toNat ≤ w.toNat := UInt8.le_iff_toNat_le.mp h
  simp at hw hlo
  omega

theorem lo3 (b : UInt8) : (128 : UInt8) ≤ (if b == 0xE0 then 0xA0 else 0x80 : UInt8) := by
  split <;> decide
theorem lo4 (b : UInt8) : (128 : UInt8) ≤ (if b == 0xF0 then 0x90 else 0x80 : UInt8) := by
  split <;> decide
theorem hi3 (b : UInt8) : (if b == 0xED then 0x9F else 0xBF : UInt8) ≤ 191 := by
  split <;> decide
theorem hi4 (b : UInt8) : (if b == 0xF4 then 0x8F else 0xBF : UInt8) ≤ 191 := by
  split <;> decide

/-- valid UTF-8 cut in front of a byte that is not a continuation byte (an ASCII byte or a lead byte): what is in
front is valid UTF-8 -/
theorem validUtf8_prefixC (w : UInt8) (t : Bytes) (hw : isCont w = false) :
    ∀ a : Bytes, validUtf8 (a ++ w :: t) = true → validUtf8 a = true := by
  have k0 : (128 : UInt8) ≤ 128 := by decide
  have k1 : (191 : UInt8) ≤ 191 := by decide
  intro a
  induction a using validUtf8.induct with
  | case1 => intro _; exact validUtf8_nil
  | case2 b rest hb ih =>
    intro h
    rw [List.cons_append, validUtf8_cons, if_pos hb] at h
    rw [validUtf8_cons, if_pos hb]
    exact ih h
  | case3 b hb h2 c r ih =>
    intro h
    rw [List.cons_append, List.cons_append, validUtf8_cons, if_neg hb, if_pos h2] at h
    simp only [Bool.and_eq_true] at h
    rw [validUtf8_cons, if_neg hb, if_pos h2]
    simp only [h.1.1, h.1.2, Bool.true_and]
    exact ih h.2
  | case4 b rest hb h2 hne =>
    intro h
    cases rest with
    | nil =>
      rw [List.cons_append, List.nil_append, validUtf8_cons, if_neg hb, if_pos h2] at h
      simp only [Bool.and_eq_true, decide_eq_true_eq] at h
      exact (notCont_absurd hw k0 k1 h.1.1 h.1.2).elim
    | cons c r => exact (hne c r rfl).elim
  | case5 b hb h2 h3 c d r ih =>
    intro h
    rw [List.cons_append, List.cons_append, List.cons_append, validUtf8_cons, if_neg hb, if_neg h2, if_pos h3] at h
    simp only [Bool.and_eq_true] at h
    rw [validUtf8_cons, if_neg hb, if_neg h2, if_pos h3]
    simp only [h.1.1.1.1, h.1.1.1.2, h.1.1.2, h.1.2, Bool.true_and]
    exact ih h.2
  | case6 b rest hb h2 h3 hne =>
    intro h
    match rest, hne with
    | [], _ =>
      rw [List.cons_append, List.nil_append, validUtf8_cons, if_neg hb, if_neg h2, if_pos h3] at h
      cases t with
      | nil => cases h
      | cons d r =>
        simp only [Bool.and_eq_true, decide_eq_true_eq] at h
        exact (notCont_absurd hw (lo3 b) (hi3 b) h.1.1.1.1 h.1.1.1.2).elim
    | [c], _ =>
      rw [List.cons_append, List.cons_append, List.nil_append, validUtf8_cons, if_neg hb, if_neg h2, if_pos h3] at h
      simp only [Bool.and_eq_true, decide_eq_true_eq] at h
      exact (notCont_absurd hw k0 k1 h.1.1.2 h.1.2).elim
    | c :: d :: r, hne => exact (hne c d r rfl).elim
  | case7 b hb h2 h3 h4 c d e r ih =>
    intro h
    rw [List.cons_append, List.cons_append, List.cons_append, List.cons_append, validUtf8_cons, if_neg hb, if_neg h2,
      if_neg h3, if_pos h4] at h
    simp only [Bool.and_eq_true] at h
    rw [validUtf8_cons, if_neg hb, if_neg h2, if_neg h3, if_pos h4]
    obtain ⟨⟨⟨⟨⟨⟨h1, h2'⟩, h3'⟩, h4'⟩, h5'⟩, h6'⟩, h7'⟩ := h
    simp only [h1, h2', h3', h4', h5', h6', Bool.true_and]
    exact ih h7'
  | case8 b rest hb h2 h3 h4 hne =>
    intro h
    match rest, hne with
    | [], _ =>
      rw [List.cons_append, List.nil_append, validUtf8_cons, if_neg hb, if_neg h2, if_neg h3, if_pos h4] at h
      match t with
      | [] => cases h
      | [_] => cases h
      | d :: e :: r =>
        simp only [Bool.and_eq_true, decide_eq_true_eq] at h
        exact (notCont_absurd hw (lo4 b) (hi4 b) h.1.1.1.1.1.1 h.1.1.1.1.1.2).elim
    | [c], _ =>
      rw [List.cons_append, List.cons_append, List.nil_append, validUtf8_cons, if_neg hb, if_neg h2, if_neg h3,
        if_pos h4] at h
      match t with
      | [] => cases h
      | e :: r =>
        simp only [Bool.and_eq_true, decide_eq_true_eq] at h
        exact (notCont_absurd hw k0 k1 h.1.1.1.1.2 h.1.1.1.2).elim
    | [c, d], _ =>
      rw [List.cons_append, List.cons_append, List.cons_append, List.nil_append, validUtf8_cons, if_neg hb, if_neg h2,
        if_neg h3, if_pos h4] at h
      simp only [Bool.and_eq_true, decide_eq_true_eq] at h
      exact (notCont_absurd hw k0 k1 h.1.1.2 h.1.2).elim
    | c :: d :: e :: r, hne => exact (hne c d e r rfl).elim
  | case9 b rest hb h2 h3 h4 =>
    intro h
    rw [List.cons_append, validUtf8_cons, if_neg hb, if_neg h2, if_neg h3, if_neg h4] at h
    cases h

/-- valid UTF-8 cut in front of an ASCII byte -/
theorem validUtf8_prefix (w : UInt8) (t : Bytes) (hw : w < 128) :
    ∀ a : Bytes, validUtf8 (a ++ w :: t) = true → validUtf8 a = true :=
  validUtf8_prefixC w t (isCont_ascii hw)

theorem validUtf8_ascii {w : UInt8} (hw : w < 128) (r : Bytes) : validUtf8 (w :: r) = validUtf8 r := by
  rw [validUtf8_cons, if_pos hw]

theorem isWs_ascii {b : UInt8} (h : isWs b = true) : b < 128 := by
  unfold isWs at h
  simp only [Bool.or_eq_true, beq_iff_eq, Bool.and_eq_true, decide_eq_true_eq] at h
  rcases h with h | ⟨_, h⟩
  · rw [h]; decide
  · rw [UInt8.lt_iff_toNat_lt]
    have := UInt8.le_iff_toNat_le.mp h
    simp at this ⊢
    omega

/-! ## `wsLen`: the white-space character at the head of a byte string -/

/-- what `wsLen` says about the head of the string -/
theorem wsLen_cases {b : UInt8} {bs : Bytes} {n : Nat} (h : wsLen (b :: bs) = n + 1) :
    (isWs b = true ∧ n = 0) ∨ (∃ c r, bs = c :: r ∧ isWs2 b c = true ∧ n = 1) ∨
      (∃ c d r, bs = c :: d :: r ∧ isWs3 b c d = true ∧ n = 2) := by
  match bs with
  | [] =>
    rw [wsLen] at h
    split at h
    · rename_i hb; exact .inl ⟨hb, by omega⟩
    · cases h
  | [c] =>
    rw [wsLen] at h
    split at h
    · rename_i hb; exact .inl ⟨hb, by omega⟩
    · split at h
      · rename_i hb; exact .inr (.inl ⟨c, [], rfl, hb, by omega⟩)
      · cases h
  | c :: d :: r =>
    rw [wsLen] at h
    split at h
    · rename_i hb; exact .inl ⟨hb, by omega⟩
    · split at h
      · rename_i hb; exact .inr (.inl ⟨c, _, rfl, hb, by omega⟩)
      · split at h
        · rename_i hb; exact .inr (.inr ⟨c, d, r, rfl, hb, by omega⟩)
        · cases h

theorem wsLen_zero_isWs {b : UInt8} {r : Bytes} (h : wsLen (b :: r) = 0) : isWs b = false := by
  match r with
  | [] => rw [wsLen] at h; split at h <;> simp_all
  | [c] => rw [wsLen] at h; split at h <;> simp_all
  | c :: d :: r => rw [wsLen] at h; split at h <;> simp_all

theorem wsLen_zero_isWs2 {b c : UInt8} {r : Bytes} (h : wsLen (b :: c :: r) = 0) : isWs2 b c = false := by
  match r with
  | [] => rw [wsLen] at h; repeat' split at h <;> simp_all
  | d :: r => rw [wsLen] at h; repeat' split at h <;> simp_all

theorem wsLen_zero_isWs3 {b c d : UInt8} {r : Bytes} (h : wsLen (b :: c :: d :: r) = 0) : isWs3 b c d = false := by
  rw [wsLen] at h; repeat' split at h <;> simp_all

/-- `wsLen` looks only at a prefix: what is no white space with more bytes following is none without them -/
theorem wsLen_prefix : ∀ (s x : Bytes), wsLen (s ++ x) = 0 → wsLen s = 0
  | [], _, _ => rfl
  | [b], x, h => by
    have := wsLen_zero_isWs (r := x) h
    simp [wsLen, this]
  | [b, c], x, h => by
    have h1 := wsLen_zero_isWs (r := c :: x) h
    have h2 := wsLen_zero_isWs2 (r := x) h
    simp [wsLen, h1, h2]
  | b :: c :: d :: r, x, h => by
    have h1 := wsLen_zero_isWs (r := c :: d :: (r ++ x)) h
    have h2 := wsLen_zero_isWs2 (r := d :: (r ++ x)) h
    have h3 := wsLen_zero_isWs3 (r := r ++ x) h
    simp [wsLen, h1, h2, h3]

theorem isWs2_lead {b c : UInt8} (h : isWs2 b c = true) : b = 0xC2 := by
  unfold isWs2 at h
  simp only [Bool.and_eq_true, beq_iff_eq] at h
  exact h.1

theorem isWs3_lead {b c d : UInt8} (h : isWs3 b c d = true) : b = 0xE1 ∨ b = 0xE2 ∨ b = 0xE3 := by
  unfold isWs3 at h
  simp only [Bool.or_eq_true, Bool.and_eq_true, beq_iff_eq] at h
  rcases h with ((h | h) | h) | h
  · exact .inl h.1.1
  · exact .inr (.inl h.1.1)
  · exact .inr (.inl h.1.1)
  · exact .inr (.inr h.1.1)

/-- a white-space character starts with an ASCII byte or a lead byte, never with a continuation byte -/
theorem wsLen_lead {b : UInt8} {bs : Bytes} {n : Nat} (h : wsLen (b :: bs) = n + 1) : isCont b = false := by
  rcases wsLen_cases h with ⟨hb, _⟩ | ⟨c, r, _, hb, _⟩ | ⟨c, d, r, _, hb, _⟩
  · exact isCont_ascii (isWs_ascii hb)
  · rw [isWs2_lead hb]; decide
  · rcases isWs3_lead hb with e | e | e <;> rw [e] <;> decide

/-- behind a white-space character of valid UTF-8 the rest is valid UTF-8 (the pattern is a whole character) -/
theorem wsLen_valid {b : UInt8} {bs : Bytes} {n : Nat} (h : wsLen (b :: bs) = n + 1)
    (hv : validUtf8 (b :: bs) = true) : validUtf8 (bs.drop n) = true := by
  rcases wsLen_cases h with ⟨hb, rfl⟩ | ⟨c, r, rfl, hb, rfl⟩ | ⟨c, d, r, rfl, hb, rfl⟩
  · rw [validUtf8_ascii (isWs_ascii hb)] at hv
    exact hv
  · rw [isWs2_lead hb] at hv
    rw [validUtf8_cons, if_neg (by decide), if_pos (by decide)] at hv
    simp only [Bool.and_eq_true] at hv
    exact hv.2
  · have hv' : ∀ x : UInt8, x = 0xE1 ∨ x = 0xE2 ∨ x = 0xE3 → validUtf8 (x :: c :: d :: r) = true →
        validUtf8 r = true := by
      intro x hx hvx
      rcases hx with e | e | e <;> subst e <;>
        (rw [validUtf8_cons, if_neg (by decide), if_neg (by decide), if_pos (by decide)] at hvx
         simp only [Bool.and_eq_true] at hvx
         exact hvx.2)
    exact hv' b (isWs3_lead hb) hv

/-! ## tokens -/

/-- no white-space character: `wsLen` is 0 at every byte offset -/
def wsFree : Bytes → Bool
  | [] => true
  | b :: bs => wsLen (b :: bs) == 0 && wsFree bs

/-- no Unicode `White_Space` character (U+0009–U+000D, U+0020, U+0085, U+00A0, U+1680, U+2000–U+200A, U+2028, U+2029,
U+202F, U+205F, U+3000 in UTF-8) starts at any byte offset -/
def WsFree (n : Bytes) : Prop := wsFree n = true

instance (n : Bytes) : Decidable (WsFree n) := inferInstanceAs (Decidable (wsFree n = true))

/-- no white-space character starts inside `cur` when `bs` follows (the invariant of `splitWs bs cur`: `cur` may end
in the middle of a character) -/
def wsFreeIn : Bytes → Bytes → Bool
  | [], _ => true
  | c :: cs, bs => wsLen (c :: (cs ++ bs)) == 0 && wsFreeIn cs bs

theorem wsFreeIn_snoc {b : UInt8} {bs : Bytes} (hb : wsLen (b :: bs) = 0) :
    ∀ cur : Bytes, wsFreeIn cur (b :: bs) = true → wsFreeIn (cur ++ [b]) bs = true
  | [], _ => by simp [wsFreeIn, hb]
  | c :: cs, h => by
    simp only [wsFreeIn, Bool.and_eq_true, beq_iff_eq] at h
    simp only [List.cons_append, wsFreeIn, Bool.and_eq_true, beq_iff_eq, List.append_assoc]
    exact ⟨h.1, wsFreeIn_snoc hb cs h.2⟩

theorem wsFreeIn_wsFree (x : Bytes) : ∀ cur : Bytes, wsFreeIn cur x = true → wsFree cur = true
  | [], _ => rfl
  | c :: cs, h => by
    simp only [wsFreeIn, Bool.and_eq_true, beq_iff_eq] at h
    simp only [wsFree, Bool.and_eq_true, beq_iff_eq]
    exact ⟨wsLen_prefix (c :: cs) x h.1, wsFreeIn_wsFree x cs h.2⟩

theorem wsFreeIn_nil : ∀ cur : Bytes, wsFree cur = true → wsFreeIn cur [] = true
  | [], _ => rfl
  | c :: cs, h => by
    simp only [wsFree, Bool.and_eq_true, beq_iff_eq] at h
    simp only [wsFreeIn, Bool.and_eq_true, beq_iff_eq, List.append_nil]
    exact ⟨h.1, wsFreeIn_nil cs h.2⟩

/-- in particular no ASCII white-space byte -/
theorem WsFree.isWs_false : ∀ {n : Bytes}, WsFree n → ∀ b ∈ n, isWs b = false
  | [], _, _, hm => nomatch hm
  | c :: cs, h, b, hm => by
    unfold WsFree at h
    simp only [wsFree, Bool.and_eq_true, beq_iff_eq] at h
    rcases List.mem_cons.mp hm with rfl | hm
    · exact wsLen_zero_isWs h.1
    · exact WsFree.isWs_false (n := cs) h.2 b hm

theorem splitWs_nil_cur (cur : Bytes) (h : cur ≠ []) : splitWs [] cur = [cur] := by
  cases cur with
  | nil => exact absurd rfl h
  | cons c cs => rfl

theorem splitWs_nil_nil : splitWs [] [] = [] := rfl

/-- skipping `k` bytes with nothing collected is dropping them -/
theorem splitWsSkip_drop : ∀ (k : Nat) (bs : Bytes), splitWsSkip k bs [] = splitWs (bs.drop k) []
  | 0, _ => rfl
  | k+1, [] => by simp [splitWsSkip, splitWs]
  | k+1, _ :: bs => by
    rw [splitWsSkip, List.drop_succ_cons]
    exact splitWsSkip_drop k bs

/-- a byte that starts no white-space character joins the current token -/
theorem splitWs_cons_zero {b : UInt8} {bs : Bytes} (h : wsLen (b :: bs) = 0) (cur : Bytes) :
    splitWs (b :: bs) cur = splitWs bs (cur ++ [b]) := by
  unfold splitWs
  rw [splitWsSkip, h]

/-- a white-space character of `n + 1` bytes ends the current token (if there is one) and is skipped -/
theorem splitWs_cons_ws {b : UInt8} {bs : Bytes} {n : Nat} (h : wsLen (b :: bs) = n + 1) (cur : Bytes) :
    splitWs (b :: bs) cur =
      if cur.isEmpty then splitWs (bs.drop n) [] else cur :: splitWs (bs.drop n) [] := by
  rw [← splitWsSkip_drop]
  unfold splitWs
  rw [splitWsSkip, h]

theorem splitWs_tokens_nil (cur : Bytes) (hc : wsFreeIn cur [] = true) (hv : validUtf8 (cur ++ []) = true) :
    ∀ t ∈ splitWs [] cur, t ≠ [] ∧ WsFree t ∧ validUtf8 t = true := by
  intro t ht
  cases cur with
  | nil => simp [splitWs_nil_nil] at ht
  | cons c cs =>
    rw [splitWs_nil_cur _ (by simp), List.mem_singleton] at ht
    subst ht
    exact ⟨by simp, wsFreeIn_wsFree [] _ hc, by simpa using hv⟩

theorem splitWs_tokens_aux : ∀ (n : Nat) (bs cur : Bytes), bs.length ≤ n → wsFreeIn cur bs = true →
    validUtf8 (cur ++ bs) = true → ∀ t ∈ splitWs bs cur, t ≠ [] ∧ WsFree t ∧ validUtf8 t = true := by
  intro n
  induction n with
  | zero =>
    intro bs cur hl hc hv
    have : bs = [] := List.length_eq_zero_iff.mp (Nat.le_zero.mp hl)
    subst this
    exact splitWs_tokens_nil cur hc hv
  | succ n ih =>
    intro bs cur hl hc hv t ht
    cases bs with
    | nil => exact splitWs_tokens_nil cur hc hv t ht
    | cons b bs =>
      have hl' : bs.length ≤ n := by simpa using hl
      cases hw : wsLen (b :: bs) with
      | zero =>
        rw [splitWs_cons_zero hw] at ht
        exact ih bs (cur ++ [b]) hl' (wsFreeIn_snoc hw cur hc) (by rw [List.append_assoc]; exact hv) t ht
      | succ k =>
        rw [splitWs_cons_ws hw] at ht
        have hvc : validUtf8 cur = true := validUtf8_prefixC b bs (wsLen_lead hw) cur hv
        have hvb : validUtf8 (b :: bs) = true := by rw [validUtf8_append _ _ hvc] at hv; exact hv
        have hrest := ih (bs.drop k) [] (by rw [List.length_drop]; omega) rfl
          (by rw [List.nil_append]; exact wsLen_valid hw hvb)
        by_cases hce : cur.isEmpty = true
        · rw [if_pos hce] at ht; exact hrest t ht
        · rw [if_neg hce] at ht
          rcases List.mem_cons.mp ht with rfl | ht
          · exact ⟨by simpa using hce, wsFreeIn_wsFree _ _ hc, hvc⟩
          · exact hrest t ht

/-- every token is non-empty, free of white space, and valid UTF-8 if the line is.  (`wsFreeIn cur bs`, not
`WsFree cur`: `cur` is collected byte by byte and may end inside a character — with `cur = E2 80`, `bs = A8` the only
token is U+2028.) -/
theorem splitWs_tokens (bs cur : Bytes) (hc : wsFreeIn cur bs = true) (hv : validUtf8 (cur ++ bs) = true) :
    ∀ t ∈ splitWs bs cur, t ≠ [] ∧ WsFree t ∧ validUtf8 t = true :=
  splitWs_tokens_aux bs.length bs cur (Nat.le_refl _) hc hv

/-- the hypothesis `wsFreeIn cur bs` of `splitWs_tokens` cannot be `WsFree cur` -/
example : WsFree [0xE2, 0x80] ∧ validUtf8 ([0xE2, 0x80] ++ [0xA8]) = true ∧
    splitWs [0xA8] [0xE2, 0x80] = [[0xE2, 0x80, 0xA8]] ∧ ¬ WsFree [0xE2, 0x80, 0xA8] := by decide

/-- a non-empty line without white space is one token -/
theorem splitWs_plain : ∀ (bs cur : Bytes), WsFree bs → cur ++ bs ≠ [] → splitWs bs cur = [cur ++ bs] := by
  intro bs
  induction bs with
  | nil =>
    intro cur _ hne
    rw [List.append_nil] at hne ⊢
    exact splitWs_nil_cur cur hne
  | cons b bs ih =>
    intro cur hw _
    unfold WsFree at hw
    simp only [wsFree, Bool.and_eq_true, beq_iff_eq] at hw
    rw [splitWs_cons_zero hw.1, ih (cur ++ [b]) hw.2 (by simp)]
    simp

/-- and only such a line is: if the line is its own single token, it has no white space -/
theorem splitWs_self {n : Bytes} (hv : validUtf8 n = true) (h : splitWs n [] = [n]) : n ≠ [] ∧ WsFree n :=
  have := splitWs_tokens n [] rfl (by simpa using hv) n (by rw [h]; exact List.mem_singleton.mpr rfl)
  ⟨this.1, this.2.1⟩


/-! ## lines -/

theorem splitLines_plain : ∀ (n cur : Bytes), (10 : UInt8) ∉ n → splitLines (n ++ [10]) cur = [cur ++ n] := by
  intro n
  induction n with
  | nil =>
    intro cur _
    simp only [List.nil_append, List.append_nil]
    rw [splitLines]
    · simp only [beq_self_eq_true, if_true]
      cases cur <;> simp [splitLines]
  | cons x n ih =>
    intro cur h
    have hx : (x == 10) = false := by
      simp only [beq_eq_false_iff_ne, ne_eq]
      intro e; exact h (by rw [e]; exact List.mem_cons_self ..)
    rw [List.cons_append, splitLines]
    simp only [hx, Bool.false_eq_true, if_false]
    rw [ih _ (fun hm => h (List.mem_cons_of_mem _ hm))]
    simp

theorem splitLines_append_nl (a b : Bytes) : ∀ cur : Bytes,
    splitLines (a ++ 10 :: b) cur = splitLines (a ++ [10]) cur ++ splitLines b [] := by
  induction a with
  | nil =>
    intro cur
    simp only [List.nil_append]
    rw [splitLines, splitLines]
    · simp only [beq_self_eq_true, if_true]
      cases cur <;> simp [splitLines]
  | cons x a ih =>
    intro cur
    simp only [List.cons_append]
    rw [splitLines, splitLines]
    by_cases hx : (x == 10) = true
    · simp only [hx, if_true]
      rw [ih]; rfl
    · simp only [hx]
      exact ih _

/-- the bytes are empty or end with a newline -/
def Terminated10 (a : Bytes) : Prop := a = [] ∨ ∃ a0, a = a0 ++ [10]

theorem splitLines_append {a : Bytes} (ha : Terminated10 a) (b : Bytes) :
    splitLines (a ++ b) [] = splitLines a [] ++ splitLines b [] := by
  rcases ha with rfl | ⟨a0, rfl⟩
  · simp [splitLines]
  · rw [List.append_assoc, List.singleton_append]
    exact splitLines_append_nl a0 b []

/-! ## `readApplied` of a concatenation -/

theorem collectA_append : ∀ (l1 l2 : List Bytes) (x y : List Entry), collectA l1 = .ok x → collectA l2 = .ok y →
    collectA (l1 ++ l2) = .ok (x ++ y) := by
  intro l1
  induction l1 with
  | nil =>
    intro l2 x y h1 h2
    unfold collectA at h1
    cases h1
    simpa using h2
  | cons l ls ih =>
    intro l2 x y h1 h2
    rw [List.cons_append]
    unfold collectA at h1 ⊢
    split at h1
    · cases h1
    · rename_i hv
      rw [if_neg hv]
      split at h1
      · cases h1
      · exact ih l2 x y h1 h2
      · split at h1
        · cases h1
        · rename_i es hes
          cases h1
          rw [ih l2 es y hes h2]
          rfl

theorem readApplied_append {a b : Bytes} (ha : Terminated10 a) {x y : List Entry} (h1 : readApplied a = .ok x)
    (h2 : readApplied b = .ok y) : readApplied (a ++ b) = .ok (x ++ y) := by
  unfold readApplied at *
  rw [splitLines_append ha]
  exact collectA_append _ _ _ _ h1 h2

/-! ## plain names -/

/-- the name survives `.pc/applied-patches`: non-empty, no Unicode white-space character (space, `\t`, `\n`, `\v`,
`\f`, `\r`, U+0085, U+00A0, U+1680, U+2000–U+200A, U+2028, U+2029, U+202F, U+205F, U+3000), valid UTF-8.  (A leading
`#` is fine.) -/
def PlainName (n : Bytes) : Prop := n ≠ [] ∧ WsFree n ∧ validUtf8 n = true

instance (n : Bytes) : Decidable (PlainName n) := inferInstanceAs (Decidable (_ ∧ _ ∧ _))

/-- what a name reads back as -/
def plainEntry (e : Entry) : Entry := { name := e.name, strip := Extracted.defaultPatchStrip, reverse := false }

theorem stripCr_plain {n : Bytes} (h : WsFree n) : stripCr n = n := by
  unfold stripCr
  split
  · rename_i hl
    simp only [beq_iff_eq] at hl
    have hm : (13 : UInt8) ∈ n := List.mem_of_getLast? hl
    have := h.isWs_false 13 hm
    simp [isWs] at this
  · rfl

theorem not_mem_10 {n : Bytes} (h : WsFree n) : (10 : UInt8) ∉ n := by
  intro hm
  have := h.isWs_false 10 hm
  simp [isWs] at this

/-- **a plain name, written on a line of its own, reads back as itself** -/
theorem plainName_readApplied {n : Bytes} (h : PlainName n) :
    readApplied (n ++ [10]) = .ok [{ name := n, strip := Extracted.defaultPatchStrip, reverse := false }] := by
  obtain ⟨h0, hw, hv⟩ := h
  unfold readApplied
  rw [splitLines_plain n [] (not_mem_10 hw), List.nil_append]
  unfold collectA
  simp only [hv, Bool.not_true, Bool.false_eq_true, if_false]
  rw [stripCr_plain hw]
  unfold parseLineA
  have hne : n.isEmpty = false := by simpa using h0
  simp only [hne, Bool.false_eq_true, if_false]
  rw [splitWs_plain n [] hw (by simpa using h0), List.nil_append]
  simp only [collectA]

/-- `PlainName`, said with `splitWs`: valid UTF-8 that is its own single token -/
theorem plainName_iff_splitWs (n : Bytes) : PlainName n ↔ validUtf8 n = true ∧ splitWs n [] = [n] :=
  ⟨fun ⟨h0, hw, hv⟩ => ⟨hv, by simpa using splitWs_plain n [] hw (by simpa using h0)⟩,
   fun ⟨hv, h⟩ => ⟨(splitWs_self hv h).1, (splitWs_self hv h).2, hv⟩⟩

/-- U+00A0 inside a name: no ASCII white-space byte, valid UTF-8, but not plain — the line `p<U+00A0>q` is the name `p`
with the free argument `q` -/
example : ¬ PlainName [112, 0xC2, 0xA0, 113] := by decide
example : ∀ b ∈ ([112, 0xC2, 0xA0, 113] : Bytes), isWs b = false := by decide
/-- U+200B (zero-width space) is not white space -/
example : PlainName [112, 0xE2, 0x80, 0x8B, 113] := by decide

/-! ## names that come out of a series file are plain -/

theorem parseLine_name {line : Bytes} {e : Entry} (h : parseLine line = .ok (some e)) :
    e.name ∈ splitWs line [] := by
  unfold parseLine at h
  split at h
  · cases h
  · split at h
    · cases h
    · rename_i name hs
      cases h
      rw [hs]; exact List.mem_cons_self ..
    · rename_i name toks _ hs
      split at h
      · cases h
      · cases h
        rw [hs]; exact List.mem_cons_self ..

theorem parseLineA_name {line : Bytes} {e : Entry} (h : parseLineA line = .ok (some e)) :
    e.name ∈ splitWs line [] := by
  unfold parseLineA at h
  split at h
  · cases h
  · split at h
    · cases h
    · rename_i name hs
      cases h
      rw [hs]; exact List.mem_cons_self ..
    · rename_i name toks _ hs
      split at h
      · cases h
      · cases h
        rw [hs]; exact List.mem_cons_self ..

theorem validUtf8_stripCr {l : Bytes} (h : validUtf8 l = true) : validUtf8 (stripCr l) = true := by
  unfold stripCr
  split
  · rename_i hl
    simp only [beq_iff_eq] at hl
    obtain ⟨ys, rfl⟩ := List.getLast?_eq_some_iff.mp hl
    rw [List.dropLast_concat]
    exact validUtf8_prefix 13 [] (by decide) _ h
  · exact h

theorem token_plain {l t : Bytes} (hv : validUtf8 l = true) (ht : t ∈ splitWs (stripCr l) []) : PlainName t :=
  splitWs_tokens (stripCr l) [] rfl (by simpa using validUtf8_stripCr hv) t ht

theorem collect_names_plain : ∀ (ls : List Bytes) (es : List Entry), collect ls = .ok es →
    ∀ e ∈ es, PlainName e.name := by
  intro ls
  induction ls with
  | nil => intro es h; unfold collect at h; cases h; exact fun _ hm => nomatch hm
  | cons l ls ih =>
    intro es h
    unfold collect at h
    split at h
    · cases h
    · rename_i hv
      have hv' : validUtf8 l = true := by simpa using hv
      split at h
      · cases h
      · exact ih es h
      · rename_i e hpl
        split at h
        · cases h
        · rename_i es' hes
          cases h
          intro e' hm
          rcases List.mem_cons.mp hm with rfl | hm
          · exact token_plain hv' (parseLine_name hpl)
          · exact ih es' hes e' hm

/-- **every name `readSeries` returns is plain** — it can be recorded in `.pc/applied-patches` and read back -/
theorem readSeries_names_plain {bytes : Bytes} {es : List Entry} (h : readSeries bytes = .ok es) :
    ∀ e ∈ es, PlainName e.name :=
  collect_names_plain _ es h

theorem collectA_names_plain : ∀ (ls : List Bytes) (es : List Entry), collectA ls = .ok es →
    ∀ e ∈ es, PlainName e.name := by
  intro ls
  induction ls with
  | nil => intro es h; unfold collectA at h; cases h; exact fun _ hm => nomatch hm
  | cons l ls ih =>
    intro es h
    unfold collectA at h
    split at h
    · cases h
    · rename_i hv
      have hv' : validUtf8 l = true := by simpa using hv
      split at h
      · cases h
      · exact ih es h
      · rename_i e hpl
        split at h
        · cases h
        · rename_i es' hes
          cases h
          intro e' hm
          rcases List.mem_cons.mp hm with rfl | hm
          · exact token_plain hv' (parseLineA_name hpl)
          · exact ih es' hes e' hm

theorem readApplied_names_plain {bytes : Bytes} {es : List Entry} (h : readApplied bytes = .ok es) :
    ∀ e ∈ es, PlainName e.name :=
  collectA_names_plain _ es h

/-- `PlainName` is the weakest condition: a name that reads back as itself is plain -/
theorem plainName_iff (n : Bytes) :
    PlainName n ↔
      readApplied (n ++ [10]) = .ok [{ name := n, strip := Extracted.defaultPatchStrip, reverse := false }] :=
  ⟨plainName_readApplied, fun h => readApplied_names_plain h _ (List.mem_singleton.mpr rfl)⟩

#print axioms plainName_iff
#print axioms plainName_iff_splitWs
#print axioms plainName_readApplied
#print axioms readSeries_names_plain
#print axioms readApplied_names_plain
#print axioms splitWs_tokens
#print axioms splitWs_plain

end RQ.Series
