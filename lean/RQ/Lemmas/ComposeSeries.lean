import RQ.Model.Series
/-!
# The series format: names survive being written to `.pc/applied-patches` and read back

`PlainName n`: `n` is non-empty, has no (ASCII) whitespace byte and is valid UTF-8 — exactly the condition under which
`readApplied (n ++ "\n") = [⟨n, default strip, forward⟩]` (`plainName_iff`).  A leading `#` is allowed: since the
repair of `hash-named-patch`, `.pc/applied-patches` is read without the comment rule.  Every name `readSeries` (or
`readApplied`) returns is plain (`readSeries_names_plain`): it is a whitespace-delimited token of a valid UTF-8 line,
and cutting valid UTF-8 at ASCII bytes leaves valid UTF-8 (`validUtf8_prefix`, `validUtf8_append`).
-/
namespace RQ.Series
open RQ

/-! ## UTF-8 validity and ASCII bytes -/

theorem validUtf8_cons (b : UInt8) (rest : Bytes) : validUtf8 (b :: rest) =
    (if b < 0x80 then validUtf8 rest
    else if (b ≥ 0xC2 && b ≤ 0xDF) = true then
      match rest with
      | c :: r => c ≥ 0x80 && c ≤ 0xBF && validUtf8 r
      | _ => false
    else if (b ≥ 0xE0 && b ≤ 0xEF) = true then
      match rest with
      | c :: d :: r =>
        c ≥ (if b == 0xE0 then 0xA0 else 0x80 : UInt8) && c ≤ (if b == 0xED then 0x9F else 0xBF : UInt8) &&
          d ≥ 0x80 && d ≤ 0xBF && validUtf8 r
      | _ => false
    else if (b ≥ 0xF0 && b ≤ 0xF4) = true then
      match rest with
      | c :: d :: e :: r =>
        c ≥ (if b == 0xF0 then 0x90 else 0x80 : UInt8) && c ≤ (if b == 0xF4 then 0x8F else 0xBF : UInt8) &&
          d ≥ 0x80 && d ≤ 0xBF && e ≥ 0x80 && e ≤ 0xBF && validUtf8 r
      | _ => false
    else false) := by
  conv => lhs; unfold validUtf8
  rfl

theorem validUtf8_nil : validUtf8 [] = true := by unfold validUtf8; rfl

theorem validUtf8_append (y : Bytes) : ∀ a : Bytes, validUtf8 a = true → validUtf8 (a ++ y) = validUtf8 y := by
  intro a
  induction a using validUtf8.induct with
  | case1 => intro _; rfl
  | case2 b rest hb ih =>
    intro h
    rw [validUtf8_cons, if_pos hb] at h
    rw [List.cons_append, validUtf8_cons, if_pos hb]
    exact ih h
  | case3 b hb h2 c r ih =>
    intro h
    rw [validUtf8_cons, if_neg hb, if_pos h2] at h
    simp only [Bool.and_eq_true] at h
    rw [List.cons_append, List.cons_append, validUtf8_cons, if_neg hb, if_pos h2]
    simp only [h.1.1, h.1.2, Bool.true_and]
    exact ih h.2
  | case4 b rest hb h2 hne =>
    intro h
    rw [validUtf8_cons, if_neg hb, if_pos h2] at h
    cases rest with
    | nil => simp at h
    | cons c r => exact (hne c r rfl).elim
  | case5 b hb h2 h3 c d r ih =>
    intro h
    rw [validUtf8_cons, if_neg hb, if_neg h2, if_pos h3] at h
    simp only [Bool.and_eq_true] at h
    rw [List.cons_append, List.cons_append, List.cons_append, validUtf8_cons, if_neg hb, if_neg h2, if_pos h3]
    simp only [h.1.1.1.1, h.1.1.1.2, h.1.1.2, h.1.2, Bool.true_and]
    exact ih h.2
  | case6 b rest hb h2 h3 hne =>
    intro h
    rw [validUtf8_cons, if_neg hb, if_neg h2, if_pos h3] at h
    match rest, hne with
    | [], _ => simp at h
    | [_], _ => simp at h
    | c :: d :: r, hne => exact (hne c d r rfl).elim
  | case7 b hb h2 h3 h4 c d e r ih =>
    intro h
    rw [validUtf8_cons, if_neg hb, if_neg h2, if_neg h3, if_pos h4] at h
    simp only [Bool.and_eq_true] at h
    rw [List.cons_append, List.cons_append, List.cons_append, List.cons_append, validUtf8_cons, if_neg hb, if_neg h2,
      if_neg h3, if_pos h4]
    obtain ⟨⟨⟨⟨⟨⟨h1, h2'⟩, h3'⟩, h4'⟩, h5'⟩, h6'⟩, h7'⟩ := h
    simp only [h1, h2', h3', h4', h5', h6', Bool.true_and]
    exact ih h7'
  | case8 b rest hb h2 h3 h4 hne =>
    intro h
    rw [validUtf8_cons, if_neg hb, if_neg h2, if_neg h3, if_pos h4] at h
    match rest, hne with
    | [], _ => simp at h
    | [_], _ => simp at h
    | [_, _], _ => simp at h
    | c :: d :: e :: r, hne => exact (hne c d e r rfl).elim
  | case9 b rest hb h2 h3 h4 =>
    intro h
    rw [validUtf8_cons, if_neg hb, if_neg h2, if_neg h3, if_neg h4] at h
    cases h

theorem cont_false {w lo : UInt8} (hw : w < 128) (hlo : 128 ≤ lo) : decide (w ≥ lo) = false := by
  rw [decide_eq_false_iff_not]
  intro h
  rw [UInt8.lt_iff_toNat_lt] at hw
  rw [UInt8.le_iff_toNat_le] at hlo
  have h' : lo.toNat ≤ w.toNat := UInt8.le_iff_toNat_le.mp h
  simp at hw hlo
  omega

theorem lo3 (b : UInt8) : (128 : UInt8) ≤ (if b == 0xE0 then 0xA0 else 0x80 : UInt8) := by
  split <;> decide
theorem lo4 (b : UInt8) : (128 : UInt8) ≤ (if b == 0xF0 then 0x90 else 0x80 : UInt8) := by
  split <;> decide

theorem validUtf8_prefix (w : UInt8) (t : Bytes) (hw : w < 128) :
    ∀ a : Bytes, validUtf8 (a ++ w :: t) = true → validUtf8 a = true := by
  have c1 := cont_false hw (by decide : (128 : UInt8) ≤ 128)
  intro a
  induction a using validUtf8.induct with
  | case1 => intro _; exact validUtf8_nil
  | case2 b rest hb ih =>
    intro h
    rw [List.cons_append, validUtf8_cons, if_pos hb] at h
    rw [validUtf8_cons, if_pos hb]
    exact ih h
  | case3 b hb h2 c r ih =>
    intro h
    rw [List.cons_append, List.cons_append, validUtf8_cons, if_neg hb, if_pos h2] at h
    simp only [Bool.and_eq_true] at h
    rw [validUtf8_cons, if_neg hb, if_pos h2]
    simp only [h.1.1, h.1.2, Bool.true_and]
    exact ih h.2
  | case4 b rest hb h2 hne =>
    intro h
    cases rest with
    | nil =>
      rw [List.cons_append, List.nil_append, validUtf8_cons, if_neg hb, if_pos h2] at h
      simp only [c1, Bool.false_and] at h
      cases h
    | cons c r => exact (hne c r rfl).elim
  | case5 b hb h2 h3 c d r ih =>
    intro h
    rw [List.cons_append, List.cons_append, List.cons_append, validUtf8_cons, if_neg hb, if_neg h2, if_pos h3] at h
    simp only [Bool.and_eq_true] at h
    rw [validUtf8_cons, if_neg hb, if_neg h2, if_pos h3]
    simp only [h.1.1.1.1, h.1.1.1.2, h.1.1.2, h.1.2, Bool.true_and]
    exact ih h.2
  | case6 b rest hb h2 h3 hne =>
    intro h
    match rest, hne with
    | [], _ =>
      rw [List.cons_append, List.nil_append, validUtf8_cons, if_neg hb, if_neg h2, if_pos h3] at h
      cases t with
      | nil => cases h
      | cons d r =>
        simp only [cont_false hw (lo3 b), Bool.false_and] at h
        cases h
    | [c], _ =>
      rw [List.cons_append, List.cons_append, List.nil_append, validUtf8_cons, if_neg hb, if_neg h2, if_pos h3] at h
      simp only [c1, Bool.and_false, Bool.false_and] at h
      cases h
    | c :: d :: r, hne => exact (hne c d r rfl).elim
  | case7 b hb h2 h3 h4 c d e r ih =>
    intro h
    rw [List.cons_append, List.cons_append, List.cons_append, List.cons_append, validUtf8_cons, if_neg hb, if_neg h2,
      if_neg h3, if_pos h4] at h
    simp only [Bool.and_eq_true] at h
    rw [validUtf8_cons, if_neg hb, if_neg h2, if_neg h3, if_pos h4]
    obtain ⟨⟨⟨⟨⟨⟨h1, h2'⟩, h3'⟩, h4'⟩, h5'⟩, h6'⟩, h7'⟩ := h
    simp only [h1, h2', h3', h4', h5', h6', Bool.true_and]
    exact ih h7'
  | case8 b rest hb h2 h3 h4 hne =>
    intro h
    match rest, hne with
    | [], _ =>
      rw [List.cons_append, List.nil_append, validUtf8_cons, if_neg hb, if_neg h2, if_neg h3, if_pos h4] at h
      match t with
      | [] => cases h
      | [_] => cases h
      | d :: e :: r =>
        simp only [cont_false hw (lo4 b), Bool.false_and] at h
        cases h
    | [c], _ =>
      rw [List.cons_append, List.cons_append, List.nil_append, validUtf8_cons, if_neg hb, if_neg h2, if_neg h3,
        if_pos h4] at h
      match t with
      | [] => cases h
      | e :: r =>
        simp only [c1, Bool.and_false, Bool.false_and] at h
        cases h
    | [c, d], _ =>
      rw [List.cons_append, List.cons_append, List.cons_append, List.nil_append, validUtf8_cons, if_neg hb, if_neg h2,
        if_neg h3, if_pos h4] at h
      simp only [c1, Bool.and_false, Bool.false_and] at h
      cases h
    | c :: d :: e :: r, hne => exact (hne c d e r rfl).elim
  | case9 b rest hb h2 h3 h4 =>
    intro h
    rw [List.cons_append, validUtf8_cons, if_neg hb, if_neg h2, if_neg h3, if_neg h4] at h
    cases h

theorem validUtf8_ascii {w : UInt8} (hw : w < 128) (r : Bytes) : validUtf8 (w :: r) = validUtf8 r := by
  rw [validUtf8_cons, if_pos hw]

theorem isWs_ascii {b : UInt8} (h : isWs b = true) : b < 128 := by
  unfold isWs at h
  simp only [Bool.or_eq_true, beq_iff_eq, Bool.and_eq_true, decide_eq_true_eq] at h
  rcases h with h | ⟨_, h⟩
  · rw [h]; decide
  · rw [UInt8.lt_iff_toNat_lt]
    have := UInt8.le_iff_toNat_le.mp h
    simp at this ⊢
    omega

/-! ## tokens -/

/-- no whitespace byte -/
def WsFree (n : Bytes) : Prop := ∀ b ∈ n, isWs b = false

instance (n : Bytes) : Decidable (WsFree n) := inferInstanceAs (Decidable (∀ b ∈ n, isWs b = false))

theorem splitWs_nil_cur (cur : Bytes) (h : cur ≠ []) : splitWs [] cur = [cur] := by
  cases cur with
  | nil => exact absurd rfl h
  | cons c cs => rfl

/-- every token is non-empty, whitespace-free, and valid UTF-8 if the line is -/
theorem splitWs_tokens : ∀ (bs cur : Bytes), WsFree cur → validUtf8 (cur ++ bs) = true →
    ∀ t ∈ splitWs bs cur, t ≠ [] ∧ WsFree t ∧ validUtf8 t = true := by
  intro bs
  induction bs with
  | nil =>
    intro cur hc hv t ht
    cases cur with
    | nil => simp [splitWs] at ht
    | cons c cs =>
      simp only [splitWs, List.mem_singleton] at ht
      subst ht
      exact ⟨by simp, hc, by simpa using hv⟩
  | cons b bs ih =>
    intro cur hc hv t ht
    rw [splitWs] at ht
    by_cases hb : isWs b = true
    · have hba := isWs_ascii hb
      have hvc : validUtf8 cur = true := validUtf8_prefix b bs hba cur hv
      have hvb : validUtf8 ([] ++ bs) = true := by
        rw [validUtf8_append _ _ hvc, validUtf8_ascii hba] at hv
        exact hv
      simp only [hb, if_true] at ht
      by_cases hce : cur.isEmpty = true
      · simp only [hce, if_true] at ht
        exact ih [] (fun _ h => nomatch h) hvb t ht
      · simp only [hce, Bool.false_eq_true, if_false, List.mem_cons] at ht
        rcases ht with rfl | ht
        · exact ⟨by simpa using hce, hc, hvc⟩
        · exact ih [] (fun _ h => nomatch h) hvb t ht
    · simp only [hb, Bool.false_eq_true, if_false] at ht
      refine ih (cur ++ [b]) ?_ (by rw [List.append_assoc]; exact hv) t ht
      intro x hx
      rcases List.mem_append.mp hx with h | h
      · exact hc x h
      · simp only [List.mem_singleton] at h
        rw [h]; simpa using hb

/-- a whitespace-free non-empty line is one token -/
theorem splitWs_plain : ∀ (bs cur : Bytes), WsFree bs → cur ++ bs ≠ [] → splitWs bs cur = [cur ++ bs] := by
  intro bs
  induction bs with
  | nil =>
    intro cur _ hne
    rw [List.append_nil] at hne ⊢
    exact splitWs_nil_cur cur hne
  | cons b bs ih =>
    intro cur hw _
    rw [splitWs]
    have hb : isWs b = false := hw b (List.mem_cons_self ..)
    simp only [hb, Bool.false_eq_true, if_false]
    rw [ih (cur ++ [b]) (fun x hx => hw x (List.mem_cons_of_mem _ hx)) (by simp)]
    simp

/-! ## lines -/

theorem splitLines_plain : ∀ (n cur : Bytes), (10 : UInt8) ∉ n → splitLines (n ++ [10]) cur = [cur ++ n] := by
  intro n
  induction n with
  | nil =>
    intro cur _
    simp only [List.nil_append, List.append_nil]
    rw [splitLines]
    · simp only [beq_self_eq_true, if_true]
      cases cur <;> simp [splitLines]
  | cons x n ih =>
    intro cur h
    have hx : (x == 10) = false := by
      simp only [beq_eq_false_iff_ne, ne_eq]
      intro e; exact h (by rw [e]; exact List.mem_cons_self ..)
    rw [List.cons_append, splitLines]
    simp only [hx, Bool.false_eq_true, if_false]
    rw [ih _ (fun hm => h (List.mem_cons_of_mem _ hm))]
    simp

theorem splitLines_append_nl (a b : Bytes) : ∀ cur : Bytes,
    splitLines (a ++ 10 :: b) cur = splitLines (a ++ [10]) cur ++ splitLines b [] := by
  induction a with
  | nil =>
    intro cur
    simp only [List.nil_append]
    rw [splitLines, splitLines]
    · simp only [beq_self_eq_true, if_true]
      cases cur <;> simp [splitLines]
  | cons x a ih =>
    intro cur
    simp only [List.cons_append]
    rw [splitLines, splitLines]
    by_cases hx : (x == 10) = true
    · simp only [hx, if_true]
      rw [ih]; rfl
    · simp only [hx]
      exact ih _

/-- the bytes are empty or end with a newline -/
def Terminated10 (a : Bytes) : Prop := a = [] ∨ ∃ a0, a = a0 ++ [10]

theorem splitLines_append {a : Bytes} (ha : Terminated10 a) (b : Bytes) :
    splitLines (a ++ b) [] = splitLines a [] ++ splitLines b [] := by
  rcases ha with rfl | ⟨a0, rfl⟩
  · simp [splitLines]
  · rw [List.append_assoc, List.singleton_append]
    exact splitLines_append_nl a0 b []

/-! ## `readApplied` of a concatenation -/

theorem collectA_append : ∀ (l1 l2 : List Bytes) (x y : List Entry), collectA l1 = .ok x → collectA l2 = .ok y →
    collectA (l1 ++ l2) = .ok (x ++ y) := by
  intro l1
  induction l1 with
  | nil =>
    intro l2 x y h1 h2
    unfold collectA at h1
    cases h1
    simpa using h2
  | cons l ls ih =>
    intro l2 x y h1 h2
    rw [List.cons_append]
    unfold collectA at h1 ⊢
    split at h1
    · cases h1
    · rename_i hv
      rw [if_neg hv]
      split at h1
      · cases h1
      · exact ih l2 x y h1 h2
      · split at h1
        · cases h1
        · rename_i es hes
          cases h1
          rw [ih l2 es y hes h2]
          rfl

theorem readApplied_append {a b : Bytes} (ha : Terminated10 a) {x y : List Entry} (h1 : readApplied a = .ok x)
    (h2 : readApplied b = .ok y) : readApplied (a ++ b) = .ok (x ++ y) := by
  unfold readApplied at *
  rw [splitLines_append ha]
  exact collectA_append _ _ _ _ h1 h2

/-! ## plain names -/

/-- the name survives `.pc/applied-patches`: non-empty, no whitespace byte (space, `\t`, `\n`, `\v`, `\f`, `\r`),
valid UTF-8.  (A leading `#` is fine.) -/
def PlainName (n : Bytes) : Prop := n ≠ [] ∧ WsFree n ∧ validUtf8 n = true

instance (n : Bytes) : Decidable (PlainName n) := inferInstanceAs (Decidable (_ ∧ _ ∧ _))

/-- what a name reads back as -/
def plainEntry (e : Entry) : Entry := { name := e.name, strip := Extracted.defaultPatchStrip, reverse := false }

theorem stripCr_plain {n : Bytes} (h : WsFree n) : stripCr n = n := by
  unfold stripCr
  split
  · rename_i hl
    simp only [beq_iff_eq] at hl
    have hm : (13 : UInt8) ∈ n := List.mem_of_getLast? hl
    have := h 13 hm
    simp [isWs] at this
  · rfl

theorem not_mem_10 {n : Bytes} (h : WsFree n) : (10 : UInt8) ∉ n := by
  intro hm
  have := h 10 hm
  simp [isWs] at this

/-- **a plain name, written on a line of its own, reads back as itself** -/
theorem plainName_readApplied {n : Bytes} (h : PlainName n) :
    readApplied (n ++ [10]) = .ok [{ name := n, strip := Extracted.defaultPatchStrip, reverse := false }] := by
  obtain ⟨h0, hw, hv⟩ := h
  unfold readApplied
  rw [splitLines_plain n [] (not_mem_10 hw), List.nil_append]
  unfold collectA
  simp only [hv, Bool.not_true, Bool.false_eq_true, if_false]
  rw [stripCr_plain hw]
  unfold parseLineA
  have hne : n.isEmpty = false := by simpa using h0
  simp only [hne, Bool.false_eq_true, if_false]
  rw [splitWs_plain n [] hw (by simpa using h0), List.nil_append]
  simp only [collectA]

/-! ## names that come out of a series file are plain -/

theorem parseLine_name {line : Bytes} {e : Entry} (h : parseLine line = .ok (some e)) :
    e.name ∈ splitWs line [] := by
  unfold parseLine at h
  split at h
  · cases h
  · split at h
    · cases h
    · rename_i name hs
      cases h
      rw [hs]; exact List.mem_cons_self ..
    · rename_i name toks _ hs
      split at h
      · cases h
      · cases h
        rw [hs]; exact List.mem_cons_self ..

theorem parseLineA_name {line : Bytes} {e : Entry} (h : parseLineA line = .ok (some e)) :
    e.name ∈ splitWs line [] := by
  unfold parseLineA at h
  split at h
  · cases h
  · split at h
    · cases h
    · rename_i name hs
      cases h
      rw [hs]; exact List.mem_cons_self ..
    · rename_i name toks _ hs
      split at h
      · cases h
      · cases h
        rw [hs]; exact List.mem_cons_self ..

theorem validUtf8_stripCr {l : Bytes} (h : validUtf8 l = true) : validUtf8 (stripCr l) = true := by
  unfold stripCr
  split
  · rename_i hl
    simp only [beq_iff_eq] at hl
    obtain ⟨ys, rfl⟩ := List.getLast?_eq_some_iff.mp hl
    rw [List.dropLast_concat]
    exact validUtf8_prefix 13 [] (by decide) _ h
  · exact h

theorem token_plain {l t : Bytes} (hv : validUtf8 l = true) (ht : t ∈ splitWs (stripCr l) []) : PlainName t :=
  splitWs_tokens (stripCr l) [] (fun _ h => nomatch h) (by simpa using validUtf8_stripCr hv) t ht

theorem collect_names_plain : ∀ (ls : List Bytes) (es : List Entry), collect ls = .ok es →
    ∀ e ∈ es, PlainName e.name := by
  intro ls
  induction ls with
  | nil => intro es h; unfold collect at h; cases h; exact fun _ hm => nomatch hm
  | cons l ls ih =>
    intro es h
    unfold collect at h
    split at h
    · cases h
    · rename_i hv
      have hv' : validUtf8 l = true := by simpa using hv
      split at h
      · cases h
      · exact ih es h
      · rename_i e hpl
        split at h
        · cases h
        · rename_i es' hes
          cases h
          intro e' hm
          rcases List.mem_cons.mp hm with rfl | hm
          · exact token_plain hv' (parseLine_name hpl)
          · exact ih es' hes e' hm

/-- **every name `readSeries` returns is plain** — it can be recorded in `.pc/applied-patches` and read back -/
theorem readSeries_names_plain {bytes : Bytes} {es : List Entry} (h : readSeries bytes = .ok es) :
    ∀ e ∈ es, PlainName e.name :=
  collect_names_plain _ es h

theorem collectA_names_plain : ∀ (ls : List Bytes) (es : List Entry), collectA ls = .ok es →
    ∀ e ∈ es, PlainName e.name := by
  intro ls
  induction ls with
  | nil => intro es h; unfold collectA at h; cases h; exact fun _ hm => nomatch hm
  | cons l ls ih =>
    intro es h
    unfold collectA at h
    split at h
    · cases h
    · rename_i hv
      have hv' : validUtf8 l = true := by simpa using hv
      split at h
      · cases h
      · exact ih es h
      · rename_i e hpl
        split at h
        · cases h
        · rename_i es' hes
          cases h
          intro e' hm
          rcases List.mem_cons.mp hm with rfl | hm
          · exact token_plain hv' (parseLineA_name hpl)
          · exact ih es' hes e' hm

theorem readApplied_names_plain {bytes : Bytes} {es : List Entry} (h : readApplied bytes = .ok es) :
    ∀ e ∈ es, PlainName e.name :=
  collectA_names_plain _ es h

/-- `PlainName` is the weakest condition: a name that reads back as itself is plain -/
theorem plainName_iff (n : Bytes) :
    PlainName n ↔
      readApplied (n ++ [10]) = .ok [{ name := n, strip := Extracted.defaultPatchStrip, reverse := false }] :=
  ⟨plainName_readApplied, fun h => readApplied_names_plain h _ (List.mem_singleton.mpr rfl)⟩

#print axioms plainName_iff
#print axioms readSeries_names_plain

end RQ.Series
