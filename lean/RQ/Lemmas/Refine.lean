import RQ.Spec.Abs
import RQ.Props.C04
import RQ.Props.C11
/-! Helper lemmas for C05: the driver's application loop (memory cache + rollback) refines the abstract
specification `RQ.Abs.applyRange`. -/
namespace RQ.Abs
open RQ RQ.Push

end RQ.Abs
