import RQ.Spec.Abs
import RQ.Props.C04
import RQ.Props.C11
import RQ.Lemmas.RefineSim
/-! Helper lemmas for C05: the driver's application loop (memory cache + rollback) refines the abstract
specification `RQ.Abs.applyRange`.

Layers (`RefineBase` … `RefineSim`, then this file):
* names with equal components are interchangeable; `Mem.get`/`Mem.put` and `look`/`put`/`ofMem`; `SameTree`;
* `FilePatch.apply` ignores and keeps `existed`, records its direction, keeps "deleted ⇒ no content";
* `Ext fs m m'` (`m'` = `m` plus entries loaded from `fs`), `undoAll`, `Undoable`;
* one file patch: `applyOne` against `applyFP`, and the pushed `Status` is `Undoable`;
* here: the rollback loop is `undoAll`, all file patches of a patch, the range. -/
namespace RQ.Abs
open RQ RQ.Push RQ.Spec RQ.Parse RQ.Write

theorem rejsOf_cons (s : Status) (L : List Status) : rejsOf (s :: L) = rejOf s ++ rejsOf L := by
  simp [rejsOf]

theorem rejsOf_append (L1 L2 : List Status) : rejsOf (L1 ++ L2) = rejsOf L1 ++ rejsOf L2 := by
  simp [rejsOf]

/-- the rollback loop of the driver pops exactly the `Status` of the failing patch and undoes them -/
theorem rollback_eq (idx : Nat) (applied0 : List Status) (h0 : ∀ s ∈ applied0, s.index < idx) :
    ∀ (L : List Status) (fuel : Nat) (M : Mem) (R : List (Bytes × Bytes)), L.length < fuel →
      (∀ s ∈ L, s.index = idx) →
      rollbackAndRenderRej fuel { applied := L ++ applied0, mem := M } idx R =
        match undoAll M L with
        | .error e => .error e
        | .ok M' => .ok ({ applied := applied0, mem := M' }, R ++ rejsOf L) := by
  intro L
  induction L with
  | nil =>
    intro fuel M R hf _
    cases fuel with
    | zero => omega
    | succ f =>
      unfold rollbackAndRenderRej
      simp only [List.nil_append, undoAll, rejsOf, List.flatMap_nil, List.append_nil]
      cases applied0 with
      | nil => rfl
      | cons s rest =>
        have hlt := h0 s (by simp)
        simp only
        rw [if_neg (by omega), if_pos hlt]
  | cons s L ih =>
    intro fuel M R hf hidx
    cases fuel with
    | zero => omega
    | succ f =>
      have hs := hidx s (by simp)
      unfold rollbackAndRenderRej
      simp only [List.cons_append, undoAll]
      rw [if_neg (by omega), if_neg (by omega)]
      cases hr : rollbackOne M s with
      | error e => rfl
      | ok r =>
        obtain ⟨mem, x⟩ := r
        simp only
        have hL : L.length < f := by simp only [List.length_cons] at hf; omega
        have hidx' : ∀ s ∈ L, s.index = idx := fun s' hs' => hidx s' (by simp [hs'])
        rw [rejsOf_cons]
        by_cases hfl : s.report.failed = true
        · rw [if_pos hfl, ih f mem _ hL hidx']
          cases undoAll mem L with
          | error e => rfl
          | ok M' => simp [rejOf, hfl]
        · rw [if_neg hfl, ih f mem _ hL hidx']
          cases undoAll mem L with
          | error e => rfl
          | ok M' => simp [rejOf, hfl]

theorem applyFPs_cons (fs : FS) (cfg : Cfg) (entry : Series.Entry) (fp : PFilePatch) (fps : List PFilePatch)
    (t : ATree) (ok : Bool) (rejs : List (Bytes × Bytes)) :
    applyFPs fs cfg entry (fp :: fps) t ok rejs = match applyFP t fs cfg entry fp with
      | .error e => .error e
      | .ok r => applyFPs fs cfg entry fps r.tree (ok && r.ok) (r.rej.toList ++ rejs) := by
  rw [applyFPs]
  cases applyFP t fs cfg entry fp with
  | error e => rfl
  | ok r =>
    simp only
    cases r.rej <;> rfl

/-- all file patches of one patch -/
theorem applyFilePatches_sim {fs : FS} {cfg : Cfg} {i : Nat} {entry : Series.Entry} (fps : List PFilePatch) :
    ∀ (st : St) (t : ATree) (af ok : Bool) (rejs : List (Bytes × Bytes)),
      SameTree fs (ofMem st.mem) t → MemDE st.mem → (∀ fp ∈ fps, fp.WFlen) →
      (∀ fp ∈ fps, fp.rename = true → fp.new.isSome) → af = !ok →
      (∀ st' af', applyFilePatches st fs cfg i entry fps af = .ok (st', af') →
        ∃ t' ok' L, applyFPs fs cfg entry fps t ok rejs = .ok (t', ok', rejsOf L ++ rejs) ∧ af' = !ok' ∧
          SameTree fs (ofMem st'.mem) t' ∧ MemDE st'.mem ∧ st'.applied = L ++ st.applied ∧
          (∀ s ∈ L, s.index = i) ∧ Chain fs st.mem L st'.mem) ∧
      (∀ e, applyFilePatches st fs cfg i entry fps af = .error e →
        applyFPs fs cfg entry fps t ok rejs = .error e) := by
  induction fps with
  | nil =>
    intro st t af ok rejs hs hde _ _ haf
    constructor
    · intro st' af' h
      unfold applyFilePatches at h
      cases h
      exact ⟨t, ok, [], rfl, haf, hs, hde, rfl, fun s hs => (by cases hs), Ext.refl _ _⟩
    · intro e h
      unfold applyFilePatches at h
      cases h
  | cons fp fps ih =>
    intro st t af ok rejs hs hde hw hrn haf
    have hwfp := hw fp (by simp)
    have hwfps : ∀ fp' ∈ fps, fp'.WFlen := fun fp' h' => hw fp' (by simp [h'])
    have hrnfp := hrn fp (by simp)
    have hrnfps : ∀ fp' ∈ fps, fp'.rename = true → fp'.new.isSome := fun fp' h' => hrn fp' (by simp [h'])
    constructor
    · intro st' af' h
      unfold applyFilePatches at h
      split at h
      · cases h
      · rename_i st1 b h1
        obtain ⟨r, hr, hb, hs1, hde1, L1, happ1, hidx1, hundo1, hrej1⟩ := applyOne_ok_sim hs hde hwfp h1
        have haf1 : (af || !b) = !(ok && r.ok) := by
          rw [haf, hb]; cases ok <;> cases r.ok <;> rfl
        obtain ⟨t', ok', L2, hfps, haf', hs', hde', happ2, hidx2, hundo2⟩ :=
          (ih st1 r.tree (af || !b) (ok && r.ok) (r.rej.toList ++ rejs)
            hs1 hde1 hwfps hrnfps haf1).1 st' af' h
        refine ⟨t', ok', L2 ++ L1, ?_, haf', hs', hde', ?_, ?_, Chain.append hundo1 hundo2⟩
        · rw [applyFPs_cons, hr]
          simp only
          rw [hfps, rejsOf_append, hrej1, List.append_assoc]
        · rw [happ2, happ1, List.append_assoc]
        · intro s hs
          rw [List.mem_append] at hs
          cases hs with
          | inl h => exact hidx2 s h
          | inr h => exact hidx1 s h
    · intro e h
      unfold applyFilePatches at h
      split at h
      · rename_i e' h1
        cases h
        rw [applyFPs_cons, applyOne_err_sim hs hde hrnfp h1]
      · rename_i st1 b h1
        obtain ⟨r, hr, hb, hs1, hde1, L1, happ1, hidx1, hundo1, hrej1⟩ := applyOne_ok_sim hs hde hwfp h1
        have haf1 : (af || !b) = !(ok && r.ok) := by
          rw [haf, hb]; cases ok <;> cases r.ok <;> rfl
        have := (ih st1 r.tree (af || !b) (ok && r.ok) (r.rej.toList ++ rejs)
            hs1 hde1 hwfps hrnfps haf1).2 e h
        rw [applyFPs_cons, hr]
        exact this

/-- parsed patches have well-formed hunks -/
theorem parsed_wflen {bytes : Bytes} {strip : Nat} {wh : Bool} {patch : Patch}
    (h : parsePatch bytes strip wh = .ok patch) : ∀ fp ∈ patch.fps, fp.WFlen :=
  fun fp hfp hk hhk => ((C11_wf bytes strip wh patch h fp hfp).2.2.2 hk hhk).1.wflen

/-- parsed renaming patches have a new name -/
theorem parsed_rename_new {bytes : Bytes} {strip : Nat} {wh : Bool} {patch : Patch}
    (h : parsePatch bytes strip wh = .ok patch) : ∀ fp ∈ patch.fps, fp.rename = true → fp.new.isSome :=
  fun fp hfp hr => ((C11_wf bytes strip wh patch h fp hfp).2.2.1 hr).2

/-- the range -/
theorem applyLoop_sim (fs : FS) (cfg : Cfg) (range : List Series.Entry) :
    ∀ (k : Nat) (st : St) (t : ATree), SameTree fs (ofMem st.mem) t → MemDE st.mem →
      (∀ s ∈ st.applied, s.index < k) →
      match applyLoop fs cfg range k st, applyRange fs cfg range k t with
      | .ok (st', k1, rejs), .ok (t', k2, rejs') =>
          k1 = k2 ∧ rejs = rejs' ∧ (cfg.dryRun = false → SameTree fs (ofMem st'.mem) t')
      | .error e, .error e' => e = e'
      | _, _ => False := by
  induction range with
  | nil =>
    intro k st t hs _ _
    unfold applyLoop applyRange
    exact ⟨rfl, rfl, fun _ => hs⟩
  | cons entry rest ih =>
    intro k st t hs hde hidx
    unfold applyLoop applyRange
    cases hpk : patchKey cfg entry.name with
    | none => rfl
    | some pk =>
      simp only
      cases hrd : fs.readFile pk with
      | error e => rfl
      | ok r =>
        obtain ⟨bytes, mode⟩ := r
        simp only
        cases hpp : parsePatch bytes entry.strip false with
        | error e => rfl
        | ok patch =>
          simp only
          have hw := parsed_wflen hpp
          have hsim := applyFilePatches_sim (fs := fs) (cfg := cfg) (i := k) (entry := entry) patch.fps
            st t false true [] hs hde hw (parsed_rename_new hpp) rfl
          cases happ : applyFilePatches st fs cfg k entry patch.fps false with
          | error e =>
            rw [hsim.2 e happ]
          | ok r =>
            obtain ⟨st1, af⟩ := r
            obtain ⟨t', ok', L, hfps, haf, hs1, hde1, happl, hidxL, hundo⟩ := hsim.1 st1 af happ
            rw [hfps]
            simp only [List.append_nil]
            cases ok' with
            | true =>
              simp only [Bool.not_true] at haf
              subst haf
              simp only [Bool.false_eq_true, if_false, if_true]
              apply ih (k + 1) st1 t' hs1 hde1
              intro s hs
              rw [happl, List.mem_append] at hs
              cases hs with
              | inl h => rw [hidxL s h]; omega
              | inr h => have := hidx s h; omega
            | false =>
              simp only [Bool.not_false] at haf
              subst haf
              simp only [if_true, Bool.false_eq_true, if_false]
              cases hdry : cfg.dryRun with
              | true =>
                simp only [if_true]
                exact ⟨trivial, trivial, fun h => by cases h⟩
              | false =>
                simp only [Bool.false_eq_true, if_false]
                obtain ⟨app1, mem1⟩ := st1
                simp only at happl hs1 hde1 hundo
                subst happl
                rw [rollback_eq k st.applied hidx L _ mem1 [] (by simp only [List.length_append]; omega) hidxL]
                obtain ⟨M', hu, hext⟩ := hundo.undoable mem1 (Ext.refl _ _)
                rw [hu]
                simp only [List.nil_append]
                exact ⟨trivial, trivial, fun _ => (Ext.sameTree hext).trans hs⟩

end RQ.Abs
