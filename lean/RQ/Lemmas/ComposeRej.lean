import RQ.Lemmas.PathLemmas
import RQ.Lemmas.SaveFlush
/-!
# Pushes compose (C09) — the reject file of a name outside `.pc` is outside `.pc`

`make_rej_filename` appends `.rej` to the raw name.  The first component of `name ++ ".rej"` is the first component of
`name`, unless `name` has a single component (then it is that component with `.rej` appended) or none (then it is
`.rej` or `..rej`) — never `.pc`.
-/
namespace RQ.Compose
open RQ RQ.Flush

/-- the name of a normal component -/
def nm : Comp → Option Bytes
  | .normal n => some n
  | _ => none

def rejS : Bytes := [46, 114, 101, 106]

theorem makeRejName_eq (raw : Bytes) : makeRejName raw = raw ++ rejS := rfl

theorem sep_not_mem_rejS : SEP ∉ rejS := by decide

theorem compOfPiece_rej (x : Bytes) : compOfPiece (x ++ rejS) = some (.normal (x ++ rejS)) := by
  have hl : (x ++ rejS).length ≥ 4 := by simp [rejS]
  unfold compOfPiece
  have h1 : x ++ rejS ≠ [] := fun e => by rw [e] at hl; simp at hl
  have h2 : x ++ rejS ≠ [DOT] := fun e => by rw [e] at hl; simp at hl
  have h3 : x ++ rejS ≠ [DOT, DOT] := fun e => by rw [e] at hl; simp at hl
  simp [h1, h2, h3]

theorem head_filterMap_cons (c : Comp) (A : List Comp) :
    ((c :: A).filterMap nm).head? = match nm c with | some n => some n | none => (A.filterMap nm).head? := by
  rw [List.filterMap_cons]
  cases nm c <;> rfl

/-- body level: the first normal component of `x ++ ".rej"` is the first normal component of `x`, or is at least
four bytes long -/
theorem FM_rej_head : ∀ (n : Nat) (x : Bytes), x.length < n → ∀ q,
    ((FM (x ++ rejS)).filterMap nm).head? = some q → ((FM x).filterMap nm).head? = some q ∨ 4 ≤ q.length := by
  intro n
  induction n with
  | zero => intro x h; omega
  | succ n ih =>
    intro x hx q hq
    have hn := takePiece_noSep x
    rcases takePiece_spec x with ⟨_, h2⟩ | ⟨_, h2, _⟩
    · -- x = p ++ SEP :: rest
      have hx0 : x ≠ [] := by
        intro e; rw [e] at h2; simp at h2
      have hlt := takePiece_rest_lt x hx0
      generalize (takePiece x).1 = p at h2 hn
      generalize (takePiece x).2.1 = rest at h2 hlt
      subst h2
      rw [List.append_assoc, List.cons_append, FM_append_sep, FM_noSep _ hn] at hq
      rw [FM_append_sep, FM_noSep _ hn]
      cases hc : compOfPiece p with
      | none =>
        rw [hc] at hq
        simp only [Option.toList_none, List.nil_append] at hq ⊢
        exact ih rest (by omega) q hq
      | some c =>
        rw [hc] at hq
        simp only [Option.toList_some, List.cons_append, List.nil_append] at hq ⊢
        rw [head_filterMap_cons] at hq ⊢
        cases hnm : nm c with
        | some m => rw [hnm] at hq; exact .inl hq
        | none => rw [hnm] at hq; exact ih rest (by omega) q hq
    · -- no separator in x
      rw [← h2] at hn
      have hn' : SEP ∉ x ++ rejS := by
        intro hm
        rcases List.mem_append.mp hm with h | h
        · exact hn h
        · exact sep_not_mem_rejS h
      rw [FM_noSep _ hn', compOfPiece_rej] at hq
      simp only [Option.toList_some, List.filterMap_cons, nm, List.filterMap_nil, List.head?_cons,
        Option.some.injEq] at hq
      right
      rw [← hq]
      simp [rejS]

theorem safeKey_eq_filterMap {name : Bytes} {k : Key} (h : safeKey name = some k) :
    name ≠ [] ∧ k = (components name).filterMap nm := by
  unfold safeKey at h
  split at h
  · cases h
  · rename_i hne
    simp only at h
    split at h
    · cases h
      refine ⟨by simpa using hne, ?_⟩
      congr 1
    · cases h

/-- **the reject file of a name outside `.pc` is outside `.pc`** -/
theorem safeKey_rej_not_pc {n : Bytes} {k k' : Key} (h : safeKey n = some k) (hk : ¬ isPcKey k)
    (h' : safeKey (makeRejName n) = some k') : ¬ isPcKey k' := by
  obtain ⟨hn0, hk1⟩ := safeKey_eq_filterMap h
  obtain ⟨_, hk2⟩ := safeKey_eq_filterMap h'
  rw [makeRejName_eq] at hk2 h'
  -- body-level conclusion
  have key : ∀ x : Bytes, k = (FM x).filterMap nm → k' = (FM (x ++ rejS)).filterMap nm → ¬ isPcKey k' := by
    intro x e1 e2 hpc
    unfold isPcKey at hpc hk
    rw [e2] at hpc
    rcases FM_rej_head (x.length + 1) x (Nat.lt_succ_self _) _ hpc with h1 | h1
    · exact hk (by rw [e1]; exact h1)
    · simp at h1
  cases n with
  | nil => exact absurd rfl hn0
  | cons b bs =>
    have hb : b ≠ SEP := by
      intro e
      subst e
      rw [safeKey_unsafe _ (.inr (.inl (by rw [components_sep]; simp)))] at h
      cases h
    cases hi : includeCurDir (b :: bs) with
    | true =>
      have hcases : b = DOT ∧ (bs = [] ∨ ∃ t', bs = SEP :: t') := by
        cases bs with
        | nil => simp [includeCurDir] at hi; exact ⟨hi, Or.inl rfl⟩
        | cons c t' => simp [includeCurDir] at hi; exact ⟨hi.1, Or.inr ⟨t', by rw [hi.2]⟩⟩
      obtain ⟨hb', hbs⟩ := hcases
      subst hb'
      rcases hbs with rfl | ⟨t', rfl⟩
      · -- the name `.`
        have : safeKey ([DOT] ++ rejS) = some [[46, 46, 114, 101, 106]] := by decide
        rw [this] at h'
        cases h'
        unfold isPcKey
        decide
      · rw [components_cur _ _ hi] at hk1
        have hi2 : includeCurDir (DOT :: (SEP :: t' ++ rejS)) = true := by simp [includeCurDir]
        rw [List.cons_append, components_cur _ _ hi2] at hk2
        exact key (SEP :: t') (by rw [hk1]; rfl) (by rw [hk2]; rfl)
    | false =>
      have hp : Plain (b :: bs) := ⟨by simpa using hb, hi⟩
      have hp2 : Plain (b :: bs ++ rejS) := by
        refine ⟨by simpa using hb, ?_⟩
        cases bs with
        | nil =>
          have hbd : b ≠ DOT := by simpa [includeCurDir] using hi
          simp [includeCurDir, rejS, hbd]
        | cons c t => simpa [includeCurDir] using hi
      rw [components_plain _ hp] at hk1
      rw [components_plain _ hp2] at hk2
      exact key (b :: bs) hk1 hk2

#print axioms safeKey_rej_not_pc

end RQ.Compose
