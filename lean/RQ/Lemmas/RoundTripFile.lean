import RQ.Lemmas.RoundTripLocal
import RQ.Lemmas.RoundTripInvFile
/-! C12 layer 4: the lines of a written file-patch header are read back. -/
namespace RQ.Write
open RQ RQ.Parse

/-! ### single lines -/

theorem hdrNoMatch_nil : hdrNoMatch [] = true := by
  rw [hdrNoMatch_iff]; rfl

theorem hdrNoMatch_of_head (b : UInt8) (t : Bytes) (hb : b ≠ 64) : hdrNoMatch (b :: t) = true := by
  rw [hdrNoMatch_iff]
  simp only [sHunkStart, stripPrefix]
  have : ((64:UInt8) == b) = false := by simpa using fun h => hb h.symm
  simp [this]

theorem parseFilename_space (x : Bytes) : parseFilename (32 :: x) = parseFilename x := by
  unfold parseFilename
  simp only [splitAtCond, show (!isSpace 32) = false from by decide, Bool.false_eq_true, if_false]

theorem NLfree_escByte (c : UInt8) : NLfree (escByte c) := by
  unfold escByte
  split
  · rename_i h
    simp only [Bool.or_eq_true, beq_iff_eq] at h
    rcases h with rfl | rfl <;> (unfold NLfree; decide)
  · split
    · rename_i h
      rcases ws_cases c h with rfl | rfl | rfl | rfl | rfl | rfl <;> (unfold NLfree; decide)
    · rename_i h
      intro x hx
      simp at hx; subst hx
      intro e; subst e
      exact h (by decide)

theorem NLfree_writeName (n : Bytes) : NLfree (writeName n) := by
  by_cases hq : (!n.isEmpty && n.head? != some 34 && !n.any isWhitespace) = true
  · have e : writeName n = n := by unfold writeName; rw [if_pos hq]
    rw [e]
    simp only [Bool.and_eq_true, Bool.not_eq_true'] at hq
    have h3 := hq.2
    rw [List.any_eq_false] at h3
    intro x hx e; subst e
    exact h3 10 hx (by decide)
  · have hq' : (!n.isEmpty && n.head? != some 34 && !n.any isWhitespace) = false := by simpa using hq
    rw [writeName_quoted n hq']
    refine NLfree_cons (by decide) (NLfree_append ?_ (NLfree_cons (by decide) NLfree_nil))
    intro x hx
    simp only [List.mem_flatten, List.mem_map] at hx
    obtain ⟨l, ⟨c, _, rfl⟩, hxl⟩ := hx
    exact NLfree_escByte c x hxl

theorem takeLineIncl_nl (rest : Bytes) : takeLineIncl (10 :: rest) = .ok (rest, [10]) := by
  simp [takeLineIncl, NL]

/-- the `diff --git` line -/
theorem parse_diffLine (git : Bool) (o n rest : Bytes) (ho : o ≠ nullFilename) (hn : n ≠ nullFilename) :
    parsePatchLine git (sDiffGit ++ (writeName o ++ 32 :: (writeName n ++ 10 :: rest))) =
      .ok (rest, .mline (.gitDiff (.real o) (.real n))) := by
  apply parsePatchLine_mline
  rw [meta_gitDiff]
  unfold gitDiffBody
  rw [parseFilename_writeName o _ ho (Stops_cons _ _ _ (by decide))]
  simp only [bind, Except.bind]
  rw [parseFilename_space, parseFilename_writeName n _ hn (Stops_cons _ _ _ (by decide))]
  simp only []
  rw [takeLineIncl_nl]
  rfl

theorem meta_err_of_head (b : UInt8) (t : Bytes) (h1 : b ≠ 100) (h2 : b ≠ 45) (h3 : b ≠ 43) :
    parseMetadataLine (b :: t) = .error .noMatch := by
  unfold parseMetadataLine
  simp [h1, h2, h3]

theorem parse_renameFrom (o rest : Bytes) :
    parsePatchLine true (sRenameFrom ++ (writeName o ++ 10 :: rest)) = .ok (rest, .git .renameFrom) := by
  refine parsePatchLine_git _ _ _ .noMatch (meta_err_of_head 114 _ (by decide) (by decide) (by decide)) ?_
  rw [git_renameFrom]
  exact skipBody_fwd _ _ _ (NLfree_writeName o)

theorem parse_renameTo (o rest : Bytes) :
    parsePatchLine true (sRenameTo ++ (writeName o ++ 10 :: rest)) = .ok (rest, .git .renameTo) := by
  refine parsePatchLine_git _ _ _ .noMatch (meta_err_of_head 114 _ (by decide) (by decide) (by decide)) ?_
  rw [git_renameTo]
  exact skipBody_fwd _ _ _ (NLfree_writeName o)

theorem modeBody_oct6 (k : Nat → GitLine) (m : Nat) (rest : Bytes) (hm : m < 8 ^ 6) :
    modeBody k (oct6 m ++ 10 :: rest) = .ok (rest, k m) := by
  obtain ⟨h1, h2, h3⟩ := oct6_spec m hm
  have := modeBody_fwd k [] (oct6 m) rest (by simp) h2 h1
  rw [h3] at this
  simpa using this

theorem parse_oldMode (m : Nat) (rest : Bytes) (hm : m < 8 ^ 6) :
    parsePatchLine true (sOldMode ++ (oct6 m ++ 10 :: rest)) = .ok (rest, .git (.oldMode m)) := by
  refine parsePatchLine_git _ _ _ .noMatch (meta_err_of_head 111 _ (by decide) (by decide) (by decide)) ?_
  rw [git_oldMode]; exact modeBody_oct6 _ m rest hm

theorem parse_newMode (m : Nat) (rest : Bytes) (hm : m < 8 ^ 6) :
    parsePatchLine true (sNewMode ++ (oct6 m ++ 10 :: rest)) = .ok (rest, .git (.newMode m)) := by
  refine parsePatchLine_git _ _ _ .noMatch (meta_err_of_head 110 _ (by decide) (by decide) (by decide)) ?_
  rw [git_newMode]; exact modeBody_oct6 _ m rest hm

theorem parse_newFileMode (m : Nat) (rest : Bytes) (hm : m < 8 ^ 6) :
    parsePatchLine true (sNewFileMode ++ (oct6 m ++ 10 :: rest)) = .ok (rest, .git (.newFileMode m)) := by
  refine parsePatchLine_git _ _ _ .noMatch (meta_err_of_head 110 _ (by decide) (by decide) (by decide)) ?_
  rw [git_newFileMode]; exact modeBody_oct6 _ m rest hm

theorem parse_deletedFileMode (m : Nat) (rest : Bytes) (hm : m < 8 ^ 6) :
    parsePatchLine true (sDeletedFileMode ++ (oct6 m ++ 10 :: rest)) = .ok (rest, .git (.deletedFileMode m)) := by
  refine parsePatchLine_git _ _ _ .noMatch (by rfl) ?_
  rw [git_deletedFileMode]; exact modeBody_oct6 _ m rest hm

theorem parse_index (a b rest : Bytes) (ha : HexNE a) (hb : HexNE b) :
    parsePatchLine true (sIndex ++ (a ++ (sDotDot ++ (b ++ 10 :: rest)))) = .ok (rest, .git (.index a b none)) := by
  refine parsePatchLine_git _ _ _ .noMatch (meta_err_of_head 105 _ (by decide) (by decide) (by decide)) ?_
  rw [git_index]; exact indexBody_fwd1 a b rest ha hb

theorem parseFilename_null (rest : Bytes) :
    parseFilename (Extracted.nullFilename ++ 10 :: rest) = .ok (10 :: rest, .devNull) := by
  unfold parseFilename
  rw [splitAtCond_stop (fun c => !isSpace c) _ (Stops_append_of _ Extracted.nullFilename _ 47 _ rfl (by decide))]
  simp only []
  have hc : parseCString (Extracted.nullFilename ++ 10 :: rest) = .error .noMatch := rfl
  rw [hc]
  simp only []
  unfold parseFilenameDirect
  rw [splitAtCond_append isWhitespace Extracted.nullFilename (10 :: rest) (by decide) (Stops_cons _ _ _ (by decide))]
  rfl

/-- what the `---` / `+++` line carries for a name -/
def nameBytes (n : Option Bytes) : Bytes := match n with | some n => writeName n | none => Extracted.nullFilename
def nameVal (n : Option Bytes) : Filename := match n with | some n => .real n | none => .devNull

theorem parseFilename_nameBytes (n : Option Bytes) (rest : Bytes) (hn : n ≠ some nullFilename) :
    parseFilename (nameBytes n ++ 10 :: rest) = .ok (10 :: rest, nameVal n) := by
  cases n with
  | none => exact parseFilename_null rest
  | some x => exact parseFilename_writeName x _ (by intro e; exact hn (by rw [e])) (Stops_cons _ _ _ (by decide))

theorem nameBody_fwd (k : Filename → MetaLine) (n : Option Bytes) (rest : Bytes) (hn : n ≠ some nullFilename) :
    nameBody k (nameBytes n ++ 10 :: rest) = .ok (rest, k (nameVal n)) := by
  unfold nameBody
  rw [parseFilename_nameBytes n rest hn]
  simp only [bind, Except.bind]
  rw [takeLineIncl_nl]
  rfl

theorem parse_minus (git : Bool) (n : Option Bytes) (rest : Bytes) (hn : n ≠ some nullFilename) :
    parsePatchLine git (sMinus ++ (nameBytes n ++ 10 :: rest)) = .ok (rest, .mline (.minus (nameVal n))) := by
  apply parsePatchLine_mline
  rw [meta_minus]; exact nameBody_fwd _ n rest hn

theorem parse_plus (git : Bool) (n : Option Bytes) (rest : Bytes) (hn : n ≠ some nullFilename) :
    parsePatchLine git (sPlus ++ (nameBytes n ++ 10 :: rest)) = .ok (rest, .mline (.plus (nameVal n))) := by
  apply parsePatchLine_mline
  rw [meta_plus]; exact nameBody_fwd _ n rest hn

end RQ.Write
