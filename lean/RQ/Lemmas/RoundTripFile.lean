import RQ.Lemmas.RoundTripLocal
import RQ.Lemmas.RoundTripInvFile
/-! C12 layer 4: the lines of a written file-patch header are read back. -/
namespace RQ.Write
open RQ RQ.Parse

/-! ### single lines -/

theorem hdrNoMatch_nil : hdrNoMatch [] = true := by
  rw [hdrNoMatch_iff]; rfl

theorem hdrNoMatch_of_head (b : UInt8) (t : Bytes) (hb : b ≠ 64) : hdrNoMatch (b :: t) = true := by
  rw [hdrNoMatch_iff]
  simp only [sHunkStart, stripPrefix]
  have : ((64:UInt8) == b) = false := by simpa using fun h => hb h.symm
  simp [this]

theorem parseFilename_space (x : Bytes) : parseFilename (32 :: x) = parseFilename x := by
  unfold parseFilename
  simp only [splitAtCond, show (!isSpace 32) = false from by decide, Bool.false_eq_true, if_false]

theorem NLfree_escByte (c : UInt8) : NLfree (escByte c) := by
  unfold escByte
  split
  · rename_i h
    simp only [Bool.or_eq_true, beq_iff_eq] at h
    rcases h with rfl | rfl <;> (unfold NLfree; decide)
  · split
    · rename_i h
      rcases ws_cases c h with rfl | rfl | rfl | rfl | rfl | rfl <;> (unfold NLfree; decide)
    · rename_i h
      intro x hx
      simp at hx; subst hx
      intro e; subst e
      exact h (by decide)

theorem NLfree_writeName (n : Bytes) : NLfree (writeName n) := by
  by_cases hq : (!n.isEmpty && n.head? != some 34 && !n.any isWhitespace) = true
  · have e : writeName n = n := by unfold writeName; rw [if_pos hq]
    rw [e]
    simp only [Bool.and_eq_true, Bool.not_eq_true'] at hq
    have h3 := hq.2
    rw [List.any_eq_false] at h3
    intro x hx e; subst e
    exact h3 10 hx (by decide)
  · have hq' : (!n.isEmpty && n.head? != some 34 && !n.any isWhitespace) = false := by simpa using hq
    rw [writeName_quoted n hq']
    refine NLfree_cons (by decide) (NLfree_append ?_ (NLfree_cons (by decide) NLfree_nil))
    intro x hx
    simp only [List.mem_flatten, List.mem_map] at hx
    obtain ⟨l, ⟨c, _, rfl⟩, hxl⟩ := hx
    exact NLfree_escByte c x hxl

theorem takeLineIncl_nl (rest : Bytes) : takeLineIncl (10 :: rest) = .ok (rest, [10]) := by
  simp [takeLineIncl, NL]

/-- the `diff --git` line -/
theorem parse_diffLine (git : Bool) (o n rest : Bytes) (ho : o ≠ nullFilename) (hn : n ≠ nullFilename) :
    parsePatchLine git (sDiffGit ++ (writeName o ++ 32 :: (writeName n ++ 10 :: rest))) =
      .ok (rest, .mline (.gitDiff (.real o) (.real n))) := by
  apply parsePatchLine_mline
  rw [meta_gitDiff]
  unfold gitDiffBody
  rw [parseFilename_writeName o _ ho (Stops_cons _ _ _ (by decide))]
  simp only [bind, Except.bind]
  rw [parseFilename_space, parseFilename_writeName n _ hn (Stops_cons _ _ _ (by decide))]
  simp only []
  rw [takeLineIncl_nl]
  rfl

theorem meta_err_of_head (b : UInt8) (t : Bytes) (h1 : b ≠ 100) (h2 : b ≠ 45) (h3 : b ≠ 43) :
    parseMetadataLine (b :: t) = .error .noMatch := by
  unfold parseMetadataLine
  simp [h1, h2, h3]

theorem parse_renameFrom (o rest : Bytes) :
    parsePatchLine true (sRenameFrom ++ (writeName o ++ 10 :: rest)) = .ok (rest, .git .renameFrom) := by
  refine parsePatchLine_git _ _ _ .noMatch (meta_err_of_head 114 _ (by decide) (by decide) (by decide)) ?_
  rw [git_renameFrom]
  exact skipBody_fwd _ _ _ (NLfree_writeName o)

theorem parse_renameTo (o rest : Bytes) :
    parsePatchLine true (sRenameTo ++ (writeName o ++ 10 :: rest)) = .ok (rest, .git .renameTo) := by
  refine parsePatchLine_git _ _ _ .noMatch (meta_err_of_head 114 _ (by decide) (by decide) (by decide)) ?_
  rw [git_renameTo]
  exact skipBody_fwd _ _ _ (NLfree_writeName o)

theorem modeBody_oct6 (k : Nat → GitLine) (m : Nat) (rest : Bytes) (hm : m < 8 ^ 6) :
    modeBody k (oct6 m ++ 10 :: rest) = .ok (rest, k m) := by
  obtain ⟨h1, h2, h3⟩ := oct6_spec m hm
  have := modeBody_fwd k [] (oct6 m) rest (by simp) h2 h1
  rw [h3] at this
  simpa using this

theorem parse_oldMode (m : Nat) (rest : Bytes) (hm : m < 8 ^ 6) :
    parsePatchLine true (sOldMode ++ (oct6 m ++ 10 :: rest)) = .ok (rest, .git (.oldMode m)) := by
  refine parsePatchLine_git _ _ _ .noMatch (meta_err_of_head 111 _ (by decide) (by decide) (by decide)) ?_
  rw [git_oldMode]; exact modeBody_oct6 _ m rest hm

theorem parse_newMode (m : Nat) (rest : Bytes) (hm : m < 8 ^ 6) :
    parsePatchLine true (sNewMode ++ (oct6 m ++ 10 :: rest)) = .ok (rest, .git (.newMode m)) := by
  refine parsePatchLine_git _ _ _ .noMatch (meta_err_of_head 110 _ (by decide) (by decide) (by decide)) ?_
  rw [git_newMode]; exact modeBody_oct6 _ m rest hm

theorem parse_newFileMode (m : Nat) (rest : Bytes) (hm : m < 8 ^ 6) :
    parsePatchLine true (sNewFileMode ++ (oct6 m ++ 10 :: rest)) = .ok (rest, .git (.newFileMode m)) := by
  refine parsePatchLine_git _ _ _ .noMatch (meta_err_of_head 110 _ (by decide) (by decide) (by decide)) ?_
  rw [git_newFileMode]; exact modeBody_oct6 _ m rest hm

theorem parse_deletedFileMode (m : Nat) (rest : Bytes) (hm : m < 8 ^ 6) :
    parsePatchLine true (sDeletedFileMode ++ (oct6 m ++ 10 :: rest)) = .ok (rest, .git (.deletedFileMode m)) := by
  refine parsePatchLine_git _ _ _ .noMatch (by rfl) ?_
  rw [git_deletedFileMode]; exact modeBody_oct6 _ m rest hm

theorem parse_index (a b rest : Bytes) (ha : HexNE a) (hb : HexNE b) :
    parsePatchLine true (sIndex ++ (a ++ (sDotDot ++ (b ++ 10 :: rest)))) = .ok (rest, .git (.index a b none)) := by
  refine parsePatchLine_git _ _ _ .noMatch (meta_err_of_head 105 _ (by decide) (by decide) (by decide)) ?_
  rw [git_index]; exact indexBody_fwd1 a b rest ha hb

theorem parseFilename_null (rest : Bytes) :
    parseFilename (Extracted.nullFilename ++ 10 :: rest) = .ok (10 :: rest, .devNull) := by
  unfold parseFilename
  rw [splitAtCond_stop (fun c => !isSpace c) _ (Stops_append_of _ Extracted.nullFilename _ 47 _ rfl (by decide))]
  simp only []
  have hc : parseCString (Extracted.nullFilename ++ 10 :: rest) = .error .noMatch := rfl
  rw [hc]
  simp only []
  unfold parseFilenameDirect
  rw [splitAtCond_append isWhitespace Extracted.nullFilename (10 :: rest) (by decide) (Stops_cons _ _ _ (by decide))]
  rfl

/-- what the `---` / `+++` line carries for a name -/
def nameBytes (n : Option Bytes) : Bytes := match n with | some n => writeName n | none => Extracted.nullFilename
def nameVal (n : Option Bytes) : Filename := match n with | some n => .real n | none => .devNull

theorem parseFilename_nameBytes (n : Option Bytes) (rest : Bytes) (hn : n ≠ some nullFilename) :
    parseFilename (nameBytes n ++ 10 :: rest) = .ok (10 :: rest, nameVal n) := by
  cases n with
  | none => exact parseFilename_null rest
  | some x => exact parseFilename_writeName x _ (by intro e; exact hn (by rw [e])) (Stops_cons _ _ _ (by decide))

theorem nameBody_fwd (k : Filename → MetaLine) (n : Option Bytes) (rest : Bytes) (hn : n ≠ some nullFilename) :
    nameBody k (nameBytes n ++ 10 :: rest) = .ok (rest, k (nameVal n)) := by
  unfold nameBody
  rw [parseFilename_nameBytes n rest hn]
  simp only [bind, Except.bind]
  rw [takeLineIncl_nl]
  rfl

theorem parse_minus (git : Bool) (n : Option Bytes) (rest : Bytes) (hn : n ≠ some nullFilename) :
    parsePatchLine git (sMinus ++ (nameBytes n ++ 10 :: rest)) = .ok (rest, .mline (.minus (nameVal n))) := by
  apply parsePatchLine_mline
  rw [meta_minus]; exact nameBody_fwd _ n rest hn

theorem parse_plus (git : Bool) (n : Option Bytes) (rest : Bytes) (hn : n ≠ some nullFilename) :
    parsePatchLine git (sPlus ++ (nameBytes n ++ 10 :: rest)) = .ok (rest, .mline (.plus (nameVal n))) := by
  apply parsePatchLine_mline
  rw [meta_plus]; exact nameBody_fwd _ n rest hn

/-! ### sequences of metadata lines -/

/-- `k` iterations of `filePatchLoop` (in git mode) lead from one state to the other -/
def Steps (total k : Nat) (inp : Bytes) (ext : Bool) (m : Meta) (inp' : Bytes) (ext' : Bool) (m' : Meta) : Prop :=
  ∀ f wH hd, filePatchLoop total (f + k) inp wH hd true ext m = filePatchLoop total f inp' wH hd true ext' m'

theorem Steps_refl (total : Nat) (inp : Bytes) (ext : Bool) (m : Meta) : Steps total 0 inp ext m inp ext m :=
  fun _ _ _ => rfl

theorem Steps_trans {total k1 k2 : Nat} {a b c : Bytes} {e1 e2 e3 : Bool} {m1 m2 m3 : Meta}
    (h1 : Steps total k1 a e1 m1 b e2 m2) (h2 : Steps total k2 b e2 m2 c e3 m3) :
    Steps total (k2 + k1) a e1 m1 c e3 m3 := by
  intro f wH hd
  rw [← Nat.add_assoc, h1, h2]

theorem lineCond_of_hdr (m : Meta) (inp : Bytes) (h : hdrNoMatch inp = true) : lineCond m inp = true := by
  simp [lineCond, h]

theorem hdrNoMatch_append_of (p x : Bytes) (b : UInt8) (t : Bytes) (hp : p = b :: t) (hb : b ≠ 64) :
    hdrNoMatch (p ++ x) = true := by
  subst hp; exact hdrNoMatch_of_head b _ hb

theorem Steps_one (total : Nat) (inp inp' : Bytes) (ext : Bool) (m m' : Meta) (pl : PatchLine)
    (hc : hdrNoMatch inp = true) (hp : parsePatchLine true inp = .ok (inp', pl)) (hm : passMeta m pl = some m') :
    Steps total 1 inp ext m inp' (passExt ext pl) m' :=
  fun f wH hd => fpl_pass total f inp inp' wH hd true ext m m' pl (lineCond_of_hdr m inp hc) hp hm

/-- the metadata in the stages of reading a written header -/
def mk (o n : Filename) (ren : Bool) (op np : Option Nat) (oh nh : Option Bytes) : Meta :=
  { old := some o, new := some n, renFrom := ren, renTo := ren, oldPerm := op, newPerm := np, oldHash := oh, newHash := nh }

theorem block_rename (total : Nat) (ren : Bool) (o n rest : Bytes) (O N : Filename) (ext : Bool) :
    ∃ k, k ≤ 2 ∧ Steps total k
      ((if ren then sRenameFrom ++ writeName o ++ [10] ++ sRenameTo ++ writeName n ++ [10] else []) ++ rest) ext
      (mk O N false none none none none) rest (ext || ren) (mk O N ren none none none none) := by
  cases ren with
  | false => exact ⟨0, by omega, by simpa using Steps_refl total rest ext _⟩
  | true =>
    refine ⟨1 + 1, by omega, ?_⟩
    have s1 := Steps_one total _ _ ext (mk O N false none none none none) _ _
      (hdrNoMatch_append_of sRenameFrom _ 114 _ rfl (by decide))
      (parse_renameFrom o (sRenameTo ++ (writeName n ++ 10 :: rest))) rfl
    have s2 := Steps_one total _ _ (passExt ext (.git .renameFrom))
      { mk O N false none none none none with renFrom := true } _ _
      (hdrNoMatch_append_of sRenameTo _ 114 _ rfl (by decide)) (parse_renameTo n rest) rfl
    have := Steps_trans s1 s2
    simpa [passExt, mk] using this

theorem block_oldPerm (total : Nat) (del : Bool) (op : Option Nat) (rest : Bytes) (O N : Filename) (ren ext : Bool) :
    (∀ x, op = some x → x < 8 ^ 6) →
    ∃ k, k ≤ 1 ∧ Steps total k
      ((match op with
        | some m => (if del then sDeletedFileMode else sOldMode) ++ oct6 m ++ [10]
        | none => []) ++ rest) ext
      (mk O N ren none none none none) rest (ext || op.isSome) (mk O N ren op none none none) := by
  intro hop
  cases op with
  | none => exact ⟨0, by omega, by simpa using Steps_refl total rest ext _⟩
  | some x =>
    refine ⟨1, by omega, ?_⟩
    have hx := hop x rfl
    cases del with
    | true =>
      have := Steps_one total _ _ ext (mk O N ren none none none none) _ _
        (hdrNoMatch_append_of sDeletedFileMode _ 100 _ rfl (by decide)) (parse_deletedFileMode x rest hx) rfl
      simpa [passExt, mk] using this
    | false =>
      have := Steps_one total _ _ ext (mk O N ren none none none none) _ _
        (hdrNoMatch_append_of sOldMode _ 111 _ rfl (by decide)) (parse_oldMode x rest hx) rfl
      simpa [passExt, mk] using this

theorem block_newPerm (total : Nat) (cre : Bool) (op np : Option Nat) (rest : Bytes) (O N : Filename) (ren ext : Bool) :
    (∀ x, np = some x → x < 8 ^ 6) →
    ∃ k, k ≤ 1 ∧ Steps total k
      ((match np with
        | some m => (if cre then sNewFileMode else sNewMode) ++ oct6 m ++ [10]
        | none => []) ++ rest) ext
      (mk O N ren op none none none) rest (ext || np.isSome) (mk O N ren op np none none) := by
  intro hnp
  cases np with
  | none => exact ⟨0, by omega, by simpa using Steps_refl total rest ext _⟩
  | some x =>
    refine ⟨1, by omega, ?_⟩
    have hx := hnp x rfl
    cases cre with
    | true =>
      have := Steps_one total _ _ ext (mk O N ren op none none none) _ _
        (hdrNoMatch_append_of sNewFileMode _ 110 _ rfl (by decide)) (parse_newFileMode x rest hx) rfl
      simpa [passExt, mk] using this
    | false =>
      have := Steps_one total _ _ ext (mk O N ren op none none none) _ _
        (hdrNoMatch_append_of sNewMode _ 110 _ rfl (by decide)) (parse_newMode x rest hx) rfl
      simpa [passExt, mk] using this

theorem block_index (total : Nat) (op np : Option Nat) (oh nh : Option Bytes) (rest : Bytes) (O N : Filename)
    (ren ext : Bool) : HashOK oh nh →
    ∃ k, k ≤ 1 ∧ Steps total k
      ((match oh, nh with
        | some a, some b => sIndex ++ a ++ sDotDot ++ b ++ [10]
        | _, _ => []) ++ rest) ext
      (mk O N ren op np none none) rest (ext || oh.isSome) (mk O N ren op np oh nh) := by
  intro hh
  rcases hh with ⟨rfl, rfl⟩ | ⟨a, b, rfl, rfl, ha, hb⟩
  · exact ⟨0, by omega, by simpa using Steps_refl total rest ext _⟩
  · refine ⟨1, by omega, ?_⟩
    have := Steps_one total _ _ ext (mk O N ren op np none none) _ _
      (hdrNoMatch_append_of sIndex _ 105 _ rfl (by decide)) (parse_index a b rest ha hb) rfl
    simpa [passExt, mk] using this

theorem block_names (total : Nat) (op np : Option Nat) (oh nh : Option Bytes) (rest : Bytes) (O N : Filename)
    (ren ext : Bool) (o n : Option Bytes) (ho : o ≠ some nullFilename) (hn : n ≠ some nullFilename) :
    Steps total 2
      (sMinus ++ (nameBytes o ++ 10 :: (sPlus ++ (nameBytes n ++ 10 :: rest)))) ext
      (mk O N ren op np oh nh) rest ext (mk (nameVal o) (nameVal n) ren op np oh nh) := by
  have s1 := Steps_one total _ _ ext (mk O N ren op np oh nh) _ _
    (hdrNoMatch_append_of sMinus _ 45 _ rfl (by decide))
    (parse_minus true o (sPlus ++ (nameBytes n ++ 10 :: rest)) ho) rfl
  have s2 := Steps_one total _ _ (passExt ext (.mline (.minus (nameVal o))))
    { mk O N ren op np oh nh with old := some (nameVal o) } _ _
    (hdrNoMatch_append_of sPlus _ 43 _ rfl (by decide)) (parse_plus true n rest hn) rfl
  have := Steps_trans s1 s2
  simpa [passExt, mk] using this

/-! ### the whole header -/

def oName (f : PFilePatch) : Bytes := (f.old.orElse (fun _ => f.new)).getD []
def nName (f : PFilePatch) : Bytes := (f.new.orElse (fun _ => f.old)).getD []

/-- the header lines after the `diff --git` line, followed by `rest` -/
def hdrTailR (f : PFilePatch) (rest : Bytes) : Bytes :=
  (if f.rename then sRenameFrom ++ writeName (oName f) ++ [10] ++ sRenameTo ++ writeName (nName f) ++ [10] else []) ++
  ((match f.oldPerm with
    | some m => (if f.kind == .delete then sDeletedFileMode else sOldMode) ++ oct6 m ++ [10]
    | none => []) ++
  ((match f.newPerm with
    | some m => (if f.kind == .create then sNewFileMode else sNewMode) ++ oct6 m ++ [10]
    | none => []) ++
  ((match f.oldHash, f.newHash with
    | some a, some b => sIndex ++ a ++ sDotDot ++ b ++ [10]
    | _, _ => []) ++
  (sMinus ++ (nameBytes f.old ++ 10 :: (sPlus ++ (nameBytes f.new ++ 10 :: rest)))))))

theorem writeFileHeader_eq (f : PFilePatch) (rest : Bytes) :
    writeFileHeader f ++ rest =
      sDiffGit ++ (writeName (oName f) ++ 32 :: (writeName (nName f) ++ 10 :: hdrTailR f rest)) := by
  simp only [writeFileHeader, hdrTailR, oName, nName, nameBytes, List.append_assoc, List.cons_append, List.nil_append]
  rfl

theorem nullNamed_false (f : PFilePatch) (h : nullNamed f = false) :
    f.old ≠ some nullFilename ∧ f.new ≠ some nullFilename := by
  simp only [nullNamed, Bool.or_eq_false_iff, beq_eq_false_iff_ne, ne_eq] at h
  exact h

/-- the part of the parsed-file-patch invariant the header and hunk round trip needs (no claim about `kind`) -/
structure FPW (f : PFilePatch) : Prop where
  hunksOK : ∀ h ∈ f.hunks, HunkOK h
  renOK : f.rename = true → f.old.isSome = true ∧ f.new.isSome = true
  nameOK : f.old.isSome = true ∨ f.new.isSome = true
  oldPerm : ∀ x, f.oldPerm = some x → x < 8 ^ 6
  newPerm : ∀ x, f.newPerm = some x → x < 8 ^ 6
  hash : HashOK f.oldHash f.newHash

theorem FPOK.toFPW {f : PFilePatch} (ok : FPOK f) : FPW f :=
  ⟨fun h hm => (ok.hunksOK h hm).1, ok.renOK, ok.nameOK, ok.oldPerm, ok.newPerm, ok.hash⟩

theorem header_steps (total : Nat) (f : PFilePatch) (ok : FPW f) (hnn : nullNamed f = false) (rest : Bytes)
    (ext : Bool) (O N : Filename) :
    ∃ k, k ≤ 7 ∧ Steps total k (hdrTailR f rest) ext (mk O N false none none none none) rest
      (ext || f.rename || f.oldPerm.isSome || f.newPerm.isSome || f.oldHash.isSome)
      (mk (nameVal f.old) (nameVal f.new) f.rename f.oldPerm f.newPerm f.oldHash f.newHash) := by
  obtain ⟨hno, hnn'⟩ := nullNamed_false f hnn
  unfold hdrTailR
  obtain ⟨k1, b1, s1⟩ := block_rename total f.rename (oName f) (nName f)
    ((match f.oldPerm with
    | some m => (if f.kind == .delete then sDeletedFileMode else sOldMode) ++ oct6 m ++ [10]
    | none => []) ++
  ((match f.newPerm with
    | some m => (if f.kind == .create then sNewFileMode else sNewMode) ++ oct6 m ++ [10]
    | none => []) ++
  ((match f.oldHash, f.newHash with
    | some a, some b => sIndex ++ a ++ sDotDot ++ b ++ [10]
    | _, _ => []) ++
  (sMinus ++ (nameBytes f.old ++ 10 :: (sPlus ++ (nameBytes f.new ++ 10 :: rest))))))) O N ext
  obtain ⟨k2, b2, s2⟩ := block_oldPerm total (f.kind == .delete) f.oldPerm
    ((match f.newPerm with
    | some m => (if f.kind == .create then sNewFileMode else sNewMode) ++ oct6 m ++ [10]
    | none => []) ++
  ((match f.oldHash, f.newHash with
    | some a, some b => sIndex ++ a ++ sDotDot ++ b ++ [10]
    | _, _ => []) ++
  (sMinus ++ (nameBytes f.old ++ 10 :: (sPlus ++ (nameBytes f.new ++ 10 :: rest)))))) O N f.rename (ext || f.rename)
    ok.oldPerm
  obtain ⟨k3, b3, s3⟩ := block_newPerm total (f.kind == .create) f.oldPerm f.newPerm
    ((match f.oldHash, f.newHash with
    | some a, some b => sIndex ++ a ++ sDotDot ++ b ++ [10]
    | _, _ => []) ++
  (sMinus ++ (nameBytes f.old ++ 10 :: (sPlus ++ (nameBytes f.new ++ 10 :: rest))))) O N f.rename
    (ext || f.rename || f.oldPerm.isSome) ok.newPerm
  obtain ⟨k4, b4, s4⟩ := block_index total f.oldPerm f.newPerm f.oldHash f.newHash
    (sMinus ++ (nameBytes f.old ++ 10 :: (sPlus ++ (nameBytes f.new ++ 10 :: rest)))) O N f.rename
    (ext || f.rename || f.oldPerm.isSome || f.newPerm.isSome) ok.hash
  have s5 := block_names total f.oldPerm f.newPerm f.oldHash f.newHash rest O N f.rename
    (ext || f.rename || f.oldPerm.isSome || f.newPerm.isSome || f.oldHash.isSome) f.old f.new hno hnn'
  refine ⟨_, ?_, Steps_trans s1 (Steps_trans s2 (Steps_trans s3 (Steps_trans s4 s5)))⟩
  omega

/-! ### the result -/

theorem realName_nameVal (n : Option Bytes) : realName (some (nameVal n)) = n := by
  cases n <;> rfl

theorem build_final (f : PFilePatch) (ok : FPW f) (hs : List PHunk) :
    buildFilePatch (mk (nameVal f.old) (nameVal f.new) f.rename f.oldPerm f.newPerm f.oldHash f.newHash) hs =
      some { kind := recognizeKind hs, old := f.old, new := f.new, rename := f.rename, oldPerm := f.oldPerm,
             newPerm := f.newPerm, oldHash := f.oldHash, newHash := f.newHash, hunks := hs } := by
  unfold buildFilePatch
  simp only [mk, realName_nameVal, Bool.and_self]
  have h1 := ok.renOK
  have h2 := ok.nameOK
  cases hr : f.rename
  · have : (!f.old.isSome && !f.new.isSome) = false := by
      rcases h2 with h | h <;> simp [h]
    simp only [Bool.false_and, Bool.false_eq_true, if_false, Bool.not_false, Bool.true_and, this]
  · obtain ⟨a, b⟩ := h1 hr
    simp [a, b]

/-- the kind only depends on what `sameHunk` compares, for hunks whose context counts vanish with a side -/
theorem recognizeKind_same (hs hs' : List PHunk) (h : sameHunks hs hs') (c : ∀ x ∈ hs, CtxZ x) (c' : ∀ x ∈ hs', CtxZ x) :
    recognizeKind hs = recognizeKind hs' := by
  have key : ∀ x : PHunk, CtxZ x → recognizeKind [x] =
      (if x.add.isEmpty ∧ x.addLine = 0 ∧ !x.rem.isEmpty then Kind.delete
       else if !x.add.isEmpty ∧ x.rem.isEmpty ∧ x.remLine = 0 then Kind.create else Kind.modify) := by
    intro x cx
    unfold recognizeKind
    by_cases hz : x.suf = 0 ∧ x.pre = 0
    · simp only [hz, and_self, if_true]
    · simp only [hz, if_false]
      have : ¬ (x.add = [] ∨ x.rem = []) := by
        intro hh; have := cx hh; exact hz ⟨this.2, this.1⟩
      have ha : x.add.isEmpty = false := by
        cases hx : x.add with
        | nil => exact absurd (Or.inl hx) this
        | cons _ _ => rfl
      have hb : x.rem.isEmpty = false := by
        cases hx : x.rem with
        | nil => exact absurd (Or.inr hx) this
        | cons _ _ => rfl
      simp [ha, hb]
  match hs, hs', h with
  | [], [], _ => rfl
  | [a], [b], h =>
    obtain ⟨⟨e1, e2, e3, e4, _⟩, _⟩ := h
    rw [key a (c a (by simp)), key b (c' b (by simp)), e1, e2, e3, e4]
  | a :: a2 :: as, b :: b2 :: bs, _ => rfl
  | [], _ :: _, h => simp [sameHunks] at h
  | _ :: _, [], h => simp [sameHunks] at h
  | [_], _ :: _ :: _, h => simp [sameHunks] at h
  | _ :: _ :: _, [_], h => simp [sameHunks] at h

/-- what may follow a written file patch: the end of the input or the next `diff --git` line -/
def NextOK (next : Bytes) : Prop :=
  next = [] ∨ ∃ x o n r, next = sDiffGit ++ x ∧ gitDiffBody x = .ok (r, .gitDiff o n)

theorem NextOK_No92 (next : Bytes) (h : NextOK next) : No92 next := by
  rcases h with rfl | ⟨x, o, n, r, rfl, _⟩
  · intro r' e; cases e
  · intro r' e; simp [sDiffGit] at e

theorem NextOK_hdr (next : Bytes) (h : NextOK next) : hdrNoMatch next = true := by
  rcases h with rfl | ⟨x, o, n, r, rfl, _⟩
  · exact hdrNoMatch_nil
  · exact hdrNoMatch_append_of sDiffGit _ 100 _ rfl (by decide)

theorem sameHunks_refl_of (hs : List PHunk) : sameHunks hs hs := by
  induction hs with
  | nil => trivial
  | cons h hs ih => exact ⟨⟨rfl, rfl, rfl, rfl, rfl⟩, ih⟩

/-- **L4 (core)**: reading back a written file patch, from just after its `diff --git` line; `Q` is whatever
one wants to know about the resulting file patch -/
theorem filePatch_tail_core (total : Nat) (f : PFilePatch) (ok : FPW f) (hnn : nullNamed f = false)
    (hk : noopHunkless f = false) (next : Bytes) (hnext : NextOK next) (ext : Bool) (O N : Filename)
    (F : Nat) (hF : 9 ≤ F) (wH : Bool) (hd : Nat) (Q : PFilePatch → Prop)
    (hfin : ∀ hs', sameHunks f.hunks hs' → (∀ x ∈ hs', CtxZ x) →
      Q { kind := recognizeKind hs', old := f.old, new := f.new, rename := f.rename, oldPerm := f.oldPerm, newPerm := f.newPerm, oldHash := f.oldHash, newHash := f.newHash, hunks := hs' }) :
    ∃ fp', filePatchLoop total F (hdrTailR f ((f.hunks.map writeHunk).flatten ++ next)) wH hd true ext
        (mk O N false none none none none) = .ok (next, hd, fp') ∧ Q fp' := by
  obtain ⟨k, hk7, st⟩ := header_steps total f ok hnn ((f.hunks.map writeHunk).flatten ++ next) ext O N
  obtain ⟨F', rfl⟩ : ∃ F', F = (F' + 1) + k := ⟨F - 1 - k, by omega⟩
  rw [st (F' + 1) wH hd]
  generalize hext : (ext || f.rename || f.oldPerm.isSome || f.newPerm.isSome || f.oldHash.isSome) = ext'
  have hb := fun hs => build_final f ok hs
  cases hh : f.hunks with
  | nil =>
    -- no hunks: the patch ends at `next`
    simp only [List.map_nil, List.flatten_nil, List.nil_append]
    have hext' : ext' = true := by
      rw [← hext]
      simp only [noopHunkless, hh, List.isEmpty_nil, Bool.true_and] at hk
      have hash := ok.hash
      rcases hash with ⟨h1, h2⟩ | ⟨a, b, h1, h2, _⟩
      · simp [h1, h2] at hk
        cases hr : f.rename <;> cases ho : f.oldPerm <;> cases hn : f.newPerm <;> simp_all
      · simp [h1]
    subst hext'
    have hc := lineCond_of_hdr (mk (nameVal f.old) (nameVal f.new) f.rename f.oldPerm f.newPerm f.oldHash f.newHash)
      next (NextOK_hdr next hnext)
    rcases hnext with rfl | ⟨x, o, n, r, rfl, hx⟩
    · have hp : parsePatchLine true [] = .ok ([], .endOfPatch) := rfl
      rw [fpl_end _ _ _ _ _ _ _ _ _ hc hp]
      simp only [if_true, hb []]
      exact ⟨_, rfl, hfin [] (by rw [hh]; trivial) (by simp)⟩
    · have hp : parsePatchLine true (sDiffGit ++ x) = .ok (r, .mline (.gitDiff o n)) :=
        parsePatchLine_mline _ _ _ _ (by rw [meta_gitDiff]; exact hx)
      rw [fpl_gitDiff _ _ _ _ _ _ _ _ _ _ _ hc hp]
      simp only [if_true, hb []]
      exact ⟨_, rfl, hfin [] (by rw [hh]; trivial) (by simp)⟩
  | cons h0 hs0 =>
    rw [← hh]
    have hokh : ∀ h ∈ f.hunks, HunkOK h := ok.hunksOK
    have hc : lineCond (mk (nameVal f.old) (nameVal f.new) f.rename f.oldPerm f.newPerm f.oldHash f.newHash)
        ((f.hunks.map writeHunk).flatten ++ next) = false := by
      have : hdrNoMatch ((f.hunks.map writeHunk).flatten ++ next) = false := by
        cases hv : hdrNoMatch ((f.hunks.map writeHunk).flatten ++ next) with
        | false => rfl
        | true =>
          rw [hdrNoMatch_iff] at hv
          rw [hh] at hv
          simp only [List.map_cons, List.flatten_cons, List.append_assoc, writeHunk, writeHunkHeader] at hv
          rw [stripPrefix_append] at hv
          cases hv
      simp [lineCond, this, haveFilename, mk]
    rw [fpl_hunks _ _ _ _ _ _ _ _ hc]
    have hnm : stripPrefix sHunkStart next = none := (hdrNoMatch_iff next).mp (NextOK_hdr next hnext)
    obtain ⟨hs', e1, e2⟩ := hunksLoop_written f.hunks (((f.hunks.map writeHunk).flatten ++ next).length + 2) next []
      hokh (NextOK_No92 next hnext) hnm (by have := writeHunks_length f.hunks; simp only [List.length_append]; omega)
    rw [e1]
    simp only [List.nil_append, hb hs']
    have cz : ∀ x ∈ hs', CtxZ x := fun x hx => (hunksLoop_inv _ _ _ _ _ e1 (by simp) x (by simpa using hx)).2
    exact ⟨_, rfl, hfin hs' e2 cz⟩

/-- **L4**: for a parsed file patch the result is the same file patch -/
theorem filePatch_tail (total : Nat) (f : PFilePatch) (ok : FPOK' f) (hnn : nullNamed f = false)
    (hk : noopHunkless f = false) (next : Bytes) (hnext : NextOK next) (ext : Bool) (O N : Filename)
    (F : Nat) (hF : 9 ≤ F) (wH : Bool) (hd : Nat) :
    ∃ fp', filePatchLoop total F (hdrTailR f ((f.hunks.map writeHunk).flatten ++ next)) wH hd true ext
        (mk O N false none none none none) = .ok (next, hd, fp') ∧ sameFP f (stripFP 0 fp') := by
  refine filePatch_tail_core total f ok.toFPOK.toFPW hnn hk next hnext ext O N F hF wH hd
    (fun fp' => sameFP f (stripFP 0 fp')) ?_
  intro hs' sh cz
  refine ⟨?_, ?_, ?_, rfl, rfl, rfl, rfl, rfl, sh⟩
  · simp only [stripFP]
    rw [ok.kindOK]
    exact recognizeKind_same _ _ sh (fun x hx => (ok.hunksOK x hx).2) cz
  · simp only [stripFP]
    cases ho : f.old with
    | none => rfl
    | some n => simp [ok.oldFix n ho]
  · simp only [stripFP]
    cases ho : f.new with
    | none => rfl
    | some n => simp [ok.newFix n ho]

end RQ.Write
