import RQ.Lemmas.RefineBase
/-! Helper lemmas for C05, part 2: facts about `FilePatch.apply` — it neither reads nor changes `existed`,
records its direction, and keeps "a deleted file has no content". -/
namespace RQ
section
variable {α : Type} [DecidableEq α]

/-- the same file with another `existed` flag -/
def setEx (b : Bool) (f : FileSt α) : FileSt α := { f with existed := b }

/-- lift `setEx` over the result of an application -/
def exRes (b : Bool) : Option (FileSt α × Report) → Option (FileSt α × Report)
  | none => none
  | some (f, r) => some (setEx b f, r)

theorem applyModify_setEx (hs : List (Hunk α)) (d : Dir) (F : Nat) (mode : Mode) (b : Bool) (f : FileSt α) :
    applyModify hs d F mode (setEx b f) = exRes b (applyModify hs d F mode f) := by
  unfold applyModify
  simp only [setEx]
  cases phase2 d hs (match mode with
    | .normal => phase1 d F f.content f.deleted hs 0 (-1)
    | .rollback prev => rbPhase1 d f.content f.deleted hs prev.reps) f.content 0 with
  | none => rfl
  | some r => rfl

omit [DecidableEq α] in
theorem applyCreate_setEx (h : Hunk α) (d : Dir) (F : Nat) (mode : Mode) (b : Bool) (f : FileSt α) :
    applyCreate h d F mode (setEx b f) = (setEx b (applyCreate h d F mode f).1, (applyCreate h d F mode f).2) := by
  cases hp : prevFailed mode <;> cases he : f.content.isEmpty <;> simp [applyCreate, setEx, hp, he]

theorem applyDelete_setEx (fp : FilePatch α) (h : Hunk α) (d : Dir) (F : Nat) (mode : Mode) (b : Bool) (f : FileSt α) :
    applyDelete fp h d F mode (setEx b f) = (setEx b (applyDelete fp h d F mode f).1, (applyDelete fp h d F mode f).2) := by
  cases hp : prevFailed mode
  · cases d
    · by_cases he : h.rem = f.content
      · simp [applyDelete, setEx, hp, he]
      · simp [applyDelete, setEx, hp, he]
    · by_cases he : h.add = f.content
      · simp [applyDelete, setEx, hp, he]
      · simp [applyDelete, setEx, hp, he]
  · simp [applyDelete, setEx, hp]

theorem applyKind_setEx (fp : FilePatch α) (d : Dir) (F : Nat) (mode : Mode) (b : Bool) (f : FileSt α) :
    applyKind fp d F mode (setEx b f) = exRes b (applyKind fp d F mode f) := by
  unfold applyKind
  split
  · exact applyModify_setEx ..
  · rw [applyCreate_setEx]; rfl
  · rw [applyCreate_setEx]; rfl
  · rw [applyDelete_setEx]; rfl
  · rw [applyDelete_setEx]; rfl
  · rfl

theorem apply_setEx (fp : FilePatch α) (d : Dir) (F : Nat) (b : Bool) (f : FileSt α) :
    fp.apply d F (setEx b f) = exRes b (fp.apply d F f) := by
  unfold FilePatch.apply applyInternal
  rw [applyKind_setEx]
  cases applyKind fp d F .normal f with
  | none => rfl
  | some r =>
    obtain ⟨f', rep⟩ := r
    simp only [exRes]
    split <;> rfl

/-! ### the direction is recorded -/

theorem applyKind_dir {fp : FilePatch α} {d : Dir} {F : Nat} {mode : Mode} {f f' : FileSt α}
    {rep : Report} (h : applyKind fp d F mode f = some (f', rep)) : rep.dir = d := by
  unfold applyKind at h
  split at h
  · unfold applyModify at h
    simp only at h
    split at h
    · cases h
    · cases h; rfl
  all_goals first
    | (cases h; done)
    | (injection h with h
       have := congrArg Prod.snd h
       simp only at this
       rw [← this]
       first
        | (unfold applyCreate; split; rfl; split <;> rfl)
        | (unfold applyDelete; split; rfl; simp only; split <;> rfl))

theorem apply_dir {fp : FilePatch α} {d : Dir} {F : Nat} {f f' : FileSt α}
    {rep : Report} (h : fp.apply d F f = some (f', rep)) : rep.dir = d := by
  unfold FilePatch.apply applyInternal at h
  split at h
  · cases h
  · rename_i f1 rep1 hk
    have := applyKind_dir hk
    simp only at h
    split at h <;> (cases h; exact this)

/-! ### a deleted file has no content -/

/-- `deleted` implies empty content -/
def DE (f : FileSt α) : Prop := f.deleted = true → f.content = []

theorem levelLoop_deleted (h : Hunk α) (d : Dir) (c : List α) (lo lf : Int) :
    ∀ (k f : Nat) (last : Rep), last.isApplied = false →
      (levelLoop h d c true lo lf k f last).1.isApplied = false ∧ (levelLoop h d c true lo lf k f last).2 = none := by
  intro k
  induction k with
  | zero => intro f last hl; exact ⟨hl, rfl⟩
  | succ k ih =>
    intro f last hl
    unfold levelLoop
    simp only [tryApply, if_true]
    exact ih (f + 1) (.failed .noFile) rfl

theorem phase1_deleted (d : Dir) (F : Nat) (c : List α) :
    ∀ (hs : List (Hunk α)) (lo lf : Int), ∀ r ∈ phase1 d F c true hs lo lf, r.isApplied = false := by
  intro hs
  induction hs with
  | nil => intro lo lf r hr; simp [phase1] at hr
  | cons h hs ih =>
    intro lo lf r hr
    unfold phase1 at hr
    have hl := levelLoop_deleted h d c lo lf (min F h.maxFuzz + 1) 0 .skipped rfl
    split at hr
    · rename_i r0 lo' lf' heq
      rw [heq] at hl
      simp at hl
    · rename_i r0 heq
      rw [heq] at hl
      simp only [List.mem_cons] at hr
      rcases hr with rfl | hr
      · exact hl.1
      · exact ih lo lf r hr

omit [DecidableEq α] in
theorem phase2_noapplied (d : Dir) : ∀ (hs : List (Hunk α)) (reps : List Rep) (c : List α) (mo : Int),
    (∀ r ∈ reps, r.isApplied = false) → ∃ rs', phase2 d hs reps c mo = some (c, rs') := by
  intro hs
  induction hs with
  | nil => intro reps c mo _; exact ⟨[], by unfold phase2; rfl⟩
  | cons h hs ih =>
    intro reps c mo hall
    cases reps with
    | nil => exact ⟨[], by unfold phase2; rfl⟩
    | cons r rs =>
      obtain ⟨rs', hrs⟩ := ih rs c mo (fun x hx => hall x (by simp [hx]))
      have hr := hall r (by simp)
      cases r with
      | applied _ _ _ _ _ => simp [Rep.isApplied] at hr
      | failed x => exact ⟨_, by unfold phase2; rw [hrs]⟩
      | skipped => exact ⟨_, by unfold phase2; rw [hrs]⟩

theorem applyModify_DE {hs : List (Hunk α)} {d : Dir} {F : Nat} {f f' : FileSt α} {rep : Report}
    (hf : DE f) (h : applyModify hs d F .normal f = some (f', rep)) : DE f' := by
  unfold applyModify at h
  simp only at h
  intro hd
  cases hdel : f.deleted with
  | false =>
    split at h
    · cases h
    · cases h
      simp only at hd
      rw [hdel] at hd; cases hd
  | true =>
    rw [hdel] at h
    obtain ⟨rs', hrs⟩ := phase2_noapplied d hs (phase1 d F f.content true hs 0 (-1)) f.content 0
      (phase1_deleted d F f.content hs 0 (-1))
    rw [hrs] at h
    simp only at h
    cases h
    exact hf hdel

omit [DecidableEq α] in
theorem applyCreate_DE (h : Hunk α) (d : Dir) (F : Nat) (mode : Mode) (f : FileSt α) (hf : DE f) :
    DE (applyCreate h d F mode f).1 := by
  unfold applyCreate
  split
  · exact hf
  · split
    · exact hf
    · intro hd; cases hd

theorem applyDelete_DE (fp : FilePatch α) (h : Hunk α) (d : Dir) (F : Nat) (mode : Mode) (f : FileSt α) (hf : DE f) :
    DE (applyDelete fp h d F mode f).1 := by
  unfold applyDelete
  split
  · exact hf
  · simp only
    split
    · split
      · exact hf
      · intro _; rfl
    · split
      · exact hf
      · intro _; rfl

theorem applyKind_DE {fp : FilePatch α} {d : Dir} {F : Nat} {f f' : FileSt α}
    {rep : Report} (hf : DE f) (h : applyKind fp d F .normal f = some (f', rep)) : DE f' := by
  unfold applyKind at h
  split at h
  · exact applyModify_DE hf h
  all_goals first
    | (cases h; done)
    | (injection h with h
       have := congrArg Prod.fst h
       simp only at this
       rw [← this]
       first
        | exact applyCreate_DE _ _ _ _ _ hf
        | exact applyDelete_DE _ _ _ _ _ _ hf)

theorem apply_DE {fp : FilePatch α} {d : Dir} {F : Nat} {f f' : FileSt α}
    {rep : Report} (hf : DE f) (h : fp.apply d F f = some (f', rep)) : DE f' := by
  unfold FilePatch.apply applyInternal at h
  split at h
  · cases h
  · rename_i f1 rep1 hk
    have h1 := applyKind_DE hf hk
    simp only at h
    split at h
    · cases h
      intro hd
      exact h1 hd
    · cases h; exact h1

end
end RQ
