import RQ.Spec.Apply
/-! Left-to-right splicing with a running offset equals the offset-free specification `applySpec`. -/
namespace RQ
variable {α : Type} [DecidableEq α]

/-- the second loop of `apply_modify` on plain edits: splice left to right with a running offset -/
def applyImpl : List α → Int → List (Edit α) → List α
  | l, _, [] => l
  | l, off, e :: es =>
    applyImpl (splice l ((e.pos : Int) + off).toNat e.del e.ins) (off + e.ins.length - e.del) es

theorem splice_at (P l : List α) (k del : Nat) (ins : List α) (h : k + del ≤ l.length) :
    splice (P ++ l) (P.length + k) del ins = (P ++ l.take k ++ ins) ++ l.drop (k + del) := by
  simp only [splice, List.take_append, List.drop_append]
  rw [List.take_of_length_le (by omega), List.drop_of_length_le (by omega)]
  simp only [List.nil_append, List.append_assoc]
  congr 3
  · congr 1; omega
  · congr 1; omega

theorem applyImpl_eq_spec (es : List (Edit α)) :
    ∀ (P l : List α) (base : Nat) (off : Int),
      Ordered base l.length es → (P.length : Int) = base + off →
      applyImpl (P ++ l) off es = P ++ applySpec base l es := by
  induction es with
  | nil => intro P l base off _ _; simp [applyImpl, applySpec]
  | cons e es ih =>
    intro P l base off ho hP
    obtain ⟨h1, h2, h3⟩ := ho
    simp only [applyImpl, applySpec]
    have hpos : ((e.pos : Int) + off).toNat = P.length + (e.pos - base) := by omega
    rw [hpos, splice_at P l (e.pos - base) e.del e.ins (by omega)]
    rw [ih (P ++ l.take (e.pos - base) ++ e.ins) (l.drop (e.pos - base + e.del)) (e.pos + e.del)]
    · simp [List.append_assoc]
    · simp only [List.length_drop]
      have : l.length - (e.pos - base + e.del) = base + l.length - (e.pos + e.del) := by omega
      rw [this]; exact h3
    · simp only [List.length_append, List.length_take]; omega

theorem orderedB_iff (es : List (Edit α)) : ∀ base n, orderedB base n es = true ↔ Ordered base n es := by
  induction es with
  | nil => intro _ _; simp [orderedB, Ordered]
  | cons e es ih => intro base n; simp [orderedB, Ordered, ih, and_assoc]

theorem applySpec_length (es : List (Edit α)) : ∀ base (l : List α), Ordered base l.length es →
    ((applySpec base l es).length : Int) = l.length + (es.map (fun e => (e.ins.length : Int) - e.del)).sum := by
  induction es with
  | nil => intro _ _ _; simp [applySpec]
  | cons e es ih =>
    intro base l ⟨h1, h2, h3⟩
    simp only [applySpec, List.length_append, List.map_cons, List.sum_cons]
    have := ih (e.pos + e.del) (l.drop (e.pos - base + e.del)) (by
      simp only [List.length_drop]
      have : l.length - (e.pos - base + e.del) = base + l.length - (e.pos + e.del) := by omega
      rw [this]; exact h3)
    simp only [List.length_drop] at this
    simp only [List.length_take]
    omega

end RQ
