import RQ.Lemmas.BackupRefine
/-!
# The driver model does not fail spuriously (lemmas for `RQ/Props/C05Complete.lean`)

`C05_push_refines_pushSpec` (`RQ/Props/C05Refine.lean`) compares the model of the sequential driver with the executable
specification *assuming* that the driver's run ended without an I/O error or a panic.  This file discharges that
assumption: when no fault is injected and the specification itself neither refuses the range nor meets an output
failure in its last phase, every step of the driver succeeds.

* **(A)** `MemLd`: an invariant of the cache next to `MemOK` (`RQ/Lemmas/InodesMem.lean`): the flag `existed` of an
  entry says what `readFile` answered for its path in the starting tree (a regular file, or "not found") — in
  particular nothing was in the way (`LdFacts`).
* **(B)** `saveAll_succeeds`: the entries of the cache are saved one after another, in the (arbitrary) order of the
  list; what must hold of an entry still to be saved (`Ready`) is kept by the saving of another entry whose path is
  neither the same nor a prefix nor an extension (`Apart`).
* **(C)** `cleanAll_succeeds`: the directories cleaned are ancestors of removed files, hence directories or gone.
* **(D)** `saveRejFiles_succeeds`: against `putRejects` on a tree that agrees outside `.pc`.
* **(E)** `saveApplied_succeeds`, **(F)** backups.
-/
namespace RQ.Succeeds
open RQ RQ.Push RQ.Spec RQ.Flush RQ.Agree RQ.Compose RQ.Tight RQ.Parse RQ.Write RQ.Abs RQ.BackupDisk

/-! ## (A) `existed` is truthful: what `readFile` answered when the entry was loaded -/

/-- the path of the entry keyed `cs` is safe, and the starting tree had a regular file there that could be read
(`ex = true`) or answered "not found" (`ex = false`) -/
def LdOK (fs0 : FS) (cs : List Comp) (ex : Bool) : Prop :=
  ∃ k, keyOfComps cs = some k ∧
    if ex then ∃ c m, fs0.readFile k = .ok (c, m) else fs0.readFile k = .error .notFound

def MemLd (fs0 : FS) (m : Mem) : Prop :=
  ∀ e ∈ m, e.1 = components e.2.1 ∧ LdOK fs0 e.1 e.2.2.existed

theorem memLd_nil (fs0 : FS) : MemLd fs0 [] := by
  intro e he; cases he

theorem MemLd.get {fs0 : FS} {m : Mem} {name : Bytes} {f : FileSt Bytes} (h : MemLd fs0 m)
    (hg : m.get name = some f) : LdOK fs0 (components name) f.existed := by
  unfold Mem.get at hg
  cases hfind : m.find? (fun e => e.1 == components name) with
  | none => rw [hfind] at hg; cases hg
  | some e =>
    rw [hfind] at hg
    simp only [Option.map_some, Option.some.injEq] at hg
    have hmem := List.mem_of_find?_eq_some hfind
    have hp := List.find?_some hfind
    simp only [beq_iff_eq] at hp
    rw [← hp, ← hg]
    exact (h e hmem).2

theorem MemLd.put {fs0 : FS} {m : Mem} {name : Bytes} {f : FileSt Bytes} (h : MemLd fs0 m)
    (hf : LdOK fs0 (components name) f.existed) : MemLd fs0 (m.put name f) := by
  unfold Mem.put
  split
  · intro e he
    rw [List.mem_map] at he
    obtain ⟨e0, he0, rfl⟩ := he
    split
    · rename_i hk
      simp only [beq_iff_eq] at hk
      refine ⟨(h e0 he0).1, ?_⟩
      simp only
      rw [hk]; exact hf
    · exact h e0 he0
  · intro e he
    rw [List.mem_append] at he
    cases he with
    | inl he => exact h e he
    | inr he =>
      simp only [List.mem_singleton] at he
      subst he
      exact ⟨rfl, hf⟩

theorem getOrLoad_ld {fs0 : FS} {m m' : Mem} {name : Bytes} {f : FileSt Bytes} (h : MemLd fs0 m)
    (e : getOrLoad m fs0 name = .ok (m', f)) : MemLd fs0 m' ∧ LdOK fs0 (components name) f.existed := by
  unfold getOrLoad at e
  split at e
  · rename_i f0 hg
    cases e
    exact ⟨h, h.get hg⟩
  · split at e
    · cases e
    · rename_i k hk
      split at e
      · rename_i c mode hr
        cases e
        have hex : LdOK fs0 (components name) true := ⟨k, safeKey_comps hk, c, mode, hr⟩
        exact ⟨h.put hex, hex⟩
      · rename_i hr
        cases e
        have hex : LdOK fs0 (components name) nonExistent.existed := ⟨k, safeKey_comps hk, hr⟩
        exact ⟨h.put hex, hex⟩
      · cases e

theorem applyCore_ld {fs0 : FS} {st st' : St} {cfg : Cfg} {index : Nat} {entry : Series.Entry}
    {fp : PFilePatch} {b : Bool} (h : MemLd fs0 st.mem)
    (e : applyCore st fs0 cfg index entry fp = .ok (st', b)) : MemLd fs0 st'.mem := by
  unfold applyCore at e
  split at e
  · cases e
  · split at e
    · cases e
    · rename_i target _
      split at e
      · cases e
      · rename_i mem file hload
        obtain ⟨hm, hx⟩ := getOrLoad_ld h hload
        simp only at e
        split at e
        · -- rename
          split at e
          · cases e
          · rename_i newName _
            simp only [moveOut] at e
            have hm1 : MemLd fs0 (mem.put target { file with content := [], deleted := true, perms := none }) :=
              hm.put hx
            split at e
            · cases e
            · rename_i mem2 newFile hload2
              obtain ⟨hm2, hx2⟩ := getOrLoad_ld hm1 hload2
              split at e
              · split at e
                · cases e
                · rename_i tf hget
                  have hxt := hm2.get hget
                  split at e
                  · rename_i tf' hin
                    cases e
                    refine hm2.put ?_
                    simp only [moveIn_existed hin]
                    exact hxt
                  · cases e
                    exact hm2.put hxt
              · rename_i moved hin
                split at e
                · cases e
                · rename_i f' rep happ
                  cases e
                  refine hm2.put ?_
                  rw [apply_existed happ, moveIn_existed hin]
                  exact hx2
        · split at e
          · cases e
          · rename_i f' rep happ
            cases e
            refine hm.put ?_
            rw [apply_existed happ]
            exact hx

theorem preLoad_ld {fs0 : FS} {m mem0 : Mem} {fp : PFilePatch} (h : MemLd fs0 m)
    (e : preLoad m fs0 fp = .ok mem0) : MemLd fs0 mem0 := by
  rcases preLoad_ok e with rfl | ⟨n, f, _, _, hl⟩
  · exact h
  · exact (getOrLoad_ld h hl).1

theorem applyOne_ld {fs0 : FS} {st st' : St} {cfg : Cfg} {index : Nat} {entry : Series.Entry}
    {fp : PFilePatch} {b : Bool} (h : MemLd fs0 st.mem)
    (e : applyOne st fs0 cfg index entry fp = .ok (st', b)) : MemLd fs0 st'.mem := by
  obtain ⟨mem0, hp, hc⟩ := applyOne_ok_split e
  exact applyCore_ld (st := { st with mem := mem0 }) (preLoad_ld h hp) hc

theorem applyFilePatches_ld {fs0 : FS} {cfg : Cfg} {index : Nat} {entry : Series.Entry}
    (fps : List PFilePatch) : ∀ {st st' : St} {a b : Bool}, MemLd fs0 st.mem →
    applyFilePatches st fs0 cfg index entry fps a = .ok (st', b) → MemLd fs0 st'.mem := by
  induction fps with
  | nil =>
    intro st st' a b h e
    unfold applyFilePatches at e
    cases e; exact h
  | cons fp fps ih =>
    intro st st' a b h e
    unfold applyFilePatches at e
    split at e
    · cases e
    · rename_i st1 ok h1
      exact ih (applyOne_ld h h1) e

theorem rollbackOne_ld {fs0 : FS} {m m' : Mem} {s : Status} {f : FileSt Bytes} (h : MemLd fs0 m)
    (e : rollbackOne m s = .ok (m', f)) : MemLd fs0 m' := by
  unfold rollbackOne at e
  split at e
  · cases e
  · rename_i file hget
    have hx := h.get hget
    split at e
    · cases e
    · rename_i file' hrb
      have hx' : LdOK fs0 (components s.final) file'.existed := by
        rw [rollback_existed hrb]; exact hx
      split at e
      · simp only [moveOut] at e
        have hm1 := h.put (name := s.final)
          (f := { content := [], existed := file'.existed, deleted := ‹Bool›, perms := ‹Option Nat› }) hx'
        split at e
        · cases e
        · rename_i oldFile hget2
          have hx2 := MemLd.get hm1 hget2
          split at e
          · cases e
          · rename_i restored hin
            cases e
            refine hm1.put ?_
            simp only [moveIn_existed hin]
            exact hx2
      · cases e
        exact h.put hx'

theorem rollbackAndRenderRej_ld {fs0 : FS} (fuel : Nat) : ∀ {st st' : St} {idx : Nat}
    {rejs rejs' : List (Bytes × Bytes)}, MemLd fs0 st.mem →
    rollbackAndRenderRej fuel st idx rejs = .ok (st', rejs') → MemLd fs0 st'.mem := by
  induction fuel with
  | zero =>
    intro st st' idx rejs rejs' h e
    unfold rollbackAndRenderRej at e
    cases e; exact h
  | succ n ih =>
    intro st st' idx rejs rejs' h e
    unfold rollbackAndRenderRej at e
    split at e
    · cases e; exact h
    · split at e
      · cases e
      · split at e
        · cases e; exact h
        · split at e
          · cases e
          · rename_i mem _ hrb
            have hm := rollbackOne_ld h hrb
            simp only at e
            split at e
            · exact ih (st := { applied := _, mem := mem }) hm e
            · exact ih (st := { applied := _, mem := mem }) hm e

theorem applyLoop_ld {fs0 : FS} {cfg : Cfg} (range : List Series.Entry) : ∀ {index : Nat} {st st' : St}
    {final : Nat} {rejs : List (Bytes × Bytes)}, MemLd fs0 st.mem →
    applyLoop fs0 cfg range index st = .ok (st', final, rejs) → MemLd fs0 st'.mem := by
  induction range with
  | nil =>
    intro index st st' final rejs h e
    unfold applyLoop at e
    cases e; exact h
  | cons entry rest ih =>
    intro index st st' final rejs h e
    unfold applyLoop at e
    split at e
    · cases e
    · split at e
      · cases e
      · split at e
        · cases e
        · split at e
          · cases e
          · rename_i st1 anyFailed happ
            have hm := applyFilePatches_ld _ h happ
            split at e
            · split at e
              · cases e; exact hm
              · split at e
                · cases e
                · rename_i st2 rejs2 hrb
                  cases e
                  exact rollbackAndRenderRej_ld _ hm hrb
            · exact ih hm e

/-! ## world operations when no fault is injected -/

theorem op_run_ok {w : World} {o : Op} {fs' : FS} (hf : w.faultAt = none) (h : Op.run w.fs o = .ok fs') :
    w.op o = .ok { w with trace := w.trace ++ [o], fs := fs' } := by
  rw [op_eq w o hf, h]

theorem op_run_nf {w : World} {o : Op} (hf : w.faultAt = none) (h : Op.run w.fs o = .error .notFound) :
    w.op o = .notFound { w with trace := w.trace ++ [o] } := by
  rw [op_eq w o hf, h]

/-- writing a freshly created file cannot fail -/
theorem writeNew_ok (w : World) (k : Key) (perms : Option Nat) (content : Bytes) (hf : w.faultAt = none) :
    ∃ w', writeNew w k perms content = .ok w' ∧ w'.faultAt = none ∧
      w'.fs = (match perms with | some p => w.fs.setMode k p | none => w.fs).appendBytes k content := by
  unfold writeNew
  cases perms with
  | none =>
    simp only
    rw [op_run_ok hf (o := .write k content) rfl]
    exact ⟨_, rfl, hf, rfl⟩
  | some p =>
    simp only
    rw [op_run_ok hf (o := .setMode k p) rfl]
    simp only
    rw [op_run_ok (w := { w with trace := w.trace ++ [.setMode k p], fs := w.fs.setMode k p }) hf
      (o := .write k content) rfl]
    exact ⟨_, rfl, hf, rfl⟩

/-! ## (B) `saveAll` -/

/-- what must hold of the path `k` of a cache entry `f` when it is saved: it is not the working directory, no regular
file is on the way to it, it is not a directory, its directory exists if the entry says the file existed, and nothing
is there if the entry says it did not -/
structure Ready (fs : FS) (k : Key) (f : FileSt Bytes) : Prop where
  ne : k ≠ []
  path : fs.fileOnPath k = false
  notDir : fs.lookup k ≠ some .dir
  parent : f.existed = true → fs.isDir k.dropLast = true
  free : f.existed = false → fs.lookup k = none

/-- `b` is `a` after the entry with path `k` has been saved: something else (a regular file, or nothing) at `k`,
possibly new directories at strict prefixes of `k`, everything else as it was -/
def Saved (k : Key) (a b : FS) : Prop :=
  b.lookup k ≠ some .dir ∧
  ∀ q, q ≠ k → b.lookup q = a.lookup q ∨ (SPre q k ∧ a.lookup q = none ∧ b.lookup q = some .dir)

/-- neither path is the other one, a prefix of it, or an extension of it -/
def Apart (k k' : Key) : Prop := k ≠ k' ∧ ¬ SPre k k' ∧ ¬ SPre k' k

theorem removeFile_cases {fs : FS} {k : Key} (hk : k ≠ []) (hp : fs.fileOnPath k = false)
    (hd : fs.lookup k ≠ some .dir) :
    (fs.removeFile k = .ok (fs.erase k) ∧ IsFile (fs.lookup k)) ∨
    (fs.removeFile k = .error .notFound ∧ fs.lookup k = none) := by
  unfold FS.removeFile
  rw [hp]
  simp only [Bool.false_eq_true, if_false]
  cases hl : fs.lookup k with
  | none =>
    right
    have hkb : (k == []) = false := by simpa using hk
    simp [hkb]
  | some n =>
    cases n with
    | dir => exact absurd hl hd
    | file c m i => left; exact ⟨rfl, trivial⟩

/-- the optional unlink at the start of `saveModifiedFile` -/
theorem unlink_ok {w : World} {k : Key} (hf : w.faultAt = none) (hk : k ≠ []) (hp : w.fs.fileOnPath k = false)
    (hd : w.fs.lookup k ≠ some .dir) :
    ∃ w1, (w.op (.removeFile k) = .ok w1 ∨ w.op (.removeFile k) = .notFound w1) ∧
      w1.faultAt = none ∧ w1.fs.lookup k = none ∧ ∀ q, q ≠ k → w1.fs.lookup q = w.fs.lookup q := by
  rcases removeFile_cases hk hp hd with ⟨h, _⟩ | ⟨h, hl⟩
  · exact ⟨_, .inl (op_run_ok hf (o := .removeFile k) h), hf, FS.lookup_erase_self _ _,
      fun q hq => FS.lookup_erase_ne _ _ _ hq⟩
  · exact ⟨_, .inr (op_run_nf hf (o := .removeFile k) h), hf, hl, fun _ _ => rfl⟩

/-- creating and writing the file, once nothing is at `k` and its directory exists -/
theorem createWrite_ok {w : World} {k : Key} (perms : Option Nat) (content : Bytes) (hf : w.faultAt = none)
    (hk : k ≠ []) (hp : w.fs.fileOnPath k = false) (hdir : w.fs.isDir k.dropLast = true)
    (hl : w.fs.lookup k = none) :
    ∃ w1 w', w.op (.createFile k) = .ok w1 ∧ writeNew w1 k perms content = .ok w' ∧
      w'.faultAt = none ∧ IsFile (w'.fs.lookup k) ∧ ∀ q, q ≠ k → w'.fs.lookup q = w.fs.lookup q := by
  obtain ⟨w', h1, h2, h3⟩ := writeNew_ok
    { w with trace := w.trace ++ [.createFile k],
             fs := { (w.fs.set k (.file [] 0o644 w.fs.nextIno)) with nextIno := w.fs.nextIno + 1 } }
    k perms content hf
  refine ⟨_, w', op_run_ok hf (o := .createFile k) (createFile_new hk hp hdir hl), h1, h2, ?_, fun q hq => ?_⟩
  · rw [h3]
    have h0 : ({ (w.fs.set k (.file [] 0o644 w.fs.nextIno)) with nextIno := w.fs.nextIno + 1 } : FS).lookup k =
        some (.file [] 0o644 w.fs.nextIno) := FS.lookup_set_self w.fs k _
    cases perms with
    | none => simp only; rw [lookup_appendBytes_file h0]; trivial
    | some p => simp only; rw [lookup_appendBytes_file (lookup_setMode_file h0 p)]; trivial
  · rw [h3]
    have h0 : ({ (w.fs.set k (.file [] 0o644 w.fs.nextIno)) with nextIno := w.fs.nextIno + 1 } : FS).lookup q =
        w.fs.lookup q := FS.lookup_set_ne w.fs k q _ hq
    cases perms with
    | none => simp only; rw [appendBytes_lookup_ne _ _ hq, h0]
    | some p => simp only; rw [appendBytes_lookup_ne _ _ hq, setMode_lookup_ne _ _ hq, h0]

theorem isFile_ne_dir {x : Option Node} (h : IsFile x) : x ≠ some .dir := by
  intro e; rw [e] at h; exact h

/-- **one cache entry**: with no fault injected, an entry that is `Ready` is saved -/
theorem saveModifiedFile_succeeds {w : World} {name : Bytes} {f : FileSt Bytes} {k : Key}
    (hf : w.faultAt = none) (hk : safeKey name = some k) (hr : Ready w.fs k f) :
    ∃ w' d, saveModifiedFile w name f = .ok (w', d) ∧ w'.faultAt = none ∧ Saved k w.fs w'.fs ∧
      ∀ x, d = some x → f.existed = true ∧ x = k.dropLast := by
  unfold saveModifiedFile
  rw [hk]
  simp only
  cases hex : f.existed with
  | true =>
    simp only [if_true]
    obtain ⟨w1, e1, f1, l1, o1⟩ := unlink_ok hf hr.ne hr.path hr.notDir
    have hstep : ((match w.op (.removeFile k) with
        | .ok w => .ok w
        | .notFound w => .ok w
        | .failed w => .error (.err, w)) : WR World) = .ok w1 := by
      rcases e1 with e | e <;> rw [e]
    cases hdel : f.deleted with
    | true =>
      refine ⟨w1, some k.dropLast, ?_, f1,
        ⟨(by rw [l1]; simp), fun q hq => Or.inl (o1 q hq)⟩, ?_⟩
      · rcases e1 with e | e <;> rw [e] <;> simp
      · intro x hx
        cases hx
        exact ⟨trivial, rfl⟩
    | false =>
      have hp1 : w1.fs.fileOnPath k = false := by
        rw [← hr.path]
        exact fileOnPath_congr (fun q hs => by rw [o1 q (spre_ne hs)])
      have hd1 : w1.fs.isDir k.dropLast = true := by
        have := hr.parent hex
        unfold FS.isDir at this ⊢
        rw [o1 _ (spre_ne (dropLast_spre hr.ne))]
        exact this
      obtain ⟨w2, w', e2, e3, f2, l2, o2⟩ := createWrite_ok f.perms (bytesOf f.content) f1 hr.ne hp1 hd1 l1
      refine ⟨w', none, ?_, f2, ⟨isFile_ne_dir l2, fun q hq => Or.inl ((o2 q hq).trans (o1 q hq))⟩, ?_⟩
      · rcases e1 with e | e <;> rw [e] <;> simp [e2, e3]
      · intro x hx
        cases hx
  | false =>
    simp only [Bool.false_eq_true, if_false]
    have l0 := hr.free hex
    cases hdel : f.deleted with
    | true =>
      refine ⟨w, none, by simp, hf, ⟨(by rw [l0]; simp), fun q _ => Or.inl rfl⟩, ?_⟩
      intro x hx
      cases hx
    | false =>
      have hnf := (fileOnPath_false_iff w.fs k).mp hr.path
      obtain ⟨fs2, c2, _, hdir2⟩ := createDirAll_parent hr.ne hnf
      obtain ⟨s1, _⟩ := createDirAll_spec c2
      have eop := op_run_ok hf (o := .createDirAll k.dropLast) c2
      have o1 : ∀ q, fs2.lookup q = w.fs.lookup q ∨ (SPre q k ∧ w.fs.lookup q = none ∧ fs2.lookup q = some .dir) := by
        intro q
        rcases s1 q with e | ⟨e1, e2, _, i, rfl⟩
        · exact .inl e
        · exact .inr ⟨take_dropLast_spre hr.ne i, e1, e2⟩
      have l2 : fs2.lookup k = none := by
        rcases o1 k with e | ⟨s, _, _⟩
        · rw [e, l0]
        · exact absurd s (spre_irrefl k)
      have hp2 : fs2.fileOnPath k = false := by
        rw [fileOnPath_false_iff]
        intro q hs hq
        rcases o1 q with e | ⟨_, _, e⟩
        · rw [e]; exact hnf q hs hq
        · rw [e]; exact fun h => h
      obtain ⟨w2, w', e2, e3, f2, l3, o2⟩ := createWrite_ok
        (w := { w with trace := w.trace ++ [.createDirAll k.dropLast], fs := fs2 })
        f.perms (bytesOf f.content) hf hr.ne hp2 hdir2 l2
      refine ⟨w', none, ?_, f2, ⟨isFile_ne_dir l3, fun q hq => ?_⟩, ?_⟩
      · simp [eop, e2, e3]
      · rw [o2 q hq]
        exact o1 q
      · intro x hx
        cases hx

/-- an entry that is `Ready` stays `Ready` when an entry with a path apart from its own is saved -/
theorem Ready.saved {a b : FS} {k k' : Key} {f' : FileSt Bytes} (hr : Ready a k' f') (hs : Saved k a b)
    (hap : Apart k k') : Ready b k' f' := by
  obtain ⟨hne, h1, h2⟩ := hap
  have hsame : b.lookup k' = a.lookup k' := by
    rcases hs.2 k' (fun e => hne e.symm) with e | ⟨s, _, _⟩
    · exact e
    · exact absurd s h2
  refine ⟨hr.ne, ?_, by rw [hsame]; exact hr.notDir, fun hex => ?_, fun hex => by rw [hsame]; exact hr.free hex⟩
  · rw [← hr.path]
    apply fileOnPath_congr
    intro q hq
    have hqk : q ≠ k := fun e => h1 (e ▸ hq)
    rcases hs.2 q hqk with e | ⟨_, e1, e2⟩
    · rw [e]
    · rw [e1, e2]
      exact ⟨fun h => h, fun h => h⟩
  · have hp := hr.parent hex
    unfold FS.isDir at hp ⊢
    by_cases h0 : k'.dropLast = []
    · simp [h0]
    · have hqk : k'.dropLast ≠ k := fun e => h1 (e ▸ dropLast_spre hr.ne)
      have hd : a.lookup k'.dropLast = some .dir := by simpa [h0] using hp
      rcases hs.2 _ hqk with e | ⟨_, e1, _⟩
      · rw [e, hd]; simp
      · rw [hd] at e1; cases e1

/-- the paths of the entries are pairwise apart -/
def MemApart (mem : Mem) : Prop :=
  mem.Pairwise (fun a b => ∀ k k', safeKey a.2.1 = some k → safeKey b.2.1 = some k' → Apart k k')

/-- every entry has a safe name and is `Ready` -/
def MemReady (fs : FS) (mem : Mem) : Prop :=
  ∀ e ∈ mem, ∃ k, safeKey e.2.1 = some k ∧ Ready fs k e.2.2

/-- the list of directories to clean after one more entry -/
def addDir (dirs0 : List Key) (d : Option Key) : List Key :=
  match d with
  | some k => dirs0 ++ [k]
  | none => dirs0

/-- **(B) the whole cache**: with no fault injected, a cache whose paths are pairwise apart and whose entries are all
`Ready` is written out; directories of the starting tree stay directories, a path that belongs to no entry keeps what it
had or becomes a directory, and the directories returned for cleaning are those of entries that existed -/
theorem saveAll_succeeds (mem : Mem) : ∀ (w : World) (dirs0 : List Key), w.faultAt = none → MemApart mem →
    MemReady w.fs mem →
    ∃ w' dirs, saveAll w mem dirs0 = .ok (w', dirs) ∧ w'.faultAt = none ∧
      (∀ q, w.fs.lookup q = some .dir → w'.fs.lookup q = some .dir) ∧
      (∀ q, (∀ e ∈ mem, safeKey e.2.1 ≠ some q) →
        w'.fs.lookup q = w.fs.lookup q ∨ (w.fs.lookup q = none ∧ w'.fs.lookup q = some .dir)) ∧
      (∀ d ∈ dirs, d ∈ dirs0 ∨ ∃ e ∈ mem, ∃ k, safeKey e.2.1 = some k ∧ e.2.2.existed = true ∧ d = k.dropLast) := by
  induction mem with
  | nil =>
    intro w dirs0 hf _ _
    refine ⟨w, dirs0, by unfold saveAll; rfl, hf, fun _ h => h, fun _ _ => .inl rfl, fun d hd => .inl hd⟩
  | cons x rest ih =>
    intro w dirs0 hf hap hrd
    obtain ⟨cs, name, f⟩ := x
    obtain ⟨k, hk, hr⟩ := hrd (cs, name, f) (List.mem_cons_self ..)
    unfold MemApart at hap
    rw [List.pairwise_cons] at hap
    obtain ⟨hap1, hap2⟩ := hap
    obtain ⟨w1, d, e1, f1, s1, hd1⟩ := saveModifiedFile_succeeds hf hk hr
    have hrd' : MemReady w1.fs rest := by
      intro e he
      obtain ⟨k', hk', hr'⟩ := hrd e (List.mem_cons_of_mem _ he)
      exact ⟨k', hk', hr'.saved s1 (hap1 e he k k' hk hk')⟩
    obtain ⟨w', dirs, e2, f2, c1, c2, c3⟩ := ih w1 (addDir dirs0 d) f1 hap2 hrd'
    refine ⟨w', dirs, ?_, f2, ?_, ?_, ?_⟩
    · unfold saveAll
      rw [e1]
      simp only
      exact e2
    · intro q hq
      apply c1
      by_cases hqk : q = k
      · subst hqk; exact absurd hq hr.notDir
      · rcases s1.2 q hqk with e | ⟨_, _, e⟩
        · rw [e]; exact hq
        · exact e
    · intro q hq
      have hqk : q ≠ k := fun e => hq (cs, name, f) (List.mem_cons_self ..) (e ▸ hk)
      have hrest : ∀ e ∈ rest, safeKey e.2.1 ≠ some q := fun e he => hq e (List.mem_cons_of_mem _ he)
      rcases c2 q hrest with e | ⟨e1', e2'⟩
      · rcases s1.2 q hqk with e' | ⟨_, e1'', e2''⟩
        · exact .inl (e.trans e')
        · exact .inr ⟨e1'', e.trans e2''⟩
      · rcases s1.2 q hqk with e' | ⟨_, _, e2''⟩
        · exact .inr ⟨e' ▸ e1', e2'⟩
        · rw [e2''] at e1'; cases e1'
    · intro d' hd'
      rcases c3 d' hd' with h | ⟨e, he, k', hk', hex, hdk⟩
      · cases d with
        | none => exact .inl h
        | some x =>
          simp only [addDir] at h
          rcases List.mem_append.mp h with h | h
          · exact .inl h
          · simp only [List.mem_singleton] at h
            obtain ⟨hex, hx⟩ := hd1 x rfl
            exact .inr ⟨(cs, name, f), List.mem_cons_self .., k, hk, hex, by rw [h, hx]⟩
      · exact .inr ⟨e, List.mem_cons_of_mem _ he, k', hk', hex, hdk⟩

/-! ## (C) `cleanAll` -/

/-- no non-empty prefix of `d` (`d` included) is a regular file -/
def NoFileUpTo (fs : FS) (d : Key) : Prop := ∀ i, 0 < i → i ≤ d.length → fileAt fs (d.take i) = none

/-- the working directory holds a regular file (here: `series`), so it is never empty -/
def RootFile (fs : FS) : Prop := ∃ s : Key, s.length = 1 ∧ fileAt fs s ≠ none

theorem dirEmpty_removeDir {fs : FS} {d : Key} (hp : NoFileUpTo fs d) (hroot : RootFile fs) :
    fs.dirEmpty d = .error .notFound ∨ fs.dirEmpty d = .ok false ∨
    (fs.dirEmpty d = .ok true ∧ d ≠ [] ∧ fs.removeDir d = .ok (fs.erase d)) := by
  have hfp : fs.fileOnPath d = false := by
    rw [fileOnPath_false_iff]
    intro q hs hq hf
    have hl : 0 < q.length := List.length_pos_iff.mpr hq
    have := hp q.length hl (Nat.le_of_lt hs.1)
    rw [hs.2] at this
    exact (isFile_iff_fileAt.mp hf) this
  unfold FS.dirEmpty
  rw [hfp]
  simp only [Bool.false_eq_true, if_false]
  cases hdir : fs.isDir d with
  | false =>
    simp only [Bool.not_false, if_true]
    cases hl : fs.lookup d with
    | none => exact .inl rfl
    | some n =>
      exfalso
      cases n with
      | dir => simp [FS.isDir, hl] at hdir
      | file c m i =>
        have hd0 : d ≠ [] := by
          intro e; subst e; simp [FS.isDir] at hdir
        have := hp d.length (List.length_pos_iff.mpr hd0) (Nat.le_refl _)
        rw [List.take_length] at this
        rw [fileAt_of_lookup_file hl] at this
        cases this
  | true =>
    simp only [Bool.not_true, Bool.false_eq_true, if_false]
    cases hany : fs.nodes.any (fun p => p.1.length == d.length + 1 && p.1.take d.length == d) with
    | true => exact .inr (.inl rfl)
    | false =>
      refine .inr (.inr ⟨rfl, ?_⟩)
      have hd0 : d ≠ [] := by
        intro e
        subst e
        obtain ⟨s, hs1, hs2⟩ := hroot
        have : fs.nodes.any (fun p => p.1.length == ([] : Key).length + 1 && p.1.take ([] : Key).length == []) = true := by
          rw [hasChild_iff]
          refine ⟨s, by simpa using hs1, by simp, ?_⟩
          cases hl : fs.lookup s with
          | none => rw [fileAt_of_lookup_none hl] at hs2; exact absurd rfl hs2
          | some n => rfl
        rw [this] at hany
        cases hany
      refine ⟨hd0, ?_⟩
      have hl : fs.lookup d = some .dir := by
        unfold FS.isDir at hdir
        simpa [hd0] using hdir
      unfold FS.removeDir
      have hdb : (d == []) = false := by simpa using hd0
      simp [hdb, hl, hany]

theorem take_dropLast_le {d : Key} {i : Nat} (hi : i ≤ d.dropLast.length) : d.dropLast.take i = d.take i := by
  rw [List.length_dropLast] at hi
  rw [List.dropLast_eq_take, List.take_take, Nat.min_eq_left hi]

theorem NoFileUpTo.dropLast {fs : FS} {d : Key} (h : NoFileUpTo fs d) : NoFileUpTo fs d.dropLast := by
  intro i h0 hi
  rw [take_dropLast_le hi]
  rw [List.length_dropLast] at hi
  exact h i h0 (by omega)

theorem NoFileUpTo.congr {a b : FS} {d : Key} (h : NoFileUpTo a d) (hab : ∀ q, fileAt b q = fileAt a q) :
    NoFileUpTo b d := fun i h0 hi => by rw [hab]; exact h i h0 hi

theorem RootFile.congr {a b : FS} (h : RootFile a) (hab : ∀ q, fileAt b q = fileAt a q) : RootFile b := by
  obtain ⟨s, h1, h2⟩ := h
  exact ⟨s, h1, by rw [hab]; exact h2⟩

/-- the climbing loop for one directory does not fail when no regular file is on the way up -/
theorem cleanUp_succeeds : ∀ (fuel : Nat) (w : World) (d : Key), w.faultAt = none → NoFileUpTo w.fs d →
    RootFile w.fs → ∃ w', cleanUp w fuel d = .ok w' ∧ w'.faultAt = none ∧ ∀ q, fileAt w'.fs q = fileAt w.fs q := by
  intro fuel
  induction fuel with
  | zero =>
    intro w d hf _ _
    exact ⟨w, by unfold cleanUp; rfl, hf, fun _ => rfl⟩
  | succ n ih =>
    intro w d hf hp hroot
    unfold cleanUp
    rcases dirEmpty_removeDir hp hroot with h | h | ⟨h, hd0, hrm⟩
    · rw [h]
      exact ⟨w, rfl, hf, fun _ => rfl⟩
    · rw [h]
      exact ⟨w, rfl, hf, fun _ => rfl⟩
    · rw [h]
      simp only
      rw [op_run_ok hf (o := .removeDir d) hrm]
      simp only
      have hne : d.isEmpty = false := by simpa using hd0
      rw [hne]
      simp only [Bool.false_eq_true, if_false]
      have hfa : ∀ q, fileAt (w.fs.erase d) q = fileAt w.fs q := fun q => removeDir_fileAt hrm q
      obtain ⟨w', e, f', c⟩ := ih { w with trace := w.trace ++ [.removeDir d], fs := w.fs.erase d } d.dropLast hf
        (hp.dropLast.congr hfa) (hroot.congr hfa)
      exact ⟨w', e, f', fun q => (c q).trans (hfa q)⟩

/-- **(C)** `cleanAll` does not fail when every directory to clean has no regular file on its way up -/
theorem cleanAll_succeeds : ∀ (ks : List Key) (w : World), w.faultAt = none → (∀ d ∈ ks, NoFileUpTo w.fs d) →
    RootFile w.fs → ∃ w', cleanAll w ks = .ok w' ∧ w'.faultAt = none := by
  intro ks
  induction ks with
  | nil =>
    intro w hf _ _
    exact ⟨w, by unfold cleanAll; rfl, hf⟩
  | cons d ks ih =>
    intro w hf hp hroot
    obtain ⟨w1, e1, f1, c1⟩ := cleanUp_succeeds (d.length + 1) w d hf (hp d (List.mem_cons_self ..)) hroot
    obtain ⟨w', e2, f2⟩ := ih w1 f1 (fun d' hd' => (hp d' (List.mem_cons_of_mem _ hd')).congr c1) (hroot.congr c1)
    refine ⟨w', ?_, f2⟩
    unfold cleanAll
    rw [e1]
    exact e2

/-! ## the cache the application loop leaves is ready to be saved -/

theorem series_of_plan {cfg : Cfg} {fs : FS} {range : List Series.Entry} (h : plan cfg fs = .apply range) :
    ∃ x, fs.readFile seriesKey = .ok x := by
  unfold plan at h
  split at h
  · cases h
  · rename_i hr
    exact ⟨_, hr⟩

theorem readFile_nil_of_root {fs : FS} (hroot : fs.lookup [] = none) : fs.readFile [] = .error .other := by
  unfold FS.readFile
  have : fs.fileOnPath [] = false := by
    rw [fileOnPath_false_iff]
    intro q hs
    exact absurd hs.1 (Nat.not_lt_zero _)
  simp [this, hroot]

/-- what `LdOK` says about the starting tree -/
theorem ready_of_ld {fs0 : FS} (hT : Tight fs0) {name : Bytes} {f : FileSt Bytes}
    (hld : LdOK fs0 (components name) f.existed) (hout : ∀ k, safeKey name = some k → ¬ isPcKey k) :
    ∃ k, safeKey name = some k ∧ Ready fs0 k f ∧ (f.existed = true → IsFile (fs0.lookup k)) := by
  obtain ⟨k, hk, hrd⟩ := hld
  have hk0 : k ≠ [] := by
    intro e
    subst e
    have := readFile_nil_of_root hT.root
    cases hex : f.existed with
    | true =>
      rw [hex] at hrd
      obtain ⟨c, m, h⟩ := hrd
      rw [this] at h; cases h
    | false =>
      rw [hex] at hrd
      simp only [Bool.false_eq_true, if_false] at hrd
      rw [this] at hrd; cases hrd
  have hsafe : safeKey name = some k := by
    unfold safeKey
    have hne : name.isEmpty = false := by
      cases hn : name.isEmpty with
      | false => rfl
      | true =>
        exfalso
        have : name = [] := by simpa using hn
        subst this
        have hc : components ([] : Bytes) = [] := by decide
        rw [hc] at hk
        have : keyOfComps [] = some [] := by decide
        rw [this] at hk
        cases hk
        exact hk0 rfl
    rw [hne]
    exact hk
  refine ⟨k, hsafe, ?_⟩
  have hpc := hout k hsafe
  cases hex : f.existed with
  | true =>
    rw [hex] at hrd
    obtain ⟨c, m, h⟩ := hrd
    obtain ⟨h1, h2⟩ := readFile_ok_spec h
    refine ⟨⟨hk0, h1, isFile_ne_dir h2, fun _ => ?_, fun h => (by rw [hex] at h; cases h)⟩, fun _ => h2⟩
    obtain ⟨c', m', i', hl⟩ := isFile_iff.mp h2
    exact Refine2.isDir_parent_of_node hT.wf hpc hl
  | false =>
    rw [hex] at hrd
    simp only [Bool.false_eq_true, if_false] at hrd
    have hl := FS.readFile_notFound hrd
    have hp : fs0.fileOnPath k = false := by
      unfold FS.readFile at hrd
      split at hrd
      · cases hrd
      · rename_i h; simpa using h
    exact ⟨⟨hk0, hp, (by rw [hl]; simp), fun h => (by rw [hex] at h; cases h), fun _ => hl⟩, fun h => (by cases h)⟩

/-- the names in the cache: their paths are among the paths the range names, and not quilt's own -/
theorem applyLoop_memKeys {cfg : Cfg} {fs : FS} {range : List Series.Entry} {st : St} {final : Nat}
    {rejs : List (Bytes × Bytes)} (hclean : Clean cfg fs range)
    (hloop : applyLoop fs cfg range 0 {} = .ok (st, final, rejs)) :
    MemNames (fun n => ∀ k, safeKey n = some k → k ∈ rangeKeys fs cfg range ∧ ¬ Own cfg k) st.mem := by
  refine (applyLoop_inv (fun _ => True) range (memNames_nil _) (fun _ hs => by cases hs) ?_
    (fun _ _ _ _ _ _ _ _ _ => trivial) hloop).1
  intro e he patch hp fp hfp n hn k hk
  exact ⟨(namesIn_rangeKeys he hp hfp n hn).2 k hk, hclean.names e he patch hp fp hfp n hn k hk⟩

/-- **(A)+(B)+(C): the save phase succeeds.**  From a tight tree, with no fault injected: the cache the application loop
leaves is written out and the emptied directories are cleaned -/
theorem save_clean_succeed (w : World) (cfg : Cfg) (range : List Series.Entry) (st : St) (final : Nat)
    (rejs : List (Bytes × Bytes)) (hf : w.faultAt = none) (hT : Tight w.fs) (hclean : Clean cfg w.fs range)
    (hpf : PrefixFree w.fs cfg range) (hser : ∃ x, w.fs.readFile seriesKey = .ok x)
    (hloop : applyLoop w.fs cfg range 0 {} = .ok (st, final, rejs)) :
    ∃ w1 dirs w2, saveAll w st.mem [] = .ok (w1, dirs) ∧ cleanAll w1 dirs = .ok w2 ∧ w2.faultAt = none := by
  have hld : MemLd w.fs st.mem := applyLoop_ld range (memLd_nil _) hloop
  have hgood : Disk.MemGood st.mem := Disk.applyLoop_good range Disk.memGood_nil hloop
  have hkeys := applyLoop_memKeys hclean hloop
  have hout : ∀ e ∈ st.mem, ∀ k, safeKey e.2.1 = some k → ¬ isPcKey k :=
    fun e he k hk => not_pc_of_not_own (hkeys e he k hk).2
  have hready : ∀ e ∈ st.mem, ∃ k, safeKey e.2.1 = some k ∧ Ready w.fs k e.2.2 ∧
      (e.2.2.existed = true → IsFile (w.fs.lookup k)) := by
    intro e he
    obtain ⟨h1, h2⟩ := hld e he
    rw [h1] at h2
    exact ready_of_ld hT h2 (hout e he)
  have hapart : MemApart st.mem := by
    refine List.Pairwise.imp_of_mem ?_ (Disk.keysDistinct_of_good hgood)
    intro a b ha hb hab k k' hk hk'
    have m1 := (hkeys a ha k hk).1
    have m2 := (hkeys b hb k' hk').1
    refine ⟨fun e => hab k hk (e ▸ hk'), hpf k m1 k' m2, hpf k' m2 k m1⟩
  obtain ⟨w1, dirs, e1, f1, c1, c2, c3⟩ := saveAll_succeeds st.mem w [] hf hapart
    (fun e he => by obtain ⟨k, hk, hr, _⟩ := hready e he; exact ⟨k, hk, hr⟩)
  have hroot : RootFile w1.fs := by
    obtain ⟨x, hx⟩ := hser
    obtain ⟨_, hfile⟩ := readFile_ok_spec hx
    refine ⟨seriesKey, rfl, ?_⟩
    have hnot : ∀ e ∈ st.mem, safeKey e.2.1 ≠ some seriesKey :=
      fun e he hk => (hkeys e he seriesKey hk).2 (.inr (.inr (.inl rfl)))
    rcases c2 seriesKey hnot with e | ⟨e, _⟩
    · rw [fileAt_congr e]; exact isFile_iff_fileAt.mp hfile
    · rw [e] at hfile; exact hfile.elim
  have hdirs : ∀ d ∈ dirs, NoFileUpTo w1.fs d := by
    intro d hd
    rcases c3 d hd with h | ⟨e, he, k, hk, hex, rfl⟩
    · cases h
    · obtain ⟨k', hk', _, hfile⟩ := hready e he
      rw [hk] at hk'
      cases hk'
      obtain ⟨c, m, i, hl⟩ := isFile_iff.mp (hfile hex)
      intro i h0 hi
      rw [take_dropLast_le hi]
      rw [List.length_dropLast] at hi
      exact fileAt_of_lookup_dir (c1 _ (hT.wf k (hout e he k hk) _ hl i h0 (by omega)))
  obtain ⟨w2, e2, f2⟩ := cleanAll_succeeds dirs w1 f1 hdirs hroot
  exact ⟨w1, dirs, w2, e1, e2, f2⟩

/-! ## (1) the application loop -/

/-- the application loop ends without error or panic when the specification does not refuse the range: the loop fails
exactly when the abstract run does (`C05_apply_refines`), and then the specification refuses (`spec_agree`) -/
theorem applyLoop_succeeds (fs : FS) (cfg : Cfg) (range : List Series.Entry) (hdry : cfg.dryRun = false)
    (hpf : PrefixFree fs cfg range) (hterm : ∀ t' ∈ reached fs cfg range [], TreeTerminated t')
    (hnr : ¬ Refused cfg fs range) : ∃ st final rejs, applyLoop fs cfg range 0 {} = .ok (st, final, rejs) := by
  have h1 := Abs.C05_apply_refines fs cfg range
  have h2 := spec_agree fs cfg range hdry hpf hterm
  cases hloop : applyLoop fs cfg range 0 {} with
  | ok r => obtain ⟨st, final, rejs⟩ := r; exact ⟨st, final, rejs, rfl⟩
  | error e =>
    exfalso
    rw [hloop] at h1
    cases hA : Abs.applyRange fs cfg range 0 [] with
    | ok r => rw [hA] at h1; exact h1
    | error e' =>
      rw [hA] at h2
      exact hnr h2

/-! ## (D) the reject files -/

open RQ.Refine2 (putPlain putFile_putPlain)

/-- the specification wrote the file at `k`: unlinking what was there did not fail for a reason other than "not found" -/
theorem removeFile_of_putFile {a a' : FS} {k : Key} {c : Bytes} {perms : Option Nat}
    (ha : putFile a k c perms = .ok a') : a.removeFile k ≠ .error .other := by
  intro hr
  have hu : unlinked a k = a := by unfold unlinked; rw [hr]
  rw [putFile_eq', hu] at ha
  unfold putRest at ha
  cases h1 : a.createDirAll k.dropLast with
  | error e => rw [h1] at ha; cases ha
  | ok a1 =>
    rw [h1] at ha
    simp only at ha
    cases h2 : a1.createFile k with
    | error e => rw [h2] at ha; cases ha
    | ok a2 =>
      obtain ⟨d1, _⟩ := createDirAll_spec h1
      obtain ⟨hk0, _⟩ := createFile_spec h2
      refine createFile_blocked ?_ a2 h2
      unfold FS.removeFile at hr
      split at hr
      · rename_i hfp
        left
        rw [← hfp]
        apply fileOnPath_congr
        intro q _
        rcases d1 q with e | ⟨e1, e2, _⟩
        · rw [e]
        · rw [e1, e2]; exact ⟨fun h => h, fun h => h⟩
      · split at hr
        · cases hr
        · rename_i hl
          right
          rcases d1 k with e | ⟨e, _⟩
          · rw [e]; exact hl
          · rw [hl] at e; cases e
        · split at hr
          · rename_i hk
            exact absurd (by simpa using hk) hk0
          · cases hr

/-- the specification's `putFile` of a reject file succeeded on a tree that agrees outside `.pc`: the driver's
unlink–create–write succeeds too (the part of `Refine2.putFile_putPlain` that needs only the specification's success) -/
theorem putPlain_of_putFile {a a' b : FS} {k : Key} {c : Bytes} {S : List Key} (hab : OutsidePc a b)
    (hk : ¬ isPcKey k) (hi : TInv b S) (hd : b.isDir k.dropLast = true)
    (ha : putFile a k c none = .ok a') : ∃ b', putPlain b k c = .ok b' := by
  have hu : OutsidePc (unlinked a k) (unlinked b k) ∧ TInv (unlinked b k) (k.dropLast :: S) ∧
      (unlinked b k).isDir k.dropLast = true := by
    unfold unlinked
    have hr := removeFile_congr hab hk
    cases har : a.removeFile k with
    | error e =>
      rw [hr.err_left har]
      exact ⟨hab, hi.cons _, hd⟩
    | ok a0 =>
      obtain ⟨b0, hb0, h0⟩ := hr.ok_left har
      rw [hb0]
      exact ⟨h0, tinv_removeFile hi hb0, by rw [removeFile_isDir hb0]; exact hd⟩
  rw [putFile_eq'] at ha
  unfold putPlain
  generalize unlinked a k = a0 at ha hu
  generalize unlinked b k = b0 at hu ⊢
  obtain ⟨h0, hi0, hd0⟩ := hu
  have hdp : ¬ isPcKey k.dropLast := not_isPcKey_dropLast hk
  have hnoop : b0.createDirAll k.dropLast = .ok b0 := by
    apply createDirAll_noop
    intro i hne
    unfold FS.isDir at hd0
    have hdl : k.dropLast ≠ [] := by
      intro e; rw [e] at hne; simp at hne
    have hdir : b0.lookup k.dropLast = some .dir := by simpa [hdl] using hd0
    by_cases hi' : i < k.dropLast.length
    · have h0i : 0 < i := by
        apply Nat.pos_of_ne_zero
        intro e; rw [e] at hne; simp at hne
      exact hi0.wf k.dropLast hdp _ hdir i h0i hi'
    · rw [List.take_of_length_le (by omega)]; exact hdir
  unfold putRest at ha
  have hc := createDirAll_congr h0 hdp
  cases ha1 : a0.createDirAll k.dropLast with
  | error e => rw [ha1] at ha; cases ha
  | ok a1 =>
    obtain ⟨b1, hb1, h1⟩ := hc.ok_left ha1
    rw [hnoop] at hb1
    cases hb1
    rw [ha1] at ha
    simp only at ha
    have hcf := createFile_congr h1 hk
    cases ha2 : a1.createFile k with
    | error e => rw [ha2] at ha; cases ha
    | ok a2 =>
      obtain ⟨b2, hb2, _⟩ := hcf.ok_left ha2
      rw [hb2]
      exact ⟨_, rfl⟩

theorem saveRejFiles_cons_eq {w w1 w2 w3 : World} {name content : Bytes} {rest : List (Bytes × Bytes)} {k : Key}
    (hk : safeKey name = some k) (hfp : w.fs.fileOnPath k = false)
    (h1 : w.op (.removeFile k) = .ok w1 ∨ w.op (.removeFile k) = .notFound w1)
    (h2 : w1.op (.createFile k) = .ok w2) (h3 : w2.op (.write k content) = .ok w3) :
    saveRejFiles w ((name, content) :: rest) = saveRejFiles w3 rest := by
  rw [saveRejFiles_cons, hk]
  simp only [hfp, Bool.false_eq_true, if_false]
  rcases h1 with h1 | h1 <;> rw [h1] <;> simp only <;> rw [h2] <;> simp only <;> rw [h3]

theorem saveRejFiles_cons_skip {w w1 w2 : World} {name content : Bytes} {rest : List (Bytes × Bytes)} {k : Key}
    (hk : safeKey name = some k) (hfp : w.fs.fileOnPath k = false)
    (h1 : w.op (.removeFile k) = .ok w1 ∨ w.op (.removeFile k) = .notFound w1)
    (h2 : w1.op (.createFile k) = .notFound w2) :
    saveRejFiles w ((name, content) :: rest) = saveRejFiles w2 rest := by
  rw [saveRejFiles_cons, hk]
  simp only [hfp, Bool.false_eq_true, if_false]
  rcases h1 with h1 | h1 <;> rw [h1] <;> simp only <;> rw [h2]

/-- one reject file whose path leads through a regular file: both operations fail with `ENOTDIR` and the reject is
bypassed (no fault injected) -/
theorem rej_blocked {w : World} {name content : Bytes} {rest : List (Bytes × Bytes)} {k : Key}
    (hf : w.faultAt = none) (hk : safeKey name = some k) (hfp : w.fs.fileOnPath k = true) :
    ∃ w1, saveRejFiles w ((name, content) :: rest) = saveRejFiles w1 rest ∧ w1.faultAt = none ∧ w1.fs = w.fs := by
  refine ⟨(w.logged (.removeFile k)).logged (.createFile k), ?_, hf, rfl⟩
  rw [saveRejFiles_cons, hk]
  simp only [hfp, if_true, hf]
  rfl

/-- one reject file whose directory does not exist: the driver's unlink finds nothing and the creation is skipped -/
theorem rej_skip {w : World} {name content : Bytes} {rest : List (Bytes × Bytes)} {k : Key}
    (hf : w.faultAt = none) (hk : safeKey name = some k) (hpc : ¬ isPcKey k) (hwf : WFo w.fs)
    (hfp : w.fs.fileOnPath k = false) (hnd : w.fs.isDir k.dropLast = false) :
    ∃ w1, saveRejFiles w ((name, content) :: rest) = saveRejFiles w1 rest ∧ w1.faultAt = none ∧ w1.fs = w.fs := by
  have hk0 : k ≠ [] := by
    intro e; subst e; simp [FS.isDir] at hnd
  have hl : w.fs.lookup k = none := by
    cases hl : w.fs.lookup k with
    | none => rfl
    | some n =>
      have := Refine2.isDir_parent_of_node hwf hpc hl
      rw [this] at hnd; cases hnd
  have hkb : (k == []) = false := by simpa using hk0
  have hr : w.fs.removeFile k = .error .notFound := by
    unfold FS.removeFile
    simp [hfp, hl, hkb]
  have hc : w.fs.createFile k = .error .notFound := by
    unfold FS.createFile
    simp [hfp, hnd, hkb]
  have e1 := op_run_nf hf (o := .removeFile k) hr
  have e2 := op_run_nf (w := { w with trace := w.trace ++ [.removeFile k] }) hf (o := .createFile k) hc
  exact ⟨_, saveRejFiles_cons_skip hk hfp (.inr e1) e2, hf, rfl⟩

/-- one reject file whose directory exists -/
theorem rej_write {w : World} {name content : Bytes} {rest : List (Bytes × Bytes)} {k : Key} {b' : FS}
    (hf : w.faultAt = none) (hk : safeKey name = some k) (hfp : w.fs.fileOnPath k = false)
    (hr : w.fs.removeFile k ≠ .error .other) (hp : putPlain w.fs k content = .ok b') :
    ∃ w1, saveRejFiles w ((name, content) :: rest) = saveRejFiles w1 rest ∧ w1.faultAt = none ∧ w1.fs = b' := by
  unfold putPlain at hp
  cases hc : (unlinked w.fs k).createFile k with
  | error e => rw [hc] at hp; cases hp
  | ok b2 =>
    rw [hc] at hp
    simp only at hp
    cases hp
    cases hrm : w.fs.removeFile k with
    | ok b0 =>
      have hu : unlinked w.fs k = b0 := by unfold unlinked; rw [hrm]
      rw [hu] at hc
      have e1 := op_run_ok hf (o := .removeFile k) hrm
      have e2 := op_run_ok (w := { w with trace := w.trace ++ [.removeFile k], fs := b0 }) hf (o := .createFile k) hc
      have e3 := op_run_ok (w := { w with trace := w.trace ++ [.removeFile k] ++ [.createFile k], fs := b2 }) hf
        (o := .write k content) rfl
      exact ⟨_, saveRejFiles_cons_eq hk hfp (.inl e1) e2 e3, hf, rfl⟩
    | error e =>
      cases e with
      | other => exact absurd hrm hr
      | notFound =>
        have hu : unlinked w.fs k = w.fs := by unfold unlinked; rw [hrm]
        rw [hu] at hc
        have e1 := op_run_nf hf (o := .removeFile k) hrm
        have e2 := op_run_ok (w := { w with trace := w.trace ++ [.removeFile k] }) hf (o := .createFile k) hc
        have e3 := op_run_ok (w := { w with trace := w.trace ++ [.removeFile k] ++ [.createFile k], fs := b2 }) hf
          (o := .write k content) rfl
        exact ⟨_, saveRejFiles_cons_eq hk hfp (.inr e1) e2 e3, hf, rfl⟩

/-- **(D) the reject files**: if the specification's `putRejects` succeeds on a tree that agrees with the driver's
outside `.pc`, the driver's `saveRejFiles` succeeds (no fault injected); the trees agree outside `.pc` afterwards -/
theorem saveRejFiles_succeeds : ∀ (rejs : List (Bytes × Bytes)), RejsOut rejs → ∀ (a a' : FS) (w : World) (S : List Key),
    w.faultAt = none → OutsidePc a w.fs → TInv w.fs S → putRejects a rejs = .ok a' →
    ∃ w', saveRejFiles w rejs = .ok w' ∧ w'.faultAt = none ∧ OutsidePc a' w'.fs ∧ TInv w'.fs S := by
  intro rejs
  induction rejs with
  | nil =>
    intro _ a a' w S hf hab hi hp
    unfold putRejects at hp
    cases hp
    exact ⟨w, by unfold saveRejFiles; rfl, hf, hab, hi⟩
  | cons r rest ih =>
    obtain ⟨name, content⟩ := r
    intro hr a a' w S hf hab hi hp
    have hrest : RejsOut rest := fun r hm => hr r (List.mem_cons_of_mem _ hm)
    unfold putRejects at hp
    cases hk : safeKey name with
    | none => rw [hk] at hp; cases hp
    | some k =>
      rw [hk] at hp
      simp only at hp
      have hk' : ¬ isPcKey k := hr (name, content) (List.mem_cons_self ..) k hk
      have hd : a.isDir k.dropLast = w.fs.isDir k.dropLast := hab.isDir_eq (not_isPcKey_dropLast hk')
      split at hp
      · rename_i hfpa
        have hfp : w.fs.fileOnPath k = true := by
          rw [← hab.fileOnPath_eq hk']; exact hfpa
        obtain ⟨w1, e1, f1, hfs⟩ := rej_blocked (content := content) (rest := rest) hf hk hfp
        obtain ⟨w', e2, f2, h2, h3⟩ := ih hrest a a' w1 S f1 (by rw [hfs]; exact hab) (by rw [hfs]; exact hi) hp
        exact ⟨w', by rw [e1]; exact e2, f2, h2, h3⟩
      · rename_i hfpa
        have hfp : w.fs.fileOnPath k = false := by
          rw [← hab.fileOnPath_eq hk']
          simpa using hfpa
        split at hp
        · rename_i hnd
          have hnd' : w.fs.isDir k.dropLast = false := by
            rw [← hd]; simpa using hnd
          obtain ⟨w1, e1, f1, hfs⟩ := rej_skip (content := content) (rest := rest) hf hk hk' hi.wf hfp hnd'
          obtain ⟨w', e2, f2, h2, h3⟩ := ih hrest a a' w1 S f1 (by rw [hfs]; exact hab) (by rw [hfs]; exact hi) hp
          exact ⟨w', by rw [e1]; exact e2, f2, h2, h3⟩
        · rename_i hnd
          have hdir : w.fs.isDir k.dropLast = true := by
            rw [← hd]; simpa using hnd
          split at hp
          · cases hp
          · rename_i a1 ha1
            obtain ⟨b', hpl⟩ := putPlain_of_putFile hab hk' hi hdir ha1
            have hrm : w.fs.removeFile k ≠ .error .other := by
              intro h
              have hc := removeFile_congr hab hk'
              cases har : a.removeFile k with
              | ok x =>
                obtain ⟨y, hy, _⟩ := hc.ok_left har
                rw [hy] at h; cases h
              | error e =>
                have := hc.err_left har
                rw [h] at this
                cases this
                exact removeFile_of_putFile ha1 har
            obtain ⟨w1, e1, f1, hfs⟩ := rej_write (rest := rest) hf hk hfp hrm hpl
            obtain ⟨h1, h2⟩ := putFile_putPlain hab hk' hi hdir ha1 hpl
            obtain ⟨w', e2, f2, h3, h4⟩ := ih hrest a1 a' w1 S f1 (by rw [hfs]; exact h1) (by rw [hfs]; exact h2) hp
            exact ⟨w', by rw [e1]; exact e2, f2, h3, h4⟩

/-! ## (E) `.pc/applied-patches` -/

/-- nothing is in the way of `mkdir -p .pc` and of opening `.pc/applied-patches` for appending -/
def PcFree (fs : FS) : Prop := ¬ IsFile (fs.lookup pcDir) ∧ fs.lookup appliedKey ≠ some .dir

theorem createDirAll_pcDir (fs : FS) : fs.createDirAll pcDir =
    (match fs.lookup pcDir with
      | some .dir => .ok fs
      | some (.file ..) => .error .other
      | none => .ok (fs.set pcDir .dir)) := by
  rw [createDirAll_eq]
  have : List.range (pcDir.length + 1) = [0, 1] := by decide
  rw [this]
  simp only [List.foldl_cons, List.foldl_nil]
  have h0 : cdaStep pcDir (.ok fs) 0 = .ok fs := by
    unfold cdaStep
    simp
  rw [h0]
  unfold cdaStep
  have : pcDir.take 1 = pcDir := by decide
  simp only [this]
  have : (pcDir == []) = false := by decide
  simp only [this, Bool.false_eq_true, if_false]
  cases fs.lookup pcDir with
  | none => rfl
  | some n => cases n <;> rfl

/-- the specification's last step succeeded: nothing was in the way -/
theorem pcFree_of_spec {fs f3 f4 : FS} {b : Bytes} (h3 : fs.createDirAll pcDir = .ok f3)
    (h4 : f3.appendFile appliedKey b = .ok f4) : PcFree fs := by
  constructor
  · intro hf
    obtain ⟨c, m, i, hl⟩ := isFile_iff.mp hf
    rw [createDirAll_pcDir, hl] at h3
    cases h3
  · intro hd
    have : f3.lookup appliedKey = some .dir := by
      rw [(Refine2.cda_pc h3).2 appliedKey Refine2.pcDir_ne_applied]; exact hd
    unfold FS.appendFile at h4
    rw [this] at h4
    split at h4
    · cases h4
    · split at h4 <;> cases h4

theorem PcFree.congr {a b : FS}
    (h : ∀ q, isPcKey q → (a.lookup q).map ParSave.noIno = (b.lookup q).map ParSave.noIno) (ha : PcFree a) :
    PcFree b := by
  obtain ⟨h1, h2⟩ := ha
  constructor
  · intro hf
    apply h1
    obtain ⟨c, m, i, hl⟩ := isFile_iff.mp hf
    rcases ParSave.noIno_cases (h pcDir (by decide)) with ⟨e1, e2⟩ | ⟨e1, e2⟩ | ⟨c', m', i', i'', e1, e2⟩
    · rw [hl] at e2; cases e2
    · rw [hl] at e2; cases e2
    · rw [e1]; trivial
  · intro hd
    apply h2
    rcases ParSave.noIno_cases (h appliedKey isPcKey_appliedKey) with ⟨e1, e2⟩ | ⟨e1, e2⟩ | ⟨c', m', i', i'', e1, e2⟩
    · rw [hd] at e2; cases e2
    · exact e1
    · rw [hd] at e2; cases e2

/-- **(E)** `save_applied_patches` succeeds when nothing is in the way below `.pc` -/
theorem saveApplied_succeeds {w : World} (names : List Bytes) (hf : w.faultAt = none) (hfree : PcFree w.fs) :
    ∃ w', saveApplied w names = .ok w' := by
  obtain ⟨h1, h2⟩ := hfree
  have hc : ∃ f3, w.fs.createDirAll pcDir = .ok f3 := by
    rw [createDirAll_pcDir]
    cases hl : w.fs.lookup pcDir with
    | none => exact ⟨_, rfl⟩
    | some n =>
      cases n with
      | dir => exact ⟨_, rfl⟩
      | file c m i => rw [hl] at h1; exact absurd trivial h1
  obtain ⟨f3, h3⟩ := hc
  obtain ⟨d1, d2⟩ := Refine2.cda_pc h3
  have ha : ∃ f4, f3.appendFile appliedKey [] = .ok f4 := by
    have hfp : f3.fileOnPath appliedKey = false := by
      rw [fileOnPath_false_iff]
      intro q hs hq hfile
      have hlen : q.length = 1 := by
        have h1 := hs.1
        have h2 : 0 < q.length := List.length_pos_iff.mpr hq
        have : appliedKey.length = 2 := by decide
        omega
      have : q = pcDir := by
        rw [← hs.2, hlen]
        decide
      rw [this, d1] at hfile
      exact hfile
    have hdir : f3.isDir appliedKey.dropLast = true := by
      have : appliedKey.dropLast = pcDir := by decide
      rw [this]
      unfold FS.isDir
      rw [d1]
      simp
    have hl : f3.lookup appliedKey ≠ some .dir := by
      rw [d2 appliedKey Refine2.pcDir_ne_applied]; exact h2
    unfold FS.appendFile
    rw [hfp, hdir]
    simp only [Bool.false_eq_true, if_false, Bool.not_true]
    cases hl' : f3.lookup appliedKey with
    | none => exact ⟨_, rfl⟩
    | some n =>
      cases n with
      | dir => exact absurd hl' hl
      | file c m i => exact ⟨_, rfl⟩
  obtain ⟨f4, h4⟩ := ha
  have e1 := op_run_ok hf (o := .createDirAll pcDir) h3
  have e2 := op_run_ok (w := { w with trace := w.trace ++ [.createDirAll pcDir], fs := f3 }) hf
    (o := .appendOpen appliedKey) h4
  unfold saveApplied
  rw [e1]
  simp only
  rw [e2]
  simp only
  by_cases hn : names.isEmpty = true
  · rw [if_pos hn]
    exact ⟨_, rfl⟩
  · rw [if_neg hn]
    rw [op_run_ok (w := { w with trace := w.trace ++ [.createDirAll pcDir] ++ [.appendOpen appliedKey], fs := f4 }) hf
      (o := .write appliedKey (names.map (· ++ [10])).flatten) rfl]
    exact ⟨_, rfl⟩

/-! ## the stages of the run, up to the reject files -/

/-- the driver's run up to the reject files, next to the specification's -/
structure Stages (cfg : Cfg) (w : World) (range : List Series.Entry) (st : St) (final : Nat)
    (rejs : List (Bytes × Bytes)) (w1 : World) (dirs : List Key) (w2 w3 : World) (p : Progress) (fs1 : FS) : Prop where
  loop : applyLoop w.fs cfg range 0 {} = .ok (st, final, rejs)
  save : saveAll w st.mem [] = .ok (w1, dirs)
  clean : cleanAll w1 dirs = .ok w2
  rej : saveRejFiles w2 rejs = .ok w3
  nofault : w3.faultAt = none
  spec : applyRangeTree cfg w.fs range (start w.fs) = .ok p
  k_eq : p.k = final
  rejs_eq : p.rejs = rejs.reverse
  specRej : putRejects p.fs p.rejs.reverse = .ok fs1
  specRun_eq : specRun cfg w.fs range = finishPc cfg range p fs1
  io1 : (finishPc cfg range p fs1).ioError = false
  out : OutsidePc fs1 w3.fs
  pcD : ∀ q, isPcKey q → w3.fs.lookup q = w.fs.lookup q
  pcS : ∀ q, isPcKey q → fs1.lookup q = w.fs.lookup q

/-- **(1)–(4): `applyPatches` reaches the backup phase.**  No fault injected, tight starting tree, the hypotheses of
`C05_push_refines_pushSpec`, a readable `series` file; the specification neither refuses nor meets an output failure -/
theorem reach_rejects (cfg : Cfg) (w : World) (range : List Series.Entry) (hf : w.faultAt = none)
    (hdry : cfg.dryRun = false) (hT : Tight w.fs) (hclean : Clean cfg w.fs range) (hpf : PrefixFree w.fs cfg range)
    (hterm : ∀ t' ∈ reached w.fs cfg range [], TreeTerminated t')
    (hser : ∃ x, w.fs.readFile seriesKey = .ok x) (hnr : ¬ Refused cfg w.fs range)
    (hio : (specRun cfg w.fs range).ioError = false) :
    ∃ st final rejs w1 dirs w2 w3 p fs1, Stages cfg w range st final rejs w1 dirs w2 w3 p fs1 := by
  obtain ⟨st, final, rejs, hloop⟩ := applyLoop_succeeds w.fs cfg range hdry hpf hterm hnr
  obtain ⟨w1, dirs, w2, hsave, hcl, f2⟩ := save_clean_succeed w cfg range st final rejs hf hT hclean hpf hser hloop
  obtain ⟨p, hp, hpk, hprej, h12, ht2, _⟩ :=
    Refine2.saved_outsidePc w w1 w2 cfg range st final rejs dirs hdry hclean hpf hterm hT hloop hsave hcl
  obtain ⟨hmemOut, hrejOut⟩ := applyLoop_out hclean.namesOut hloop
  obtain ⟨fs1, hr1, ho, hio1, _⟩ := failed_push_setup hdry hp hio
  have hrr : p.rejs.reverse = rejs := by rw [hprej, List.reverse_reverse]
  have hr1' := hr1
  rw [hrr] at hr1'
  obtain ⟨w3, hrej, f3, h13, _⟩ := saveRejFiles_succeeds rejs hrejOut p.fs fs1 w2 [] f2 h12 (tinv_of_tight ht2) hr1'
  refine ⟨st, final, rejs, w1, dirs, w2, w3, p, fs1, hloop, hsave, hcl, hrej, f3, hp, hpk, hprej, hr1, ho, hio1, h13,
    ?_, ?_⟩
  · obtain ⟨s1, s2⟩ := saveAll_outOnly st.mem w w1 [] dirs hmemOut (fun _ hd' => by cases hd') hsave
    exact (s1.trans (cleanAll_outOnly dirs w1 w2 s2 hcl)).trans (saveRejFiles_outOnly rejs w2 w3 hrejOut hrej)
  · intro q hq
    have hrejOut' : RejsOut p.rejs := clean_rejsOut hclean (fun _ hm => by cases hm) hp
    have t1 := (clean_touch hclean hp).pc_same (fun _ => not_pc_of_not_own) hq
    have t2 := (putRejects_touchT (fun k => ¬ isPcKey k) _
      (fun r hr k hk => hrejOut'.reverse r hr k hk) _ _ hr1).pc_same (fun _ h => h) hq
    rw [t2, t1]
    rfl

/-- are backups due after `final` applied patches (the condition in `applyPatches`) -/
def dueB (cfg : Cfg) (range : List Series.Entry) (final : Nat) : Bool :=
  cfg.backup == .always || (cfg.backup == .onfail && final != range.length)

theorem applyPatches_noBackups {cfg : Cfg} {w : World} {range : List Series.Entry} {st : St} {final : Nat}
    {rejs : List (Bytes × Bytes)} {w1 : World} {dirs : List Key} {w2 w3 : World} {p : Progress} {fs1 : FS}
    (S : Stages cfg w range st final rejs w1 dirs w2 w3 p fs1) (hdry : cfg.dryRun = false)
    (hdue : dueB cfg range final = false) : applyPatches w cfg range = .ok (w3, final) := by
  unfold dueB at hdue
  unfold applyPatches
  rw [S.loop]
  simp only [hdry, Bool.false_eq_true, if_false]
  rw [S.save]
  simp only
  rw [S.clean]
  simp only
  rw [S.rej]
  simp only [hdue, Bool.false_eq_true, if_false]

theorem applyPatches_backups {cfg : Cfg} {w : World} {range : List Series.Entry} {st : St} {final : Nat}
    {rejs : List (Bytes × Bytes)} {w1 : World} {dirs : List Key} {w2 w3 : World} {p : Progress} {fs1 : FS}
    (S : Stages cfg w range st final rejs w1 dirs w2 w3 p fs1) (hdry : cfg.dryRun = false)
    (hdue : dueB cfg range final = true) {w4 : World} {mem' : Mem}
    (hb : rollbackAndSaveBackups w3 st.mem st.applied (backupDownTo cfg final) = .ok (w4, mem')) :
    applyPatches w cfg range = .ok (w4, final) := by
  unfold dueB at hdue
  unfold backupDownTo at hb
  unfold applyPatches
  rw [S.loop]
  simp only [hdry, Bool.false_eq_true, if_false]
  rw [S.save]
  simp only
  rw [S.clean]
  simp only
  rw [S.rej]
  simp only [hdue, if_true]
  cases hbc : cfg.backupCount with
  | none =>
    rw [hbc] at hb
    simp only at hb ⊢
    rw [hb]
  | some n =>
    rw [hbc] at hb
    simp only at hb ⊢
    rw [hb]

theorem pushRange_of_applied {cfg : Cfg} {w w4 w5 : World} {range : List Series.Entry} {final : Nat}
    (hdry : cfg.dryRun = false) (ha : applyPatches w cfg range = .ok (w4, final))
    (hs : saveApplied w4 ((range.take final).map (·.name)) = .ok w5) :
    (pushRange cfg w range).1 = .allApplied ∨ (pushRange cfg w range).1 = .notAll := by
  unfold pushRange
  rw [ha]
  simp only [hdry, Bool.false_eq_true, if_false]
  rw [hs]
  simp only
  cases final == range.length
  · exact .inr rfl
  · exact .inl rfl

/-! ## (F) the backups -/

open RQ.BackupRefine
open RQ.ParSave (noIno noIno_cases)

/-- a write "unlink, `mkdir -p`, create" at `k` can succeed: `k` is not the working directory, no regular file is on the
way, `k` is not a directory -/
structure OKW (fs : FS) (k : Key) : Prop where
  ne : k ≠ []
  path : fs.fileOnPath k = false
  notDir : fs.lookup k ≠ some .dir

/-- the specification wrote a file at `k`: the write could succeed -/
theorem okw_of_putFile {fs fs' : FS} {k : Key} {c : Bytes} {perms : Option Nat}
    (h : putFile fs k c perms = .ok fs') : OKW fs k := by
  have hr := removeFile_of_putFile h
  have hk0 : k ≠ [] := by
    rw [putFile_eq'] at h
    unfold putRest at h
    cases h1 : (unlinked fs k).createDirAll k.dropLast with
    | error e => rw [h1] at h; cases h
    | ok a1 =>
      rw [h1] at h
      simp only at h
      cases h2 : a1.createFile k with
      | error e => rw [h2] at h; cases h
      | ok a2 => exact (createFile_spec h2).1
  refine ⟨hk0, ?_, ?_⟩
  · cases hfp : fs.fileOnPath k with
    | false => rfl
    | true =>
      exfalso
      apply hr
      unfold FS.removeFile
      simp [hfp]
  · intro hd
    apply hr
    unfold FS.removeFile
    cases hfp : fs.fileOnPath k with
    | true => simp
    | false => simp [hd]

/-- one backup call of the driver succeeds when the write can succeed -/
theorem saveBackup_succeeds {w : World} {pn name : Bytes} (f : FileSt Bytes) {k : Key} (hf : w.faultAt = none)
    (hk : pcKey pn name = some k) (ho : OKW w.fs k) :
    ∃ w', saveBackup w pn name f = .ok w' ∧ w'.faultAt = none := by
  have hnf := (fileOnPath_false_iff w.fs k).mp ho.path
  obtain ⟨fs1, c1, dc, hdir1⟩ := createDirAll_parent ho.ne hnf
  have e1 := op_run_ok hf (o := .createDirAll k.dropLast) c1
  have hp1 : fs1.fileOnPath k = false := by
    rw [fileOnPath_false_iff]; exact dirChange_noFile dc hnf
  have hl1 : fs1.lookup k ≠ some .dir := by rw [dc.self]; exact ho.notDir
  obtain ⟨w2, e2, f2, l2, o2⟩ := unlink_ok
    (w := { w with trace := w.trace ++ [.createDirAll k.dropLast], fs := fs1 }) hf ho.ne hp1 hl1
  have hp2 : w2.fs.fileOnPath k = false := by
    rw [← hp1]
    exact fileOnPath_congr (fun q hs => by rw [o2 q (spre_ne hs)])
  have hd2 : w2.fs.isDir k.dropLast = true := by
    unfold FS.isDir at hdir1 ⊢
    rw [o2 _ (spre_ne (dropLast_spre ho.ne))]
    exact hdir1
  obtain ⟨w3, w', e3, e4, f4, _, _⟩ := createWrite_ok f.perms (bytesOf f.content) f2 ho.ne hp2 hd2 l2
  refine ⟨w', ?_, f4⟩
  unfold saveBackup
  rw [hk]
  simp only
  rw [e1]
  simp only
  rcases e2 with e2 | e2 <;> rw [e2] <;> simp only <;> rw [e3] <;> simp only <;> exact e4

/-- a write that can succeed still can after a write elsewhere (the same path, or a path apart) -/
theorem OKW.step {fs fs' : FS} {w : Wr} {k' : Key} (hw : WStep fs fs' w) (ho : OKW fs k') (h1 : ¬ SPre w.1 k')
    (h2 : ¬ SPre k' w.1) : OKW fs' k' := by
  refine ⟨ho.ne, ?_, ?_⟩
  · rw [fileOnPath_false_iff]
    intro q hs hq
    by_cases e : q = w.1
    · exact absurd (e ▸ hs) h1
    · by_cases hsw : SPre q w.1 ∧ q ≠ []
      · rw [hw.dirs q hsw.1 hsw.2]; exact fun h => h
      · rw [hw.frame q e hsw]
        exact (fileOnPath_false_iff fs k').mp ho.path q hs hq
  · by_cases e : k' = w.1
    · obtain ⟨i, hi⟩ := hw.self
      rw [e, hi]; simp
    · rw [hw.frame k' e (fun h => h2 h.1)]
      exact ho.notDir

/-- … and could before it, provided that write itself could succeed; and the two paths are apart or equal -/
theorem OKW.back {fs fs' : FS} {w : Wr} {k' : Key} (h0 : OKW fs w.1) (hw : WStep fs fs' w) (ho : OKW fs' k') :
    OKW fs k' ∧ ¬ SPre w.1 k' ∧ ¬ SPre k' w.1 := by
  have h1 : ¬ SPre w.1 k' := by
    intro hs
    obtain ⟨i, hi⟩ := hw.self
    exact (fileOnPath_false_iff fs' k').mp ho.path w.1 hs h0.ne (by rw [hi]; trivial)
  have h2 : ¬ SPre k' w.1 := fun hs => ho.notDir (hw.dirs k' hs ho.ne)
  refine ⟨⟨ho.ne, ?_, ?_⟩, h1, h2⟩
  · rw [fileOnPath_false_iff]
    intro q hs hq hfile
    by_cases e : q = w.1
    · exact h1 (e ▸ hs)
    · by_cases hsw : SPre q w.1 ∧ q ≠ []
      · exact (fileOnPath_false_iff fs w.1).mp h0.path q hsw.1 hq hfile
      · rw [← hw.frame q e hsw] at hfile
        exact (fileOnPath_false_iff fs' k').mp ho.path q hs hq hfile
  · by_cases e : k' = w.1
    · rw [e]; exact h0.notDir
    · rw [← hw.frame k' e (fun h => h2 h.1)]
      exact ho.notDir

/-- a sequence of writes, each of which could succeed and did -/
inductive WChain : FS → List Wr → FS → Prop
  | nil (fs : FS) : WChain fs [] fs
  | cons {fs f1 f2 : FS} {w : Wr} {W : List Wr} : OKW fs w.1 → WStep fs f1 w → WChain f1 W f2 → WChain fs (w :: W) f2

theorem WChain.append {a b c : FS} {W1 W2 : List Wr} (h1 : WChain a W1 b) (h2 : WChain b W2 c) :
    WChain a (W1 ++ W2) c := by
  induction h1 with
  | nil => exact h2
  | cons ho hw _ ih => exact .cons ho hw (ih h2)

/-- every write of a successful sequence could have been made first, and no path is a directory of another -/
theorem WChain.allOK {fs fs' : FS} {W : List Wr} (h : WChain fs W fs') : (∀ w ∈ W, OKW fs w.1) ∧ NoPre W := by
  induction h with
  | nil => exact ⟨fun _ h => (by cases h), fun _ h => (by cases h)⟩
  | @cons fs f1 f2 w W ho hw _ ih =>
    obtain ⟨ih1, ih2⟩ := ih
    constructor
    · intro w' hw'
      rcases List.mem_cons.mp hw' with rfl | hw'
      · exact ho
      · exact (OKW.back ho hw (ih1 w' hw')).1
    · intro a ha b hb
      rcases List.mem_cons.mp ha with ea | ha'
      · rcases List.mem_cons.mp hb with eb | hb'
        · rw [ea, eb]; exact spre_irrefl _
        · rw [ea]; exact (OKW.back ho hw (ih1 b hb')).2.1
      · rcases List.mem_cons.mp hb with eb | hb'
        · rw [eb]; exact (OKW.back ho hw (ih1 a ha')).2.2
        · exact ih2 a ha' b hb'

theorem backupFold_chain (patchName : Bytes) (files : List (Bytes × FileSt Bytes)) :
    ∀ (acc : Except Unit FS) (fs' : FS),
      files.foldl (fun (acc : Except Unit FS) (nf : Bytes × FileSt Bytes) =>
        match acc with
        | .error e => .error e
        | .ok f =>
          match pcKey patchName nf.1 with
          | none => .error ()
          | some k => putFile f k (bytesOf nf.2.content) nf.2.perms) acc = .ok fs' →
      ∃ f, acc = .ok f ∧ WChain f (files.filterMap (fileWr patchName)) fs' ∧
        ∀ x ∈ files, (pcKey patchName x.1).isSome = true := by
  induction files with
  | nil => intro acc fs' h; exact ⟨fs', h, .nil _, fun _ hx => by cases hx⟩
  | cons nf rest ih =>
    intro acc fs' h
    rw [List.foldl_cons] at h
    obtain ⟨f1, h1, hs1, hk1⟩ := ih _ _ h
    cases acc with
    | error e => simp at h1
    | ok f =>
      refine ⟨f, rfl, ?_⟩
      simp only at h1
      split at h1
      · cases h1
      · rename_i k hk
        have hw : fileWr patchName nf = some (k, bytesOf nf.2.content, modeOf nf.2.perms) := by
          unfold fileWr
          rw [hk]
          rfl
        rw [List.filterMap_cons, hw]
        refine ⟨.cons (okw_of_putFile h1) (putFile_wstep h1) hs1, fun x hx => ?_⟩
        rcases List.mem_cons.mp hx with rfl | hx
        · rw [hk]; rfl
        · exact hk1 x hx

/-- the specification's backup phase as a sequence of writes; every recorded file had a backup path -/
theorem putBackups_chain : ∀ (bs : List (Bytes × List (Bytes × FileSt Bytes))) (fs fs' : FS),
    putBackups fs bs = .ok fs' →
    WChain fs (writesS bs) fs' ∧ ∀ b ∈ bs, ∀ x ∈ b.2, (pcKey b.1 x.1).isSome = true := by
  intro bs
  induction bs with
  | nil =>
    intro fs fs' h
    unfold putBackups at h
    cases h
    exact ⟨.nil _, fun _ hb => by cases hb⟩
  | cons b rest ih =>
    obtain ⟨patchName, files⟩ := b
    intro fs fs' h
    unfold putBackups at h
    simp only at h
    split at h
    · cases h
    · rename_i f1 h1
      obtain ⟨f, hf, hs, hk⟩ := backupFold_chain patchName files _ _ h1
      cases hf
      obtain ⟨c2, k2⟩ := ih _ _ h
      constructor
      · unfold writesS
        rw [List.flatMap_cons]
        exact hs.append c2
      · intro b hb x hx
        rcases List.mem_cons.mp hb with rfl | hb
        · exact hk x hx
        · exact k2 b hb x hx

/-- the driver's backup calls succeed when each of them could be made first and no path is a directory of another;
a write elsewhere that could succeed before still can afterwards -/
theorem saveBackups_succeeds : ∀ (calls : List Call) (w : World), w.faultAt = none →
    (∀ c ∈ calls, ∃ k, callKey c = some k ∧ OKW w.fs k) →
    (∀ c ∈ calls, ∀ c' ∈ calls, ∀ k k', callKey c = some k → callKey c' = some k' → ¬ SPre k k') →
    ∃ w', saveBackups w calls = .ok w' ∧ w'.faultAt = none ∧
      ∀ k', OKW w.fs k' → (∀ c ∈ calls, ∀ k, callKey c = some k → ¬ SPre k k' ∧ ¬ SPre k' k) → OKW w'.fs k' := by
  intro calls
  induction calls with
  | nil => intro w hf _ _; exact ⟨w, rfl, hf, fun _ h _ => h⟩
  | cons c rest ih =>
    intro w hf hok hnp
    obtain ⟨k, hk, ho⟩ := hok c (List.mem_cons_self ..)
    obtain ⟨w1, e1, f1⟩ := saveBackup_succeeds c.2.2.2 hf hk ho
    have hw := saveBackup_wstep hk e1
    obtain ⟨w', e2, f2, t2⟩ := ih w1 f1
      (fun c' hc' => by
        obtain ⟨k', hk', ho'⟩ := hok c' (List.mem_cons_of_mem _ hc')
        exact ⟨k', hk', ho'.step hw
          (hnp c (List.mem_cons_self ..) c' (List.mem_cons_of_mem _ hc') k k' hk hk')
          (hnp c' (List.mem_cons_of_mem _ hc') c (List.mem_cons_self ..) k' k hk' hk)⟩)
      (fun a ha b hb => hnp a (List.mem_cons_of_mem _ ha) b (List.mem_cons_of_mem _ hb))
    refine ⟨w', ?_, f2, fun k' ho' hap => ?_⟩
    · rw [saveBackups_cons, e1]
      exact e2
    · obtain ⟨a1, a2⟩ := hap c (List.mem_cons_self ..) k hk
      exact t2 k' (ho'.step hw a1 a2) (fun c' hc' => hap c' (List.mem_cons_of_mem _ hc'))

/-- a write that could succeed after a successful sequence of writes could have been made before it, and its path is
apart from (or equal to) all of theirs -/
theorem WChain.back {fs fs' : FS} {W : List Wr} (h : WChain fs W fs') {k' : Key} (ho : OKW fs' k') :
    OKW fs k' ∧ ∀ w ∈ W, ¬ SPre w.1 k' ∧ ¬ SPre k' w.1 := by
  induction h with
  | nil => exact ⟨ho, fun _ h => (by cases h)⟩
  | @cons fs f1 f2 w W h0 hw _ ih =>
    obtain ⟨i1, i2⟩ := ih ho
    obtain ⟨b1, b2, b3⟩ := OKW.back h0 hw i1
    refine ⟨b1, fun w' hw' => ?_⟩
    rcases List.mem_cons.mp hw' with e | hw''
    · rw [e]; exact ⟨b2, b3⟩
    · exact i2 w' hw''

/-- every backup call of the driver has a path, and the specification writes there too -/
theorem call_specWrite {fs : FS} {cfg : Cfg} {range : List Series.Entry} {downTo k : Nat} {calls : List Call}
    {backups : List (Bytes × List (Bytes × FileSt Bytes))}
    (hD : SlotsD fs cfg range downTo k calls) (hB : BInv fs cfg range k backups)
    (hkeys : ∀ b ∈ backups.drop downTo, ∀ x ∈ b.2, (pcKey b.1 x.1).isSome = true)
    {c : Call} (hc : c ∈ calls) : ∃ wr ∈ writesS (backups.drop downTo), callKey c = some wr.1 := by
  obtain ⟨j, pn, n, g⟩ := c
  obtain ⟨hwin, hjk, e, patch, t, rr, he, hpn, hp, ht, hn⟩ := hD.sound _ hc
  simp only at hwin hjk he hpn ht hn
  obtain ⟨e', patch', t', rr', touched, he', hp', ht', hbk, htok⟩ := hB.2 j hjk
  rw [he] at he'
  cases he'
  rw [hp] at hp'
  cases hp'
  rw [ht] at ht'
  cases ht'
  obtain ⟨x, hxm, hcomp⟩ := htok.complete n hn
  have hmem : (e.name, touched) ∈ backups.drop downTo := getElem?_mem_drop hwin hbk
  have hsome := hkeys _ hmem x hxm
  simp only at hsome
  obtain ⟨q, hq⟩ := Option.isSome_iff_exists.mp hsome
  refine ⟨(q, bytesOf x.2.content, modeOf x.2.perms), ?_, ?_⟩
  · unfold writesS
    rw [List.mem_flatMap]
    refine ⟨(e.name, touched), hmem, ?_⟩
    rw [List.mem_filterMap]
    refine ⟨x, hxm, ?_⟩
    unfold fileWr
    simp only
    rw [hq]
    rfl
  · rw [callKey_eq]
    simp only
    rw [hpn, ← pcKey_congr hcomp, hq]

theorem isPcKey_of_spre {q k : Key} (hk : isPcKey k) (hs : SPre q k) (hq : q ≠ []) : isPcKey q := by
  unfold isPcKey at hk ⊢
  rw [← hs.2]
  cases k with
  | nil => cases hk
  | cons a t =>
    cases hl : q.length with
    | zero => exact absurd (List.length_eq_zero_iff.mp hl) hq
    | succ n => simpa using hk

/-- `OKW` at a path below `.pc` only looks below `.pc` -/
theorem OKW.congr_pc {a b : FS} {k : Key} (hk : isPcKey k)
    (h : ∀ q, isPcKey q → (a.lookup q).map noIno = (b.lookup q).map noIno) (ho : OKW a k) : OKW b k := by
  have hfile : ∀ q, isPcKey q → IsFile (b.lookup q) → IsFile (a.lookup q) := by
    intro q hq hf
    obtain ⟨c, m, i, hl⟩ := isFile_iff.mp hf
    rcases noIno_cases (h q hq) with ⟨e1, e2⟩ | ⟨e1, e2⟩ | ⟨c', m', i', i'', e1, e2⟩
    · rw [hl] at e2; cases e2
    · rw [hl] at e2; cases e2
    · rw [e1]; trivial
  refine ⟨ho.ne, ?_, ?_⟩
  · rw [fileOnPath_false_iff]
    intro q hs hq hf
    exact (fileOnPath_false_iff a k).mp ho.path q hs hq (hfile q (isPcKey_of_spre hk hs hq) hf)
  · intro hd
    apply ho.notDir
    rcases noIno_cases (h k hk) with ⟨e1, e2⟩ | ⟨e1, e2⟩ | ⟨c', m', i', i'', e1, e2⟩
    · rw [hd] at e2; cases e2
    · exact e1
    · rw [hd] at e2; cases e2

theorem okw_applied_of_pcFree {fs : FS} (h : PcFree fs) : OKW fs appliedKey := by
  refine ⟨by decide, ?_, h.2⟩
  rw [fileOnPath_false_iff]
  intro q hs hq hfile
  have hlen : q.length = 1 := by
    have h1 := hs.1
    have h2 : 0 < q.length := List.length_pos_iff.mpr hq
    have : appliedKey.length = 2 := by decide
    omega
  have : q = pcDir := by
    rw [← hs.2, hlen]
    decide
  rw [this] at hfile
  exact h.1 hfile

theorem pcFree_of_okw_applied {fs : FS} (h : OKW fs appliedKey) : PcFree fs :=
  ⟨(fileOnPath_false_iff fs appliedKey).mp h.path pcDir (by decide) (by decide), h.notDir⟩

theorem dueB_spec {cfg : Cfg} {range : List Series.Entry} {final : Nat} {p : Progress} (hk : p.k = final) :
    (cfg.backup == .always || (cfg.backup == .onfail && p.k != range.length)) = dueB cfg range final := by
  rw [hk]; rfl

/-- **(F) the backup phase succeeds** when it is due: every call of the driver writes where the specification writes
too (`call_specWrite`); the specification's writes all succeeded, so each could have been made first and no path is a
directory of another (`WChain.allOK`); below `.pc` the driver's tree is the specification's -/
theorem backups_succeed {cfg : Cfg} {w : World} {range : List Series.Entry} {st : St} {final : Nat}
    {rejs : List (Bytes × Bytes)} {w1 : World} {dirs : List Key} {w2 w3 : World} {p : Progress} {fs1 : FS}
    (S : Stages cfg w range st final rejs w1 dirs w2 w3 p fs1) (hdry : cfg.dryRun = false)
    (hpf : PrefixFree w.fs cfg range) (hterm : ∀ t' ∈ reached w.fs cfg range [], TreeTerminated t')
    (hdue : dueB cfg range final = true) :
    ∃ w4 mem', rollbackAndSaveBackups w3 st.mem st.applied (backupDownTo cfg final) = .ok (w4, mem') ∧
      w4.faultAt = none ∧ PcFree w4.fs := by
  obtain ⟨calls, mem', hc, _⟩ := C08_backups_total w.fs cfg range st final rejs S.loop hdry (backupDownTo cfg final)
  have hbB : (cfg.backup == .always || (cfg.backup == .onfail && p.k != range.length)) = true := by
    rw [dueB_spec S.k_eq]; exact hdue
  obtain ⟨fs2, fs3, fs4, h2, h3, h4, _⟩ := finishPc_backups hbB S.io1
  rw [S.k_eq] at h2
  obtain ⟨hchain, hkeys⟩ := putBackups_chain _ _ _ h2
  obtain ⟨hall, hnopre⟩ := hchain.allOK
  have hnames : ∀ entry ∈ range, ∀ patch, patchOf w.fs cfg entry = some patch → ∀ fp ∈ patch.fps,
      NamesIn (rangeKeys w.fs cfg range) fp := fun entry he patch hp fp hfp => namesIn_rangeKeys he hp hfp
  have hB : BInv w.fs cfg range p.k p.backups :=
    applyRangeTree_binv hdry hpf range hnames (fun t' ht' => lookNormal_of_terminated (hterm t' ht')) S.spec
  rw [S.k_eq] at hB
  have hD : SlotsD w.fs cfg range (backupDownTo cfg final) final calls := slotsD_of_loop hdry S.loop hc
  have hpc : ∀ q, isPcKey q → (fs1.lookup q).map noIno = (w3.fs.lookup q).map noIno := by
    intro q hq
    rw [S.pcS q hq, S.pcD q hq]
  have hcall : ∀ c ∈ calls, ∃ wr ∈ writesS (p.backups.drop (backupDownTo cfg final)), callKey c = some wr.1 :=
    fun c hcm => call_specWrite hD hB hkeys hcm
  have hok : ∀ c ∈ calls, ∃ k, callKey c = some k ∧ OKW w3.fs k := by
    intro c hcm
    obtain ⟨wr, hwr, hk⟩ := hcall c hcm
    exact ⟨wr.1, hk, (hall wr hwr).congr_pc (pcKey_isPcKey (by rw [← callKey_eq]; exact hk)) hpc⟩
  have hnp : ∀ c ∈ calls, ∀ c' ∈ calls, ∀ k k', callKey c = some k → callKey c' = some k' → ¬ SPre k k' := by
    intro c hcm c' hcm' k k' hk hk'
    obtain ⟨wr, hwr, e⟩ := hcall c hcm
    obtain ⟨wr', hwr', e'⟩ := hcall c' hcm'
    rw [hk] at e
    rw [hk'] at e'
    cases e
    cases e'
    exact hnopre wr hwr wr' hwr'
  obtain ⟨w4, e4, f4, t4⟩ := saveBackups_succeeds calls w3 S.nofault hok hnp
  refine ⟨w4, mem', ?_, f4, ?_⟩
  · rw [C08_calls w3 st.mem st.applied _ calls mem' hc, e4]
  · obtain ⟨o1, ap⟩ := hchain.back (okw_applied_of_pcFree (pcFree_of_spec h3 h4))
    apply pcFree_of_okw_applied
    refine t4 appliedKey (o1.congr_pc isPcKey_appliedKey hpc) ?_
    intro c hcm k hk
    obtain ⟨wr, hwr, e⟩ := hcall c hcm
    rw [hk] at e
    cases e
    exact ap wr hwr

/-- **the driver does not fail spuriously (range level)** -/
theorem pushRange_succeeds (cfg : Cfg) (w : World) (range : List Series.Entry) (hf : w.faultAt = none)
    (hdry : cfg.dryRun = false) (hT : Tight w.fs) (hclean : Clean cfg w.fs range) (hpf : PrefixFree w.fs cfg range)
    (hterm : ∀ t' ∈ reached w.fs cfg range [], TreeTerminated t')
    (hser : ∃ x, w.fs.readFile seriesKey = .ok x) (hnr : ¬ Refused cfg w.fs range)
    (hio : (specRun cfg w.fs range).ioError = false) :
    (pushRange cfg w range).1 = .allApplied ∨ (pushRange cfg w range).1 = .notAll := by
  obtain ⟨st, final, rejs, w1, dirs, w2, w3, p, fs1, S⟩ :=
    reach_rejects cfg w range hf hdry hT hclean hpf hterm hser hnr hio
  cases hdue : dueB cfg range final with
  | false =>
    have ha := applyPatches_noBackups S hdry hdue
    have hnbB : (cfg.backup == .always || (cfg.backup == .onfail && p.k != range.length)) = false := by
      rw [dueB_spec S.k_eq]; exact hdue
    obtain ⟨fs3, fs4, h3, h4, _⟩ := Refine2.finishPc_noBackups hnbB S.io1
    have hfree : PcFree w3.fs := by
      refine (pcFree_of_spec h3 h4).congr (fun q hq => ?_)
      rw [S.pcS q hq, S.pcD q hq]
    obtain ⟨w5, hs⟩ := saveApplied_succeeds ((range.take final).map (·.name)) S.nofault hfree
    exact pushRange_of_applied hdry ha hs
  | true =>
    obtain ⟨w4, mem', hb, f4, hfree⟩ := backups_succeed S hdry hpf hterm hdue
    have ha := applyPatches_backups S hdry hdue hb
    obtain ⟨w5, hs⟩ := saveApplied_succeeds ((range.take final).map (·.name)) f4 hfree
    exact pushRange_of_applied hdry ha hs

#print axioms applyLoop_succeeds
#print axioms saveAll_succeeds
#print axioms cleanAll_succeeds
#print axioms saveRejFiles_succeeds
#print axioms saveApplied_succeeds
#print axioms backups_succeed
#print axioms pushRange_succeeds

end RQ.Succeeds
