import RQ.Lemmas.PathLemmas
import RQ.Lemmas.PathAlias
/-!
# The strip loop needs no more iterations than the name has bytes

`strip_path` (`src/libpatch/patch/mod.rs`) runs `for _ in 0..strip { if components.next().is_none() { break; } }`.
Every successful `next()` consumes at least one byte of the name, so after `raw.length + 1` iterations the
iterator is exhausted and the result no longer depends on the count (`stripPath_bound`): a count like
`-p18446744073709551615` gives what `-p(raw.length + 1)` gives, and the loop with the `break` stops there.
A count that reaches the number of components leaves the empty name, which `safeKey` refuses
(`stripPath_huge`).
-/
namespace RQ

/-! ### each `next()` in the body state consumes at least one byte -/

theorem eatComp_length_le : ∀ (f : Nat) (x : Bytes), x.length < f → (eatComp f x).length ≤ x.length - 1
  | 0, x, h => by omega
  | f+1, x, h => by
    unfold eatComp
    by_cases hx : x = []
    · simp [hx]
    · simp only [hx, if_false]
      have hr := takePiece_rest_length x
      have hpos : 0 < x.length := List.length_pos_iff.mpr hx
      rcases htp : takePiece x with ⟨p, r, s⟩
      rw [htp] at hr
      simp only at hr ⊢
      split
      · exact hr
      · have ih := eatComp_length_le f r (by omega)
        omega

/-- `next()` × `n` on a name of at most `n` bytes exhausts the iterator -/
theorem dropBody_eq_nil : ∀ (n : Nat) (x : Bytes), x.length ≤ n → dropBody n x = []
  | 0, x, h => by
    have : x = [] := List.eq_nil_of_length_eq_zero (by omega)
    subst this; rfl
  | n+1, x, h => by
    unfold dropBody
    by_cases hx : x = []
    · simp [hx]
    · simp only [hx, if_false]
      have hpos : 0 < x.length := List.length_pos_iff.mpr hx
      have := eatComp_length_le (x.length + 1) x (by omega)
      exact dropBody_eq_nil n _ (by omega)

/-- a count beyond the length of the name exhausts the iterator -/
theorem dropComps_of_length_lt (n : Nat) (raw : Bytes) (h : raw.length < n) : dropComps n raw = ([], true) := by
  cases n with
  | zero => omega
  | succ m =>
    cases raw with
    | nil => rfl
    | cons b rest =>
      simp only [List.length_cons] at h
      unfold dropComps
      have h1 : dropBody m rest = [] := dropBody_eq_nil m rest (by omega)
      have h2 : dropBody (m+1) (b :: rest) = [] := dropBody_eq_nil (m+1) (b :: rest) (by simp only [List.length_cons]; omega)
      simp only [h1, h2, ite_self]

/-- **the strip loop is bounded by the name**: a count beyond the length of the name gives what the count
`raw.length + 1` gives — the loop never needs more than `raw.length + 1` iterations -/
theorem stripPath_bound (n : Nat) (raw : Bytes) (h : raw.length < n) :
    stripPath n raw = stripPath (raw.length + 1) raw := by
  unfold stripPath
  rw [dropComps_of_length_lt n raw h, dropComps_of_length_lt (raw.length + 1) raw (by omega)]

/-- and that result is the empty name -/
theorem stripPath_of_length_lt (n : Nat) (raw : Bytes) (h : raw.length < n) : stripPath n raw = [] := by
  unfold stripPath
  rw [dropComps_of_length_lt n raw h]
  rfl

/-! ### a count that reaches the number of components leaves the empty name -/

/-- only the empty name has no components (same statement as `components_eq_nil` of `RefineBase`, which
cannot be imported here: it depends on `RQ.Props.C11`) -/
theorem raw_nil_of_components_nil {raw : Bytes} (h : components raw = []) : raw = [] := by
  cases raw with
  | nil => rfl
  | cons b bs =>
    exfalso
    by_cases hb : b = SEP
    · subst hb; rw [components_sep] at h; cases h
    · cases hi : includeCurDir (b :: bs) with
      | true => rw [components_cur b bs hi] at h; cases h
      | false =>
        have hp : Plain (b :: bs) := ⟨by simpa using hb, hi⟩
        rw [components_plain _ hp, FM_take, takePiece_cons_ne b bs hb] at h
        simp only at h
        cases hc : compOfPiece (b :: (takePiece bs).1) with
        | some c => rw [hc] at h; simp at h
        | none =>
          rcases compOfPiece_none hc with h1 | h1
          · cases h1
          · simp only [List.cons.injEq] at h1
            obtain ⟨rfl, h2⟩ := h1
            rcases takePiece_spec bs with ⟨_, h3⟩ | ⟨_, h3, _⟩
            · rw [h2] at h3
              rw [h3] at hi
              simp [includeCurDir] at hi
            · rw [h2] at h3
              rw [h3] at hi
              simp [includeCurDir] at hi

theorem safeKey_nil : safeKey [] = none := rfl

/-- **a huge strip count empties every name, and the empty name is refused** -/
theorem stripPath_huge (n : Nat) (raw : Bytes) (h : (components raw).length ≤ n) :
    components (stripPath n raw) = [] ∧ safeKey (stripPath n raw) = none := by
  have hc : components (stripPath n raw) = [] := by
    rw [components_stripPath, List.drop_of_length_le h]
    rfl
  refine ⟨hc, ?_⟩
  rw [raw_nil_of_components_nil hc]
  rfl

/-- the number of components is itself bounded by the length of the name (so `stripPath_huge` applies to
every count from `raw.length` on) -/
theorem stripPath_eq_nil_of_components_le (n : Nat) (raw : Bytes) (h : (components raw).length ≤ n) :
    stripPath n raw = [] :=
  raw_nil_of_components_nil (stripPath_huge n raw h).1

end RQ
