import RQ.Lemmas.RefineUndo
/-! Helper lemmas for C05, part 4: one file patch — `applyOne` on the memory against `applyFP` on the
abstract tree, and the `Status` it pushes can be undone. -/
namespace RQ.Abs
open RQ RQ.Push RQ.Spec RQ.Parse RQ.Write

/-- the reject file rendered for one `Status` when it is rolled back -/
def rejOf (s : Status) : List (Bytes × Bytes) :=
  if s.report.failed then [(makeRejName s.target, writeRej s.fp s.report)] else []

def rejsOf (L : List Status) : List (Bytes × Bytes) := L.flatMap rejOf

theorem apply_concr {fp : PFilePatch} {d : Dir} {F : Nat} {f f' : FileSt Bytes} {rep : Report}
    (h : fp.apply d F f = some (f', rep)) :
    fp.apply d F (concr (absOf f)) = some (concr (absOf f'), rep) := by
  show fp.apply d F (setEx false f) = _
  rw [apply_setEx, h]; rfl

theorem apply_concr_none {fp : PFilePatch} {d : Dir} {F : Nat} {f : FileSt Bytes}
    (h : fp.apply d F f = none) : fp.apply d F (concr (absOf f)) = none := by
  show fp.apply d F (setEx false f) = _
  rw [apply_setEx, h]; rfl

/-! ### `applyFP`, branch by branch -/
section
variable {t : ATree} {fs : FS} {cfg : Cfg} {entry : Series.Entry} {fp : PFilePatch}

theorem applyFP_unsafe (hns : namesSafe fp = false) : applyFP t fs cfg entry fp = .error .err := by
  unfold applyFP; simp [hns]

theorem applyFP_nochoice (hns : namesSafe fp = true) (hch : chooseA t fs fp.old fp.new = none) :
    applyFP t fs cfg entry fp = .error .panic := by
  unfold applyFP; simp [hns, hch]

theorem applyFP_look_err {target : Bytes} {u : Unit} (hns : namesSafe fp = true)
    (hch : chooseA t fs fp.old fp.new = some target) (hl : look t fs target = .error u) :
    applyFP t fs cfg entry fp = .error .err := by
  unfold applyFP; simp [hns, hch, hl]

theorem applyFP_plain_none {target : Bytes} {a : AFile} (hns : namesSafe fp = true)
    (hch : chooseA t fs fp.old fp.new = some target) (hl : look t fs target = .ok a)
    (hren : fp.rename = false)
    (happ : fp.apply (if entry.reverse then .rev else .fwd) cfg.fuzz (concr a) = none) :
    applyFP t fs cfg entry fp = .error .panic := by
  unfold applyFP; simp [hns, hch, hl, hren, happ]

theorem applyFP_plain {target : Bytes} {a : AFile} {f' : FileSt Bytes} {rep : Report} (hns : namesSafe fp = true)
    (hch : chooseA t fs fp.old fp.new = some target) (hl : look t fs target = .ok a)
    (hren : fp.rename = false)
    (happ : fp.apply (if entry.reverse then .rev else .fwd) cfg.fuzz (concr a) = some (f', rep)) :
    applyFP t fs cfg entry fp = .ok { tree := put t target (absOf f'), ok := rep.ok, rej := if rep.ok then none else some (makeRejName target, writeRej fp rep) } := by
  unfold applyFP; simp [hns, hch, hl, hren, happ]

theorem applyFP_ren_nonew {target : Bytes} {a : AFile} (hns : namesSafe fp = true)
    (hch : chooseA t fs fp.old fp.new = some target) (hl : look t fs target = .ok a)
    (hren : fp.rename = true) (hnew : fp.new = none) :
    applyFP t fs cfg entry fp = .error .panic := by
  rw [hnew] at hch
  unfold applyFP; simp [hns, hch, hl, hren, hnew]

theorem applyFP_ren_look_err {target newName : Bytes} {a : AFile} {u : Unit} (hns : namesSafe fp = true)
    (hch : chooseA t fs fp.old fp.new = some target) (hl : look t fs target = .ok a)
    (hren : fp.rename = true) (hnew : fp.new = some newName)
    (hl2 : look (put t target { content := [], deleted := true, perms := none }) fs newName = .error u) :
    applyFP t fs cfg entry fp = .error .err := by
  rw [hnew] at hch
  unfold applyFP; simp [hns, hch, hl, hren, hnew, hl2]

theorem applyFP_ren_refused {target newName : Bytes} {a nf : AFile} (hns : namesSafe fp = true)
    (hch : chooseA t fs fp.old fp.new = some target) (hl : look t fs target = .ok a)
    (hren : fp.rename = true) (hnew : fp.new = some newName)
    (hl2 : look (put t target { content := [], deleted := true, perms := none }) fs newName = .ok nf)
    (href : (!nf.content.isEmpty && !nf.deleted) = true) :
    applyFP t fs cfg entry fp = .ok { tree := t, ok := false, rej := none } := by
  rw [hnew] at hch
  unfold applyFP
  simp only [hns, hnew, hch, hl, hren, hl2]
  simp [href]

theorem applyFP_ren_none {target newName : Bytes} {a nf : AFile} (hns : namesSafe fp = true)
    (hch : chooseA t fs fp.old fp.new = some target) (hl : look t fs target = .ok a)
    (hren : fp.rename = true) (hnew : fp.new = some newName)
    (hl2 : look (put t target { content := [], deleted := true, perms := none }) fs newName = .ok nf)
    (href : (!nf.content.isEmpty && !nf.deleted) = false)
    (happ : fp.apply (if entry.reverse then .rev else .fwd) cfg.fuzz
      (concr { content := a.content, deleted := false, perms := a.perms }) = none) :
    applyFP t fs cfg entry fp = .error .panic := by
  rw [hnew] at hch
  unfold applyFP
  simp only [hns, hnew, hch, hl, hren, hl2]
  simp [href, happ]

theorem applyFP_ren_ok {target newName : Bytes} {a nf : AFile} {f' : FileSt Bytes} {rep : Report}
    (hns : namesSafe fp = true)
    (hch : chooseA t fs fp.old fp.new = some target) (hl : look t fs target = .ok a)
    (hren : fp.rename = true) (hnew : fp.new = some newName)
    (hl2 : look (put t target { content := [], deleted := true, perms := none }) fs newName = .ok nf)
    (href : (!nf.content.isEmpty && !nf.deleted) = false)
    (happ : fp.apply (if entry.reverse then .rev else .fwd) cfg.fuzz
      (concr { content := a.content, deleted := false, perms := a.perms }) = some (f', rep)) :
    applyFP t fs cfg entry fp = .ok
      { tree := put (put t target { content := [], deleted := true, perms := none }) newName (absOf f'), ok := rep.ok, rej := if rep.ok then none else some (makeRejName target, writeRej fp rep) } := by
  rw [hnew] at hch
  unfold applyFP
  simp only [hns, hnew, hch, hl, hren, hl2]
  simp [href, happ]

end

/-! ### undoing what one file patch did -/

theorem undo_plain {fs : FS} {m mem : Mem} {file f' : FileSt Bytes} {d : Dir} {F : Nat} (s : Status)
    (h1 : Ext fs m mem) (hg : mem.get s.final = some file) (hw : s.fp.WFlen)
    (happ : s.fp.apply d F file = some (f', s.report)) (hb : s.beforeRename = none)
    (hren : s.fp.rename = false) (hft : s.final = s.target) :
    StepU fs m s (mem.put s.final f') := by
  refine ⟨fun h => (by rw [hren] at h; cases h), fun _ => hft, ?_⟩
  intro M hM
  have hgM : M.get s.final = some f' := hM.1 _ _ (get_put_self _ _ _)
  have hrb := C04_file s.fp d F file f' s.report hw happ
  rw [← apply_dir happ] at hrb
  refine ⟨_, _, rollbackOne_plain hb hgM hrb, ext_put_back h1 hg hM, ?_, ⟨file, get_put_self _ _ _⟩, ?_⟩
  · rw [← hft]; exact get_put_self _ _ _
  · intro n _ hn
    rw [get_put]
    have : (components n == components s.final) = false := by simpa using hn
    rw [this]; rfl

theorem undo_rename {fs : FS} {m mem mem2 : Mem} {file newFile f' : FileSt Bytes} {d : Dir} {F : Nat} (s : Status)
    (h1 : Ext fs m mem) (hg : mem.get s.target = some file)
    (h2 : Ext fs (mem.put s.target { file with content := [], deleted := true, perms := none }) mem2)
    (hg2 : mem2.get s.final = some newFile) (hnf : newFile.content = []) (hw : s.fp.WFlen)
    (happ : s.fp.apply d F { newFile with content := file.content, deleted := false, perms := file.perms }
      = some (f', s.report))
    (hb : s.beforeRename = some (file.deleted, newFile.deleted, newFile.perms))
    (hren : s.fp.rename = true) (hnew : s.fp.new = some s.final) :
    StepU fs m s (mem2.put s.final f') := by
  refine ⟨fun _ => hnew, fun h => (by rw [hren] at h; cases h), ?_⟩
  intro M hM
  have hgM : M.get s.final = some f' := hM.1 _ _ (get_put_self _ _ _)
  have hrb := C04_file s.fp d F _ f' s.report hw happ
  rw [← apply_dir happ] at hrb
  have stepA := ext_put_back h2 hg2 hM
  have hgt := stepA.1 _ _ (get_put_self mem s.target { file with content := [], deleted := true, perms := none })
  refine ⟨_, _, rollbackOne_rename hb hgM hrb rfl hnf hgt, ext_put_back h1 hg stepA, get_put_self _ _ _, ?_, ?_⟩
  · rw [get_put]
    split
    · exact ⟨_, rfl⟩
    · exact ⟨newFile, get_put_self _ _ _⟩
  · intro n hn1 hn2
    rw [get_put, get_put]
    have e1 : (components n == components s.target) = false := by simpa using hn1
    have e2 : (components n == components s.final) = false := by simpa using hn2
    rw [e1, e2]; rfl

end RQ.Abs
