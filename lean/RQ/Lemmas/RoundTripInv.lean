import RQ.Lemmas.RoundTripDispatch
import RQ.Lemmas.RoundTripHunk
import RQ.Lemmas.RoundTripPath
/-! C12: what the parser guarantees about an accepted patch (numbers, lines, modes, hashes, names). -/
namespace RQ.Write
open RQ RQ.Parse

theorem bind_ok {α β : Type} {x : Except EB α} {f : α → Except EB β} {b : β} (h : (x >>= f) = .ok b) :
    ∃ a, x = .ok a ∧ f a = .ok b := by
  cases x with
  | error e => simp [bind, Except.bind] at h
  | ok a => exact ⟨a, rfl, by simpa [bind, Except.bind] using h⟩

theorem splitAtCond_inv (pred : UInt8 → Bool) : ∀ (inp a r : Bytes), splitAtCond pred inp = (a, r) →
    (∀ x ∈ a, pred x = false) ∧ inp = a ++ r ∧ Stops pred r := by
  intro inp
  induction inp with
  | nil => intro a r h; simp [splitAtCond] at h; obtain ⟨rfl, rfl⟩ := h; exact ⟨by simp, rfl, Stops_nil _⟩
  | cons b bs ih =>
    intro a r h
    unfold splitAtCond at h
    by_cases hb : pred b = true
    · simp only [hb, if_true, Prod.mk.injEq] at h
      obtain ⟨rfl, rfl⟩ := h
      exact ⟨by simp, rfl, Stops_cons _ _ _ hb⟩
    · simp only [hb, Bool.false_eq_true, if_false] at h
      cases e : splitAtCond pred bs with
      | mk a' r' =>
        rw [e] at h
        simp only [Prod.mk.injEq] at h
        obtain ⟨rfl, rfl⟩ := h
        obtain ⟨h1, h2, h3⟩ := ih a' r' e
        refine ⟨?_, by rw [h2]; rfl, h3⟩
        intro x hx
        rcases List.mem_cons.mp hx with rfl | hx
        · simpa using hb
        · exact h1 x hx

/-! ### numbers -/

theorem octVal_lt : ∀ (ds : Bytes) (acc : Nat), (∀ d ∈ ds, isOct d = true) →
    ds.foldl (fun a d => a * 8 + (d.toNat - 48)) acc < (acc + 1) * 8 ^ ds.length := by
  intro ds
  induction ds with
  | nil => intro acc _; simp
  | cons d ds ih =>
    intro acc h
    have hd : isOct d = true := h d (by simp)
    have hd' : d.toNat - 48 ≤ 7 := by
      have := forall_uint8 (fun d => isOct d = true → d.toNat - 48 ≤ 7) (by decide +kernel) d hd
      exact this
    have := ih (acc * 8 + (d.toNat - 48)) (fun x hx => h x (by simp [hx]))
    simp only [List.foldl_cons, List.length_cons]
    calc _ < (acc * 8 + (d.toNat - 48) + 1) * 8 ^ ds.length := this
      _ ≤ ((acc + 1) * 8) * 8 ^ ds.length := Nat.mul_le_mul_right _ (by omega)
      _ = (acc + 1) * 8 ^ (ds.length + 1) := by rw [Nat.mul_assoc, Nat.pow_succ, Nat.mul_comm 8]

theorem parseMode_inv (inp r : Bytes) (m : Nat) (h : parseMode inp = .ok (r, m)) :
    ∃ sp ds, inp = sp ++ (ds ++ r) ∧ (∀ x ∈ sp, isSpace x = true) ∧ (∀ x ∈ ds, isOct x = true) ∧ ds.length = 6 ∧
      Stops (fun c => !isOct c) r ∧ m = octVal ds := by
  unfold parseMode at h
  cases e1 : splitAtCond (fun c => !isSpace c) inp with
  | mk sp y =>
    rw [e1] at h
    simp only [] at h
    cases e2 : splitAtCond (fun c => !isOct c) y with
    | mk ds r' =>
      rw [e2] at h
      simp only [] at h
      split at h
      · cases h
      · split at h
        · cases h
        · rename_i h6
          simp only [Except.ok.injEq, Prod.mk.injEq] at h
          obtain ⟨rfl, rfl⟩ := h
          obtain ⟨a1, a2, _⟩ := splitAtCond_inv _ _ _ _ e1
          obtain ⟨b1, b2, b3⟩ := splitAtCond_inv _ _ _ _ e2
          refine ⟨sp, ds, by rw [a2, b2], ?_, ?_, by simpa using h6, b3, rfl⟩
          · intro x hx; simpa using a1 x hx
          · intro x hx; simpa using b1 x hx

theorem parseMode_lt (inp r : Bytes) (m : Nat) (h : parseMode inp = .ok (r, m)) : m < 8 ^ 6 := by
  obtain ⟨sp, ds, _, _, h2, h3, _, rfl⟩ := parseMode_inv inp r m h
  have := octVal_lt ds 0 h2
  rw [h3] at this
  simpa [octVal] using this

/-- a git hash as the parser accepts it -/
def HexNE (x : Bytes) : Prop := x ≠ [] ∧ ∀ c ∈ x, isHex c = true

theorem parseGitHash_inv (inp r hsh : Bytes) (h : parseGitHash inp = .ok (r, hsh)) :
    inp = hsh ++ r ∧ HexNE hsh ∧ Stops (fun c => !isHex c) r := by
  unfold parseGitHash at h
  cases e : splitAtCond (fun c => !isHex c) inp with
  | mk a r' =>
    rw [e] at h
    simp only [] at h
    split at h
    · cases h
    · rename_i hne
      simp only [Except.ok.injEq, Prod.mk.injEq] at h
      obtain ⟨rfl, rfl⟩ := h
      obtain ⟨a1, a2, a3⟩ := splitAtCond_inv _ _ _ _ e
      refine ⟨a2, ⟨?_, ?_⟩, a3⟩
      · intro hh; subst hh; simp at hne
      · intro c hc; simpa using a1 c hc

theorem parseNumber_lt (inp r : Bytes) (v : Nat) (h : parseNumber inp = .ok (r, v)) : v < 2 ^ 64 := by
  unfold parseNumber at h
  cases e : splitAtCond (fun c => !isDigit c) inp with
  | mk a r' =>
    rw [e] at h
    simp only [] at h
    split at h
    · cases h
    · split at h
      · cases h
      · rename_i hlt
        simp only [Except.ok.injEq, Prod.mk.injEq] at h
        rw [← h.2]; omega

theorem parseLineAndCount_inv (inp r : Bytes) (l c : Nat) (h : parseLineAndCount inp = .ok (r, (l, c))) :
    l ≤ 2 ^ 63 - 1 ∧ c < 2 ^ 64 := by
  unfold parseLineAndCount at h
  obtain ⟨⟨r1, line⟩, h1, h2⟩ := bind_ok h
  simp only [] at h2
  split at h2
  · cases h2
  · rename_i hl
    split at h2
    · obtain ⟨⟨r2, cnt⟩, h3, h4⟩ := bind_ok h2
      simp only [pure, Except.pure, Except.ok.injEq, Prod.mk.injEq] at h4
      have := parseNumber_lt _ _ _ h3
      obtain ⟨_, rfl, rfl⟩ := h4
      exact ⟨by omega, this⟩
    · simp only [pure, Except.pure, Except.ok.injEq, Prod.mk.injEq] at h2
      obtain ⟨_, rfl, rfl⟩ := h2
      exact ⟨by omega, by omega⟩

theorem parseHunkHeader_inv (inp r : Bytes) (hd : HunkHeader) (h : parseHunkHeader inp = .ok (r, hd)) :
    hd.remLine ≤ 2 ^ 63 - 1 ∧ hd.remCount < 2 ^ 64 ∧ hd.addLine ≤ 2 ^ 63 - 1 ∧ hd.addCount < 2 ^ 64 ∧ NLfree hd.func := by
  unfold parseHunkHeader at h
  split at h
  · cases h
  · split at h
    · cases h
    · rename_i r1 rl rc h1
      split at h
      · cases h
      · split at h
        · cases h
        · rename_i r2 al ac h2
          have b1 := parseLineAndCount_inv _ _ _ _ h1
          have b2 := parseLineAndCount_inv _ _ _ _ h2
          split at h
          · cases h
          · split at h
            · split at h
              · cases h
              · rename_i r'' f hf
                simp only [Except.ok.injEq, Prod.mk.injEq] at h
                obtain ⟨_, rfl⟩ := h
                exact ⟨b1.1, b1.2, b2.1, b2.2, (takeLineSkip_inv _ _ _ hf).1⟩
            · split at h
              · cases h
              · simp only [Except.ok.injEq, Prod.mk.injEq] at h
                obtain ⟨_, rfl⟩ := h
                exact ⟨b1.1, b1.2, b2.1, b2.2, NLfree_nil⟩

/-! ### hunk lines and hunks -/

theorem LineOK_of_take (rest line : Bytes) (inp : Bytes) (h : takeLineIncl inp = .ok (rest, line)) :
    LineOK line ∧ LineOK line.dropLast := by
  obtain ⟨body, hb, rfl, _⟩ := takeLineIncl_inv _ _ _ h
  exact ⟨Or.inl ⟨body, rfl, hb⟩, Or.inr (by simpa using hb)⟩

theorem parseHunkLine_tail_inv (t : Tag) (rest line r : Bytes) (t' : Tag) (line' : Bytes)
    (hl : LineOK line ∧ LineOK line.dropLast)
    (h : ((match rest with
      | 92 :: _ =>
        match takeLineIncl rest with
        | Except.error e => Except.error e
        | Except.ok (rest', _) => Except.ok (rest', (t, line.dropLast))
      | _ => Except.ok (rest, (t, line))) : R (Bytes × (Tag × Bytes))) = .ok (r, (t', line'))) : LineOK line' := by
  split at h
  · split at h
    · cases h
    · simp only [Except.ok.injEq, Prod.mk.injEq] at h
      rw [← h.2.2]; exact hl.2
  · simp only [Except.ok.injEq, Prod.mk.injEq] at h
    rw [← h.2.2]; exact hl.1

theorem parseHunkLine_inv (inp r : Bytes) (t : Tag) (line : Bytes) (h : parseHunkLine inp = .ok (r, (t, line))) :
    LineOK line := by
  unfold parseHunkLine at h
  cases inp with
  | nil => simp at h
  | cons b bs =>
    simp only [] at h
    have h10 : LineOK [(10:UInt8)] ∧ LineOK ([(10:UInt8)] : Bytes).dropLast :=
      ⟨Or.inl ⟨[], rfl, NLfree_nil⟩, Or.inr (by simpa using NLfree_nil)⟩
    by_cases h1 : b = 43
    · subst h1
      simp only [beq_self_eq_true, if_true] at h
      cases e : takeLineIncl bs with
      | error x => rw [e] at h; cases h
      | ok v => obtain ⟨rest, l⟩ := v; rw [e] at h; exact parseHunkLine_tail_inv _ _ _ _ _ _ (LineOK_of_take _ _ _ e) h
    by_cases h2 : b = 45
    · subst h2
      simp only [show ((45:UInt8) == 43) = false from by decide, beq_self_eq_true, if_true, Bool.false_eq_true, if_false] at h
      cases e : takeLineIncl bs with
      | error x => rw [e] at h; cases h
      | ok v => obtain ⟨rest, l⟩ := v; rw [e] at h; exact parseHunkLine_tail_inv _ _ _ _ _ _ (LineOK_of_take _ _ _ e) h
    by_cases h3 : b = 32
    · subst h3
      simp only [show ((32:UInt8) == 43) = false from by decide, show ((32:UInt8) == 45) = false from by decide,
        beq_self_eq_true, if_true, Bool.false_eq_true, if_false] at h
      cases e : takeLineIncl bs with
      | error x => rw [e] at h; cases h
      | ok v => obtain ⟨rest, l⟩ := v; rw [e] at h; exact parseHunkLine_tail_inv _ _ _ _ _ _ (LineOK_of_take _ _ _ e) h
    by_cases h4 : b = 9
    · subst h4
      simp only [show ((9:UInt8) == 43) = false from by decide, show ((9:UInt8) == 45) = false from by decide,
        show ((9:UInt8) == 32) = false from by decide, beq_self_eq_true, if_true, Bool.false_eq_true, if_false] at h
      cases e : takeLineIncl (9 :: bs) with
      | error x => rw [e] at h; cases h
      | ok v => obtain ⟨rest, l⟩ := v; rw [e] at h; exact parseHunkLine_tail_inv _ _ _ _ _ _ (LineOK_of_take _ _ _ e) h
    by_cases h5 : b = 10
    · subst h5
      simp only [show ((10:UInt8) == 43) = false from by decide, show ((10:UInt8) == 45) = false from by decide,
        show ((10:UInt8) == 32) = false from by decide, show ((10:UInt8) == 9) = false from by decide,
        beq_self_eq_true, if_true, Bool.false_eq_true, if_false] at h
      exact parseHunkLine_tail_inv _ _ _ _ _ _ h10 h
    · have e1 : (b == 43) = false := by simpa using h1
      have e2 : (b == 45) = false := by simpa using h2
      have e3 : (b == 32) = false := by simpa using h3
      have e4 : (b == 9) = false := by simpa using h4
      have e5 : (b == 10) = false := by simpa using h5
      simp only [e1, e2, e3, e4, e5, Bool.false_eq_true, if_false] at h
      cases h

/-- the sides' lines are well formed and the context counts fit into both sides -/
structure LoopInv (h : PHunk) : Prop where
  remOK : ∀ l ∈ h.rem, LineOK l
  addOK : ∀ l ∈ h.add, LineOK l
  pre1 : h.pre ≤ h.add.length
  pre2 : h.pre ≤ h.rem.length
  suf1 : h.suf ≤ h.add.length
  suf2 : h.suf ≤ h.rem.length

theorem hunkLoop_inv : ∀ (f : Nat) (inp : Bytes) (ac rc : Nat) (h : PHunk) (nc : Bool) (r : Bytes) (h' : PHunk),
    hunkLoop f inp ac rc h nc = .ok (r, h') → LoopInv h →
    LoopInv h' ∧ h'.rem.length = h.rem.length + rc ∧ h'.add.length = h.add.length + ac ∧
      h'.remLine = h.remLine ∧ h'.addLine = h.addLine ∧ h'.func = h.func := by
  intro f
  induction f with
  | zero => intro inp ac rc h nc r h' e; simp [hunkLoop] at e
  | succ f ih =>
    intro inp ac rc h nc r h' e inv
    rw [hunkLoop_succ] at e
    split at e
    · rename_i hz
      simp only [Bool.and_eq_true, beq_iff_eq] at hz
      simp only [Except.ok.injEq, Prod.mk.injEq] at e
      obtain ⟨_, rfl⟩ := e
      exact ⟨inv, by omega, by omega, rfl, rfl, rfl⟩
    · split at e
      · cases e
      · rename_i inp' t line hp
        have hl := parseHunkLine_inv _ _ _ _ hp
        split at e
        · split at e
          · cases e
          · rename_i hac
            have hac' : ac ≠ 0 := by simpa using hac
            obtain ⟨i1, i2, i3, i4, i5, i6⟩ := ih _ _ _ _ _ _ _ e
              ⟨inv.remOK, by intro l hl'; simp at hl'; rcases hl' with hl' | rfl; exact inv.addOK l hl'; exact hl,
               by have := inv.pre1; simp; omega, inv.pre2, by simp, by simp⟩
            simp at i2 i3
            exact ⟨i1, by omega, by omega, i4, i5, i6⟩
        · split at e
          · cases e
          · rename_i hrc
            have hrc' : rc ≠ 0 := by simpa using hrc
            obtain ⟨i1, i2, i3, i4, i5, i6⟩ := ih _ _ _ _ _ _ _ e
              ⟨by intro l hl'; simp at hl'; rcases hl' with hl' | rfl; exact inv.remOK l hl'; exact hl, inv.addOK,
               inv.pre1, by have := inv.pre2; simp; omega, by simp, by simp⟩
            simp at i2 i3
            exact ⟨i1, by omega, by omega, i4, i5, i6⟩
        · split at e
          · cases e
          · rename_i hz
            simp only [Bool.or_eq_true, beq_iff_eq, not_or] at hz
            have a1 := inv.pre1; have a2 := inv.pre2; have a3 := inv.suf1; have a4 := inv.suf2
            obtain ⟨i1, i2, i3, i4, i5, i6⟩ := ih _ _ _ _ _ _ _ e
              (by
                cases nc
                · exact ⟨by intro l hl'; simp at hl'; rcases hl' with hl' | rfl; exact inv.remOK l hl'; exact hl,
                    by intro l hl'; simp at hl'; rcases hl' with hl' | rfl; exact inv.addOK l hl'; exact hl,
                    by simp; omega, by simp; omega, by simp; omega, by simp; omega⟩
                · exact ⟨by intro l hl'; simp at hl'; rcases hl' with hl' | rfl; exact inv.remOK l hl'; exact hl,
                    by intro l hl'; simp at hl'; rcases hl' with hl' | rfl; exact inv.addOK l hl'; exact hl,
                    by simp; omega, by simp; omega, by simp; omega, by simp; omega⟩)
            cases nc <;> simp at i2 i3 i4 i5 i6 <;> exact ⟨i1, by omega, by omega, i4, i5, i6⟩

/-- context counts are zero when a side is empty (all `recognizeKind` needs) -/
def CtxZ (h : PHunk) : Prop := (h.add = [] ∨ h.rem = []) → h.pre = 0 ∧ h.suf = 0

theorem parseHunk_inv (inp r : Bytes) (h : PHunk) (e : parseHunk inp = .ok (r, h)) : HunkOK h ∧ CtxZ h := by
  unfold parseHunk at e
  split at e
  · cases e
  · cases e
  · rename_i r0 hd hh
    obtain ⟨b1, b2, b3, b4, b5⟩ := parseHunkHeader_inv _ _ _ hh
    obtain ⟨i1, i2, i3, i4, i5, i6⟩ := hunkLoop_inv _ _ _ _ _ _ _ _ e
      ⟨by simp, by simp, by simp, by simp, by simp, by simp⟩
    simp only [List.length_nil, Nat.zero_add] at i2 i3 i4 i5 i6
    refine ⟨⟨i1.remOK, i1.addOK, ?_, ?_, ?_, ?_, by omega, by omega, by rw [i6]; exact b5⟩, ?_⟩
    · rw [i4]; unfold startLine; split <;> omega
    · rw [i5]; unfold startLine; split <;> omega
    · rw [i4, i2]; unfold startLine; split <;> (try split) <;> omega
    · rw [i5, i3]; unfold startLine; split <;> (try split) <;> omega
    · intro hz
      have a1 := i1.pre1; have a2 := i1.pre2; have a3 := i1.suf1; have a4 := i1.suf2
      rcases hz with hz | hz
      · have : h.add.length = 0 := by rw [hz]; rfl
        constructor <;> omega
      · have : h.rem.length = 0 := by rw [hz]; rfl
        constructor <;> omega

theorem hunksLoop_inv : ∀ (f : Nat) (inp : Bytes) (acc : List PHunk) (r : Bytes) (hs : List PHunk),
    hunksLoop f inp acc = .ok (r, hs) → (∀ h ∈ acc, HunkOK h ∧ CtxZ h) → ∀ h ∈ hs, HunkOK h ∧ CtxZ h := by
  intro f
  induction f with
  | zero => intro inp acc r hs e; simp [hunksLoop] at e
  | succ f ih =>
    intro inp acc r hs e hacc
    rw [hunksLoop_succ] at e
    split at e
    · rename_i r1 h1 hp
      refine ih _ _ _ _ e ?_
      intro h hh
      simp at hh
      rcases hh with hh | rfl
      · exact hacc h hh
      · exact parseHunk_inv _ _ _ hp
    · simp only [Except.ok.injEq, Prod.mk.injEq] at e
      rw [← e.2]; exact hacc
    · cases e

/-! ### git extended header lines -/

def GitLineOK : GitLine → Prop
  | .index o n _ => HexNE o ∧ HexNE n
  | .oldMode m | .newMode m | .deletedFileMode m | .newFileMode m => m < 8 ^ 6
  | _ => True

theorem newline_inv (x r v : Bytes) (h : newline x = .ok (r, v)) : x = 10 :: r := by
  unfold newline at h
  cases x with
  | nil => cases h
  | cons c t =>
    simp only [] at h
    split at h
    · rename_i hc
      simp only [Except.ok.injEq, Prod.mk.injEq] at h
      simp [NL] at hc
      rw [hc, h.1]
    · cases h

theorem skipBody_inv (g : GitLine) (x r : Bytes) (gl : GitLine) (h : skipBody g x = .ok (r, gl)) :
    gl = g ∧ ∃ l, NLfree l ∧ x = l ++ 10 :: r := by
  unfold skipBody at h
  obtain ⟨⟨r1, l⟩, h1, h2⟩ := bind_ok h
  simp only [pure, Except.pure, Except.ok.injEq, Prod.mk.injEq] at h2
  obtain ⟨rfl, rfl⟩ := h2
  obtain ⟨a, b⟩ := takeLineSkip_inv _ _ _ h1
  exact ⟨rfl, l, a, b⟩

theorem modeBody_inv (k : Nat → GitLine) (x r : Bytes) (gl : GitLine) (h : modeBody k x = .ok (r, gl)) :
    ∃ sp ds, x = sp ++ (ds ++ 10 :: r) ∧ (∀ c ∈ sp, isSpace c = true) ∧ (∀ c ∈ ds, isOct c = true) ∧
      ds.length = 6 ∧ gl = k (octVal ds) := by
  unfold modeBody at h
  obtain ⟨⟨r1, m⟩, h1, h2⟩ := bind_ok h
  obtain ⟨⟨r2, v⟩, h3, h4⟩ := bind_ok h2
  simp only [pure, Except.pure, Except.ok.injEq, Prod.mk.injEq] at h4
  obtain ⟨rfl, rfl⟩ := h4
  obtain ⟨sp, ds, e, a1, a2, a3, _, rfl⟩ := parseMode_inv _ _ _ h1
  have := newline_inv _ _ _ h3
  subst this
  exact ⟨sp, ds, e, a1, a2, a3, rfl⟩

theorem indexBody_inv (x r : Bytes) (gl : GitLine) (h : indexBody x = .ok (r, gl)) :
    ∃ o n, HexNE o ∧ HexNE n ∧
      ((x = o ++ (sDotDot ++ (n ++ 10 :: r)) ∧ gl = .index o n none) ∨
       (∃ sp ds, x = o ++ (sDotDot ++ (n ++ (sp ++ (ds ++ 10 :: r)))) ∧ (∀ c ∈ sp, isSpace c = true) ∧
          (∀ c ∈ ds, isOct c = true) ∧ ds.length = 6 ∧ Stops (fun c => !isHex c) (sp ++ (ds ++ 10 :: r)) ∧
          gl = .index o n (some (octVal ds)))) := by
  unfold indexBody at h
  obtain ⟨⟨r1, o⟩, h1, h2⟩ := bind_ok h
  simp only [] at h2
  obtain ⟨e1, ho, _⟩ := parseGitHash_inv _ _ _ h1
  split at h2
  · cases h2
  · rename_i r2 hsp
    have e2 := stripPrefix_inv _ _ _ hsp
    obtain ⟨⟨r3, n⟩, h3, h4⟩ := bind_ok h2
    simp only [] at h4
    obtain ⟨e3, hn, hst⟩ := parseGitHash_inv _ _ _ h3
    refine ⟨o, n, ho, hn, ?_⟩
    cases hm : parseMode r3 with
    | error e =>
      rw [hm] at h4
      simp only [] at h4
      obtain ⟨⟨r4, v⟩, h5, h6⟩ := bind_ok h4
      simp only [pure, Except.pure, Except.ok.injEq, Prod.mk.injEq] at h6
      obtain ⟨rfl, rfl⟩ := h6
      have := newline_inv _ _ _ h5
      left
      exact ⟨by rw [e1, e2, e3, this], rfl⟩
    | ok v =>
      obtain ⟨r', m⟩ := v
      rw [hm] at h4
      simp only [] at h4
      obtain ⟨⟨r4, v⟩, h5, h6⟩ := bind_ok h4
      simp only [pure, Except.pure, Except.ok.injEq, Prod.mk.injEq] at h6
      obtain ⟨rfl, rfl⟩ := h6
      have := newline_inv _ _ _ h5
      obtain ⟨sp, ds, e, a1, a2, a3, _, rfl⟩ := parseMode_inv _ _ _ hm
      right
      exact ⟨sp, ds, by rw [e1, e2, e3, e, this], a1, a2, a3, by rw [e, this] at hst; exact hst, rfl⟩

theorem octVal_lt6 (ds : Bytes) (h1 : ∀ c ∈ ds, isOct c = true) (h2 : ds.length = 6) : octVal ds < 8 ^ 6 := by
  have := octVal_lt ds 0 h1
  rw [h2] at this
  simpa [octVal] using this

theorem parseGitMetadataLine_ok (inp r : Bytes) (gl : GitLine) (h : parseGitMetadataLine inp = .ok (r, gl)) :
    GitLineOK gl := by
  obtain ⟨pb, hpb, x, _, hb⟩ := git_inv inp (r, gl) h
  simp only [gitTable, List.mem_cons, List.mem_nil_iff, or_false] at hpb
  rcases hpb with rfl | rfl | rfl | rfl | rfl | rfl | rfl | rfl | rfl | rfl
  · obtain ⟨o, n, ho, hn, h' | ⟨sp, ds, _, _, _, _, _, h'⟩⟩ := indexBody_inv _ _ _ hb
    · rw [h'.2]; exact ⟨ho, hn⟩
    · rw [h']; exact ⟨ho, hn⟩
  all_goals try (rw [(skipBody_inv _ _ _ _ hb).1]; trivial)
  all_goals
    obtain ⟨sp, ds, _, _, a2, a3, rfl⟩ := modeBody_inv _ _ _ _ hb
    exact octVal_lt6 ds a2 a3

end RQ.Write
