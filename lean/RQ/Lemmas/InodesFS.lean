import RQ.Model.Push
/-! Helper lemmas for C15, part 1: the abstract file system (`lookup` after each operation). -/
namespace RQ.FS
open RQ

/-! ### raw list lemmas -/

theorem find_map_set_self (l : List (Key × Node)) (k : Key) (n : Node)
    (h : l.any (fun p => p.1 == k) = true) :
    ((l.map (fun p => if p.1 == k then (k, n) else p)).find? (fun p => p.1 == k)).map (·.2) = some n := by
  induction l with
  | nil => simp at h
  | cons p t ih =>
    rw [List.map_cons, List.find?_cons]
    by_cases hp : p.1 = k
    · simp [hp]
    · have ht : t.any (fun p => p.1 == k) = true := by
        simpa [hp] using h
      have : ((if (p.fst == k) = true then (k, n) else p).fst == k) = false := by simp [hp]
      rw [this]
      exact ih ht

theorem find_map_set_ne (l : List (Key × Node)) (k k' : Key) (n : Node) (hne : k' ≠ k) :
    (l.map (fun p => if p.1 == k then (k, n) else p)).find? (fun p => p.1 == k') =
      l.find? (fun p => p.1 == k') := by
  induction l with
  | nil => rfl
  | cons p t ih =>
    rw [List.map_cons, List.find?_cons, List.find?_cons, ih]
    by_cases hp : p.1 = k
    · have h1 : (p.1 == k') = false := by
        simp; exact fun h => hne (h ▸ hp)
      have h2 : ((if (p.fst == k) = true then (k, n) else p).fst == k') = false := by
        simp [hp]; exact fun h => hne h.symm
      rw [h1, h2]
    · have : (if (p.fst == k) = true then (k, n) else p) = p := by simp [hp]
      rw [this]

theorem find_none_of_not_any (l : List (Key × Node)) (k : Key)
    (h : ¬ l.any (fun p => p.1 == k) = true) : l.find? (fun p => p.1 == k) = none := by
  rw [List.find?_eq_none]
  intro x hx hpx
  exact h (List.any_eq_true.mpr ⟨x, hx, hpx⟩)

/-! ### `set` / `erase` -/

theorem lookup_set_self (fs : FS) (k : Key) (n : Node) : (fs.set k n).lookup k = some n := by
  unfold set lookup
  split
  · rename_i h
    exact find_map_set_self fs.nodes k n h
  · rename_i h
    have := find_none_of_not_any fs.nodes k h
    simp [List.find?_append, this]

theorem lookup_set_ne (fs : FS) (k k' : Key) (n : Node) (hne : k' ≠ k) :
    (fs.set k n).lookup k' = fs.lookup k' := by
  unfold set lookup
  split
  · simp only [find_map_set_ne fs.nodes k k' n hne]
  · have hk : ¬ k = k' := fun h => hne h.symm
    simp [List.find?_append, hk]

theorem nextIno_set (fs : FS) (k : Key) (n : Node) : (fs.set k n).nextIno = fs.nextIno := by
  unfold set; split <;> rfl

theorem lookup_erase_self (fs : FS) (k : Key) : (fs.erase k).lookup k = none := by
  unfold erase lookup
  simp [List.find?_filter]

theorem lookup_erase_ne (fs : FS) (k k' : Key) (hne : k' ≠ k) :
    (fs.erase k).lookup k' = fs.lookup k' := by
  unfold erase lookup
  congr 1
  simp only
  induction fs.nodes with
  | nil => rfl
  | cons p t ih =>
    rw [List.filter_cons, List.find?_cons (as := t)]
    by_cases hp : p.1 = k
    · have h1 : (p.1 == k') = false := by
        simp; exact fun h => hne (h ▸ hp)
      have h2 : (p.1 != k) = false := by simp [hp]
      rw [h1, h2]
      exact ih
    · have h2 : (p.1 != k) = true := by simp [hp]
      rw [h2]
      simp only [if_true]
      rw [List.find?_cons, ih]

theorem nextIno_erase (fs : FS) (k : Key) : (fs.erase k).nextIno = fs.nextIno := rfl

/-- every file of `b` is the same file of `a` (nothing was written, files may have disappeared) -/
def Sub (a b : FS) : Prop :=
  a.nextIno ≤ b.nextIno ∧ ∀ k c m i, b.lookup k = some (.file c m i) → a.lookup k = some (.file c m i)

theorem Sub.refl (a : FS) : Sub a a := ⟨Nat.le_refl _, fun _ _ _ _ h => h⟩

theorem Sub.trans {a b c : FS} (h1 : Sub a b) (h2 : Sub b c) : Sub a c :=
  ⟨Nat.le_trans h1.1 h2.1, fun k c' m i h => h1.2 k c' m i (h2.2 k c' m i h)⟩

theorem sub_erase (fs : FS) (k : Key) : Sub fs (fs.erase k) := by
  refine ⟨Nat.le_refl _, ?_⟩
  intro k' c m i h
  by_cases hk : k' = k
  · subst hk; rw [lookup_erase_self] at h; cases h
  · rwa [lookup_erase_ne fs k k' hk] at h

theorem sub_set_dir (fs : FS) (k : Key) (hk : fs.lookup k = none) : Sub fs (fs.set k .dir) := by
  refine ⟨by rw [nextIno_set]; exact Nat.le_refl _, ?_⟩
  intro k' c m i h
  by_cases hk' : k' = k
  · subst hk'; rw [lookup_set_self] at h; cases h
  · rwa [lookup_set_ne fs k k' .dir hk'] at h

/-! ### operations that never write -/

theorem removeFile_ok {fs fs' : FS} {k : Key} (h : fs.removeFile k = .ok fs') :
    fs' = fs.erase k := by
  unfold removeFile at h
  split at h
  · cases h
  · split at h
    · cases h; rfl
    · cases h
    · split at h <;> cases h

theorem removeFile_notFound {fs : FS} {k : Key} (h : fs.removeFile k = .error .notFound) :
    fs.lookup k = none := by
  unfold removeFile at h
  split at h
  · cases h
  · split at h
    · cases h
    · cases h
    · assumption

theorem removeDir_ok {fs fs' : FS} {k : Key} (h : fs.removeDir k = .ok fs') :
    fs' = fs.erase k := by
  unfold removeDir at h
  split at h
  · cases h
  · split at h
    · split at h
      · cases h
      · cases h; rfl
    · cases h
    · cases h

theorem createDirAll_fold (k : Key) (l : List Nat) :
    ∀ (acc : Except IOErr FS) (fs' : FS),
      l.foldl (fun acc i =>
        match acc with
        | .error e => .error e
        | .ok f =>
          let p := k.take i
          if p == [] then .ok f
          else match f.lookup p with
            | some .dir => .ok f
            | some (.file ..) => .error .other
            | none => .ok (f.set p .dir)) acc = .ok fs' →
      ∃ fs, acc = .ok fs ∧ Sub fs fs' := by
  induction l with
  | nil =>
    intro acc fs' h
    exact ⟨fs', h, Sub.refl _⟩
  | cons i t ih =>
    intro acc fs' h
    rw [List.foldl_cons] at h
    obtain ⟨f1, h1, hs1⟩ := ih _ _ h
    cases acc with
    | error e => simp at h1
    | ok f =>
      refine ⟨f, rfl, ?_⟩
      simp only at h1
      split at h1
      · cases h1; exact hs1
      · split at h1
        · cases h1; exact hs1
        · cases h1
        · rename_i hl
          cases h1
          exact Sub.trans (sub_set_dir f _ hl) hs1

theorem createDirAll_ok {fs fs' : FS} {k : Key} (h : fs.createDirAll k = .ok fs') : Sub fs fs' := by
  unfold createDirAll at h
  obtain ⟨f, hf, hs⟩ := createDirAll_fold k _ _ _ h
  cases hf
  exact hs

/-! ### the invariant -/

/-- `nextIno` only grows and old inodes are intact (second part: the body of `OldInodesIntact` of C15) -/
def Inv (fs0 fs : FS) : Prop :=
  fs0.nextIno ≤ fs.nextIno ∧
  ∀ (k : Key) (c : Bytes) (m i : Nat), fs.lookup k = some (.file c m i) → i < fs0.nextIno →
    k ≠ Push.appliedKey → fs0.lookup k = some (.file c m i)

/-- the file at `k`, if any, may be written in place: it is a fresh object, or it is `.pc/applied-patches` -/
def Fresh (n0 : Nat) (fs : FS) (k : Key) : Prop :=
  k = Push.appliedKey ∨ ∀ c m i, fs.lookup k = some (.file c m i) → n0 ≤ i

theorem Inv.refl (fs : FS) : Inv fs fs := ⟨Nat.le_refl _, fun _ _ _ _ h _ _ => h⟩

theorem Inv.sub {fs0 a b : FS} (h : Inv fs0 a) (hs : Sub a b) : Inv fs0 b :=
  ⟨Nat.le_trans h.1 hs.1, fun k c m i hl hi hk => h.2 k c m i (hs.2 k c m i hl) hi hk⟩

theorem Fresh.sub {n0 : Nat} {a b : FS} {k : Key} (h : Fresh n0 a k) (hs : Sub a b) : Fresh n0 b k := by
  cases h with
  | inl h => exact .inl h
  | inr h => exact .inr (fun c m i hl => h c m i (hs.2 k c m i hl))

theorem fresh_of_none {n0 : Nat} {fs : FS} {k : Key} (h : fs.lookup k = none) : Fresh n0 fs k :=
  .inr (fun c m i hl => by rw [h] at hl; cases hl)

/-- a file absent from the initial file system is fresh wherever it shows up later -/
theorem fresh_of_init_none {fs0 fs : FS} {k : Key} (h : Inv fs0 fs) (h0 : fs0.lookup k = none) :
    Fresh fs0.nextIno fs k := by
  by_cases hk : k = Push.appliedKey
  · exact .inl hk
  · refine .inr (fun c m i hl => ?_)
    by_cases hi : i < fs0.nextIno
    · have := h.2 k c m i hl hi hk
      rw [h0] at this; cases this
    · omega

theorem inv_of_set {fs0 fs : FS} {k : Key} {c : Bytes} {m i : Nat} (h : Inv fs0 fs)
    (hi : k = Push.appliedKey ∨ fs0.nextIno ≤ i) (fs' : FS) (hn : fs.nextIno ≤ fs'.nextIno)
    (hl : ∀ k', fs'.lookup k' = (fs.set k (.file c m i)).lookup k') :
    Inv fs0 fs' ∧ Fresh fs0.nextIno fs' k := by
  refine ⟨⟨Nat.le_trans h.1 hn, ?_⟩, ?_⟩
  · intro k' c' m' i' hl' hi' hk'
    rw [hl k'] at hl'
    by_cases hkk : k' = k
    · subst hkk
      rw [lookup_set_self] at hl'
      cases hl'
      cases hi with
      | inl hi => exact absurd hi hk'
      | inr hi => omega
    · rw [lookup_set_ne fs k k' _ hkk] at hl'
      exact h.2 k' c' m' i' hl' hi' hk'
  · cases hi with
    | inl hi => exact .inl hi
    | inr hi =>
      refine .inr (fun c' m' i' hl' => ?_)
      rw [hl k, lookup_set_self] at hl'
      cases hl'
      exact hi

theorem fresh_ino {n0 : Nat} {fs : FS} {k : Key} {c : Bytes} {m i : Nat} (hfr : Fresh n0 fs k)
    (hl : fs.lookup k = some (.file c m i)) : k = Push.appliedKey ∨ n0 ≤ i := by
  cases hfr with
  | inl h => exact .inl h
  | inr h => exact .inr (h c m i hl)

/-! ### operations that write -/

theorem createFile_ok {fs0 fs fs' : FS} {k : Key} (h : Inv fs0 fs) (hfr : Fresh fs0.nextIno fs k)
    (e : fs.createFile k = .ok fs') : Inv fs0 fs' ∧ Fresh fs0.nextIno fs' k := by
  unfold createFile at e
  split at e
  · cases e
  · split at e
    · cases e
    · split at e
      · cases e
      · split at e
        · cases e
        · rename_i hl
          cases e
          exact inv_of_set h (fresh_ino hfr hl) _ (by rw [nextIno_set]; exact Nat.le_refl _) (fun _ => rfl)
        · cases e
          exact inv_of_set h (.inr h.1) _ (by simp) (fun _ => rfl)

theorem setMode_ok {fs0 fs : FS} {k : Key} (mode : Nat) (h : Inv fs0 fs) (hfr : Fresh fs0.nextIno fs k) :
    Inv fs0 (fs.setMode k mode) ∧ Fresh fs0.nextIno (fs.setMode k mode) k := by
  unfold setMode
  split
  · rename_i hl
    exact inv_of_set h (fresh_ino hfr hl) _ (by rw [nextIno_set]; exact Nat.le_refl _) (fun _ => rfl)
  · exact ⟨h, hfr⟩

theorem appendBytes_ok {fs0 fs : FS} {k : Key} (b : Bytes) (h : Inv fs0 fs) (hfr : Fresh fs0.nextIno fs k) :
    Inv fs0 (fs.appendBytes k b) ∧ Fresh fs0.nextIno (fs.appendBytes k b) k := by
  unfold appendBytes
  split
  · rename_i hl
    exact inv_of_set h (fresh_ino hfr hl) _ (by rw [nextIno_set]; exact Nat.le_refl _) (fun _ => rfl)
  · exact ⟨h, hfr⟩

theorem appendFile_ok {fs0 fs fs' : FS} {k : Key} {b : Bytes} (h : Inv fs0 fs) (hfr : Fresh fs0.nextIno fs k)
    (e : fs.appendFile k b = .ok fs') : Inv fs0 fs' ∧ Fresh fs0.nextIno fs' k := by
  unfold appendFile at e
  split at e
  · cases e
  · split at e
    · cases e
    · split at e
      · cases e
      · cases e
        exact appendBytes_ok b h hfr
      · cases e
        exact inv_of_set h (.inr h.1) _ (by simp) (fun _ => rfl)

theorem readFile_notFound {fs : FS} {k : Key} (h : fs.readFile k = .error .notFound) :
    fs.lookup k = none := by
  unfold readFile at h
  split at h
  · cases h
  · split at h
    · cases h
    · cases h
    · assumption

end RQ.FS

/-! ### `save_rej_files` and `ENOTDIR` (`World.opRej`)

`saveRejFiles_cons` splits the loop body of `saveRejFiles` by the test `fileOnPath k` on the file system the
entry is met on: if a regular file is on the way, both operations are issued, fail with `ENOTDIR` (or with the
injected fault, which stays an error) and the entry is bypassed; otherwise the body is the plain one in terms of
`World.op`. -/
namespace RQ.Push
open RQ

theorem opRej_of_clear {w : World} {k : Key} (hp : w.fs.fileOnPath k = false) (o : Op) : w.opRej o k = w.op o := by
  unfold World.opRej World.notDir
  rw [hp]
  cases w.op o <;> rfl

theorem fileOnPath_erase (fs : FS) (k : Key) : (fs.erase k).fileOnPath k = fs.fileOnPath k := by
  have hne : ∀ i, i < k.length → k.take i ≠ k := by
    intro i hlt h
    have := congrArg List.length h
    rw [List.length_take] at this
    omega
  unfold FS.fileOnPath
  rw [Bool.eq_iff_iff]
  simp only [List.any_eq_true, List.mem_range]
  constructor
  · rintro ⟨i, hi, h⟩
    refine ⟨i, hi, ?_⟩
    rw [FS.lookup_erase_ne fs k _ (hne i hi)] at h
    exact h
  · rintro ⟨i, hi, h⟩
    refine ⟨i, hi, ?_⟩
    rw [FS.lookup_erase_ne fs k _ (hne i hi)]
    exact h

theorem op_removeFile_ok_fileOnPath {w w0 : World} {k : Key} (e : w.op (.removeFile k) = .ok w0) :
    w0.fs.fileOnPath k = w.fs.fileOnPath k := by
  unfold World.op at e
  simp only at e
  split at e
  · cases e
  · split at e
    · rename_i fs' h
      cases e
      simp only
      rw [FS.removeFile_ok h, fileOnPath_erase]
    · cases e
    · cases e

theorem op_notFound_fs {w w0 : World} {o : Op} (e : w.op o = .notFound w0) : w0.fs = w.fs := by
  unfold World.op at e
  simp only at e
  split at e
  · cases e
  · split at e
    · cases e
    · cases e; rfl
    · cases e

/-- the world after an operation that changed nothing but the trace -/
def World.logged (w : World) (o : Op) : World := { w with trace := w.trace ++ [o] }

@[simp] theorem World.logged_fs (w : World) (o : Op) : (w.logged o).fs = w.fs := rfl
@[simp] theorem World.logged_faultAt (w : World) (o : Op) : (w.logged o).faultAt = w.faultAt := rfl
@[simp] theorem World.logged_trace (w : World) (o : Op) : (w.logged o).trace = w.trace ++ [o] := rfl

theorem removeFile_of_fileOnPath {fs : FS} {k : Key} (hp : fs.fileOnPath k = true) :
    fs.removeFile k = .error .other := by
  unfold FS.removeFile; rw [if_pos hp]

theorem createFile_of_fileOnPath {fs : FS} {k : Key} (hp : fs.fileOnPath k = true) :
    fs.createFile k = .error .other := by
  unfold FS.createFile
  split
  · rfl
  · rfl

/-- the two operations of `save_rej_files` on a path that leads through a regular file -/
theorem opRej_blocked {w : World} {k : Key} (hp : w.fs.fileOnPath k = true) {o : Op}
    (ho : o = .removeFile k ∨ o = .createFile k) :
    w.opRej o k = if w.faultAt == some w.trace.length then .failed (w.logged o) else .notFound (w.logged o) := by
  unfold World.opRej World.notDir World.op
  rw [hp]
  by_cases hf : (w.faultAt == some w.trace.length) = true
  · simp only [hf, if_true]
    rfl
  · simp only [hf]
    rcases ho with rfl | rfl
    · simp only [removeFile_of_fileOnPath hp]; rfl
    · simp only [createFile_of_fileOnPath hp]; rfl

/-- **the loop body of `saveRejFiles`**, split by `fileOnPath k`: bypassed (both operations logged) or the plain
body in terms of `World.op` -/
theorem saveRejFiles_cons (w : World) (name content : Bytes) (rest : List (Bytes × Bytes)) :
    saveRejFiles w ((name, content) :: rest) =
    match safeKey name with
    | none => .error (.err, w)
    | some k =>
      if w.fs.fileOnPath k then
        if w.faultAt == some w.trace.length then .error (.err, w.logged (.removeFile k))
        else if w.faultAt == some (w.trace.length + 1) then
          .error (.err, (w.logged (.removeFile k)).logged (.createFile k))
        else saveRejFiles ((w.logged (.removeFile k)).logged (.createFile k)) rest
      else
        match w.op (.removeFile k) with
        | .failed w0 => .error (.err, w0)
        | .ok w0 | .notFound w0 =>
          match w0.op (.createFile k) with
          | .notFound w' => saveRejFiles w' rest
          | .failed w' => .error (.err, w')
          | .ok w' =>
            match w'.op (.write k content) with
            | .ok w'' => saveRejFiles w'' rest
            | .notFound w'' | .failed w'' => .error (.err, w'') := by
  rw [saveRejFiles]
  cases hk : safeKey name with
  | none => rfl
  | some k =>
    simp only
    by_cases hp : w.fs.fileOnPath k = true
    · rw [if_pos hp, opRej_blocked hp (.inl rfl)]
      by_cases hf : (w.faultAt == some w.trace.length) = true
      · simp only [hf, if_true]
      · have hf' : (w.faultAt == some w.trace.length) = false := by simpa using hf
        rw [hf']
        simp only [Bool.false_eq_true, if_false]
        have hp1 : (w.logged (.removeFile k)).fs.fileOnPath k = true := hp
        rw [opRej_blocked hp1 (.inr rfl)]
        simp only [World.logged_faultAt, World.logged_trace, List.length_append, List.length_singleton]
        by_cases hf2 : (w.faultAt == some (w.trace.length + 1)) = true
        · simp only [hf2, if_true]
        · have hf2' : (w.faultAt == some (w.trace.length + 1)) = false := by simpa using hf2
          rw [hf2']
          simp only [Bool.false_eq_true, if_false]
    · have hp' : w.fs.fileOnPath k = false := by simpa using hp
      rw [if_neg hp, opRej_of_clear hp']
      cases hop : w.op (.removeFile k) with
      | failed w0 => rfl
      | ok w0 =>
        simp only
        rw [opRej_of_clear (by rw [op_removeFile_ok_fileOnPath hop]; exact hp')]
        rfl
      | notFound w0 =>
        simp only
        rw [opRej_of_clear (by rw [op_notFound_fs hop]; exact hp')]
        rfl

end RQ.Push
