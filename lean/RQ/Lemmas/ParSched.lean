/-!
# The apply phase of the parallel driver as a transition system (C06)

`parallel::apply_worker` for every worker: for each entry `(patch index, file patch)` of its queue
(1) read the shared `earliest_broken_patch_index` and stop if the entry's index is greater,
(2) apply the file patch to its own state (thread-local), (3) if it failed, `fetch_min` the index.
Steps (1)+(2) and step (3) are the two atomic micro-steps of the model (`step`); a schedule is any list
of worker ids; `ap` is the worker's application function (here arbitrary: the theorem is parametric in
libpatch and in the per-worker state).  `apply_phase_complete`: under EVERY schedule, once all workers
are done, the shared index is the first failing patch `F`, every worker's state is the fold of `ap` over
the prefix of its queue it processed, and that prefix contains every entry of patches `≤ F`.
Acquire/AcqRel atomics on the single shared variable are modelled as sequentially consistent steps.
-/
namespace RQ.Par

structure Entry where
  idx : Nat
  tag : Nat
deriving DecidableEq, Repr

inductive Phase
  | idle
  | pending (failed : Bool)
  | stopped
deriving DecidableEq, Repr

structure W (σ : Type) where
  pos : Nat
  st : σ
  phase : Phase

structure S (σ : Type) where
  earliest : Nat
  ws : Nat → W σ

variable {σ : Type}

def upd (f : Nat → W σ) (w : Nat) (x : W σ) : Nat → W σ := fun v => if v = w then x else f v

/-- one micro-step of worker `w` -/
def step (ap : σ → Entry → σ × Bool) (q : Nat → List Entry) (w : Nat) (s : S σ) : S σ :=
  let W := s.ws w
  match W.phase with
  | .stopped => s
  | .pending f =>
    match (q w)[W.pos]? with
    | none => s
    | some e =>
      { earliest := if f then min s.earliest e.idx else s.earliest,
        ws := upd s.ws w { W with pos := W.pos + 1, phase := .idle } }
  | .idle =>
    match (q w)[W.pos]? with
    | none => s
    | some e =>
      if e.idx > s.earliest then { s with ws := upd s.ws w { W with phase := .stopped } }
      else
        let r := ap W.st e
        { s with ws := upd s.ws w { W with st := r.1, phase := .pending r.2 } }

def run (ap : σ → Entry → σ × Bool) (q : Nat → List Entry) : List Nat → S σ → S σ
  | [], s => s
  | w :: ws, s => run ap q ws (step ap q w s)

/-- state of worker `w` after its first `n` entries -/
def pre (ap : σ → Entry → σ × Bool) (init : σ) (l : List Entry) : Nat → σ
  | 0 => init
  | n+1 => match l[n]? with
    | none => pre ap init l n
    | some e => (ap (pre ap init l n) e).1

def fails (ap : σ → Entry → σ × Bool) (init : σ) (l : List Entry) (n : Nat) : Bool :=
  match l[n]? with
  | none => false
  | some e => (ap (pre ap init l n) e).2

def done (q : Nat → List Entry) (x : W σ) (w : Nat) : Prop :=
  x.phase = .stopped ∨ (x.phase = .idle ∧ (q w).length ≤ x.pos)

structure Inv (ap : σ → Entry → σ × Bool) (q : Nat → List Entry) (init : Nat → σ) (N F : Nat) (s : S σ) : Prop where
  st_ok : ∀ w, match (s.ws w).phase with
    | .pending f => (s.ws w).pos < (q w).length ∧ (s.ws w).st = pre ap (init w) (q w) ((s.ws w).pos + 1)
                     ∧ f = fails ap (init w) (q w) (s.ws w).pos
    | _ => (s.ws w).st = pre ap (init w) (q w) (s.ws w).pos
  lower : F ≤ s.earliest
  upper : s.earliest ≤ N
  minc : ∀ w n e, n < (s.ws w).pos → (q w)[n]? = some e → fails ap (init w) (q w) n = true → s.earliest ≤ e.idx
  stop : ∀ w, (s.ws w).phase = .stopped → ∃ e, (q w)[(s.ws w).pos]? = some e ∧ F < e.idx

theorem pre_succ (ap : σ → Entry → σ × Bool) (i : σ) (l : List Entry) (n : Nat) (e : Entry)
    (h : l[n]? = some e) : pre ap i l (n+1) = (ap (pre ap i l n) e).1 := by
  simp [pre, h]

theorem upd_same (f : Nat → W σ) (w : Nat) (x : W σ) : upd f w x w = x := by simp [upd]
theorem upd_other (f : Nat → W σ) (w v : Nat) (x : W σ) (h : v ≠ w) : upd f w x v = f v := by simp [upd, h]

theorem step_inv (ap : σ → Entry → σ × Bool) (q : Nat → List Entry) (init : Nat → σ) (N F : Nat)
    (hF : ∀ w n e, (q w)[n]? = some e → fails ap (init w) (q w) n = true → F ≤ e.idx)
    (w : Nat) (s : S σ) (h : Inv ap q init N F s) : Inv ap q init N F (step ap q w s) := by
  unfold step
  cases hp : (s.ws w).phase with
  | stopped => simpa [hp] using h
  | pending f =>
    simp only [hp]
    cases he : (q w)[(s.ws w).pos]? with
    | none => simpa [he] using h
    | some e =>
      simp only [he]
      have hw := h.st_ok w
      rw [hp] at hw
      simp only at hw
      obtain ⟨hlt, hst, hf⟩ := hw
      refine ⟨?_, ?_, ?_, ?_, ?_⟩
      · intro v
        by_cases hv : v = w
        · subst hv; simp [upd_same, hst]
        · simp only [upd_other _ _ _ _ hv]; exact h.st_ok v
      · simp only
        split
        · have : F ≤ e.idx := hF w _ e he (by rw [← hf]; assumption)
          have := h.lower
          omega
        · exact h.lower
      · simp only
        have := h.upper
        split <;> omega
      · intro v n e' hn hq hfl
        simp only at hn ⊢
        by_cases hv : v = w
        · subst hv
          simp only [upd_same] at hn
          by_cases hn' : n = (s.ws v).pos
          · subst hn'
            rw [he] at hq; cases hq
            have : f = true := by rw [hf]; exact hfl
            simp [this]; omega
          · have := h.minc v n e' (by omega) hq hfl
            split <;> omega
        · simp only [upd_other _ _ _ _ hv] at hn
          have := h.minc v n e' hn hq hfl
          split <;> omega
      · intro v hv'
        by_cases hv : v = w
        · subst hv; simp [upd_same] at hv'
        · simp only [upd_other _ _ _ _ hv] at hv' ⊢
          exact h.stop v hv'
  | idle =>
    simp only [hp]
    cases he : (q w)[(s.ws w).pos]? with
    | none => simpa [he] using h
    | some e =>
      simp only [he]
      have hw := h.st_ok w
      rw [hp] at hw
      simp only at hw
      split
      · -- stop
        rename_i hgt
        refine ⟨?_, h.lower, h.upper, ?_, ?_⟩
        · intro v
          by_cases hv : v = w
          · subst hv; simp [upd_same, hw]
          · simp only [upd_other _ _ _ _ hv]; exact h.st_ok v
        · intro v n e' hn hq hfl
          by_cases hv : v = w
          · subst hv; simp only [upd_same] at hn; exact h.minc v n e' hn hq hfl
          · simp only [upd_other _ _ _ _ hv] at hn; exact h.minc v n e' hn hq hfl
        · intro v hv'
          by_cases hv : v = w
          · subst hv
            simp only [upd_same]
            exact ⟨e, he, by have := h.lower; omega⟩
          · simp only [upd_other _ _ _ _ hv] at hv' ⊢
            exact h.stop v hv'
      · -- apply
        refine ⟨?_, h.lower, h.upper, ?_, ?_⟩
        · intro v
          by_cases hv : v = w
          · subst hv
            simp only [upd_same]
            have hlt : (s.ws v).pos < (q v).length := by
              have := List.getElem?_eq_some_iff.mp he
              exact this.1
            refine ⟨hlt, ?_, ?_⟩
            · rw [pre_succ ap _ _ _ e he, hw]
            · simp [fails, he, hw]
          · simp only [upd_other _ _ _ _ hv]; exact h.st_ok v
        · intro v n e' hn hq hfl
          by_cases hv : v = w
          · subst hv; simp only [upd_same] at hn; exact h.minc v n e' hn hq hfl
          · simp only [upd_other _ _ _ _ hv] at hn; exact h.minc v n e' hn hq hfl
        · intro v hv'
          by_cases hv : v = w
          · subst hv; simp [upd_same] at hv'
          · simp only [upd_other _ _ _ _ hv] at hv' ⊢
            exact h.stop v hv'

theorem run_inv (ap : σ → Entry → σ × Bool) (q : Nat → List Entry) (init : Nat → σ) (N F : Nat)
    (hF : ∀ w n e, (q w)[n]? = some e → fails ap (init w) (q w) n = true → F ≤ e.idx)
    (sched : List Nat) : ∀ (s : S σ), Inv ap q init N F s → Inv ap q init N F (run ap q sched s) := by
  induction sched with
  | nil => intro s h; exact h
  | cons w ws ih => intro s h; exact ih _ (step_inv ap q init N F hF w s h)

def initS (init : Nat → σ) (N : Nat) : S σ := { earliest := N, ws := fun w => { pos := 0, st := init w, phase := .idle } }

theorem init_inv (ap : σ → Entry → σ × Bool) (q : Nat → List Entry) (init : Nat → σ) (N F : Nat) (hFN : F ≤ N) :
    Inv ap q init N F (initS init N) := by
  refine ⟨?_, hFN, Nat.le_refl _, ?_, ?_⟩
  · intro w; simp [initS, pre]
  · intro w n e hn; simp [initS] at hn
  · intro w hw; simp [initS] at hw

/-- queues are sorted by patch index (file patches are pushed in series order) -/
def Sorted (l : List Entry) : Prop := ∀ (i j : Nat) (e e' : Entry), i ≤ j → l[i]? = some e → l[j]? = some e' → e.idx ≤ e'.idx

/-- C06 (apply phase): under EVERY schedule, once all workers are done, the shared index is the first failing
    patch `F`, and every worker has processed every entry of patches `≤ F` and stopped before any entry `> F`… -/
theorem apply_phase_complete (ap : σ → Entry → σ × Bool) (q : Nat → List Entry) (init : Nat → σ) (N F : Nat)
    (hsorted : ∀ w, Sorted (q w))
    (hF : ∀ w n e, (q w)[n]? = some e → fails ap (init w) (q w) n = true → F ≤ e.idx)
    (hFwit : F = N ∨ ∃ w n e, (q w)[n]? = some e ∧ fails ap (init w) (q w) n = true ∧ e.idx = F)
    (hFN : F ≤ N)
    (sched : List Nat)
    (hdone : ∀ w, done q ((run ap q sched (initS init N)).ws w) w) :
    let s := run ap q sched (initS init N)
    s.earliest = F ∧
    ∀ w, (s.ws w).st = pre ap (init w) (q w) (s.ws w).pos ∧
         (∀ n e, (q w)[n]? = some e → e.idx ≤ F → n < (s.ws w).pos) := by
  intro s
  have hinv : Inv ap q init N F s := run_inv ap q init N F hF sched _ (init_inv ap q init N F hFN)
  have hcover : ∀ w n e, (q w)[n]? = some e → e.idx ≤ F → n < (s.ws w).pos := by
    intro w n e hq hle
    rcases hdone w with hst | ⟨_, hlen⟩
    · obtain ⟨e', he', hlt⟩ := hinv.stop w hst
      apply Classical.byContradiction
      intro hn
      have := hsorted w (s.ws w).pos n e' e (by omega) he' hq
      omega
    · have := (List.getElem?_eq_some_iff.mp hq).1
      show n < (s.ws w).pos
      have hl : (q w).length ≤ (s.ws w).pos := hlen
      omega
  refine ⟨?_, ?_⟩
  · rcases hFwit with hN | ⟨w, n, e, hq, hfl, hidx⟩
    · have := hinv.lower; have := hinv.upper; omega
    · have hpos := hcover w n e hq (by omega)
      have := hinv.minc w n e hpos hq hfl
      have := hinv.lower
      omega
  · intro w
    refine ⟨?_, hcover w⟩
    have h1 := hinv.st_ok w
    rcases hdone w with hst | ⟨hid, _⟩
    · rw [hst] at h1; exact h1
    · rw [hid] at h1; exact h1

end RQ.Par
