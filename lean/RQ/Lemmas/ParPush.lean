import RQ.Lemmas.ParPushW
/-!
# The apply phase of the parallel driver equals the sequential application (C06, stage 2)

For a range that parses and at least one thread, under EVERY schedule of the apply phase under which all
workers get done:
* (2a) the index the parallel push stops at is the `k` of `Abs.applyRange` (hence of `applyLoop`), an
  error of a worker counts only if the sequential push returns an error, and if the sequential push
  returns an error so does the parallel one (`parMemory_ok`, `parMemory_err`);
* (2b) every worker's cache, after its rollbacks, shows under the worker's names the files of the tree of
  `Abs.applyRange` (`ParMem.look`);
* (2c) the workers' reject files are those of the sequential push, each worker having the sub-list of its
  own file patches in the same order (`ParMem.rejs`, `rejs_perm`).
-/
namespace RQ.Par
open RQ RQ.Push RQ.Parse RQ.Abs

/-! ## The workers' entries and names -/

/-- every file patch of the list comes out of the parser -/
def Parsed (patches : List (Series.Entry × List PFilePatch)) : Prop :=
  ∀ p ∈ patches, ∃ bytes patch, parsePatch bytes p.1.strip false = .ok patch ∧ p.2 = patch.fps

/-- does the entry belong to worker `i` -/
def owns (patches : List (Series.Entry × List PFilePatch)) (threads i : Nat) (q : QEntry) : Bool :=
  workerOf (assignment threads (allEntries patches 0)) q == some i

/-- the names of worker `i`: the names of the file patches queued for it -/
def namesOf (patches : List (Series.Entry × List PFilePatch)) (threads i : Nat) (c : List Comp) : Prop :=
  ∃ q ∈ allEntries patches 0, workerOf (assignment threads (allEntries patches 0)) q = some i ∧ c ∈ fpNames q.fp

section
variable {fs : FS} {cfg : Cfg} {patches : List (Series.Entry × List PFilePatch)} {threads : Nat}

theorem queuesOf_eq (i : Nat) :
    queuesOf patches threads i = (allEntries patches 0).filter (owns patches threads i) := rfl

theorem parsed_entry (hP : Parsed patches) (k0 : Nat) (q : QEntry) (hq : q ∈ allEntries patches k0) :
    QWF q ∧ (q.fp.old.isSome ∨ q.fp.new.isSome) := by
  obtain ⟨p, hp, he, hfp⟩ := allEntries_mem patches k0 q hq
  obtain ⟨bytes, patch, hpp, hfps⟩ := hP p hp
  rw [hfps] at hfp
  exact ⟨⟨parsed_wflen hpp q.fp hfp, parsed_rename_new hpp q.fp hfp, Disk.parsePatch_noCur hpp q.fp hfp⟩,
    (C11_wf bytes p.1.strip false patch hpp q.fp hfp).1⟩

/-- every entry has a worker, and that worker exists -/
theorem owner_exists (hP : Parsed patches) (ht : 0 < threads) (q : QEntry) (hq : q ∈ allEntries patches 0) :
    ∃ i, i < threads ∧ workerOf (assignment threads (allEntries patches 0)) q = some i := by
  obtain ⟨_, hname⟩ := parsed_entry hP 0 q hq
  have hex : ∃ a, a ∈ fpNames q.fp := by
    rcases hname with h | h
    · obtain ⟨o, ho⟩ := Option.isSome_iff_exists.mp h
      exact ⟨_, mem_fpNames_old ho⟩
    · obtain ⟨n, hn⟩ := Option.isSome_iff_exists.mp h
      exact ⟨_, mem_fpNames_new hn⟩
  obtain ⟨a, ha⟩ := hex
  obtain ⟨p, hp, hk, _⟩ := distPair_spec q.fp a ha
  have hpm : p ∈ (allEntries patches 0).filterMap (fun q => distPair q.fp) := List.mem_filterMap.mpr ⟨q, hq, hp⟩
  have hw : workerOf (assignment threads (allEntries patches 0)) q =
      (assignment threads (allEntries patches 0)).worker p.1 := by
    unfold workerOf
    cases hx : q.fp.old.orElse (fun _ => q.fp.new) with
    | none => rw [hx] at hk; exact hk.elim
    | some n => rw [hx] at hk; simp only at hk ⊢; rw [hk]
  obtain ⟨x, hx, hlt⟩ := C07_total ((allEntries patches 0).filterMap (fun q => distPair q.fp)) threads ht p.1
    ⟨p, hpm, .inl rfl⟩
  exact ⟨x, hlt, by rw [hw]; exact hx⟩

theorem owns_in {i : Nat} {q : QEntry} (hq : q ∈ allEntries patches 0) (h : owns patches threads i q = true) :
    ∀ c ∈ fpNames q.fp, namesOf patches threads i c := by
  intro c hc
  exact ⟨q, hq, by simpa [owns] using h, hc⟩

theorem owns_out (ht : 0 < threads) {i : Nat} {q : QEntry} (hq : q ∈ allEntries patches 0)
    (h : owns patches threads i q = false) : ∀ c ∈ fpNames q.fp, ¬ namesOf patches threads i c := by
  intro c hc ⟨q', hq', hw', hc'⟩
  have hne : workerOf (assignment threads (allEntries patches 0)) q' ≠
      workerOf (assignment threads (allEntries patches 0)) q := by
    rw [hw']
    intro heq
    simp [owns, ← heq] at h
  exact workers_disjoint threads ht _ q' q hq' hq hne c hc' hc

/-- a worker that does not exist has an empty queue -/
theorem queue_empty (hP : Parsed patches) (ht : 0 < threads) {i : Nat} (hi : threads ≤ i) :
    queuesOf patches threads i = [] := by
  rw [queuesOf_eq, List.filter_eq_nil_iff]
  intro q hq
  obtain ⟨j, hj, hw⟩ := owner_exists hP ht q hq
  simp only [owns, hw, beq_iff_eq, Option.some.injEq]
  omega

/-! ## A worker along a run of all entries -/

/-- PROJECTION, concretely: while all entries `G` (series order) run on the tree `t0` without error, worker
`i` — whose cache stands for a tree `u0` showing the files of `t0` under its names — applies its own entries
of `G`: no error, its cache then shows the files of the resulting tree under its names, the outcomes of its
entries are those of the common run, the `Status`es it pushed can be undone and render the rejects of its
entries. -/
theorem worker_run (hP : Parsed patches) (ht : 0 < threads) (i : Nat) (G : List QEntry) (t0 t1 : ATree)
    (outs : List Out) (s : WSt) (u0 : ATree)
    (hG : ∀ q ∈ G, q ∈ allEntries patches 0)
    (hrun : absRun fs cfg t0 G = .ok (t1, outs))
    (herr : s.err = none) (hinv : MInv fs (namesOf patches threads i) s.st.mem)
    (hs : SameTree fs (ofMem s.st.mem) u0)
    (hag : ∀ n, namesOf patches threads i (components n) → look u0 fs n = look t0 fs n) :
    (runW fs cfg s (G.filter (owns patches threads i))).err = none ∧
    MInv fs (namesOf patches threads i) (runW fs cfg s (G.filter (owns patches threads i))).st.mem ∧
    ∃ u1, SameTree fs (ofMem (runW fs cfg s (G.filter (owns patches threads i))).st.mem) u1 ∧
      (∀ n, namesOf patches threads i (components n) → look u1 fs n = look t1 fs n) ∧
      (∀ n, ¬ namesOf patches threads i (components n) → look u1 fs n = look u0 fs n) ∧
      absRun fs cfg u0 (G.filter (owns patches threads i)) =
        .ok (u1, outs.filter (fun o => owns patches threads i o.q)) ∧
      ∃ Ls, (runW fs cfg s (G.filter (owns patches threads i))).st.applied = Ls ++ s.st.applied ∧
        (∀ x ∈ Ls, ∃ q ∈ G, x.index = q.idx) ∧
        Chain fs s.st.mem Ls (runW fs cfg s (G.filter (owns patches threads i))).st.mem ∧
        rejsOf Ls = outRejs (outs.filter (fun o => owns patches threads i o.q)) := by
  obtain ⟨u1, hloc, hA, hnA⟩ := absRun_proj (fs := fs) (cfg := cfg) (owns patches threads i)
    (namesOf patches threads i) G t0 u0 t1 outs
    (fun q hq hp => owns_in (hG q hq) hp) (fun q hq hp => owns_out ht (hG q hq) hp) hag hrun
  have hL : ∀ q ∈ G.filter (owns patches threads i), QWF q ∧ ∀ c ∈ fpNames q.fp, namesOf patches threads i c := by
    intro q hq
    obtain ⟨hqG, hp⟩ := List.mem_filter.mp hq
    exact ⟨(parsed_entry hP 0 q (hG q hqG)).1, owns_in (hG q hqG) hp⟩
  obtain ⟨e1, e2, e3, Ls, e4, e5, e6, e7⟩ := runW_sim _ s u0 u1 _ herr hinv hs hL hloc
  refine ⟨e1, e3, u1, e2, hA, hnA, hloc, Ls, e4, ?_, e6, e7⟩
  intro x hx
  obtain ⟨q, hq, e⟩ := e5 x hx
  exact ⟨q, (List.mem_filter.mp hq).1, e⟩


/-! ## Where the push stops -/

/-- The push stops at patch `k` with the tree `t`: the entries of the patches before `k` all apply cleanly
and give `t`; and `k` is the number of patches, or some entry of patch `k` — the entries of that patch
before it running without error — does not apply cleanly. -/
structure Stop (fs : FS) (cfg : Cfg) (patches : List (Series.Entry × List PFilePatch)) (k : Nat) (t : ATree) :
    Prop where
  le : k ≤ patches.length
  pre : ∃ outs, absRun fs cfg [] (allEntries (patches.take k) 0) = .ok (t, outs) ∧ ∀ o ∈ outs, o.ok = true
  wit : k = patches.length ∨ ∃ G1 q G2 t1 o1, allEntries (patches.drop k) k = G1 ++ q :: G2 ∧ q.idx = k ∧
    absRun fs cfg t G1 = .ok (t1, o1) ∧ Bad fs cfg t1 q

/-- … and patch `k` (if there is one) runs without error, with the outcomes `outsK` -/
structure Clean (fs : FS) (cfg : Cfg) (patches : List (Series.Entry × List PFilePatch)) (k : Nat) (t : ATree)
    (outsK : List Out) : Prop where
  stop : Stop fs cfg patches k t
  run : ∃ Gk Gz t', allEntries (patches.drop k) k = Gk ++ Gz ∧ (∀ q ∈ Gk, q.idx = k) ∧ (∀ q ∈ Gz, k < q.idx) ∧
    absRun fs cfg t Gk = .ok (t', outsK)

theorem drop_entries {j : Nat} {e : Series.Entry} {fps : List PFilePatch}
    (h : patches[j]? = some (e, fps)) :
    allEntries (patches.drop j) j = mkEntries j e fps ++ allEntries (patches.drop (j + 1)) (j + 1) := by
  obtain ⟨hlt, hget⟩ := List.getElem?_eq_some_iff.mp h
  rw [List.drop_eq_getElem_cons hlt, hget, allEntries_cons]

theorem clean_of_absRange {t : ATree} {k : Nat} {rejs : List (Bytes × Bytes)}
    (h : absRange fs cfg patches 0 [] = .ok (t, k, rejs)) :
    ∃ outsK, Clean fs cfg patches k t outsK ∧ rejs = if cfg.dryRun then [] else outRejs outsK := by
  obtain ⟨j, t', outs, hj, hpre, hok, hcase⟩ := absRange_decomp (fs := fs) (cfg := cfg) patches 0 []
  simp only [Nat.zero_add] at hcase
  rcases hcase with ⟨hjl, hr⟩ | ⟨e, fps, hget, ⟨t2, outs', hrun, hbad, hr⟩ | ⟨x, _, hr⟩⟩
  · rw [hr] at h
    cases h
    refine ⟨[], ⟨⟨hj, ⟨outs, hpre, hok⟩, .inl hjl⟩, [], [], t, ?_, (fun q hq => by cases hq),
      (fun q hq => by cases hq), rfl⟩, by cases cfg.dryRun <;> rfl⟩
    rw [hjl, List.drop_length]
    rfl
  · rw [hr] at h
    cases h
    obtain ⟨G1, q, G2, t1, o1, r, hsplit, hrun1, hr1, hrb⟩ := absRun_bad_split _ _ _ _ hrun hbad
    have hq : q ∈ mkEntries k e fps := by rw [hsplit]; simp
    refine ⟨outs', ⟨⟨hj, ⟨outs, hpre, hok⟩, .inr ⟨G1, q, G2 ++ allEntries (patches.drop (k + 1)) (k + 1), t1, o1,
      ?_, (mem_mkEntries hq).1, hrun1, ?_⟩⟩, mkEntries k e fps, allEntries (patches.drop (k + 1)) (k + 1), t2,
      drop_entries hget, fun q hq => (mem_mkEntries hq).1, ?_, hrun⟩, rfl⟩
    · rw [drop_entries hget, hsplit]
      simp
    · unfold Bad
      rw [hr1]
      exact hrb
    · intro q' hq'
      have := allEntries_ge _ _ _ hq'
      omega
  · rw [hr] at h
    cases h

theorem stop_of_absRange_err {x : Fail} (h : absRange fs cfg patches 0 [] = .error x) :
    ∃ k t, Stop fs cfg patches k t ∧ ∃ G1 q G2 t1 o1, allEntries (patches.drop k) k = G1 ++ q :: G2 ∧ q.idx = k ∧
      absRun fs cfg t G1 = .ok (t1, o1) ∧ applyFP t1 fs cfg q.entry q.fp = .error x := by
  obtain ⟨j, t', outs, hj, hpre, hok, hcase⟩ := absRange_decomp (fs := fs) (cfg := cfg) patches 0 []
  simp only [Nat.zero_add] at hcase
  rcases hcase with ⟨_, hr⟩ | ⟨e, fps, hget, ⟨t2, outs', _, _, hr⟩ | ⟨x', hrun, hr⟩⟩
  · rw [hr] at h; cases h
  · rw [hr] at h; cases h
  · rw [hr] at h
    cases h
    obtain ⟨G1, q, G2, t1, o1, hsplit, hrun1, herr⟩ := absRun_err_split _ _ _ hrun
    have hq : q ∈ mkEntries j e fps := by rw [hsplit]; simp
    have hsp : allEntries (patches.drop j) j = G1 ++ q :: (G2 ++ allEntries (patches.drop (j + 1)) (j + 1)) := by
      rw [drop_entries hget, hsplit]
      simp
    refine ⟨j, t', ⟨hj, ⟨outs, hpre, hok⟩, .inr ⟨G1, q, _, t1, o1, hsp, (mem_mkEntries hq).1, hrun1, ?_⟩⟩,
      G1, q, _, t1, o1, hsp, (mem_mkEntries hq).1, hrun1, herr⟩
    unfold Bad
    rw [herr]
    trivial


/-! ## The queues, split at the patch where the push stops -/

/-- worker `i`'s entries of the patches before `k` -/
def qX (patches : List (Series.Entry × List PFilePatch)) (threads k i : Nat) : List QEntry :=
  (allEntries (patches.take k) 0).filter (owns patches threads i)

/-- worker `i`'s entries of the patches from `k` on -/
def qR (patches : List (Series.Entry × List PFilePatch)) (threads k i : Nat) : List QEntry :=
  (allEntries (patches.drop k) k).filter (owns patches threads i)

theorem entries_split (k : Nat) :
    allEntries patches 0 = allEntries (patches.take k) 0 ++ allEntries (patches.drop k) k := by
  have := allEntries_split patches 0 k
  rwa [Nat.zero_add] at this

theorem queue_split (k i : Nat) : queuesOf patches threads i = qX patches threads k i ++ qR patches threads k i := by
  rw [queuesOf_eq, entries_split (patches := patches) k, List.filter_append]
  rfl

theorem mem_take_entries {k : Nat} {q : QEntry} (h : q ∈ allEntries (patches.take k) 0) :
    q ∈ allEntries patches 0 ∧ q.idx < k := by
  refine ⟨by rw [entries_split (patches := patches) k]; exact List.mem_append_left _ h, ?_⟩
  have := allEntries_lt _ _ _ h
  have := List.length_take_le k patches
  omega

theorem mem_drop_entries {k : Nat} {q : QEntry} (h : q ∈ allEntries (patches.drop k) k) :
    q ∈ allEntries patches 0 ∧ k ≤ q.idx :=
  ⟨by rw [entries_split (patches := patches) k]; exact List.mem_append_right _ h, allEntries_ge _ _ _ h⟩

theorem split_at {α : Type} {l : List α} {n : Nat} {a : α} (h : l[n]? = some a) :
    l = l.take n ++ a :: l.drop (n + 1) := by
  obtain ⟨hlt, hget⟩ := List.getElem?_eq_some_iff.mp h
  rw [← hget, ← List.drop_eq_getElem_cons hlt, List.take_append_drop]

/-- one position of an abstract run without error: what the worker's step reports -/
theorem runW_sim_step {A : List Comp → Prop} (L1 : List QEntry) (q : QEntry) (L2 : List QEntry) (s : WSt)
    (u u' : ATree) (outs : List Out)
    (herr : s.err = none) (hinv : MInv fs A s.st.mem) (hs : SameTree fs (ofMem s.st.mem) u)
    (hL : ∀ q' ∈ L1 ++ q :: L2, QWF q' ∧ ∀ c ∈ fpNames q'.fp, A c)
    (h : absRun fs cfg u (L1 ++ q :: L2) = .ok (u', outs)) :
    ∃ o ∈ outs, (apW fs cfg (runW fs cfg s L1) q).2 = !o.ok := by
  rw [absRun_append] at h
  cases h1 : absRun fs cfg u L1 with
  | error x => rw [h1] at h; cases h
  | ok r1 =>
    obtain ⟨u1, o1⟩ := r1
    rw [h1] at h
    simp only at h
    cases h2 : absRun fs cfg u1 (q :: L2) with
    | error x => rw [h2] at h; cases h
    | ok r2 =>
      obtain ⟨u2, o2⟩ := r2
      rw [h2] at h
      cases h
      obtain ⟨r, outs0, hr, _, rfl⟩ := absRun_cons_ok h2
      obtain ⟨e1, e2, e3, _⟩ := runW_sim L1 s u u1 o1 herr hinv hs
        (fun q' hq' => hL q' (List.mem_append_left _ hq')) h1
      obtain ⟨hq, hqA⟩ := hL q (by simp)
      obtain ⟨st', hap, _⟩ := apW_of_abs_ok e1 e3 e2 hq hqA hr
      exact ⟨⟨q, r.ok, r.rej⟩, by simp, by rw [hap]⟩

/-- worker `i` on its entries of the patches before the one where the push stops -/
theorem worker_prefix (hP : Parsed patches) (ht : 0 < threads) {k : Nat} {t : ATree}
    (hstop : Stop fs cfg patches k t) (i : Nat) :
    (runW fs cfg { st := {} } (qX patches threads k i)).err = none ∧
    MInv fs (namesOf patches threads i) (runW fs cfg { st := {} } (qX patches threads k i)).st.mem ∧
    ∃ uX outsX, SameTree fs (ofMem (runW fs cfg { st := {} } (qX patches threads k i)).st.mem) uX ∧
      (∀ n, namesOf patches threads i (components n) → look uX fs n = look t fs n) ∧
      (∀ n, ¬ namesOf patches threads i (components n) → look uX fs n = look [] fs n) ∧
      absRun fs cfg [] (qX patches threads k i) = .ok (uX, outsX) ∧ (∀ o ∈ outsX, o.ok = true) ∧
      (∀ x ∈ (runW fs cfg { st := {} } (qX patches threads k i)).st.applied, x.index < k) ∧
      Chain fs [] (runW fs cfg { st := {} } (qX patches threads k i)).st.applied
        (runW fs cfg { st := {} } (qX patches threads k i)).st.mem := by
  obtain ⟨outs, hrun, hok⟩ := hstop.pre
  obtain ⟨e1, e2, uX, e3, e4, e5, e6, Ls, e7, e8, e9, _⟩ :=
    worker_run (fs := fs) (cfg := cfg) hP ht i (allEntries (patches.take k) 0) [] t outs { st := {} } []
      (fun q hq => (mem_take_entries hq).1) hrun rfl (mInv_nil fs _) (SameTree.refl fs _) (fun _ _ => rfl)
  have happ : (runW fs cfg { st := {} } (qX patches threads k i)).st.applied = Ls := by
    rw [show qX patches threads k i = (allEntries (patches.take k) 0).filter (owns patches threads i) from rfl, e7]
    simp
  refine ⟨e1, e2, uX, _, e3, e4, e5, e6, fun o ho => hok o (List.mem_filter.mp ho).1, ?_, ?_⟩
  · rw [happ]
    intro x hx
    obtain ⟨q, hq, e⟩ := e8 x hx
    rw [e]
    exact (mem_take_entries hq).2
  · rw [happ]
    exact e9

theorem qX_wf (hP : Parsed patches) {k i : Nat} :
    ∀ q ∈ qX patches threads k i, QWF q ∧ ∀ c ∈ fpNames q.fp, namesOf patches threads i c := by
  intro q hq
  obtain ⟨hqG, hp⟩ := List.mem_filter.mp hq
  have hqe := (mem_take_entries hqG).1
  exact ⟨(parsed_entry hP 0 q hqe).1, owns_in hqe hp⟩

theorem qR_wf (hP : Parsed patches) {k i : Nat} :
    ∀ q ∈ qR patches threads k i, QWF q ∧ ∀ c ∈ fpNames q.fp, namesOf patches threads i c := by
  intro q hq
  obtain ⟨hqG, hp⟩ := List.mem_filter.mp hq
  have hqe := (mem_drop_entries hqG).1
  exact ⟨(parsed_entry hP 0 q hqe).1, owns_in hqe hp⟩

/-! ## The apply phase, every schedule -/

theorem doneB_iff {σ : Type} (q : Nat → List Entry) (x : W σ) (w : Nat) : doneB q x w = true ↔ done q x w := by
  unfold doneB done
  simp

theorem step_ws_empty {σ : Type} (ap : σ → Entry → σ × Bool) (q : Nat → List Entry) (w : Nat) (hq : q w = [])
    (v : Nat) (s : S σ) : (step ap q v s).ws w = s.ws w := by
  unfold step
  dsimp only
  by_cases hv : w = v
  · subst hv
    simp only [hq, List.getElem?_nil]
    split <;> rfl
  · split
    · rfl
    · split
      · rfl
      · simp only [upd_other _ _ _ _ hv]
    · split
      · rfl
      · split <;> simp only [upd_other _ _ _ _ hv]

theorem run_ws_empty {σ : Type} (ap : σ → Entry → σ × Bool) (q : Nat → List Entry) (w : Nat) (hq : q w = []) :
    ∀ (sched : List Nat) (s : S σ), (run ap q sched s).ws w = s.ws w := by
  intro sched
  induction sched with
  | nil => intro s; rfl
  | cons v vs ih =>
    intro s
    rw [run, ih, step_ws_empty ap q w hq]

/-- **Apply phase.**  If the push stops at `k` (sequentially), then under every schedule under which all
workers get done the shared index ends as `k`, and every worker has applied a prefix of its queue that
contains all its entries of the patches `≤ k`. -/
theorem applyPhase_final (hP : Parsed patches) (ht : 0 < threads) {k : Nat} {t : ATree}
    (hstop : Stop fs cfg patches k t) (schedA : List Nat) (a : ApplyOut)
    (ha : applyPhase fs cfg patches threads schedA = some a) :
    a.final = k ∧ ∀ i, ∃ pos, a.ws i = runW fs cfg { st := {} } ((queuesOf patches threads i).take pos) ∧
      ∀ n q, (queuesOf patches threads i)[n]? = some q → q.idx ≤ k → n < pos := by
  unfold applyPhase at ha
  simp only at ha
  split at ha
  · rename_i hall
    cases ha
    simp only
    have hdone : ∀ w, done (fun i => toEntries (queuesOf patches threads i))
        ((applyRun fs cfg patches threads schedA).ws w) w := by
      intro w
      rcases Nat.lt_or_ge w threads with hw | hw
      · rw [List.all_eq_true] at hall
        exact (doneB_iff _ _ _).mp (hall w (List.mem_range.mpr hw))
      · have hq : toEntries (queuesOf patches threads w) = [] := by
          rw [queue_empty hP ht hw]
          rfl
        unfold applyRun
        rw [run_ws_empty _ (fun i => toEntries (queuesOf patches threads i)) w hq]
        refine Or.inr ⟨rfl, ?_⟩
        show (toEntries (queuesOf patches threads w)).length ≤ 0
        rw [hq]
        exact Nat.le_refl 0
    have hsorted : ∀ w, Sorted (toEntries (queuesOf patches threads w)) :=
      fun w => sorted_of_pairwise _ ((allEntries_pairwise patches 0).filter _)
    -- a failing position has a patch index `≥ k`
    have hF : ∀ w n e, (toEntries (queuesOf patches threads w))[n]? = some e →
        fails (apSched fs cfg (queuesOf patches threads)) (w, { st := {} }) (toEntries (queuesOf patches threads w)) n = true →
        k ≤ e.idx := by
      intro w n e he hfl
      rw [toEntries_getElem?] at he
      rw [fails_apSched] at hfl
      cases hq : (queuesOf patches threads w)[n]? with
      | none => rw [hq] at he; cases he
      | some qe =>
        rw [hq] at he hfl
        simp only [Option.map_some, Option.some.injEq] at he
        subst he
        simp only at hfl ⊢
        apply Classical.byContradiction
        intro hlt
        have hlt : qe.idx < k := by omega
        rw [queue_split k w] at hq hfl
        have hn : n < (qX patches threads k w).length := by
          apply Classical.byContradiction
          intro hge
          rw [List.getElem?_append_right (by omega)] at hq
          have hmem := List.mem_of_getElem? hq
          have := (mem_drop_entries (List.mem_filter.mp hmem).1).2
          omega
        rw [List.getElem?_append_left hn] at hq
        rw [List.take_append_of_le_length (by omega)] at hfl
        obtain ⟨e1, e2, uX, outsX, e3, _, _, e6, e7, _⟩ := worker_prefix (fs := fs) (cfg := cfg) hP ht hstop w
        have hsp := split_at hq
        rw [hsp] at e6
        obtain ⟨o, ho, hstep⟩ := runW_sim_step (fs := fs) (cfg := cfg) _ qe _ { st := {} } [] uX outsX rfl
          (mInv_nil fs _) (SameTree.refl fs _) (by rw [← hsp]; exact qX_wf hP) e6
        rw [hstep, e7 o ho] at hfl
        cases hfl
    have hFwit : k = patches.length ∨ ∃ w n e, (toEntries (queuesOf patches threads w))[n]? = some e ∧
        fails (apSched fs cfg (queuesOf patches threads)) (w, { st := {} }) (toEntries (queuesOf patches threads w)) n = true ∧
        e.idx = k := by
      rcases hstop.wit with hk | ⟨G1, q, G2, t1, o1, hsplit, hidx, hrun1, hbad⟩
      · exact .inl hk
      · right
        have hqR : q ∈ allEntries (patches.drop k) k := by rw [hsplit]; simp
        have hqe := (mem_drop_entries hqR).1
        obtain ⟨w, _, hw⟩ := owner_exists hP ht q hqe
        have hown : owns patches threads w q = true := by simp [owns, hw]
        have hR : qR patches threads k w =
            G1.filter (owns patches threads w) ++ q :: G2.filter (owns patches threads w) := by
          unfold qR
          rw [hsplit, List.filter_append, List.filter_cons, hown]
          rfl
        have hqueue : queuesOf patches threads w =
            (qX patches threads k w ++ G1.filter (owns patches threads w)) ++
              q :: G2.filter (owns patches threads w) := by
          rw [queue_split k w, hR, List.append_assoc]
        refine ⟨w, (qX patches threads k w ++ G1.filter (owns patches threads w)).length,
          { idx := q.idx, tag := (qX patches threads k w ++ G1.filter (owns patches threads w)).length }, ?_, ?_, hidx⟩
        · rw [toEntries_getElem?, hqueue, List.getElem?_append_right (Nat.le_refl _)]
          simp
        · rw [fails_apSched, hqueue, List.getElem?_append_right (Nat.le_refl _)]
          simp only [Nat.sub_self, List.getElem?_cons_zero, List.take_left']
          rw [runW_append]
          obtain ⟨e1, e2, uX, outsX, e3, e4, _, _, _, _, _⟩ :=
            worker_prefix (fs := fs) (cfg := cfg) hP ht hstop w
          obtain ⟨f1, f2, u1, f3, f4, _, _, _⟩ := worker_run (fs := fs) (cfg := cfg) hP ht w G1 t t1 o1 _ uX
            (fun q' hq' => (mem_drop_entries (by rw [hsplit]; exact List.mem_append_left _ hq')).1)
            hrun1 e1 e2 e3 e4
          have hnames := owns_in hqe hown
          exact apW_bad f1 f2 f3 (parsed_entry hP 0 q hqe).1 hnames
            (bad_local (fun n hn => f4 n (hnames _ hn)) hbad)
    obtain ⟨hE, hW⟩ := apply_phase_complete (apSched fs cfg (queuesOf patches threads))
      (fun w => toEntries (queuesOf patches threads w)) (fun w => (w, { st := {} })) patches.length k
      hsorted hF hFwit hstop.le schedA hdone
    refine ⟨hE, fun i => ⟨((applyRun fs cfg patches threads schedA).ws i).pos, ?_, ?_⟩⟩
    · have := (hW i).1
      unfold applyRun
      rw [this, pre_apSched]
    · intro n q hq hle
      apply (hW i).2 n { idx := q.idx, tag := n }
      · rw [toEntries_getElem?, hq]; rfl
      · exact hle
  · cases ha


/-! ## After the apply phase -/

/-- `rollbackAhead`, then (in a real run) `rollbackAndRenderRej`: the worker's `Status`es are `LZ` (patches
behind `k`), `LY` (patch `k`), `LX` (before `k`), newest first, and can be undone -/
theorem finishWorker_ok {A : List Comp → Prop} (k : Nat) (ws : WSt) (mX mY : Mem) (LX LY LZ : List Status)
    (happ : ws.st.applied = LZ ++ (LY ++ LX))
    (hX : ∀ x ∈ LX, x.index < k) (hY : ∀ x ∈ LY, x.index = k) (hZ : ∀ x ∈ LZ, k < x.index)
    (cY : Chain fs mX LY mY) (cZ : Chain fs mY LZ ws.st.mem)
    (hgood : Disk.MemGood ws.st.mem) (hok : MemOK fs ws.st.mem) (hin : MemIn A ws.st.mem) :
    ∃ st rejs, finishWorker cfg k ws = .ok (st, rejs) ∧ Disk.MemGood st.mem ∧ MemOK fs st.mem ∧ MemIn A st.mem ∧
      (cfg.dryRun = false → st.applied = LX ∧ Ext fs mX st.mem ∧ rejs = rejsOf LY) := by
  have hhead : ∀ x, (LY ++ LX).head? = some x → x.index ≤ k := by
    intro x hx
    have hm : x ∈ LY ++ LX := List.mem_of_mem_head? hx
    rcases List.mem_append.mp hm with h | h
    · exact Nat.le_of_eq (hY x h)
    · exact Nat.le_of_lt (hX x h)
  obtain ⟨M1, hu1, hext1⟩ := cZ.undoable ws.st.mem (Ext.refl _ _)
  obtain ⟨g1, o1, i1⟩ := undoAll_inv (fs := fs) LZ _ _ hgood hok hin hu1
  unfold finishWorker rollbackAhead
  rw [happ, rollbackAheadL_eq k LZ (LY ++ LX) _ hZ hhead, hu1]
  simp only
  cases hdry : cfg.dryRun with
  | true =>
    simp only [if_true]
    exact ⟨_, _, rfl, g1, o1, i1, fun h => by cases h⟩
  | false =>
    simp only [Bool.false_eq_true, if_false]
    obtain ⟨M2, hu2, hext2⟩ := cY.undoable M1 hext1
    obtain ⟨g2, o2, i2⟩ := undoAll_inv (fs := fs) LY _ _ g1 o1 i1 hu2
    rw [rollback_eq k LX hX LY _ M1 [] (by simp only [List.length_append]; omega) hY, hu2]
    exact ⟨_, _, rfl, g2, o2, i2, fun _ => ⟨rfl, hext2, by simp⟩⟩

theorem take_append_ge {α : Type} (A B : List α) (n : Nat) (h : A.length ≤ n) :
    (A ++ B).take n = A ++ B.take (n - A.length) := by
  rw [List.take_append, List.take_of_length_le h]

/-- the state of worker `i` after the apply phase when patch `k` runs without error -/
theorem worker_clean (hP : Parsed patches) (ht : 0 < threads) {k : Nat} {t : ATree} {outsK : List Out}
    (hc : Clean fs cfg patches k t outsK) (schedA : List Nat) (a : ApplyOut)
    (ha : applyPhase fs cfg patches threads schedA = some a) (i : Nat) :
    ∃ (mX mY : Mem) (LX LY LZ : List Status),
      (a.ws i).st.applied = LZ ++ (LY ++ LX) ∧
      (∀ x ∈ LX, x.index < k) ∧ (∀ x ∈ LY, x.index = k) ∧ (∀ x ∈ LZ, k < x.index) ∧
      Chain fs mX LY mY ∧ Chain fs mY LZ (a.ws i).st.mem ∧
      MInv fs (namesOf patches threads i) (a.ws i).st.mem ∧
      (∀ n, namesOf patches threads i (components n) → look (ofMem mX) fs n = look t fs n) ∧
      rejsOf LY = outRejs (outsK.filter (fun o => owns patches threads i o.q)) ∧
      (∀ j x, (a.ws i).err = some (j, x) → k < j) := by
  obtain ⟨_, hW⟩ := applyPhase_final hP ht hc.stop schedA a ha
  obtain ⟨pos, hws, hcov⟩ := hW i
  obtain ⟨Gk, Gz, t', hsplit, hGk, hGz, hrunK⟩ := hc.run
  obtain ⟨e1, e2, uX, outsX, e3, e4, _, _, _, e8, e9⟩ := worker_prefix (fs := fs) (cfg := cfg) hP ht hc.stop i
  have hGkmem : ∀ q ∈ Gk, q ∈ allEntries patches 0 :=
    fun q hq => (mem_drop_entries (by rw [hsplit]; exact List.mem_append_left _ hq)).1
  obtain ⟨f1, f2, uY, _, _, _, _, LY, f7, f8, f9, f10⟩ :=
    worker_run (fs := fs) (cfg := cfg) hP ht i Gk t t' outsK _ uX hGkmem hrunK e1 e2 e3 e4
  -- the queue
  have hR : qR patches threads k i = Gk.filter (owns patches threads i) ++ Gz.filter (owns patches threads i) := by
    unfold qR; rw [hsplit, List.filter_append]
  have hqueue : queuesOf patches threads i =
      (qX patches threads k i ++ Gk.filter (owns patches threads i)) ++ Gz.filter (owns patches threads i) := by
    rw [queue_split k i, hR, List.append_assoc]
  have hpos : (qX patches threads k i ++ Gk.filter (owns patches threads i)).length ≤ pos := by
    apply Classical.byContradiction
    intro hlt
    have hlt : pos < (qX patches threads k i ++ Gk.filter (owns patches threads i)).length := by omega
    have hget : (queuesOf patches threads i)[pos]? =
        some ((qX patches threads k i ++ Gk.filter (owns patches threads i))[pos]) := by
      rw [hqueue, List.getElem?_append_left hlt, List.getElem?_eq_getElem hlt]
    have hmem : (qX patches threads k i ++ Gk.filter (owns patches threads i))[pos] ∈
        qX patches threads k i ++ Gk.filter (owns patches threads i) := List.getElem_mem hlt
    have hle : ((qX patches threads k i ++ Gk.filter (owns patches threads i))[pos]).idx ≤ k := by
      rcases List.mem_append.mp hmem with h | h
      · exact Nat.le_of_lt (mem_take_entries (List.mem_filter.mp h).1).2
      · exact Nat.le_of_eq (hGk _ (List.mem_filter.mp h).1)
    have := hcov pos _ hget hle
    omega
  rw [hqueue, take_append_ge _ _ _ hpos, runW_append, runW_append] at hws
  -- running ahead
  have hZwf : ∀ q ∈ (Gz.filter (owns patches threads i)).take
      (pos - (qX patches threads k i ++ Gk.filter (owns patches threads i)).length),
      QWF q ∧ ∀ c ∈ fpNames q.fp, namesOf patches threads i c := by
    intro q hq
    apply qR_wf (k := k) hP
    rw [hR]
    exact List.mem_append_right _ (List.mem_of_mem_take hq)
  obtain ⟨g1, LZ, g2, g3, g4⟩ := runW_chain (fs := fs) (cfg := cfg) _ _ f1 f2 hZwf
  have hZidx : ∀ q ∈ (Gz.filter (owns patches threads i)).take
      (pos - (qX patches threads k i ++ Gk.filter (owns patches threads i)).length), k < q.idx :=
    fun q hq => hGz q (List.mem_filter.mp (List.mem_of_mem_take hq)).1
  refine ⟨_, _, _, LY, LZ, ?_, e8, ?_, ?_, f9, ?_, ?_, ?_, f10, ?_⟩
  · rw [hws, g2, f7]
  · intro x hx
    obtain ⟨q, hq, e⟩ := f8 x hx
    rw [e]; exact hGk q hq
  · intro x hx
    obtain ⟨q, hq, e⟩ := g3 x hx
    rw [e]; exact hZidx q hq
  · rw [hws]; exact g4
  · rw [hws]; exact g1
  · intro n hn
    rw [e3 n]
    exact e4 n hn
  · intro j x hj
    rw [hws] at hj
    obtain ⟨q, hq, e⟩ := runW_err _ _ j x f1 hj
    rw [← e]; exact hZidx q hq

/-- what the in-memory part of the parallel push has produced, in terms of the sequential specification
(`t`: the tree after the first `k` patches, `outsK`: the outcomes of the file patches of patch `k`) -/
structure ParMem (fs : FS) (cfg : Cfg) (patches : List (Series.Entry × List PFilePatch)) (threads : Nat)
    (k : Nat) (t : ATree) (outsK : List Out) (pr : ParResult) : Prop where
  final : pr.final = k
  good : ∀ i, Disk.MemGood (pr.sts i).mem
  ok : ∀ i, MemOK fs (pr.sts i).mem
  inNames : ∀ i, MemIn (namesOf patches threads i) (pr.sts i).mem
  /-- (2b) every worker's cache shows the files of `t` under the worker's names -/
  look : cfg.dryRun = false → ∀ i n, namesOf patches threads i (components n) →
    Abs.look (ofMem (pr.sts i).mem) fs n = Abs.look t fs n
  /-- (2c) every worker renders the rejects of its own file patches of patch `k`, in their order -/
  rejs : cfg.dryRun = false → ∀ i, i < threads →
    pr.rejs i = outRejs (outsK.filter (fun o => owns patches threads i o.q))

/-- **Stage 2, no error.**  If sequentially the push stops at `k` without error, then under every
schedule of the apply phase (under which all workers get done) the in-memory part of the parallel push
succeeds: no worker's error counts, no rollback fails, it stops at `k`, and the workers' caches and reject
files are those of the specification. -/
theorem parMemory_clean (hP : Parsed patches) (ht : 0 < threads) {k : Nat} {t : ATree} {outsK : List Out}
    (hc : Clean fs cfg patches k t outsK) (schedA : List Nat) (r : Except Fail ParResult)
    (hr : parMemory fs cfg patches threads schedA = some r) :
    ∃ pr, r = .ok pr ∧ ParMem fs cfg patches threads k t outsK pr := by
  unfold parMemory at hr
  cases ha : applyPhase fs cfg patches threads schedA with
  | none => rw [ha] at hr; cases hr
  | some a =>
    rw [ha] at hr
    simp only at hr
    obtain ⟨hfinal, _⟩ := applyPhase_final hP ht hc.stop schedA a ha
    have hW := worker_clean hP ht hc schedA a ha
    have hcount : countingError threads a.final a.ws = none := by
      unfold countingError
      rw [List.findSome?_eq_none_iff]
      intro i _
      obtain ⟨_, _, _, _, _, _, _, _, _, _, _, _, _, _, herr⟩ := hW i
      cases he : (a.ws i).err with
      | none => simp [errorCounts, he]
      | some p =>
        have := herr p.1 p.2 he
        have hnot : ¬ p.1 ≤ a.final := by omega
        simp [errorCounts, he, hnot]
    rw [hcount] at hr
    simp only at hr
    have hfin : ∀ i, ∃ st rejs, finishWorker cfg a.final (a.ws i) = .ok (st, rejs) ∧ Disk.MemGood st.mem ∧
        MemOK fs st.mem ∧ MemIn (namesOf patches threads i) st.mem ∧
        (cfg.dryRun = false → (∀ n, namesOf patches threads i (components n) →
            Abs.look (ofMem st.mem) fs n = Abs.look t fs n) ∧
          rejs = outRejs (outsK.filter (fun o => owns patches threads i o.q))) := by
      intro i
      obtain ⟨mX, mY, LX, LY, LZ, happ, hX, hY, hZ, cY, cZ, hinv, hlook, hrej, _⟩ := hW i
      rw [hfinal]
      obtain ⟨st, rejs, hf, g1, g2, g3, g4⟩ := finishWorker_ok (fs := fs) (cfg := cfg) k (a.ws i) mX mY LX LY LZ
        happ hX hY hZ cY cZ hinv.good hinv.ok hinv.inA
      refine ⟨st, rejs, hf, g1, g2, g3, fun hdry => ?_⟩
      obtain ⟨_, hext, hrj⟩ := g4 hdry
      refine ⟨fun n hn => ?_, by rw [hrj, hrej]⟩
      rw [(Ext.sameTree hext) n]
      exact hlook n hn
    have hff : firstFail threads (fun i => finishWorker cfg a.final (a.ws i)) = none := by
      unfold firstFail
      rw [List.findSome?_eq_none_iff]
      intro i _
      obtain ⟨st, rejs, hf, _⟩ := hfin i
      simp only [hf]
    rw [hff] at hr
    simp only [Option.some.injEq] at hr
    subst hr
    refine ⟨_, rfl, ⟨hfinal, ?_, ?_, ?_, ?_, ?_⟩⟩
    · intro i
      obtain ⟨st, rejs, hf, g1, _⟩ := hfin i
      simp only [hf]; exact g1
    · intro i
      obtain ⟨st, rejs, hf, _, g2, _⟩ := hfin i
      simp only [hf]; exact g2
    · intro i
      obtain ⟨st, rejs, hf, _, _, g3, _⟩ := hfin i
      simp only [hf]; exact g3
    · intro hdry i n hn
      obtain ⟨st, rejs, hf, _, _, _, g4⟩ := hfin i
      simp only [hf]; exact (g4 hdry).1 n hn
    · intro hdry i _
      obtain ⟨st, rejs, hf, _, _, _, g4⟩ := hfin i
      simp only [hf]; exact (g4 hdry).2

theorem applyFP_err_local {t u : ATree} {q : QEntry} {x : Fail}
    (h : ∀ n, components n ∈ fpNames q.fp → Abs.look u fs n = Abs.look t fs n)
    (he : applyFP t fs cfg q.entry q.fp = .error x) : applyFP u fs cfg q.entry q.fp = .error x := by
  have hloc := applyFP_local u t fs cfg q.entry q.fp h
  rw [he] at hloc
  cases hu : applyFP u fs cfg q.entry q.fp with
  | error y => rw [hu] at hloc; simp only at hloc; rw [hloc]
  | ok r => rw [hu] at hloc; exact hloc.elim

/-- **Stage 2, error.**  If sequentially the push runs into an error (in patch `k`), then under every
schedule the worker of the erroring file patch terminates with that error in patch `k` — the patch the
parallel push stops at — so an error counts and the parallel push returns an error. -/
theorem parMemory_err (hP : Parsed patches) (ht : 0 < threads) {k : Nat} {t : ATree}
    (hstop : Stop fs cfg patches k t) {x : Fail}
    (hwit : ∃ G1 q G2 t1 o1, allEntries (patches.drop k) k = G1 ++ q :: G2 ∧ q.idx = k ∧
      absRun fs cfg t G1 = .ok (t1, o1) ∧ applyFP t1 fs cfg q.entry q.fp = .error x)
    (schedA : List Nat) (r : Except Fail ParResult)
    (hr : parMemory fs cfg patches threads schedA = some r) : ∃ x', r = .error x' := by
  unfold parMemory at hr
  cases ha : applyPhase fs cfg patches threads schedA with
  | none => rw [ha] at hr; cases hr
  | some a =>
    rw [ha] at hr
    simp only at hr
    obtain ⟨hfinal, hW⟩ := applyPhase_final hP ht hstop schedA a ha
    obtain ⟨G1, q, G2, t1, o1, hsplit, hidx, hrun1, herr⟩ := hwit
    have hqR : q ∈ allEntries (patches.drop k) k := by rw [hsplit]; simp
    have hqe := (mem_drop_entries hqR).1
    obtain ⟨w, hwlt, hw⟩ := owner_exists hP ht q hqe
    have hown : owns patches threads w q = true := by simp [owns, hw]
    have hR : qR patches threads k w =
        G1.filter (owns patches threads w) ++ q :: G2.filter (owns patches threads w) := by
      unfold qR
      rw [hsplit, List.filter_append, List.filter_cons, hown]
      rfl
    have hqueue : queuesOf patches threads w =
        (qX patches threads k w ++ G1.filter (owns patches threads w)) ++
          q :: G2.filter (owns patches threads w) := by
      rw [queue_split k w, hR, List.append_assoc]
    obtain ⟨pos, hws, hcov⟩ := hW w
    have hpos : (qX patches threads k w ++ G1.filter (owns patches threads w)).length < pos := by
      apply hcov _ q
      · rw [hqueue, List.getElem?_append_right (Nat.le_refl _)]; simp
      · omega
    have herrw : (a.ws w).err = some (k, x) := by
      rw [hws, hqueue, take_append_ge _ _ _ (Nat.le_of_lt hpos), runW_append]
      obtain ⟨m, hm⟩ : ∃ m, pos - (qX patches threads k w ++ G1.filter (owns patches threads w)).length = m + 1 :=
        ⟨pos - (qX patches threads k w ++ G1.filter (owns patches threads w)).length - 1, by omega⟩
      rw [hm, List.take_succ_cons, runW_cons, runW_append]
      obtain ⟨e1, e2, uX, outsX, e3, e4, _⟩ := worker_prefix (fs := fs) (cfg := cfg) hP ht hstop w
      obtain ⟨f1, f2, u1, f3, f4, _⟩ := worker_run (fs := fs) (cfg := cfg) hP ht w G1 t t1 o1 _ uX
        (fun q' hq' => (mem_drop_entries (by rw [hsplit]; exact List.mem_append_left _ hq')).1)
        hrun1 e1 e2 e3 e4
      have hnames := owns_in hqe hown
      have herr' := applyFP_err_local (fun n hn => f4 n (hnames _ hn)) herr
      rw [apW_of_abs_err f1 f2 f3 (parsed_entry hP 0 q hqe).1 herr']
      rw [runW_absorbing (p := (q.idx, x)) _ _ rfl, hidx]
    cases hcount : countingError threads a.final a.ws with
    | some e => rw [hcount] at hr; simp only [Option.some.injEq] at hr; exact ⟨e, hr.symm⟩
    | none =>
      unfold countingError at hcount
      rw [List.findSome?_eq_none_iff] at hcount
      have := hcount w (List.mem_range.mpr hwlt)
      simp [errorCounts, herrw, hfinal] at this


/-! ## Against `Abs.applyRange` and the sequential driver's `applyLoop` -/

theorem parsed_of_parseRange {range : List Series.Entry} (h : parseRange fs cfg range = some patches) :
    Parsed patches := parseRange_parsed range patches h

/-- **(2a)+(2b)+(2c), against the specification**: the specification stops at `k` with the tree `t` -/
theorem parMemory_applyRange_ok {range : List Series.Entry} (hparse : parseRange fs cfg range = some patches)
    (ht : 0 < threads) {t : ATree} {k : Nat} {rejs : List (Bytes × Bytes)}
    (h : applyRange fs cfg range 0 [] = .ok (t, k, rejs)) (schedA : List Nat) (r : Except Fail ParResult)
    (hr : parMemory fs cfg patches threads schedA = some r) :
    ∃ outsK pr, r = .ok pr ∧ ParMem fs cfg patches threads k t outsK pr ∧
      Clean fs cfg patches k t outsK ∧ rejs = if cfg.dryRun then [] else outRejs outsK := by
  rw [applyRange_eq_absRange range patches hparse] at h
  obtain ⟨outsK, hc, hrejs⟩ := clean_of_absRange h
  obtain ⟨pr, hpr, hpm⟩ := parMemory_clean (parsed_of_parseRange hparse) ht hc schedA r hr
  exact ⟨outsK, pr, hpr, hpm, hc, hrejs⟩

theorem parMemory_applyRange_err {range : List Series.Entry} (hparse : parseRange fs cfg range = some patches)
    (ht : 0 < threads) {x : Fail} (h : applyRange fs cfg range 0 [] = .error x) (schedA : List Nat)
    (r : Except Fail ParResult) (hr : parMemory fs cfg patches threads schedA = some r) :
    ∃ x', r = .error x' := by
  rw [applyRange_eq_absRange range patches hparse] at h
  obtain ⟨k, t, hstop, hwit⟩ := stop_of_absRange_err h
  exact parMemory_err (parsed_of_parseRange hparse) ht hstop hwit schedA r hr

/-- **(2a)** against the model of the sequential driver: if `applyLoop` stops at `k` without error, no
worker's error counts and the parallel push stops at `k` -/
theorem parMemory_applyLoop_ok {range : List Series.Entry} (hparse : parseRange fs cfg range = some patches)
    (ht : 0 < threads) {st : St} {k : Nat} {rejs : List (Bytes × Bytes)}
    (h : applyLoop fs cfg range 0 {} = .ok (st, k, rejs)) (schedA : List Nat) (r : Except Fail ParResult)
    (hr : parMemory fs cfg patches threads schedA = some r) :
    ∃ t outsK pr, r = .ok pr ∧ applyRange fs cfg range 0 [] = .ok (t, k, rejs) ∧
      ParMem fs cfg patches threads k t outsK pr ∧ Clean fs cfg patches k t outsK ∧
      rejs = if cfg.dryRun then [] else outRejs outsK := by
  have href := Disk.apply_refines fs cfg range
  rw [h] at href
  cases hspec : applyRange fs cfg range 0 [] with
  | error e => rw [hspec] at href; exact href.elim
  | ok x =>
    obtain ⟨t, k', rejs'⟩ := x
    rw [hspec] at href
    obtain ⟨hk, hrj, _⟩ := href
    subst hk hrj
    obtain ⟨outsK, pr, e1, e2, e3, e4⟩ := parMemory_applyRange_ok hparse ht hspec schedA r hr
    exact ⟨t, outsK, pr, e1, rfl, e2, e3, e4⟩

/-- if `applyLoop` returns an error, some worker's error counts: the parallel push returns an error -/
theorem parMemory_applyLoop_err {range : List Series.Entry} (hparse : parseRange fs cfg range = some patches)
    (ht : 0 < threads) {e : Fail} (h : applyLoop fs cfg range 0 {} = .error e) (schedA : List Nat)
    (r : Except Fail ParResult) (hr : parMemory fs cfg patches threads schedA = some r) :
    ∃ x', r = .error x' := by
  have href := Disk.apply_refines fs cfg range
  rw [h] at href
  cases hspec : applyRange fs cfg range 0 [] with
  | error x => exact parMemory_applyRange_err hparse ht hspec schedA r hr
  | ok x => rw [hspec] at href; exact href.elim

/-- an error of the parallel push (a worker's error that counts — a failing rollback is impossible) means
that `applyLoop` returns an error -/
theorem applyLoop_err_of_parMemory {range : List Series.Entry} (hparse : parseRange fs cfg range = some patches)
    (ht : 0 < threads) (schedA : List Nat) {x : Fail}
    (hr : parMemory fs cfg patches threads schedA = some (.error x)) :
    ∃ e, applyLoop fs cfg range 0 {} = .error e := by
  cases h : applyLoop fs cfg range 0 {} with
  | error e => exact ⟨e, rfl⟩
  | ok y =>
    obtain ⟨st, k, rejs⟩ := y
    obtain ⟨_, _, pr, e1, _⟩ := parMemory_applyLoop_ok hparse ht h schedA _ hr
    cases e1


/-! ## (2c) the workers' reject files together are the sequential ones, permuted -/

theorem flatMap_congr_mem {α β : Type} {f g : α → List β} : ∀ (l : List α), (∀ x ∈ l, f x = g x) →
    l.flatMap f = l.flatMap g := by
  intro l
  induction l with
  | nil => intro _; rfl
  | cons a l ih =>
    intro h
    simp only [List.flatMap_cons]
    rw [h a (List.mem_cons_self ..), ih (fun x hx => h x (List.mem_cons_of_mem _ hx))]

/-- appending `a` to the contribution of the one index `i0` permutes to appending it at the end -/
theorem perm_flatMap_insert {β : Type} (h : Nat → List β) (a : List β) (g : Nat → Bool) (i0 : Nat) :
    ∀ (is : List Nat), is.Nodup → i0 ∈ is → (∀ j ∈ is, g j = true ↔ j = i0) →
    (is.flatMap (fun i => if g i then h i ++ a else h i)).Perm (is.flatMap h ++ a) := by
  intro is
  induction is with
  | nil => intro _ hm _; cases hm
  | cons j js ih =>
    intro hnd hm hg
    rw [List.nodup_cons] at hnd
    obtain ⟨hj, hnd'⟩ := hnd
    simp only [List.flatMap_cons]
    by_cases hji : j = i0
    · have hgj : g j = true := (hg j (List.mem_cons_self ..)).mpr hji
      have hrest : js.flatMap (fun i => if g i then h i ++ a else h i) = js.flatMap h := by
        apply flatMap_congr_mem
        intro i hi
        have : g i = false := by
          cases hgi : g i with
          | false => rfl
          | true =>
            have := (hg i (List.mem_cons_of_mem _ hi)).mp hgi
            rw [this, ← hji] at hi
            exact absurd hi hj
        simp [this]
      rw [hrest]
      simp only [hgj, if_true, List.append_assoc]
      exact List.Perm.append_left _ List.perm_append_comm
    · have hgj : g j = false := by
        cases hgj : g j with
        | false => rfl
        | true => exact absurd ((hg j (List.mem_cons_self ..)).mp hgj) hji
      have hm' : i0 ∈ js := by
        rcases List.mem_cons.mp hm with h' | h'
        · exact absurd h'.symm hji
        · exact h'
      have := ih hnd' hm' (fun i hi => hg i (List.mem_cons_of_mem _ hi))
      simp only [hgj, Bool.false_eq_true, if_false, List.append_assoc]
      exact List.Perm.append_left _ this

/-- distributing outcomes to their owners and collecting the owners' reject lists in owner order gives a
permutation of the common reject list -/
theorem outRejs_perm (n : Nat) (f : Nat → QEntry → Bool) : ∀ (outs : List Out),
    (∀ o ∈ outs, ∃ i, i < n ∧ ∀ j, j < n → (f j o.q = true ↔ j = i)) →
    ((List.range n).flatMap (fun i => outRejs (outs.filter (fun o => f i o.q)))).Perm (outRejs outs) := by
  intro outs
  induction outs with
  | nil =>
    intro _
    have : (List.range n).flatMap (fun i => outRejs (([] : List Out).filter (fun o => f i o.q))) = [] := by
      rw [List.flatMap_eq_nil_iff]
      intro i _
      rfl
    rw [this]
    exact List.Perm.refl _
  | cons o os ih =>
    intro hown
    obtain ⟨i0, hi0, huniq⟩ := hown o (List.mem_cons_self ..)
    have ih' := ih (fun o' ho' => hown o' (List.mem_cons_of_mem _ ho'))
    have hstep : (List.range n).flatMap (fun i => outRejs ((o :: os).filter (fun o => f i o.q))) =
        (List.range n).flatMap (fun i => if f i o.q then outRejs (os.filter (fun o => f i o.q)) ++ o.rej.toList
          else outRejs (os.filter (fun o => f i o.q))) := by
      apply flatMap_congr_mem
      intro i _
      simp only [List.filter_cons]
      split <;> rfl
    rw [hstep]
    refine (perm_flatMap_insert (fun i => outRejs (os.filter (fun o => f i o.q))) o.rej.toList
      (fun i => f i o.q) i0 (List.range n) List.nodup_range (List.mem_range.mpr hi0)
      (fun j hj => huniq j (List.mem_range.mp hj))).trans ?_
    simp only [outRejs]
    exact List.Perm.append_right _ ih'

theorem outRejs_sublist (p : Out → Bool) : ∀ (outs : List Out), (outRejs (outs.filter p)).Sublist (outRejs outs) := by
  intro outs
  induction outs with
  | nil => exact List.Sublist.refl _
  | cons o os ih =>
    simp only [List.filter_cons]
    split
    · simp only [outRejs]
      exact List.Sublist.append ih (List.Sublist.refl _)
    · simp only [outRejs]
      exact ih.trans (List.sublist_append_left _ _)

theorem namesOf_iff_queue {i : Nat} {c : List Comp} :
    namesOf patches threads i c ↔ ∃ q ∈ queuesOf patches threads i, c ∈ fpNames q.fp := by
  rw [queuesOf_eq]
  constructor
  · rintro ⟨q, hq, hw, hc⟩
    exact ⟨q, List.mem_filter.mpr ⟨hq, by simp [owns, hw]⟩, hc⟩
  · rintro ⟨q, hq, hc⟩
    obtain ⟨hqe, hown⟩ := List.mem_filter.mp hq
    exact ⟨q, hqe, by simpa [owns] using hown, hc⟩

/-- **(2c)**: the reject files of all workers, collected in worker order, are a permutation of the reject
files of the sequential push; each worker's own list is in the sequential order (`ParMem.rejs`). -/
theorem rejs_perm (hP : Parsed patches) (ht : 0 < threads) {k : Nat} {t : ATree} {outsK : List Out} {pr : ParResult}
    (hc : Clean fs cfg patches k t outsK) (hm : ParMem fs cfg patches threads k t outsK pr)
    (hdry : cfg.dryRun = false) :
    ((List.range threads).flatMap pr.rejs).Perm (outRejs outsK) := by
  obtain ⟨Gk, Gz, t', hsplit, _, _, hrun⟩ := hc.run
  have hq := absRun_outs_q _ _ _ _ hrun
  have hcongr : (List.range threads).flatMap pr.rejs =
      (List.range threads).flatMap (fun i => outRejs (outsK.filter (fun o => owns patches threads i o.q))) :=
    flatMap_congr_mem _ (fun i hi => hm.rejs hdry i (List.mem_range.mp hi))
  rw [hcongr]
  apply outRejs_perm threads (owns patches threads) outsK
  intro o ho
  have hoq : o.q ∈ allEntries patches 0 := by
    apply (mem_drop_entries (k := k) _).1
    rw [hsplit]
    apply List.mem_append_left
    rw [← hq]
    exact List.mem_map_of_mem ho
  obtain ⟨i, hi, hw⟩ := owner_exists hP ht o.q hoq
  refine ⟨i, hi, fun j _ => ?_⟩
  simp only [owns, hw, beq_iff_eq, Option.some.injEq]
  exact ⟨fun h => h.symm, fun h => h.symm⟩

end

end RQ.Par

#print axioms RQ.Par.applyPhase_final
#print axioms RQ.Par.parMemory_clean
#print axioms RQ.Par.parMemory_err
#print axioms RQ.Par.parMemory_applyLoop_ok
#print axioms RQ.Par.parMemory_applyLoop_err
#print axioms RQ.Par.applyLoop_err_of_parMemory
#print axioms RQ.Par.rejs_perm
