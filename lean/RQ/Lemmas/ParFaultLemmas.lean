import RQ.Model.ParFault
import RQ.Lemmas.Faults
import RQ.Lemmas.SaveFlush
/-!
# Fault injection in the parallel driver: lemmas for C18

* without a fault, `stepF` / `runF` / `savePhaseF` / `parApplyPatchesF` are the functions of
  `RQ/Model/ParPush.lean` (`parApplyPatchesF_none`);
* `Cmd.after`: the rest of a command after its operations had given results; `Cmd.Good P`: every operation
  of the command satisfies `P`, and after a `failed` result the command is `fail .err` at once — true of the
  workers' save code (`workerSaveC_good`); `Cmd.All P`: every operation satisfies `P`; `Cmd.noPanic`: the
  command has no `fail .panic` leaf;
* invariants of `runF` under EVERY schedule: every worker's history is a path of its command (`Valid`), and
  once the faulty operation has been executed some worker has a `failed` in its history (`Hit`);
* `Ext P w w'`: `w'` is `w` after some more operations satisfying `P`, with the same `faultAt`, and the
  regular file at a path none of these operations can touch (`Untouched`) is as it was — for single
  operations whatever their result (`op_ext`), the main thread's last steps, `save_applied_patches`;
* `savePhaseF_spec`: result `ok` ⇒ the faulty operation was not executed; if no worker's save code has a
  panic leaf, every error is `err`; `Ext`.  `parApplyPatchesF_spec`, `parPushRangeF_spec`, `parPushF_spec`:
  the same for the driver and the whole command.
-/
namespace RQ.ParSave
open RQ RQ.Push

/-! ## Without a fault -/

theorem stepF_none_ps (progs : Nat → Prog) (s : FState) (i : Nat) :
    (stepF none progs s i).ps = step progs s.ps i := by
  unfold stepF step
  cases progs i (s.ps.hist i) with
  | none => rfl
  | some o => rfl

theorem runF_none_ps (progs : Nat → Prog) (sched : List Nat) : ∀ s : FState,
    (runF none progs sched s).ps = run progs sched s.ps := by
  induction sched with
  | nil => intro s; rfl
  | cons i rest ih =>
    intro s
    show (runF none progs rest (stepF none progs s i)).ps = run progs rest (step progs s.ps i)
    rw [ih, stepF_none_ps]

theorem opTraceF_none (progs : Nat → Prog) (sched : List Nat) : ∀ s : FState,
    opTraceF none progs sched s = Par.opTrace progs sched s.ps := by
  induction sched with
  | nil => intro s; rfl
  | cons i rest ih =>
    intro s
    unfold opTraceF Par.opTrace
    cases progs i (s.ps.hist i) with
    | none => exact ih s
    | some o => simp only; rw [ih, stepF_none_ps]

theorem stepF_of_none {fault : Option Nat} {progs : Nat → Prog} {s : FState} {i : Nat}
    (hp : progs i (s.ps.hist i) = none) : stepF fault progs s i = s := by
  simp only [stepF, hp]

theorem stepF_cnt {fault : Option Nat} {progs : Nat → Prog} {s : FState} {i : Nat} {o : Op}
    (hp : progs i (s.ps.hist i) = some o) : (stepF fault progs s i).cnt = s.cnt + 1 := by
  simp only [stepF, hp]

theorem opTraceF_cons_none {fault : Option Nat} {progs : Nat → Prog} {s : FState} {i : Nat} {rest : List Nat}
    (hp : progs i (s.ps.hist i) = none) : opTraceF fault progs (i :: rest) s = opTraceF fault progs rest s := by
  rw [opTraceF]; simp only [hp]

theorem opTraceF_cons_some {fault : Option Nat} {progs : Nat → Prog} {s : FState} {i : Nat} {rest : List Nat}
    {o : Op} (hp : progs i (s.ps.hist i) = some o) :
    opTraceF fault progs (i :: rest) s = o :: opTraceF fault progs rest (stepF fault progs s i) := by
  rw [opTraceF]; simp only [hp]

/-- the counter counts the operations issued -/
theorem runF_cnt (fault : Option Nat) (progs : Nat → Prog) (sched : List Nat) : ∀ s : FState,
    (runF fault progs sched s).cnt = s.cnt + (opTraceF fault progs sched s).length := by
  induction sched with
  | nil => intro s; rfl
  | cons i rest ih =>
    intro s
    show (runF fault progs rest (stepF fault progs s i)).cnt = _
    rw [ih]
    cases hp : progs i (s.ps.hist i) with
    | none => rw [opTraceF_cons_none hp, stepF_of_none hp]
    | some o => rw [opTraceF_cons_some hp, stepF_cnt hp, List.length_cons]; omega

end RQ.ParSave

namespace RQ.Par
open RQ RQ.Push RQ.Parse RQ.ParSave

theorem savePhaseF_none (w : World) (hf : w.faultAt = none) (cfg : Cfg) (final rangeLen threads : Nat)
    (mems : Nat → Mem) (applieds : Nat → List Status) (schedS : List Nat) :
    savePhaseF w cfg final rangeLen threads mems applieds schedS =
      savePhase w cfg final rangeLen threads mems applieds schedS := by
  unfold savePhaseF savePhase
  rw [hf]
  simp only [runF_none_ps, opTraceF_none, initF]
  rfl

/-- **without a fault, `parApplyPatchesF` is `parApplyPatches`** -/
theorem parApplyPatchesF_none' (w : World) (cfg : Cfg) (range : List Series.Entry) (threads : Nat)
    (schedA schedS : List Nat) :
    parApplyPatchesF none w cfg range threads schedA schedS =
      parApplyPatches { w with faultAt := none } cfg range threads schedA schedS := by
  have h : ∀ (fs : FS) (tr : List Op) (final rangeLen : Nat) (mems : Nat → Mem) (applieds : Nat → List Status),
      savePhaseF ⟨fs, tr, none⟩ cfg final rangeLen threads mems applieds schedS =
        savePhase ⟨fs, tr, none⟩ cfg final rangeLen threads mems applieds schedS :=
    fun fs tr final rangeLen mems applieds => savePhaseF_none _ rfl ..
  unfold parApplyPatchesF parApplyPatches
  simp only [h]
  rfl

theorem parApplyPatchesF_none (w : World) (hf : w.faultAt = none) (cfg : Cfg) (range : List Series.Entry)
    (threads : Nat) (schedA schedS : List Nat) :
    parApplyPatchesF none w cfg range threads schedA schedS =
      parApplyPatches w cfg range threads schedA schedS := by
  rw [parApplyPatchesF_none']
  have : ({ w with faultAt := none } : World) = w := by cases w; simp only at hf; subst hf; rfl
  rw [this]

end RQ.Par

/-! ## Commands: the rest after some results, strictness on failures, panic leaves -/

namespace RQ.Push
open RQ RQ.Parse RQ.Write RQ.ParSave

namespace Cmd
variable {α β : Type}

/-- the rest of the command when its first operations had the results `h` (`none`: it does not issue
that many operations) -/
def after : Cmd α → List Res → Option (Cmd α)
  | c, [] => some c
  | .op _ k, r :: rs => after (k r) rs
  | .ret _, _ :: _ => none
  | .fail _, _ :: _ => none

/-- every operation of the command satisfies `P`, and when an operation has the result `failed` the
command is `fail .err` at once: the error is propagated (`?`), nothing else is tried, no panic -/
inductive Good (P : Op → Prop) : Cmd α → Prop
  | ret (a : α) : Good P (.ret a)
  | fail (e : Fail) : Good P (.fail e)
  | op (o : Op) (k : Res → Cmd α) : P o → k .failed = .fail .err → (∀ r, Good P (k r)) → Good P (.op o k)

/-- the command has no `fail .panic` leaf, whatever the results of its operations -/
def noPanic : Cmd α → Bool
  | .ret _ => true
  | .fail .err => true
  | .fail .panic => false
  | .op _ k => (k .ok).noPanic && (k .notFound).noPanic && (k .failed).noPanic

@[simp] theorem after_nil (c : Cmd α) : c.after [] = some c := by cases c <;> rfl

theorem after_cons {c c' : Cmd α} {r : Res} {rs : List Res} (h : c.after (r :: rs) = some c') :
    ∃ o k, c = .op o k ∧ (k r).after rs = some c' := by
  cases c with
  | ret a => cases h
  | fail e => cases h
  | op o k => exact ⟨o, k, rfl, h⟩

theorem after_snoc {o : Op} {k : Res → Cmd α} (r : Res) : ∀ {h : List Res} {c : Cmd α},
    c.after h = some (.op o k) → c.after (h ++ [r]) = some (k r) := by
  intro h
  induction h with
  | nil =>
    intro c hc
    rw [after_nil] at hc
    cases hc
    show (k r).after [] = some (k r)
    exact after_nil _
  | cons r' rs ih =>
    intro c hc
    obtain ⟨o', k', rfl, hc⟩ := after_cons hc
    exact ih hc

theorem progOf_after : ∀ {h : List Res} {c c' : Cmd α}, c.after h = some c' → progOf c h = progOf c' [] := by
  intro h
  induction h with
  | nil => intro c c' hc; rw [after_nil] at hc; cases hc; rfl
  | cons r rs ih =>
    intro c c' hc
    obtain ⟨o, k, rfl, hc⟩ := after_cons hc
    exact ih hc

theorem resultAt_after : ∀ {h : List Res} {c c' : Cmd α}, c.after h = some c' →
    c.resultAt h = c'.resultAt [] := by
  intro h
  induction h with
  | nil => intro c c' hc; rw [after_nil] at hc; cases hc; rfl
  | cons r rs ih =>
    intro c c' hc
    obtain ⟨o, k, rfl, hc⟩ := after_cons hc
    exact ih hc

/-- the next operation of the command as a worker is the head of its rest -/
theorem after_op {h : List Res} {c c' : Cmd α} {o : Op} (hc : c.after h = some c')
    (hp : progOf c h = some o) : ∃ k, c' = .op o k := by
  rw [progOf_after hc] at hp
  cases c' with
  | ret a => cases hp
  | fail e => cases hp
  | op o' k => cases hp; exact ⟨k, rfl⟩

/-- a finished worker has a result -/
theorem after_done {h : List Res} {c c' : Cmd α} (hc : c.after h = some c') (hp : progOf c h = none) :
    (∃ a, c' = .ret a ∧ c.resultAt h = some (.ok a)) ∨ (∃ e, c' = .fail e ∧ c.resultAt h = some (.error e)) := by
  rw [progOf_after hc] at hp
  rw [resultAt_after hc]
  cases c' with
  | ret a => exact .inl ⟨a, rfl, rfl⟩
  | fail e => exact .inr ⟨e, rfl, rfl⟩
  | op o' k => cases hp

theorem Good.bind {P : Op → Prop} {c : Cmd α} {f : α → Cmd β} (hc : c.Good P) (hf : ∀ a, (f a).Good P) :
    (c.bind f).Good P := by
  induction hc with
  | ret a => exact hf a
  | fail e => exact .fail e
  | op o k hP hbad _ ih =>
    refine .op o _ hP ?_ ih
    simp only [hbad, Cmd.bind]

theorem Good.mono {P Q : Op → Prop} {c : Cmd α} (h : ∀ o, P o → Q o) (hc : c.Good P) : c.Good Q := by
  induction hc with
  | ret a => exact .ret a
  | fail e => exact .fail e
  | op o k hP hbad _ ih => exact .op o k (h o hP) hbad ih

theorem Good.after {P : Op → Prop} : ∀ {h : List Res} {c c' : Cmd α}, c.Good P → c.after h = some c' →
    c'.Good P := by
  intro h
  induction h with
  | nil => intro c c' hg hc; rw [after_nil] at hc; cases hc; exact hg
  | cons r rs ih =>
    intro c c' hg hc
    obtain ⟨o, k, rfl, hc⟩ := after_cons hc
    cases hg with
    | op _ _ _ _ hk => exact ih (hk r) hc

/-- **after a failed operation a good command has failed with an ordinary error** -/
theorem Good.after_failed {P : Op → Prop} : ∀ {h : List Res} {c c' : Cmd α}, c.Good P →
    c.after h = some c' → Res.failed ∈ h → c' = .fail .err := by
  intro h
  induction h with
  | nil => intro c c' _ _ hm; cases hm
  | cons r rs ih =>
    intro c c' hg hc0 hm
    obtain ⟨o, k, rfl, hc1⟩ := after_cons hc0
    cases hg with
    | op _ _ _ hbad hk =>
      by_cases hr : r = .failed
      · subst hr
        rw [hbad] at hc1
        cases rs with
        | nil => rw [after_nil] at hc1; cases hc1; rfl
        | cons r2 rs2 => cases hc1
      · rcases List.mem_cons.mp hm with hm | hm
        · exact absurd hm.symm hr
        · exact ih (hk r) hc1 hm

/-- the first operation of a good command satisfies `P` -/
theorem Good.head {P : Op → Prop} {o : Op} {k : Res → Cmd α} (hg : (Cmd.op o k).Good P) : P o := by
  cases hg with
  | op _ _ hP _ _ => exact hP

/-- every operation of the command, on every path, satisfies `P` -/
inductive All (P : Op → Prop) : Cmd α → Prop
  | ret (a : α) : All P (.ret a)
  | fail (e : Fail) : All P (.fail e)
  | op (o : Op) (k : Res → Cmd α) : P o → (∀ r, All P (k r)) → All P (.op o k)

theorem Good.all {P : Op → Prop} {c : Cmd α} (hc : c.Good P) : c.All P := by
  induction hc with
  | ret a => exact .ret a
  | fail e => exact .fail e
  | op o k hP _ _ ih => exact .op o k hP ih

theorem All.mono {P Q : Op → Prop} {c : Cmd α} (h : ∀ o, P o → Q o) (hc : c.All P) : c.All Q := by
  induction hc with
  | ret a => exact .ret a
  | fail e => exact .fail e
  | op o k hP _ ih => exact .op o k (h o hP) ih

theorem All.and {P Q : Op → Prop} {c : Cmd α} (hp : c.All P) (hq : c.All Q) : c.All (fun o => P o ∧ Q o) := by
  induction hp with
  | ret a => exact .ret a
  | fail e => exact .fail e
  | op o k hP _ ih =>
    cases hq with
    | op _ _ hQ hk => exact .op o k ⟨hP, hQ⟩ (fun r => ih r (hk r))

theorem All.after {P : Op → Prop} : ∀ {h : List Res} {c c' : Cmd α}, c.All P → c.after h = some c' →
    c'.All P := by
  intro h
  induction h with
  | nil => intro c c' hg hc; rw [after_nil] at hc; cases hc; exact hg
  | cons r rs ih =>
    intro c c' hg hc
    obtain ⟨o, k, rfl, hc⟩ := after_cons hc
    cases hg with
    | op _ _ _ hk => exact ih (hk r) hc

theorem All.head {P : Op → Prop} {o : Op} {k : Res → Cmd α} (hg : (Cmd.op o k).All P) : P o := by
  cases hg with
  | op _ _ hP _ => exact hP

theorem Fp.all' {P : Op → Prop} {c : Cmd α} (hc : c.Fp P) : c.All P := by
  induction hc with
  | ret a => exact .ret a
  | fail e => exact .fail e
  | op o k hP _ _ ih => exact .op o k hP ih

theorem noPanic_after : ∀ {h : List Res} {c c' : Cmd α}, c.noPanic = true → c.after h = some c' →
    c'.noPanic = true := by
  intro h
  induction h with
  | nil => intro c c' hn hc; rw [after_nil] at hc; cases hc; exact hn
  | cons r rs ih =>
    intro c c' hn hc
    obtain ⟨o, k, rfl, hc⟩ := after_cons hc
    simp only [noPanic, Bool.and_eq_true] at hn
    cases r with
    | ok => exact ih hn.1.1 hc
    | notFound => exact ih hn.1.2 hc
    | failed => exact ih hn.2 hc

theorem noPanic_fail {e : Fail} (h : (Cmd.fail e : Cmd α).noPanic = true) : e = .err := by
  cases e with
  | err => rfl
  | panic => cases h

theorem noPanic_bind {c : Cmd α} {f : α → Cmd β} (hc : c.noPanic = true) (hf : ∀ a, (f a).noPanic = true) :
    (c.bind f).noPanic = true := by
  induction c with
  | ret a => exact hf a
  | fail e => cases e with
    | err => rfl
    | panic => cases hc
  | op o k ih =>
    simp only [noPanic, Bool.and_eq_true] at hc
    simp only [Cmd.bind, noPanic, Bool.and_eq_true]
    exact ⟨⟨ih _ hc.1.1, ih _ hc.1.2⟩, ih _ hc.2⟩

end Cmd

end RQ.Push

/-! ## The workers' save code is good -/

namespace RQ.Push
open RQ RQ.Parse RQ.Write RQ.ParSave

/-- the kinds of operations of the workers' save code: all but `removeDir` (the main thread cleans the
directories) and `appendOpen` (only `save_applied_patches` opens a file for appending) -/
def workerOp : Op → Bool
  | .removeDir _ => false
  | .appendOpen _ => false
  | _ => true

/-- `P` for the workers -/
def WorkerOp (o : Op) : Prop := workerOp o = true

theorem writeNewC_good (k : Key) (perms : Option Nat) (content : Bytes) :
    (writeNewC k perms content).Good WorkerOp := by
  unfold writeNewC
  have hw : (Cmd.op (.write k content) fun | .ok => .ret () | .notFound | .failed => .fail .err :
      Cmd Unit).Good WorkerOp := by
    refine .op _ _ rfl rfl (fun r => ?_)
    cases r
    · exact .ret _
    · exact .fail _
    · exact .fail _
  refine Cmd.Good.bind ?_ (fun _ => hw)
  cases perms with
  | none => exact .ret _
  | some p =>
    refine .op _ _ rfl rfl (fun r => ?_)
    cases r
    · exact .ret _
    · exact .fail _
    · exact .fail _

theorem saveModifiedFileC_good (name : Bytes) (f : FileSt Bytes) :
    (saveModifiedFileC name f).Good WorkerOp := by
  unfold saveModifiedFileC
  cases safeKey name with
  | none => exact .fail _
  | some k =>
    simp only
    refine Cmd.Good.bind ?_ (fun _ => ?_)
    · split
      · refine .op _ _ rfl rfl (fun r => ?_)
        cases r
        · exact .ret _
        · exact .ret _
        · exact .fail _
      · exact .ret _
    · split
      · exact .ret _
      · refine Cmd.Good.bind ?_ (fun _ => ?_)
        · split
          · refine .op _ _ rfl rfl (fun r => ?_)
            cases r
            · exact .ret _
            · exact .fail _
            · exact .fail _
          · exact .ret _
        · refine .op _ _ rfl rfl (fun r => ?_)
          cases r
          · exact Cmd.Good.bind (writeNewC_good _ _ _) (fun _ => .ret _)
          · exact .fail _
          · exact .fail _

theorem saveAllC_good (mem : Mem) : ∀ dirs : List Key, (saveAllC mem dirs).Good WorkerOp := by
  induction mem with
  | nil => intro dirs; exact .ret _
  | cons x rest ih =>
    intro dirs
    obtain ⟨cs, name, f⟩ := x
    unfold saveAllC
    exact Cmd.Good.bind (saveModifiedFileC_good name f) (fun d => ih _)

theorem saveBackupC_good (patchName name : Bytes) (f : FileSt Bytes) :
    (saveBackupC patchName name f).Good WorkerOp := by
  unfold saveBackupC
  cases pcKey patchName name with
  | none => exact .fail _
  | some k =>
    simp only
    have h3 : (Cmd.op (.createFile k) fun
        | .ok => writeNewC k f.perms (bytesOf f.content)
        | .notFound | .failed => .fail .err : Cmd Unit).Good WorkerOp := by
      refine .op _ _ rfl rfl (fun r => ?_)
      cases r
      · exact writeNewC_good _ _ _
      · exact .fail _
      · exact .fail _
    refine .op _ _ rfl rfl (fun r => ?_)
    cases r
    · refine .op _ _ rfl rfl (fun r => ?_)
      cases r
      · exact h3
      · exact h3
      · exact .fail _
    · exact .fail _
    · exact .fail _

theorem rollbackAndSaveBackupsC_good (ss : List Status) : ∀ (mem : Mem) (downTo : Nat),
    (rollbackAndSaveBackupsC mem ss downTo).Good WorkerOp := by
  induction ss with
  | nil => intro mem d; exact .ret _
  | cons s rest ih =>
    intro mem d
    unfold rollbackAndSaveBackupsC
    split
    · exact .ret _
    · cases rollbackOne mem s with
      | error e => exact .fail _
      | ok r =>
        obtain ⟨mem1, file⟩ := r
        simp only
        refine Cmd.Good.bind (saveBackupC_good _ _ _) (fun _ => ?_)
        split
        · cases s.fp.new with
          | none => exact .fail _
          | some newName =>
            simp only
            cases mem1.get newName with
            | none => exact .fail _
            | some nf =>
              simp only
              exact Cmd.Good.bind (saveBackupC_good _ _ _) (fun _ => ih _ _)
        · exact ih _ _

/-- **the workers' save code**: only file operations and `createDirAll`, and a failed operation ends it
with an ordinary error at once -/
theorem workerSaveC_good (cfg : Cfg) (final rangeLen : Nat) (mem : Mem) (applied : List Status) :
    (workerSaveC cfg final rangeLen mem applied).Good WorkerOp := by
  unfold workerSaveC
  split
  · exact .ret _
  · refine Cmd.Good.bind (saveAllC_good _ _) (fun dirs => ?_)
    split
    · exact Cmd.Good.bind (rollbackAndSaveBackupsC_good _ _ _) (fun _ => .ret _)
    · exact .ret _

/-! ### where the save code cannot panic -/

theorem writeNewC_noPanic (k : Key) (perms : Option Nat) (content : Bytes) :
    (writeNewC k perms content).noPanic = true := by
  unfold writeNewC
  cases perms <;> rfl

theorem saveModifiedFileC_noPanic (name : Bytes) (f : FileSt Bytes) :
    (saveModifiedFileC name f).noPanic = true := by
  unfold saveModifiedFileC
  cases safeKey name with
  | none => rfl
  | some k =>
    simp only
    refine Cmd.noPanic_bind ?_ (fun _ => ?_)
    · split <;> rfl
    · split
      · rfl
      · refine Cmd.noPanic_bind ?_ (fun _ => ?_)
        · split <;> rfl
        · have := Cmd.noPanic_bind (writeNewC_noPanic k f.perms (bytesOf f.content))
            (f := fun _ => (Cmd.ret none : Cmd (Option Key))) (fun _ => rfl)
          simp only [Cmd.noPanic, this, Bool.and_self]

/-- `ModifiedFiles::save` has no panic -/
theorem saveAllC_noPanic (mem : Mem) : ∀ dirs : List Key, (saveAllC mem dirs).noPanic = true := by
  induction mem with
  | nil => intro dirs; rfl
  | cons x rest ih =>
    intro dirs
    obtain ⟨cs, name, f⟩ := x
    unfold saveAllC
    exact Cmd.noPanic_bind (saveModifiedFileC_noPanic name f) (fun d => ih _)

/-- without quilt backups the worker's save code has no panic leaf -/
theorem workerSaveC_noPanic_of_noBackups (cfg : Cfg) (final rangeLen : Nat) (mem : Mem) (applied : List Status)
    (h : wantBackups cfg final rangeLen = false) : (workerSaveC cfg final rangeLen mem applied).noPanic = true := by
  unfold workerSaveC
  split
  · rfl
  · refine Cmd.noPanic_bind (saveAllC_noPanic _ _) (fun dirs => ?_)
    simp only [h]
    rfl

end RQ.Push

/-! ## Invariants of the scheduling model with fault injection, under every schedule -/

namespace RQ.Push
open RQ RQ.Parse RQ.Write RQ.ParSave

section Inv
variable {α : Type} (cs : Nat → Cmd α) (n : Nat)

theorem cmdProgs_some {i : Nat} {h : List Res} {o : Op} (hp : cmdProgs cs n i h = some o) :
    i < n ∧ progOf (cs i) h = some o := by
  unfold cmdProgs at hp
  split at hp
  · exact ⟨by assumption, hp⟩
  · cases hp

/-- every worker's history is a path of its command -/
def Valid (s : FState) : Prop := ∀ i, i < n → ∃ c', (cs i).after (s.ps.hist i) = some c'

/-- once the operation number `k` has been executed, some worker has seen a failure -/
def Hit (k : Nat) (s : FState) : Prop := k < s.cnt → ∃ i, i < n ∧ Res.failed ∈ s.ps.hist i

theorem valid_init (w : World) : Valid cs n (initF w) := fun i _ => ⟨cs i, Cmd.after_nil _⟩

theorem hit_init (w : World) (k : Nat) (h : w.trace.length ≤ k) : Hit n k (initF w) := by
  intro hk
  simp only [initF] at hk
  omega

/-- the history of the worker that made a step, and of the others -/
theorem stepF_hist {fault : Option Nat} {progs : Nat → Prog} {s : FState} {i : Nat} {o : Op}
    (hp : progs i (s.ps.hist i) = some o) :
    ∃ r : Res, (fault = some s.cnt → r = .failed) ∧
      (stepF fault progs s i).ps.hist = fun j => if j = i then s.ps.hist i ++ [r] else s.ps.hist j := by
  simp only [stepF, hp]
  by_cases hf : fault = some s.cnt
  · refine ⟨.failed, fun _ => rfl, ?_⟩
    simp only [hf, beq_self_eq_true, if_true]
  · refine ⟨(exec s.ps.fs o).1, fun h => absurd h hf, ?_⟩
    have : (fault == some s.cnt) = false := by
      cases hb : fault == some s.cnt with
      | false => rfl
      | true => exact absurd (eq_of_beq hb) hf
    simp only [this, Bool.false_eq_true, if_false]

theorem stepF_valid {fault : Option Nat} {s : FState} (hv : Valid cs n s) (i : Nat) :
    Valid cs n (stepF fault (cmdProgs cs n) s i) := by
  cases hp : cmdProgs cs n i (s.ps.hist i) with
  | none => rw [stepF_of_none hp]; exact hv
  | some o =>
    obtain ⟨r, _, hh⟩ := stepF_hist (fault := fault) hp
    obtain ⟨hi, hpo⟩ := cmdProgs_some cs n hp
    intro j hj
    rw [hh]
    by_cases hji : j = i
    · subst hji
      simp only [if_true]
      obtain ⟨c', hc'⟩ := hv j hj
      obtain ⟨k, rfl⟩ := Cmd.after_op hc' hpo
      exact ⟨k r, Cmd.after_snoc r hc'⟩
    · simp only [hji, if_false]
      exact hv j hj

theorem stepF_hit {k : Nat} {s : FState} (hh : Hit n k s) (i : Nat) :
    Hit n k (stepF (some k) (cmdProgs cs n) s i) := by
  cases hp : cmdProgs cs n i (s.ps.hist i) with
  | none => rw [stepF_of_none hp]; exact hh
  | some o =>
    obtain ⟨r, hr, hhist⟩ := stepF_hist (fault := some k) hp
    obtain ⟨hi, _⟩ := cmdProgs_some cs n hp
    intro hk
    rw [stepF_cnt hp] at hk
    rw [hhist]
    by_cases hlt : k < s.cnt
    · obtain ⟨j, hj, hm⟩ := hh hlt
      refine ⟨j, hj, ?_⟩
      by_cases hji : j = i
      · subst hji
        simp only [if_true]
        exact List.mem_append_left _ hm
      · simp only [hji, if_false]
        exact hm
    · have hks : k = s.cnt := by omega
      refine ⟨i, hi, ?_⟩
      simp only [if_true]
      rw [hr (by rw [hks])]
      exact List.mem_append_right _ (List.mem_singleton.mpr rfl)

theorem runF_valid {fault : Option Nat} (sched : List Nat) : ∀ s : FState, Valid cs n s →
    Valid cs n (runF fault (cmdProgs cs n) sched s) := by
  induction sched with
  | nil => intro s hv; exact hv
  | cons i rest ih => intro s hv; exact ih _ (stepF_valid cs n hv i)

theorem runF_hit {k : Nat} (sched : List Nat) : ∀ s : FState, Hit n k s →
    Hit n k (runF (some k) (cmdProgs cs n) sched s) := by
  induction sched with
  | nil => intro s hv; exact hv
  | cons i rest ih => intro s hv; exact ih _ (stepF_hit cs n hv i)

/-- every operation issued under the schedule is an operation of one of the commands -/
theorem opTraceF_all {P : Op → Prop} {fault : Option Nat} (hg : ∀ i, i < n → (cs i).All P)
    (sched : List Nat) : ∀ s : FState, Valid cs n s →
    ∀ o ∈ opTraceF fault (cmdProgs cs n) sched s, P o := by
  induction sched with
  | nil => intro s _ o ho; cases ho
  | cons i rest ih =>
    intro s hv o ho
    cases hp : cmdProgs cs n i (s.ps.hist i) with
    | none =>
      rw [opTraceF_cons_none hp] at ho
      exact ih s hv o ho
    | some o' =>
      rw [opTraceF_cons_some hp] at ho
      rcases List.mem_cons.mp ho with rfl | ho
      · obtain ⟨hi, hpo⟩ := cmdProgs_some cs n hp
        obtain ⟨c', hc'⟩ := hv i hi
        obtain ⟨k, rfl⟩ := Cmd.after_op hc' hpo
        exact ((hg i hi).after hc').head
      · exact ih _ (stepF_valid cs n hv i) o ho

/-- **a finished worker with a valid history has a result; if it saw a failure, the result is an ordinary
error; if its command has no panic leaf, any error is an ordinary one** -/
theorem worker_result {P : Op → Prop} {s : FState} (hv : Valid cs n s) {i : Nat} (hi : i < n)
    (hd : cmdProgs cs n i (s.ps.hist i) = none) :
    ∃ r, (cs i).resultAt (s.ps.hist i) = some r ∧
      ((cs i).Good P → Res.failed ∈ s.ps.hist i → r = .error .err) ∧
      ((cs i).noPanic = true → ∀ e, r = .error e → e = .err) := by
  rw [cmdProgs_lt cs n hi] at hd
  obtain ⟨c', hc'⟩ := hv i hi
  rcases Cmd.after_done hc' hd with ⟨a, rfl, hr⟩ | ⟨e, rfl, hr⟩
  · refine ⟨.ok a, hr, fun hg hm => ?_, fun _ e he => by cases he⟩
    cases hg.after_failed hc' hm
  · refine ⟨.error e, hr, fun hg hm => ?_, fun hn e' he => ?_⟩
    · cases hg.after_failed hc' hm; rfl
    · cases he
      exact Cmd.noPanic_fail (Cmd.noPanic_after hn hc')

end Inv

end RQ.Push

/-! ## `Ext P w w'`: `w'` is `w` after some more operations, all satisfying `P` -/

namespace RQ.Push
open RQ RQ.Parse RQ.Write RQ.ParSave RQ.Flush

/-- the operation cannot change the regular file at `k0`: it makes or removes a directory, or it works on
another path -/
def Untouched (k0 : Key) : Op → Prop
  | .createDirAll _ => True
  | .removeDir _ => True
  | .removeFile k => k ≠ k0
  | .createFile k => k ≠ k0
  | .setMode k _ => k ≠ k0
  | .write k _ => k ≠ k0
  | .appendOpen k => k ≠ k0

theorem run_untouched {fs fs' : FS} {o : Op} {k0 : Key} (h : Op.run fs o = .ok fs') (hu : Untouched k0 o) :
    fileAt fs' k0 = fileAt fs k0 := by
  cases o with
  | createDirAll k => exact createDirAll_fileAt h k0
  | removeDir k => exact removeDir_fileAt h k0
  | removeFile k => exact run_fileAt_ne h (Ne.symm hu)
  | createFile k => exact run_fileAt_ne h (Ne.symm hu)
  | setMode k m => exact run_fileAt_ne h (Ne.symm hu)
  | write k b => exact run_fileAt_ne h (Ne.symm hu)
  | appendOpen k => exact run_fileAt_ne h (Ne.symm hu)

theorem exec_untouched (fs : FS) {o : Op} {k0 : Key} (hu : Untouched k0 o) :
    fileAt (exec fs o).2 k0 = fileAt fs k0 := by
  rcases exec_cases fs o with ⟨fs', h, e⟩ | ⟨_, e⟩ | ⟨_, e⟩
  · rw [e]; exact run_untouched h hu
  · rw [e]
  · rw [e]

/-- the world of the result of an operation -/
def OpRes.world : OpRes → World
  | .ok w => w
  | .notFound w => w
  | .failed w => w

theorem op_failed_fs {w w' : World} {o : Op} (e : w.op o = .failed w') : w'.fs = w.fs := by
  unfold World.op at e
  simp only at e
  split at e
  · cases e; rfl
  · cases o <;> first
      | (split at e <;> first | (cases e; rfl) | cases e)
      | cases e

theorem op_untouched (w : World) {o : Op} {k0 : Key} (hu : Untouched k0 o) :
    fileAt (w.op o).world.fs k0 = fileAt w.fs k0 := by
  cases hr : w.op o with
  | ok w' => exact run_untouched (op_ok_run hr).1 hu
  | notFound w' => show fileAt w'.fs k0 = _; rw [(op_notFound_run hr).2.1]
  | failed w' => show fileAt w'.fs k0 = _; rw [op_failed_fs hr]

/-- the same fault index; the trace extended by operations satisfying `P`; and the regular file at a path
is as it was if none of these operations can touch it -/
def Ext (P : Op → Prop) (w w' : World) : Prop :=
  w'.faultAt = w.faultAt ∧ ∃ ops, w'.trace = w.trace ++ ops ∧ (∀ o ∈ ops, P o) ∧
    ∀ k0, (∀ o ∈ ops, Untouched k0 o) → fileAt w'.fs k0 = fileAt w.fs k0

theorem Ext.refl {P : Op → Prop} (w : World) : Ext P w w :=
  ⟨rfl, [], by simp, fun _ h => (by cases h), fun _ _ => rfl⟩

theorem Ext.trans {P : Op → Prop} {w1 w2 w3 : World} (h1 : Ext P w1 w2) (h2 : Ext P w2 w3) : Ext P w1 w3 := by
  obtain ⟨f1, o1, t1, p1, u1⟩ := h1
  obtain ⟨f2, o2, t2, p2, u2⟩ := h2
  refine ⟨f2.trans f1, o1 ++ o2, by rw [t2, t1, List.append_assoc], fun o ho => ?_, fun k0 hu => ?_⟩
  · rcases List.mem_append.mp ho with ho | ho
    · exact p1 o ho
    · exact p2 o ho
  · rw [u2 k0 (fun o ho => hu o (List.mem_append_right _ ho)),
      u1 k0 (fun o ho => hu o (List.mem_append_left _ ho))]

theorem Ext.mono {P Q : Op → Prop} {w w' : World} (h : ∀ o, P o → Q o) (he : Ext P w w') : Ext Q w w' := by
  obtain ⟨f, ops, t, p, u⟩ := he
  exact ⟨f, ops, t, fun o ho => h o (p o ho), u⟩

theorem Ext.len {P : Op → Prop} {w w' : World} (he : Ext P w w') : w.trace.length ≤ w'.trace.length := by
  obtain ⟨_, ops, t, _⟩ := he
  rw [t, List.length_append]; omega

/-- if none of the operations can touch `k0`, the file there is as it was -/
theorem Ext.frame {k0 : Key} {w w' : World} (he : Ext (Untouched k0) w w') : fileAt w'.fs k0 = fileAt w.fs k0 := by
  obtain ⟨_, ops, _, p, u⟩ := he
  exact u k0 p

theorem op_tf_aux (w : World) (o : Op) (r : Except IOErr FS) :
    (OpRes.world (match r with
        | .ok fs => OpRes.ok { w with trace := w.trace ++ [o], fs := fs }
        | .error .notFound => OpRes.notFound { w with trace := w.trace ++ [o] }
        | .error .other => OpRes.failed { w with trace := w.trace ++ [o] })).faultAt = w.faultAt ∧
    (OpRes.world (match r with
        | .ok fs => OpRes.ok { w with trace := w.trace ++ [o], fs := fs }
        | .error .notFound => OpRes.notFound { w with trace := w.trace ++ [o] }
        | .error .other => OpRes.failed { w with trace := w.trace ++ [o] })).trace = w.trace ++ [o] := by
  cases r with
  | ok fs => exact ⟨rfl, rfl⟩
  | error err => cases err <;> exact ⟨rfl, rfl⟩

theorem op_trace_faultAt (w : World) (o : Op) :
    (w.op o).world.faultAt = w.faultAt ∧ (w.op o).world.trace = w.trace ++ [o] := by
  unfold World.op
  by_cases hfa : (w.faultAt == some w.trace.length) = true
  · simp only [hfa, if_true]; exact ⟨rfl, rfl⟩
  · simp only [hfa]
    exact op_tf_aux w o _

/-- an operation, whatever its result, appends itself to the trace and leaves the fault index -/
theorem op_ext {P : Op → Prop} (w : World) (o : Op) (hP : P o) : Ext P w (w.op o).world := by
  obtain ⟨hf, ht⟩ := op_trace_faultAt w o
  refine ⟨hf, [o], ht, fun o' ho' => by rw [List.mem_singleton.mp ho']; exact hP, fun k0 hu => ?_⟩
  exact op_untouched w (hu o (List.mem_singleton.mpr rfl))

theorem op_ext_ok {P : Op → Prop} {w w' : World} {o : Op} (e : w.op o = .ok w') (hP : P o) : Ext P w w' := by
  have := op_ext (P := P) w o hP; rw [e] at this; exact this
theorem op_ext_nf {P : Op → Prop} {w w' : World} {o : Op} (e : w.op o = .notFound w') (hP : P o) :
    Ext P w w' := by
  have := op_ext (P := P) w o hP; rw [e] at this; exact this
theorem op_ext_failed {P : Op → Prop} {w w' : World} {o : Op} (e : w.op o = .failed w') (hP : P o) :
    Ext P w w' := by
  have := op_ext (P := P) w o hP; rw [e] at this; exact this

/-- `Ext` for the results of functions that change the world -/
def WRExt {α : Type} (P : Op → Prop) (w : World) (proj : α → World) : WR α → Prop
  | .ok a => Ext P w (proj a)
  | .error p => Ext P w p.2

theorem WRExt.trans {α : Type} {P : Op → Prop} {w w1 : World} {proj : α → World} {r : WR α}
    (h1 : Ext P w w1) (h2 : WRExt P w1 proj r) : WRExt P w proj r := by
  cases r with
  | ok a => exact Ext.trans h1 h2
  | error p => exact Ext.trans h1 h2

theorem WRExt.mono {α : Type} {P Q : Op → Prop} {w : World} {proj : α → World} {r : WR α}
    (h : ∀ o, P o → Q o) (hr : WRExt P w proj r) : WRExt Q w proj r := by
  cases r with
  | ok a => exact Ext.mono h hr
  | error p => exact Ext.mono h hr

/-- no `appendOpen` -/
def notAppend : Op → Bool
  | .appendOpen _ => false
  | _ => true

def NotAppend (o : Op) : Prop := notAppend o = true

theorem WorkerOp.notAppend {o : Op} (h : WorkerOp o) : NotAppend o := by
  cases o <;> first | rfl | cases h

section MainThread
variable {P : Op → Prop}

theorem cleanUp_ext (hP : ∀ k, P (.removeDir k)) (fuel : Nat) :
    ∀ (w : World) (k : Key), WRExt P w id (cleanUp w fuel k) := by
  induction fuel with
  | zero => intro w k; unfold cleanUp; exact Ext.refl w
  | succ n ih =>
    intro w k
    generalize hr : cleanUp w (n + 1) k = r
    unfold cleanUp at hr
    split at hr
    · subst hr; exact Ext.refl w
    · subst hr; exact Ext.refl w
    · subst hr; exact Ext.refl w
    · split at hr
      · rename_i w1 hop; subst hr; exact op_ext_failed hop (hP _)
      all_goals
        rename_i w1 hop
        have h1 : Ext P w w1 := by
          first | exact op_ext_ok hop (hP _) | exact op_ext_nf hop (hP _)
        split at hr
        · subst hr; exact h1
        · subst hr; exact WRExt.trans h1 (ih w1 _)

theorem cleanAll_ext (hP : ∀ k, P (.removeDir k)) (ks : List Key) :
    ∀ w : World, WRExt P w id (cleanAll w ks) := by
  induction ks with
  | nil => intro w; unfold cleanAll; exact Ext.refl w
  | cons k ks ih =>
    intro w
    generalize hr : cleanAll w (k :: ks) = r
    unfold cleanAll at hr
    have hc := cleanUp_ext hP (k.length + 1) w k
    split at hr
    · rename_i heq; rw [heq] at hc; subst hr; exact hc
    · rename_i w' heq; rw [heq] at hc; subst hr; exact WRExt.trans hc (ih w')

/-- the operations of `save_rej_files` on the reject files `rejs` satisfy `P` -/
def RejOps (P : Op → Prop) (rejs : List (Bytes × Bytes)) : Prop :=
  ∀ x ∈ rejs, ∀ k, safeKey x.1 = some k → P (.removeFile k) ∧ P (.createFile k) ∧ ∀ c, P (.write k c)

/-- an operation that is logged and changes nothing -/
theorem logged_ext {P : Op → Prop} (w : World) (o : Op) (hP : P o) : Ext P w (w.logged o) :=
  ⟨rfl, [o], rfl, fun o' ho' => by rw [List.mem_singleton.mp ho']; exact hP, fun _ _ => rfl⟩

theorem saveRejFiles_ext (rejs : List (Bytes × Bytes)) :
    ∀ w : World, RejOps P rejs → WRExt P w id (saveRejFiles w rejs) := by
  induction rejs with
  | nil => intro w _; unfold saveRejFiles; exact Ext.refl w
  | cons x rest ih =>
    intro w hP
    obtain ⟨name, content⟩ := x
    have hrest : RejOps P rest := fun x hx => hP x (List.mem_cons_of_mem _ hx)
    generalize hr : saveRejFiles w ((name, content) :: rest) = r
    rw [saveRejFiles_cons] at hr
    split at hr
    · subst hr; exact Ext.refl w
    · rename_i k hk
      obtain ⟨p1, p2, p3⟩ := hP (name, content) (List.mem_cons_self ..) k hk
      split at hr
      · -- bypassed (`ENOTDIR`): both operations are logged
        have e1 : Ext P w (w.logged (.removeFile k)) := logged_ext w _ p1
        have e2 : Ext P w ((w.logged (.removeFile k)).logged (.createFile k)) := e1.trans (logged_ext _ _ p2)
        split at hr
        · subst hr; exact e1
        · split at hr
          · subst hr; exact e2
          · subst hr; exact WRExt.trans e2 (ih _ hrest)
      split at hr
      · rename_i w0 hop; subst hr; exact op_ext_failed hop p1
      all_goals
        rename_i w0 hop
        have h1 : Ext P w w0 := by
          first | exact op_ext_ok hop p1 | exact op_ext_nf hop p1
        split at hr
        · rename_i w2 hop2; subst hr
          exact WRExt.trans (h1.trans (op_ext_nf hop2 p2)) (ih w2 hrest)
        · rename_i w2 hop2; subst hr; exact h1.trans (op_ext_failed hop2 p2)
        · rename_i w2 hop2
          have h3 := h1.trans (op_ext_ok hop2 p2)
          split at hr
          · rename_i w3 hop3; subst hr; exact WRExt.trans (h3.trans (op_ext_ok hop3 (p3 _))) (ih w3 hrest)
          · rename_i w3 hop3; subst hr; exact h3.trans (op_ext_nf hop3 (p3 _))
          · rename_i w3 hop3; subst hr; exact h3.trans (op_ext_failed hop3 (p3 _))

end MainThread

/-- `save_applied_patches`: any operations -/
theorem saveApplied_ext (w : World) (names : List Bytes) :
    WRExt (fun _ => True) w id (saveApplied w names) := by
  generalize hr : saveApplied w names = r
  unfold saveApplied at hr
  split at hr
  · rename_i w1 hop
    have h1 : Ext (fun _ => True) w w1 := op_ext_ok hop trivial
    split at hr
    · rename_i w2 hop2
      have h2 := h1.trans (op_ext_ok (P := fun _ => True) hop2 trivial)
      split at hr
      · subst hr; exact h2
      · split at hr
        · rename_i w3 hop3; subst hr; exact h2.trans (op_ext_ok hop3 trivial)
        · rename_i w3 hop3; subst hr; exact h2.trans (op_ext_nf hop3 trivial)
        · rename_i w3 hop3; subst hr; exact h2.trans (op_ext_failed hop3 trivial)
    · rename_i w2 hop2; subst hr; exact h1.trans (op_ext_nf hop2 trivial)
    · rename_i w2 hop2; subst hr; exact h1.trans (op_ext_failed hop2 trivial)
  · rename_i w1 hop; subst hr; exact op_ext_nf hop trivial
  · rename_i w1 hop; subst hr; exact op_ext_failed hop trivial

end RQ.Push

/-! ## The save phase with fault injection -/

namespace RQ.ParSave
open RQ RQ.Push RQ.Flush

theorem stepF_fs {fault : Option Nat} {progs : Nat → Prog} {s : FState} {i : Nat} {o : Op}
    (hp : progs i (s.ps.hist i) = some o) :
    (stepF fault progs s i).ps.fs = s.ps.fs ∨ (stepF fault progs s i).ps.fs = (exec s.ps.fs o).2 := by
  simp only [stepF, hp]
  split
  · exact .inl rfl
  · exact .inr rfl

/-- under every schedule, a file that none of the issued operations can touch is as it was -/
theorem runF_frame (fault : Option Nat) (progs : Nat → Prog) (k0 : Key) (sched : List Nat) : ∀ s : FState,
    (∀ o ∈ opTraceF fault progs sched s, Untouched k0 o) →
    fileAt (runF fault progs sched s).ps.fs k0 = fileAt s.ps.fs k0 := by
  induction sched with
  | nil => intro s _; rfl
  | cons i rest ih =>
    intro s hu
    show fileAt (runF fault progs rest (stepF fault progs s i)).ps.fs k0 = _
    cases hp : progs i (s.ps.hist i) with
    | none =>
      rw [opTraceF_cons_none hp] at hu
      rw [stepF_of_none hp]
      exact ih s hu
    | some o =>
      rw [opTraceF_cons_some hp] at hu
      rw [ih _ (fun o' ho' => hu o' (List.mem_cons_of_mem _ ho'))]
      rcases stepF_fs (fault := fault) hp with e | e
      · rw [e]
      · rw [e]; exact exec_untouched _ (hu o (List.mem_cons_self ..))

end RQ.ParSave

namespace RQ.Par
open RQ RQ.Push RQ.Parse RQ.ParSave RQ.Flush

theorem firstFail_some {α : Type} {n : Nat} {f : Nat → Except Fail α} {e : Fail}
    (h : firstFail n f = some e) : ∃ i, i < n ∧ f i = .error e := by
  unfold firstFail at h
  obtain ⟨i, hi, he⟩ := List.exists_of_findSome?_eq_some h
  refine ⟨i, List.mem_range.mp hi, ?_⟩
  cases hf : f i with
  | ok a => rw [hf] at he; cases he
  | error e' => rw [hf] at he; cases he; rfl

theorem firstFail_none {α : Type} {n : Nat} {f : Nat → Except Fail α}
    (h : firstFail n f = none) : ∀ i, i < n → ∃ a, f i = .ok a := by
  unfold firstFail at h
  rw [List.findSome?_eq_none_iff] at h
  intro i hi
  have := h i (List.mem_range.mpr hi)
  cases hf : f i with
  | ok a => exact ⟨a, rfl⟩
  | error e' => rw [hf] at this; cases this

/-- **The save phase of the parallel driver with fault injection, under every schedule** under which all
workers finish: the trace is extended by operations of the workers' save code and the fault index stays;
if the result is `ok`, the faulty operation has not been executed; and if no worker's save code has a panic
leaf, every error is an ordinary one. -/
theorem savePhaseF_spec {P : Op → Prop} (w : World) (cfg : Cfg) (final rangeLen threads : Nat) (mems : Nat → Mem)
    (applieds : Nat → List Status) (schedS : List Nat) (res : WR (World × (Nat → List Key)))
    (hP : ∀ i, i < threads → (workerSaveC cfg final rangeLen (mems i) (applieds i)).All P)
    (h : savePhaseF w cfg final rangeLen threads mems applieds schedS = some res) :
    WRExt P w (·.1) res ∧
    (NY w → ∀ a, res = .ok a → NY a.1) ∧
    ((∀ i, i < threads → (workerSaveC cfg final rangeLen (mems i) (applieds i)).noPanic = true) →
      ∀ p, res = .error p → p.1 = .err) := by
  unfold savePhaseF at h
  simp only at h
  split at h
  case isFalse => cases h
  rename_i hall
  have hv := runF_valid (saveCmds cfg final rangeLen mems applieds) threads (fault := w.faultAt) schedS
    (initF w) (valid_init _ _ w)
  have hdone : ∀ i, i < threads → saveProgs cfg final rangeLen mems applieds threads i
      ((runF w.faultAt (saveProgs cfg final rangeLen mems applieds threads) schedS (initF w)).ps.hist i) = none := by
    intro i hi
    rw [List.all_eq_true] at hall
    have := hall i (List.mem_range.mpr hi)
    simpa using this
  have hext : Ext P w
      { fs := (runF w.faultAt (saveProgs cfg final rangeLen mems applieds threads) schedS (initF w)).ps.fs,
        trace := w.trace ++ opTraceF w.faultAt (saveProgs cfg final rangeLen mems applieds threads) schedS (initF w),
        faultAt := w.faultAt } :=
    ⟨rfl, _, rfl, opTraceF_all (saveCmds cfg final rangeLen mems applieds) threads hP schedS (initF w)
      (valid_init _ _ w), fun k0 hu => runF_frame _ _ k0 schedS (initF w) hu⟩
  -- the result of worker `i`
  have hres : ∀ i, i < threads → ∃ r,
      saveResult cfg final rangeLen (mems i) (applieds i)
        ((runF w.faultAt (saveProgs cfg final rangeLen mems applieds threads) schedS (initF w)).ps.hist i) = r ∧
      (Res.failed ∈ (runF w.faultAt (saveProgs cfg final rangeLen mems applieds threads) schedS
          (initF w)).ps.hist i → r = .error .err) ∧
      ((workerSaveC cfg final rangeLen (mems i) (applieds i)).noPanic = true → ∀ e, r = .error e → e = .err) := by
    intro i hi
    obtain ⟨r, hr, h1, h2⟩ := worker_result (P := WorkerOp) (saveCmds cfg final rangeLen mems applieds) threads
      hv hi (hdone i hi)
    refine ⟨r, ?_, h1 (workerSaveC_good _ _ _ _ _), h2⟩
    unfold saveResult
    have hr' : (saveCmds cfg final rangeLen mems applieds i).resultAt
        ((runF w.faultAt (saveProgs cfg final rangeLen mems applieds threads) schedS (initF w)).ps.hist i) =
        some r := hr
    show (match (saveCmds cfg final rangeLen mems applieds i).resultAt _ with | some r => r | none => _) = r
    rw [hr']
  cases hff : firstFail threads (fun i => saveResult cfg final rangeLen (mems i) (applieds i)
      ((runF w.faultAt (saveProgs cfg final rangeLen mems applieds threads) schedS (initF w)).ps.hist i)) with
  | some e =>
    rw [hff] at h
    simp only [Option.some.injEq] at h
    subst h
    refine ⟨hext, fun _ a ha => (by cases ha), fun hnp p hp => ?_⟩
    cases hp
    obtain ⟨i, hi, hfi⟩ := firstFail_some hff
    obtain ⟨r, hr, _, h2⟩ := hres i hi
    rw [hr] at hfi
    exact h2 (hnp i hi) e hfi
  | none =>
    rw [hff] at h
    simp only [Option.some.injEq] at h
    subst h
    refine ⟨hext, fun hny a ha => ?_, fun _ p hp => (by cases hp)⟩
    cases ha
    intro k hk
    simp only at hk
    have h0 := hny k hk
    show (w.trace ++ opTraceF w.faultAt (saveProgs cfg final rangeLen mems applieds threads) schedS
      (initF w)).length ≤ k
    rw [List.length_append]
    apply Nat.le_of_not_lt
    intro hlt
    have hcnt := runF_cnt w.faultAt (saveProgs cfg final rangeLen mems applieds threads) schedS (initF w)
    have hhit := runF_hit (saveCmds cfg final rangeLen mems applieds) threads (k := k) schedS (initF w)
      (hit_init threads w k h0)
    rw [← hk] at hhit
    obtain ⟨i, hi, hm⟩ := hhit (by
      show k < (runF w.faultAt (saveProgs cfg final rangeLen mems applieds threads) schedS (initF w)).cnt
      have hi0 : (initF w).cnt = w.trace.length := rfl
      rw [hcnt]; omega)
    obtain ⟨r, hr, h1, _⟩ := hres i hi
    obtain ⟨a, ha⟩ := firstFail_none hff i hi
    rw [hr, h1 hm] at ha
    cases ha

end RQ.Par

/-! ## The main thread's last steps, `parApplyPatchesF`, the whole command -/

namespace RQ.Par
open RQ RQ.Push RQ.Parse RQ.ParSave RQ.Flush

theorem cleanWorkers_ny (dirs : Nat → List Key) : ∀ (n : Nat) {w : World}, NY w →
    WRNY id (cleanWorkers w dirs n) := by
  intro n
  induction n with
  | zero => intro w h; exact h
  | succ n ih =>
    intro w h
    have := ih h
    unfold cleanWorkers
    cases hc : cleanWorkers w dirs n with
    | error p => rw [hc] at this; exact this
    | ok w' => rw [hc] at this; exact cleanAll_ny (dirs n) this

theorem cleanWorkers_ext {P : Op → Prop} (hP : ∀ k, P (.removeDir k)) (dirs : Nat → List Key) :
    ∀ (n : Nat) (w : World), WRExt P w id (cleanWorkers w dirs n) := by
  intro n
  induction n with
  | zero => intro w; exact Ext.refl w
  | succ n ih =>
    intro w
    have := ih w
    unfold cleanWorkers
    cases hc : cleanWorkers w dirs n with
    | error p => rw [hc] at this; exact this
    | ok w' => rw [hc] at this; exact WRExt.trans this (cleanAll_ext hP (dirs n) w')

theorem rejWorkers_ny (rejs : Nat → List (Bytes × Bytes)) : ∀ (n : Nat) {w : World}, NY w →
    WRNY id (rejWorkers w rejs n) := by
  intro n
  induction n with
  | zero => intro w h; exact h
  | succ n ih =>
    intro w h
    have := ih h
    unfold rejWorkers
    cases hc : rejWorkers w rejs n with
    | error p => rw [hc] at this; exact this
    | ok w' => rw [hc] at this; exact saveRejFiles_ny (rejs n) this

theorem rejWorkers_ext {P : Op → Prop} (rejs : Nat → List (Bytes × Bytes)) : ∀ (n : Nat) (w : World),
    (∀ i, i < n → RejOps P (rejs i)) → WRExt P w id (rejWorkers w rejs n) := by
  intro n
  induction n with
  | zero => intro w _; exact Ext.refl w
  | succ n ih =>
    intro w hP
    have := ih w (fun i hi => hP i (by omega))
    unfold rejWorkers
    cases hc : rejWorkers w rejs n with
    | error p => rw [hc] at this; exact this
    | ok w' => rw [hc] at this; exact WRExt.trans this (saveRejFiles_ext (rejs n) w' (hP n (by omega)))

/-- the main thread's last steps never swallow the fault: success only if it was not attempted, and an
error after it was attempted is an ordinary one -/
theorem mainFinish_ny {w : World} (dirs : Nat → List Key) (rejs : Nat → List (Bytes × Bytes))
    (threads final : Nat) (h : NY w) : WRNY (·.1) (mainFinish w dirs rejs threads final) := by
  unfold mainFinish
  have h1 := cleanWorkers_ny dirs threads h
  cases hc : cleanWorkers w dirs threads with
  | error p => rw [hc] at h1; exact h1
  | ok w2 =>
    rw [hc] at h1
    simp only
    have h2 := rejWorkers_ny rejs threads (w := w2) h1
    cases hj : rejWorkers w2 rejs threads with
    | error p => rw [hj] at h2; exact h2
    | ok w3 => rw [hj] at h2; exact h2

theorem mainFinish_ext {P : Op → Prop} (hP : ∀ k, P (.removeDir k)) (w : World) (dirs : Nat → List Key)
    (rejs : Nat → List (Bytes × Bytes)) (threads final : Nat) (hR : ∀ i, i < threads → RejOps P (rejs i)) :
    WRExt P w (·.1) (mainFinish w dirs rejs threads final) := by
  unfold mainFinish
  have h1 := cleanWorkers_ext hP dirs threads w
  cases hc : cleanWorkers w dirs threads with
  | error p => rw [hc] at h1; exact h1
  | ok w2 =>
    rw [hc] at h1
    simp only
    have h2 := rejWorkers_ext rejs threads w2 hR
    cases hj : rejWorkers w2 rejs threads with
    | error p => rw [hj] at h2; exact Ext.trans h1 h2
    | ok w3 => rw [hj] at h2; exact Ext.trans h1 h2

/-- no worker's save code has a `panic` leaf (a failed in-memory rollback, a rename without its new
file), whatever the results of its operations.  (The in-memory state of the workers depends neither on
the save schedule nor on the fault.) -/
def SaveNoPanic (cfg : Cfg) (fs : FS) (range : List Series.Entry) (threads : Nat) (schedA : List Nat) : Prop :=
  ∀ patches r, parseRange fs cfg range = some patches →
    parMemory fs cfg patches threads schedA = some (.ok r) →
    ∀ i, i < threads → (workerSaveC cfg r.final patches.length (r.sts i).mem (r.sts i).applied).noPanic = true

/-- `SaveNoPanic`, decided -/
def saveNoPanicB (cfg : Cfg) (fs : FS) (range : List Series.Entry) (threads : Nat) (schedA : List Nat) : Bool :=
  match parseRange fs cfg range with
  | none => true
  | some patches =>
    match parMemory fs cfg patches threads schedA with
    | some (.ok r) => (List.range threads).all (fun i =>
        (workerSaveC cfg r.final patches.length (r.sts i).mem (r.sts i).applied).noPanic)
    | _ => true

theorem saveNoPanic_of_B {cfg : Cfg} {fs : FS} {range : List Series.Entry} {threads : Nat} {schedA : List Nat}
    (h : saveNoPanicB cfg fs range threads schedA = true) : SaveNoPanic cfg fs range threads schedA := by
  intro patches r hp hm i hi
  unfold saveNoPanicB at h
  rw [hp] at h
  simp only [hm] at h
  rw [List.all_eq_true] at h
  exact h i (List.mem_range.mpr hi)

/-- without quilt backups (`--backup never`) the workers' save code cannot panic -/
theorem saveNoPanic_of_never {cfg : Cfg} (hb : cfg.backup = .never) (fs : FS) (range : List Series.Entry)
    (threads : Nat) (schedA : List Nat) : SaveNoPanic cfg fs range threads schedA := by
  intro patches r _ _ i _
  apply workerSaveC_noPanic_of_noBackups
  simp [wantBackups, hb]

/-- every operation the driver issues after the apply phase (the workers' save code, the reject files;
removing directories apart) satisfies `P` -/
def DriverOps (P : Op → Prop) (cfg : Cfg) (fs : FS) (range : List Series.Entry) (threads : Nat)
    (schedA : List Nat) : Prop :=
  ∀ patches r, parseRange fs cfg range = some patches →
    parMemory fs cfg patches threads schedA = some (.ok r) →
    ∀ i, i < threads → (workerSaveC cfg r.final patches.length (r.sts i).mem (r.sts i).applied).All P ∧
      RejOps P (r.rejs i)

/-- the driver never opens a file for appending -/
theorem driverOps_notAppend (cfg : Cfg) (fs : FS) (range : List Series.Entry) (threads : Nat)
    (schedA : List Nat) : DriverOps NotAppend cfg fs range threads schedA := by
  intro patches r _ _ i _
  exact ⟨(workerSaveC_good _ _ _ _ _).all.mono (fun o => WorkerOp.notAppend),
    fun x _ k _ => ⟨rfl, rfl, fun _ => rfl⟩⟩

/-- neither a file a worker saves or backs up nor a reject file is `.pc/applied-patches` -/
def AppliedApart (cfg : Cfg) (fs : FS) (range : List Series.Entry) (threads : Nat) (schedA : List Nat) : Prop :=
  ∀ patches r, parseRange fs cfg range = some patches →
    parMemory fs cfg patches threads schedA = some (.ok r) →
    ∀ i, i < threads →
      appliedKey ∉ workerKeys cfg r.final patches.length (r.sts i).mem (r.sts i).applied ∧
      ∀ x ∈ r.rejs i, safeKey x.1 ≠ some appliedKey

/-- `AppliedApart`, decided -/
def appliedApartB (cfg : Cfg) (fs : FS) (range : List Series.Entry) (threads : Nat) (schedA : List Nat) : Bool :=
  match parseRange fs cfg range with
  | none => true
  | some patches =>
    match parMemory fs cfg patches threads schedA with
    | some (.ok r) => (List.range threads).all (fun i =>
        !(workerKeys cfg r.final patches.length (r.sts i).mem (r.sts i).applied).contains appliedKey &&
        (r.rejs i).all (fun x => safeKey x.1 != some appliedKey))
    | _ => true

theorem appliedApart_of_B {cfg : Cfg} {fs : FS} {range : List Series.Entry} {threads : Nat} {schedA : List Nat}
    (h : appliedApartB cfg fs range threads schedA = true) : AppliedApart cfg fs range threads schedA := by
  intro patches r hp hm i hi
  unfold appliedApartB at h
  rw [hp] at h
  simp only [hm] at h
  rw [List.all_eq_true] at h
  have := h i (List.mem_range.mpr hi)
  simp only [Bool.and_eq_true, Bool.not_eq_true', List.all_eq_true, bne_iff_ne] at this
  refine ⟨fun hmem => ?_, fun x hx => this.2 x hx⟩
  have h1 := this.1
  rw [List.contains_eq_mem] at h1
  simp [hmem] at h1

theorem driverOps_untouched {cfg : Cfg} {fs : FS} {range : List Series.Entry} {threads : Nat}
    {schedA : List Nat} (h : AppliedApart cfg fs range threads schedA) :
    DriverOps (Untouched appliedKey) cfg fs range threads schedA := by
  intro patches r hp hm i hi
  obtain ⟨hk, hr⟩ := h patches r hp hm i hi
  refine ⟨?_, fun x hx k hxk => ?_⟩
  · have hfp := Cmd.Fp.all' (workerSaveC_fp cfg r.final patches.length (r.sts i).mem (r.sts i).applied)
    have hg := (workerSaveC_good cfg r.final patches.length (r.sts i).mem (r.sts i).applied).all
    refine (hg.and hfp).mono (fun o ho => ?_)
    obtain ⟨hw, hin⟩ := ho
    have hne : ∀ k, fileKey o = some k → k ≠ appliedKey := fun k hk' he => hk (he ▸ hin.1 k hk')
    cases o with
    | createDirAll d => trivial
    | removeDir d => trivial
    | removeFile k => exact hne k rfl
    | createFile k => exact hne k rfl
    | setMode k m => exact hne k rfl
    | write k b => exact hne k rfl
    | appendOpen k => cases hw
  · have hne : k ≠ appliedKey := fun he => hr x hx (he ▸ hxk)
    exact ⟨hne, hne, fun _ => hne⟩

/-- **`parallel::apply_patches` with fault injection**, for every thread count and every pair of schedules
under which the run finishes: (1) the world it ends in has the fault index of the run and the trace
extended by operations of the driver (`P`); (2) if the result is `ok`, the faulty operation has not been
attempted; (3) if no worker's save code has a panic leaf, an error after the faulty operation was attempted
is an ordinary error. -/
theorem parApplyPatchesF_spec {P : Op → Prop} (fault : Option Nat) (w : World) (cfg : Cfg)
    (range : List Series.Entry) (threads : Nat) (schedA schedS : List Nat) (res : WR (World × Nat))
    (hclean : ∀ k, P (.removeDir k)) (hP : DriverOps P cfg w.fs range threads schedA)
    (h : parApplyPatchesF fault w cfg range threads schedA schedS = some res) :
    WRExt P { w with faultAt := fault } (·.1) res ∧
    (NY { w with faultAt := fault } → ∀ a, res = .ok a → NY a.1) ∧
    (SaveNoPanic cfg w.fs range threads schedA → NY { w with faultAt := fault } →
      ∀ p, res = .error p → NY p.2 ∨ p.1 = .err) := by
  unfold parApplyPatchesF at h
  simp only at h
  have herr : ∀ e : Fail, res = .error (e, { w with faultAt := fault }) →
      WRExt P { w with faultAt := fault } (·.1) res ∧
      (NY { w with faultAt := fault } → ∀ a, res = .ok a → NY a.1) ∧
      (SaveNoPanic cfg w.fs range threads schedA → NY { w with faultAt := fault } →
        ∀ p, res = .error p → NY p.2 ∨ p.1 = .err) := by
    intro e he
    subst he
    exact ⟨Ext.refl _, fun _ a ha => (by cases ha), fun _ hny p hp => (by cases hp; exact .inl hny)⟩
  split at h
  · exact herr _ (Option.some.inj h).symm
  · split at h
    · exact herr _ (Option.some.inj h).symm
    · rename_i patches hparse
      split at h
      · exact herr _ (Option.some.inj h).symm
      · split at h
        · cases h
        · exact herr _ (Option.some.inj h).symm
        · rename_i r hmem
          have hPw := fun i hi => (hP patches r hparse hmem i hi).1
          have hPr := fun i hi => (hP patches r hparse hmem i hi).2
          split at h
          · cases h
            exact ⟨Ext.refl _, fun hny a ha => (by cases ha; exact hny), fun _ _ p hp => (by cases hp)⟩
          · split at h
            · cases h
            · rename_i e hsave
              cases h
              obtain ⟨hx, _, h3⟩ := savePhaseF_spec _ _ _ _ _ _ _ _ _ hPw hsave
              refine ⟨hx, fun _ a ha => (by cases ha), fun hnp _ p hp => ?_⟩
              cases hp
              exact .inr (h3 (hnp patches r hparse hmem) _ rfl)
            · rename_i w1 dirs hsave
              cases h
              obtain ⟨hx, h2, _⟩ := savePhaseF_spec _ _ _ _ _ _ _ _ _ hPw hsave
              have hx' : Ext P { w with faultAt := fault } w1 := hx
              refine ⟨WRExt.trans hx' (mainFinish_ext hclean w1 dirs r.rejs threads r.final hPr),
                fun hny a ha => ?_, fun _ hny p hp => ?_⟩
              · have := mainFinish_ny dirs r.rejs threads r.final (h2 hny _ rfl)
                rw [ha] at this
                exact this
              · have := mainFinish_ny dirs r.rejs threads r.final (h2 hny _ rfl)
                rw [hp] at this
                exact this

/-- the outcome of the command when the driver returned an error -/
def outcomeOf : Fail → Outcome
  | .err => .error
  | .panic => .panic

/-- if `parApplyPatchesF` fails, `save_applied_patches` is not called: the command ends in that world -/
theorem parPushRangeF_of_error {fault : Option Nat} {cfg : Cfg} {w : World} {range : List Series.Entry}
    {threads : Nat} {schedA schedS : List Nat} {e : Fail} {w' : World}
    (h : parApplyPatchesF fault w cfg range threads schedA schedS = some (.error (e, w'))) :
    parPushRangeF fault cfg w range threads schedA schedS = some (outcomeOf e, w') := by
  unfold parPushRangeF
  rw [h]
  cases e <;> rfl

/-- **the second part of `cmd_push` with the parallel driver and fault injection** -/
theorem parPushRangeF_spec (fault : Option Nat) (cfg : Cfg) (w : World) (range : List Series.Entry)
    (threads : Nat) (schedA schedS : List Nat) (out : Outcome) (w' : World)
    (h : parPushRangeF fault cfg w range threads schedA schedS = some (out, w')) :
    Ext (fun _ => True) { w with faultAt := fault } w' ∧
    (NY { w with faultAt := fault } → out = .allApplied ∨ out = .notAll → NY w') ∧
    (SaveNoPanic cfg w.fs range threads schedA → NY { w with faultAt := fault } → NY w' ∨ out = .error) := by
  unfold parPushRangeF at h
  cases hp : parApplyPatchesF fault w cfg range threads schedA schedS with
  | none => rw [hp] at h; cases h
  | some res =>
    rw [hp] at h
    obtain ⟨hx, h2, h3⟩ := parApplyPatchesF_spec (P := fun _ => True) fault w cfg range threads schedA schedS res
      (fun _ => trivial)
      (fun patches r _ _ i _ => ⟨(workerSaveC_good _ _ _ _ _).all.mono (fun _ _ => trivial),
        fun _ _ _ _ => ⟨trivial, trivial, fun _ => trivial⟩⟩) hp
    cases res with
    | error p =>
      obtain ⟨e, w1⟩ := p
      cases e with
      | err =>
        cases h
        exact ⟨hx, fun _ ho => (by rcases ho with ho | ho <;> cases ho), fun _ _ => .inr rfl⟩
      | panic =>
        cases h
        refine ⟨hx, fun _ ho => (by rcases ho with ho | ho <;> cases ho), fun hnp hny => ?_⟩
        rcases h3 hnp hny _ rfl with h | h
        · exact .inl h
        · cases h
    | ok a =>
      obtain ⟨w1, final⟩ := a
      simp only at h
      split at h
      · cases h
        exact ⟨hx, fun hny _ => h2 hny _ rfl, fun _ hny => .inl (h2 hny _ rfl)⟩
      · have hs := fun hny => saveApplied_ny (names := (range.take final).map (·.name)) (h2 hny _ rfl)
        have hsx := saveApplied_ext w1 ((range.take final).map (·.name))
        split at h
        · rename_i e w2 heq
          cases h
          rw [heq] at hsx
          exact ⟨Ext.trans hx hsx, fun _ ho => (by rcases ho with ho | ho <;> cases ho), fun _ _ => .inr rfl⟩
        · rename_i w2 heq
          cases h
          rw [heq] at hsx
          refine ⟨Ext.trans hx hsx, fun hny _ => ?_, fun _ hny => .inl ?_⟩
          · have := hs hny; rw [heq] at this; exact this
          · have := hs hny; rw [heq] at this; exact this

/-- **`cmd_push` with the parallel driver and fault injection** -/
theorem parPushF_spec (fault : Option Nat) (cfg : Cfg) (w : World) (threads : Nat) (schedA schedS : List Nat)
    (out : Outcome) (w' : World) (h : parPushF fault cfg w threads schedA schedS = some (out, w')) :
    Ext (fun _ => True) { w with faultAt := fault } w' ∧
    (NY { w with faultAt := fault } → out = .allApplied ∨ out = .notAll → NY w') ∧
    ((∀ range, plan cfg w.fs = .apply range → SaveNoPanic cfg w.fs range threads schedA) →
      NY { w with faultAt := fault } → NY w' ∨ out = .error) := by
  unfold parPushF at h
  split at h
  · cases h; exact ⟨Ext.refl _, fun hny _ => hny, fun _ hny => .inl hny⟩
  · cases h; exact ⟨Ext.refl _, fun hny _ => hny, fun _ hny => .inl hny⟩
  · rename_i range hplan
    obtain ⟨h1, h2, h3⟩ := parPushRangeF_spec fault cfg w range threads schedA schedS out w' h
    exact ⟨h1, h2, fun hnp => h3 (hnp range hplan)⟩

end RQ.Par

#print axioms RQ.Par.parApplyPatchesF_none
#print axioms RQ.Push.workerSaveC_good
#print axioms RQ.Par.savePhaseF_spec
#print axioms RQ.Par.parApplyPatchesF_spec
#print axioms RQ.Par.parPushRangeF_spec
#print axioms RQ.Par.parPushF_spec
